/-
  Proof/Mpsc.lean — inductive invariants of the MPSC / SPSC queue model (property C15).

  Everything is proved for `Mpsc.step k` with `k` arbitrary, i.e. once for mpsc_fifo.h
  (`Kind.mpsc`) and spsc_fifo.h (`Kind.spsc`); `Model/Mpscr.lean` delegates to
  `Mpsc.step .spsc`, so the relaxed queue's sub-queues inherit the same invariants.
-/
import LibfiberVerif.Model.Mpsc

namespace LibfiberVerif.Mpsc

/-! ### list helpers (index based) -/

theorem idx_lt {l : List Nat} {i a : Nat} (h : l[i]? = some a) : i < l.length := by
  rcases List.getElem?_eq_some_iff.mp h with ⟨hi, _⟩; exact hi

theorem mem_of_idx {l : List Nat} {i a : Nat} (h : l[i]? = some a) : a ∈ l :=
  List.mem_iff_getElem?.mpr ⟨i, h⟩

theorem idx_app {l : List Nat} {i a : Nat} (n : Nat) (h : l[i]? = some a) :
    (l ++ [n])[i]? = some a := by
  rw [List.getElem?_append_left (idx_lt h)]; exact h

theorem idx_app_cases {l : List Nat} {n i a : Nat} (h : (l ++ [n])[i]? = some a) :
    l[i]? = some a ∨ (i = l.length ∧ a = n) := by
  by_cases hi : i < l.length
  · left; rw [List.getElem?_append_left hi] at h; exact h
  · right
    have hi' : l.length ≤ i := Nat.le_of_not_lt hi
    rw [List.getElem?_append_right hi'] at h
    have hlt := idx_lt h
    simp at hlt
    have : i = l.length := by omega
    subst this
    simp at h
    exact ⟨rfl, h.symm⟩

theorem idx_drop1 (l : List Nat) (i : Nat) : (l.drop 1)[i]? = (l[i + 1]?) := by
  rw [List.getElem?_drop, Nat.add_comm 1 i]

theorem nodup_idx {l : List Nat} (hnd : l.Nodup) {i j a : Nat}
    (hi : l[i]? = some a) (hj : l[j]? = some a) : i = j :=
  (List.getElem?_inj (idx_lt hi) hnd).mp (hi.trans hj.symm)

theorem idx_of_mem {l : List Nat} {a : Nat} (h : a ∈ l) : ∃ i : Nat, l[i]? = some a :=
  List.mem_iff_getElem?.mp h

theorem drop1_app {l : List Nat} (n : Nat) (h : 0 < l.length) :
    (l ++ [n]).drop 1 = l.drop 1 ++ [n] := by
  cases l with
  | nil => simp at h
  | cons a r => simp

theorem drop1_eq_cons {l : List Nat} {x : Nat} (h : l[1]? = some x) :
    l.drop 1 = x :: l.drop 2 := by
  have hlt := idx_lt h
  rw [List.drop_eq_getElem_cons hlt]
  rcases List.getElem?_eq_some_iff.mp h with ⟨_, hx⟩
  rw [hx]

/-! ### the structural invariant -/

/-- payloads currently in the hands of the trypop in progress (taken out of the queue, not
    yet returned) -/
def inflight (s : St) : List Nat :=
  match s.cpc with
  | .moved _ x => [s.data x]
  | .gotData _ _ d => [d]
  | .wrote _ d => [d]
  | .readBack _ d => [d]
  | _ => []

/-- producer `t` owns node `n`, which carries `v` and is not (yet) in the queue -/
def Owned (s : St) (t v n : Nat) : Prop :=
  s.holder n = some t ∧ n ∉ s.q ∧ n ≠ 0 ∧ s.data n = v ∧ s.cpc.node ≠ n

structure Inv (k : Kind) (s : St) : Prop where
  qpos : 0 < s.q.length
  hq : s.q[0]? = some s.head
  tl : s.q[s.q.length - 1]? = some s.tail
  nd : s.q.Nodup
  nz : 0 ∉ s.q
  /-- consecutive queue nodes are linked, or the producer of the second one is between its
      publication and its link write -/
  lk : ∀ i a b, s.q[i]? = some a → s.q[i + 1]? = some b →
    s.next a = b ∨ (s.next a = 0 ∧ ∃ t v, s.pc t = .xchgd v b a)
  last : s.next s.tail = 0
  pHave : ∀ t v n, s.pc t = .haveNode v n → Owned s t v n
  pClr : ∀ t v n, s.pc t = .cleared v n → Owned s t v n ∧ s.next n = 0
  pGot : ∀ t v n p, s.pc t = .gotTail v n p → Owned s t v n ∧ s.next n = 0 ∧ k = .spsc ∧ p = s.tail
  pX : ∀ t v n p, s.pc t = .xchgd v n p →
    s.holder n = some t ∧ s.next p = 0 ∧ s.data n = v ∧
      ∃ i, s.q[i]? = some p ∧ s.q[i + 1]? = some n
  /-- (one producer) the node being linked is the last one -/
  pXs : k = .spsc → ∀ t v n p, s.pc t = .xchgd v n p → n = s.tail
  single : k = .spsc → ∀ t, s.pc t ≠ .idle → s.pusher = some t
  /-- conservation: published = returned ++ in the consumer's hands ++ still queued -/
  vals : s.pushed = s.popped ++ inflight s ++ (s.q.drop 1).map s.data
  cGotHead : ∀ h, s.cpc = .gotHead h → h = s.head
  cGotNext : ∀ h x, s.cpc = .gotNext h x → h = s.head ∧ (x ≠ 0 → s.next h = x)
  cMoved : ∀ h x, s.cpc = .moved h x → x = s.head ∧ h ∉ s.q
  cGotData : ∀ h x d, s.cpc = .gotData h x d → h ∉ s.q
  cWrote : ∀ h d, s.cpc = .wrote h d → s.data h = d ∧ h ∉ s.q
  cPkGotHead : ∀ h, s.cpc = .pkGotHead h → h = s.head
  cPkGotNext : ∀ h x, s.cpc = .pkGotNext h x → h = s.head ∧ (x ≠ 0 → s.next h = x)
  /-- the payload a peek has read is the `data` of the node right behind the stub -/
  cPkGotData : ∀ h x d, s.cpc = .pkGotData h x d → s.q[1]? = some x ∧ s.data x = d
  /-- a peek that returned after `i` successful trypops reported the `i`-th published payload -/
  pk : ∀ i v, (i, v) ∈ s.peeked → s.pushed[i]? = some v

theorem inv_init (k : Kind) (stub : Nat) (h0 : stub ≠ 0) : Inv k (init stub) := by
  constructor <;> simp [init, inflight, Owned]
  exact fun h => h0 h.symm

/-- close a goal that is literally a field of the old invariant -/
macro "inv_frame " h:term : tactic => `(tactic| first
  | exact ($h).qpos | exact ($h).hq | exact ($h).tl | exact ($h).nd | exact ($h).nz
  | exact ($h).lk | exact ($h).last | exact ($h).pHave | exact ($h).pClr | exact ($h).pGot
  | exact ($h).pX | exact ($h).pXs | exact ($h).single | exact ($h).vals | exact ($h).cGotHead
  | exact ($h).cGotNext | exact ($h).cMoved | exact ($h).cGotData | exact ($h).cWrote
  | exact ($h).cPkGotHead | exact ($h).cPkGotNext | exact ($h).cPkGotData | exact ($h).pk)

theorem inflight_congr {s s' : St} (hc : s'.cpc = s.cpc)
    (hd : ∀ h x, s.cpc = .moved h x → s'.data x = s.data x) : inflight s' = inflight s := by
  unfold inflight
  rw [hc]
  cases hcpc : s.cpc <;> simp
  exact hd _ _ hcpc

theorem vals_frame {s s' : St}
    (h : s.pushed = s.popped ++ inflight s ++ (s.q.drop 1).map s.data)
    (hp : s'.pushed = s.pushed) (hpo : s'.popped = s.popped) (hq : s'.q = s.q)
    (hc : s'.cpc = s.cpc) (hd : ∀ a, a ∈ s.q → s'.data a = s.data a)
    (hmv : ∀ h x, s.cpc = .moved h x → x ∈ s.q) :
    s'.pushed = s'.popped ++ inflight s' ++ (s'.q.drop 1).map s'.data := by
  have hin : inflight s' = inflight s := inflight_congr hc (fun h x hm => hd _ (hmv h x hm))
  have hmap : (s.q.drop 1).map s'.data = (s.q.drop 1).map s.data := by
    apply List.map_congr_left
    intro a ha
    exact hd a (List.mem_of_mem_drop ha)
  rw [hp, hpo, hq, hin, hmap]; exact h

theorem head_mem {k : Kind} {s : St} (h : Inv k s) : s.head ∈ s.q := mem_of_idx h.hq
theorem tail_mem {k : Kind} {s : St} (h : Inv k s) : s.tail ∈ s.q := mem_of_idx h.tl

/-- a non-NULL `next` of the stub is the second node of `q` -/
theorem second_of_next {k : Kind} {s : St} (hI : Inv k s) {x : Nat} (hx : x ≠ 0)
    (hnx : s.next s.head = x) : s.q[1]? = some x := by
  have hq0 := hI.hq
  have hlen : 1 < s.q.length := by
    by_cases hl : s.q.length = 1
    · have htl := hI.tl
      rw [hl] at htl
      simp only [Nat.sub_self] at htl
      rw [hq0] at htl
      have : s.head = s.tail := Option.some.inj htl
      have := hI.last
      grind
    · have := hI.qpos; omega
  have hb : s.q[1]? = some (s.q[1]'hlen) := List.getElem?_eq_getElem hlen
  have := hI.lk 0 s.head _ hq0 hb
  rw [hb]; grind

/-- the payload right behind the stub is the next one to be returned: it is
    `pushed[popped.length]` whenever no trypop holds a payload in its hands -/
theorem front_payload {k : Kind} {s : St} (hI : Inv k s) (hin : inflight s = []) {x : Nat}
    (hq1 : s.q[1]? = some x) : s.pushed[s.popped.length]? = some (s.data x) := by
  rw [hI.vals, hin, List.append_nil, List.getElem?_append_right (Nat.le_refl _), Nat.sub_self,
    drop1_eq_cons hq1]
  rfl

section steps
variable {k : Kind} {s s' : St}

theorem inv_callPush {t v : Nat} (h : Inv k s) (hs : step k s (.callPush t v) = some s') :
    Inv k s' := by
  simp only [step] at hs
  split at hs <;> simp at hs
  rename_i hc
  obtain ⟨hidle, hv, hfresh, hcons, hk⟩ := hc
  subst hs
  constructor <;> try inv_frame h
  case lk => have := h.lk; simp only [upd_apply]; grind
  case pHave => have := h.pHave; simp only [upd_apply, Owned] at *; grind
  case pClr => have := h.pClr; simp only [upd_apply, Owned] at *; grind
  case pGot => have := h.pGot; simp only [upd_apply, Owned] at *; grind
  case pX => have := h.pX; simp only [upd_apply]; grind
  case single => have := h.single; simp only [upd_apply]; grind
  case pXs => have := h.pXs; simp only [upd_apply]; grind

theorem inv_wrDataClient {t n x : Nat} (h : Inv k s)
    (hs : step k s (.wrDataClient t n x) = some s') : Inv k s' := by
  simp only [step] at hs
  split at hs
  next v hpc =>
    split at hs
    next hc =>
      obtain ⟨hx, hn0, hnq, hhold, hnode⟩ := hc
      simp only [Option.some.injEq] at hs; subst hs
      have hhd := head_mem h
      constructor <;> try inv_frame h
      case lk => have := h.lk; simp only [upd_apply]; grind
      case pHave => have := h.pHave; simp only [upd_apply, Owned] at *; grind
      case pClr => have := h.pClr; simp only [upd_apply, Owned] at *; grind
      case pGot => have := h.pGot; simp only [upd_apply, Owned] at *; grind
      case pX => have := h.pX; simp only [upd_apply] at *; grind
      case single => have := h.single; simp only [upd_apply]; grind
      case pXs => have := h.pXs; simp only [upd_apply]; grind
      case vals =>
        refine vals_frame (s := s) h.vals rfl rfl rfl rfl ?_ ?_
        · intro a ha; simp only [upd_apply]; grind
        · intro h' x' hm; have := h.cMoved _ _ hm; grind
      case cWrote =>
        intro h' d hw
        have := h.cWrote _ _ hw
        have hn : s.cpc.node = h' := by rw [hw]; rfl
        simp only [upd_apply]; grind
      case cPkGotData =>
        intro h' x' d hg
        obtain ⟨hq1, hd⟩ := h.cPkGotData _ _ _ hg
        have := mem_of_idx hq1
        refine ⟨hq1, ?_⟩
        simp only [upd_apply]; grind
    next => simp at hs
  next => simp at hs

theorem inv_wrNext {t n x : Nat} (h : Inv k s)
    (hs : step k s (.wrNext t n x) = some s') : Inv k s' := by
  simp only [step] at hs
  split at hs
  next v m hpc =>
    -- `n->next = NULL` on the node the producer owns
    split at hs
    next hc =>
      obtain ⟨hnm, hx⟩ := hc
      subst hnm hx
      simp only [Option.some.injEq] at hs; subst hs
      obtain ⟨hhold, hnq, hn0, hdat, hnode⟩ := h.pHave _ _ _ hpc
      have hhd := head_mem h
      have htl := tail_mem h
      constructor <;> try inv_frame h
      case lk =>
        intro i a b hi hj
        have ha := mem_of_idx hi
        have := h.lk i a b hi hj
        simp only [upd_apply]; grind
      case last => simp only [upd_apply]; have := h.last; grind
      case pHave => have := h.pHave; simp only [upd_apply, Owned] at *; grind
      case pClr => have := h.pClr; simp only [upd_apply, Owned] at *; grind
      case pGot => have := h.pGot; simp only [upd_apply, Owned] at *; grind
      case pX =>
        intro t' v' n' p' hp
        simp only [upd_apply] at hp
        have hne : t' ≠ t := by grind
        simp only [hne, if_false] at hp
        obtain ⟨h1, h2, hd, i, h3, h4⟩ := h.pX _ _ _ _ hp
        have := mem_of_idx h3
        refine ⟨h1, ?_, hd, i, h3, h4⟩
        simp only [upd_apply]; grind
      case single => have := h.single; simp only [upd_apply]; grind
      case pXs => have := h.pXs; simp only [upd_apply]; grind
      case cGotNext =>
        intro h' x' hg
        have := h.cGotNext _ _ hg
        simp only [upd_apply]; grind
      case cPkGotNext =>
        intro h' x' hg
        have := h.cPkGotNext _ _ hg
        simp only [upd_apply]; grind
    next => simp at hs
  next v m p hpc =>
    -- the link write `p->next = m`
    split at hs
    next hc =>
      obtain ⟨hnp, hx⟩ := hc
      subst hnp hx
      simp only [Option.some.injEq] at hs; subst hs
      obtain ⟨hhold, hnext, hdat0, i0, hi0, hj0⟩ := h.pX _ _ _ _ hpc
      have hnd := h.nd
      constructor <;> try inv_frame h
      case lk =>
        intro i a b hi hj
        have := h.lk i a b hi hj
        by_cases hap : a = n
        · subst hap
          have : i = i0 := nodup_idx hnd hi hi0
          subst this
          have : b = x := by rw [hj0] at hj; exact (Option.some.inj hj).symm
          left; simp only [upd_apply]; grind
        · simp only [upd_apply]; grind
      case last =>
        have htl := h.tl
        have hlt := idx_lt hj0
        have : s.tail ≠ n := by
          intro he
          rw [he] at htl
          have := nodup_idx hnd htl hi0
          omega
        simp only [upd_apply]; have := h.last; grind
      case pHave => have := h.pHave; simp only [upd_apply, Owned] at *; grind
      case pClr =>
        intro t' v' n' hp
        simp only [upd_apply] at hp
        have hne : t' ≠ t := by grind
        simp only [hne, if_false] at hp
        obtain ⟨⟨h1, h2, h3, h4, h5⟩, h6⟩ := h.pClr _ _ _ hp
        have := mem_of_idx hi0
        simp only [upd_apply, Owned]; grind
      case pGot =>
        intro t' v' n' p' hp
        simp only [upd_apply] at hp
        have hne : t' ≠ t := by grind
        simp only [hne, if_false] at hp
        obtain ⟨⟨h1, h2, h3, h4, h5⟩, h6, h7, h8⟩ := h.pGot _ _ _ _ hp
        have := mem_of_idx hi0
        simp only [upd_apply, Owned]; grind
      case pX =>
        intro t' v' n' p' hp
        simp only [upd_apply] at hp
        have hne : t' ≠ t := by grind
        simp only [hne, if_false] at hp
        obtain ⟨h1, h2, hd, i, h3, h4⟩ := h.pX _ _ _ _ hp
        have hnm : n' ≠ x := by grind
        have hpn : p' ≠ n := by
          intro he; subst he
          have : i = i0 := nodup_idx hnd h3 hi0
          subst this
          rw [hj0] at h4; exact hnm (Option.some.inj h4).symm
        refine ⟨?_, ?_, hd, i, h3, h4⟩
        · simp only [upd_apply]; grind
        · simp only [upd_apply]; grind
      case single => have := h.single; simp only [upd_apply]; grind
      case pXs => have := h.pXs; simp only [upd_apply]; grind
      case cGotNext =>
        intro h' x' hg
        have := h.cGotNext _ _ hg
        simp only [upd_apply]; grind
      case cPkGotNext =>
        intro h' x' hg
        have := h.cPkGotNext _ _ hg
        simp only [upd_apply]; grind
    next => simp at hs
  next => simp at hs

theorem inv_publish {t v n p : Nat} (h : Inv k s) (hown : Owned s t v n) (hnext : s.next n = 0)
    (hp : p = s.tail) (hpc : s.pc t = .cleared v n ∨ s.pc t = .gotTail v n p)
    (hoth : ∀ t' v' n' p', s.pc t' = .gotTail v' n' p' → t' = t) :
    Inv k (publish s t v n p) := by
  obtain ⟨hhold, hnq, hn0, hdat, hnode⟩ := hown
  have hqpos := h.qpos
  have htl := h.tl
  constructor
  case qpos => simp [publish]
  case hq => exact idx_app n h.hq
  case tl => simp [publish]
  case nd =>
    simp only [publish]
    rw [List.nodup_append]
    refine ⟨h.nd, by simp, ?_⟩
    intro a ha b hb; simp at hb; subst hb; intro he; subst he; exact hnq ha
  case nz =>
    simp only [publish, List.mem_append, List.mem_singleton, not_or]
    exact ⟨h.nz, fun he => hn0 he.symm⟩
  case lk =>
    intro i a b hi hj
    simp only [publish] at hi hj ⊢
    rcases idx_app_cases hj with hj' | ⟨hlen, hb⟩
    · have hlt := idx_lt hj'
      rcases idx_app_cases hi with hi' | ⟨hl, _⟩
      · have := h.lk i a b hi' hj'
        simp only [upd_apply]; grind
      · omega
    · subst hb
      rcases idx_app_cases hi with hi' | ⟨hl, _⟩
      · have hi2 : i = s.q.length - 1 := by omega
        rw [hi2, htl] at hi'
        have : a = s.tail := (Option.some.inj hi').symm
        right
        refine ⟨by rw [this]; exact h.last, t, v, ?_⟩
        simp only [upd_apply, if_true]; rw [this, hp]
      · omega
  case last => simpa [publish] using hnext
  case pHave =>
    have := h.pHave
    simp only [publish, upd_apply, Owned, List.mem_append, List.mem_singleton] at *
    grind
  case pClr =>
    have := h.pClr
    simp only [publish, upd_apply, Owned, List.mem_append, List.mem_singleton] at *
    grind
  case pGot =>
    intro t' v' n' p' hp'
    simp only [publish, upd_apply] at hp'
    have hne : t' ≠ t := by grind
    simp only [hne, if_false] at hp'
    exact absurd (hoth _ _ _ _ hp') hne
  case pX =>
    intro t' v' n' p' hp'
    simp only [publish, upd_apply] at hp' ⊢
    by_cases hne : t' = t
    · subst hne
      simp only [if_true, Pc.xchgd.injEq] at hp'
      obtain ⟨rfl, rfl, rfl⟩ := hp'
      refine ⟨hhold, by rw [hp]; exact h.last, hdat, s.q.length - 1, ?_, ?_⟩
      · rw [hp]; exact idx_app _ htl
      · have : s.q.length - 1 + 1 = s.q.length := by omega
        rw [this]; simp
    · simp only [hne, if_false] at hp'
      obtain ⟨h1, h2, hd, i, h3, h4⟩ := h.pX _ _ _ _ hp'
      exact ⟨h1, h2, hd, i, idx_app _ h3, idx_app _ h4⟩
  case pXs =>
    intro hk t' v' n' p' hp'
    simp only [publish, upd_apply] at hp' ⊢
    by_cases hne : t' = t
    · subst hne
      simp only [if_true, Pc.xchgd.injEq] at hp'
      exact hp'.2.1.symm
    · simp only [hne, if_false] at hp'
      have h1 := h.single hk t' (by rw [hp']; simp)
      have h2 := h.single hk t (by rcases hpc with hpc | hpc <;> rw [hpc] <;> simp)
      rw [h1] at h2; exact absurd (Option.some.inj h2) hne
  case single =>
    have := h.single
    simp only [publish, upd_apply]; grind
  case vals =>
    have hin : inflight (publish s t v n p) = inflight s :=
      inflight_congr rfl (fun _ _ _ => rfl)
    rw [hin]
    simp only [publish]
    rw [drop1_app n hqpos, List.map_append, h.vals]
    simp [hdat]
  case cGotHead => exact h.cGotHead
  case cGotNext => exact h.cGotNext
  case cPkGotHead => exact h.cPkGotHead
  case cPkGotNext => exact h.cPkGotNext
  case cPkGotData =>
    intro h' x' d hg
    obtain ⟨hq1, hd⟩ := h.cPkGotData _ _ _ hg
    exact ⟨idx_app _ hq1, hd⟩
  case pk =>
    intro i w hm
    exact idx_app _ (h.pk _ _ hm)
  case cMoved =>
    intro h' x' hm
    simp only [publish] at hm
    have := h.cMoved _ _ hm
    have hn : s.cpc.node = h' := by rw [hm]; rfl
    simp only [publish, List.mem_append, List.mem_singleton]; grind
  case cGotData =>
    intro h' x' d hm
    simp only [publish] at hm
    have := h.cGotData _ _ _ hm
    have hn : s.cpc.node = h' := by rw [hm]; rfl
    simp only [publish, List.mem_append, List.mem_singleton]; grind
  case cWrote =>
    intro h' d hm
    simp only [publish] at hm
    have := h.cWrote _ _ hm
    have hn : s.cpc.node = h' := by rw [hm]; rfl
    simp only [publish, List.mem_append, List.mem_singleton]; grind

theorem inv_xchgTail {t o n : Nat} (h : Inv k s)
    (hs : step k s (.xchgTail t o n) = some s') : Inv k s' := by
  simp only [step] at hs
  split at hs
  next v m hpc =>
    split at hs
    next hc =>
      obtain ⟨hk, ho, hn⟩ := hc
      subst hn
      simp only [Option.some.injEq] at hs; subst hs
      obtain ⟨hown, hnx⟩ := h.pClr _ _ _ hpc
      refine inv_publish h hown hnx ho (Or.inl hpc) ?_
      intro t' v' n' p' hg
      have := (h.pGot _ _ _ _ hg).2.2.1
      rw [hk] at this; cases this
    next => simp at hs
  next => simp at hs

theorem inv_ldTail {t x : Nat} (h : Inv k s)
    (hs : step k s (.ldTail t x) = some s') : Inv k s' := by
  simp only [step] at hs
  split at hs
  next v m hpc =>
    split at hs
    next hc =>
      obtain ⟨hk, hx⟩ := hc
      simp only [Option.some.injEq] at hs; subst hs
      have hcl := h.pClr _ _ _ hpc
      constructor <;> try inv_frame h
      case lk => have := h.lk; simp only [upd_apply]; grind
      case pHave => have := h.pHave; simp only [upd_apply, Owned] at *; grind
      case pClr => have := h.pClr; simp only [upd_apply, Owned] at *; grind
      case pGot => have := h.pGot; simp only [upd_apply, Owned] at *; grind
      case pX => have := h.pX; simp only [upd_apply]; grind
      case single => have := h.single; simp only [upd_apply]; grind
      case pXs => have := h.pXs; simp only [upd_apply]; grind
    next => simp at hs
  next => simp at hs

theorem inv_stTail {t x : Nat} (h : Inv k s)
    (hs : step k s (.stTail t x) = some s') : Inv k s' := by
  simp only [step] at hs
  split at hs
  next v m p hpc =>
    split at hs
    next hc =>
      subst hc
      simp only [Option.some.injEq] at hs; subst hs
      obtain ⟨hown, hnx, hk, hp⟩ := h.pGot _ _ _ _ hpc
      refine inv_publish h hown hnx hp (Or.inr hpc) ?_
      intro t' v' n' p' hg
      have h1 := h.single hk t' (by rw [hg]; simp)
      have h2 := h.single hk t (by rw [hpc]; simp)
      rw [h1] at h2; exact Option.some.inj h2
    next => simp at hs
  next => simp at hs

theorem inv_retPush {t r : Nat} (h : Inv k s)
    (hs : step k s (.retPush t r) = some s') : Inv k s' := by
  simp only [step] at hs
  split at hs
  next v hpc =>
    split at hs
    next hc =>
      simp only [Option.some.injEq] at hs; subst hs
      constructor <;> try inv_frame h
      case lk => have := h.lk; simp only [upd_apply]; grind
      case pHave => have := h.pHave; simp only [upd_apply, Owned] at *; grind
      case pClr => have := h.pClr; simp only [upd_apply, Owned] at *; grind
      case pGot => have := h.pGot; simp only [upd_apply, Owned] at *; grind
      case pX => have := h.pX; simp only [upd_apply]; grind
      case single => have := h.single; simp only [upd_apply]; grind
      case pXs => have := h.pXs; simp only [upd_apply]; grind
    next => simp at hs
  next => simp at hs

theorem inv_callPop {t : Nat} (h : Inv k s)
    (hs : step k s (.callPop t) = some s') : Inv k s' := by
  simp only [step] at hs
  split at hs
  next hc =>
    obtain ⟨hidle, hpc⟩ := hc
    simp only [Option.some.injEq] at hs; subst hs
    constructor <;> try inv_frame h
    case pHave => have := h.pHave; simp only [Owned, CPc.node] at *; grind
    case pClr => have := h.pClr; simp only [Owned, CPc.node] at *; grind
    case pGot => have := h.pGot; simp only [Owned, CPc.node] at *; grind
    case vals => have := h.vals; simp only [inflight, hidle] at *; exact this
    all_goals simp
  next => simp at hs

theorem inv_rdHead {t x : Nat} (h : Inv k s)
    (hs : step k s (.rdHead t x) = some s') : Inv k s' := by
  simp only [step] at hs
  split at hs
  next hcp =>
    split at hs
    next hc =>
      obtain ⟨ht, hx⟩ := hc
      simp only [Option.some.injEq] at hs; subst hs
      constructor <;> try inv_frame h
      case pHave => have := h.pHave; simp only [Owned, CPc.node] at *; grind
      case pClr => have := h.pClr; simp only [Owned, CPc.node] at *; grind
      case pGot => have := h.pGot; simp only [Owned, CPc.node] at *; grind
      case vals => have := h.vals; simp only [inflight, hcp] at *; exact this
      case cGotHead => intro h' hh; simp at hh; rw [← hh, hx]
      all_goals simp
    next => simp at hs
  next hcp =>
    split at hs
    next hc =>
      obtain ⟨ht, hx⟩ := hc
      simp only [Option.some.injEq] at hs; subst hs
      constructor <;> try inv_frame h
      case pHave => have := h.pHave; simp only [Owned, CPc.node] at *; grind
      case pClr => have := h.pClr; simp only [Owned, CPc.node] at *; grind
      case pGot => have := h.pGot; simp only [Owned, CPc.node] at *; grind
      case vals => have := h.vals; simp only [inflight, hcp] at *; exact this
      case cPkGotHead => intro h' hh; simp at hh; rw [← hh, hx]
      all_goals simp
    next => simp at hs
  next => simp at hs

theorem inv_rdNext {t n x : Nat} (h : Inv k s)
    (hs : step k s (.rdNext t n x) = some s') : Inv k s' := by
  simp only [step] at hs
  split at hs
  next h0 hcp =>
    split at hs
    next hc =>
      obtain ⟨ht, hn, hx⟩ := hc
      simp only [Option.some.injEq] at hs; subst hs
      have hh := h.cGotHead _ hcp
      constructor <;> try inv_frame h
      case pHave => have := h.pHave; simp only [Owned, CPc.node] at *; grind
      case pClr => have := h.pClr; simp only [Owned, CPc.node] at *; grind
      case pGot => have := h.pGot; simp only [Owned, CPc.node] at *; grind
      case vals => have := h.vals; simp only [inflight, hcp] at *; exact this
      case cGotNext => intro h' x' hg; simp at hg; grind
      all_goals simp
    next => simp at hs
  next h0 hcp =>
    split at hs
    next hc =>
      obtain ⟨ht, hn, hx⟩ := hc
      simp only [Option.some.injEq] at hs; subst hs
      have hh := h.cPkGotHead _ hcp
      constructor <;> try inv_frame h
      case pHave => have := h.pHave; simp only [Owned, CPc.node] at *; grind
      case pClr => have := h.pClr; simp only [Owned, CPc.node] at *; grind
      case pGot => have := h.pGot; simp only [Owned, CPc.node] at *; grind
      case vals => have := h.vals; simp only [inflight, hcp] at *; exact this
      case cPkGotNext => intro h' x' hg; simp at hg; grind
      all_goals simp
    next => simp at hs
  next => simp at hs

theorem inv_wrHead {t x : Nat} (h : Inv k s)
    (hs : step k s (.wrHead t x) = some s') : Inv k s' := by
  simp only [step] at hs
  split at hs
  next h0 y hcp =>
    split at hs
    next hc =>
      obtain ⟨ht, hy, hx⟩ := hc
      subst hx
      simp only [Option.some.injEq] at hs; subst hs
      obtain ⟨hh, hnx⟩ := h.cGotNext _ _ hcp
      have hnx := hnx hy
      subst hh
      have hq0 := h.hq
      have hnd := h.nd
      -- the queue has a second node, and it is `x`
      have hlen : 1 < s.q.length := by
        by_cases hl : s.q.length = 1
        · have htl := h.tl
          rw [hl] at htl
          simp only [Nat.sub_self] at htl
          rw [hq0] at htl
          have : s.head = s.tail := Option.some.inj htl
          have := h.last
          grind
        · have := h.qpos; omega
      have hq1 : s.q[1]? = some x := by
        have hb : s.q[1]? = some (s.q[1]'hlen) := List.getElem?_eq_getElem hlen
        have := h.lk 0 s.head _ hq0 hb
        rw [hb]; grind
      have hhq : s.head ∉ s.q.drop 1 := by
        intro hm
        obtain ⟨j, hj⟩ := idx_of_mem hm
        rw [idx_drop1] at hj
        have := nodup_idx hnd hj hq0
        omega
      constructor
      case qpos => simp only [List.length_drop]; omega
      case hq => simp only [idx_drop1]; exact hq1
      case tl =>
        simp only [idx_drop1, List.length_drop]
        have : s.q.length - 1 - 1 + 1 = s.q.length - 1 := by omega
        rw [this]; exact h.tl
      case nd => exact List.Nodup.sublist (List.drop_sublist 1 s.q) hnd
      case nz => intro hm; exact h.nz (List.mem_of_mem_drop hm)
      case lk =>
        intro i a b hi hj
        simp only [idx_drop1] at hi hj
        exact h.lk (i + 1) a b hi hj
      case last => exact h.last
      case pHave =>
        intro t' v' n' hp
        obtain ⟨h1, h2, h3, h4, h5⟩ := h.pHave _ _ _ hp
        have := head_mem h
        refine ⟨h1, fun hm => h2 (List.mem_of_mem_drop hm), h3, h4, ?_⟩
        simp only [CPc.node]; grind
      case pClr =>
        intro t' v' n' hp
        obtain ⟨⟨h1, h2, h3, h4, h5⟩, h6⟩ := h.pClr _ _ _ hp
        have := head_mem h
        refine ⟨⟨h1, fun hm => h2 (List.mem_of_mem_drop hm), h3, h4, ?_⟩, h6⟩
        simp only [CPc.node]; grind
      case pGot =>
        intro t' v' n' p' hp
        obtain ⟨⟨h1, h2, h3, h4, h5⟩, h6⟩ := h.pGot _ _ _ _ hp
        have := head_mem h
        refine ⟨⟨h1, fun hm => h2 (List.mem_of_mem_drop hm), h3, h4, ?_⟩, h6⟩
        simp only [CPc.node]; grind
      case pX =>
        intro t' v' n' p' hp
        obtain ⟨h1, h2, hd, i, h3, h4⟩ := h.pX _ _ _ _ hp
        have hi : i ≠ 0 := by
          intro hi; subst hi
          rw [hq0] at h3
          have : s.head = p' := Option.some.inj h3
          grind
        refine ⟨h1, h2, hd, i - 1, ?_, ?_⟩
        · simp only [idx_drop1]; have : i - 1 + 1 = i := by omega
          rw [this]; exact h3
        · simp only [idx_drop1]; have : i - 1 + 1 + 1 = i + 1 := by omega
          rw [this]; exact h4
      case single => exact h.single
      case pXs => exact h.pXs
      case vals =>
        have hv := h.vals
        simp only [inflight, hcp, List.append_nil] at hv
        simp only [inflight, List.drop_drop]
        rw [hv, drop1_eq_cons hq1]
        simp
      case cGotHead => intro h' hh; simp at hh
      case cGotNext => intro h' x' hh; simp at hh
      case cMoved =>
        intro h' x' hm
        simp only [CPc.moved.injEq] at hm
        obtain ⟨rfl, rfl⟩ := hm
        exact ⟨rfl, hhq⟩
      case cGotData => intro h' x' d hh; simp at hh
      case cWrote => intro h' d hh; simp at hh
      case cPkGotHead => intro h' hh; simp at hh
      case cPkGotNext => intro h' x' hh; simp at hh
      case cPkGotData => intro h' x' d hh; simp at hh
      case pk => exact h.pk
    next => simp at hs
  next => simp at hs

theorem inv_rdDataPop {t n d : Nat} (h : Inv k s)
    (hs : step k s (.rdDataPop t n d) = some s') : Inv k s' := by
  simp only [step] at hs
  split at hs
  next h0 x hcp =>
    split at hs
    next hc =>
      obtain ⟨ht, hn, hd⟩ := hc
      simp only [Option.some.injEq] at hs; subst hs
      have hm := h.cMoved _ _ hcp
      constructor <;> try inv_frame h
      case pHave => have := h.pHave; simp only [Owned, hcp, CPc.node] at *; exact this
      case pClr => have := h.pClr; simp only [Owned, hcp, CPc.node] at *; exact this
      case pGot => have := h.pGot; simp only [Owned, hcp, CPc.node] at *; exact this
      case vals => have := h.vals; simp only [inflight, hcp] at *; rw [hd]; exact this
      case cGotData => intro h' x' d' hg; simp at hg; grind
      all_goals simp
    next => simp at hs
  next => simp at hs

theorem inv_wrDataPop {t n d : Nat} (h : Inv k s)
    (hs : step k s (.wrDataPop t n d) = some s') : Inv k s' := by
  simp only [step] at hs
  split at hs
  next h0 x d' hcp =>
    split at hs
    next hc =>
      obtain ⟨ht, hn, hd⟩ := hc
      subst hn hd
      simp only [Option.some.injEq] at hs; subst hs
      have hm := h.cGotData _ _ _ hcp
      constructor <;> try inv_frame h
      case pHave => have := h.pHave; simp only [Owned, hcp, CPc.node, upd_apply] at *; grind
      case pClr => have := h.pClr; simp only [Owned, hcp, CPc.node, upd_apply] at *; grind
      case pGot => have := h.pGot; simp only [Owned, hcp, CPc.node, upd_apply] at *; grind
      case pX =>
        intro t' v' n' p' hp
        obtain ⟨h1, h2, hd, i, h3, h4⟩ := h.pX _ _ _ _ hp
        have := mem_of_idx h4
        refine ⟨h1, h2, ?_, i, h3, h4⟩
        simp only [upd_apply]; grind
      case vals =>
        have hv := h.vals
        simp only [inflight, hcp] at hv
        simp only [inflight]
        have hmap : (s.q.drop 1).map (upd s.data n d) = (s.q.drop 1).map s.data := by
          apply List.map_congr_left
          intro a ha
          have : a ∈ s.q := List.mem_of_mem_drop ha
          simp only [upd_apply]; grind
        rw [hmap]; exact hv
      case cWrote => intro h' d'' hg; simp at hg; simp only [upd_apply]; grind
      all_goals simp
    next => simp at hs
  next => simp at hs

theorem inv_rdDataClient {t n d : Nat} (h : Inv k s)
    (hs : step k s (.rdDataClient t n d) = some s') : Inv k s' := by
  simp only [step] at hs
  split at hs
  next h0 d' hcp =>
    split at hs
    next hc =>
      obtain ⟨ht, hn, hd⟩ := hc
      simp only [Option.some.injEq] at hs; subst hs
      have hm := h.cWrote _ _ hcp
      constructor <;> try inv_frame h
      case pHave => have := h.pHave; simp only [Owned, hcp, CPc.node] at *; exact this
      case pClr => have := h.pClr; simp only [Owned, hcp, CPc.node] at *; exact this
      case pGot => have := h.pGot; simp only [Owned, hcp, CPc.node] at *; exact this
      case vals => have := h.vals; simp only [inflight, hcp] at *; rw [hd, hm.1]; exact this
      all_goals simp
    next => simp at hs
  next => simp at hs

theorem inv_retPop {t v : Nat} (h : Inv k s)
    (hs : step k s (.retPop t v) = some s') : Inv k s' := by
  simp only [step] at hs
  split at hs
  next h0 y hcp =>
    split at hs
    next hc =>
      simp only [Option.some.injEq] at hs; subst hs
      constructor <;> try inv_frame h
      case pHave => have := h.pHave; simp only [Owned, hcp, CPc.node] at *; grind
      case pClr => have := h.pClr; simp only [Owned, hcp, CPc.node] at *; grind
      case pGot => have := h.pGot; simp only [Owned, hcp, CPc.node] at *; grind
      case vals => have := h.vals; simp only [inflight, hcp] at *; exact this
      all_goals simp
    next => simp at hs
  next h0 d hcp =>
    split at hs
    next hc =>
      simp only [Option.some.injEq] at hs; subst hs
      constructor <;> try inv_frame h
      case pHave => have := h.pHave; simp only [Owned, hcp, CPc.node] at *; grind
      case pClr => have := h.pClr; simp only [Owned, hcp, CPc.node] at *; grind
      case pGot => have := h.pGot; simp only [Owned, hcp, CPc.node] at *; grind
      case vals => have := h.vals; simp only [inflight, hcp] at *; rw [this]; simp
      all_goals simp
    next => simp at hs
  next => simp at hs

theorem inv_callPeek {t : Nat} (h : Inv k s)
    (hs : step k s (.callPeek t) = some s') : Inv k s' := by
  simp only [step] at hs
  split at hs
  next hc =>
    obtain ⟨_, hidle, hpc⟩ := hc
    simp only [Option.some.injEq] at hs; subst hs
    constructor <;> try inv_frame h
    case pHave => have := h.pHave; simp only [Owned, CPc.node] at *; grind
    case pClr => have := h.pClr; simp only [Owned, CPc.node] at *; grind
    case pGot => have := h.pGot; simp only [Owned, CPc.node] at *; grind
    case vals => have := h.vals; simp only [inflight, hidle] at *; exact this
    all_goals simp
  next => simp at hs

theorem inv_rdDataPeek {t n d : Nat} (h : Inv k s)
    (hs : step k s (.rdDataPeek t n d) = some s') : Inv k s' := by
  simp only [step] at hs
  split at hs
  next h0 x hcp =>
    split at hs
    next hc =>
      obtain ⟨ht, hx0, hn, hd⟩ := hc
      simp only [Option.some.injEq] at hs; subst hs
      obtain ⟨hh, hnx⟩ := h.cPkGotNext _ _ hcp
      have hq1 : s.q[1]? = some x := second_of_next h hx0 (hh ▸ hnx hx0)
      constructor <;> try inv_frame h
      case pHave => have := h.pHave; simp only [Owned, hcp, CPc.node] at *; exact this
      case pClr => have := h.pClr; simp only [Owned, hcp, CPc.node] at *; exact this
      case pGot => have := h.pGot; simp only [Owned, hcp, CPc.node] at *; exact this
      case vals => have := h.vals; simp only [inflight, hcp] at *; exact this
      case cPkGotData =>
        intro h' x' d' hg
        simp only [CPc.pkGotData.injEq] at hg
        obtain ⟨_, rfl, rfl⟩ := hg
        exact ⟨hq1, hd.symm⟩
      all_goals simp
    next => simp at hs
  next => simp at hs

theorem inv_retPeek {t v : Nat} (h : Inv k s)
    (hs : step k s (.retPeek t v) = some s') : Inv k s' := by
  simp only [step] at hs
  split at hs
  next h0 y hcp =>
    split at hs
    next hc =>
      simp only [Option.some.injEq] at hs; subst hs
      constructor <;> try inv_frame h
      case pHave => have := h.pHave; simp only [Owned, hcp, CPc.node] at *; grind
      case pClr => have := h.pClr; simp only [Owned, hcp, CPc.node] at *; grind
      case pGot => have := h.pGot; simp only [Owned, hcp, CPc.node] at *; grind
      case vals => have := h.vals; simp only [inflight, hcp] at *; exact this
      all_goals simp
    next => simp at hs
  next h0 x d hcp =>
    split at hs
    next hc =>
      simp only [Option.some.injEq] at hs; subst hs
      obtain ⟨hq1, hd⟩ := h.cPkGotData _ _ _ hcp
      have hfront := front_payload h (by simp only [inflight, hcp]) hq1
      constructor <;> try inv_frame h
      case pHave => have := h.pHave; simp only [Owned, hcp, CPc.node] at *; grind
      case pClr => have := h.pClr; simp only [Owned, hcp, CPc.node] at *; grind
      case pGot => have := h.pGot; simp only [Owned, hcp, CPc.node] at *; grind
      case vals => have := h.vals; simp only [inflight, hcp] at *; exact this
      case pk =>
        intro i w hm
        simp only [List.mem_append, List.mem_singleton, Prod.mk.injEq] at hm
        rcases hm with hm | ⟨rfl, rfl⟩
        · exact h.pk _ _ hm
        · rw [hfront, hd]
      all_goals simp
    next => simp at hs
  next => simp at hs

/-- the structural invariant is inductive -/
theorem inv_step {e : Ev} (h : Inv k s) (hs : step k s e = some s') : Inv k s' := by
  cases e with
  | callPush t v => exact inv_callPush h hs
  | wrDataClient t n v => exact inv_wrDataClient h hs
  | wrNext t n x => exact inv_wrNext h hs
  | xchgTail t o n => exact inv_xchgTail h hs
  | ldTail t x => exact inv_ldTail h hs
  | stTail t x => exact inv_stTail h hs
  | retPush t r => exact inv_retPush h hs
  | callPop t => exact inv_callPop h hs
  | rdHead t x => exact inv_rdHead h hs
  | rdNext t n x => exact inv_rdNext h hs
  | wrHead t x => exact inv_wrHead h hs
  | rdDataPop t n x => exact inv_rdDataPop h hs
  | wrDataPop t n x => exact inv_wrDataPop h hs
  | rdDataClient t n x => exact inv_rdDataClient h hs
  | retPop t v => exact inv_retPop h hs
  | callPeek t => exact inv_callPeek h hs
  | rdDataPeek t n x => exact inv_rdDataPeek h hs
  | retPeek t v => exact inv_retPeek h hs

end steps

/-! ### payload bookkeeping -/

def Pc.val : Pc → Nat
  | .idle => 0
  | .called v => v
  | .haveNode v _ => v
  | .cleared v _ => v
  | .gotTail v _ _ => v
  | .xchgd v _ _ => v
  | .linked v => v

/-- the push has passed its publication step -/
def Pc.pub : Pc → Bool
  | .xchgd _ _ _ => true
  | .linked _ => true
  | _ => false

/-- what a step does to the producers' program counters and the payload ghost lists -/
inductive VShape (s s' : St) : Prop
  | same (hpc : s'.pc = s.pc) (hc : s'.called = s.called) (hp : s'.pushed = s.pushed)
      (hr : s'.returned = s.returned)
  | move (t : Nat) (c : Pc) (hpc : s'.pc = upd s.pc t c) (h1 : s.pc t ≠ .idle) (h2 : c ≠ .idle)
      (hv : c.val = (s.pc t).val) (hb : c.pub = (s.pc t).pub)
      (hc : s'.called = s.called) (hp : s'.pushed = s.pushed) (hr : s'.returned = s.returned)
  | publish (t : Nat) (c : Pc) (hpc : s'.pc = upd s.pc t c) (h1 : s.pc t ≠ .idle)
      (h0 : (s.pc t).pub = false) (h2 : c ≠ .idle) (hv : c.val = (s.pc t).val) (hb : c.pub = true)
      (hc : s'.called = s.called) (hp : s'.pushed = s.pushed ++ [c.val])
      (hr : s'.returned = s.returned)
  | call (t v : Nat) (h1 : s.pc t = .idle) (hpc : s'.pc = upd s.pc t (.called v)) (hv : v ≠ 0)
      (hf : v ∉ s.called) (hc : s'.called = s.called ++ [v]) (hp : s'.pushed = s.pushed)
      (hr : s'.returned = s.returned)
  | ret (t v : Nat) (h1 : s.pc t = .linked v) (hpc : s'.pc = upd s.pc t .idle)
      (hc : s'.called = s.called) (hp : s'.pushed = s.pushed)
      (hr : s'.returned = s.returned ++ [v])

theorem step_vshape {k : Kind} {s s' : St} {e : Ev} (hs : step k s e = some s') : VShape s s' := by
  cases e <;> simp only [step] at hs
  case callPush t v =>
    split at hs <;> simp at hs
    rename_i hc; subst hs
    exact .call t v hc.1 rfl hc.2.1 hc.2.2.1 rfl rfl rfl
  case wrDataClient t n x =>
    split at hs
    next v hpc =>
      split at hs <;> simp at hs
      subst hs
      exact .move t (.haveNode v n) rfl (by rw [hpc]; simp) (by simp) (by rw [hpc]; rfl)
        (by rw [hpc]; rfl) rfl rfl rfl
    next => simp at hs
  case wrNext t n x =>
    split at hs
    next v m hpc =>
      split at hs <;> simp at hs
      subst hs
      exact .move t (.cleared v n) rfl (by rw [hpc]; simp) (by simp) (by rw [hpc]; rfl)
        (by rw [hpc]; rfl) rfl rfl rfl
    next v m p hpc =>
      split at hs <;> simp at hs
      subst hs
      exact .move t (.linked v) rfl (by rw [hpc]; simp) (by simp) (by rw [hpc]; rfl)
        (by rw [hpc]; rfl) rfl rfl rfl
    next => simp at hs
  case xchgTail t o n =>
    split at hs
    next v m hpc =>
      split at hs <;> simp at hs
      subst hs
      exact .publish t (.xchgd v m o) rfl (by rw [hpc]; simp) (by rw [hpc]; rfl) (by simp)
        (by rw [hpc]; rfl) rfl rfl rfl rfl
    next => simp at hs
  case ldTail t x =>
    split at hs
    next v m hpc =>
      split at hs <;> simp at hs
      subst hs
      exact .move t (.gotTail v m x) rfl (by rw [hpc]; simp) (by simp) (by rw [hpc]; rfl)
        (by rw [hpc]; rfl) rfl rfl rfl
    next => simp at hs
  case stTail t x =>
    split at hs
    next v m p hpc =>
      split at hs <;> simp at hs
      subst hs
      exact .publish t (.xchgd v m p) rfl (by rw [hpc]; simp) (by rw [hpc]; rfl) (by simp)
        (by rw [hpc]; rfl) rfl rfl rfl rfl
    next => simp at hs
  case retPush t r =>
    split at hs
    next v hpc =>
      split at hs <;> simp at hs
      subst hs
      exact .ret t v hpc rfl rfl rfl rfl
    next => simp at hs
  case callPop t =>
    split at hs <;> simp at hs
    subst hs; exact .same rfl rfl rfl rfl
  case rdHead t x =>
    split at hs
    next => split at hs <;> simp at hs; subst hs; exact .same rfl rfl rfl rfl
    next => split at hs <;> simp at hs; subst hs; exact .same rfl rfl rfl rfl
    next => simp at hs
  case rdNext t n x =>
    split at hs
    next => split at hs <;> simp at hs; subst hs; exact .same rfl rfl rfl rfl
    next => split at hs <;> simp at hs; subst hs; exact .same rfl rfl rfl rfl
    next => simp at hs
  case callPeek t =>
    split at hs <;> simp at hs
    subst hs; exact .same rfl rfl rfl rfl
  case rdDataPeek t n x =>
    split at hs
    next => split at hs <;> simp at hs; subst hs; exact .same rfl rfl rfl rfl
    next => simp at hs
  case retPeek t v =>
    split at hs
    next => split at hs <;> simp at hs; subst hs; exact .same rfl rfl rfl rfl
    next => split at hs <;> simp at hs; subst hs; exact .same rfl rfl rfl rfl
    next => simp at hs
  case wrHead t x =>
    split at hs
    next => split at hs <;> simp at hs; subst hs; exact .same rfl rfl rfl rfl
    next => simp at hs
  case rdDataPop t n x =>
    split at hs
    next => split at hs <;> simp at hs; subst hs; exact .same rfl rfl rfl rfl
    next => simp at hs
  case wrDataPop t n x =>
    split at hs
    next => split at hs <;> simp at hs; subst hs; exact .same rfl rfl rfl rfl
    next => simp at hs
  case rdDataClient t n x =>
    split at hs
    next => split at hs <;> simp at hs; subst hs; exact .same rfl rfl rfl rfl
    next => simp at hs
  case retPop t v =>
    split at hs
    next => split at hs <;> simp at hs; subst hs; exact .same rfl rfl rfl rfl
    next => split at hs <;> simp at hs; subst hs; exact .same rfl rfl rfl rfl
    next => simp at hs

structure VInv (s : St) : Prop where
  callNd : s.called.Nodup
  callNz : 0 ∉ s.called
  pcCalled : ∀ t, s.pc t ≠ .idle → (s.pc t).val ∈ s.called
  pre : ∀ t, s.pc t ≠ .idle → (s.pc t).pub = false → (s.pc t).val ∉ s.pushed
  post : ∀ t, (s.pc t).pub = true → (s.pc t).val ∈ s.pushed
  inj : ∀ t t', t ≠ t' → s.pc t ≠ .idle → (s.pc t).val ≠ (s.pc t').val
  notRet : ∀ t, s.pc t ≠ .idle → (s.pc t).val ∉ s.returned
  pushedSub : ∀ v, v ∈ s.pushed → v ∈ s.called
  retSub : ∀ v, v ∈ s.returned → v ∈ s.pushed
  pushedNd : s.pushed.Nodup

theorem vinv_init (stub : Nat) : VInv (init stub) := by
  constructor <;> simp [init, Pc.pub, Pc.val]

theorem vinv_of_shape {s s' : St} (h : VInv s) (sh : VShape s s') : VInv s' := by
  have idle_val : (Pc.idle).val = 0 := rfl
  have idle_pub : (Pc.idle).pub = false := rfl
  cases sh with
  | same hpc hc hp hr =>
    constructor <;> (try rw [hpc]) <;> (try rw [hc]) <;> (try rw [hp]) <;> (try rw [hr]) <;>
      first
      | exact h.callNd | exact h.callNz | exact h.pcCalled | exact h.pre | exact h.post
      | exact h.inj | exact h.notRet | exact h.pushedSub | exact h.retSub | exact h.pushedNd
  | move t c hpc h1 h2 hv hb hc hp hr =>
    have := h.pcCalled; have := h.pre; have := h.post; have := h.inj; have := h.notRet
    constructor <;> (try rw [hpc]) <;> (try rw [hc]) <;> (try rw [hp]) <;> (try rw [hr])
    case callNd => exact h.callNd
    case callNz => exact h.callNz
    case pushedSub => exact h.pushedSub
    case retSub => exact h.retSub
    case pushedNd => exact h.pushedNd
    all_goals (simp only [upd_apply]; grind)
  | publish t c hpc h1 h0 h2 hv hb hc hp hr =>
    have h3 := h.pcCalled; have h4 := h.pre; have h5 := h.post; have h6 := h.inj
    have h7 := h.notRet; have h8 := h.pushedSub; have h9 := h.retSub
    constructor <;> (try rw [hpc]) <;> (try rw [hc]) <;> (try rw [hp]) <;> (try rw [hr])
    case callNd => exact h.callNd
    case callNz => exact h.callNz
    case pushedNd =>
      rw [List.nodup_append]
      refine ⟨h.pushedNd, by simp, ?_⟩
      intro a ha b hb'; simp at hb'; subst hb'; intro he; subst he
      rw [hv] at ha; exact h4 t h1 h0 ha
    all_goals (simp only [upd_apply, List.mem_append, List.mem_singleton]; grind)
  | call t v h1 hpc hv hf hc hp hr =>
    have h3 := h.pcCalled; have h4 := h.pre; have h5 := h.post; have h6 := h.inj
    have h7 := h.notRet; have h8 := h.pushedSub; have h9 := h.retSub
    have hcz := h.callNz
    have called_val : ∀ v, (Pc.called v).val = v := fun _ => rfl
    have called_pub : ∀ v, (Pc.called v).pub = false := fun _ => rfl
    constructor <;> (try rw [hpc]) <;> (try rw [hc]) <;> (try rw [hp]) <;> (try rw [hr])
    case callNd =>
      rw [List.nodup_append]
      refine ⟨h.callNd, by simp, ?_⟩
      intro a ha b hb'; simp at hb'; subst hb'; intro he; subst he; exact hf ha
    case pushedNd => exact h.pushedNd
    case retSub => exact h.retSub
    all_goals (simp only [upd_apply, List.mem_append, List.mem_singleton]; grind)
  | ret t v h1 hpc hc hp hr =>
    have h3 := h.pcCalled; have h4 := h.pre; have h5 := h.post; have h6 := h.inj
    have h7 := h.notRet; have h8 := h.pushedSub; have h9 := h.retSub
    have hcz := h.callNz
    have linked_val : ∀ v, (Pc.linked v).val = v := fun _ => rfl
    have linked_pub : ∀ v, (Pc.linked v).pub = true := fun _ => rfl
    constructor <;> (try rw [hpc]) <;> (try rw [hc]) <;> (try rw [hp]) <;> (try rw [hr])
    case callNd => exact h.callNd
    case callNz => exact h.callNz
    case pushedSub => exact h.pushedSub
    case pushedNd => exact h.pushedNd
    all_goals (simp only [upd_apply, List.mem_append, List.mem_singleton]; grind)

theorem vinv_step {k : Kind} {s s' : St} {e : Ev} (h : VInv s) (hs : step k s e = some s') :
    VInv s' := vinv_of_shape h (step_vshape hs)

theorem pushed_prefix_of_shape {s s' : St} (sh : VShape s s') : s.pushed <+: s'.pushed := by
  cases sh with
  | same _ _ hp _ => rw [hp]; exact List.prefix_refl _
  | move _ _ _ _ _ _ _ _ hp _ => rw [hp]; exact List.prefix_refl _
  | publish _ _ _ _ _ _ _ _ _ hp _ => rw [hp]; exact List.prefix_append _ _
  | call _ _ _ _ _ _ _ hp _ => rw [hp]; exact List.prefix_refl _
  | ret _ _ _ _ _ hp _ => rw [hp]; exact List.prefix_refl _

theorem returned_mono_of_shape {s s' : St} (sh : VShape s s') {v : Nat} (hv : v ∈ s.returned) :
    v ∈ s'.returned := by
  cases sh with
  | same _ _ _ hr => rw [hr]; exact hv
  | move _ _ _ _ _ _ _ _ _ hr => rw [hr]; exact hv
  | publish _ _ _ _ _ _ _ _ _ _ hr => rw [hr]; exact hv
  | call _ _ _ _ _ _ _ _ hr => rw [hr]; exact hv
  | ret _ _ _ _ _ _ hr => rw [hr]; exact List.mem_append_left _ hv

/-- a payload in the hands of thread `t` stays there until the push returns -/
theorem val_or_returned_of_shape {s s' : St} (sh : VShape s s') {t v : Nat} (hv : v ≠ 0)
    (h : (s.pc t).val = v ∨ v ∈ s.returned) : (s'.pc t).val = v ∨ v ∈ s'.returned := by
  have idle_val : (Pc.idle).val = 0 := rfl
  have linked_val : ∀ v, (Pc.linked v).val = v := fun _ => rfl
  have called_val : ∀ v, (Pc.called v).val = v := fun _ => rfl
  cases sh with
  | same hpc _ _ hr => rw [hpc, hr]; exact h
  | move t' c hpc h1 h2 hv' hb hc hp hr => rw [hpc, hr]; simp only [upd_apply]; grind
  | publish t' c hpc h1 h0 h2 hv' hb hc hp hr => rw [hpc, hr]; simp only [upd_apply]; grind
  | call t' v' h1 hpc hv' hf hc hp hr => rw [hpc, hr]; simp only [upd_apply]; grind
  | ret t' v' h1 hpc hc hp hr =>
    rw [hpc, hr]; simp only [upd_apply, List.mem_append, List.mem_singleton]; grind

/-! ### runs -/

theorem runFrom_induct {σ ε : Type} (M : Sys σ ε) (P : σ → Prop)
    (hstep : ∀ s e s', P s → M.step s e = some s' → P s')
    {s s' : σ} {es : List ε} (h0 : P s) (h : M.runFrom s es = some s') : P s' := by
  induction es generalizing s with
  | nil => simp [Sys.runFrom] at h; subst h; exact h0
  | cons e es ih =>
    simp only [Sys.runFrom] at h
    cases hst : M.step s e with
    | none => simp [hst] at h
    | some s1 => simp [hst] at h; exact ih (hstep _ _ _ h0 hst) h

theorem invs_of_run {k : Kind} {stub : Nat} (h0 : stub ≠ 0) {es : List Ev} {s : St}
    (h : (sys k stub).run es = some s) : Inv k s ∧ VInv s :=
  Sys.inv_of_run (sys k stub) (fun s => Inv k s ∧ VInv s)
    ⟨inv_init k stub h0, vinv_init stub⟩
    (fun _ _ _ hi hs => ⟨inv_step hi.1 hs, vinv_step hi.2 hs⟩) h

theorem invs_of_runFrom {k : Kind} {stub : Nat} {es : List Ev} {s s' : St}
    (hi : Inv k s ∧ VInv s) (h : (sys k stub).runFrom s es = some s') : Inv k s' ∧ VInv s' :=
  runFrom_induct (sys k stub) (fun s => Inv k s ∧ VInv s)
    (fun _ _ _ hi hs => ⟨inv_step hi.1 hs, vinv_step hi.2 hs⟩) hi h

theorem pushed_prefix_of_runFrom {k : Kind} {stub : Nat} {es : List Ev} {s s' : St}
    (h : (sys k stub).runFrom s es = some s') : s.pushed <+: s'.pushed :=
  runFrom_induct (sys k stub) (fun x => s.pushed <+: x.pushed)
    (fun _ _ _ hp hs => List.IsPrefix.trans hp (pushed_prefix_of_shape (step_vshape hs)))
    (List.prefix_refl _) h

/-! ### consequences used by the property theorems -/

theorem popped_prefix {k : Kind} {s : St} (h : Inv k s) : s.popped <+: s.pushed := by
  rw [h.vals, List.append_assoc]; exact List.prefix_append _ _

theorem popped_nodup {k : Kind} {s : St} (h : Inv k s) (hv : VInv s) : s.popped.Nodup := by
  have hp := hv.pushedNd
  rw [h.vals, List.append_assoc] at hp
  exact (List.nodup_append.mp hp).1

theorem idx_of_prefix {l m : List Nat} (h : l <+: m) {i a : Nat} (hi : l[i]? = some a) :
    m[i]? = some a := by
  obtain ⟨r, hr⟩ := h
  rw [← hr, List.getElem?_append_left (idx_lt hi)]; exact hi

/-- order of publication respects real time (abstract form): `vA`'s push had returned in
    state `a`, `vB` had not been handed to push yet, `b` is a later state -/
theorem realtime_abs {a b : St} {vA vB : Nat} (hv : VInv a) (hA : vA ∈ a.returned)
    (hfresh : vB ∉ a.called) (hpre : a.pushed <+: b.pushed) (hnd : b.pushed.Nodup)
    {i j : Nat} (hia : b.pushed[i]? = some vA) (hjb : b.pushed[j]? = some vB) : i < j := by
  have hfresh' : vB ∉ a.pushed := fun hm => hfresh (hv.pushedSub _ hm)
  have hA1 : vA ∈ a.pushed := hv.retSub _ hA
  obtain ⟨i0, hi0⟩ := idx_of_mem hA1
  have hlt0 := idx_lt hi0
  have hi0' : b.pushed[i0]? = some vA := idx_of_prefix hpre hi0
  have : i = i0 := nodup_idx hnd hia hi0'
  subst this
  by_cases hj : j < a.pushed.length
  · exfalso
    obtain ⟨l, hl⟩ := hpre
    rw [← hl, List.getElem?_append_left hj] at hjb
    exact hfresh' (mem_of_idx hjb)
  · omega

theorem callPush_fresh {k : Kind} {s s' : St} {t v : Nat}
    (h : step k s (.callPush t v) = some s') :
    s.pc t = .idle ∧ v ≠ 0 ∧ v ∉ s.called ∧ s'.pc t = .called v := by
  simp only [step] at h
  split at h <;> simp at h
  rename_i hc
  subst h
  exact ⟨hc.1, hc.2.1, hc.2.2.1, by simp⟩

/-- order of publication respects real time: a push that returned before another one was
    called is published first -/
theorem realtime_core {k : Kind} {stub : Nat} {s1 s2 : St} {es : List Ev} {tB vA vB : Nat}
    (hi : Inv k s1 ∧ VInv s1) (hA : vA ∈ s1.returned)
    (hrun : (sys k stub).runFrom s1 (.callPush tB vB :: es) = some s2)
    {i j : Nat} (hia : s2.pushed[i]? = some vA) (hjb : s2.pushed[j]? = some vB) : i < j := by
  have hpre := pushed_prefix_of_runFrom hrun
  have hv2 := (invs_of_runFrom hi hrun).2
  have hfresh : vB ∉ s1.called := by
    simp only [Sys.runFrom] at hrun
    cases hst : (sys k stub).step s1 (.callPush tB vB) with
    | none => simp [hst] at hrun
    | some s1' => exact (callPush_fresh (k := k) hst).2.2.1
  exact realtime_abs hi.2 hA hfresh hpre hv2.pushedNd hia hjb

/-- a payload handed to push by thread `t` has been returned by the time `t` is idle again -/
theorem returned_when_idle {k : Kind} {stub : Nat} {s s' : St} {es : List Ev} {t v : Nat}
    (hv : v ≠ 0) (h0 : (s.pc t).val = v) (hrun : (sys k stub).runFrom s es = some s')
    (hidle : s'.pc t = .idle) : v ∈ s'.returned := by
  have := runFrom_induct (sys k stub) (fun x => (x.pc t).val = v ∨ v ∈ x.returned)
    (fun _ _ _ hp hs => val_or_returned_of_shape (step_vshape (k := k) hs) hv hp) (Or.inl h0) hrun
  rcases this with h | h
  · rw [hidle] at h; exact absurd h.symm hv
  · exact h

/-- a NULL read of `head->next` (by a trypop or by a peek): it is the stub's `next` that was
    read, and the consumer holds no payload in its hands at that instant -/
theorem null_read_shape {k : Kind} {s s' : St} {t h : Nat} (hi : Inv k s)
    (hs : step k s (.rdNext t h 0) = some s') :
    h = s.head ∧ s.next s.head = 0 ∧ inflight s = [] ∧
      (s.cpc = .gotHead h ∨ s.cpc = .pkGotHead h) := by
  simp only [step] at hs
  split at hs
  next h0 hcp =>
    split at hs
    next hc =>
      obtain ⟨ht, hn, hx⟩ := hc
      subst hn
      have hh := hi.cGotHead _ hcp
      subst hh
      exact ⟨rfl, hx.symm, by simp only [inflight, hcp], Or.inl hcp⟩
    next => simp at hs
  next h0 hcp =>
    split at hs
    next hc =>
      obtain ⟨ht, hn, hx⟩ := hc
      subst hn
      have hh := hi.cPkGotHead _ hcp
      subst hh
      exact ⟨rfl, hx.symm, by simp only [inflight, hcp], Or.inr hcp⟩
    next => simp at hs
  next => simp at hs

/-- at the instant a trypop (or a peek) reads `head->next = NULL`, either nothing follows the
    stub or the producer of the next node sits between its publication and its link write -/
theorem empty_core {k : Kind} {s s' : St} {t h : Nat} (hi : Inv k s)
    (hs : step k s (.rdNext t h 0) = some s') :
    h = s.head ∧ (s.q = [s.head] ∨ ∃ p v n, s.pc p = .xchgd v n s.head ∧ s.q[1]? = some n) := by
  obtain ⟨hh, hx, _, _⟩ := null_read_shape hi hs
  refine ⟨hh, ?_⟩
  by_cases hl : s.q.length = 1
  · left
    have hq := hi.hq
    match hq' : s.q with
    | [] => simp [hq'] at hl
    | [a] => simp [hq'] at hq; rw [hq]
    | a :: b :: r => simp [hq'] at hl
  · right
    have hlen : 1 < s.q.length := by have := hi.qpos; omega
    have hb : s.q[1]? = some (s.q[1]'hlen) := List.getElem?_eq_getElem hlen
    have hbz : s.q[1]'hlen ≠ 0 := fun he => hi.nz (by rw [← he]; exact mem_of_idx hb)
    rcases hi.lk 0 s.head _ hi.hq hb with hnx | ⟨_, p, v, hp⟩
    · exact absurd (hx ▸ hnx).symm hbz
    · exact ⟨p, v, _, hp, hb⟩

/-- a trypop that returns 0 really took the "empty" path -/
theorem ret_zero_core {k : Kind} {s s' : St} {t : Nat} (hi : Inv k s) (hv : VInv s)
    (hs : step k s (.retPop t 0) = some s') : ∃ h, s.cpc = .gotNext h 0 := by
  simp only [step] at hs
  split at hs
  next h0 y hcp =>
    split at hs
    next hc => exact ⟨h0, by rw [hcp, hc.2.1]⟩
    next => simp at hs
  next h0 d hcp =>
    split at hs
    next hc =>
      exfalso
      have hd : d = 0 := hc.2.symm
      have hvals := hi.vals
      simp only [inflight, hcp] at hvals
      have : d ∈ s.pushed := by rw [hvals]; simp
      rw [hd] at this
      exact hv.callNz (hv.pushedSub _ this)
    next => simp at hs
  next => simp at hs

/-- (one producer) if a trypop reads `head->next = NULL`, every push that has returned has
    already been popped -/
theorem spsc_empty_core {s s' : St} {t h : Nat} (hi : Inv .spsc s) (hv : VInv s)
    (hs : step .spsc s (.rdNext t h 0) = some s') : ∀ v, v ∈ s.returned → v ∈ s.popped := by
  obtain ⟨_, _, hin, _⟩ := null_read_shape hi hs
  have hvals := hi.vals
  simp only [hin, List.append_nil] at hvals
  obtain ⟨_, hq | ⟨p, v, n, hp, hq1⟩⟩ := empty_core hi hs
  · intro w hw
    have := hv.retSub _ hw
    rw [hvals, hq] at this
    simpa using this
  · obtain ⟨_, _, hdat, i, hi0, hi1⟩ := hi.pX _ _ _ _ hp
    have hntl := hi.pXs rfl _ _ _ _ hp
    have hnd := hi.nd
    -- `n` is both the second and the last node
    have h1 : 1 = s.q.length - 1 := by
      have htl := hi.tl; rw [← hntl] at htl
      exact nodup_idx hnd hq1 htl
    have hdrop : s.q.drop 1 = [n] := by
      rw [drop1_eq_cons hq1]
      have : s.q.length ≤ 2 := by omega
      simp [List.drop_eq_nil_iff.mpr this]
    intro w hw
    have hwp := hv.retSub _ hw
    rw [hvals, hdrop] at hwp
    simp only [List.map_cons, List.map_nil, List.mem_append, List.mem_singleton] at hwp
    rcases hwp with hwp | hwp
    · exact hwp
    · exfalso
      have hne : s.pc p ≠ .idle := by rw [hp]; simp
      have := hv.notRet p hne
      rw [hp] at this
      simp only [Pc.val] at this
      rw [hwp, hdat] at hw
      exact this hw

/-- a trypop reads `head->next = NULL` only if every completed push has been popped already,
    or some push is between its publication and its link write -/
theorem empty_pending_core {k : Kind} {s s' : St} {t h : Nat} (hi : Inv k s) (hv : VInv s)
    (hs : step k s (.rdNext t h 0) = some s') :
    (∀ v, v ∈ s.returned → v ∈ s.popped) ∨ ∃ p v n p', s.pc p = .xchgd v n p' := by
  obtain ⟨_, _, hin, _⟩ := null_read_shape hi hs
  have hvals := hi.vals
  simp only [hin, List.append_nil] at hvals
  obtain ⟨_, hq | ⟨p, v, n, hp, _⟩⟩ := empty_core hi hs
  · left
    intro w hw
    have := hv.retSub _ hw
    rw [hvals, hq] at this
    simpa using this
  · exact Or.inr ⟨p, v, n, _, hp⟩

/-! ### peek -/

/-- the return of a peek: either the empty path (NULL read of `head->next`), or it reports the
    payload that is next in publication order, `pushed[popped.length]`, and the ghost `peeked`
    records exactly that -/
theorem peek_ret_core {k : Kind} {s s' : St} {t v : Nat} (hi : Inv k s) (hv : VInv s)
    (hs : step k s (.retPeek t v) = some s') :
    (v = 0 ∧ (∃ h, s.cpc = .pkGotNext h 0) ∧ s'.peeked = s.peeked) ∨
      (v ≠ 0 ∧ s.pushed[s.popped.length]? = some v ∧
        s'.peeked = s.peeked ++ [(s.popped.length, v)]) := by
  simp only [step] at hs
  split at hs
  next h0 y hcp =>
    split at hs
    next hc =>
      simp only [Option.some.injEq] at hs; subst hs
      obtain ⟨_, hy, hv0⟩ := hc
      exact Or.inl ⟨hv0, ⟨h0, by rw [hcp, hy]⟩, rfl⟩
    next => simp at hs
  next h0 x d hcp =>
    split at hs
    next hc =>
      simp only [Option.some.injEq] at hs; subst hs
      obtain ⟨_, hvd⟩ := hc
      subst hvd
      obtain ⟨hq1, hd⟩ := hi.cPkGotData _ _ _ hcp
      have hfront := front_payload hi (by simp only [inflight, hcp]) hq1
      rw [hd] at hfront
      refine Or.inr ⟨?_, hfront, rfl⟩
      intro he
      have hm := hv.pushedSub _ (mem_of_idx hfront)
      rw [he] at hm
      exact hv.callNz hm
    next => simp at hs
  next => simp at hs

/-- a payload sits at one place only in `popped` — the place it has in `pushed` -/
theorem popped_idx_unique {k : Kind} {s : St} (hi : Inv k s) (hv : VInv s) {i j v : Nat}
    (hp : s.pushed[i]? = some v) (hj : s.popped[j]? = some v) : j = i :=
  nodup_idx hv.pushedNd (idx_of_prefix (popped_prefix hi) hj) hp

/-- the payload next in publication order has not been returned by any trypop yet -/
theorem front_not_popped {k : Kind} {s : St} (hi : Inv k s) (hv : VInv s) {v : Nat}
    (hp : s.pushed[s.popped.length]? = some v) : v ∉ s.popped := by
  intro hm
  obtain ⟨j, hj⟩ := idx_of_mem hm
  have := popped_idx_unique hi hv hp hj
  have := idx_lt hj
  omega

/-! #### a payload that a peek has seen stays visible until a trypop takes it -/

/-- the trypop in progress has moved `head` and holds a payload in its hands -/
def CPc.holds : CPc → Bool
  | .moved _ _ => true
  | .gotData _ _ _ => true
  | .wrote _ _ => true
  | .readBack _ _ => true
  | _ => false

theorem holds_of_inflight_nil {s : St} (h : inflight s = []) : s.cpc.holds = false := by
  unfold inflight at h
  cases hc : s.cpc <;> simp [hc, CPc.holds] at h ⊢

structure PkInv (s : St) : Prop where
  /-- peeks are recorded with the number of trypops returned so far -/
  le : ∀ i v, (i, v) ∈ s.peeked → i ≤ s.popped.length
  /-- after a peek has reported a payload, and until a trypop moves `head`, the stub's `next`
      stays non-NULL (links are never undone; only the consumer moves `head`) -/
  linked : ∀ v, (s.popped.length, v) ∈ s.peeked → s.cpc.holds = false → s.next s.head ≠ 0
  gotData : ∀ h x d, s.cpc = .pkGotData h x d → s.next s.head ≠ 0

theorem pkinv_init (stub : Nat) : PkInv (init stub) := by
  constructor <;> simp [init]

theorem pkinv_step {k : Kind} {s s' : St} {e : Ev} (hI : Inv k s) (h : PkInv s)
    (hs : step k s e = some s') : PkInv s' := by
  obtain ⟨hle, hlk, hgd⟩ := h
  have hhd := head_mem hI
  cases e <;> simp only [step] at hs
  case wrNext t n x =>
    split at hs
    next v m hpc =>
      split at hs <;> simp at hs
      rename_i hc
      obtain ⟨rfl, rfl⟩ := hc
      subst hs
      obtain ⟨_, hnq, _, _, _⟩ := hI.pHave _ _ _ hpc
      have hne : s.head ≠ n := fun he => hnq (he ▸ hhd)
      constructor
      · exact hle
      · intro v' hm hh; simp only [upd_apply, hne, if_false]; exact hlk v' hm hh
      · intro h' x' d' hg; simp only [upd_apply, hne, if_false]; exact hgd _ _ _ hg
    next v m p hpc =>
      split at hs <;> simp at hs
      rename_i hc
      obtain ⟨rfl, rfl⟩ := hc
      subst hs
      obtain ⟨_, _, _, i, _, hi1⟩ := hI.pX _ _ _ _ hpc
      have hx0 : x ≠ 0 := fun he => hI.nz (he ▸ mem_of_idx hi1)
      constructor
      · exact hle
      · intro v' hm hh; have := hlk v' hm hh; simp only [upd_apply]; grind
      · intro h' x' d' hg; have := hgd _ _ _ hg; simp only [upd_apply]; grind
    next => simp at hs
  case rdDataPeek t n d =>
    split at hs
    next h0 x hcp =>
      split at hs <;> simp at hs
      rename_i hc
      subst hs
      obtain ⟨hh, hnx⟩ := hI.cPkGotNext _ _ hcp
      have hnz : s.next s.head ≠ 0 := by rw [← hh, hnx hc.2.1]; exact hc.2.1
      constructor
      · exact hle
      · intro v' hm _; exact hnz
      · intro _ _ _ _; exact hnz
    next => simp at hs
  case retPeek t v =>
    split at hs
    next h0 y hcp =>
      split at hs <;> simp at hs
      subst hs
      constructor
      · exact hle
      · intro v' hm _; exact hlk v' hm (by rw [hcp]; rfl)
      · intro _ _ _ hg; simp at hg
    next h0 x d hcp =>
      split at hs <;> simp at hs
      subst hs
      have hnz := hgd _ _ _ hcp
      constructor
      · intro i v' hm
        simp only [List.mem_append, List.mem_singleton, Prod.mk.injEq] at hm
        rcases hm with hm | ⟨rfl, _⟩
        · exact hle _ _ hm
        · exact Nat.le_refl _
      · intro _ _ _; exact hnz
      · intro _ _ _ hg; simp at hg
    next => simp at hs
  case retPop t v =>
    split at hs
    next h0 y hcp =>
      split at hs <;> simp at hs
      subst hs
      constructor
      · exact hle
      · intro v' hm _; exact hlk v' hm (by rw [hcp]; rfl)
      · intro _ _ _ hg; simp at hg
    next h0 d hcp =>
      split at hs <;> simp at hs
      subst hs
      constructor
      · intro i v' hm; have := hle _ _ hm; simp only [List.length_append, List.length_singleton]; omega
      · intro v' hm _
        have := hle _ _ hm
        simp only [List.length_append, List.length_singleton] at this
        omega
      · intro _ _ _ hg; simp at hg
    next => simp at hs
  case wrHead t x =>
    split at hs
    next h0 y hcp =>
      split at hs <;> simp at hs
      subst hs
      constructor
      · exact hle
      · intro _ _ hh; simp [CPc.holds] at hh
      · intro _ _ _ hg; simp at hg
    next => simp at hs
  -- every other step leaves `next`, `head`, `popped`, `peeked` alone and keeps `holds`
  all_goals
    first
    | (split at hs <;> simp at hs
       subst hs
       constructor
       · exact hle
       · intro v' hm hh
         first
           | exact hlk v' hm hh
           | exact hlk v' hm (by simp_all [CPc.holds])
           | (simp [CPc.holds] at hh)
       · intro h' x' d' hg
         first
           | exact hgd _ _ _ hg
           | (simp at hg))
    | (split at hs
       all_goals first
         | (simp at hs; done)
         | (split at hs <;> simp at hs
            subst hs
            constructor
            · exact hle
            · intro v' hm hh
              first
                | exact hlk v' hm hh
                | exact hlk v' hm (by simp_all [CPc.holds])
                | (simp [CPc.holds] at hh)
            · intro h' x' d' hg
              first
                | exact hgd _ _ _ hg
                | (simp at hg)))

theorem pkinv_of_run {k : Kind} {stub : Nat} (h0 : stub ≠ 0) {es : List Ev} {s : St}
    (h : (sys k stub).run es = some s) : PkInv s :=
  (Sys.inv_of_run (sys k stub) (fun s => (Inv k s ∧ VInv s) ∧ PkInv s)
    ⟨⟨inv_init k stub h0, vinv_init stub⟩, pkinv_init stub⟩
    (fun _ _ _ hi hs => ⟨⟨inv_step hi.1.1 hs, vinv_step hi.1.2 hs⟩, pkinv_step hi.1.1 hi.2 hs⟩) h).2

/-- only `Kind.mpsc` has a peek (spsc_fifo.h / mpsc_relaxed_fifo.h do not) -/
theorem spsc_no_peek (s : St) (t : Nat) : step .spsc s (.callPeek t) = none := by
  simp [step]

end LibfiberVerif.Mpsc
