/-
  Proof/Mpsc.lean — inductive invariants of the MPSC / SPSC queue model (property C15).

  Everything is proved for `Mpsc.step k` with `k` arbitrary, i.e. once for mpsc_fifo.h
  (`Kind.mpsc`) and spsc_fifo.h (`Kind.spsc`); `Model/Mpscr.lean` delegates to
  `Mpsc.step .spsc`, so the relaxed queue's sub-queues inherit the same invariants.
-/
import LibfiberVerif.Model.Mpsc

namespace LibfiberVerif.Mpsc

/-! ### list helpers (index based) -/

theorem idx_lt {l : List Nat} {i a : Nat} (h : l[i]? = some a) : i < l.length := by
  rcases List.getElem?_eq_some_iff.mp h with ⟨hi, _⟩; exact hi

theorem mem_of_idx {l : List Nat} {i a : Nat} (h : l[i]? = some a) : a ∈ l :=
  List.mem_iff_getElem?.mpr ⟨i, h⟩

theorem idx_app {l : List Nat} {i a : Nat} (n : Nat) (h : l[i]? = some a) :
    (l ++ [n])[i]? = some a := by
  rw [List.getElem?_append_left (idx_lt h)]; exact h

theorem idx_app_cases {l : List Nat} {n i a : Nat} (h : (l ++ [n])[i]? = some a) :
    l[i]? = some a ∨ (i = l.length ∧ a = n) := by
  by_cases hi : i < l.length
  · left; rw [List.getElem?_append_left hi] at h; exact h
  · right
    have hi' : l.length ≤ i := Nat.le_of_not_lt hi
    rw [List.getElem?_append_right hi'] at h
    have hlt := idx_lt h
    simp at hlt
    have : i = l.length := by omega
    subst this
    simp at h
    exact ⟨rfl, h.symm⟩

theorem idx_drop1 (l : List Nat) (i : Nat) : (l.drop 1)[i]? = (l[i + 1]?) := by
  rw [List.getElem?_drop, Nat.add_comm 1 i]

theorem nodup_idx {l : List Nat} (hnd : l.Nodup) {i j a : Nat}
    (hi : l[i]? = some a) (hj : l[j]? = some a) : i = j :=
  (List.getElem?_inj (idx_lt hi) hnd).mp (hi.trans hj.symm)

theorem idx_of_mem {l : List Nat} {a : Nat} (h : a ∈ l) : ∃ i, l[i]? = some a :=
  List.mem_iff_getElem?.mp h

theorem drop1_app {l : List Nat} (n : Nat) (h : 0 < l.length) :
    (l ++ [n]).drop 1 = l.drop 1 ++ [n] := by
  cases l with
  | nil => simp at h
  | cons a r => simp

theorem drop1_eq_cons {l : List Nat} {x : Nat} (h : l[1]? = some x) :
    l.drop 1 = x :: l.drop 2 := by
  have hlt := idx_lt h
  rw [List.drop_eq_getElem_cons hlt]
  rcases List.getElem?_eq_some_iff.mp h with ⟨_, hx⟩
  rw [hx]

/-! ### the structural invariant -/

/-- payloads currently in the hands of the trypop in progress (taken out of the queue, not
    yet returned) -/
def inflight (s : St) : List Nat :=
  match s.cpc with
  | .moved _ x => [s.data x]
  | .gotData _ _ d => [d]
  | .wrote _ d => [d]
  | .readBack _ d => [d]
  | _ => []

/-- producer `t` owns node `n`, which carries `v` and is not (yet) in the queue -/
def Owned (s : St) (t v n : Nat) : Prop :=
  s.holder n = some t ∧ n ∉ s.q ∧ n ≠ 0 ∧ s.data n = v ∧ s.cpc.node ≠ n

structure Inv (k : Kind) (s : St) : Prop where
  qpos : 0 < s.q.length
  hq : s.q[0]? = some s.head
  tl : s.q[s.q.length - 1]? = some s.tail
  nd : s.q.Nodup
  nz : 0 ∉ s.q
  /-- consecutive queue nodes are linked, or the producer of the second one is between its
      publication and its link write -/
  lk : ∀ i a b, s.q[i]? = some a → s.q[i + 1]? = some b →
    s.next a = b ∨ (s.next a = 0 ∧ ∃ t v, s.pc t = .xchgd v b a)
  last : s.next s.tail = 0
  pHave : ∀ t v n, s.pc t = .haveNode v n → Owned s t v n
  pClr : ∀ t v n, s.pc t = .cleared v n → Owned s t v n ∧ s.next n = 0
  pGot : ∀ t v n p, s.pc t = .gotTail v n p → Owned s t v n ∧ s.next n = 0 ∧ k = .spsc ∧ p = s.tail
  pX : ∀ t v n p, s.pc t = .xchgd v n p →
    s.holder n = some t ∧ s.next p = 0 ∧ ∃ i, s.q[i]? = some p ∧ s.q[i + 1]? = some n
  single : k = .spsc → ∀ t, s.pc t ≠ .idle → s.pusher = some t
  /-- conservation: published = returned ++ in the consumer's hands ++ still queued -/
  vals : s.pushed = s.popped ++ inflight s ++ (s.q.drop 1).map s.data
  cGotHead : ∀ h, s.cpc = .gotHead h → h = s.head
  cGotNext : ∀ h x, s.cpc = .gotNext h x → h = s.head ∧ (x ≠ 0 → s.next h = x)
  cMoved : ∀ h x, s.cpc = .moved h x → x = s.head ∧ h ∉ s.q
  cGotData : ∀ h x d, s.cpc = .gotData h x d → h ∉ s.q
  cWrote : ∀ h d, s.cpc = .wrote h d → s.data h = d ∧ h ∉ s.q

theorem inv_init (k : Kind) (stub : Nat) (h0 : stub ≠ 0) : Inv k (init stub) := by
  constructor <;> simp [init, inflight, Owned]
  all_goals trace_state
  all_goals sorry

section steps
variable {k : Kind} {s s' : St}

theorem inv_callPush {t v : Nat} (h : Inv k s) (hs : step k s (.callPush t v) = some s') :
    Inv k s' := by
  simp only [step] at hs
  split at hs <;> simp at hs
  rename_i hc
  obtain ⟨hidle, hv, hfresh, hcons, hk⟩ := hc
  subst hs
  cases h
  constructor <;> simp only [upd_apply, inflight, Owned] at * <;> try assumption
  all_goals sorry

end steps

end LibfiberVerif.Mpsc
