/-
  Proof/MultiChanInv.lean — the invariant of the multi channel model, ONE-LIST discipline
  (`St.two = false`, the code before /repo commit b18179b), used for the lost-wake-up
  analysis (property C11): lock discipline, the waiter list, and the two "somebody is active"
  invariants that hold as long as the waiter list is homogeneous.
-/
import LibfiberVerif.Model.MultiChan

namespace LibfiberVerif.MultiChan

def Op.isRecv : Op → Bool
  | .recv => true
  | .send _ => false

def Op.isSend : Op → Bool
  | .recv => false
  | .send _ => true

/-- pcs between acquiring the lock's first effect and releasing it -/
def Pc.inCS : Pc → Bool
  | .idle => false | .lock _ => false | .lockWait _ => false
  | .gotHigh _ _ => true | .gotLow _ _ _ => true
  | .wGot _ _ => true | .wLinked _ => true | .wListed _ => true | .wPending _ => true
  | .wAsleep _ => false
  | .sWrote _ _ => true | .rRead _ _ => true | .rCleared _ _ => true
  | .kTop _ => true | .kGot _ _ => true | .kNext _ _ _ => true | .kUnl _ _ => true | .kClr _ _ => true
  | .unlock _ => true | .handing _ => false | .done _ => false

/-- the fiber an internal_wake has unlinked and is making READY -/
def Pc.wakingOf : Pc → Option Nat
  | .kUnl _ w => some w | .kClr _ w => some w
  | .idle => none | .lock _ => none | .lockWait _ => none | .gotHigh _ _ => none | .gotLow _ _ _ => none
  | .wGot _ _ => none | .wLinked _ => none | .wListed _ => none | .wPending _ => none | .wAsleep _ => none
  | .sWrote _ _ => none | .rRead _ _ => none | .rCleared _ _ => none
  | .kTop _ => none | .kGot _ _ => none | .kNext _ _ _ => none
  | .unlock _ => none | .handing _ => none | .done _ => none

/-- blocked path of internal_wait (lock still held by the blocked fiber) -/
def Pc.waitOp : Pc → Option Op
  | .wGot o _ => some o | .wLinked o => some o | .wListed o => some o | .wPending o => some o
  | .idle => none | .lock _ => none | .lockWait _ => none | .gotHigh _ _ => none | .gotLow _ _ _ => none
  | .wAsleep _ => none
  | .sWrote _ _ => none | .rRead _ _ => none | .rCleared _ _ => none
  | .kTop _ => none | .kGot _ _ => none | .kNext _ _ _ => none | .kUnl _ _ => none | .kClr _ _ => none
  | .unlock _ => none | .handing _ => none | .done _ => none

/-- listed in the waiter list: wListed / wPending / wAsleep -/
def Pc.listedOp : Pc → Option Op
  | .wListed o => some o | .wPending o => some o | .wAsleep o => some o
  | .idle => none | .lock _ => none | .lockWait _ => none | .gotHigh _ _ => none | .gotLow _ _ _ => none
  | .wGot _ _ => none | .wLinked _ => none
  | .sWrote _ _ => none | .rRead _ _ => none | .rCleared _ _ => none
  | .kTop _ => none | .kGot _ _ => none | .kNext _ _ _ => none | .kUnl _ _ => none | .kClr _ _ => none
  | .unlock _ => none | .handing _ => none | .done _ => none

/-- "this fiber will make progress for the RECEIVERS": an awake receiver that has not taken
    its message yet, a woken sleeping receiver, or anybody inside internal_wake -/
def Pc.witR : Pc → Bool → Bool
  | .lock o, _ => o.isRecv | .lockWait o, _ => o.isRecv | .gotHigh o _, _ => o.isRecv | .gotLow o _ _, _ => o.isRecv
  | .rRead _ _, _ => true | .rCleared _ _, _ => true
  | .wAsleep o, wk => o.isRecv && wk
  | .kTop _, _ => true | .kGot _ _, _ => true | .kNext _ _ _, _ => true | .kUnl _ _, _ => true | .kClr _ _, _ => true
  | .idle, _ => false | .wGot _ _, _ => false | .wLinked _, _ => false | .wListed _, _ => false | .wPending _, _ => false
  | .sWrote _ _, _ => false | .unlock _, _ => false | .handing _, _ => false | .done _, _ => false

/-- the same for the SENDERS -/
def Pc.witS : Pc → Bool → Bool
  | .lock o, _ => o.isSend | .lockWait o, _ => o.isSend | .gotHigh o _, _ => o.isSend | .gotLow o _ _, _ => o.isSend
  | .sWrote _ _, _ => true
  | .wAsleep o, wk => o.isSend && wk
  | .kTop _, _ => true | .kGot _ _, _ => true | .kNext _ _ _, _ => true | .kUnl _ _, _ => true | .kClr _ _, _ => true
  | .idle, _ => false | .wGot _ _, _ => false | .wLinked _, _ => false | .wListed _, _ => false | .wPending _, _ => false
  | .rRead _ _, _ => false | .rCleared _ _, _ => false | .unlock _, _ => false | .handing _, _ => false | .done _, _ => false

def headW : List Nat → Nat
  | [] => 0
  | f :: _ => f

/-- the `scratch` links of the listed fibers spell out the list -/
def ChainW (scr : Nat → Nat) : List Nat → Prop
  | [] => True
  | f :: rest => scr f = headW rest ∧ ChainW scr rest

theorem chainW_upd_of_not_mem (scr : Nat → Nat) (n v : Nat) :
    ∀ l : List Nat, n ∉ l → ChainW scr l → ChainW (upd scr n v) l := by
  intro l
  induction l with
  | nil => intros; trivial
  | cons m rest ih =>
    intro hn hc
    simp only [List.mem_cons, not_or] at hn
    refine ⟨?_, ih hn.2 hc.2⟩
    have : m ≠ n := fun e => hn.1 e.symm
    simp [upd, this, hc.1]

theorem mem_addFiber (l : List Nat) (f g : Nat) : g ∈ addFiber l f ↔ g ∈ l ∨ g = f := by
  unfold addFiber
  by_cases h : f ∈ l
  · simp only [List.contains_iff_mem, h, if_true]
    constructor
    · intro hg; exact Or.inl hg
    · rintro (hg | hg)
      · exact hg
      · subst hg; exact h
  · simp [List.contains_iff_mem, h]

theorem waitOp_inCS (p : Pc) (o : Op) (h : p.waitOp = some o) : p.inCS = true := by
  cases p <;> simp [Pc.waitOp, Pc.inCS] at *

theorem wakingOf_inCS (p : Pc) (w : Nat) (h : p.wakingOf = some w) : p.inCS = true := by
  cases p <;> simp [Pc.wakingOf, Pc.inCS] at *

theorem headW_mem (l : List Nat) (h : l ≠ []) : headW l ∈ l := by
  cases l with
  | nil => exact absurd rfl h
  | cons a r => simp [headW]

theorem headW_cons (l : List Nat) (hw : headW l ≠ 0) : ∃ rest, l = headW l :: rest := by
  cases l with
  | nil => simp [headW] at hw
  | cons a r => exact ⟨r, by simp [headW]⟩

theorem listedOp_cases (p : Pc) (o : Op) (h : p.listedOp = some o) :
    p = .wListed o ∨ p = .wPending o ∨ p = .wAsleep o := by
  cases p <;> simp [Pc.listedOp] at * <;> simp [h]

theorem Op.isRecv_false (o : Op) (h : o.isRecv = false) : ∃ v, o = .send v := by
  cases o with
  | recv => simp [Op.isRecv] at h
  | send v => exact ⟨v, rfl⟩

theorem Op.isSend_false (o : Op) (h : o.isSend = false) : o = .recv := by
  cases o with
  | recv => rfl
  | send v => simp [Op.isSend] at h

structure Inv (s : St) : Prop where
  -- lock discipline
  cs_lock : ∀ f, (s.pc f).inCS = true → s.lock = some f
  handoff_free : ∀ g, s.handoffBy = some g → s.lock = none
  -- what the lock holder knows
  gotHigh_eq : ∀ f o h, s.pc f = .gotHigh o h → h = s.high
  gotLow_eq : ∀ f o h l, s.pc f = .gotLow o h l → h = s.high ∧ l = s.low
  sWrote_eq : ∀ f v h, s.pc f = .sWrote v h → h = s.high ∧ s.high - s.low < s.cap
  rRead_eq : ∀ f l m, s.pc f = .rRead l m → l = s.low ∧ s.high > s.low
  rCleared_eq : ∀ f l m, s.pc f = .rCleared l m → l = s.low ∧ s.high > s.low
  wait_recv : ∀ f, (s.pc f).waitOp = some .recv → s.high ≤ s.low
  wait_send : ∀ f v, (s.pc f).waitOp = some (.send v) → ¬ (s.high - s.low < s.cap)
  wGot_eq : ∀ f o w, s.pc f = .wGot o w → w = s.waiters
  wLinked_eq : ∀ f o, s.pc f = .wLinked o → s.scr f = s.waiters
  woken_asleep : ∀ f, s.woken f = true → ∃ o, s.pc f = .wAsleep o
  -- who ever blocked
  ever_recv1 : ∀ f, (s.pc f).waitOp = some .recv → s.everR = true
  ever_recv2 : ∀ f, s.pc f = .wAsleep .recv → s.everR = true
  ever_send1 : ∀ f v, (s.pc f).waitOp = some (.send v) → s.everS = true
  ever_send2 : ∀ f v, s.pc f = .wAsleep (.send v) → s.everS = true
  -- the waiter list
  waiters_eq : s.waiters = headW s.wl
  chain : ChainW s.scr s.wl
  wl_nodup : s.wl.Nodup
  wl_nz : 0 ∉ s.wl
  wl_listed : ∀ f, f ∈ s.wl → (∃ o, (s.pc f).listedOp = some o) ∧ s.woken f = false
  listed_wl1 : ∀ f o, s.pc f = .wListed o → f ∈ s.wl
  listed_wl2 : ∀ f o, s.pc f = .wPending o → f ∈ s.wl
  kGot_head : ∀ g res w, s.pc g = .kGot res w → ∃ rest, s.wl = w :: rest
  kNext_head : ∀ g res w x, s.pc g = .kNext res w x → ∃ rest, s.wl = w :: rest ∧ x = headW rest
  waking_of : ∀ g w, (s.pc g).wakingOf = some w → s.waking = some w
  waking_lock : ∀ w, s.waking = some w →
    (∃ g, s.lock = some g ∧ (s.pc g).wakingOf = some w) ∧ w ∉ s.wl ∧ s.woken w = false ∧
    ∃ o, s.pc w = .wAsleep o
  asleep_wl : ∀ f o, s.pc f = .wAsleep o → s.woken f = false → f ∈ s.wl ∨ s.waking = some f
  fibers_all : ∀ f, s.pc f ≠ .idle → f ∈ s.fibers
  nz : ∀ f, s.pc f ≠ .idle → f ≠ 0
  -- somebody is active (homogeneous waiter list)
  actR : s.everS = false → s.wl ≠ [] → s.high > s.low → ∃ g, (s.pc g).witR (s.woken g) = true
  actS : s.everR = false → s.wl ≠ [] → s.high - s.low < s.cap → ∃ g, (s.pc g).witS (s.woken g) = true

theorem inv_init (cap : Nat) : Inv (init false cap) := by
  constructor <;> simp [init, Pc.inCS, Pc.wakingOf, Pc.waitOp, Pc.listedOp, headW, ChainW]

/-- closes one conjunct of `Inv s'` for an explicit successor record -/
macro "mc_close" : tactic =>
  `(tactic| (intros; (try simp only [upd] at *); first | done | grind [Pc.inCS, Pc.wakingOf, Pc.waitOp, Pc.listedOp, Pc.witR, Pc.witS, Op.isRecv, Op.isSend, headW, ChainW, mem_addFiber, waitOp_inCS, wakingOf_inCS, headW_mem, headW_cons, listedOp_cases, Op.isRecv_false, Op.isSend_false]))

end LibfiberVerif.MultiChan
