/-
  Proof/Mutex.lean — the inductive invariant of the fiber-mutex model (property C03) and the
  lemmas `Props/C03.lean` is assembled from.

  Layout: (1) classification of program counters, (2) finite cardinality of a predicate on
  fibers (`Card`, via duplicate-free enumerations — fibers are unbounded, `Nat → Pc`),
  (3) the invariant `Mutex.Inv`, (4) one preservation lemma per event constructor,
  (5) control flow and trace-level (history) invariants: hand-off counting, critical-section
  alternation, refinement of the atomic lock specification, (6) the data-path invariant
  `Mutex.DP` (exclusive node ownership ⇒ the fiber a waker wakes is the new owner).
-/
import LibfiberVerif.Model.Mutex

namespace LibfiberVerif.Mutex

/-! ### 1. classes of program counters -/

/-- between a successful acquire point and the release `fetch_add` (not counting a waiter that
    was handed the mutex and has not resumed yet: that one is `parked` with `owner = some f`) -/
def Pc.isHold : Pc → Bool
  | .acquired | .held | .tryDone true | .unlockCalled => true
  | _ => false

/-- announced (`fetch_sub` done, saw contention), not yet enqueued (`xchg(&tail)` not done) -/
def Pc.isPre : Pc → Bool
  | .lockDec _ | .waitSaving | .waitGotNode _ | .waitWroteData _ | .waitClearedNode _
  | .pushCleared _ => true
  | _ => false

/-- in the wake loop, before the pop took effect (`head := next` not yet written) -/
def Pc.isWake : Pc → Bool
  | .wakeLoop | .popGotHead _ | .popGotNext _ _ => true
  | _ => false

/-- after the pop took effect, still touching the queue nodes / the woken fiber -/
def Pc.isPost : Pc → Bool
  | .popMoved _ _ | .popGotData _ _ _ | .popWrote _ _ | .wakeGotFiber _ _ | .wakeGaveNode _ _
  | .wakeReadState _ _ => true
  | _ => false

/-- anywhere inside `mpsc_fifo_trypop` / the wake loop: the consumer side of the waiter queue -/
def Pc.isPop (p : Pc) : Bool := p.isWake || p.isPost

/-- enqueued or about to link: `xchg(&tail)` done -/
def Pc.isEnq : Pc → Bool
  | .pushXchgd _ _ _ | .parked => true
  | _ => false

/-- coarse view of a pc: everything the invariant depends on -/
inductive K
  | other | pre | xchgd (m i : Nat) | parked | hold | held | w | wNext | post
  deriving DecidableEq

def Pc.k : Pc → K
  | .lockDec _ | .waitSaving | .waitGotNode _ | .waitWroteData _ | .waitClearedNode _
  | .pushCleared _ => .pre
  | .pushXchgd m _ i => .xchgd m i
  | .parked => .parked
  | .acquired | .tryDone true | .unlockCalled => .hold
  | .held => .held
  | .wakeLoop | .popGotHead _ => .w
  | .popGotNext _ _ => .wNext
  | .popMoved _ _ | .popGotData _ _ _ | .popWrote _ _ | .wakeGotFiber _ _ | .wakeGaveNode _ _
  | .wakeReadState _ _ => .post
  | _ => .other

def K.isHold (k : K) : Prop := k = .hold ∨ k = .held
def K.isWake (k : K) : Prop := k = .w ∨ k = .wNext
def K.isPop (k : K) : Prop := k = .w ∨ k = .wNext ∨ k = .post

theorem k_isHold (p : Pc) : p.k.isHold ↔ p.isHold = true := by
  cases p <;> simp [Pc.k, K.isHold, Pc.isHold]
  next r => cases r <;> simp
theorem k_isWake (p : Pc) : p.k.isWake ↔ p.isWake = true := by
  cases p <;> simp [Pc.k, K.isWake, Pc.isWake]
  next r => cases r <;> simp
theorem k_isPop (p : Pc) : p.k.isPop ↔ p.isPop = true := by
  cases p <;> simp [Pc.k, K.isPop, Pc.isPop, Pc.isWake, Pc.isPost]
  next r => cases r <;> simp
theorem k_post (p : Pc) : p.k = .post ↔ p.isPost = true := by
  cases p <;> simp [Pc.k, Pc.isPost]
  next r => cases r <;> simp
theorem k_pre (p : Pc) : p.k = .pre ↔ p.isPre = true := by
  cases p <;> simp [Pc.k, Pc.isPre]
  next r => cases r <;> simp
theorem k_parked (p : Pc) : p.k = .parked ↔ p = .parked := by
  cases p <;> simp [Pc.k]
  next r => cases r <;> simp
theorem k_held (p : Pc) : p.k = .held ↔ p = .held := by
  cases p <;> simp [Pc.k]
  next r => cases r <;> simp
theorem k_xchgd (p : Pc) (m i : Nat) : p.k = .xchgd m i ↔ ∃ q, p = .pushXchgd m q i := by
  cases p <;> simp [Pc.k]
  next r => cases r <;> simp
theorem k_wNext (p : Pc) : p.k = .wNext ↔ ∃ h x, p = .popGotNext h x := by
  cases p <;> simp [Pc.k]
  next r => cases r <;> simp

/-- "announced": has decremented `counter` in a contended `lock` and has not been handed the
    mutex yet.  (`o` = current owner, `f` = the fiber, `k` = its pc class.) -/
def annK (o : Option Nat) (f : Nat) : K → Bool
  | .pre => true
  | .xchgd _ _ => true
  | .parked => decide (o ≠ some f)
  | _ => false

/-- fiber `f` is an announced waiter in state `s` -/
def Ann (s : St) (f : Nat) : Prop := annK s.owner f (s.pc f).k = true

theorem ann_iff (s : St) (f : Nat) :
    Ann s f ↔ ((s.pc f).isPre = true ∨ (∃ m p i, s.pc f = .pushXchgd m p i) ∨
      (s.pc f = .parked ∧ s.owner ≠ some f)) := by
  unfold Ann
  cases h : s.pc f <;> simp [Pc.k, annK, Pc.isPre]
  next r => cases r <;> simp

/-! ### 2. cardinality of a predicate on fibers -/

/-- exactly `n` fibers satisfy `P` -/
def Card (P : Nat → Prop) (n : Nat) : Prop :=
  ∃ l : List Nat, l.Nodup ∧ (∀ f, f ∈ l ↔ P f) ∧ l.length = n

theorem Card.congr {P Q : Nat → Prop} {n : Nat} (h : Card P n) (hpq : ∀ f, Q f ↔ P f) :
    Card Q n := by
  obtain ⟨l, h1, h2, h3⟩ := h
  exact ⟨l, h1, fun f => by rw [h2, hpq], h3⟩

theorem Card.unique {P : Nat → Prop} {n m : Nat} (h : Card P n) (h' : Card P m) : n = m := by
  obtain ⟨l, h1, h2, h3⟩ := h
  obtain ⟨l', h1', h2', h3'⟩ := h'
  have : l.Perm l' := (List.perm_ext_iff_of_nodup h1 h1').2 (fun a => by rw [h2, h2'])
  rw [← h3, ← h3']; exact this.length_eq

theorem Card.insert {P Q : Nat → Prop} {n : Nat} (h : Card P n) (a : Nat) (ha : ¬ P a)
    (hq : ∀ f, Q f ↔ (f = a ∨ P f)) : Card Q (n + 1) := by
  obtain ⟨l, h1, h2, h3⟩ := h
  refine ⟨a :: l, ?_, ?_, by simp [h3]⟩
  · rw [List.nodup_cons]; exact ⟨fun hm => ha ((h2 a).1 hm), h1⟩
  · intro f; simp [h2, hq]

theorem Card.erase {P Q : Nat → Prop} {n : Nat} (h : Card P n) (a : Nat) (ha : P a)
    (hq : ∀ f, Q f ↔ (f ≠ a ∧ P f)) : 1 ≤ n ∧ Card Q (n - 1) := by
  obtain ⟨l, h1, h2, h3⟩ := h
  have hm : a ∈ l := (h2 a).2 ha
  refine ⟨?_, l.erase a, h1.erase a, ?_, by rw [List.length_erase_of_mem hm, h3]⟩
  · rw [← h3]; exact List.length_pos_of_mem hm
  · intro f; rw [h1.mem_erase_iff, h2, hq]

theorem Card.zero_iff {P : Nat → Prop} : Card P 0 ↔ ∀ f, ¬ P f := by
  constructor
  · rintro ⟨l, -, h2, h3⟩ f hf
    have := (h2 f).2 hf
    rw [List.length_eq_zero_iff.1 h3] at this; simp at this
  · intro h; exact ⟨[], by simp, fun f => by simp [h f], rfl⟩

theorem Card.pos {P : Nat → Prop} {n : Nat} (h : Card P n) (hn : 0 < n) : ∃ f, P f := by
  obtain ⟨l, -, h2, h3⟩ := h
  cases l with
  | nil => simp at h3; omega
  | cons a l => exact ⟨a, (h2 a).1 (by simp)⟩

theorem Card.pos_of {P : Nat → Prop} {n : Nat} (h : Card P n) {f : Nat} (hf : P f) : 0 < n := by
  obtain ⟨l, -, h2, h3⟩ := h
  rw [← h3]; exact List.length_pos_of_mem ((h2 f).2 hf)

/-! ### 3. the invariant -/

theorem free_form {o : Option Nat} {W : Nat → Prop} (h : o = none → (∀ f, ¬ W f) → False) :
    o ≠ none ∨ ∃ f, W f := by
  by_cases ho : o = none
  · right; apply Classical.byContradiction; intro hn; exact h ho (fun f hf => hn ⟨f, hf⟩)
  · left; exact ho

structure Inv (s : St) : Prop where
  /-- whoever is between acquire and release is the ghost owner -/
  hold_owner : ∀ f, (s.pc f).k.isHold → s.owner = some f
  /-- the ghost owner is between acquire and release, or was handed the mutex while parked -/
  owner_hold : ∀ f, s.owner = some f → (s.pc f).k.isHold ∨ (s.pc f).k = .parked
  /-- before its pop takes effect a waker sees a free mutex -/
  wake_free : ∀ f, (s.pc f).k.isWake → s.owner = none ∧ s.waking = false
  /-- single consumer of the waiter queue -/
  pop_one : ∀ f g, (s.pc f).k.isPop → (s.pc g).k.isPop → f = g
  post_waking : ∀ f, (s.pc f).k = .post → s.waking = true
  waking_owner : s.waking = true → ∃ g, s.owner = some g ∧ (s.pc g).k = .parked
  hd_le : s.hd ≤ s.order.length
  lnk_bound : ∀ i, s.order.length ≤ i → s.linked i = false
  q_xchgd : ∀ f m i, (s.pc f).k = .xchgd m i →
    s.order[i]? = some (m, f) ∧ s.hd ≤ i ∧ s.linked i = false
  q_parked : ∀ f, (s.pc f).k = .parked → s.owner ≠ some f →
    ∃ i n, s.hd ≤ i ∧ s.order[i]? = some (n, f) ∧ s.linked i = true
  q_ent : ∀ i n f, s.hd ≤ i → s.order[i]? = some (n, f) →
    (s.pc f).k = .xchgd n i ∨ ((s.pc f).k = .parked ∧ s.linked i = true ∧ s.owner ≠ some f)
  /-- a fiber waits at most once among the entries not yet popped -/
  q_dist : ∀ i j n n' f, s.hd ≤ i → s.hd ≤ j → s.order[i]? = some (n, f) →
    s.order[j]? = some (n', f) → i = j
  w_next : ∀ f, (s.pc f).k = .wNext → s.hd < s.order.length ∧ s.linked s.hd = true
  /-- the counting identity -/
  cnt : ∃ n, Card (Ann s) n ∧ s.counter = 1 - (if s.owner = none then 0 else 1) - (n : Int)
  /-- a waker in its loop has somebody to find -/
  wake_ann : ∀ f, (s.pc f).k.isWake → ∃ g, Ann s g
  /-- no stranded waiter -/
  free : ∀ g, Ann s g → s.owner ≠ none ∨ ∃ f, (s.pc f).k.isWake
  cs_held : ∀ f, f ∈ s.inCs → (s.pc f).k = .held
  cs_nodup : s.inCs.Nodup
  cs_seen : ∀ f, f ∈ s.inCs → s.seen f = s.data

theorem inv_init (stub : Nat) (nodeOf : Nat → Nat) : Inv (init stub nodeOf) := by
  constructor <;> simp [init, Pc.k, K.isHold, K.isWake, K.isPop, Ann, annK]
  exact ⟨0, Card.zero_iff.2 (by simp [Ann, annK, Pc.k]), by simp⟩

/-! ### 4. preservation, one lemma per event constructor -/

/-- steps that stay inside one pc class and touch none of the fields the invariant reads -/
theorem Inv.frame {s s' : St} (hi : Inv s)
    (hk : ∀ f, (s'.pc f).k = (s.pc f).k) (h1 : s'.owner = s.owner) (h2 : s'.waking = s.waking)
    (h3 : s'.hd = s.hd) (h4 : s'.order = s.order) (h5 : s'.linked = s.linked)
    (h6 : s'.counter = s.counter) (h7 : s'.inCs = s.inCs) (h8 : s'.seen = s.seen)
    (h9 : s'.data = s.data) : Inv s' := by
  have hann : Ann s' = Ann s := by
    funext f; simp only [Ann, hk, h1]
  constructor <;> simp only [hk, h1, h2, h3, h4, h5, h6, h7, h8, h9, hann]
  · exact hi.hold_owner
  · exact hi.owner_hold
  · exact hi.wake_free
  · exact hi.pop_one
  · exact hi.post_waking
  · exact hi.waking_owner
  · exact hi.hd_le
  · exact hi.lnk_bound
  · exact hi.q_xchgd
  · exact hi.q_parked
  · exact hi.q_ent
  · exact hi.q_dist
  · exact hi.w_next
  · exact hi.cnt
  · exact hi.wake_ann
  · exact hi.free
  · exact hi.cs_held
  · exact hi.cs_nodup
  · exact hi.cs_seen

theorem k_upd (pc : Nat → Pc) (f0 : Nat) (p : Pc) (f : Nat) :
    (upd pc f0 p f).k = if f = f0 then p.k else (pc f).k := by
  simp only [upd]; split <;> rfl

theorem k_upd_same {pc : Nat → Pc} {f0 : Nat} {p : Pc} (h : p.k = (pc f0).k) (f : Nat) :
    (upd pc f0 p f).k = (pc f).k := by
  rw [k_upd]; split
  · next h' => rw [h', h]
  · rfl

/-- a step that only moves `f0` inside its pc class -/
theorem Inv.move {s : St} (hi : Inv s) {f0 : Nat} {p : Pc} (h : p.k = (s.pc f0).k) :
    Inv { s with pc := upd s.pc f0 p } :=
  hi.frame (k_upd_same h) rfl rfl rfl rfl rfl rfl rfl rfl rfl

/-- consequences of the counting identity -/
theorem Inv.counter_le {s : St} (hi : Inv s) : s.counter ≤ 1 := by
  obtain ⟨n, -, h⟩ := hi.cnt
  split at h <;> omega

theorem Inv.free_of_one {s : St} (hi : Inv s) (h1 : s.counter = 1) :
    s.owner = none ∧ ∀ g, ¬ Ann s g := by
  obtain ⟨n, hc, h⟩ := hi.cnt
  split at h
  · next ho =>
    have : n = 0 := by omega
    subst this
    exact ⟨ho, Card.zero_iff.1 hc⟩
  · omega

theorem annK_some_ne {f g : Nat} (h : g ≠ f) (k : K) : annK (some f) g k = annK none g k := by
  cases k <;> simp [annK]; omega

local macro "mx_close" : tactic =>
  `(tactic| (intros; (simp only [k_upd, K.isHold, K.isWake, K.isPop] at *) <;> grind))

/-- uncontended acquire: `fetch_sub` that saw 1, or successful trylock CAS -/
theorem Inv.acquire {s : St} (hi : Inv s) {f : Nat} {p : Pc} (hp : p.k = .hold)
    (hpc : (s.pc f).k = .other) (h1 : s.counter = 1) :
    Inv { s with counter := s.counter - 1, owner := some f, pc := upd s.pc f p } := by
  obtain ⟨hown, hfree⟩ := hi.free_of_one h1
  have hann : ∀ g, ¬ Ann { s with counter := s.counter - 1, owner := some f, pc := upd s.pc f p } g := by
    intro g
    have := hfree g
    simp only [Ann, k_upd] at this ⊢
    split
    · simp [hp, annK]
    · next hg => rw [annK_some_ne hg, ← hown]; exact this
  obtain ⟨a1, a2, a3, a4, a5, a6, a7, a8, a9, a10, a11, a11', a12, a13, a14, a15, a16, a17, a18⟩ := hi
  constructor
  · mx_close
  · mx_close
  · mx_close
  · mx_close
  · mx_close
  · mx_close
  · mx_close
  · mx_close
  · mx_close
  · mx_close
  · mx_close
  · mx_close
  · mx_close
  · exact ⟨0, Card.zero_iff.2 hann, by simp [h1]⟩
  · intro g hg
    simp only [k_upd] at hg
    split at hg
    · simp [hp, K.isWake] at hg
    · obtain ⟨x, hx⟩ := a14 g hg; exact absurd hx (hfree x)
  · intro g hg; exact absurd hg (hann g)
  · mx_close
  · mx_close
  · mx_close

/-- contended `fetch_sub`: the locker announces itself -/
theorem Inv.announce {s : St} (hi : Inv s) {f : Nat} {p : Pc} (hp : p.k = .pre)
    (hpc : (s.pc f).k = .other) (h1 : s.counter ≠ 1) :
    Inv { s with counter := s.counter - 1, pc := upd s.pc f p } := by
  have hnf : ¬ Ann s f := by simp [Ann, hpc, annK]
  have hann : ∀ g, Ann { s with counter := s.counter - 1, pc := upd s.pc f p } g ↔ (g = f ∨ Ann s g) := by
    intro g
    simp only [Ann, k_upd]
    split
    · next hg => simp [hp, annK, hg]
    · next hg => simp [hg]
  obtain ⟨n, hc, hn⟩ := hi.cnt
  obtain ⟨a1, a2, a3, a4, a5, a6, a7, a8, a9, a10, a11, a11', a12, a13, a14, a15, a16, a17, a18⟩ := hi
  constructor
  · mx_close
  · mx_close
  · mx_close
  · mx_close
  · mx_close
  · mx_close
  · mx_close
  · mx_close
  · mx_close
  · mx_close
  · mx_close
  · mx_close
  · mx_close
  · refine ⟨n + 1, hc.insert f hnf hann, ?_⟩
    simp only []; split at hn <;> simp_all <;> omega
  · intro g hg
    exact ⟨f, (hann f).2 (Or.inl rfl)⟩
  · intro g _
    apply free_form; intro ho hw
    have hw' : ∀ g, ¬ (s.pc g).k.isWake := by
      intro g; have := hw g; simp only [k_upd] at this; split at this
      · next hg => subst hg; simp [hpc, K.isWake]
      · exact this
    have h0 : n = 0 := by
      cases n with
      | zero => rfl
      | succ m =>
        obtain ⟨x, hx⟩ := hc.pos (Nat.succ_pos m)
        exact (a15 x hx).elim (fun h => absurd ho h) (fun ⟨f', hf'⟩ => absurd hf' (hw' f'))
    simp only [] at ho
    subst h0; simp [ho] at hn; exact h1 hn
  · mx_close
  · mx_close
  · mx_close

theorem getElem?_snoc_of_some {α : Type} {l : List α} {i : Nat} {a : α} (x : α)
    (h : l[i]? = some a) : (l ++ [x])[i]? = some a := by
  have hi : i < l.length := by
    apply Classical.byContradiction; intro hn
    rw [List.getElem?_eq_none (by omega)] at h; cases h
  rw [List.getElem?_append_left hi]; exact h

theorem getElem?_snoc_cases {α : Type} {l : List α} {i : Nat} {a x : α}
    (h : (l ++ [x])[i]? = some a) : l[i]? = some a ∨ (i = l.length ∧ a = x) := by
  rw [List.getElem?_append] at h
  split at h
  · exact Or.inl h
  · next hn =>
    right
    have : i - l.length = 0 := by
      apply Classical.byContradiction; intro h0
      rw [List.getElem?_eq_none (by simp; omega)] at h; cases h
    rw [this] at h; simp at h
    exact ⟨by omega, h.symm⟩

/-- `xchg(&tail)`: the waiter's entry is appended to the ghost order -/
theorem Inv.enqueue {s : St} (hi : Inv s) {f m : Nat} {p : Pc} (hp : p.k = .xchgd m s.order.length)
    (hpc : (s.pc f).k = .pre) :
    Inv { s with order := s.order ++ [(m, f)], pc := upd s.pc f p } := by
  have hann : Ann { s with order := s.order ++ [(m, f)], pc := upd s.pc f p } = Ann s := by
    funext g
    simp only [Ann, k_upd]
    split
    · next hg => subst hg; simp [hp, hpc, annK]
    · rfl
  obtain ⟨a1, a2, a3, a4, a5, a6, a7, a8, a9, a10, a11, a11', a12, a13, a14, a15, a16, a17, a18⟩ := hi
  constructor
  · mx_close
  · mx_close
  · mx_close
  · mx_close
  · mx_close
  · mx_close
  · simp only [List.length_append, List.length_singleton]; omega
  · simp only [List.length_append, List.length_singleton]; intro i hi; exact a8 i (by omega)
  · intro g m' i hg
    simp only [k_upd] at hg
    split at hg
    · next hgf =>
      subst hgf; rw [hp] at hg; cases hg
      exact ⟨by simp, a7, a8 _ (Nat.le_refl _)⟩
    · obtain ⟨h1, h2, h3⟩ := a9 g m' i hg
      exact ⟨getElem?_snoc_of_some _ h1, h2, h3⟩
  · intro g hg ho
    simp only [k_upd] at hg
    split at hg
    · rw [hp] at hg; cases hg
    · obtain ⟨i, n, h1, h2, h3⟩ := a10 g hg ho
      exact ⟨i, n, h1, getElem?_snoc_of_some _ h2, h3⟩
  · intro i n g hi hg
    simp only [k_upd]
    rcases getElem?_snoc_cases hg with h | ⟨h1, h2⟩
    · have := a11 i n g hi h
      split
      · next hgf => subst hgf; rw [hpc] at this; simp at this
      · exact this
    · cases h2; subst h1; simp [hp]
  · intro i j n n' g hi hj h1 h2
    have key : ∀ i n, s.hd ≤ i → s.order[i]? = some (n, g) → g ≠ f := by
      intro i0 n0 hi0 h0 hgf; rw [hgf] at h0
      have := a11 i0 n0 f hi0 h0; rw [hpc] at this; simp at this
    rcases getElem?_snoc_cases h1 with h1 | ⟨h1, e1⟩ <;>
      rcases getElem?_snoc_cases h2 with h2 | ⟨h2, e2⟩
    · exact a11' i j n n' g hi hj h1 h2
    · cases e2; exact absurd rfl (key i n hi h1)
    · cases e1; exact absurd rfl (key j n' hj h2)
    · omega
  · intro g hg
    simp only [k_upd] at hg
    split at hg
    · rw [hp] at hg; cases hg
    · have := a12 g hg
      simp only [List.length_append, List.length_singleton]; exact ⟨by omega, this.2⟩
  · rw [hann]; exact a13
  · rw [hann]; mx_close
  · rw [hann]; mx_close
  · mx_close
  · mx_close
  · mx_close

/-- `prev->next = node`: the entry becomes visible to the consumer, the waiter parks -/
theorem Inv.link {s : St} (hi : Inv s) {f m i : Nat} {p : Pc} (hp : p.k = .parked)
    (hpc : (s.pc f).k = .xchgd m i) :
    Inv { s with linked := upd s.linked i true, pc := upd s.pc f p } := by
  have hno : s.owner ≠ some f := by
    intro h; have := hi.owner_hold f h; simp [hpc, K.isHold] at this
  have hann : Ann { s with linked := upd s.linked i true, pc := upd s.pc f p } = Ann s := by
    funext g
    simp only [Ann, k_upd]
    split
    · next hg => subst hg; simp [hp, hpc, annK, hno]
    · rfl
  obtain ⟨a1, a2, a3, a4, a5, a6, a7, a8, a9, a10, a11, a11', a12, a13, a14, a15, a16, a17, a18⟩ := hi
  constructor
  · mx_close
  · mx_close
  · mx_close
  · mx_close
  · mx_close
  · mx_close
  · mx_close
  · intros; simp only [upd] at *; grind
  · intros; simp only [upd] at *; grind
  · intros; simp only [upd] at *; grind
  · intros; simp only [upd] at *; grind
  · intros; grind
  · intros; simp only [upd] at *; grind
  · rw [hann]; exact a13
  · rw [hann]; mx_close
  · rw [hann]; mx_close
  · mx_close
  · mx_close
  · mx_close

/-- a handed-off waiter resumes and returns from `lock` -/
theorem Inv.resume {s : St} (hi : Inv s) {f : Nat} {p : Pc} (hp : p.k = .held)
    (hpc : (s.pc f).k = .parked) (ho : s.owner = some f) (hw : s.waking = false) :
    Inv { s with pc := upd s.pc f p } := by
  have hann : Ann { s with pc := upd s.pc f p } = Ann s := by
    funext g
    simp only [Ann, k_upd]
    split
    · next hg => subst hg; simp [hp, hpc, annK, ho]
    · rfl
  obtain ⟨a1, a2, a3, a4, a5, a6, a7, a8, a9, a10, a11, a11', a12, a13, a14, a15, a16, a17, a18⟩ := hi
  constructor
  · mx_close
  · mx_close
  · mx_close
  · mx_close
  · mx_close
  · mx_close
  · mx_close
  · mx_close
  · mx_close
  · mx_close
  · mx_close
  · mx_close
  · mx_close
  · rw [hann]; exact a13
  · rw [hann]; mx_close
  · rw [hann]; mx_close
  · mx_close
  · mx_close
  · mx_close

/-- moves between `hold` and `held` (return from lock/trylock, call of unlock) -/
theorem Inv.holdMove {s : St} (hi : Inv s) {f : Nat} {p : Pc} (hp : p.k = .hold ∨ p.k = .held)
    (hpc : (s.pc f).k = .hold ∨ (s.pc f).k = .held) (hcs : f ∈ s.inCs → p.k = .held) :
    Inv { s with pc := upd s.pc f p } := by
  have hann : Ann { s with pc := upd s.pc f p } = Ann s := by
    funext g
    simp only [Ann, k_upd]
    split
    · next hg =>
      subst hg
      have h1 : ∀ k : K, (k = .hold ∨ k = .held) → annK s.owner g k = false := by
        intro k hk; rcases hk with hk | hk <;> subst hk <;> simp [annK]
      rw [h1 _ hp, h1 _ hpc]
    · rfl
  obtain ⟨a1, a2, a3, a4, a5, a6, a7, a8, a9, a10, a11, a11', a12, a13, a14, a15, a16, a17, a18⟩ := hi
  constructor
  · mx_close
  · mx_close
  · mx_close
  · mx_close
  · mx_close
  · mx_close
  · mx_close
  · mx_close
  · mx_close
  · mx_close
  · mx_close
  · mx_close
  · mx_close
  · rw [hann]; exact a13
  · rw [hann]; mx_close
  · rw [hann]; mx_close
  · mx_close
  · mx_close
  · mx_close

/-- the release `fetch_add`: `p` is `unlockDone` (nobody announced) or `wakeLoop` -/
theorem Inv.release {s : St} (hi : Inv s) {f : Nat} {p : Pc} (hpc : (s.pc f).k = .hold)
    (hp : if s.counter + 1 = 1 then p.k = .other else p.k = .w) :
    Inv { s with counter := s.counter + 1, owner := none, pc := upd s.pc f p } := by
  have ho : s.owner = some f := hi.hold_owner f (by simp [hpc, K.isHold])
  have hp' : p.k = .other ∨ p.k = .w := by split at hp <;> simp [hp]
  have hann : Ann { s with counter := s.counter + 1, owner := none, pc := upd s.pc f p } = Ann s := by
    funext g
    simp only [Ann, k_upd]
    split
    · next hg =>
      subst hg
      rcases hp' with h | h <;> simp [h, hpc, annK]
    · next hg => rw [ho, annK_some_ne hg]
  obtain ⟨n, hc, hn⟩ := hi.cnt
  rw [ho] at hn; simp at hn
  have hw : s.waking = false := by
    cases h : s.waking with
    | false => rfl
    | true =>
      obtain ⟨g, h1, h2⟩ := hi.waking_owner h
      rw [ho] at h1; cases h1; rw [hpc] at h2; cases h2
  have hnw : ∀ g, ¬ (s.pc g).k.isWake := by
    intro g h
    have := (hi.wake_free g h).1; rw [ho] at this; cases this
  obtain ⟨a1, a2, a3, a4, a5, a6, a7, a8, a9, a10, a11, a11', a12, a13, a14, a15, a16, a17, a18⟩ := hi
  constructor
  · mx_close
  · mx_close
  · mx_close
  · mx_close
  · mx_close
  · mx_close
  · mx_close
  · mx_close
  · mx_close
  · intro g hg _
    simp only [k_upd] at hg; split at hg
    · rcases hp' with h | h <;> rw [h] at hg <;> cases hg
    · next hgf => exact a10 g hg (by rw [ho]; intro h; cases h; exact hgf rfl)
  · mx_close
  · mx_close
  · mx_close
  · rw [hann]; exact ⟨n, hc, by simp only []; simp; omega⟩
  · rw [hann]
    intro g hg
    simp only [k_upd] at hg
    split at hg
    · split at hp
      · rw [hp] at hg; simp [K.isWake] at hg
      · exact hc.pos (by omega)
    · exact absurd hg (hnw g)
  · rw [hann]
    intro g hg
    split at hp
    · have : n = 0 := by omega
      subst this; exact absurd hg (Card.zero_iff.1 hc g)
    · right; exact ⟨f, by simp [hp, K.isWake]⟩
  · mx_close
  · mx_close
  · mx_close

/-- `trypop` saw a linked successor of the stub -/
theorem Inv.gotNext {s : St} (hi : Inv s) {f : Nat} {p : Pc} (hp : p.k = .wNext)
    (hpc : (s.pc f).k = .w) (hq : s.hd < s.order.length ∧ s.linked s.hd = true) :
    Inv { s with pc := upd s.pc f p } := by
  have hann : Ann { s with pc := upd s.pc f p } = Ann s := by
    funext g
    simp only [Ann, k_upd]
    split
    · next hg => subst hg; simp [hp, hpc, annK]
    · rfl
  obtain ⟨a1, a2, a3, a4, a5, a6, a7, a8, a9, a10, a11, a11', a12, a13, a14, a15, a16, a17, a18⟩ := hi
  constructor
  · mx_close
  · mx_close
  · mx_close
  · mx_close
  · mx_close
  · mx_close
  · mx_close
  · mx_close
  · mx_close
  · mx_close
  · mx_close
  · mx_close
  · mx_close
  · rw [hann]; exact a13
  · rw [hann]; mx_close
  · rw [hann]; mx_close
  · mx_close
  · mx_close
  · mx_close

/-- facts about the entry a waker is about to pop -/
theorem Inv.pop_target {s : St} (hi : Inv s) {f n g : Nat} (hpc : (s.pc f).k = .wNext)
    (hq : s.order[s.hd]? = some (n, g)) :
    s.owner = none ∧ s.waking = false ∧ (s.pc g).k = .parked ∧ Ann s g ∧ g ≠ f := by
  obtain ⟨ho, hw⟩ := hi.wake_free f (Or.inr hpc)
  have hl := (hi.w_next f hpc).2
  have hg : (s.pc g).k = .parked := by
    rcases hi.q_ent s.hd n g (Nat.le_refl _) hq with h | h
    · have := (hi.q_xchgd g n s.hd h).2.2; rw [hl] at this; cases this
    · exact h.1
  refine ⟨ho, hw, hg, by simp [Ann, hg, annK, ho], ?_⟩
  intro h; subst h; rw [hpc] at hg; cases hg

/-- `head := next`: the pop takes effect, the oldest waiter becomes the owner -/
theorem Inv.pop {s : St} (hi : Inv s) {f n g x : Nat} {p : Pc} (hp : p.k = .post)
    (hpc : (s.pc f).k = .wNext) (hq : s.order[s.hd]? = some (n, g)) :
    Inv { s with headNode := x, hd := s.hd + 1, owner := some g, waking := true,
                 pc := upd s.pc f p } := by
  obtain ⟨ho, hw, hg, hag, hgf⟩ := hi.pop_target hpc hq
  have hann : ∀ y,
      Ann { s with headNode := x, hd := s.hd + 1, owner := some g, waking := true,
                   pc := upd s.pc f p } y ↔ (y ≠ g ∧ Ann s y) := by
    intro y
    simp only [Ann, k_upd]
    split
    · next hy => subst hy; simp [hp, hpc, annK]
    · next hy =>
      by_cases hyg : y = g
      · subst hyg; simp [hg, annK]
      · rw [annK_some_ne hyg, ← ho]; simp [hyg]
  obtain ⟨c, hc, hn⟩ := hi.cnt
  rw [ho] at hn; simp at hn
  obtain ⟨hc1, hc'⟩ := hc.erase g hag hann
  have hlen := (hi.w_next f hpc).1
  obtain ⟨a1, a2, a3, a4, a5, a6, a7, a8, a9, a10, a11, a11', a12, a13, a14, a15, a16, a17, a18⟩ := hi
  constructor
  · mx_close
  · mx_close
  · mx_close
  · mx_close
  · mx_close
  · mx_close
  · mx_close
  · mx_close
  · mx_close
  · mx_close
  · mx_close
  · mx_close
  · mx_close
  · exact ⟨c - 1, hc', by simp only []; simp; omega⟩
  · mx_close
  · intro y _; left; simp
  · mx_close
  · mx_close
  · mx_close

/-- the waker's last access to the woken fiber: it will now call `fiber_manager_schedule` -/
theorem Inv.wakeDone {s : St} (hi : Inv s) {f : Nat} {p : Pc} (hp : p.k = .other)
    (hpc : (s.pc f).k = .post) :
    Inv { s with waking := false, pc := upd s.pc f p } := by
  have hann : Ann { s with waking := false, pc := upd s.pc f p } = Ann s := by
    funext g
    simp only [Ann, k_upd]
    split
    · next hg => subst hg; simp [hp, hpc, annK]
    · rfl
  obtain ⟨a1, a2, a3, a4, a5, a6, a7, a8, a9, a10, a11, a11', a12, a13, a14, a15, a16, a17, a18⟩ := hi
  constructor
  · mx_close
  · mx_close
  · mx_close
  · mx_close
  · mx_close
  · mx_close
  · mx_close
  · mx_close
  · mx_close
  · mx_close
  · mx_close
  · mx_close
  · mx_close
  · rw [hann]; exact a13
  · rw [hann]; mx_close
  · rw [hann]; mx_close
  · mx_close
  · mx_close
  · mx_close

/-- harness notes `cs enter` / `cs exit` -/
theorem Inv.csFrame {s : St} (hi : Inv s) {l : List Nat} {sn : Nat → Nat} {d : Nat}
    (h1 : ∀ f, f ∈ l → (s.pc f).k = .held) (h2 : l.Nodup) (h3 : ∀ f, f ∈ l → sn f = d) :
    Inv { s with inCs := l, seen := sn, data := d } :=
  { hi with cs_held := h1, cs_nodup := h2, cs_seen := h3 }

/-- a step inside one pc class that may also touch `ndata` / `fnode` -/
local macro "mx_frame" h:term : tactic =>
  `(tactic| exact Inv.frame ‹Inv _› (k_upd_same (by rw [$h:term]; rfl)) rfl rfl rfl rfl rfl rfl rfl rfl rfl)

theorem headNext_ne_zero {s : St} (h : headNext s ≠ 0) :
    s.hd < s.order.length ∧ s.linked s.hd = true := by
  unfold headNext at h
  split at h
  · next n g heq =>
    have hlt : s.hd < s.order.length := by
      apply Classical.byContradiction; intro hn
      rw [List.getElem?_eq_none (by omega)] at heq; cases heq
    refine ⟨hlt, ?_⟩
    cases hl : s.linked s.hd with
    | true => rfl
    | false => simp [hl] at h
  · simp at h

theorem inv_step_lock {s s' : St} (hi : Inv s) :
    ∀ e, (∃ f, e = Ev.callLock f) ∨ (∃ f o, e = Ev.fsub f o) ∨ (∃ f, e = Ev.retLock f) ∨
      (∃ f a b, e = Ev.xchgTail f a b) ∨ (∃ f a b, e = Ev.wNext f a b) ∨ (∃ f a b, e = Ev.rNode f a b) →
    step s e = some s' → Inv s' := by
  intro e he hs
  rcases he with ⟨f, rfl⟩ | ⟨f, old, rfl⟩ | ⟨f, rfl⟩ | ⟨f, a, b, rfl⟩ | ⟨f, a, b, rfl⟩ | ⟨f, a, b, rfl⟩
  · simp only [step] at hs
    split at hs <;> simp at hs
    next h => subst hs; mx_frame h
  · simp only [step] at hs
    split at hs <;> simp at hs
    next h =>
    obtain ⟨rfl, hs⟩ := hs
    split at hs <;> simp at hs <;> subst hs
    · next h1 => exact hi.acquire (p := .acquired) rfl (by rw [h]; rfl) h1
    · next h1 => exact hi.announce (p := .lockDec s.counter) rfl (by rw [h]; rfl) h1
  · simp only [step] at hs
    split at hs <;> simp at hs
    · next h => subst hs; exact hi.holdMove (p := .held) (Or.inr rfl) (Or.inl (by rw [h]; rfl)) (fun _ => rfl)
    · next h =>
      obtain ⟨⟨ho, hw⟩, hs⟩ := hs
      subst hs; exact hi.resume (p := .held) rfl (by rw [h]; rfl) ho hw
  · simp only [step] at hs
    split at hs <;> simp at hs
    next m h =>
    obtain ⟨⟨rfl, rfl⟩, hs⟩ := hs
    subst hs; exact hi.enqueue (p := .pushXchgd b (tailNode s) s.order.length) rfl (by rw [h]; rfl)
  · simp only [step] at hs
    split at hs <;> simp at hs
    · next m h => obtain ⟨_, hs⟩ := hs; subst hs; mx_frame h
    · next m q i h =>
      obtain ⟨_, hs⟩ := hs; subst hs
      exact hi.link (p := .parked) (m := m) rfl (by rw [h]; rfl)
  · simp only [step] at hs
    split at hs <;> simp at hs
    next h => obtain ⟨_, hs⟩ := hs; subst hs; mx_frame h

theorem inv_step_try {s s' : St} (hi : Inv s) :
    ∀ e, (∃ f, e = Ev.callTry f) ∨ (∃ f o b, e = Ev.casCounter f o b) ∨ (∃ f r, e = Ev.retTry f r) ∨
      (∃ f, e = Ev.csEnter f) ∨ (∃ f v, e = Ev.csExit f v) ∨ (∃ f, e = Ev.callUnlock f) →
    step s e = some s' → Inv s' := by
  intro e he hs
  rcases he with ⟨f, rfl⟩ | ⟨f, found, ok, rfl⟩ | ⟨f, r, rfl⟩ | ⟨f, rfl⟩ | ⟨f, v, rfl⟩ | ⟨f, rfl⟩
  · simp only [step] at hs
    split at hs <;> simp at hs
    next h => subst hs; mx_frame h
  · simp only [step] at hs
    split at hs <;> simp at hs
    next h =>
    obtain ⟨⟨rfl, rfl⟩, hs⟩ := hs
    split at hs <;> simp at hs <;> subst hs
    · next h1 =>
      have h1' : s.counter = 1 := by simpa using h1
      have := hi.acquire (p := .tryDone true) rfl (by rw [h]; rfl) h1'
      rw [h1'] at this; exact this
    · mx_frame h
  · simp only [step] at hs
    split at hs <;> simp at hs
    next r' h =>
    obtain ⟨rfl, hs⟩ := hs
    subst hs
    cases r with
    | true => exact hi.holdMove (p := .held) (Or.inr rfl) (Or.inl (by rw [h]; rfl)) (fun _ => rfl)
    | false => mx_frame h
  · simp only [step] at hs
    split at hs <;> simp at hs
    next h =>
    subst hs
    have hk : (s.pc f).k = .held := by rw [h.1]; rfl
    have hof := hi.hold_owner f (Or.inr hk)
    have hemp : ∀ g, g ∈ s.inCs → g = f := by
      intro g hg
      have := hi.hold_owner g (Or.inr (hi.cs_held g hg))
      rw [hof] at this; cases this; rfl
    apply hi.csFrame
    · intro g hg; simp at hg; rcases hg with rfl | hg
      · exact hk
      · exact hi.cs_held g hg
    · rw [List.nodup_cons]; exact ⟨h.2, hi.cs_nodup⟩
    · intro g hg; simp at hg; rcases hg with rfl | hg
      · simp
      · exact absurd (hemp g hg ▸ hg) h.2
  · simp only [step] at hs
    split at hs <;> simp at hs
    next h =>
    subst hs
    have hk : (s.pc f).k = .held := by rw [h.1]; rfl
    have hof := hi.hold_owner f (Or.inr hk)
    have hemp : ∀ g, g ∈ s.inCs → g = f := by
      intro g hg
      have := hi.hold_owner g (Or.inr (hi.cs_held g hg))
      rw [hof] at this; cases this; rfl
    apply hi.csFrame
    · intro g hg; simp at hg; exact hi.cs_held g hg.1
    · exact hi.cs_nodup.sublist List.filter_sublist
    · intro g hg; simp at hg; exact absurd (hemp g hg.1) hg.2
  · simp only [step] at hs
    split at hs <;> simp at hs
    next h =>
    subst hs
    exact hi.holdMove (p := .unlockCalled) (Or.inl rfl) (Or.inr (by rw [h.1]; rfl)) (fun hc => absurd hc h.2.2)

theorem inv_step_unlock {s s' : St} (hi : Inv s) :
    ∀ e, (∃ f o, e = Ev.fadd f o) ∨ (∃ f n, e = Ev.rHead f n) ∨ (∃ f n x, e = Ev.rNext f n x) ∨
      (∃ f n, e = Ev.wHead f n) ∨ (∃ f, e = Ev.retUnlock f) →
    step s e = some s' → Inv s' := by
  intro e he hs
  rcases he with ⟨f, old, rfl⟩ | ⟨f, n, rfl⟩ | ⟨f, n, x, rfl⟩ | ⟨f, n, rfl⟩ | ⟨f, rfl⟩
  · simp only [step] at hs
    split at hs <;> simp at hs
    next h =>
    obtain ⟨rfl, hs⟩ := hs
    split at hs <;> simp at hs <;> subst hs
    · next h1 => exact hi.release (p := .unlockDone) (by rw [h]; rfl) (by rw [if_pos (by omega)]; rfl)
    · next h1 => exact hi.release (p := .wakeLoop) (by rw [h]; rfl) (by rw [if_neg (by omega)]; rfl)
  · simp only [step] at hs
    split at hs <;> simp at hs
    next h => obtain ⟨_, hs⟩ := hs; subst hs; mx_frame h
  · simp only [step] at hs
    split at hs <;> simp at hs
    next hh h =>
    obtain ⟨⟨rfl, rfl⟩, hs⟩ := hs
    split at hs <;> simp at hs <;> subst hs
    · mx_frame h
    · next hx => exact hi.gotNext (p := .popGotNext n (headNext s)) rfl (by rw [h]; rfl) (headNext_ne_zero hx)
  · simp only [step] at hs
    split at hs <;> simp at hs
    next hh x h =>
    obtain ⟨rfl, hs⟩ := hs
    split at hs <;> simp at hs
    next m g heq =>
    subst hs
    exact hi.pop (p := .popMoved hh n) rfl (by rw [h]; rfl) heq
  · simp only [step] at hs
    split at hs <;> simp at hs
    next h => subst hs; mx_frame h

theorem inv_step_wake {s s' : St} (hi : Inv s) :
    ∀ e, (∃ f g v, e = Ev.wState f g v) ∨ (∃ f g v, e = Ev.rState f g v) ∨ (∃ f g n, e = Ev.wNode f g n) ∨
      (∃ f n g, e = Ev.wData f n g) ∨ (∃ f n g, e = Ev.rData f n g) →
    step s e = some s' → Inv s' := by
  intro e he hs
  rcases he with ⟨f, g, v, rfl⟩ | ⟨f, g, v, rfl⟩ | ⟨f, g, n, rfl⟩ | ⟨f, n, g, rfl⟩ | ⟨f, n, g, rfl⟩
  · simp only [step] at hs
    split at hs <;> simp at hs
    · next h => obtain ⟨_, hs⟩ := hs; subst hs; mx_frame h
    · next h =>
      obtain ⟨_, hs⟩ := hs; subst hs
      exact hi.wakeDone (p := .unlockDone) rfl (by rw [h]; rfl)
  · simp only [step] at hs
    split at hs <;> simp at hs
    next h =>
    obtain ⟨_, hs⟩ := hs
    split at hs <;> simp at hs <;> subst hs
    · mx_frame h
    · exact hi.wakeDone (p := .unlockDone) rfl (by rw [h]; rfl)
  · simp only [step] at hs
    split at hs <;> simp at hs
    · next h => obtain ⟨_, hs⟩ := hs; subst hs; mx_frame h
    · next h => obtain ⟨_, hs⟩ := hs; subst hs; mx_frame h
  · simp only [step] at hs
    split at hs <;> simp at hs
    · next h => obtain ⟨_, hs⟩ := hs; subst hs; mx_frame h
    · next h => obtain ⟨_, hs⟩ := hs; subst hs; mx_frame h
  · simp only [step] at hs
    split at hs <;> simp at hs
    · next h => obtain ⟨_, hs⟩ := hs; subst hs; mx_frame h
    · next h => obtain ⟨_, hs⟩ := hs; subst hs; mx_frame h

theorem inv_step {s s' : St} {e : Ev} (hi : Inv s) (hs : step s e = some s') : Inv s' := by
  cases e with
  | callLock f => exact inv_step_lock hi _ (Or.inl ⟨_, rfl⟩) hs
  | fsub f o => exact inv_step_lock hi _ (Or.inr (Or.inl ⟨_, _, rfl⟩)) hs
  | retLock f => exact inv_step_lock hi _ (Or.inr (Or.inr (Or.inl ⟨_, rfl⟩))) hs
  | xchgTail f a b => exact inv_step_lock hi _ (Or.inr (Or.inr (Or.inr (Or.inl ⟨_, _, _, rfl⟩)))) hs
  | wNext f a b => exact inv_step_lock hi _ (Or.inr (Or.inr (Or.inr (Or.inr (Or.inl ⟨_, _, _, rfl⟩))))) hs
  | rNode f a b => exact inv_step_lock hi _ (Or.inr (Or.inr (Or.inr (Or.inr (Or.inr ⟨_, _, _, rfl⟩))))) hs
  | callTry f => exact inv_step_try hi _ (Or.inl ⟨_, rfl⟩) hs
  | casCounter f o b => exact inv_step_try hi _ (Or.inr (Or.inl ⟨_, _, _, rfl⟩)) hs
  | retTry f r => exact inv_step_try hi _ (Or.inr (Or.inr (Or.inl ⟨_, _, rfl⟩))) hs
  | csEnter f => exact inv_step_try hi _ (Or.inr (Or.inr (Or.inr (Or.inl ⟨_, rfl⟩)))) hs
  | csExit f v => exact inv_step_try hi _ (Or.inr (Or.inr (Or.inr (Or.inr (Or.inl ⟨_, _, rfl⟩))))) hs
  | callUnlock f => exact inv_step_try hi _ (Or.inr (Or.inr (Or.inr (Or.inr (Or.inr ⟨_, rfl⟩))))) hs
  | fadd f o => exact inv_step_unlock hi _ (Or.inl ⟨_, _, rfl⟩) hs
  | rHead f n => exact inv_step_unlock hi _ (Or.inr (Or.inl ⟨_, _, rfl⟩)) hs
  | rNext f n x => exact inv_step_unlock hi _ (Or.inr (Or.inr (Or.inl ⟨_, _, _, rfl⟩))) hs
  | wHead f n => exact inv_step_unlock hi _ (Or.inr (Or.inr (Or.inr (Or.inl ⟨_, _, rfl⟩)))) hs
  | retUnlock f => exact inv_step_unlock hi _ (Or.inr (Or.inr (Or.inr (Or.inr ⟨_, rfl⟩)))) hs
  | wState f g v => exact inv_step_wake hi _ (Or.inl ⟨_, _, _, rfl⟩) hs
  | rState f g v => exact inv_step_wake hi _ (Or.inr (Or.inl ⟨_, _, _, rfl⟩)) hs
  | wNode f g n => exact inv_step_wake hi _ (Or.inr (Or.inr (Or.inl ⟨_, _, _, rfl⟩))) hs
  | wData f n g => exact inv_step_wake hi _ (Or.inr (Or.inr (Or.inr (Or.inl ⟨_, _, _, rfl⟩)))) hs
  | rData f n g => exact inv_step_wake hi _ (Or.inr (Or.inr (Or.inr (Or.inr ⟨_, _, _, rfl⟩)))) hs

theorem inv_of_run {stub : Nat} {nodeOf : Nat → Nat} {es : List Ev} {s : St}
    (h : (sys stub nodeOf).run es = some s) : Inv s :=
  Sys.inv_of_run (sys stub nodeOf) Inv (inv_init stub nodeOf) (fun _ _ _ hi hs => inv_step hi hs) h

/-! ### 5. control flow, linearisation points, history invariants -/

/-- the fiber performing an event -/
def actor : Ev → Nat
  | .callLock f | .retLock f | .callTry f | .retTry f _ | .callUnlock f | .retUnlock f
  | .csEnter f | .csExit f _ | .fsub f _ | .fadd f _ | .casCounter f _ _ | .wState f _ _
  | .rState f _ _ | .rNode f _ _ | .wNode f _ _ | .wData f _ _ | .rData f _ _ | .wNext f _ _
  | .xchgTail f _ _ | .rHead f _ | .rNext f _ _ | .wHead f _ => f

/-- normalise `hs : step s e = some s'` into an explicit record for `s'` (all branches) -/
local macro "step_cases" hs:ident : tactic =>
  `(tactic| (simp only [step] at $hs:ident <;> (repeat' split at $hs:ident) <;> simp at $hs:ident <;>
     (first | subst $hs:ident | (obtain ⟨_, $hs:ident⟩ := $hs:ident; subst $hs:ident))))

theorem step_pc_other {s s' : St} {e : Ev} (hs : step s e = some s') (g : Nat)
    (hg : g ≠ actor e) : s'.pc g = s.pc g := by
  cases e <;> step_cases hs <;> simp_all [upd, actor]

/-- control flow into / out of the wake loop: entered only by a `fetch_add` that saw waiters,
    left only by the pop (`head := next`) -/
theorem wake_flow {s s' : St} {e : Ev} (hs : step s e = some s') (w : Nat) :
    (s'.pc w).isWake = true ↔
      (((s.pc w).isWake = true ∧ ¬ ∃ x, e = .wHead w x) ∨ (∃ old, e = .fadd w old ∧ old + 1 ≠ 1)) := by
  by_cases hw : w = actor e
  · subst hw
    cases e <;> step_cases hs <;> simp_all [upd, actor, Pc.isWake]
  · rw [step_pc_other hs w hw]
    cases e <;> simp_all [actor] <;> (intros; omega)

/-- a fiber is past its pop only through `head := next` -/
theorem post_flow {s s' : St} {e : Ev} (hs : step s e = some s') (w : Nat)
    (h : (s'.pc w).isPost = true) : (s.pc w).isPost = true ∨ ∃ x, e = .wHead w x := by
  by_cases hw : w = actor e
  · subst hw
    cases e <;> step_cases hs <;> simp_all [upd, actor, Pc.isPost]
  · rw [step_pc_other hs w hw] at h; exact Or.inl h

/-- `unlockDone` (about to return from unlock) is reached from the uncontended `fetch_add` or
    from the end of a wake (after the pop) only -/
theorem unlockDone_flow {s s' : St} {e : Ev} (hs : step s e = some s') (w : Nat)
    (h : s'.pc w = .unlockDone) :
    s.pc w = .unlockDone ∨ (∃ old, e = .fadd w old ∧ old + 1 = 1) ∨ (s.pc w).isPost = true := by
  by_cases hw : w = actor e
  · subst hw
    cases e <;> step_cases hs <;> simp_all [upd, actor, Pc.isPost]
  · rw [step_pc_other hs w hw] at h; exact Or.inl h

def isContFadd (w : Nat) : Ev → Bool
  | .fadd f old => decide (f = w ∧ old + 1 ≠ 1)
  | _ => false

def isPopBy (w : Nat) : Ev → Bool
  | .wHead f _ => decide (f = w)
  | _ => false

def isPopEv : Ev → Bool
  | .wHead _ _ => true
  | _ => false

def isCsExit : Ev → Bool
  | .csExit _ _ => true
  | _ => false

theorem wake_flow_cnt {s s' : St} {e : Ev} (hs : step s e = some s') (w : Nat) :
    (if isContFadd w e then 1 else 0) + (if (s.pc w).isWake then 1 else 0) =
      (if isPopBy w e then 1 else 0) + (if (s'.pc w).isWake then 1 else 0) := by
  by_cases hw : w = actor e
  · subst hw
    cases e <;> step_cases hs <;> simp_all [upd, actor, Pc.isWake, isContFadd, isPopBy]
  · rw [step_pc_other hs w hw]
    have h1 : isContFadd w e = false := by
      cases e <;> simp_all [actor, isContFadd]; omega
    have h2 : isPopBy w e = false := by
      cases e <;> simp_all [actor, isPopBy]; omega
    simp [h1, h2]

theorem hd_flow {s s' : St} {e : Ev} (hs : step s e = some s') :
    s'.hd = s.hd + (if isPopEv e then 1 else 0) := by
  cases e <;> step_cases hs <;> simp [isPopEv]

/-! ### critical sections -/

/-- the critical section is empty or holds exactly the owner, which is in `held` -/
theorem Inv.inCs_cases {s : St} (hi : Inv s) :
    s.inCs = [] ∨ ∃ f, s.inCs = [f] ∧ s.owner = some f ∧ s.pc f = .held := by
  have hown : ∀ g, g ∈ s.inCs → s.owner = some g ∧ s.pc g = .held := fun g hg =>
    ⟨hi.hold_owner g (Or.inr (hi.cs_held g hg)), (k_held _).1 (hi.cs_held g hg)⟩
  have hnd := hi.cs_nodup
  cases hl : s.inCs with
  | nil => exact Or.inl rfl
  | cons a l =>
    right
    rw [hl] at hown hnd
    cases l with
    | nil => exact ⟨a, rfl, hown a (by simp)⟩
    | cons b l =>
      exfalso
      have h1 := (hown a (by simp)).1
      have h2 := (hown b (by simp)).1
      rw [h1] at h2; cases h2
      simp at hnd

/-- occupancy tracker on the `cs enter` / `cs exit` notes: strict alternation -/
def csTrack (l : List Nat) : Ev → Option (List Nat)
  | .csEnter f => if l = [] then some [f] else none
  | .csExit f _ => if l = [f] then some [] else none
  | _ => some l

theorem cs_flow {s s' : St} {e : Ev} (hi : Inv s) (hs : step s e = some s') :
    csTrack s.inCs e = some s'.inCs := by
  cases e
  case csEnter f =>
    simp only [step] at hs; split at hs <;> simp at hs; subst hs
    next h =>
    rcases hi.inCs_cases with h0 | ⟨g, h1, h2, h3⟩
    · simp [csTrack, h0]
    · exfalso
      have := hi.hold_owner f (Or.inr (by rw [h.1]; rfl))
      rw [h2] at this; cases this
      exact h.2 (by rw [h1]; simp)
  case csExit f v =>
    simp only [step] at hs; split at hs <;> simp at hs; subst hs
    next h =>
    rcases hi.inCs_cases with h0 | ⟨g, h1, h2, h3⟩
    · rw [h0] at h; simp at h
    · have : g = f := by have := h.2.1; rw [h1] at this; simp at this; exact this.symm
      subst this
      simp [csTrack, h1]
  all_goals (step_cases hs <;> simp [csTrack])

/-- each completed critical section increments the protected cell by exactly one -/
theorem data_flow {s s' : St} {e : Ev} (hi : Inv s) (hs : step s e = some s') :
    s'.data = s.data + (if isCsExit e then 1 else 0) := by
  cases e
  case csExit f v =>
    simp only [step] at hs; split at hs <;> simp at hs; subst hs
    next h => simp [isCsExit, h.2.2, hi.cs_seen f h.2.1]
  all_goals (step_cases hs <;> simp [isCsExit])

/-! ### the abstract atomic lock -/

inductive LockEv
  | acq (f : Nat)
  | rel (f : Nat)
  deriving Repr, DecidableEq

/-- specification: an atomic lock whose state is its owner -/
def lockStep : Option Nat → LockEv → Option (Option Nat)
  | none, .acq f => some (some f)
  | some g, .rel f => if g = f then some none else none
  | _, _ => none

def Lock : Sys (Option Nat) LockEv := { init := none, step := lockStep }

/-- linearisation points: uncontended `fetch_sub`, successful trylock CAS and the waker's
    `head := next` (on behalf of the popped waiter) acquire; the `fetch_add` releases -/
def absEv (s : St) : Ev → Option LockEv
  | .fsub f old => if old = 1 then some (.acq f) else none
  | .casCounter f _ ok => if ok then some (.acq f) else none
  | .wHead _ _ => match s.order[s.hd]? with
    | some (_, g) => some (.acq g)
    | none => none
  | .fadd f _ => some (.rel f)
  | _ => none

theorem owner_step {s s' : St} {e : Ev} (hi : Inv s) (hs : step s e = some s') :
    match absEv s e with
    | none => s'.owner = s.owner
    | some a => lockStep s.owner a = some s'.owner := by
  cases e
  case fsub f old =>
    simp only [step] at hs; split at hs <;> simp at hs
    obtain ⟨rfl, hs⟩ := hs
    split at hs <;> simp at hs <;> subst hs
    · next h1 => simp [absEv, h1, lockStep, (hi.free_of_one h1).1]
    · next h1 => simp [absEv, h1]
  case casCounter f found ok =>
    simp only [step] at hs; split at hs <;> simp at hs
    obtain ⟨⟨rfl, rfl⟩, hs⟩ := hs
    split at hs <;> simp at hs <;> subst hs
    · next h1 => simp at h1; simp [absEv, h1, lockStep, (hi.free_of_one h1).1]
    · next h1 => simp at h1; simp [absEv, h1]
  case wHead f n =>
    simp only [step] at hs; split at hs <;> simp at hs
    next hh x h =>
    obtain ⟨rfl, hs⟩ := hs
    split at hs <;> simp at hs
    next m g heq =>
    subst hs
    have := (hi.pop_target (f := f) (by rw [h]; rfl) heq).1
    simp [absEv, heq, lockStep, this]
  case fadd f old =>
    simp only [step] at hs; split at hs <;> simp at hs
    next h =>
    obtain ⟨rfl, hs⟩ := hs
    have ho := hi.hold_owner f (Or.inl (by rw [h]; rfl))
    split at hs <;> simp at hs <;> subst hs <;> simp [absEv, lockStep, ho]
  all_goals (step_cases hs <;> simp [absEv])

/-! ### history invariants -/

/-- `Sys.hist_inv_of_run` with the run itself available in the step case -/
theorem hist_run {stub : Nat} {nodeOf : Nat → Nat} (I : St → List Ev → Prop)
    (h0 : I (init stub nodeOf) [])
    (hstep : ∀ s es e s', (sys stub nodeOf).run es = some s → Inv s → I s es →
      step s e = some s' → I s' (es ++ [e]))
    {es : List Ev} {s : St} (h : (sys stub nodeOf).run es = some s) : I s es := by
  have := Sys.hist_inv_of_run (sys stub nodeOf)
    (fun s es => (sys stub nodeOf).run es = some s ∧ I s es) ⟨rfl, h0⟩
    (fun s es e s' hI hs => by
      refine ⟨?_, hstep s es e s' hI.1 (inv_of_run hI.1) hI.2 hs⟩
      have h1 := hI.1
      simp only [Sys.run] at h1 ⊢
      rw [Sys.runFrom_append, h1]
      simp only [Option.bind, Sys.runFrom]
      have : (sys stub nodeOf).step s e = some s' := hs
      rw [this]) h
  exact this.2

/-- every contended unlock of `w` is matched by exactly one pop by `w`, except the one that is
    in its wake loop right now -/
theorem handoff_count {stub : Nat} {nodeOf : Nat → Nat} {es : List Ev} {s : St}
    (h : (sys stub nodeOf).run es = some s) (w : Nat) :
    es.countP (isContFadd w) = es.countP (isPopBy w) + (if (s.pc w).isWake then 1 else 0) := by
  refine hist_run (fun s es => es.countP (isContFadd w) =
      es.countP (isPopBy w) + (if (s.pc w).isWake then 1 else 0)) ?_ ?_ h
  · simp [init, Pc.isWake]
  · intro s es e s' _ _ hI hs
    have := wake_flow_cnt hs w
    simp only [List.countP_append, List.countP_singleton]
    omega

/-- `hd` counts the pops, the protected cell counts the completed critical sections -/
theorem counts {stub : Nat} {nodeOf : Nat → Nat} {es : List Ev} {s : St}
    (h : (sys stub nodeOf).run es = some s) :
    s.hd = es.countP isPopEv ∧ s.data = es.countP isCsExit := by
  refine hist_run (fun s es => s.hd = es.countP isPopEv ∧ s.data = es.countP isCsExit) ?_ ?_ h
  · simp [init]
  · intro s es e s' _ hi hI hs
    have h1 := hd_flow hs
    have h2 := data_flow hi hs
    simp only [List.countP_append, List.countP_singleton]
    omega

/-- the `cs enter` / `cs exit` notes of an accepted trace strictly alternate, and `inCs` is
    the tracker's state -/
theorem cs_alternate {stub : Nat} {nodeOf : Nat → Nat} {es : List Ev} {s : St}
    (h : (sys stub nodeOf).run es = some s) : es.foldlM csTrack [] = some s.inCs := by
  refine hist_run (fun s es => es.foldlM csTrack [] = some s.inCs) ?_ ?_ h
  · simp [init]
  · intro s es e s' _ hi hI hs
    simp only [List.foldlM_append, hI]
    simp [cs_flow hi hs]

/-- the projection of a run to the linearisation points -/
def absRun : St → List Ev → List LockEv
  | _, [] => []
  | s, e :: es => match step s e with
    | none => []
    | some s' => (absEv s e).toList ++ absRun s' es

theorem absRun_snoc {stub : Nat} {nodeOf : Nat → Nat} {e : Ev} {es : List Ev} : ∀ {s0 s s' : St},
    (sys stub nodeOf).runFrom s0 es = some s → step s e = some s' →
    absRun s0 (es ++ [e]) = absRun s0 es ++ (absEv s e).toList := by
  induction es with
  | nil =>
    intro s0 s s' h hs
    simp [Sys.runFrom] at h; subst h
    simp [absRun, hs]
  | cons a es ih =>
    intro s0 s s' h hs
    simp only [Sys.runFrom] at h
    have : (sys stub nodeOf).step s0 a = step s0 a := rfl
    rw [this] at h
    cases h1 : step s0 a with
    | none => simp [h1] at h
    | some s1 =>
      simp only [h1] at h
      simp only [List.cons_append, absRun, h1]
      rw [ih h hs]; simp

/-- refinement: the linearisation points of every accepted trace form a run of the atomic
    lock, ending in the ghost owner -/
theorem refines {stub : Nat} {nodeOf : Nat → Nat} {es : List Ev} {s : St}
    (h : (sys stub nodeOf).run es = some s) :
    Lock.run (absRun (init stub nodeOf) es) = some s.owner := by
  refine hist_run (fun s es => Lock.run (absRun (init stub nodeOf) es) = some s.owner) ?_ ?_ h
  · simp [absRun, Sys.run, Sys.runFrom, Lock, init]
  · intro s es e s' hr hi hI hs
    have hsn : absRun (init stub nodeOf) (es ++ [e]) =
        absRun (init stub nodeOf) es ++ (absEv s e).toList := absRun_snoc hr hs
    rw [hsn]
    simp only [Sys.run] at hI ⊢
    rw [Sys.runFrom_append, hI]
    have := owner_step hi hs
    cases ha : absEv s e with
    | none => rw [ha] at this; simp [Sys.runFrom, this]
    | some a =>
      rw [ha] at this
      simp [Sys.runFrom, Lock, this]

/-! ### statements used by `Props/C03.lean` -/

/-- fiber `f` holds the mutex: it is between an acquire point and its release `fetch_add`, or
    it was handed the mutex by a waker's pop and has not resumed yet -/
def Holds (s : St) (f : Nat) : Prop :=
  (s.pc f).isHold = true ∨ (s.pc f = .parked ∧ s.owner = some f)

theorem Inv.holds_iff {s : St} (hi : Inv s) (f : Nat) : Holds s f ↔ s.owner = some f := by
  constructor
  · rintro (h | h)
    · exact hi.hold_owner f ((k_isHold _).2 h)
    · exact h.2
  · intro h
    rcases hi.owner_hold f h with h1 | h1
    · exact Or.inl ((k_isHold _).1 h1)
    · exact Or.inr ⟨(k_parked _).1 h1, h⟩

theorem Inv.wake_has_waiter {s : St} (hi : Inv s) {w : Nat} (hw : (s.pc w).isWake = true) :
    s.hd < s.order.length ∨ ∃ g, (s.pc g).isPre = true := by
  obtain ⟨g, hg⟩ := hi.wake_ann w ((k_isWake _).2 hw)
  have hlt : ∀ i (x : Nat × Nat), s.order[i]? = some x → s.hd ≤ i → s.hd < s.order.length := by
    intro i x h1 h2
    apply Classical.byContradiction; intro hn
    rw [List.getElem?_eq_none (by omega)] at h1; cases h1
  rcases (ann_iff s g).1 hg with h | ⟨m, p, i, h⟩ | ⟨h, ho⟩
  · exact Or.inr ⟨g, h⟩
  · have := hi.q_xchgd g m i (by rw [h]; rfl)
    exact Or.inl (hlt i _ this.1 this.2.1)
  · obtain ⟨i, n, h1, h2, -⟩ := hi.q_parked g (by rw [h]; rfl) ho
    exact Or.inl (hlt i _ h2 h1)

/-- the node a locker is about to enqueue -/
def Pc.preNode : Pc → Nat
  | .waitGotNode n | .waitWroteData n | .waitClearedNode n | .pushCleared n => n
  | _ => 1

/-- enqueued nodes are non-NULL (the wait function asserts `this_fiber->mpsc_fifo_node`) -/
structure NZ (s : St) : Prop where
  pcs : ∀ f, (s.pc f).preNode ≠ 0
  ord : ∀ (i n f : Nat), s.order[i]? = some (n, f) → n ≠ 0

theorem nz_step {s s' : St} {e : Ev} (hz : NZ s) (hs : step s e = some s') : NZ s' := by
  obtain ⟨h1, h2⟩ := hz
  cases e
  case xchgTail f a b =>
    simp only [step] at hs; split at hs <;> simp at hs
    next m hpc =>
    obtain ⟨⟨rfl, rfl⟩, hs⟩ := hs; subst hs
    constructor
    · intro g; simp only [upd]; split
      · simp [Pc.preNode]
      · exact h1 g
    · intro i n g hg
      rcases getElem?_snoc_cases hg with h | ⟨-, h⟩
      · exact h2 i n g h
      · cases h; have := h1 f; rw [hpc] at this; exact this
  case rNode f g n =>
    simp only [step] at hs; split at hs <;> simp at hs
    obtain ⟨⟨rfl, rfl, hn⟩, hs⟩ := hs; subst hs
    constructor
    · intro g; simp only [upd]; split
      · simpa [Pc.preNode] using hn
      · exact h1 g
    · exact h2
  all_goals
    step_cases hs <;> constructor <;> intros <;>
      first
        | (apply h2; assumption)
        | (rename_i g; exact h1 g)
        | (rename_i g; have := h1 g; simp only [upd]; split <;> simp_all [Pc.preNode])

theorem nz_of_run {stub : Nat} {nodeOf : Nat → Nat} {es : List Ev} {s : St}
    (h : (sys stub nodeOf).run es = some s) : NZ s :=
  Sys.inv_of_run (sys stub nodeOf) NZ ⟨by simp [sys, init, Pc.preNode], by simp [sys, init]⟩
    (fun _ _ _ hz hs => nz_step hz hs) h

/-- a failed `trypop` in the wake loop: some announced waiter has not finished its push -/
theorem Inv.retry_justified {s s' : St} (hi : Inv s) (hz : NZ s) {w h : Nat}
    (hs : step s (.rNext w h 0) = some s') :
    s'.pc w = .wakeLoop ∧ ∃ g, (s.pc g).isPre = true ∨ ∃ m p i, s.pc g = .pushXchgd m p i := by
  simp only [step] at hs; split at hs <;> simp at hs
  next hh hpc =>
  obtain ⟨⟨rfl, h0⟩, hs⟩ := hs
  subst hs
  refine ⟨by simp, ?_⟩
  rcases hi.wake_has_waiter (w := w) (by rw [hpc]; rfl) with hlt | ⟨g, hg⟩
  · unfold headNext at h0
    have hsome : s.order[s.hd]? = some s.order[s.hd] := List.getElem?_eq_getElem hlt
    rcases hx : s.order[s.hd] with ⟨n, g⟩
    rw [hx] at hsome
    rw [hsome] at h0
    simp only at h0
    have hl : s.linked s.hd = false := by
      cases hl : s.linked s.hd with
      | false => rfl
      | true => rw [hl] at h0; simp at h0; exact absurd h0.symm (hz.ord _ _ _ hsome)
    rcases hi.q_ent s.hd n g (Nat.le_refl _) hsome with hk | hk
    · obtain ⟨q, hq⟩ := (k_xchgd _ _ _).1 hk
      exact ⟨g, Or.inr ⟨_, _, _, hq⟩⟩
    · rw [hl] at hk; simp at hk
  · exact ⟨g, Or.inl hg⟩

/-- the wake loop is left only through the pop, which hands the mutex to the oldest waiter -/
theorem Inv.wake_exit {s s' : St} {e : Ev} (hi : Inv s) (hs : step s e = some s') {w : Nat}
    (hw : (s.pc w).isWake = true) :
    (s'.pc w).isWake = true ∨
    ∃ x n g, e = .wHead w x ∧ s.order[s.hd]? = some (n, g) ∧ Ann s g ∧ s.pc g = .parked ∧
      s.owner = none ∧ s'.owner = some g ∧ s'.hd = s.hd + 1 ∧ (s'.pc w).isPost = true := by
  by_cases h : (s'.pc w).isWake = true
  · exact Or.inl h
  · right
    have hf := (wake_flow hs w)
    have : ∃ x, e = .wHead w x := by
      apply Classical.byContradiction; intro hn
      exact h (hf.2 (Or.inl ⟨hw, hn⟩))
    obtain ⟨x, rfl⟩ := this
    simp only [step] at hs; split at hs <;> simp at hs
    next hh x' hpc =>
    obtain ⟨rfl, hs⟩ := hs
    split at hs <;> simp at hs
    next m g heq =>
    subst hs
    obtain ⟨h1, h2, h3, h4, h5⟩ := hi.pop_target (f := w) (by rw [hpc]; rfl) heq
    exact ⟨x, m, g, rfl, heq, h4, (k_parked _).1 h3, h1, rfl, rfl, by simp [Pc.isPost]⟩

/-- shape of the release step -/
theorem Inv.fadd_step {s s' : St} (hi : Inv s) {f : Nat} {old : Int}
    (hs : step s (.fadd f old) = some s') :
    s.pc f = .unlockCalled ∧ old = s.counter ∧ s.owner = some f ∧ s'.owner = none ∧
    (if old + 1 = 1 then s'.pc f = .unlockDone ∧ ∀ g, ¬ Ann s g
     else s'.pc f = .wakeLoop ∧ ∃ g, Ann s g) := by
  simp only [step] at hs; split at hs <;> simp at hs
  next hpc =>
  obtain ⟨rfl, hs⟩ := hs
  have ho := hi.hold_owner f (Or.inl (by rw [hpc]; rfl))
  obtain ⟨n, hc, hn⟩ := hi.cnt
  rw [ho] at hn; simp at hn
  split at hs <;> simp at hs <;> subst hs
  · next h1 =>
    have : n = 0 := by omega
    subst this
    refine ⟨hpc, rfl, ho, rfl, ?_⟩
    rw [if_pos (by omega)]; exact ⟨by simp, Card.zero_iff.1 hc⟩
  · next h1 =>
    refine ⟨hpc, rfl, ho, rfl, ?_⟩
    rw [if_neg (by omega)]; exact ⟨by simp, hc.pos (by omega)⟩

/-- shape of a successful uncontended acquire (`fetch_sub` that saw 1 / trylock CAS) -/
theorem Inv.acquire_free {s : St} (hi : Inv s) (h1 : s.counter = 1) :
    s.owner = none ∧ (∀ g, ¬ Ann s g) ∧ ∀ g, (s.pc g).isPop = false := by
  obtain ⟨ho, hf⟩ := hi.free_of_one h1
  refine ⟨ho, hf, ?_⟩
  intro g
  cases hp : (s.pc g).isPop with
  | false => rfl
  | true =>
    exfalso
    rcases (k_isPop _).2 hp with h | h | h
    · obtain ⟨x, hx⟩ := hi.wake_ann g (Or.inl h); exact hf x hx
    · obtain ⟨x, hx⟩ := hi.wake_ann g (Or.inr h); exact hf x hx
    · obtain ⟨x, hx, -⟩ := hi.waking_owner (hi.post_waking g h)
      rw [ho] at hx; cases hx

theorem cas_step {s s' : St} {f : Nat} {found : Int} {ok : Bool}
    (hs : step s (.casCounter f found ok) = some s') :
    s.pc f = .tryCalled ∧ found = s.counter ∧ (ok = true ↔ found = 1) ∧
      (ok = true → s'.owner = some f ∧ s'.counter = 0) ∧ (ok = false → s'.owner = s.owner ∧ s'.counter = s.counter) := by
  simp only [step] at hs; split at hs <;> simp at hs
  next hpc =>
  obtain ⟨⟨rfl, rfl⟩, hs⟩ := hs
  split at hs <;> simp at hs <;> subst hs <;> simp_all

theorem fsub_step {s s' : St} {f : Nat} {old : Int} (hs : step s (.fsub f old) = some s') :
    s.pc f = .lockCalled ∧ old = s.counter ∧ s'.counter = old - 1 ∧
      (if old = 1 then s'.owner = some f ∧ s'.pc f = .acquired
       else s'.owner = s.owner ∧ s'.pc f = .lockDec old) := by
  simp only [step] at hs; split at hs <;> simp at hs
  next hpc =>
  obtain ⟨rfl, hs⟩ := hs
  split at hs <;> simp at hs <;> subst hs <;> simp_all

/-- the harness's occupancy monitor never fires on a trace whose notes alternate -/
theorem monitor_go_none : ∀ (es : List Ev) (l l' : List Nat),
    es.foldlM csTrack l = some l' → monitor.go l es = none := by
  intro es
  induction es with
  | nil => intro l l' _; simp [monitor.go]
  | cons e es ih =>
    intro l l' h
    simp only [List.foldlM_cons] at h
    cases h1 : csTrack l e with
    | none => simp [h1] at h
    | some l1 =>
      simp [h1] at h
      cases e <;> simp [csTrack] at h1 <;> try (subst h1; simp only [monitor.go]; exact ih _ _ h)
      · obtain ⟨rfl, rfl⟩ := h1; simp [monitor.go]; exact ih _ _ h
      · obtain ⟨rfl, rfl⟩ := h1; simp [monitor.go]; exact ih _ _ h

/-! ### 6. data path: the fiber a waker wakes is the fiber that was handed the mutex -/

/-- node carried by a locker between reading its `mpsc_fifo_node` and its `xchg(&tail)` -/
def Pc.preN : Pc → Nat
  | .waitGotNode n | .waitWroteData n | .waitClearedNode n | .pushCleared n => n
  | _ => 0

/-- node a popper owns between its `head := next` and handing it to the woken fiber -/
def Pc.popN : Pc → Nat
  | .popMoved h _ | .popGotData h _ _ | .popWrote h _ | .wakeGotFiber h _ => h
  | _ => 0

/-- the fiber a waker is about to wake, once it has read it from the node -/
def Pc.woken : Pc → Option Nat
  | .popGotData _ _ g | .popWrote _ g | .wakeGotFiber _ g | .wakeGaveNode _ g
  | .wakeReadState g _ => some g
  | _ => none

def Pc.fnSame : Pc → Bool
  | .waitGotNode _ | .waitWroteData _ => true
  | _ => false
def Pc.fnZero : Pc → Bool
  | .waitClearedNode _ | .pushCleared _ => true
  | _ => false
def Pc.dataSet : Pc → Bool
  | .waitWroteData _ | .waitClearedNode _ | .pushCleared _ => true
  | _ => false
def Pc.headRd : Pc → Option Nat
  | .popGotHead h | .popGotNext h _ => some h
  | _ => none
def Pc.nextRd : Pc → Option Nat
  | .popGotNext _ x => some x
  | _ => none
def Pc.movedX : Pc → Option Nat
  | .popMoved _ x => some x
  | _ => none

/-- everything the data-path invariant reads of a pc -/
def Pc.v (p : Pc) : Nat × Nat × Option Nat × Bool × Bool × Bool × Option Nat × Option Nat × Option Nat :=
  (p.preN, p.popN, p.woken, p.fnSame, p.fnZero, p.dataSet, p.headRd, p.nextRd, p.movedX)

/-- who may currently write a node: a fiber (own `mpsc_fifo_node` or the node it is
    enqueueing), a queue entry not yet popped, the queue's stub, a popper -/
inductive Claim
  | fib (f : Nat) | ent (i : Nat) | stub | pop (w : Nat)
  deriving DecidableEq

def claimF (s : St) (f : Nat) : Nat := if (s.pc f).preN = 0 then s.fnode f else (s.pc f).preN

def entN (s : St) (i : Nat) : Nat :=
  if s.hd ≤ i then (match s.order[i]? with | some (n, _) => n | none => 0) else 0

def claim (s : St) : Claim → Nat
  | .fib f => claimF s f
  | .ent i => entN s i
  | .stub => s.headNode
  | .pop w => (s.pc w).popN

def ClaimInj (s : St) : Prop := ∀ c c', claim s c ≠ 0 → claim s c = claim s c' → c = c'

/-- claims may be dropped or move from one claimant to another -/
theorem ClaimInj.map {s s' : St} (hinj : ClaimInj s) (σ : Claim → Claim)
    (hσ : ∀ c c', σ c = σ c' → c = c')
    (h : ∀ c, claim s' c = 0 ∨ claim s' c = claim s (σ c)) : ClaimInj s' := by
  intro c c' h1 h2
  rcases h c with hc | hc
  · exact absurd hc h1
  · rcases h c' with hc' | hc'
    · rw [hc'] at h2; exact absurd h2 h1
    · apply hσ; apply hinj
      · rw [← hc]; exact h1
      · rw [← hc, ← hc']; exact h2

theorem ClaimInj.sub {s s' : St} (hinj : ClaimInj s)
    (h : ∀ c, claim s' c = 0 ∨ claim s' c = claim s c) : ClaimInj s' :=
  hinj.map id (fun _ _ h => h) h

def Claim.swap (a b c : Claim) : Claim := if c = a then b else if c = b then a else c

theorem Claim.swap_inj (a b : Claim) : ∀ c c', Claim.swap a b c = Claim.swap a b c' → c = c' := by
  intro c c' h; unfold Claim.swap at h; grind

structure DP (s : St) : Prop where
  inj : ClaimInj s
  stub_nz : s.headNode ≠ 0
  fn_pre : ∀ f, (s.pc f).fnSame = true → s.fnode f = (s.pc f).preN
  fn_zero : ∀ f, (s.pc f).fnZero = true → s.fnode f = 0
  pre_data : ∀ f, (s.pc f).dataSet = true → s.ndata (s.pc f).preN = f
  ent_data : ∀ (i n f : Nat), s.hd ≤ i → s.order[i]? = some (n, f) → s.ndata n = f
  got_head : ∀ w h, (s.pc w).headRd = some h → h = s.headNode
  got_next : ∀ w x, (s.pc w).nextRd = some x → ∃ g, s.order[s.hd]? = some (x, g)
  moved : ∀ w x, (s.pc w).movedX = some x → x = s.headNode ∧ ∃ g, s.owner = some g ∧ s.ndata x = g
  woke : ∀ w g, (s.pc w).woken = some g → s.owner = some g

/-- hypotheses on the initial node assignment: every fiber starts with its own node, none is
    the queue's stub (harness: `F<k>` owns `N<k>`, stub `S`) -/
structure NodesOk (stub : Nat) (nodeOf : Nat → Nat) : Prop where
  stub_nz : stub ≠ 0
  ne_stub : ∀ f, nodeOf f ≠ stub
  inj : ∀ f g, nodeOf f = nodeOf g → nodeOf f ≠ 0 → f = g

theorem dp_init {stub : Nat} {nodeOf : Nat → Nat} (hn : NodesOk stub nodeOf) :
    DP (init stub nodeOf) := by
  obtain ⟨n1, n2, n3⟩ := hn
  constructor
  · intro c c' h1 h2
    cases c <;> cases c' <;> simp [claim, claimF, entN, init, Pc.preN, Pc.popN] at h1 h2 ⊢ <;> grind
  all_goals simp [init, Pc.woken, Pc.fnSame, Pc.fnZero, Pc.dataSet, Pc.headRd, Pc.nextRd, Pc.movedX]
  exact n1

/-- steps that leave the view of every pc and the node-related fields alone -/
theorem DP.frame {s s' : St} (hd : DP s) (hv : ∀ f, (s'.pc f).v = (s.pc f).v)
    (h1 : s'.fnode = s.fnode) (h2 : s'.ndata = s.ndata) (h3 : s'.order = s.order)
    (h4 : s'.hd = s.hd) (h5 : s'.headNode = s.headNode) (h6 : s'.owner = s.owner) : DP s' := by
  have v1 : ∀ f, (s'.pc f).preN = (s.pc f).preN := fun f => congrArg (·.1) (hv f)
  have v2 : ∀ f, (s'.pc f).popN = (s.pc f).popN := fun f => congrArg (·.2.1) (hv f)
  have v3 : ∀ f, (s'.pc f).woken = (s.pc f).woken := fun f => congrArg (·.2.2.1) (hv f)
  have v4 : ∀ f, (s'.pc f).fnSame = (s.pc f).fnSame := fun f => congrArg (·.2.2.2.1) (hv f)
  have v5 : ∀ f, (s'.pc f).fnZero = (s.pc f).fnZero := fun f => congrArg (·.2.2.2.2.1) (hv f)
  have v6 : ∀ f, (s'.pc f).dataSet = (s.pc f).dataSet := fun f => congrArg (·.2.2.2.2.2.1) (hv f)
  have v7 : ∀ f, (s'.pc f).headRd = (s.pc f).headRd := fun f => congrArg (·.2.2.2.2.2.2.1) (hv f)
  have v8 : ∀ f, (s'.pc f).nextRd = (s.pc f).nextRd := fun f => congrArg (·.2.2.2.2.2.2.2.1) (hv f)
  have v9 : ∀ f, (s'.pc f).movedX = (s.pc f).movedX := fun f => congrArg (·.2.2.2.2.2.2.2.2) (hv f)
  have hc : ∀ c, claim s' c = claim s c := by
    intro c; cases c <;> simp only [claim, claimF, entN, v1, v2, h1, h3, h4, h5]
  constructor
  · exact hd.inj.sub (fun c => Or.inr (hc c))
  · rw [h5]; exact hd.stub_nz
  · simp only [v1, v4, h1]; exact hd.fn_pre
  · simp only [v5, h1]; exact hd.fn_zero
  · simp only [v1, v6, h2]; exact hd.pre_data
  · simp only [h2, h3, h4]; exact hd.ent_data
  · simp only [v7, h5]; exact hd.got_head
  · simp only [v8, h3, h4]; exact hd.got_next
  · simp only [v9, h2, h5, h6]; exact hd.moved
  · simp only [v3, h6]; exact hd.woke

theorem v_upd_same {pc : Nat → Pc} {f0 : Nat} {p : Pc} (h : p.v = (pc f0).v) (f : Nat) :
    (upd pc f0 p f).v = (pc f).v := by
  simp only [upd]; split
  · next h' => rw [h', h]
  · rfl

/-- a step that changes only the pc of `f` (and possibly the owner) -/
theorem DP.pcStep {s s' : St} (hd : DP s) {f : Nat} {p : Pc} (hpc : s'.pc = upd s.pc f p)
    (h1 : s'.fnode = s.fnode) (h2 : s'.ndata = s.ndata) (h3 : s'.order = s.order)
    (h4 : s'.hd = s.hd) (h5 : s'.headNode = s.headNode)
    (ho : s'.owner = s.owner ∨ ∀ w, (s.pc w).movedX = none ∧ (s.pc w).woken = none)
    (hcl0 : p.preN = 0 → s.fnode f = claimF s f) (hcl1 : p.preN ≠ 0 → p.preN = claimF s f)
    (hpop : p.popN = 0 ∨ p.popN = (s.pc f).popN)
    (pa : p.fnSame = true → s.fnode f = p.preN)
    (pb : p.fnZero = true → s.fnode f = 0)
    (pc' : p.dataSet = true → s.ndata p.preN = f)
    (pd : ∀ h, p.headRd = some h → h = s.headNode)
    (pe : ∀ x, p.nextRd = some x → ∃ g, s.order[s.hd]? = some (x, g))
    (pf : ∀ x, p.movedX = some x → x = s.headNode ∧ ∃ g, s'.owner = some g ∧ s.ndata x = g)
    (pg : ∀ g, p.woken = some g → s'.owner = some g) : DP s' := by
  obtain ⟨d1, d2, d3, d4, d5, d6, d7, d8, d9, d10⟩ := hd
  have hc : ∀ c, claim s' c = 0 ∨ claim s' c = claim s c := by
    intro c
    cases c with
    | fib g =>
      simp only [claim, claimF, hpc, h1, upd]
      split
      · next hg =>
        subst hg; right
        split
        · next h0 => exact hcl0 h0
        · next h0 => exact hcl1 h0
      · right; rfl
    | ent i => right; simp only [claim, entN, h3, h4]
    | stub => right; simp only [claim, h5]
    | pop w =>
      simp only [claim, hpc, upd]
      split
      · next hg => subst hg; rcases hpop with h | h <;> simp [h]
      · right; rfl
  constructor
  · exact d1.sub hc
  · rw [h5]; exact d2
  · intro g; rw [hpc, h1]; simp only [upd]; split
    · next hg => subst hg; exact pa
    · exact d3 g
  · intro g; rw [hpc, h1]; simp only [upd]; split
    · next hg => subst hg; exact pb
    · exact d4 g
  · intro g; rw [hpc, h2]; simp only [upd]; split
    · next hg => subst hg; exact pc'
    · exact d5 g
  · rw [h2, h3, h4]; exact d6
  · intro g; rw [hpc, h5]; simp only [upd]; split
    · next hg => subst hg; exact pd
    · exact d7 g
  · intro g; rw [hpc, h3, h4]; simp only [upd]; split
    · next hg => subst hg; exact pe
    · exact d8 g
  · intro g; rw [hpc, h2, h5]; simp only [upd]; split
    · next hg => subst hg; exact pf
    · intro x hx
      rcases ho with ho | ho
      · rw [ho]; exact d9 g x hx
      · rw [(ho g).1] at hx; cases hx
  · intro g; rw [hpc]; simp only [upd]; split
    · next hg => subst hg; exact pg
    · intro x hx
      rcases ho with ho | ho
      · rw [ho]; exact d10 g x hx
      · rw [(ho g).2] at hx; cases hx

theorem preN_eq_preNode {p : Pc} (h : p.preN ≠ 0) : p.preN = p.preNode := by
  cases p <;> simp_all [Pc.preN, Pc.preNode]

theorem dataSet_preN {p : Pc} (h : p.dataSet = true) : p.preN = p.preNode := by
  cases p <;> simp_all [Pc.preN, Pc.preNode, Pc.dataSet]

/-- a pre-xchg locker's node is claimed by nobody else -/
theorem DP.pre_excl {s : St} (hd : DP s) (hz : NZ s) {f : Nat} (hf : (s.pc f).dataSet = true ∨ (s.pc f).fnSame = true) :
    (s.pc f).preN ≠ 0 ∧ ∀ c, claim s c = (s.pc f).preN → c = .fib f := by
  have h0 : (s.pc f).preN ≠ 0 := by
    have := hz.pcs f
    rcases hf with hf | hf <;> (cases hp : s.pc f <;> simp_all [Pc.preN, Pc.preNode, Pc.dataSet, Pc.fnSame])
  refine ⟨h0, fun c hc => ?_⟩
  have : claim s (.fib f) = (s.pc f).preN := by simp [claim, claimF, h0]
  exact (hd.inj (.fib f) c (by rw [this]; exact h0) (by rw [this, hc])).symm

/-- `node->data = this_fiber` -/
theorem DP.wDataPre {s s' : St} (hd : DP s) (hz : NZ s) {f n : Nat}
    (hf : s.pc f = .waitGotNode n)
    (hpc : s'.pc = upd s.pc f (.waitWroteData n))
    (h1 : s'.fnode = s.fnode) (h2 : s'.ndata = upd s.ndata n f) (h3 : s'.order = s.order)
    (h4 : s'.hd = s.hd) (h5 : s'.headNode = s.headNode) (h6 : s'.owner = s.owner) : DP s' := by
  obtain ⟨hn0, hex⟩ := hd.pre_excl hz (f := f) (Or.inr (by rw [hf]; rfl))
  have hpn : (s.pc f).preN = n := by rw [hf]; rfl
  rw [hpn] at hn0 hex
  have hdp := hd
  obtain ⟨d1, d2, d3, d4, d5, d6, d7, d8, d9, d10⟩ := hd
  have hc : ∀ c, claim s' c = claim s c := by
    intro c
    cases c with
    | fib g =>
      simp only [claim, claimF, hpc, h1, upd]
      split
      · next hg => subst hg; simp [Pc.preN, hf, hn0]
      · rfl
    | ent i => simp only [claim, entN, h3, h4]
    | stub => simp only [claim, h5]
    | pop w =>
      simp only [claim, hpc, upd]
      split
      · next hg => subst hg; simp [Pc.popN, hf]
      · rfl
  constructor
  · exact d1.sub (fun c => Or.inr (hc c))
  · rw [h5]; exact d2
  · intro g; rw [hpc, h1]; simp only [upd]; split
    · next hg => subst hg; intro _; have := d3 g (by rw [hf]; rfl); rw [hf] at this; exact this
    · exact d3 g
  · intro g; rw [hpc, h1]; simp only [upd]; split
    · simp [Pc.fnZero]
    · exact d4 g
  · intro g; rw [hpc, h2]; simp only [upd]; split
    · next hg => subst hg; intro _; simp [Pc.preN]
    · next hg =>
      intro hds
      have := (hdp.pre_excl hz (f := g) (Or.inl hds))
      have hne : (s.pc g).preN ≠ n := by
        intro he
        have := hex (.fib g) (by simp [claim, claimF, he, hn0])
        cases this; exact hg rfl
      simp [hne]; exact d5 g hds
  · intro i m g hi hg
    rw [h4] at hi; rw [h3] at hg; rw [h2]
    have hne : m ≠ n := by
      intro he
      have := hex (.ent i) (by simp [claim, entN, hi, hg, he])
      cases this
    simp [upd, hne]; exact d6 i m g hi hg
  · intro g; rw [hpc, h5]; simp only [upd]; split
    · simp [Pc.headRd]
    · exact d7 g
  · intro g; rw [hpc, h3, h4]; simp only [upd]; split
    · simp [Pc.nextRd]
    · exact d8 g
  · intro g; rw [hpc, h2, h5, h6]; simp only [upd]; split
    · simp [Pc.movedX]
    · intro x hx
      obtain ⟨e1, e2⟩ := d9 g x hx
      have hne : x ≠ n := by
        intro he
        have := hex .stub (by simp [claim, ← e1, he])
        cases this
      rw [if_neg hne]; exact ⟨e1, e2⟩
  · intro g; rw [hpc, h6]; simp only [upd]; split
    · simp [Pc.woken]
    · exact d10 g

/-- `this_fiber->mpsc_fifo_node = NULL` -/
theorem DP.wNodePre {s s' : St} (hd : DP s) {f m : Nat}
    (hf : s.pc f = .waitWroteData m)
    (hpc : s'.pc = upd s.pc f (.waitClearedNode m))
    (h1 : s'.fnode = upd s.fnode f 0) (h2 : s'.ndata = s.ndata) (h3 : s'.order = s.order)
    (h4 : s'.hd = s.hd) (h5 : s'.headNode = s.headNode) (h6 : s'.owner = s.owner) : DP s' := by
  obtain ⟨d1, d2, d3, d4, d5, d6, d7, d8, d9, d10⟩ := hd
  have hfm := d3 f (by rw [hf]; rfl)
  rw [hf] at hfm; simp only [Pc.preN] at hfm
  have hc : ∀ c, claim s' c = claim s c := by
    intro c
    cases c with
    | fib g =>
      simp only [claim, claimF, hpc, h1, upd]
      split
      · next hg => subst hg; simp only [Pc.preN, hf, hfm]; split <;> simp_all
      · rfl
    | ent i => simp only [claim, entN, h3, h4]
    | stub => simp only [claim, h5]
    | pop w =>
      simp only [claim, hpc, upd]
      split
      · next hg => subst hg; simp [Pc.popN, hf]
      · rfl
  constructor
  · exact d1.sub (fun c => Or.inr (hc c))
  · rw [h5]; exact d2
  · intro g; rw [hpc, h1]; simp only [upd]; split
    · simp [Pc.fnSame]
    · exact d3 g
  · intro g; rw [hpc, h1]; simp only [upd]; split
    · simp
    · exact d4 g
  · intro g; rw [hpc, h2]; simp only [upd]; split
    · next hg => subst hg; intro _; have := d5 g (by rw [hf]; rfl); rw [hf] at this; exact this
    · exact d5 g
  · rw [h2, h3, h4]; exact d6
  · intro g; rw [hpc, h5]; simp only [upd]; split
    · simp [Pc.headRd]
    · exact d7 g
  · intro g; rw [hpc, h3, h4]; simp only [upd]; split
    · simp [Pc.nextRd]
    · exact d8 g
  · intro g; rw [hpc, h2, h5, h6]; simp only [upd]; split
    · simp [Pc.movedX]
    · exact d9 g
  · intro g; rw [hpc, h6]; simp only [upd]; split
    · simp [Pc.woken]
    · exact d10 g

/-- `xchg(&tail, node)`: the locker's node becomes the newest queue entry -/
theorem DP.xchg {s s' : St} (hd : DP s) (hi : Inv s) {f m q : Nat}
    (hf : s.pc f = .pushCleared m)
    (hpc : s'.pc = upd s.pc f (.pushXchgd m q s.order.length))
    (h1 : s'.fnode = s.fnode) (h2 : s'.ndata = s.ndata) (h3 : s'.order = s.order ++ [(m, f)])
    (h4 : s'.hd = s.hd) (h5 : s'.headNode = s.headNode) (h6 : s'.owner = s.owner) : DP s' := by
  obtain ⟨d1, d2, d3, d4, d5, d6, d7, d8, d9, d10⟩ := hd
  have hf0 := d4 f (by rw [hf]; rfl)
  have hdat := d5 f (by rw [hf]; rfl)
  rw [hf] at hdat; simp only [Pc.preN] at hdat
  have hle := hi.hd_le
  have hc : ∀ c, claim s' c = 0 ∨
      claim s' c = claim s (Claim.swap (.fib f) (.ent s.order.length) c) := by
    intro c
    cases c with
    | fib g =>
      simp only [claim, claimF, hpc, h1, upd]
      split
      · next hg => subst hg; left; simp [Pc.preN, hf0]
      · next hg => right; simp [Claim.swap, hg]
    | ent i =>
      by_cases hil : i = s.order.length
      · subst hil; right
        simp [claim, entN, h3, h4, hle, Claim.swap, claimF, hf, Pc.preN]
        intro h0; rw [hf0]; exact h0
      · right
        have hsw : Claim.swap (.fib f) (.ent s.order.length) (.ent i) = .ent i := by
          simp [Claim.swap, hil]
        rw [hsw]
        simp only [claim, entN, h3, h4]
        split
        · by_cases hlt : i < s.order.length
          · rw [List.getElem?_append_left hlt]
          · rw [List.getElem?_eq_none (by simp; omega), List.getElem?_eq_none (by omega)]
        · rfl
    | stub => right; simp [claim, h5, Claim.swap]
    | pop w =>
      right
      simp only [claim, hpc, upd, Claim.swap]
      simp
      split
      · next hg => subst hg; simp [Pc.popN, hf]
      · rfl
  constructor
  · exact d1.map _ (Claim.swap_inj _ _) hc
  · rw [h5]; exact d2
  · intro g; rw [hpc, h1]; simp only [upd]; split
    · simp [Pc.fnSame]
    · exact d3 g
  · intro g; rw [hpc, h1]; simp only [upd]; split
    · simp [Pc.fnZero]
    · exact d4 g
  · intro g; rw [hpc, h2]; simp only [upd]; split
    · simp [Pc.dataSet]
    · exact d5 g
  · intro i n g hi' hg
    rw [h4] at hi'; rw [h3] at hg; rw [h2]
    rcases getElem?_snoc_cases hg with h | ⟨-, h⟩
    · exact d6 i n g hi' h
    · cases h; exact hdat
  · intro g; rw [hpc, h5]; simp only [upd]; split
    · simp [Pc.headRd]
    · exact d7 g
  · intro g; rw [hpc, h3, h4]; simp only [upd]; split
    · simp [Pc.nextRd]
    · intro x hx
      obtain ⟨y, hy⟩ := d8 g x hx
      exact ⟨y, getElem?_snoc_of_some _ hy⟩
  · intro g; rw [hpc, h2, h5, h6]; simp only [upd]; split
    · simp [Pc.movedX]
    · exact d9 g
  · intro g; rw [hpc, h6]; simp only [upd]; split
    · simp [Pc.woken]
    · exact d10 g

theorem headRd_isPop {p : Pc} {h : Nat} (hp : p.headRd = some h) : p.k.isPop := by
  cases p <;> simp_all [Pc.headRd, Pc.k, K.isPop]
theorem nextRd_isPop {p : Pc} {h : Nat} (hp : p.nextRd = some h) : p.k.isPop := by
  cases p <;> simp_all [Pc.nextRd, Pc.k, K.isPop]
theorem movedX_isPop {p : Pc} {h : Nat} (hp : p.movedX = some h) : p.k.isPop := by
  cases p <;> simp_all [Pc.movedX, Pc.k, K.isPop]
theorem woken_isPop {p : Pc} {h : Nat} (hp : p.woken = some h) : p.k.isPop := by
  cases p <;> simp_all [Pc.woken, Pc.k, K.isPop]
theorem popN_isPop {p : Pc} (hp : p.popN ≠ 0) : p.k.isPop := by
  cases p <;> simp_all [Pc.popN, Pc.k, K.isPop]

/-- the rotation of claims at a pop: entry `hd` ↦ stub ↦ popper -/
def popMap (w i : Nat) (c : Claim) : Claim :=
  if c = .stub then .ent i else if c = .pop w then .stub else if c = .ent i then .pop w else c

theorem popMap_inj (w i : Nat) : ∀ c c', popMap w i c = popMap w i c' → c = c' := by
  intro c c' h; unfold popMap at h; grind

/-- `head := next` -/
theorem DP.popStep {s s' : St} (hd : DP s) (hi : Inv s) (hz : NZ s) {w h x n g : Nat}
    (hf : s.pc w = .popGotNext h x) (hq : s.order[s.hd]? = some (n, g))
    (hpc : s'.pc = upd s.pc w (.popMoved h x))
    (h1 : s'.fnode = s.fnode) (h2 : s'.ndata = s.ndata) (h3 : s'.order = s.order)
    (h4 : s'.hd = s.hd + 1) (h5 : s'.headNode = x) (h6 : s'.owner = some g) : DP s' := by
  obtain ⟨d1, d2, d3, d4, d5, d6, d7, d8, d9, d10⟩ := hd
  have hh : h = s.headNode := d7 w h (by rw [hf]; rfl)
  obtain ⟨g', hg'⟩ := d8 w x (by rw [hf]; rfl)
  rw [hq] at hg'; cases hg'
  have hx0 : x ≠ 0 := hz.ord _ _ _ hq
  have hone : ∀ u, (s.pc u).k.isPop → u = w := fun u hu =>
    hi.pop_one u w hu (by rw [hf]; simp [Pc.k, K.isPop])
  have hc : ∀ c, claim s' c = 0 ∨ claim s' c = claim s (popMap w s.hd c) := by
    intro c
    cases c with
    | fib u =>
      right
      have : popMap w s.hd (.fib u) = .fib u := by simp [popMap]
      rw [this]
      simp only [claim, claimF, hpc, h1, upd]
      split
      · next hu => subst hu; simp [Pc.preN, hf]
      · rfl
    | ent i =>
      by_cases hil : i = s.hd
      · left; subst hil; simp only [claim, entN, h4]; rw [if_neg (by omega)]
      · right
        have : popMap w s.hd (.ent i) = .ent i := by simp [popMap, hil]
        rw [this]
        simp only [claim, entN, h3, h4]
        by_cases hlt : s.hd + 1 ≤ i
        · rw [if_pos hlt, if_pos (by omega)]
        · rw [if_neg hlt, if_neg (by omega)]
    | stub =>
      right
      have : popMap w s.hd .stub = .ent s.hd := by simp [popMap]
      rw [this]; simp [claim, entN, h5, hq]
    | pop u =>
      by_cases huw : u = w
      · subst huw; right
        have : popMap u s.hd (.pop u) = .stub := by simp [popMap]
        rw [this]; simp [claim, hpc, Pc.popN, hh]
      · right
        have : popMap w s.hd (.pop u) = .pop u := by simp [popMap, huw]
        rw [this]; simp [claim, hpc, upd, huw]
  constructor
  · exact d1.map _ (popMap_inj _ _) hc
  · rw [h5]; exact hx0
  · intro u; rw [hpc, h1]; simp only [upd]; split
    · simp [Pc.fnSame]
    · exact d3 u
  · intro u; rw [hpc, h1]; simp only [upd]; split
    · simp [Pc.fnZero]
    · exact d4 u
  · intro u; rw [hpc, h2]; simp only [upd]; split
    · simp [Pc.dataSet]
    · exact d5 u
  · intro i m u hi' hu
    rw [h4] at hi'; rw [h3] at hu; rw [h2]
    exact d6 i m u (by omega) hu
  · intro u; rw [hpc]; simp only [upd]; split
    · simp [Pc.headRd]
    · next hu => intro y hy; exact absurd (hone u (headRd_isPop hy)) hu
  · intro u; rw [hpc]; simp only [upd]; split
    · simp [Pc.nextRd]
    · next hu => intro y hy; exact absurd (hone u (nextRd_isPop hy)) hu
  · intro u; rw [hpc, h2, h5, h6]; simp only [upd]; split
    · intro y hy; simp [Pc.movedX] at hy; subst hy
      exact ⟨rfl, g, rfl, d6 s.hd _ g (Nat.le_refl _) hq⟩
    · next hu => intro y hy; exact absurd (hone u (movedX_isPop hy)) hu
  · intro u; rw [hpc]; simp only [upd]; split
    · simp [Pc.woken]
    · next hu => intro y hy; exact absurd (hone u (woken_isPop hy)) hu

/-- `prev_head->data = prev_head_next->data` inside `mpsc_fifo_trypop` -/
theorem DP.wDataPop {s s' : St} (hd : DP s) (hi : Inv s) (hz : NZ s) {w h x g : Nat}
    (hf : s.pc w = .popGotData h x g)
    (hpc : s'.pc = upd s.pc w (.popWrote h g))
    (h1 : s'.fnode = s.fnode) (h2 : s'.ndata = upd s.ndata h g) (h3 : s'.order = s.order)
    (h4 : s'.hd = s.hd) (h5 : s'.headNode = s.headNode) (h6 : s'.owner = s.owner) : DP s' := by
  have hdp := hd
  obtain ⟨d1, d2, d3, d4, d5, d6, d7, d8, d9, d10⟩ := hd
  have hone : ∀ u, (s.pc u).k.isPop → u = w := fun u hu =>
    hi.pop_one u w hu (by rw [hf]; simp [Pc.k, K.isPop])
  have hcw : claim s (.pop w) = h := by simp [claim, hf, Pc.popN]
  have hex : ∀ c, claim s c ≠ 0 → claim s c = h → c = .pop w := fun c h0 hc =>
    d1 c (.pop w) h0 (by rw [hcw]; exact hc)
  have hc : ∀ c, claim s' c = claim s c := by
    intro c
    cases c with
    | fib u =>
      simp only [claim, claimF, hpc, h1, upd]
      split
      · next hu => subst hu; simp [Pc.preN, hf]
      · rfl
    | ent i => simp only [claim, entN, h3, h4]
    | stub => simp only [claim, h5]
    | pop u =>
      simp only [claim, hpc, upd]
      split
      · next hu => subst hu; simp [Pc.popN, hf]
      · rfl
  constructor
  · exact d1.sub (fun c => Or.inr (hc c))
  · rw [h5]; exact d2
  · intro u; rw [hpc, h1]; simp only [upd]; split
    · simp [Pc.fnSame]
    · exact d3 u
  · intro u; rw [hpc, h1]; simp only [upd]; split
    · simp [Pc.fnZero]
    · exact d4 u
  · intro u; rw [hpc, h2]; simp only [upd]; split
    · simp [Pc.dataSet]
    · intro hds
      have hp := hdp.pre_excl hz (f := u) (Or.inl hds)
      have hne : (s.pc u).preN ≠ h := by
        intro he
        have h0 : h ≠ 0 := he ▸ hp.1
        have := hex (.fib u) (by simp [claim, claimF, hp.1]) (by simp [claim, claimF, he, h0])
        cases this
      simp [hne]; exact d5 u hds
  · intro i m u hi' hu
    rw [h4] at hi'; rw [h3] at hu; rw [h2]
    have hm0 : m ≠ 0 := hz.ord _ _ _ hu
    have hne : m ≠ h := by
      intro he
      have := hex (.ent i) (by simp [claim, entN, hi', hu, hm0]) (by simp [claim, entN, hi', hu, he])
      cases this
    simp [upd, hne]; exact d6 i m u hi' hu
  · intro u; rw [hpc, h5]; simp only [upd]; split
    · simp [Pc.headRd]
    · exact d7 u
  · intro u; rw [hpc, h3, h4]; simp only [upd]; split
    · simp [Pc.nextRd]
    · exact d8 u
  · intro u; rw [hpc]; simp only [upd]; split
    · simp [Pc.movedX]
    · next hu => intro y hy; exact absurd (hone u (movedX_isPop hy)) hu
  · intro u; rw [hpc, h6]; simp only [upd]; split
    · next hu =>
      subst hu; intro y hy; simp [Pc.woken] at hy; subst hy
      exact d10 u g (by rw [hf]; rfl)
    · exact d10 u

/-- `to_schedule->mpsc_fifo_node = out`: the popped node goes to the woken fiber -/
theorem DP.giveNode {s s' : St} (hd : DP s) (hi : Inv s) {w h g : Nat}
    (hf : s.pc w = .wakeGotFiber h g)
    (hpc : s'.pc = upd s.pc w (.wakeGaveNode h g))
    (h1 : s'.fnode = upd s.fnode g h) (h2 : s'.ndata = s.ndata) (h3 : s'.order = s.order)
    (h4 : s'.hd = s.hd) (h5 : s'.headNode = s.headNode) (h6 : s'.owner = s.owner) : DP s' := by
  obtain ⟨d1, d2, d3, d4, d5, d6, d7, d8, d9, d10⟩ := hd
  have hog : s.owner = some g := d10 w g (by rw [hf]; rfl)
  obtain ⟨g', e1, e2⟩ := hi.waking_owner (hi.post_waking w (by rw [hf]; rfl))
  rw [hog] at e1; cases e1
  have hgp : s.pc g = .parked := (k_parked _).1 e2
  have hgw : g ≠ w := by intro he; rw [he, hf] at hgp; cases hgp
  have hc : ∀ c, claim s' c = 0 ∨ claim s' c = claim s (Claim.swap (.fib g) (.pop w) c) := by
    intro c
    cases c with
    | fib u =>
      by_cases hug : u = g
      · subst hug; right
        have : Claim.swap (.fib u) (.pop w) (.fib u) = .pop w := by simp [Claim.swap]
        rw [this]
        simp [claim, claimF, hpc, h1, upd, hgw, hgp, Pc.preN, hf, Pc.popN]
      · right
        have : Claim.swap (.fib g) (.pop w) (.fib u) = .fib u := by simp [Claim.swap, hug]
        rw [this]
        simp only [claim, claimF, hpc, h1, upd, if_neg hug]
        split
        · next hu => subst hu; simp [Pc.preN, hf]
        · rfl
    | ent i =>
      right
      have : Claim.swap (.fib g) (.pop w) (.ent i) = .ent i := by simp [Claim.swap]
      rw [this]; simp only [claim, entN, h3, h4]
    | stub =>
      right
      have : Claim.swap (.fib g) (.pop w) .stub = .stub := by simp [Claim.swap]
      rw [this]; simp only [claim, h5]
    | pop u =>
      by_cases huw : u = w
      · subst huw; left; simp [claim, hpc, Pc.popN]
      · right
        have : Claim.swap (.fib g) (.pop w) (.pop u) = .pop u := by simp [Claim.swap, huw]
        rw [this]; simp [claim, hpc, upd, huw]
  constructor
  · exact d1.map _ (Claim.swap_inj _ _) hc
  · rw [h5]; exact d2
  · intro u; rw [hpc, h1]; simp only [upd]; split
    · simp [Pc.fnSame]
    · split
      · next hu => subst hu; simp [hgp, Pc.fnSame]
      · exact d3 u
  · intro u; rw [hpc, h1]; simp only [upd]; split
    · simp [Pc.fnZero]
    · split
      · next hu => subst hu; simp [hgp, Pc.fnZero]
      · exact d4 u
  · intro u; rw [hpc, h2]; simp only [upd]; split
    · simp [Pc.dataSet]
    · exact d5 u
  · rw [h2, h3, h4]; exact d6
  · intro u; rw [hpc, h5]; simp only [upd]; split
    · simp [Pc.headRd]
    · exact d7 u
  · intro u; rw [hpc, h3, h4]; simp only [upd]; split
    · simp [Pc.nextRd]
    · exact d8 u
  · intro u; rw [hpc, h2, h5, h6]; simp only [upd]; split
    · simp [Pc.movedX]
    · exact d9 u
  · intro u; rw [hpc, h6]; simp only [upd]; split
    · next hu =>
      subst hu; intro y hy; simp [Pc.woken] at hy; subst hy; exact hog
    · exact d10 u

theorem headNext_some {s : St} {x : Nat} (h : x = headNext s) (hx : x ≠ 0) :
    ∃ g, s.order[s.hd]? = some (x, g) := by
  unfold headNext at h
  split at h
  · next n g heq =>
    split at h
    · subst h; exact ⟨g, heq⟩
    · exact absurd h hx
  · exact absurd h hx

/-- no fiber is past its pop while the mutex is free or its owner is running -/
theorem Inv.no_post {s : St} (hi : Inv s)
    (h : s.owner = none ∨ ∃ f, s.owner = some f ∧ (s.pc f).k.isHold) :
    ∀ w, (s.pc w).movedX = none ∧ (s.pc w).woken = none := by
  have hnw : s.waking = false := by
    cases hw : s.waking with
    | false => rfl
    | true =>
      obtain ⟨g, h1, h2⟩ := hi.waking_owner hw
      rcases h with h | ⟨f, h3, h4⟩
      · rw [h] at h1; cases h1
      · rw [h3] at h1; cases h1; rcases h4 with h4 | h4 <;> rw [h2] at h4 <;> cases h4
  intro w
  have : (s.pc w).k ≠ .post := fun hp => by
    have := hi.post_waking w hp; rw [hnw] at this; cases this
  cases hp : s.pc w <;> simp_all [Pc.movedX, Pc.woken, Pc.k]

local macro "dp_simple" h:term : tactic => `(tactic| (
  refine DP.pcStep ‹DP _› (f := _) (p := _) rfl rfl rfl rfl rfl rfl (Or.inl rfl) ?_ ?_ ?_ ?_ ?_ ?_ ?_ ?_ ?_ ?_
  <;> (try simp [claimF, $h:term, Pc.preN, Pc.popN, Pc.fnSame, Pc.fnZero, Pc.dataSet, Pc.headRd,
        Pc.nextRd, Pc.movedX, Pc.woken])
  <;> (try first | rfl | assumption | (intros; omega) | (split <;> first | rfl | assumption | omega))))

theorem dp_step_lock {s s' : St} (hi : Inv s) (hd : DP s) :
    ∀ e, (∃ f, e = Ev.callLock f) ∨ (∃ f o, e = Ev.fsub f o) ∨ (∃ f, e = Ev.retLock f) ∨
      (∃ f a b, e = Ev.xchgTail f a b) ∨ (∃ f a b, e = Ev.wNext f a b) ∨ (∃ f a b, e = Ev.rNode f a b) →
    step s e = some s' → DP s' := by
  intro e he hs
  rcases he with ⟨f, rfl⟩ | ⟨f, old, rfl⟩ | ⟨f, rfl⟩ | ⟨f, a, b, rfl⟩ | ⟨f, a, b, rfl⟩ | ⟨f, a, b, rfl⟩
  · simp only [step] at hs
    split at hs <;> simp at hs
    next h => subst hs; dp_simple h
  · simp only [step] at hs
    split at hs <;> simp at hs
    next h =>
    obtain ⟨rfl, hs⟩ := hs
    split at hs <;> simp at hs <;> subst hs
    · next h1 =>
      refine DP.pcStep hd (f := f) (p := .acquired) rfl rfl rfl rfl rfl rfl
        (Or.inr (hi.no_post (Or.inl (hi.free_of_one h1).1))) ?_ ?_ ?_ ?_ ?_ ?_ ?_ ?_ ?_ ?_
      <;> simp [claimF, h, Pc.preN, Pc.popN, Pc.fnSame, Pc.fnZero, Pc.dataSet, Pc.headRd,
        Pc.nextRd, Pc.movedX, Pc.woken]
    · dp_simple h
  · simp only [step] at hs
    split at hs <;> simp at hs
    · next h => subst hs; dp_simple h
    · next h => obtain ⟨_, hs⟩ := hs; subst hs; dp_simple h
  · simp only [step] at hs
    split at hs <;> simp at hs
    next m h =>
    obtain ⟨⟨rfl, rfl⟩, hs⟩ := hs
    subst hs; exact hd.xchg hi h rfl rfl rfl rfl rfl rfl rfl
  · simp only [step] at hs
    split at hs <;> simp at hs
    · next m h =>
      obtain ⟨⟨rfl, rfl⟩, hs⟩ := hs; subst hs
      have e1 := hd.fn_zero f (by rw [h]; rfl)
      have e2 := hd.pre_data f (by rw [h]; rfl)
      rw [h] at e2; simp only [Pc.preN] at e2
      dp_simple h
    · next m q i h => obtain ⟨_, hs⟩ := hs; subst hs; dp_simple h
  · simp only [step] at hs
    split at hs <;> simp at hs
    next h =>
    obtain ⟨⟨rfl, rfl, hn⟩, hs⟩ := hs; subst hs
    dp_simple h

theorem dp_step_try {s s' : St} (hi : Inv s) (hd : DP s) :
    ∀ e, (∃ f, e = Ev.callTry f) ∨ (∃ f o b, e = Ev.casCounter f o b) ∨ (∃ f r, e = Ev.retTry f r) ∨
      (∃ f, e = Ev.csEnter f) ∨ (∃ f v, e = Ev.csExit f v) ∨ (∃ f, e = Ev.callUnlock f) →
    step s e = some s' → DP s' := by
  intro e he hs
  rcases he with ⟨f, rfl⟩ | ⟨f, found, ok, rfl⟩ | ⟨f, r, rfl⟩ | ⟨f, rfl⟩ | ⟨f, v, rfl⟩ | ⟨f, rfl⟩
  · simp only [step] at hs
    split at hs <;> simp at hs
    next h => subst hs; dp_simple h
  · simp only [step] at hs
    split at hs <;> simp at hs
    next h =>
    obtain ⟨⟨rfl, rfl⟩, hs⟩ := hs
    split at hs <;> simp at hs <;> subst hs
    · next h1 =>
      have h1' : s.counter = 1 := by simpa using h1
      refine DP.pcStep hd (f := f) (p := .tryDone true) rfl rfl rfl rfl rfl rfl
        (Or.inr (hi.no_post (Or.inl (hi.free_of_one h1').1))) ?_ ?_ ?_ ?_ ?_ ?_ ?_ ?_ ?_ ?_
      <;> simp [claimF, h, Pc.preN, Pc.popN, Pc.fnSame, Pc.fnZero, Pc.dataSet, Pc.headRd,
        Pc.nextRd, Pc.movedX, Pc.woken]
    · dp_simple h
  · simp only [step] at hs
    split at hs <;> simp at hs
    next r' h =>
    obtain ⟨rfl, hs⟩ := hs
    subst hs
    cases r <;> dp_simple h
  · simp only [step] at hs
    split at hs <;> simp at hs
    subst hs
    exact hd.frame (fun _ => rfl) rfl rfl rfl rfl rfl rfl
  · simp only [step] at hs
    split at hs <;> simp at hs
    subst hs
    exact hd.frame (fun _ => rfl) rfl rfl rfl rfl rfl rfl
  · simp only [step] at hs
    split at hs <;> simp at hs
    next h => subst hs; dp_simple h.1

theorem dp_step_unlock {s s' : St} (hi : Inv s) (hz : NZ s) (hd : DP s) :
    ∀ e, (∃ f o, e = Ev.fadd f o) ∨ (∃ f n, e = Ev.rHead f n) ∨ (∃ f n x, e = Ev.rNext f n x) ∨
      (∃ f n, e = Ev.wHead f n) ∨ (∃ f, e = Ev.retUnlock f) →
    step s e = some s' → DP s' := by
  intro e he hs
  rcases he with ⟨f, old, rfl⟩ | ⟨f, n, rfl⟩ | ⟨f, n, x, rfl⟩ | ⟨f, n, rfl⟩ | ⟨f, rfl⟩
  · simp only [step] at hs
    split at hs <;> simp at hs
    next h =>
    obtain ⟨rfl, hs⟩ := hs
    have hk : (s.pc f).k = .hold := by rw [h]; rfl
    have ho := hi.hold_owner f (Or.inl hk)
    have hnp := hi.no_post (Or.inr ⟨f, ho, Or.inl hk⟩)
    split at hs <;> simp at hs <;> subst hs
    · refine DP.pcStep hd (f := f) (p := .unlockDone) rfl rfl rfl rfl rfl rfl
        (Or.inr hnp) ?_ ?_ ?_ ?_ ?_ ?_ ?_ ?_ ?_ ?_
      <;> simp [claimF, h, Pc.preN, Pc.popN, Pc.fnSame, Pc.fnZero, Pc.dataSet, Pc.headRd,
        Pc.nextRd, Pc.movedX, Pc.woken]
    · refine DP.pcStep hd (f := f) (p := .wakeLoop) rfl rfl rfl rfl rfl rfl
        (Or.inr hnp) ?_ ?_ ?_ ?_ ?_ ?_ ?_ ?_ ?_ ?_
      <;> simp [claimF, h, Pc.preN, Pc.popN, Pc.fnSame, Pc.fnZero, Pc.dataSet, Pc.headRd,
        Pc.nextRd, Pc.movedX, Pc.woken]
  · simp only [step] at hs
    split at hs <;> simp at hs
    next h => obtain ⟨rfl, hs⟩ := hs; subst hs; dp_simple h
  · simp only [step] at hs
    split at hs <;> simp at hs
    next hh h =>
    obtain ⟨⟨rfl, hx⟩, hs⟩ := hs
    have e1 := hd.got_head f n (by rw [h]; rfl)
    split at hs <;> simp at hs <;> subst hs
    · dp_simple h
    · next hx0 =>
      have e2 := headNext_some hx hx0
      dp_simple h
  · simp only [step] at hs
    split at hs <;> simp at hs
    next hh x h =>
    obtain ⟨rfl, hs⟩ := hs
    split at hs <;> simp at hs
    next m g heq =>
    subst hs
    exact hd.popStep hi hz h heq rfl rfl rfl rfl rfl rfl rfl
  · simp only [step] at hs
    split at hs <;> simp at hs
    next h => subst hs; dp_simple h

theorem dp_step_wake {s s' : St} (hi : Inv s) (hz : NZ s) (hd : DP s) :
    ∀ e, (∃ f g v, e = Ev.wState f g v) ∨ (∃ f g v, e = Ev.rState f g v) ∨ (∃ f g n, e = Ev.wNode f g n) ∨
      (∃ f n g, e = Ev.wData f n g) ∨ (∃ f n g, e = Ev.rData f n g) →
    step s e = some s' → DP s' := by
  intro e he hs
  rcases he with ⟨f, g, v, rfl⟩ | ⟨f, g, v, rfl⟩ | ⟨f, g, n, rfl⟩ | ⟨f, n, g, rfl⟩ | ⟨f, n, g, rfl⟩
  · simp only [step] at hs
    split at hs <;> simp at hs
    · next h => obtain ⟨_, hs⟩ := hs; subst hs; dp_simple h
    · next h => obtain ⟨_, hs⟩ := hs; subst hs; dp_simple h
  · simp only [step] at hs
    split at hs <;> simp at hs
    next hh g' h =>
    obtain ⟨⟨rfl, _⟩, hs⟩ := hs
    have e1 := hd.woke f g (by rw [h]; rfl)
    split at hs <;> simp at hs <;> subst hs
    · dp_simple h
    · dp_simple h
  · simp only [step] at hs
    split at hs <;> simp at hs
    · next m h =>
      obtain ⟨⟨rfl, rfl⟩, hs⟩ := hs; subst hs
      exact hd.wNodePre h rfl rfl rfl rfl rfl rfl rfl
    · next hh g' h =>
      obtain ⟨⟨rfl, rfl⟩, hs⟩ := hs; subst hs
      exact hd.giveNode hi h rfl rfl rfl rfl rfl rfl rfl
  · simp only [step] at hs
    split at hs <;> simp at hs
    · next m h =>
      obtain ⟨⟨rfl, rfl⟩, hs⟩ := hs; subst hs
      exact hd.wDataPre hz h rfl rfl rfl rfl rfl rfl rfl
    · next hh x g' h =>
      obtain ⟨⟨rfl, rfl⟩, hs⟩ := hs; subst hs
      exact hd.wDataPop hi hz h rfl rfl rfl rfl rfl rfl rfl
  · simp only [step] at hs
    split at hs <;> simp at hs
    · next hh x h =>
      obtain ⟨⟨rfl, rfl, hg0⟩, hs⟩ := hs; subst hs
      obtain ⟨e1, g', e2, e3⟩ := hd.moved f n (by rw [h]; rfl)
      subst e3
      dp_simple h
    · next hh g' h =>
      obtain ⟨⟨rfl, rfl⟩, hs⟩ := hs; subst hs
      have e1 := hd.woke f g (by rw [h]; rfl)
      dp_simple h

theorem dp_step {s s' : St} {e : Ev} (hi : Inv s) (hz : NZ s) (hd : DP s)
    (hs : step s e = some s') : DP s' := by
  cases e with
  | callLock f => exact dp_step_lock hi hd _ (Or.inl ⟨_, rfl⟩) hs
  | fsub f o => exact dp_step_lock hi hd _ (Or.inr (Or.inl ⟨_, _, rfl⟩)) hs
  | retLock f => exact dp_step_lock hi hd _ (Or.inr (Or.inr (Or.inl ⟨_, rfl⟩))) hs
  | xchgTail f a b => exact dp_step_lock hi hd _ (Or.inr (Or.inr (Or.inr (Or.inl ⟨_, _, _, rfl⟩)))) hs
  | wNext f a b => exact dp_step_lock hi hd _ (Or.inr (Or.inr (Or.inr (Or.inr (Or.inl ⟨_, _, _, rfl⟩))))) hs
  | rNode f a b => exact dp_step_lock hi hd _ (Or.inr (Or.inr (Or.inr (Or.inr (Or.inr ⟨_, _, _, rfl⟩))))) hs
  | callTry f => exact dp_step_try hi hd _ (Or.inl ⟨_, rfl⟩) hs
  | casCounter f o b => exact dp_step_try hi hd _ (Or.inr (Or.inl ⟨_, _, _, rfl⟩)) hs
  | retTry f r => exact dp_step_try hi hd _ (Or.inr (Or.inr (Or.inl ⟨_, _, rfl⟩))) hs
  | csEnter f => exact dp_step_try hi hd _ (Or.inr (Or.inr (Or.inr (Or.inl ⟨_, rfl⟩)))) hs
  | csExit f v => exact dp_step_try hi hd _ (Or.inr (Or.inr (Or.inr (Or.inr (Or.inl ⟨_, _, rfl⟩))))) hs
  | callUnlock f => exact dp_step_try hi hd _ (Or.inr (Or.inr (Or.inr (Or.inr (Or.inr ⟨_, rfl⟩))))) hs
  | fadd f o => exact dp_step_unlock hi hz hd _ (Or.inl ⟨_, _, rfl⟩) hs
  | rHead f n => exact dp_step_unlock hi hz hd _ (Or.inr (Or.inl ⟨_, _, rfl⟩)) hs
  | rNext f n x => exact dp_step_unlock hi hz hd _ (Or.inr (Or.inr (Or.inl ⟨_, _, _, rfl⟩))) hs
  | wHead f n => exact dp_step_unlock hi hz hd _ (Or.inr (Or.inr (Or.inr (Or.inl ⟨_, _, rfl⟩)))) hs
  | retUnlock f => exact dp_step_unlock hi hz hd _ (Or.inr (Or.inr (Or.inr (Or.inr ⟨_, rfl⟩)))) hs
  | wState f g v => exact dp_step_wake hi hz hd _ (Or.inl ⟨_, _, _, rfl⟩) hs
  | rState f g v => exact dp_step_wake hi hz hd _ (Or.inr (Or.inl ⟨_, _, _, rfl⟩)) hs
  | wNode f g n => exact dp_step_wake hi hz hd _ (Or.inr (Or.inr (Or.inl ⟨_, _, _, rfl⟩))) hs
  | wData f n g => exact dp_step_wake hi hz hd _ (Or.inr (Or.inr (Or.inr (Or.inl ⟨_, _, _, rfl⟩)))) hs
  | rData f n g => exact dp_step_wake hi hz hd _ (Or.inr (Or.inr (Or.inr (Or.inr ⟨_, _, _, rfl⟩)))) hs

theorem dp_of_run {stub : Nat} {nodeOf : Nat → Nat} (hn : NodesOk stub nodeOf) {es : List Ev}
    {s : St} (h : (sys stub nodeOf).run es = some s) : DP s :=
  hist_run (fun s _ => DP s) (dp_init hn)
    (fun _ _ _ _ hr hi hd hs => dp_step hi (nz_of_run hr) hd hs) h

/-- the harness's node assignment: fiber `F<k>` starts with node `N<k>` (id `k + 2`), stub `S` (id 1) -/
theorem nodesOk_harness : NodesOk 1 (· + 2) :=
  ⟨by decide, fun f => by simp, fun f g h _ => by simpa using h⟩

end LibfiberVerif.Mutex
