/-
  Proof/Mutex.lean — the inductive invariant of the fiber-mutex model (property C03) and the
  lemmas `Props/C03.lean` is assembled from.

  Layout: (1) classification of program counters, (2) finite cardinality of a predicate on
  fibers (`Card`, via duplicate-free enumerations — fibers are unbounded, `Nat → Pc`),
  (3) the invariant `Mutex.Inv`, (4) one preservation lemma per event constructor,
  (5) trace-level (history) invariants: hand-off counting, critical-section alternation,
  refinement of the atomic lock specification.
-/
import LibfiberVerif.Model.Mutex

namespace LibfiberVerif.Mutex

/-! ### 1. classes of program counters -/

/-- between a successful acquire point and the release `fetch_add` (not counting a waiter that
    was handed the mutex and has not resumed yet: that one is `parked` with `owner = some f`) -/
def Pc.isHold : Pc → Bool
  | .acquired | .held | .tryDone true | .unlockCalled => true
  | _ => false

/-- announced (`fetch_sub` done, saw contention), not yet enqueued (`xchg(&tail)` not done) -/
def Pc.isPre : Pc → Bool
  | .lockDec _ | .waitSaving | .waitGotNode _ | .waitWroteData _ | .waitClearedNode _
  | .pushCleared _ => true
  | _ => false

/-- in the wake loop, before the pop took effect (`head := next` not yet written) -/
def Pc.isWake : Pc → Bool
  | .wakeLoop | .popGotHead _ | .popGotNext _ _ => true
  | _ => false

/-- after the pop took effect, still touching the queue nodes / the woken fiber -/
def Pc.isPost : Pc → Bool
  | .popMoved _ _ | .popGotData _ _ _ | .popWrote _ _ | .wakeGotFiber _ _ | .wakeGaveNode _ _
  | .wakeReadState _ _ => true
  | _ => false

/-- anywhere inside `mpsc_fifo_trypop` / the wake loop: the consumer side of the waiter queue -/
def Pc.isPop (p : Pc) : Bool := p.isWake || p.isPost

/-- enqueued or about to link: `xchg(&tail)` done -/
def Pc.isEnq : Pc → Bool
  | .pushXchgd _ _ _ | .parked => true
  | _ => false

/-- coarse view of a pc: everything the invariant depends on -/
inductive K
  | other | pre | xchgd (m i : Nat) | parked | hold | held | w | wNext | post
  deriving DecidableEq

def Pc.k : Pc → K
  | .lockDec _ | .waitSaving | .waitGotNode _ | .waitWroteData _ | .waitClearedNode _
  | .pushCleared _ => .pre
  | .pushXchgd m _ i => .xchgd m i
  | .parked => .parked
  | .acquired | .tryDone true | .unlockCalled => .hold
  | .held => .held
  | .wakeLoop | .popGotHead _ => .w
  | .popGotNext _ _ => .wNext
  | .popMoved _ _ | .popGotData _ _ _ | .popWrote _ _ | .wakeGotFiber _ _ | .wakeGaveNode _ _
  | .wakeReadState _ _ => .post
  | _ => .other

def K.isHold (k : K) : Prop := k = .hold ∨ k = .held
def K.isWake (k : K) : Prop := k = .w ∨ k = .wNext
def K.isPop (k : K) : Prop := k = .w ∨ k = .wNext ∨ k = .post

theorem k_isHold (p : Pc) : p.k.isHold ↔ p.isHold = true := by
  cases p <;> simp [Pc.k, K.isHold, Pc.isHold]
  next r => cases r <;> simp
theorem k_isWake (p : Pc) : p.k.isWake ↔ p.isWake = true := by
  cases p <;> simp [Pc.k, K.isWake, Pc.isWake]
  next r => cases r <;> simp
theorem k_isPop (p : Pc) : p.k.isPop ↔ p.isPop = true := by
  cases p <;> simp [Pc.k, K.isPop, Pc.isPop, Pc.isWake, Pc.isPost]
  next r => cases r <;> simp
theorem k_post (p : Pc) : p.k = .post ↔ p.isPost = true := by
  cases p <;> simp [Pc.k, Pc.isPost]
  next r => cases r <;> simp
theorem k_pre (p : Pc) : p.k = .pre ↔ p.isPre = true := by
  cases p <;> simp [Pc.k, Pc.isPre]
  next r => cases r <;> simp
theorem k_parked (p : Pc) : p.k = .parked ↔ p = .parked := by
  cases p <;> simp [Pc.k]
  next r => cases r <;> simp
theorem k_held (p : Pc) : p.k = .held ↔ p = .held := by
  cases p <;> simp [Pc.k]
  next r => cases r <;> simp
theorem k_xchgd (p : Pc) (m i : Nat) : p.k = .xchgd m i ↔ ∃ q, p = .pushXchgd m q i := by
  cases p <;> simp [Pc.k]
  next r => cases r <;> simp
theorem k_wNext (p : Pc) : p.k = .wNext ↔ ∃ h x, p = .popGotNext h x := by
  cases p <;> simp [Pc.k]
  next r => cases r <;> simp

/-- "announced": has decremented `counter` in a contended `lock` and has not been handed the
    mutex yet.  (`o` = current owner, `f` = the fiber, `k` = its pc class.) -/
def annK (o : Option Nat) (f : Nat) : K → Bool
  | .pre => true
  | .xchgd _ _ => true
  | .parked => decide (o ≠ some f)
  | _ => false

/-- fiber `f` is an announced waiter in state `s` -/
def Ann (s : St) (f : Nat) : Prop := annK s.owner f (s.pc f).k = true

theorem ann_iff (s : St) (f : Nat) :
    Ann s f ↔ ((s.pc f).isPre = true ∨ (∃ m p i, s.pc f = .pushXchgd m p i) ∨
      (s.pc f = .parked ∧ s.owner ≠ some f)) := by
  unfold Ann
  cases h : s.pc f <;> simp [Pc.k, annK, Pc.isPre]
  next r => cases r <;> simp

/-! ### 2. cardinality of a predicate on fibers -/

/-- exactly `n` fibers satisfy `P` -/
def Card (P : Nat → Prop) (n : Nat) : Prop :=
  ∃ l : List Nat, l.Nodup ∧ (∀ f, f ∈ l ↔ P f) ∧ l.length = n

theorem Card.congr {P Q : Nat → Prop} {n : Nat} (h : Card P n) (hpq : ∀ f, Q f ↔ P f) :
    Card Q n := by
  obtain ⟨l, h1, h2, h3⟩ := h
  exact ⟨l, h1, fun f => by rw [h2, hpq], h3⟩

theorem Card.unique {P : Nat → Prop} {n m : Nat} (h : Card P n) (h' : Card P m) : n = m := by
  obtain ⟨l, h1, h2, h3⟩ := h
  obtain ⟨l', h1', h2', h3'⟩ := h'
  have : l.Perm l' := (List.perm_ext_iff_of_nodup h1 h1').2 (fun a => by rw [h2, h2'])
  rw [← h3, ← h3']; exact this.length_eq

theorem Card.insert {P Q : Nat → Prop} {n : Nat} (h : Card P n) (a : Nat) (ha : ¬ P a)
    (hq : ∀ f, Q f ↔ (f = a ∨ P f)) : Card Q (n + 1) := by
  obtain ⟨l, h1, h2, h3⟩ := h
  refine ⟨a :: l, ?_, ?_, by simp [h3]⟩
  · rw [List.nodup_cons]; exact ⟨fun hm => ha ((h2 a).1 hm), h1⟩
  · intro f; simp [h2, hq]

theorem Card.erase {P Q : Nat → Prop} {n : Nat} (h : Card P n) (a : Nat) (ha : P a)
    (hq : ∀ f, Q f ↔ (f ≠ a ∧ P f)) : 1 ≤ n ∧ Card Q (n - 1) := by
  obtain ⟨l, h1, h2, h3⟩ := h
  have hm : a ∈ l := (h2 a).2 ha
  refine ⟨?_, l.erase a, h1.erase a, ?_, by rw [List.length_erase_of_mem hm, h3]⟩
  · rw [← h3]; exact List.length_pos_of_mem hm
  · intro f; rw [h1.mem_erase_iff, h2, hq]

theorem Card.zero_iff {P : Nat → Prop} : Card P 0 ↔ ∀ f, ¬ P f := by
  constructor
  · rintro ⟨l, -, h2, h3⟩ f hf
    have := (h2 f).2 hf
    rw [List.length_eq_zero_iff.1 h3] at this; simp at this
  · intro h; exact ⟨[], by simp, fun f => by simp [h f], rfl⟩

theorem Card.pos {P : Nat → Prop} {n : Nat} (h : Card P n) (hn : 0 < n) : ∃ f, P f := by
  obtain ⟨l, -, h2, h3⟩ := h
  cases l with
  | nil => simp at h3; omega
  | cons a l => exact ⟨a, (h2 a).1 (by simp)⟩

theorem Card.pos_of {P : Nat → Prop} {n : Nat} (h : Card P n) {f : Nat} (hf : P f) : 0 < n := by
  obtain ⟨l, -, h2, h3⟩ := h
  rw [← h3]; exact List.length_pos_of_mem ((h2 f).2 hf)

/-! ### 3. the invariant -/

theorem free_form {o : Option Nat} {W : Nat → Prop} (h : o = none → (∀ f, ¬ W f) → False) :
    o ≠ none ∨ ∃ f, W f := by
  by_cases ho : o = none
  · right; apply Classical.byContradiction; intro hn; exact h ho (fun f hf => hn ⟨f, hf⟩)
  · left; exact ho

structure Inv (s : St) : Prop where
  /-- whoever is between acquire and release is the ghost owner -/
  hold_owner : ∀ f, (s.pc f).k.isHold → s.owner = some f
  /-- the ghost owner is between acquire and release, or was handed the mutex while parked -/
  owner_hold : ∀ f, s.owner = some f → (s.pc f).k.isHold ∨ (s.pc f).k = .parked
  /-- before its pop takes effect a waker sees a free mutex -/
  wake_free : ∀ f, (s.pc f).k.isWake → s.owner = none ∧ s.waking = false
  /-- single consumer of the waiter queue -/
  pop_one : ∀ f g, (s.pc f).k.isPop → (s.pc g).k.isPop → f = g
  post_waking : ∀ f, (s.pc f).k = .post → s.waking = true
  waking_owner : s.waking = true → ∃ g, s.owner = some g ∧ (s.pc g).k = .parked
  hd_le : s.hd ≤ s.order.length
  lnk_bound : ∀ i, s.order.length ≤ i → s.linked i = false
  q_xchgd : ∀ f m i, (s.pc f).k = .xchgd m i →
    s.order[i]? = some (m, f) ∧ s.hd ≤ i ∧ s.linked i = false
  q_parked : ∀ f, (s.pc f).k = .parked → s.owner ≠ some f →
    ∃ i n, s.hd ≤ i ∧ s.order[i]? = some (n, f) ∧ s.linked i = true
  q_ent : ∀ i n f, s.hd ≤ i → s.order[i]? = some (n, f) →
    (s.pc f).k = .xchgd n i ∨ ((s.pc f).k = .parked ∧ s.linked i = true ∧ s.owner ≠ some f)
  /-- a fiber waits at most once among the entries not yet popped -/
  q_dist : ∀ i j n n' f, s.hd ≤ i → s.hd ≤ j → s.order[i]? = some (n, f) →
    s.order[j]? = some (n', f) → i = j
  w_next : ∀ f, (s.pc f).k = .wNext → s.hd < s.order.length ∧ s.linked s.hd = true
  /-- the counting identity -/
  cnt : ∃ n, Card (Ann s) n ∧ s.counter = 1 - (if s.owner = none then 0 else 1) - (n : Int)
  /-- a waker in its loop has somebody to find -/
  wake_ann : ∀ f, (s.pc f).k.isWake → ∃ g, Ann s g
  /-- no stranded waiter -/
  free : ∀ g, Ann s g → s.owner ≠ none ∨ ∃ f, (s.pc f).k.isWake
  cs_held : ∀ f, f ∈ s.inCs → (s.pc f).k = .held
  cs_nodup : s.inCs.Nodup
  cs_seen : ∀ f, f ∈ s.inCs → s.seen f = s.data

theorem inv_init (stub : Nat) (nodeOf : Nat → Nat) : Inv (init stub nodeOf) := by
  constructor <;> simp [init, Pc.k, K.isHold, K.isWake, K.isPop, Ann, annK]
  exact ⟨0, Card.zero_iff.2 (by simp [Ann, annK, Pc.k]), by simp⟩

/-! ### 4. preservation, one lemma per event constructor -/

/-- steps that stay inside one pc class and touch none of the fields the invariant reads -/
theorem Inv.frame {s s' : St} (hi : Inv s)
    (hk : ∀ f, (s'.pc f).k = (s.pc f).k) (h1 : s'.owner = s.owner) (h2 : s'.waking = s.waking)
    (h3 : s'.hd = s.hd) (h4 : s'.order = s.order) (h5 : s'.linked = s.linked)
    (h6 : s'.counter = s.counter) (h7 : s'.inCs = s.inCs) (h8 : s'.seen = s.seen)
    (h9 : s'.data = s.data) : Inv s' := by
  have hann : Ann s' = Ann s := by
    funext f; simp only [Ann, hk, h1]
  constructor <;> simp only [hk, h1, h2, h3, h4, h5, h6, h7, h8, h9, hann]
  · exact hi.hold_owner
  · exact hi.owner_hold
  · exact hi.wake_free
  · exact hi.pop_one
  · exact hi.post_waking
  · exact hi.waking_owner
  · exact hi.hd_le
  · exact hi.lnk_bound
  · exact hi.q_xchgd
  · exact hi.q_parked
  · exact hi.q_ent
  · exact hi.q_dist
  · exact hi.w_next
  · exact hi.cnt
  · exact hi.wake_ann
  · exact hi.free
  · exact hi.cs_held
  · exact hi.cs_nodup
  · exact hi.cs_seen

theorem k_upd (pc : Nat → Pc) (f0 : Nat) (p : Pc) (f : Nat) :
    (upd pc f0 p f).k = if f = f0 then p.k else (pc f).k := by
  simp only [upd]; split <;> rfl

theorem k_upd_same {pc : Nat → Pc} {f0 : Nat} {p : Pc} (h : p.k = (pc f0).k) (f : Nat) :
    (upd pc f0 p f).k = (pc f).k := by
  rw [k_upd]; split
  · next h' => rw [h', h]
  · rfl

/-- a step that only moves `f0` inside its pc class -/
theorem Inv.move {s : St} (hi : Inv s) {f0 : Nat} {p : Pc} (h : p.k = (s.pc f0).k) :
    Inv { s with pc := upd s.pc f0 p } :=
  hi.frame (k_upd_same h) rfl rfl rfl rfl rfl rfl rfl rfl rfl

/-- consequences of the counting identity -/
theorem Inv.counter_le {s : St} (hi : Inv s) : s.counter ≤ 1 := by
  obtain ⟨n, -, h⟩ := hi.cnt
  split at h <;> omega

theorem Inv.free_of_one {s : St} (hi : Inv s) (h1 : s.counter = 1) :
    s.owner = none ∧ ∀ g, ¬ Ann s g := by
  obtain ⟨n, hc, h⟩ := hi.cnt
  split at h
  · next ho =>
    have : n = 0 := by omega
    subst this
    exact ⟨ho, Card.zero_iff.1 hc⟩
  · omega

theorem annK_some_ne {f g : Nat} (h : g ≠ f) (k : K) : annK (some f) g k = annK none g k := by
  cases k <;> simp [annK]; omega

local macro "mx_close" : tactic =>
  `(tactic| (intros; (simp only [k_upd, K.isHold, K.isWake, K.isPop] at *) <;> grind))

/-- uncontended acquire: `fetch_sub` that saw 1, or successful trylock CAS -/
theorem Inv.acquire {s : St} (hi : Inv s) {f : Nat} {p : Pc} (hp : p.k = .hold)
    (hpc : (s.pc f).k = .other) (h1 : s.counter = 1) :
    Inv { s with counter := s.counter - 1, owner := some f, pc := upd s.pc f p } := by
  obtain ⟨hown, hfree⟩ := hi.free_of_one h1
  have hann : ∀ g, ¬ Ann { s with counter := s.counter - 1, owner := some f, pc := upd s.pc f p } g := by
    intro g
    have := hfree g
    simp only [Ann, k_upd] at this ⊢
    split
    · simp [hp, annK]
    · next hg => rw [annK_some_ne hg, ← hown]; exact this
  obtain ⟨a1, a2, a3, a4, a5, a6, a7, a8, a9, a10, a11, a11', a12, a13, a14, a15, a16, a17, a18⟩ := hi
  constructor
  · mx_close
  · mx_close
  · mx_close
  · mx_close
  · mx_close
  · mx_close
  · mx_close
  · mx_close
  · mx_close
  · mx_close
  · mx_close
  · mx_close
  · mx_close
  · exact ⟨0, Card.zero_iff.2 hann, by simp [h1]⟩
  · intro g hg
    simp only [k_upd] at hg
    split at hg
    · simp [hp, K.isWake] at hg
    · obtain ⟨x, hx⟩ := a14 g hg; exact absurd hx (hfree x)
  · intro g hg; exact absurd hg (hann g)
  · mx_close
  · mx_close
  · mx_close

/-- contended `fetch_sub`: the locker announces itself -/
theorem Inv.announce {s : St} (hi : Inv s) {f : Nat} {p : Pc} (hp : p.k = .pre)
    (hpc : (s.pc f).k = .other) (h1 : s.counter ≠ 1) :
    Inv { s with counter := s.counter - 1, pc := upd s.pc f p } := by
  have hnf : ¬ Ann s f := by simp [Ann, hpc, annK]
  have hann : ∀ g, Ann { s with counter := s.counter - 1, pc := upd s.pc f p } g ↔ (g = f ∨ Ann s g) := by
    intro g
    simp only [Ann, k_upd]
    split
    · next hg => simp [hp, annK, hg]
    · next hg => simp [hg]
  obtain ⟨n, hc, hn⟩ := hi.cnt
  obtain ⟨a1, a2, a3, a4, a5, a6, a7, a8, a9, a10, a11, a11', a12, a13, a14, a15, a16, a17, a18⟩ := hi
  constructor
  · mx_close
  · mx_close
  · mx_close
  · mx_close
  · mx_close
  · mx_close
  · mx_close
  · mx_close
  · mx_close
  · mx_close
  · mx_close
  · mx_close
  · mx_close
  · refine ⟨n + 1, hc.insert f hnf hann, ?_⟩
    simp only []; split at hn <;> simp_all <;> omega
  · intro g hg
    exact ⟨f, (hann f).2 (Or.inl rfl)⟩
  · intro g _
    apply free_form; intro ho hw
    have hw' : ∀ g, ¬ (s.pc g).k.isWake := by
      intro g; have := hw g; simp only [k_upd] at this; split at this
      · next hg => subst hg; simp [hpc, K.isWake]
      · exact this
    have h0 : n = 0 := by
      cases n with
      | zero => rfl
      | succ m =>
        obtain ⟨x, hx⟩ := hc.pos (Nat.succ_pos m)
        exact (a15 x hx).elim (fun h => absurd ho h) (fun ⟨f', hf'⟩ => absurd hf' (hw' f'))
    simp only [] at ho
    subst h0; simp [ho] at hn; exact h1 hn
  · mx_close
  · mx_close
  · mx_close

theorem getElem?_snoc_of_some {α : Type} {l : List α} {i : Nat} {a : α} (x : α)
    (h : l[i]? = some a) : (l ++ [x])[i]? = some a := by
  have hi : i < l.length := by
    apply Classical.byContradiction; intro hn
    rw [List.getElem?_eq_none (by omega)] at h; cases h
  rw [List.getElem?_append_left hi]; exact h

theorem getElem?_snoc_cases {α : Type} {l : List α} {i : Nat} {a x : α}
    (h : (l ++ [x])[i]? = some a) : l[i]? = some a ∨ (i = l.length ∧ a = x) := by
  rw [List.getElem?_append] at h
  split at h
  · exact Or.inl h
  · next hn =>
    right
    have : i - l.length = 0 := by
      apply Classical.byContradiction; intro h0
      rw [List.getElem?_eq_none (by simp; omega)] at h; cases h
    rw [this] at h; simp at h
    exact ⟨by omega, h.symm⟩

/-- `xchg(&tail)`: the waiter's entry is appended to the ghost order -/
theorem Inv.enqueue {s : St} (hi : Inv s) {f m : Nat} {p : Pc} (hp : p.k = .xchgd m s.order.length)
    (hpc : (s.pc f).k = .pre) :
    Inv { s with order := s.order ++ [(m, f)], pc := upd s.pc f p } := by
  have hann : Ann { s with order := s.order ++ [(m, f)], pc := upd s.pc f p } = Ann s := by
    funext g
    simp only [Ann, k_upd]
    split
    · next hg => subst hg; simp [hp, hpc, annK]
    · rfl
  obtain ⟨a1, a2, a3, a4, a5, a6, a7, a8, a9, a10, a11, a11', a12, a13, a14, a15, a16, a17, a18⟩ := hi
  constructor
  · mx_close
  · mx_close
  · mx_close
  · mx_close
  · mx_close
  · mx_close
  · simp only [List.length_append, List.length_singleton]; omega
  · simp only [List.length_append, List.length_singleton]; intro i hi; exact a8 i (by omega)
  · intro g m' i hg
    simp only [k_upd] at hg
    split at hg
    · next hgf =>
      subst hgf; rw [hp] at hg; cases hg
      exact ⟨by simp, a7, a8 _ (Nat.le_refl _)⟩
    · obtain ⟨h1, h2, h3⟩ := a9 g m' i hg
      exact ⟨getElem?_snoc_of_some _ h1, h2, h3⟩
  · intro g hg ho
    simp only [k_upd] at hg
    split at hg
    · rw [hp] at hg; cases hg
    · obtain ⟨i, n, h1, h2, h3⟩ := a10 g hg ho
      exact ⟨i, n, h1, getElem?_snoc_of_some _ h2, h3⟩
  · intro i n g hi hg
    simp only [k_upd]
    rcases getElem?_snoc_cases hg with h | ⟨h1, h2⟩
    · have := a11 i n g hi h
      split
      · next hgf => subst hgf; rw [hpc] at this; simp at this
      · exact this
    · cases h2; subst h1; simp [hp]
  · intro i j n n' g hi hj h1 h2
    have key : ∀ i n, s.hd ≤ i → s.order[i]? = some (n, g) → g ≠ f := by
      intro i0 n0 hi0 h0 hgf; rw [hgf] at h0
      have := a11 i0 n0 f hi0 h0; rw [hpc] at this; simp at this
    rcases getElem?_snoc_cases h1 with h1 | ⟨h1, e1⟩ <;>
      rcases getElem?_snoc_cases h2 with h2 | ⟨h2, e2⟩
    · exact a11' i j n n' g hi hj h1 h2
    · cases e2; exact absurd rfl (key i n hi h1)
    · cases e1; exact absurd rfl (key j n' hj h2)
    · omega
  · intro g hg
    simp only [k_upd] at hg
    split at hg
    · rw [hp] at hg; cases hg
    · have := a12 g hg
      simp only [List.length_append, List.length_singleton]; exact ⟨by omega, this.2⟩
  · rw [hann]; exact a13
  · rw [hann]; mx_close
  · rw [hann]; mx_close
  · mx_close
  · mx_close
  · mx_close

/-- `prev->next = node`: the entry becomes visible to the consumer, the waiter parks -/
theorem Inv.link {s : St} (hi : Inv s) {f m i : Nat} {p : Pc} (hp : p.k = .parked)
    (hpc : (s.pc f).k = .xchgd m i) :
    Inv { s with linked := upd s.linked i true, pc := upd s.pc f p } := by
  have hno : s.owner ≠ some f := by
    intro h; have := hi.owner_hold f h; simp [hpc, K.isHold] at this
  have hann : Ann { s with linked := upd s.linked i true, pc := upd s.pc f p } = Ann s := by
    funext g
    simp only [Ann, k_upd]
    split
    · next hg => subst hg; simp [hp, hpc, annK, hno]
    · rfl
  obtain ⟨a1, a2, a3, a4, a5, a6, a7, a8, a9, a10, a11, a11', a12, a13, a14, a15, a16, a17, a18⟩ := hi
  constructor
  · mx_close
  · mx_close
  · mx_close
  · mx_close
  · mx_close
  · mx_close
  · mx_close
  · intros; simp only [k_upd, upd] at *; grind
  · intros; simp only [k_upd, upd] at *; grind
  · intros; simp only [k_upd, upd] at *; grind
  · intros; simp only [k_upd, upd] at *; grind
  · intros; simp only [upd] at *; grind
  · intros; simp only [k_upd, upd] at *; grind
  · rw [hann]; exact a13
  · rw [hann]; mx_close
  · rw [hann]; mx_close
  · mx_close
  · mx_close
  · mx_close

/-- a handed-off waiter resumes and returns from `lock` -/
theorem Inv.resume {s : St} (hi : Inv s) {f : Nat} {p : Pc} (hp : p.k = .held)
    (hpc : (s.pc f).k = .parked) (ho : s.owner = some f) (hw : s.waking = false) :
    Inv { s with pc := upd s.pc f p } := by
  have hann : Ann { s with pc := upd s.pc f p } = Ann s := by
    funext g
    simp only [Ann, k_upd]
    split
    · next hg => subst hg; simp [hp, hpc, annK, ho]
    · rfl
  obtain ⟨a1, a2, a3, a4, a5, a6, a7, a8, a9, a10, a11, a11', a12, a13, a14, a15, a16, a17, a18⟩ := hi
  constructor
  · mx_close
  · mx_close
  · mx_close
  · mx_close
  · mx_close
  · mx_close
  · mx_close
  · mx_close
  · mx_close
  · mx_close
  · mx_close
  · mx_close
  · mx_close
  · rw [hann]; exact a13
  · rw [hann]; mx_close
  · rw [hann]; mx_close
  · mx_close
  · mx_close
  · mx_close

/-- moves between `hold` and `held` (return from lock/trylock, call of unlock) -/
theorem Inv.holdMove {s : St} (hi : Inv s) {f : Nat} {p : Pc} (hp : p.k = .hold ∨ p.k = .held)
    (hpc : (s.pc f).k = .hold ∨ (s.pc f).k = .held) (hcs : f ∈ s.inCs → p.k = .held) :
    Inv { s with pc := upd s.pc f p } := by
  have hann : Ann { s with pc := upd s.pc f p } = Ann s := by
    funext g
    simp only [Ann, k_upd]
    split
    · next hg =>
      subst hg
      have h1 : ∀ k : K, (k = .hold ∨ k = .held) → annK s.owner g k = false := by
        intro k hk; rcases hk with hk | hk <;> subst hk <;> simp [annK]
      rw [h1 _ hp, h1 _ hpc]
    · rfl
  obtain ⟨a1, a2, a3, a4, a5, a6, a7, a8, a9, a10, a11, a11', a12, a13, a14, a15, a16, a17, a18⟩ := hi
  constructor
  · mx_close
  · mx_close
  · mx_close
  · mx_close
  · mx_close
  · mx_close
  · mx_close
  · mx_close
  · mx_close
  · mx_close
  · mx_close
  · mx_close
  · mx_close
  · rw [hann]; exact a13
  · rw [hann]; mx_close
  · rw [hann]; mx_close
  · mx_close
  · mx_close
  · mx_close

/-- the release `fetch_add`: `p` is `unlockDone` (nobody announced) or `wakeLoop` -/
theorem Inv.release {s : St} (hi : Inv s) {f : Nat} {p : Pc} (hpc : (s.pc f).k = .hold)
    (hp : if s.counter + 1 = 1 then p.k = .other else p.k = .w) :
    Inv { s with counter := s.counter + 1, owner := none, pc := upd s.pc f p } := by
  have ho : s.owner = some f := hi.hold_owner f (by simp [hpc, K.isHold])
  have hp' : p.k = .other ∨ p.k = .w := by split at hp <;> simp [hp]
  have hann : Ann { s with counter := s.counter + 1, owner := none, pc := upd s.pc f p } = Ann s := by
    funext g
    simp only [Ann, k_upd]
    split
    · next hg =>
      subst hg
      rcases hp' with h | h <;> simp [h, hpc, annK]
    · next hg => rw [ho, annK_some_ne hg]
  obtain ⟨n, hc, hn⟩ := hi.cnt
  rw [ho] at hn; simp at hn
  have hw : s.waking = false := by
    cases h : s.waking with
    | false => rfl
    | true =>
      obtain ⟨g, h1, h2⟩ := hi.waking_owner h
      rw [ho] at h1; cases h1; rw [hpc] at h2; cases h2
  have hnw : ∀ g, ¬ (s.pc g).k.isWake := by
    intro g h
    have := (hi.wake_free g h).1; rw [ho] at this; cases this
  obtain ⟨a1, a2, a3, a4, a5, a6, a7, a8, a9, a10, a11, a11', a12, a13, a14, a15, a16, a17, a18⟩ := hi
  constructor
  · mx_close
  · mx_close
  · mx_close
  · mx_close
  · mx_close
  · mx_close
  · mx_close
  · mx_close
  · mx_close
  · intro g hg _
    simp only [k_upd] at hg; split at hg
    · rcases hp' with h | h <;> rw [h] at hg <;> cases hg
    · next hgf => exact a10 g hg (by rw [ho]; intro h; cases h; exact hgf rfl)
  · mx_close
  · mx_close
  · mx_close
  · rw [hann]; exact ⟨n, hc, by simp only []; simp; omega⟩
  · rw [hann]
    intro g hg
    simp only [k_upd] at hg
    split at hg
    · split at hp
      · rw [hp] at hg; simp [K.isWake] at hg
      · exact hc.pos (by omega)
    · exact absurd hg (hnw g)
  · rw [hann]
    intro g hg
    split at hp
    · have : n = 0 := by omega
      subst this; exact absurd hg (Card.zero_iff.1 hc g)
    · right; exact ⟨f, by simp [k_upd, hp, K.isWake]⟩
  · mx_close
  · mx_close
  · mx_close

/-- `trypop` saw a linked successor of the stub -/
theorem Inv.gotNext {s : St} (hi : Inv s) {f : Nat} {p : Pc} (hp : p.k = .wNext)
    (hpc : (s.pc f).k = .w) (hq : s.hd < s.order.length ∧ s.linked s.hd = true) :
    Inv { s with pc := upd s.pc f p } := by
  have hann : Ann { s with pc := upd s.pc f p } = Ann s := by
    funext g
    simp only [Ann, k_upd]
    split
    · next hg => subst hg; simp [hp, hpc, annK]
    · rfl
  obtain ⟨a1, a2, a3, a4, a5, a6, a7, a8, a9, a10, a11, a11', a12, a13, a14, a15, a16, a17, a18⟩ := hi
  constructor
  · mx_close
  · mx_close
  · mx_close
  · mx_close
  · mx_close
  · mx_close
  · mx_close
  · mx_close
  · mx_close
  · mx_close
  · mx_close
  · mx_close
  · mx_close
  · rw [hann]; exact a13
  · rw [hann]; mx_close
  · rw [hann]; mx_close
  · mx_close
  · mx_close
  · mx_close

/-- facts about the entry a waker is about to pop -/
theorem Inv.pop_target {s : St} (hi : Inv s) {f n g : Nat} (hpc : (s.pc f).k = .wNext)
    (hq : s.order[s.hd]? = some (n, g)) :
    s.owner = none ∧ s.waking = false ∧ (s.pc g).k = .parked ∧ Ann s g ∧ g ≠ f := by
  obtain ⟨ho, hw⟩ := hi.wake_free f (Or.inr hpc)
  have hl := (hi.w_next f hpc).2
  have hg : (s.pc g).k = .parked := by
    rcases hi.q_ent s.hd n g (Nat.le_refl _) hq with h | h
    · have := (hi.q_xchgd g n s.hd h).2.2; rw [hl] at this; cases this
    · exact h.1
  refine ⟨ho, hw, hg, by simp [Ann, hg, annK, ho], ?_⟩
  intro h; subst h; rw [hpc] at hg; cases hg

/-- `head := next`: the pop takes effect, the oldest waiter becomes the owner -/
theorem Inv.pop {s : St} (hi : Inv s) {f n g x : Nat} {p : Pc} (hp : p.k = .post)
    (hpc : (s.pc f).k = .wNext) (hq : s.order[s.hd]? = some (n, g)) :
    Inv { s with headNode := x, hd := s.hd + 1, owner := some g, waking := true,
                 pc := upd s.pc f p } := by
  obtain ⟨ho, hw, hg, hag, hgf⟩ := hi.pop_target hpc hq
  have hann : ∀ y,
      Ann { s with headNode := x, hd := s.hd + 1, owner := some g, waking := true,
                   pc := upd s.pc f p } y ↔ (y ≠ g ∧ Ann s y) := by
    intro y
    simp only [Ann, k_upd]
    split
    · next hy => subst hy; simp [hp, hpc, annK]
    · next hy =>
      by_cases hyg : y = g
      · subst hyg; simp [hg, annK]
      · rw [annK_some_ne hyg, ← ho]; simp [hyg]
  obtain ⟨c, hc, hn⟩ := hi.cnt
  rw [ho] at hn; simp at hn
  obtain ⟨hc1, hc'⟩ := hc.erase g hag hann
  have hlen := (hi.w_next f hpc).1
  obtain ⟨a1, a2, a3, a4, a5, a6, a7, a8, a9, a10, a11, a11', a12, a13, a14, a15, a16, a17, a18⟩ := hi
  constructor
  · mx_close
  · mx_close
  · mx_close
  · mx_close
  · mx_close
  · mx_close
  · mx_close
  · mx_close
  · mx_close
  · mx_close
  · mx_close
  · mx_close
  · mx_close
  · exact ⟨c - 1, hc', by simp only []; simp; omega⟩
  · mx_close
  · intro y _; left; simp
  · mx_close
  · mx_close
  · mx_close

/-- the waker's last access to the woken fiber: it will now call `fiber_manager_schedule` -/
theorem Inv.wakeDone {s : St} (hi : Inv s) {f : Nat} {p : Pc} (hp : p.k = .other)
    (hpc : (s.pc f).k = .post) :
    Inv { s with waking := false, pc := upd s.pc f p } := by
  have hann : Ann { s with waking := false, pc := upd s.pc f p } = Ann s := by
    funext g
    simp only [Ann, k_upd]
    split
    · next hg => subst hg; simp [hp, hpc, annK]
    · rfl
  obtain ⟨a1, a2, a3, a4, a5, a6, a7, a8, a9, a10, a11, a11', a12, a13, a14, a15, a16, a17, a18⟩ := hi
  constructor
  · mx_close
  · mx_close
  · mx_close
  · mx_close
  · mx_close
  · mx_close
  · mx_close
  · mx_close
  · mx_close
  · mx_close
  · mx_close
  · mx_close
  · mx_close
  · rw [hann]; exact a13
  · rw [hann]; mx_close
  · rw [hann]; mx_close
  · mx_close
  · mx_close
  · mx_close

/-- harness notes `cs enter` / `cs exit` -/
theorem Inv.csFrame {s : St} (hi : Inv s) {l : List Nat} {sn : Nat → Nat} {d : Nat}
    (h1 : ∀ f, f ∈ l → (s.pc f).k = .held) (h2 : l.Nodup) (h3 : ∀ f, f ∈ l → sn f = d) :
    Inv { s with inCs := l, seen := sn, data := d } :=
  { hi with cs_held := h1, cs_nodup := h2, cs_seen := h3 }

/-- a step inside one pc class that may also touch `ndata` / `fnode` -/
local macro "mx_frame" h:term : tactic =>
  `(tactic| exact Inv.frame ‹Inv _› (k_upd_same (by rw [$h:term]; rfl)) rfl rfl rfl rfl rfl rfl rfl rfl rfl)

theorem headNext_ne_zero {s : St} (h : headNext s ≠ 0) :
    s.hd < s.order.length ∧ s.linked s.hd = true := by
  unfold headNext at h
  split at h
  · next n g heq =>
    have hlt : s.hd < s.order.length := by
      apply Classical.byContradiction; intro hn
      rw [List.getElem?_eq_none (by omega)] at heq; cases heq
    refine ⟨hlt, ?_⟩
    cases hl : s.linked s.hd with
    | true => rfl
    | false => simp [hl] at h
  · simp at h

theorem inv_step_lock {s s' : St} (hi : Inv s) :
    ∀ e, (∃ f, e = Ev.callLock f) ∨ (∃ f o, e = Ev.fsub f o) ∨ (∃ f, e = Ev.retLock f) ∨
      (∃ f a b, e = Ev.xchgTail f a b) ∨ (∃ f a b, e = Ev.wNext f a b) ∨ (∃ f a b, e = Ev.rNode f a b) →
    step s e = some s' → Inv s' := by
  intro e he hs
  rcases he with ⟨f, rfl⟩ | ⟨f, old, rfl⟩ | ⟨f, rfl⟩ | ⟨f, a, b, rfl⟩ | ⟨f, a, b, rfl⟩ | ⟨f, a, b, rfl⟩
  · simp only [step] at hs
    split at hs <;> simp at hs
    next h => subst hs; mx_frame h
  · simp only [step] at hs
    split at hs <;> simp at hs
    next h =>
    obtain ⟨rfl, hs⟩ := hs
    split at hs <;> simp at hs <;> subst hs
    · next h1 => exact hi.acquire (p := .acquired) rfl (by rw [h]; rfl) h1
    · next h1 => exact hi.announce (p := .lockDec s.counter) rfl (by rw [h]; rfl) h1
  · simp only [step] at hs
    split at hs <;> simp at hs
    · next h => subst hs; exact hi.holdMove (p := .held) (Or.inr rfl) (Or.inl (by rw [h]; rfl)) (fun _ => rfl)
    · next h =>
      obtain ⟨⟨ho, hw⟩, hs⟩ := hs
      subst hs; exact hi.resume (p := .held) rfl (by rw [h]; rfl) ho hw
  · simp only [step] at hs
    split at hs <;> simp at hs
    next m h =>
    obtain ⟨⟨rfl, rfl⟩, hs⟩ := hs
    subst hs; exact hi.enqueue (p := .pushXchgd b (tailNode s) s.order.length) rfl (by rw [h]; rfl)
  · simp only [step] at hs
    split at hs <;> simp at hs
    · next m h => obtain ⟨_, hs⟩ := hs; subst hs; mx_frame h
    · next m q i h =>
      obtain ⟨_, hs⟩ := hs; subst hs
      exact hi.link (p := .parked) (m := m) rfl (by rw [h]; rfl)
  · simp only [step] at hs
    split at hs <;> simp at hs
    next h => obtain ⟨_, hs⟩ := hs; subst hs; mx_frame h

theorem inv_step_try {s s' : St} (hi : Inv s) :
    ∀ e, (∃ f, e = Ev.callTry f) ∨ (∃ f o b, e = Ev.casCounter f o b) ∨ (∃ f r, e = Ev.retTry f r) ∨
      (∃ f, e = Ev.csEnter f) ∨ (∃ f v, e = Ev.csExit f v) ∨ (∃ f, e = Ev.callUnlock f) →
    step s e = some s' → Inv s' := by
  intro e he hs
  rcases he with ⟨f, rfl⟩ | ⟨f, found, ok, rfl⟩ | ⟨f, r, rfl⟩ | ⟨f, rfl⟩ | ⟨f, v, rfl⟩ | ⟨f, rfl⟩
  · simp only [step] at hs
    split at hs <;> simp at hs
    next h => subst hs; mx_frame h
  · simp only [step] at hs
    split at hs <;> simp at hs
    next h =>
    obtain ⟨⟨rfl, rfl⟩, hs⟩ := hs
    split at hs <;> simp at hs <;> subst hs
    · next h1 =>
      have h1' : s.counter = 1 := by simpa using h1
      have := hi.acquire (p := .tryDone true) rfl (by rw [h]; rfl) h1'
      rw [h1'] at this; exact this
    · mx_frame h
  · simp only [step] at hs
    split at hs <;> simp at hs
    next r' h =>
    obtain ⟨rfl, hs⟩ := hs
    subst hs
    cases r with
    | true => exact hi.holdMove (p := .held) (Or.inr rfl) (Or.inl (by rw [h]; rfl)) (fun _ => rfl)
    | false => mx_frame h
  · simp only [step] at hs
    split at hs <;> simp at hs
    next h =>
    subst hs
    have hk : (s.pc f).k = .held := by rw [h.1]; rfl
    have hof := hi.hold_owner f (Or.inr hk)
    have hemp : ∀ g, g ∈ s.inCs → g = f := by
      intro g hg
      have := hi.hold_owner g (Or.inr (hi.cs_held g hg))
      rw [hof] at this; cases this; rfl
    apply hi.csFrame
    · intro g hg; simp at hg; rcases hg with rfl | hg
      · exact hk
      · exact hi.cs_held g hg
    · rw [List.nodup_cons]; exact ⟨h.2, hi.cs_nodup⟩
    · intro g hg; simp at hg; rcases hg with rfl | hg
      · simp
      · exact absurd (hemp g hg ▸ hg) h.2
  · simp only [step] at hs
    split at hs <;> simp at hs
    next h =>
    subst hs
    have hk : (s.pc f).k = .held := by rw [h.1]; rfl
    have hof := hi.hold_owner f (Or.inr hk)
    have hemp : ∀ g, g ∈ s.inCs → g = f := by
      intro g hg
      have := hi.hold_owner g (Or.inr (hi.cs_held g hg))
      rw [hof] at this; cases this; rfl
    apply hi.csFrame
    · intro g hg; simp at hg; exact hi.cs_held g hg.1
    · exact hi.cs_nodup.sublist List.filter_sublist
    · intro g hg; simp at hg; exact absurd (hemp g hg.1) hg.2
  · simp only [step] at hs
    split at hs <;> simp at hs
    next h =>
    subst hs
    exact hi.holdMove (p := .unlockCalled) (Or.inl rfl) (Or.inr (by rw [h.1]; rfl)) (fun hc => absurd hc h.2.2)

theorem inv_step_unlock {s s' : St} (hi : Inv s) :
    ∀ e, (∃ f o, e = Ev.fadd f o) ∨ (∃ f n, e = Ev.rHead f n) ∨ (∃ f n x, e = Ev.rNext f n x) ∨
      (∃ f n, e = Ev.wHead f n) ∨ (∃ f, e = Ev.retUnlock f) →
    step s e = some s' → Inv s' := by
  intro e he hs
  rcases he with ⟨f, old, rfl⟩ | ⟨f, n, rfl⟩ | ⟨f, n, x, rfl⟩ | ⟨f, n, rfl⟩ | ⟨f, rfl⟩
  · simp only [step] at hs
    split at hs <;> simp at hs
    next h =>
    obtain ⟨rfl, hs⟩ := hs
    split at hs <;> simp at hs <;> subst hs
    · next h1 => exact hi.release (p := .unlockDone) (by rw [h]; rfl) (by rw [if_pos (by omega)]; rfl)
    · next h1 => exact hi.release (p := .wakeLoop) (by rw [h]; rfl) (by rw [if_neg (by omega)]; rfl)
  · simp only [step] at hs
    split at hs <;> simp at hs
    next h => obtain ⟨_, hs⟩ := hs; subst hs; mx_frame h
  · simp only [step] at hs
    split at hs <;> simp at hs
    next hh h =>
    obtain ⟨⟨rfl, rfl⟩, hs⟩ := hs
    split at hs <;> simp at hs <;> subst hs
    · mx_frame h
    · next hx => exact hi.gotNext (p := .popGotNext n (headNext s)) rfl (by rw [h]; rfl) (headNext_ne_zero hx)
  · simp only [step] at hs
    split at hs <;> simp at hs
    next hh x h =>
    obtain ⟨rfl, hs⟩ := hs
    split at hs <;> simp at hs
    next m g heq =>
    subst hs
    exact hi.pop (p := .popMoved hh n) rfl (by rw [h]; rfl) heq
  · simp only [step] at hs
    split at hs <;> simp at hs
    next h => subst hs; mx_frame h

theorem inv_step_wake {s s' : St} (hi : Inv s) :
    ∀ e, (∃ f g v, e = Ev.wState f g v) ∨ (∃ f g v, e = Ev.rState f g v) ∨ (∃ f g n, e = Ev.wNode f g n) ∨
      (∃ f n g, e = Ev.wData f n g) ∨ (∃ f n g, e = Ev.rData f n g) →
    step s e = some s' → Inv s' := by
  intro e he hs
  rcases he with ⟨f, g, v, rfl⟩ | ⟨f, g, v, rfl⟩ | ⟨f, g, n, rfl⟩ | ⟨f, n, g, rfl⟩ | ⟨f, n, g, rfl⟩
  · simp only [step] at hs
    split at hs <;> simp at hs
    · next h => obtain ⟨_, hs⟩ := hs; subst hs; mx_frame h
    · next h =>
      obtain ⟨_, hs⟩ := hs; subst hs
      exact hi.wakeDone (p := .unlockDone) rfl (by rw [h]; rfl)
  · simp only [step] at hs
    split at hs <;> simp at hs
    next h =>
    obtain ⟨_, hs⟩ := hs
    split at hs <;> simp at hs <;> subst hs
    · mx_frame h
    · exact hi.wakeDone (p := .unlockDone) rfl (by rw [h]; rfl)
  · simp only [step] at hs
    split at hs <;> simp at hs
    · next h => obtain ⟨_, hs⟩ := hs; subst hs; mx_frame h
    · next h => obtain ⟨_, hs⟩ := hs; subst hs; mx_frame h
  · simp only [step] at hs
    split at hs <;> simp at hs
    · next h => obtain ⟨_, hs⟩ := hs; subst hs; mx_frame h
    · next h => obtain ⟨_, hs⟩ := hs; subst hs; mx_frame h
  · simp only [step] at hs
    split at hs <;> simp at hs
    · next h => obtain ⟨_, hs⟩ := hs; subst hs; mx_frame h
    · next h => obtain ⟨_, hs⟩ := hs; subst hs; mx_frame h

theorem inv_step {s s' : St} {e : Ev} (hi : Inv s) (hs : step s e = some s') : Inv s' := by
  cases e with
  | callLock f => exact inv_step_lock hi _ (Or.inl ⟨_, rfl⟩) hs
  | fsub f o => exact inv_step_lock hi _ (Or.inr (Or.inl ⟨_, _, rfl⟩)) hs
  | retLock f => exact inv_step_lock hi _ (Or.inr (Or.inr (Or.inl ⟨_, rfl⟩))) hs
  | xchgTail f a b => exact inv_step_lock hi _ (Or.inr (Or.inr (Or.inr (Or.inl ⟨_, _, _, rfl⟩)))) hs
  | wNext f a b => exact inv_step_lock hi _ (Or.inr (Or.inr (Or.inr (Or.inr (Or.inl ⟨_, _, _, rfl⟩))))) hs
  | rNode f a b => exact inv_step_lock hi _ (Or.inr (Or.inr (Or.inr (Or.inr (Or.inr ⟨_, _, _, rfl⟩))))) hs
  | callTry f => exact inv_step_try hi _ (Or.inl ⟨_, rfl⟩) hs
  | casCounter f o b => exact inv_step_try hi _ (Or.inr (Or.inl ⟨_, _, _, rfl⟩)) hs
  | retTry f r => exact inv_step_try hi _ (Or.inr (Or.inr (Or.inl ⟨_, _, rfl⟩))) hs
  | csEnter f => exact inv_step_try hi _ (Or.inr (Or.inr (Or.inr (Or.inl ⟨_, rfl⟩)))) hs
  | csExit f v => exact inv_step_try hi _ (Or.inr (Or.inr (Or.inr (Or.inr (Or.inl ⟨_, _, rfl⟩))))) hs
  | callUnlock f => exact inv_step_try hi _ (Or.inr (Or.inr (Or.inr (Or.inr (Or.inr ⟨_, rfl⟩))))) hs
  | fadd f o => exact inv_step_unlock hi _ (Or.inl ⟨_, _, rfl⟩) hs
  | rHead f n => exact inv_step_unlock hi _ (Or.inr (Or.inl ⟨_, _, rfl⟩)) hs
  | rNext f n x => exact inv_step_unlock hi _ (Or.inr (Or.inr (Or.inl ⟨_, _, _, rfl⟩))) hs
  | wHead f n => exact inv_step_unlock hi _ (Or.inr (Or.inr (Or.inr (Or.inl ⟨_, _, rfl⟩)))) hs
  | retUnlock f => exact inv_step_unlock hi _ (Or.inr (Or.inr (Or.inr (Or.inr ⟨_, rfl⟩)))) hs
  | wState f g v => exact inv_step_wake hi _ (Or.inl ⟨_, _, _, rfl⟩) hs
  | rState f g v => exact inv_step_wake hi _ (Or.inr (Or.inl ⟨_, _, _, rfl⟩)) hs
  | wNode f g n => exact inv_step_wake hi _ (Or.inr (Or.inr (Or.inl ⟨_, _, _, rfl⟩))) hs
  | wData f n g => exact inv_step_wake hi _ (Or.inr (Or.inr (Or.inr (Or.inl ⟨_, _, _, rfl⟩)))) hs
  | rData f n g => exact inv_step_wake hi _ (Or.inr (Or.inr (Or.inr (Or.inr ⟨_, _, _, rfl⟩)))) hs

theorem inv_of_run {stub : Nat} {nodeOf : Nat → Nat} {es : List Ev} {s : St}
    (h : (sys stub nodeOf).run es = some s) : Inv s :=
  Sys.inv_of_run (sys stub nodeOf) Inv (inv_init stub nodeOf) (fun _ _ _ hi hs => inv_step hi hs) h

/-! ### 5. control flow, linearisation points, history invariants -/

/-- the fiber performing an event -/
def actor : Ev → Nat
  | .callLock f | .retLock f | .callTry f | .retTry f _ | .callUnlock f | .retUnlock f
  | .csEnter f | .csExit f _ | .fsub f _ | .fadd f _ | .casCounter f _ _ | .wState f _ _
  | .rState f _ _ | .rNode f _ _ | .wNode f _ _ | .wData f _ _ | .rData f _ _ | .wNext f _ _
  | .xchgTail f _ _ | .rHead f _ | .rNext f _ _ | .wHead f _ => f

/-- normalise `hs : step s e = some s'` into an explicit record for `s'` (all branches) -/
local macro "step_cases" hs:ident : tactic =>
  `(tactic| (simp only [step] at $hs:ident <;> (repeat' split at $hs:ident) <;> simp at $hs:ident <;>
     (first | subst $hs:ident | (obtain ⟨_, $hs:ident⟩ := $hs:ident; subst $hs:ident))))

theorem step_pc_other {s s' : St} {e : Ev} (hs : step s e = some s') (g : Nat)
    (hg : g ≠ actor e) : s'.pc g = s.pc g := by
  cases e <;> step_cases hs <;> simp_all [upd, actor]

/-- control flow into / out of the wake loop: entered only by a `fetch_add` that saw waiters,
    left only by the pop (`head := next`) -/
theorem wake_flow {s s' : St} {e : Ev} (hs : step s e = some s') (w : Nat) :
    (s'.pc w).isWake = true ↔
      (((s.pc w).isWake = true ∧ ¬ ∃ x, e = .wHead w x) ∨ (∃ old, e = .fadd w old ∧ old + 1 ≠ 1)) := by
  by_cases hw : w = actor e
  · subst hw
    cases e <;> step_cases hs <;> simp_all [upd, actor, Pc.isWake]
  · rw [step_pc_other hs w hw]
    cases e <;> simp_all [actor] <;> (intros; omega)

/-- a fiber is past its pop only through `head := next` -/
theorem post_flow {s s' : St} {e : Ev} (hs : step s e = some s') (w : Nat)
    (h : (s'.pc w).isPost = true) : (s.pc w).isPost = true ∨ ∃ x, e = .wHead w x := by
  by_cases hw : w = actor e
  · subst hw
    cases e <;> step_cases hs <;> simp_all [upd, actor, Pc.isPost]
  · rw [step_pc_other hs w hw] at h; exact Or.inl h

/-- `unlockDone` (about to return from unlock) is reached from the uncontended `fetch_add` or
    from the end of a wake (after the pop) only -/
theorem unlockDone_flow {s s' : St} {e : Ev} (hs : step s e = some s') (w : Nat)
    (h : s'.pc w = .unlockDone) :
    s.pc w = .unlockDone ∨ (∃ old, e = .fadd w old ∧ old + 1 = 1) ∨ (s.pc w).isPost = true := by
  by_cases hw : w = actor e
  · subst hw
    cases e <;> step_cases hs <;> simp_all [upd, actor, Pc.isPost]
  · rw [step_pc_other hs w hw] at h; exact Or.inl h

def isContFadd (w : Nat) : Ev → Bool
  | .fadd f old => decide (f = w ∧ old + 1 ≠ 1)
  | _ => false

def isPopBy (w : Nat) : Ev → Bool
  | .wHead f _ => decide (f = w)
  | _ => false

def isPopEv : Ev → Bool
  | .wHead _ _ => true
  | _ => false

def isCsExit : Ev → Bool
  | .csExit _ _ => true
  | _ => false

theorem wake_flow_cnt {s s' : St} {e : Ev} (hs : step s e = some s') (w : Nat) :
    (if isContFadd w e then 1 else 0) + (if (s.pc w).isWake then 1 else 0) =
      (if isPopBy w e then 1 else 0) + (if (s'.pc w).isWake then 1 else 0) := by
  by_cases hw : w = actor e
  · subst hw
    cases e <;> step_cases hs <;> simp_all [upd, actor, Pc.isWake, isContFadd, isPopBy]
  · rw [step_pc_other hs w hw]
    have h1 : isContFadd w e = false := by
      cases e <;> simp_all [actor, isContFadd]; omega
    have h2 : isPopBy w e = false := by
      cases e <;> simp_all [actor, isPopBy]; omega
    simp [h1, h2]

theorem hd_flow {s s' : St} {e : Ev} (hs : step s e = some s') :
    s'.hd = s.hd + (if isPopEv e then 1 else 0) := by
  cases e <;> step_cases hs <;> simp [isPopEv]

/-! ### critical sections -/

/-- the critical section is empty or holds exactly the owner, which is in `held` -/
theorem Inv.inCs_cases {s : St} (hi : Inv s) :
    s.inCs = [] ∨ ∃ f, s.inCs = [f] ∧ s.owner = some f ∧ s.pc f = .held := by
  have hown : ∀ g, g ∈ s.inCs → s.owner = some g ∧ s.pc g = .held := fun g hg =>
    ⟨hi.hold_owner g (Or.inr (hi.cs_held g hg)), (k_held _).1 (hi.cs_held g hg)⟩
  have hnd := hi.cs_nodup
  cases hl : s.inCs with
  | nil => exact Or.inl rfl
  | cons a l =>
    right
    rw [hl] at hown hnd
    cases l with
    | nil => exact ⟨a, rfl, hown a (by simp)⟩
    | cons b l =>
      exfalso
      have h1 := (hown a (by simp)).1
      have h2 := (hown b (by simp)).1
      rw [h1] at h2; cases h2
      simp at hnd

/-- occupancy tracker on the `cs enter` / `cs exit` notes: strict alternation -/
def csTrack (l : List Nat) : Ev → Option (List Nat)
  | .csEnter f => if l = [] then some [f] else none
  | .csExit f _ => if l = [f] then some [] else none
  | _ => some l

theorem cs_flow {s s' : St} {e : Ev} (hi : Inv s) (hs : step s e = some s') :
    csTrack s.inCs e = some s'.inCs := by
  cases e
  case csEnter f =>
    simp only [step] at hs; split at hs <;> simp at hs; subst hs
    next h =>
    rcases hi.inCs_cases with h0 | ⟨g, h1, h2, h3⟩
    · simp [csTrack, h0]
    · exfalso
      have := hi.hold_owner f (Or.inr (by rw [h.1]; rfl))
      rw [h2] at this; cases this
      exact h.2 (by rw [h1]; simp)
  case csExit f v =>
    simp only [step] at hs; split at hs <;> simp at hs; subst hs
    next h =>
    rcases hi.inCs_cases with h0 | ⟨g, h1, h2, h3⟩
    · rw [h0] at h; simp at h
    · have : g = f := by have := h.2.1; rw [h1] at this; simp at this; exact this.symm
      subst this
      simp [csTrack, h1]
  all_goals (step_cases hs <;> simp [csTrack])

/-- each completed critical section increments the protected cell by exactly one -/
theorem data_flow {s s' : St} {e : Ev} (hi : Inv s) (hs : step s e = some s') :
    s'.data = s.data + (if isCsExit e then 1 else 0) := by
  cases e
  case csExit f v =>
    simp only [step] at hs; split at hs <;> simp at hs; subst hs
    next h => simp [isCsExit, h.2.2, hi.cs_seen f h.2.1]
  all_goals (step_cases hs <;> simp [isCsExit])

/-! ### the abstract atomic lock -/

inductive LockEv
  | acq (f : Nat)
  | rel (f : Nat)
  deriving Repr, DecidableEq

/-- specification: an atomic lock whose state is its owner -/
def lockStep : Option Nat → LockEv → Option (Option Nat)
  | none, .acq f => some (some f)
  | some g, .rel f => if g = f then some none else none
  | _, _ => none

def Lock : Sys (Option Nat) LockEv := { init := none, step := lockStep }

/-- linearisation points: uncontended `fetch_sub`, successful trylock CAS and the waker's
    `head := next` (on behalf of the popped waiter) acquire; the `fetch_add` releases -/
def absEv (s : St) : Ev → Option LockEv
  | .fsub f old => if old = 1 then some (.acq f) else none
  | .casCounter f _ ok => if ok then some (.acq f) else none
  | .wHead _ _ => match s.order[s.hd]? with
    | some (_, g) => some (.acq g)
    | none => none
  | .fadd f _ => some (.rel f)
  | _ => none

theorem owner_step {s s' : St} {e : Ev} (hi : Inv s) (hs : step s e = some s') :
    match absEv s e with
    | none => s'.owner = s.owner
    | some a => lockStep s.owner a = some s'.owner := by
  cases e
  case fsub f old =>
    simp only [step] at hs; split at hs <;> simp at hs
    obtain ⟨rfl, hs⟩ := hs
    split at hs <;> simp at hs <;> subst hs
    · next h1 => simp [absEv, h1, lockStep, (hi.free_of_one h1).1]
    · next h1 => simp [absEv, h1]
  case casCounter f found ok =>
    simp only [step] at hs; split at hs <;> simp at hs
    obtain ⟨⟨rfl, rfl⟩, hs⟩ := hs
    split at hs <;> simp at hs <;> subst hs
    · next h1 => simp at h1; simp [absEv, h1, lockStep, (hi.free_of_one h1).1]
    · next h1 => simp at h1; simp [absEv, h1]
  case wHead f n =>
    simp only [step] at hs; split at hs <;> simp at hs
    next hh x h =>
    obtain ⟨rfl, hs⟩ := hs
    split at hs <;> simp at hs
    next m g heq =>
    subst hs
    have := (hi.pop_target (f := f) (by rw [h]; rfl) heq).1
    simp [absEv, heq, lockStep, this]
  case fadd f old =>
    simp only [step] at hs; split at hs <;> simp at hs
    next h =>
    obtain ⟨rfl, hs⟩ := hs
    have ho := hi.hold_owner f (Or.inl (by rw [h]; rfl))
    split at hs <;> simp at hs <;> subst hs <;> simp [absEv, lockStep, ho]
  all_goals (step_cases hs <;> simp [absEv])

/-! ### history invariants -/

/-- `Sys.hist_inv_of_run` with the run itself available in the step case -/
theorem hist_run {stub : Nat} {nodeOf : Nat → Nat} (I : St → List Ev → Prop)
    (h0 : I (init stub nodeOf) [])
    (hstep : ∀ s es e s', (sys stub nodeOf).run es = some s → Inv s → I s es →
      step s e = some s' → I s' (es ++ [e]))
    {es : List Ev} {s : St} (h : (sys stub nodeOf).run es = some s) : I s es := by
  have := Sys.hist_inv_of_run (sys stub nodeOf)
    (fun s es => (sys stub nodeOf).run es = some s ∧ I s es) ⟨rfl, h0⟩
    (fun s es e s' hI hs => by
      refine ⟨?_, hstep s es e s' hI.1 (inv_of_run hI.1) hI.2 hs⟩
      have h1 := hI.1
      simp only [Sys.run] at h1 ⊢
      rw [Sys.runFrom_append, h1]
      simp only [Option.bind, Sys.runFrom]
      have : (sys stub nodeOf).step s e = some s' := hs
      rw [this]) h
  exact this.2

/-- every contended unlock of `w` is matched by exactly one pop by `w`, except the one that is
    in its wake loop right now -/
theorem handoff_count {stub : Nat} {nodeOf : Nat → Nat} {es : List Ev} {s : St}
    (h : (sys stub nodeOf).run es = some s) (w : Nat) :
    es.countP (isContFadd w) = es.countP (isPopBy w) + (if (s.pc w).isWake then 1 else 0) := by
  refine hist_run (fun s es => es.countP (isContFadd w) =
      es.countP (isPopBy w) + (if (s.pc w).isWake then 1 else 0)) ?_ ?_ h
  · simp [init, Pc.isWake]
  · intro s es e s' _ _ hI hs
    have := wake_flow_cnt hs w
    simp only [List.countP_append, List.countP_singleton]
    omega

/-- `hd` counts the pops, the protected cell counts the completed critical sections -/
theorem counts {stub : Nat} {nodeOf : Nat → Nat} {es : List Ev} {s : St}
    (h : (sys stub nodeOf).run es = some s) :
    s.hd = es.countP isPopEv ∧ s.data = es.countP isCsExit := by
  refine hist_run (fun s es => s.hd = es.countP isPopEv ∧ s.data = es.countP isCsExit) ?_ ?_ h
  · simp [init]
  · intro s es e s' _ hi hI hs
    have h1 := hd_flow hs
    have h2 := data_flow hi hs
    simp only [List.countP_append, List.countP_singleton]
    omega

/-- the `cs enter` / `cs exit` notes of an accepted trace strictly alternate, and `inCs` is
    the tracker's state -/
theorem cs_alternate {stub : Nat} {nodeOf : Nat → Nat} {es : List Ev} {s : St}
    (h : (sys stub nodeOf).run es = some s) : es.foldlM csTrack [] = some s.inCs := by
  refine hist_run (fun s es => es.foldlM csTrack [] = some s.inCs) ?_ ?_ h
  · simp [init]
  · intro s es e s' _ hi hI hs
    simp only [List.foldlM_append, hI]
    simp [cs_flow hi hs]

/-- the projection of a run to the linearisation points -/
def absRun : St → List Ev → List LockEv
  | _, [] => []
  | s, e :: es => match step s e with
    | none => []
    | some s' => (absEv s e).toList ++ absRun s' es

theorem absRun_snoc {stub : Nat} {nodeOf : Nat → Nat} {e : Ev} {es : List Ev} : ∀ {s0 s s' : St},
    (sys stub nodeOf).runFrom s0 es = some s → step s e = some s' →
    absRun s0 (es ++ [e]) = absRun s0 es ++ (absEv s e).toList := by
  induction es with
  | nil =>
    intro s0 s s' h hs
    simp [Sys.runFrom] at h; subst h
    simp [absRun, hs]
  | cons a es ih =>
    intro s0 s s' h hs
    simp only [Sys.runFrom] at h
    have : (sys stub nodeOf).step s0 a = step s0 a := rfl
    rw [this] at h
    cases h1 : step s0 a with
    | none => simp [h1] at h
    | some s1 =>
      simp only [h1] at h
      simp only [List.cons_append, absRun, h1]
      rw [ih h hs]; simp

/-- refinement: the linearisation points of every accepted trace form a run of the atomic
    lock, ending in the ghost owner -/
theorem refines {stub : Nat} {nodeOf : Nat → Nat} {es : List Ev} {s : St}
    (h : (sys stub nodeOf).run es = some s) :
    Lock.run (absRun (init stub nodeOf) es) = some s.owner := by
  refine hist_run (fun s es => Lock.run (absRun (init stub nodeOf) es) = some s.owner) ?_ ?_ h
  · simp [absRun, Sys.run, Sys.runFrom, Lock, init]
  · intro s es e s' hr hi hI hs
    have hsn : absRun (init stub nodeOf) (es ++ [e]) =
        absRun (init stub nodeOf) es ++ (absEv s e).toList := absRun_snoc hr hs
    rw [hsn]
    simp only [Sys.run] at hI ⊢
    rw [Sys.runFrom_append, hI]
    have := owner_step hi hs
    cases ha : absEv s e with
    | none => rw [ha] at this; simp [Sys.runFrom, this]
    | some a =>
      rw [ha] at this
      simp [Sys.runFrom, Lock, this]

/-! ### statements used by `Props/C03.lean` -/

/-- fiber `f` holds the mutex: it is between an acquire point and its release `fetch_add`, or
    it was handed the mutex by a waker's pop and has not resumed yet -/
def Holds (s : St) (f : Nat) : Prop :=
  (s.pc f).isHold = true ∨ (s.pc f = .parked ∧ s.owner = some f)

theorem Inv.holds_iff {s : St} (hi : Inv s) (f : Nat) : Holds s f ↔ s.owner = some f := by
  constructor
  · rintro (h | h)
    · exact hi.hold_owner f ((k_isHold _).2 h)
    · exact h.2
  · intro h
    rcases hi.owner_hold f h with h1 | h1
    · exact Or.inl ((k_isHold _).1 h1)
    · exact Or.inr ⟨(k_parked _).1 h1, h⟩

theorem Inv.wake_has_waiter {s : St} (hi : Inv s) {w : Nat} (hw : (s.pc w).isWake = true) :
    s.hd < s.order.length ∨ ∃ g, (s.pc g).isPre = true := by
  obtain ⟨g, hg⟩ := hi.wake_ann w ((k_isWake _).2 hw)
  have hlt : ∀ i (x : Nat × Nat), s.order[i]? = some x → s.hd ≤ i → s.hd < s.order.length := by
    intro i x h1 h2
    apply Classical.byContradiction; intro hn
    rw [List.getElem?_eq_none (by omega)] at h1; cases h1
  rcases (ann_iff s g).1 hg with h | ⟨m, p, i, h⟩ | ⟨h, ho⟩
  · exact Or.inr ⟨g, h⟩
  · have := hi.q_xchgd g m i (by rw [h]; rfl)
    exact Or.inl (hlt i _ this.1 this.2.1)
  · obtain ⟨i, n, h1, h2, -⟩ := hi.q_parked g (by rw [h]; rfl) ho
    exact Or.inl (hlt i _ h2 h1)

/-- the node a locker is about to enqueue -/
def Pc.preNode : Pc → Nat
  | .waitGotNode n | .waitWroteData n | .waitClearedNode n | .pushCleared n => n
  | _ => 1

/-- enqueued nodes are non-NULL (the wait function asserts `this_fiber->mpsc_fifo_node`) -/
structure NZ (s : St) : Prop where
  pcs : ∀ f, (s.pc f).preNode ≠ 0
  ord : ∀ (i n f : Nat), s.order[i]? = some (n, f) → n ≠ 0

theorem nz_step {s s' : St} {e : Ev} (hz : NZ s) (hs : step s e = some s') : NZ s' := by
  obtain ⟨h1, h2⟩ := hz
  cases e
  case xchgTail f a b =>
    simp only [step] at hs; split at hs <;> simp at hs
    next m hpc =>
    obtain ⟨⟨rfl, rfl⟩, hs⟩ := hs; subst hs
    constructor
    · intro g; simp only [upd]; split
      · simp [Pc.preNode]
      · exact h1 g
    · intro i n g hg
      rcases getElem?_snoc_cases hg with h | ⟨-, h⟩
      · exact h2 i n g h
      · cases h; have := h1 f; rw [hpc] at this; exact this
  case rNode f g n =>
    simp only [step] at hs; split at hs <;> simp at hs
    obtain ⟨⟨rfl, rfl, hn⟩, hs⟩ := hs; subst hs
    constructor
    · intro g; simp only [upd]; split
      · simpa [Pc.preNode] using hn
      · exact h1 g
    · exact h2
  all_goals
    step_cases hs <;> constructor <;> intros <;>
      first
        | (apply h2; assumption)
        | (rename_i g; exact h1 g)
        | (rename_i g; have := h1 g; simp only [upd]; split <;> simp_all [Pc.preNode])

theorem nz_of_run {stub : Nat} {nodeOf : Nat → Nat} {es : List Ev} {s : St}
    (h : (sys stub nodeOf).run es = some s) : NZ s :=
  Sys.inv_of_run (sys stub nodeOf) NZ ⟨by simp [sys, init, Pc.preNode], by simp [sys, init]⟩
    (fun _ _ _ hz hs => nz_step hz hs) h

/-- a failed `trypop` in the wake loop: some announced waiter has not finished its push -/
theorem Inv.retry_justified {s s' : St} (hi : Inv s) (hz : NZ s) {w h : Nat}
    (hs : step s (.rNext w h 0) = some s') :
    s'.pc w = .wakeLoop ∧ ∃ g, (s.pc g).isPre = true ∨ ∃ m p i, s.pc g = .pushXchgd m p i := by
  simp only [step] at hs; split at hs <;> simp at hs
  next hh hpc =>
  obtain ⟨⟨rfl, h0⟩, hs⟩ := hs
  subst hs
  refine ⟨by simp, ?_⟩
  rcases hi.wake_has_waiter (w := w) (by rw [hpc]; rfl) with hlt | ⟨g, hg⟩
  · unfold headNext at h0
    have hsome : s.order[s.hd]? = some s.order[s.hd] := List.getElem?_eq_getElem hlt
    rcases hx : s.order[s.hd] with ⟨n, g⟩
    rw [hx] at hsome
    rw [hsome] at h0
    simp only at h0
    have hl : s.linked s.hd = false := by
      cases hl : s.linked s.hd with
      | false => rfl
      | true => rw [hl] at h0; simp at h0; exact absurd h0.symm (hz.ord _ _ _ hsome)
    rcases hi.q_ent s.hd n g (Nat.le_refl _) hsome with hk | hk
    · obtain ⟨q, hq⟩ := (k_xchgd _ _ _).1 hk
      exact ⟨g, Or.inr ⟨_, _, _, hq⟩⟩
    · rw [hl] at hk; simp at hk
  · exact ⟨g, Or.inl hg⟩

/-- the wake loop is left only through the pop, which hands the mutex to the oldest waiter -/
theorem Inv.wake_exit {s s' : St} {e : Ev} (hi : Inv s) (hs : step s e = some s') {w : Nat}
    (hw : (s.pc w).isWake = true) :
    (s'.pc w).isWake = true ∨
    ∃ x n g, e = .wHead w x ∧ s.order[s.hd]? = some (n, g) ∧ Ann s g ∧ s.pc g = .parked ∧
      s.owner = none ∧ s'.owner = some g ∧ s'.hd = s.hd + 1 ∧ (s'.pc w).isPost = true := by
  by_cases h : (s'.pc w).isWake = true
  · exact Or.inl h
  · right
    have hf := (wake_flow hs w)
    have : ∃ x, e = .wHead w x := by
      apply Classical.byContradiction; intro hn
      exact h (hf.2 (Or.inl ⟨hw, hn⟩))
    obtain ⟨x, rfl⟩ := this
    simp only [step] at hs; split at hs <;> simp at hs
    next hh x' hpc =>
    obtain ⟨rfl, hs⟩ := hs
    split at hs <;> simp at hs
    next m g heq =>
    subst hs
    obtain ⟨h1, h2, h3, h4, h5⟩ := hi.pop_target (f := w) (by rw [hpc]; rfl) heq
    exact ⟨x, m, g, rfl, heq, h4, (k_parked _).1 h3, h1, rfl, rfl, by simp [Pc.isPost]⟩

/-- shape of the release step -/
theorem Inv.fadd_step {s s' : St} (hi : Inv s) {f : Nat} {old : Int}
    (hs : step s (.fadd f old) = some s') :
    s.pc f = .unlockCalled ∧ old = s.counter ∧ s.owner = some f ∧ s'.owner = none ∧
    (if old + 1 = 1 then s'.pc f = .unlockDone ∧ ∀ g, ¬ Ann s g
     else s'.pc f = .wakeLoop ∧ ∃ g, Ann s g) := by
  simp only [step] at hs; split at hs <;> simp at hs
  next hpc =>
  obtain ⟨rfl, hs⟩ := hs
  have ho := hi.hold_owner f (Or.inl (by rw [hpc]; rfl))
  obtain ⟨n, hc, hn⟩ := hi.cnt
  rw [ho] at hn; simp at hn
  split at hs <;> simp at hs <;> subst hs
  · next h1 =>
    have : n = 0 := by omega
    subst this
    refine ⟨hpc, rfl, ho, rfl, ?_⟩
    rw [if_pos (by omega)]; exact ⟨by simp, Card.zero_iff.1 hc⟩
  · next h1 =>
    refine ⟨hpc, rfl, ho, rfl, ?_⟩
    rw [if_neg (by omega)]; exact ⟨by simp, hc.pos (by omega)⟩

/-- shape of a successful uncontended acquire (`fetch_sub` that saw 1 / trylock CAS) -/
theorem Inv.acquire_free {s : St} (hi : Inv s) (h1 : s.counter = 1) :
    s.owner = none ∧ (∀ g, ¬ Ann s g) ∧ ∀ g, (s.pc g).isPop = false := by
  obtain ⟨ho, hf⟩ := hi.free_of_one h1
  refine ⟨ho, hf, ?_⟩
  intro g
  cases hp : (s.pc g).isPop with
  | false => rfl
  | true =>
    exfalso
    rcases (k_isPop _).2 hp with h | h | h
    · obtain ⟨x, hx⟩ := hi.wake_ann g (Or.inl h); exact hf x hx
    · obtain ⟨x, hx⟩ := hi.wake_ann g (Or.inr h); exact hf x hx
    · obtain ⟨x, hx, -⟩ := hi.waking_owner (hi.post_waking g h)
      rw [ho] at hx; cases hx

theorem cas_step {s s' : St} {f : Nat} {found : Int} {ok : Bool}
    (hs : step s (.casCounter f found ok) = some s') :
    s.pc f = .tryCalled ∧ found = s.counter ∧ (ok = true ↔ found = 1) ∧
      (ok = true → s'.owner = some f ∧ s'.counter = 0) ∧ (ok = false → s'.owner = s.owner ∧ s'.counter = s.counter) := by
  simp only [step] at hs; split at hs <;> simp at hs
  next hpc =>
  obtain ⟨⟨rfl, rfl⟩, hs⟩ := hs
  split at hs <;> simp at hs <;> subst hs <;> simp_all

theorem fsub_step {s s' : St} {f : Nat} {old : Int} (hs : step s (.fsub f old) = some s') :
    s.pc f = .lockCalled ∧ old = s.counter ∧ s'.counter = old - 1 ∧
      (if old = 1 then s'.owner = some f ∧ s'.pc f = .acquired
       else s'.owner = s.owner ∧ s'.pc f = .lockDec old) := by
  simp only [step] at hs; split at hs <;> simp at hs
  next hpc =>
  obtain ⟨rfl, hs⟩ := hs
  split at hs <;> simp at hs <;> subst hs <;> simp_all

/-- the harness's occupancy monitor never fires on a trace whose notes alternate -/
theorem monitor_go_none : ∀ (es : List Ev) (l l' : List Nat),
    es.foldlM csTrack l = some l' → monitor.go l es = none := by
  intro es
  induction es with
  | nil => intro l l' _; simp [monitor.go]
  | cons e es ih =>
    intro l l' h
    simp only [List.foldlM_cons] at h
    cases h1 : csTrack l e with
    | none => simp [h1] at h
    | some l1 =>
      simp [h1] at h
      cases e <;> simp [csTrack] at h1 <;> try (subst h1; simp only [monitor.go]; exact ih _ _ h)
      · obtain ⟨rfl, rfl⟩ := h1; simp [monitor.go]; exact ih _ _ h
      · obtain ⟨rfl, rfl⟩ := h1; simp [monitor.go]; exact ih _ _ h

end LibfiberVerif.Mutex
