/-
  Proof/Mutex.lean — the inductive invariant of the fiber-mutex model (property C03) and the
  lemmas `Props/C03.lean` is assembled from.

  Layout: (1) classification of program counters, (2) finite cardinality of a predicate on
  fibers (`Card`, via duplicate-free enumerations — fibers are unbounded, `Nat → Pc`),
  (3) the invariant `Mutex.Inv`, (4) one preservation lemma per event constructor,
  (5) trace-level (history) invariants: hand-off counting, critical-section alternation,
  refinement of the atomic lock specification.
-/
import LibfiberVerif.Model.Mutex

namespace LibfiberVerif.Mutex

/-! ### 1. classes of program counters -/

/-- between a successful acquire point and the release `fetch_add` (not counting a waiter that
    was handed the mutex and has not resumed yet: that one is `parked` with `owner = some f`) -/
def Pc.isHold : Pc → Bool
  | .acquired | .held | .tryDone true | .unlockCalled => true
  | _ => false

/-- announced (`fetch_sub` done, saw contention), not yet enqueued (`xchg(&tail)` not done) -/
def Pc.isPre : Pc → Bool
  | .lockDec _ | .waitSaving | .waitGotNode _ | .waitWroteData _ | .waitClearedNode _
  | .pushCleared _ => true
  | _ => false

/-- in the wake loop, before the pop took effect (`head := next` not yet written) -/
def Pc.isWake : Pc → Bool
  | .wakeLoop | .popGotHead _ | .popGotNext _ _ => true
  | _ => false

/-- after the pop took effect, still touching the queue nodes / the woken fiber -/
def Pc.isPost : Pc → Bool
  | .popMoved _ _ | .popGotData _ _ _ | .popWrote _ _ | .wakeGotFiber _ _ | .wakeGaveNode _ _
  | .wakeReadState _ _ => true
  | _ => false

/-- anywhere inside `mpsc_fifo_trypop` / the wake loop: the consumer side of the waiter queue -/
def Pc.isPop (p : Pc) : Bool := p.isWake || p.isPost

/-- enqueued or about to link: `xchg(&tail)` done -/
def Pc.isEnq : Pc → Bool
  | .pushXchgd _ _ _ | .parked => true
  | _ => false

/-- coarse view of a pc: everything the invariant depends on -/
inductive K
  | other | pre | xchgd (m i : Nat) | parked | hold | held | w | wNext | post
  deriving DecidableEq

def Pc.k : Pc → K
  | .lockDec _ | .waitSaving | .waitGotNode _ | .waitWroteData _ | .waitClearedNode _
  | .pushCleared _ => .pre
  | .pushXchgd m _ i => .xchgd m i
  | .parked => .parked
  | .acquired | .tryDone true | .unlockCalled => .hold
  | .held => .held
  | .wakeLoop | .popGotHead _ => .w
  | .popGotNext _ _ => .wNext
  | .popMoved _ _ | .popGotData _ _ _ | .popWrote _ _ | .wakeGotFiber _ _ | .wakeGaveNode _ _
  | .wakeReadState _ _ => .post
  | _ => .other

def K.isHold (k : K) : Prop := k = .hold ∨ k = .held
def K.isWake (k : K) : Prop := k = .w ∨ k = .wNext
def K.isPop (k : K) : Prop := k = .w ∨ k = .wNext ∨ k = .post

theorem k_isHold (p : Pc) : p.k.isHold ↔ p.isHold = true := by
  cases p <;> simp [Pc.k, K.isHold, Pc.isHold]
  next r => cases r <;> simp
theorem k_isWake (p : Pc) : p.k.isWake ↔ p.isWake = true := by
  cases p <;> simp [Pc.k, K.isWake, Pc.isWake]
  next r => cases r <;> simp
theorem k_isPop (p : Pc) : p.k.isPop ↔ p.isPop = true := by
  cases p <;> simp [Pc.k, K.isPop, Pc.isPop, Pc.isWake, Pc.isPost]
  next r => cases r <;> simp
theorem k_post (p : Pc) : p.k = .post ↔ p.isPost = true := by
  cases p <;> simp [Pc.k, Pc.isPost]
  next r => cases r <;> simp
theorem k_pre (p : Pc) : p.k = .pre ↔ p.isPre = true := by
  cases p <;> simp [Pc.k, Pc.isPre]
  next r => cases r <;> simp
theorem k_parked (p : Pc) : p.k = .parked ↔ p = .parked := by
  cases p <;> simp [Pc.k]
  next r => cases r <;> simp
theorem k_held (p : Pc) : p.k = .held ↔ p = .held := by
  cases p <;> simp [Pc.k]
  next r => cases r <;> simp
theorem k_xchgd (p : Pc) (m i : Nat) : p.k = .xchgd m i ↔ ∃ q, p = .pushXchgd m q i := by
  cases p <;> simp [Pc.k]
  next r => cases r <;> simp
theorem k_wNext (p : Pc) : p.k = .wNext ↔ ∃ h x, p = .popGotNext h x := by
  cases p <;> simp [Pc.k]
  next r => cases r <;> simp

/-- "announced": has decremented `counter` in a contended `lock` and has not been handed the
    mutex yet.  (`o` = current owner, `f` = the fiber, `k` = its pc class.) -/
def annK (o : Option Nat) (f : Nat) : K → Bool
  | .pre => true
  | .xchgd _ _ => true
  | .parked => decide (o ≠ some f)
  | _ => false

/-- fiber `f` is an announced waiter in state `s` -/
def Ann (s : St) (f : Nat) : Prop := annK s.owner f (s.pc f).k = true

theorem ann_iff (s : St) (f : Nat) :
    Ann s f ↔ ((s.pc f).isPre = true ∨ (∃ m p i, s.pc f = .pushXchgd m p i) ∨
      (s.pc f = .parked ∧ s.owner ≠ some f)) := by
  unfold Ann
  cases h : s.pc f <;> simp [Pc.k, annK, Pc.isPre]
  next r => cases r <;> simp

/-! ### 2. cardinality of a predicate on fibers -/

/-- exactly `n` fibers satisfy `P` -/
def Card (P : Nat → Prop) (n : Nat) : Prop :=
  ∃ l : List Nat, l.Nodup ∧ (∀ f, f ∈ l ↔ P f) ∧ l.length = n

theorem Card.congr {P Q : Nat → Prop} {n : Nat} (h : Card P n) (hpq : ∀ f, Q f ↔ P f) :
    Card Q n := by
  obtain ⟨l, h1, h2, h3⟩ := h
  exact ⟨l, h1, fun f => by rw [h2, hpq], h3⟩

theorem Card.unique {P : Nat → Prop} {n m : Nat} (h : Card P n) (h' : Card P m) : n = m := by
  obtain ⟨l, h1, h2, h3⟩ := h
  obtain ⟨l', h1', h2', h3'⟩ := h'
  have : l.Perm l' := (List.perm_ext_iff_of_nodup h1 h1').2 (fun a => by rw [h2, h2'])
  rw [← h3, ← h3']; exact this.length_eq

theorem Card.insert {P Q : Nat → Prop} {n : Nat} (h : Card P n) (a : Nat) (ha : ¬ P a)
    (hq : ∀ f, Q f ↔ (f = a ∨ P f)) : Card Q (n + 1) := by
  obtain ⟨l, h1, h2, h3⟩ := h
  refine ⟨a :: l, ?_, ?_, by simp [h3]⟩
  · rw [List.nodup_cons]; exact ⟨fun hm => ha ((h2 a).1 hm), h1⟩
  · intro f; simp [h2, hq]

theorem Card.erase {P Q : Nat → Prop} {n : Nat} (h : Card P n) (a : Nat) (ha : P a)
    (hq : ∀ f, Q f ↔ (f ≠ a ∧ P f)) : 1 ≤ n ∧ Card Q (n - 1) := by
  obtain ⟨l, h1, h2, h3⟩ := h
  have hm : a ∈ l := (h2 a).2 ha
  refine ⟨?_, l.erase a, h1.erase a, ?_, by rw [List.length_erase_of_mem hm, h3]⟩
  · rw [← h3]; exact List.length_pos_of_mem hm
  · intro f; rw [h1.mem_erase_iff, h2, hq]

theorem Card.zero_iff {P : Nat → Prop} : Card P 0 ↔ ∀ f, ¬ P f := by
  constructor
  · rintro ⟨l, -, h2, h3⟩ f hf
    have := (h2 f).2 hf
    rw [List.length_eq_zero_iff.1 h3] at this; simp at this
  · intro h; exact ⟨[], by simp, fun f => by simp [h f], rfl⟩

theorem Card.pos {P : Nat → Prop} {n : Nat} (h : Card P n) (hn : 0 < n) : ∃ f, P f := by
  obtain ⟨l, -, h2, h3⟩ := h
  cases l with
  | nil => simp at h3; omega
  | cons a l => exact ⟨a, (h2 a).1 (by simp)⟩

theorem Card.pos_of {P : Nat → Prop} {n : Nat} (h : Card P n) {f : Nat} (hf : P f) : 0 < n := by
  obtain ⟨l, -, h2, h3⟩ := h
  rw [← h3]; exact List.length_pos_of_mem ((h2 f).2 hf)

/-! ### 3. the invariant -/

theorem free_form {o : Option Nat} {W : Nat → Prop} (h : o = none → (∀ f, ¬ W f) → False) :
    o ≠ none ∨ ∃ f, W f := by
  by_cases ho : o = none
  · right; apply Classical.byContradiction; intro hn; exact h ho (fun f hf => hn ⟨f, hf⟩)
  · left; exact ho

structure Inv (s : St) : Prop where
  /-- whoever is between acquire and release is the ghost owner -/
  hold_owner : ∀ f, (s.pc f).k.isHold → s.owner = some f
  /-- the ghost owner is between acquire and release, or was handed the mutex while parked -/
  owner_hold : ∀ f, s.owner = some f → (s.pc f).k.isHold ∨ (s.pc f).k = .parked
  /-- before its pop takes effect a waker sees a free mutex -/
  wake_free : ∀ f, (s.pc f).k.isWake → s.owner = none ∧ s.waking = false
  /-- single consumer of the waiter queue -/
  pop_one : ∀ f g, (s.pc f).k.isPop → (s.pc g).k.isPop → f = g
  post_waking : ∀ f, (s.pc f).k = .post → s.waking = true
  waking_owner : s.waking = true → ∃ g, s.owner = some g ∧ (s.pc g).k = .parked
  hd_le : s.hd ≤ s.order.length
  lnk_bound : ∀ i, s.order.length ≤ i → s.linked i = false
  q_xchgd : ∀ f m i, (s.pc f).k = .xchgd m i →
    s.order[i]? = some (m, f) ∧ s.hd ≤ i ∧ s.linked i = false
  q_parked : ∀ f, (s.pc f).k = .parked → s.owner ≠ some f →
    ∃ i n, s.hd ≤ i ∧ s.order[i]? = some (n, f) ∧ s.linked i = true
  q_ent : ∀ i n f, s.hd ≤ i → s.order[i]? = some (n, f) →
    (s.pc f).k = .xchgd n i ∨ ((s.pc f).k = .parked ∧ s.linked i = true ∧ s.owner ≠ some f)
  /-- a fiber waits at most once among the entries not yet popped -/
  q_dist : ∀ i j n n' f, s.hd ≤ i → s.hd ≤ j → s.order[i]? = some (n, f) →
    s.order[j]? = some (n', f) → i = j
  w_next : ∀ f, (s.pc f).k = .wNext → s.hd < s.order.length ∧ s.linked s.hd = true
  /-- the counting identity -/
  cnt : ∃ n, Card (Ann s) n ∧ s.counter = 1 - (if s.owner = none then 0 else 1) - (n : Int)
  /-- a waker in its loop has somebody to find -/
  wake_ann : ∀ f, (s.pc f).k.isWake → ∃ g, Ann s g
  /-- no stranded waiter -/
  free : ∀ g, Ann s g → s.owner ≠ none ∨ ∃ f, (s.pc f).k.isWake
  cs_held : ∀ f, f ∈ s.inCs → (s.pc f).k = .held
  cs_nodup : s.inCs.Nodup
  cs_seen : ∀ f, f ∈ s.inCs → s.seen f = s.data

theorem inv_init (stub : Nat) (nodeOf : Nat → Nat) : Inv (init stub nodeOf) := by
  constructor <;> simp [init, Pc.k, K.isHold, K.isWake, K.isPop, Ann, annK]
  exact ⟨0, Card.zero_iff.2 (by simp [Ann, annK, Pc.k]), by simp⟩

/-! ### 4. preservation, one lemma per event constructor -/

/-- steps that stay inside one pc class and touch none of the fields the invariant reads -/
theorem Inv.frame {s s' : St} (hi : Inv s)
    (hk : ∀ f, (s'.pc f).k = (s.pc f).k) (h1 : s'.owner = s.owner) (h2 : s'.waking = s.waking)
    (h3 : s'.hd = s.hd) (h4 : s'.order = s.order) (h5 : s'.linked = s.linked)
    (h6 : s'.counter = s.counter) (h7 : s'.inCs = s.inCs) (h8 : s'.seen = s.seen)
    (h9 : s'.data = s.data) : Inv s' := by
  have hann : Ann s' = Ann s := by
    funext f; simp only [Ann, hk, h1]
  constructor <;> simp only [hk, h1, h2, h3, h4, h5, h6, h7, h8, h9, hann]
  · exact hi.hold_owner
  · exact hi.owner_hold
  · exact hi.wake_free
  · exact hi.pop_one
  · exact hi.post_waking
  · exact hi.waking_owner
  · exact hi.hd_le
  · exact hi.lnk_bound
  · exact hi.q_xchgd
  · exact hi.q_parked
  · exact hi.q_ent
  · exact hi.q_dist
  · exact hi.w_next
  · exact hi.cnt
  · exact hi.wake_ann
  · exact hi.free
  · exact hi.cs_held
  · exact hi.cs_nodup
  · exact hi.cs_seen

theorem k_upd (pc : Nat → Pc) (f0 : Nat) (p : Pc) (f : Nat) :
    (upd pc f0 p f).k = if f = f0 then p.k else (pc f).k := by
  simp only [upd]; split <;> rfl

theorem k_upd_same {pc : Nat → Pc} {f0 : Nat} {p : Pc} (h : p.k = (pc f0).k) (f : Nat) :
    (upd pc f0 p f).k = (pc f).k := by
  rw [k_upd]; split
  · next h' => rw [h', h]
  · rfl

/-- a step that only moves `f0` inside its pc class -/
theorem Inv.move {s : St} (hi : Inv s) {f0 : Nat} {p : Pc} (h : p.k = (s.pc f0).k) :
    Inv { s with pc := upd s.pc f0 p } :=
  hi.frame (k_upd_same h) rfl rfl rfl rfl rfl rfl rfl rfl rfl

/-- consequences of the counting identity -/
theorem Inv.counter_le {s : St} (hi : Inv s) : s.counter ≤ 1 := by
  obtain ⟨n, -, h⟩ := hi.cnt
  split at h <;> omega

theorem Inv.free_of_one {s : St} (hi : Inv s) (h1 : s.counter = 1) :
    s.owner = none ∧ ∀ g, ¬ Ann s g := by
  obtain ⟨n, hc, h⟩ := hi.cnt
  split at h
  · next ho =>
    have : n = 0 := by omega
    subst this
    exact ⟨ho, Card.zero_iff.1 hc⟩
  · omega

theorem annK_some_ne {f g : Nat} (h : g ≠ f) (k : K) : annK (some f) g k = annK none g k := by
  cases k <;> simp [annK]; omega

local macro "mx_close" : tactic =>
  `(tactic| (intros; (simp only [k_upd, K.isHold, K.isWake, K.isPop] at *) <;> grind))

/-- uncontended acquire: `fetch_sub` that saw 1, or successful trylock CAS -/
theorem Inv.acquire {s : St} (hi : Inv s) {f : Nat} {p : Pc} (hp : p.k = .hold)
    (hpc : (s.pc f).k = .other) (h1 : s.counter = 1) :
    Inv { s with counter := s.counter - 1, owner := some f, pc := upd s.pc f p } := by
  obtain ⟨hown, hfree⟩ := hi.free_of_one h1
  have hann : ∀ g, ¬ Ann { s with counter := s.counter - 1, owner := some f, pc := upd s.pc f p } g := by
    intro g
    have := hfree g
    simp only [Ann, k_upd] at this ⊢
    split
    · simp [hp, annK]
    · next hg => rw [annK_some_ne hg, ← hown]; exact this
  obtain ⟨a1, a2, a3, a4, a5, a6, a7, a8, a9, a10, a11, a11', a12, a13, a14, a15, a16, a17, a18⟩ := hi
  constructor
  · mx_close
  · mx_close
  · mx_close
  · mx_close
  · mx_close
  · mx_close
  · mx_close
  · mx_close
  · mx_close
  · mx_close
  · mx_close
  · mx_close
  · mx_close
  · exact ⟨0, Card.zero_iff.2 hann, by simp [h1]⟩
  · intro g hg
    simp only [k_upd] at hg
    split at hg
    · simp [hp, K.isWake] at hg
    · obtain ⟨x, hx⟩ := a14 g hg; exact absurd hx (hfree x)
  · intro g hg; exact absurd hg (hann g)
  · mx_close
  · mx_close
  · mx_close

/-- contended `fetch_sub`: the locker announces itself -/
theorem Inv.announce {s : St} (hi : Inv s) {f : Nat} {p : Pc} (hp : p.k = .pre)
    (hpc : (s.pc f).k = .other) (h1 : s.counter ≠ 1) :
    Inv { s with counter := s.counter - 1, pc := upd s.pc f p } := by
  have hnf : ¬ Ann s f := by simp [Ann, hpc, annK]
  have hann : ∀ g, Ann { s with counter := s.counter - 1, pc := upd s.pc f p } g ↔ (g = f ∨ Ann s g) := by
    intro g
    simp only [Ann, k_upd]
    split
    · next hg => simp [hp, annK, hg]
    · next hg => simp [hg]
  obtain ⟨n, hc, hn⟩ := hi.cnt
  obtain ⟨a1, a2, a3, a4, a5, a6, a7, a8, a9, a10, a11, a11', a12, a13, a14, a15, a16, a17, a18⟩ := hi
  constructor
  · mx_close
  · mx_close
  · mx_close
  · mx_close
  · mx_close
  · mx_close
  · mx_close
  · mx_close
  · mx_close
  · mx_close
  · mx_close
  · mx_close
  · mx_close
  · refine ⟨n + 1, hc.insert f hnf hann, ?_⟩
    simp only []; split at hn <;> simp_all <;> omega
  · intro g hg
    exact ⟨f, (hann f).2 (Or.inl rfl)⟩
  · intro g _
    apply free_form; intro ho hw
    have hw' : ∀ g, ¬ (s.pc g).k.isWake := by
      intro g; have := hw g; simp only [k_upd] at this; split at this
      · next hg => subst hg; simp [hpc, K.isWake]
      · exact this
    have h0 : n = 0 := by
      cases n with
      | zero => rfl
      | succ m =>
        obtain ⟨x, hx⟩ := hc.pos (Nat.succ_pos m)
        exact (a15 x hx).elim (fun h => absurd ho h) (fun ⟨f', hf'⟩ => absurd hf' (hw' f'))
    simp only [] at ho
    subst h0; simp [ho] at hn; exact h1 hn
  · mx_close
  · mx_close
  · mx_close

theorem getElem?_snoc_of_some {α : Type} {l : List α} {i : Nat} {a : α} (x : α)
    (h : l[i]? = some a) : (l ++ [x])[i]? = some a := by
  have hi : i < l.length := by
    apply Classical.byContradiction; intro hn
    rw [List.getElem?_eq_none (by omega)] at h; cases h
  rw [List.getElem?_append_left hi]; exact h

theorem getElem?_snoc_cases {α : Type} {l : List α} {i : Nat} {a x : α}
    (h : (l ++ [x])[i]? = some a) : l[i]? = some a ∨ (i = l.length ∧ a = x) := by
  rw [List.getElem?_append] at h
  split at h
  · exact Or.inl h
  · next hn =>
    right
    have : i - l.length = 0 := by
      apply Classical.byContradiction; intro h0
      rw [List.getElem?_eq_none (by simp; omega)] at h; cases h
    rw [this] at h; simp at h
    exact ⟨by omega, h.symm⟩

/-- `xchg(&tail)`: the waiter's entry is appended to the ghost order -/
theorem Inv.enqueue {s : St} (hi : Inv s) {f m : Nat} {p : Pc} (hp : p.k = .xchgd m s.order.length)
    (hpc : (s.pc f).k = .pre) :
    Inv { s with order := s.order ++ [(m, f)], pc := upd s.pc f p } := by
  have hann : Ann { s with order := s.order ++ [(m, f)], pc := upd s.pc f p } = Ann s := by
    funext g
    simp only [Ann, k_upd]
    split
    · next hg => subst hg; simp [hp, hpc, annK]
    · rfl
  obtain ⟨a1, a2, a3, a4, a5, a6, a7, a8, a9, a10, a11, a11', a12, a13, a14, a15, a16, a17, a18⟩ := hi
  constructor
  · mx_close
  · mx_close
  · mx_close
  · mx_close
  · mx_close
  · mx_close
  · simp only [List.length_append, List.length_singleton]; omega
  · simp only [List.length_append, List.length_singleton]; intro i hi; exact a8 i (by omega)
  · intro g m' i hg
    simp only [k_upd] at hg
    split at hg
    · next hgf =>
      subst hgf; rw [hp] at hg; cases hg
      exact ⟨by simp, a7, a8 _ (Nat.le_refl _)⟩
    · obtain ⟨h1, h2, h3⟩ := a9 g m' i hg
      exact ⟨getElem?_snoc_of_some _ h1, h2, h3⟩
  · intro g hg ho
    simp only [k_upd] at hg
    split at hg
    · rw [hp] at hg; cases hg
    · obtain ⟨i, n, h1, h2, h3⟩ := a10 g hg ho
      exact ⟨i, n, h1, getElem?_snoc_of_some _ h2, h3⟩
  · intro i n g hi hg
    simp only [k_upd]
    rcases getElem?_snoc_cases hg with h | ⟨h1, h2⟩
    · have := a11 i n g hi h
      split
      · next hgf => subst hgf; rw [hpc] at this; simp at this
      · exact this
    · cases h2; subst h1; simp [hp]
  · intro i j n n' g hi hj h1 h2
    have key : ∀ i n, s.hd ≤ i → s.order[i]? = some (n, g) → g ≠ f := by
      intro i0 n0 hi0 h0 hgf; rw [hgf] at h0
      have := a11 i0 n0 f hi0 h0; rw [hpc] at this; simp at this
    rcases getElem?_snoc_cases h1 with h1 | ⟨h1, e1⟩ <;>
      rcases getElem?_snoc_cases h2 with h2 | ⟨h2, e2⟩
    · exact a11' i j n n' g hi hj h1 h2
    · cases e2; exact absurd rfl (key i n hi h1)
    · cases e1; exact absurd rfl (key j n' hj h2)
    · omega
  · intro g hg
    simp only [k_upd] at hg
    split at hg
    · rw [hp] at hg; cases hg
    · have := a12 g hg
      simp only [List.length_append, List.length_singleton]; exact ⟨by omega, this.2⟩
  · rw [hann]; exact a13
  · rw [hann]; mx_close
  · rw [hann]; mx_close
  · mx_close
  · mx_close
  · mx_close

/-- `prev->next = node`: the entry becomes visible to the consumer, the waiter parks -/
theorem Inv.link {s : St} (hi : Inv s) {f m i : Nat} {p : Pc} (hp : p.k = .parked)
    (hpc : (s.pc f).k = .xchgd m i) :
    Inv { s with linked := upd s.linked i true, pc := upd s.pc f p } := by
  have hno : s.owner ≠ some f := by
    intro h; have := hi.owner_hold f h; simp [hpc, K.isHold] at this
  have hann : Ann { s with linked := upd s.linked i true, pc := upd s.pc f p } = Ann s := by
    funext g
    simp only [Ann, k_upd]
    split
    · next hg => subst hg; simp [hp, hpc, annK, hno]
    · rfl
  obtain ⟨a1, a2, a3, a4, a5, a6, a7, a8, a9, a10, a11, a11', a12, a13, a14, a15, a16, a17, a18⟩ := hi
  constructor
  · mx_close
  · mx_close
  · mx_close
  · mx_close
  · mx_close
  · mx_close
  · mx_close
  · intros; simp only [k_upd, upd] at *; grind
  · intros; simp only [k_upd, upd] at *; grind
  · intros; simp only [k_upd, upd] at *; grind
  · intros; simp only [k_upd, upd] at *; grind
  · intros; simp only [upd] at *; grind
  · intros; simp only [k_upd, upd] at *; grind
  · rw [hann]; exact a13
  · rw [hann]; mx_close
  · rw [hann]; mx_close
  · mx_close
  · mx_close
  · mx_close

/-- a handed-off waiter resumes and returns from `lock` -/
theorem Inv.resume {s : St} (hi : Inv s) {f : Nat} {p : Pc} (hp : p.k = .held)
    (hpc : (s.pc f).k = .parked) (ho : s.owner = some f) (hw : s.waking = false) :
    Inv { s with pc := upd s.pc f p } := by
  have hann : Ann { s with pc := upd s.pc f p } = Ann s := by
    funext g
    simp only [Ann, k_upd]
    split
    · next hg => subst hg; simp [hp, hpc, annK, ho]
    · rfl
  obtain ⟨a1, a2, a3, a4, a5, a6, a7, a8, a9, a10, a11, a11', a12, a13, a14, a15, a16, a17, a18⟩ := hi
  constructor
  · mx_close
  · mx_close
  · mx_close
  · mx_close
  · mx_close
  · mx_close
  · mx_close
  · mx_close
  · mx_close
  · mx_close
  · mx_close
  · mx_close
  · mx_close
  · rw [hann]; exact a13
  · rw [hann]; mx_close
  · rw [hann]; mx_close
  · mx_close
  · mx_close
  · mx_close

/-- moves between `hold` and `held` (return from lock/trylock, call of unlock) -/
theorem Inv.holdMove {s : St} (hi : Inv s) {f : Nat} {p : Pc} (hp : p.k = .hold ∨ p.k = .held)
    (hpc : (s.pc f).k = .hold ∨ (s.pc f).k = .held) (hcs : f ∈ s.inCs → p.k = .held) :
    Inv { s with pc := upd s.pc f p } := by
  have hann : Ann { s with pc := upd s.pc f p } = Ann s := by
    funext g
    simp only [Ann, k_upd]
    split
    · next hg =>
      subst hg
      have h1 : ∀ k : K, (k = .hold ∨ k = .held) → annK s.owner g k = false := by
        intro k hk; rcases hk with hk | hk <;> subst hk <;> simp [annK]
      rw [h1 _ hp, h1 _ hpc]
    · rfl
  obtain ⟨a1, a2, a3, a4, a5, a6, a7, a8, a9, a10, a11, a11', a12, a13, a14, a15, a16, a17, a18⟩ := hi
  constructor
  · mx_close
  · mx_close
  · mx_close
  · mx_close
  · mx_close
  · mx_close
  · mx_close
  · mx_close
  · mx_close
  · mx_close
  · mx_close
  · mx_close
  · mx_close
  · rw [hann]; exact a13
  · rw [hann]; mx_close
  · rw [hann]; mx_close
  · mx_close
  · mx_close
  · mx_close

/-- the release `fetch_add`: `p` is `unlockDone` (nobody announced) or `wakeLoop` -/
theorem Inv.release {s : St} (hi : Inv s) {f : Nat} {p : Pc} (hpc : (s.pc f).k = .hold)
    (hp : if s.counter + 1 = 1 then p.k = .other else p.k = .w) :
    Inv { s with counter := s.counter + 1, owner := none, pc := upd s.pc f p } := by
  have ho : s.owner = some f := hi.hold_owner f (by simp [hpc, K.isHold])
  have hp' : p.k = .other ∨ p.k = .w := by split at hp <;> simp [hp]
  have hann : Ann { s with counter := s.counter + 1, owner := none, pc := upd s.pc f p } = Ann s := by
    funext g
    simp only [Ann, k_upd]
    split
    · next hg =>
      subst hg
      rcases hp' with h | h <;> simp [h, hpc, annK]
    · next hg => rw [ho, annK_some_ne hg]
  obtain ⟨n, hc, hn⟩ := hi.cnt
  rw [ho] at hn; simp at hn
  have hw : s.waking = false := by
    cases h : s.waking with
    | false => rfl
    | true =>
      obtain ⟨g, h1, h2⟩ := hi.waking_owner h
      rw [ho] at h1; cases h1; rw [hpc] at h2; cases h2
  have hnw : ∀ g, ¬ (s.pc g).k.isWake := by
    intro g h
    have := (hi.wake_free g h).1; rw [ho] at this; cases this
  obtain ⟨a1, a2, a3, a4, a5, a6, a7, a8, a9, a10, a11, a11', a12, a13, a14, a15, a16, a17, a18⟩ := hi
  constructor
  · mx_close
  · mx_close
  · mx_close
  · mx_close
  · mx_close
  · mx_close
  · mx_close
  · mx_close
  · mx_close
  · intro g hg _
    simp only [k_upd] at hg; split at hg
    · rcases hp' with h | h <;> rw [h] at hg <;> cases hg
    · next hgf => exact a10 g hg (by rw [ho]; intro h; cases h; exact hgf rfl)
  · mx_close
  · mx_close
  · mx_close
  · rw [hann]; exact ⟨n, hc, by simp only []; simp; omega⟩
  · rw [hann]
    intro g hg
    simp only [k_upd] at hg
    split at hg
    · split at hp
      · rw [hp] at hg; simp [K.isWake] at hg
      · exact hc.pos (by omega)
    · exact absurd hg (hnw g)
  · rw [hann]
    intro g hg
    split at hp
    · have : n = 0 := by omega
      subst this; exact absurd hg (Card.zero_iff.1 hc g)
    · right; exact ⟨f, by simp [k_upd, hp, K.isWake]⟩
  · mx_close
  · mx_close
  · mx_close

/-- `trypop` saw a linked successor of the stub -/
theorem Inv.gotNext {s : St} (hi : Inv s) {f : Nat} {p : Pc} (hp : p.k = .wNext)
    (hpc : (s.pc f).k = .w) (hq : s.hd < s.order.length ∧ s.linked s.hd = true) :
    Inv { s with pc := upd s.pc f p } := by
  have hann : Ann { s with pc := upd s.pc f p } = Ann s := by
    funext g
    simp only [Ann, k_upd]
    split
    · next hg => subst hg; simp [hp, hpc, annK]
    · rfl
  obtain ⟨a1, a2, a3, a4, a5, a6, a7, a8, a9, a10, a11, a11', a12, a13, a14, a15, a16, a17, a18⟩ := hi
  constructor
  · mx_close
  · mx_close
  · mx_close
  · mx_close
  · mx_close
  · mx_close
  · mx_close
  · mx_close
  · mx_close
  · mx_close
  · mx_close
  · mx_close
  · mx_close
  · rw [hann]; exact a13
  · rw [hann]; mx_close
  · rw [hann]; mx_close
  · mx_close
  · mx_close
  · mx_close

/-- facts about the entry a waker is about to pop -/
theorem Inv.pop_target {s : St} (hi : Inv s) {f n g : Nat} (hpc : (s.pc f).k = .wNext)
    (hq : s.order[s.hd]? = some (n, g)) :
    s.owner = none ∧ s.waking = false ∧ (s.pc g).k = .parked ∧ Ann s g ∧ g ≠ f := by
  obtain ⟨ho, hw⟩ := hi.wake_free f (Or.inr hpc)
  have hl := (hi.w_next f hpc).2
  have hg : (s.pc g).k = .parked := by
    rcases hi.q_ent s.hd n g (Nat.le_refl _) hq with h | h
    · have := (hi.q_xchgd g n s.hd h).2.2; rw [hl] at this; cases this
    · exact h.1
  refine ⟨ho, hw, hg, by simp [Ann, hg, annK, ho], ?_⟩
  intro h; subst h; rw [hpc] at hg; cases hg

/-- `head := next`: the pop takes effect, the oldest waiter becomes the owner -/
theorem Inv.pop {s : St} (hi : Inv s) {f n g x : Nat} {p : Pc} (hp : p.k = .post)
    (hpc : (s.pc f).k = .wNext) (hq : s.order[s.hd]? = some (n, g)) :
    Inv { s with headNode := x, hd := s.hd + 1, owner := some g, waking := true,
                 pc := upd s.pc f p } := by
  obtain ⟨ho, hw, hg, hag, hgf⟩ := hi.pop_target hpc hq
  have hann : ∀ y,
      Ann { s with headNode := x, hd := s.hd + 1, owner := some g, waking := true,
                   pc := upd s.pc f p } y ↔ (y ≠ g ∧ Ann s y) := by
    intro y
    simp only [Ann, k_upd]
    split
    · next hy => subst hy; simp [hp, hpc, annK]
    · next hy =>
      by_cases hyg : y = g
      · subst hyg; simp [hg, annK]
      · rw [annK_some_ne hyg, ← ho]; simp [hyg]
  obtain ⟨c, hc, hn⟩ := hi.cnt
  rw [ho] at hn; simp at hn
  obtain ⟨hc1, hc'⟩ := hc.erase g hag hann
  have hlen := (hi.w_next f hpc).1
  obtain ⟨a1, a2, a3, a4, a5, a6, a7, a8, a9, a10, a11, a11', a12, a13, a14, a15, a16, a17, a18⟩ := hi
  constructor
  · mx_close
  · mx_close
  · mx_close
  · mx_close
  · mx_close
  · mx_close
  · mx_close
  · mx_close
  · mx_close
  · mx_close
  · mx_close
  · mx_close
  · mx_close
  · exact ⟨c - 1, hc', by simp only []; simp; omega⟩
  · mx_close
  · intro y _; left; simp
  · mx_close
  · mx_close
  · mx_close

/-- the waker's last access to the woken fiber: it will now call `fiber_manager_schedule` -/
theorem Inv.wakeDone {s : St} (hi : Inv s) {f : Nat} {p : Pc} (hp : p.k = .other)
    (hpc : (s.pc f).k = .post) :
    Inv { s with waking := false, pc := upd s.pc f p } := by
  have hann : Ann { s with waking := false, pc := upd s.pc f p } = Ann s := by
    funext g
    simp only [Ann, k_upd]
    split
    · next hg => subst hg; simp [hp, hpc, annK]
    · rfl
  obtain ⟨a1, a2, a3, a4, a5, a6, a7, a8, a9, a10, a11, a11', a12, a13, a14, a15, a16, a17, a18⟩ := hi
  constructor
  · mx_close
  · mx_close
  · mx_close
  · mx_close
  · mx_close
  · mx_close
  · mx_close
  · mx_close
  · mx_close
  · mx_close
  · mx_close
  · mx_close
  · mx_close
  · rw [hann]; exact a13
  · rw [hann]; mx_close
  · rw [hann]; mx_close
  · mx_close
  · mx_close
  · mx_close

/-- harness notes `cs enter` / `cs exit` -/
theorem Inv.csFrame {s : St} (hi : Inv s) {l : List Nat} {sn : Nat → Nat} {d : Nat}
    (h1 : ∀ f, f ∈ l → (s.pc f).k = .held) (h2 : l.Nodup) (h3 : ∀ f, f ∈ l → sn f = d) :
    Inv { s with inCs := l, seen := sn, data := d } :=
  { hi with cs_held := h1, cs_nodup := h2, cs_seen := h3 }

end LibfiberVerif.Mutex
