/-
  Proof/Mutex.lean — the inductive invariant of the fiber-mutex model (property C03) and the
  lemmas `Props/C03.lean` is assembled from.

  Layout: (1) classification of program counters, (2) finite cardinality of a predicate on
  fibers (`Card`, via duplicate-free enumerations — fibers are unbounded, `Nat → Pc`),
  (3) the invariant `Mutex.Inv`, (4) one preservation lemma per event constructor,
  (5) trace-level (history) invariants: hand-off counting, critical-section alternation,
  refinement of the atomic lock specification.
-/
import LibfiberVerif.Model.Mutex

namespace LibfiberVerif.Mutex

/-! ### 1. classes of program counters -/

/-- between a successful acquire point and the release `fetch_add` (not counting a waiter that
    was handed the mutex and has not resumed yet: that one is `parked` with `owner = some f`) -/
def Pc.isHold : Pc → Bool
  | .acquired | .held | .tryDone true | .unlockCalled => true
  | _ => false

/-- announced (`fetch_sub` done, saw contention), not yet enqueued (`xchg(&tail)` not done) -/
def Pc.isPre : Pc → Bool
  | .lockDec _ | .waitSaving | .waitGotNode _ | .waitWroteData _ | .waitClearedNode _
  | .pushCleared _ => true
  | _ => false

/-- in the wake loop, before the pop took effect (`head := next` not yet written) -/
def Pc.isWake : Pc → Bool
  | .wakeLoop | .popGotHead _ | .popGotNext _ _ => true
  | _ => false

/-- after the pop took effect, still touching the queue nodes / the woken fiber -/
def Pc.isPost : Pc → Bool
  | .popMoved _ _ | .popGotData _ _ _ | .popWrote _ _ | .wakeGotFiber _ _ | .wakeGaveNode _ _
  | .wakeReadState _ _ => true
  | _ => false

/-- anywhere inside `mpsc_fifo_trypop` / the wake loop: the consumer side of the waiter queue -/
def Pc.isPop (p : Pc) : Bool := p.isWake || p.isPost

/-- enqueued or about to link: `xchg(&tail)` done -/
def Pc.isEnq : Pc → Bool
  | .pushXchgd _ _ _ | .parked => true
  | _ => false

/-- coarse view of a pc: everything the invariant depends on -/
inductive K
  | other | pre | xchgd (m i : Nat) | parked | hold | held | w | wNext | post
  deriving DecidableEq

def Pc.k : Pc → K
  | .lockDec _ | .waitSaving | .waitGotNode _ | .waitWroteData _ | .waitClearedNode _
  | .pushCleared _ => .pre
  | .pushXchgd m _ i => .xchgd m i
  | .parked => .parked
  | .acquired | .tryDone true | .unlockCalled => .hold
  | .held => .held
  | .wakeLoop | .popGotHead _ => .w
  | .popGotNext _ _ => .wNext
  | .popMoved _ _ | .popGotData _ _ _ | .popWrote _ _ | .wakeGotFiber _ _ | .wakeGaveNode _ _
  | .wakeReadState _ _ => .post
  | _ => .other

def K.isHold : K → Bool | .hold | .held => true | _ => false
def K.isWake : K → Bool | .w | .wNext => true | _ => false
def K.isPop : K → Bool | .w | .wNext | .post => true | _ => false

theorem k_isHold (p : Pc) : p.k.isHold = p.isHold := by
  cases p <;> simp [Pc.k, K.isHold, Pc.isHold]
  next r => cases r <;> simp
theorem k_isWake (p : Pc) : p.k.isWake = p.isWake := by
  cases p <;> simp [Pc.k, K.isWake, Pc.isWake]
  next r => cases r <;> simp
theorem k_isPop (p : Pc) : p.k.isPop = p.isPop := by
  cases p <;> simp [Pc.k, K.isPop, Pc.isPop, Pc.isWake, Pc.isPost]
  next r => cases r <;> simp
theorem k_post (p : Pc) : p.k = .post ↔ p.isPost = true := by
  cases p <;> simp [Pc.k, Pc.isPost]
  next r => cases r <;> simp
theorem k_pre (p : Pc) : p.k = .pre ↔ p.isPre = true := by
  cases p <;> simp [Pc.k, Pc.isPre]
  next r => cases r <;> simp
theorem k_parked (p : Pc) : p.k = .parked ↔ p = .parked := by
  cases p <;> simp [Pc.k]
  next r => cases r <;> simp
theorem k_held (p : Pc) : p.k = .held ↔ p = .held := by
  cases p <;> simp [Pc.k]
  next r => cases r <;> simp
theorem k_xchgd (p : Pc) (m i : Nat) : p.k = .xchgd m i ↔ ∃ q, p = .pushXchgd m q i := by
  cases p <;> simp [Pc.k]
  next r => cases r <;> simp
theorem k_wNext (p : Pc) : p.k = .wNext ↔ ∃ h x, p = .popGotNext h x := by
  cases p <;> simp [Pc.k]
  next r => cases r <;> simp

/-- "announced": has decremented `counter` in a contended `lock` and has not been handed the
    mutex yet.  (`o` = current owner, `f` = the fiber, `k` = its pc class.) -/
def annK (o : Option Nat) (f : Nat) : K → Bool
  | .pre => true
  | .xchgd _ _ => true
  | .parked => decide (o ≠ some f)
  | _ => false

/-- fiber `f` is an announced waiter in state `s` -/
def Ann (s : St) (f : Nat) : Prop := annK s.owner f (s.pc f).k = true

theorem ann_iff (s : St) (f : Nat) :
    Ann s f ↔ ((s.pc f).isPre = true ∨ (∃ m p i, s.pc f = .pushXchgd m p i) ∨
      (s.pc f = .parked ∧ s.owner ≠ some f)) := by
  unfold Ann
  cases h : s.pc f <;> simp [Pc.k, annK, Pc.isPre]
  next r => cases r <;> simp

/-! ### 2. cardinality of a predicate on fibers -/

/-- exactly `n` fibers satisfy `P` -/
def Card (P : Nat → Prop) (n : Nat) : Prop :=
  ∃ l : List Nat, l.Nodup ∧ (∀ f, f ∈ l ↔ P f) ∧ l.length = n

theorem Card.congr {P Q : Nat → Prop} {n : Nat} (h : Card P n) (hpq : ∀ f, Q f ↔ P f) :
    Card Q n := by
  obtain ⟨l, h1, h2, h3⟩ := h
  exact ⟨l, h1, fun f => by rw [h2, hpq], h3⟩

theorem Card.unique {P : Nat → Prop} {n m : Nat} (h : Card P n) (h' : Card P m) : n = m := by
  obtain ⟨l, h1, h2, h3⟩ := h
  obtain ⟨l', h1', h2', h3'⟩ := h'
  have : l.Perm l' := (List.perm_ext_iff_of_nodup h1 h1').2 (fun a => by rw [h2, h2'])
  rw [← h3, ← h3']; exact this.length_eq

theorem Card.insert {P Q : Nat → Prop} {n : Nat} (h : Card P n) (a : Nat) (ha : ¬ P a)
    (hq : ∀ f, Q f ↔ (f = a ∨ P f)) : Card Q (n + 1) := by
  obtain ⟨l, h1, h2, h3⟩ := h
  refine ⟨a :: l, ?_, ?_, by simp [h3]⟩
  · rw [List.nodup_cons]; exact ⟨fun hm => ha ((h2 a).1 hm), h1⟩
  · intro f; simp [h2, hq]

theorem Card.erase {P Q : Nat → Prop} {n : Nat} (h : Card P n) (a : Nat) (ha : P a)
    (hq : ∀ f, Q f ↔ (f ≠ a ∧ P f)) : 1 ≤ n ∧ Card Q (n - 1) := by
  obtain ⟨l, h1, h2, h3⟩ := h
  have hm : a ∈ l := (h2 a).2 ha
  refine ⟨?_, l.erase a, h1.erase a, ?_, by rw [List.length_erase_of_mem hm, h3]⟩
  · rw [← h3]; exact List.length_pos_of_mem hm
  · intro f; rw [h1.mem_erase_iff, h2, hq]

theorem Card.zero_iff {P : Nat → Prop} : Card P 0 ↔ ∀ f, ¬ P f := by
  constructor
  · rintro ⟨l, -, h2, h3⟩ f hf
    have := (h2 f).2 hf
    rw [List.length_eq_zero_iff.1 h3] at this; simp at this
  · intro h; exact ⟨[], by simp, fun f => by simp [h f], rfl⟩

theorem Card.pos {P : Nat → Prop} {n : Nat} (h : Card P n) (hn : 0 < n) : ∃ f, P f := by
  obtain ⟨l, -, h2, h3⟩ := h
  cases l with
  | nil => simp at h3; omega
  | cons a l => exact ⟨a, (h2 a).1 (by simp)⟩

theorem Card.pos_of {P : Nat → Prop} {n : Nat} (h : Card P n) {f : Nat} (hf : P f) : 0 < n := by
  obtain ⟨l, -, h2, h3⟩ := h
  rw [← h3]; exact List.length_pos_of_mem ((h2 f).2 hf)

/-! ### 3. the invariant -/

structure Inv (s : St) : Prop where
  /-- whoever is between acquire and release is the ghost owner -/
  hold_owner : ∀ f, (s.pc f).k.isHold = true → s.owner = some f
  /-- the ghost owner is between acquire and release, or was handed the mutex while parked -/
  owner_hold : ∀ f, s.owner = some f → (s.pc f).k.isHold = true ∨ (s.pc f).k = .parked
  /-- before its pop takes effect a waker sees a free mutex -/
  wake_free : ∀ f, (s.pc f).k.isWake = true → s.owner = none ∧ s.waking = false
  /-- single consumer of the waiter queue -/
  pop_one : ∀ f g, (s.pc f).k.isPop = true → (s.pc g).k.isPop = true → f = g
  post_waking : ∀ f, (s.pc f).k = .post → s.waking = true
  waking_owner : s.waking = true → ∃ g, s.owner = some g ∧ (s.pc g).k = .parked
  hd_le : s.hd ≤ s.order.length
  lnk_bound : ∀ i, s.order.length ≤ i → s.linked i = false
  q_xchgd : ∀ f m i, (s.pc f).k = .xchgd m i →
    s.order[i]? = some (m, f) ∧ s.hd ≤ i ∧ s.linked i = false
  q_parked : ∀ f, (s.pc f).k = .parked → s.owner ≠ some f →
    ∃ i n, s.hd ≤ i ∧ s.order[i]? = some (n, f) ∧ s.linked i = true
  q_ent : ∀ i n f, s.hd ≤ i → s.order[i]? = some (n, f) →
    (s.pc f).k = .xchgd n i ∨ ((s.pc f).k = .parked ∧ s.linked i = true)
  w_next : ∀ f, (s.pc f).k = .wNext → s.hd < s.order.length ∧ s.linked s.hd = true
  /-- the counting identity -/
  cnt : ∃ n, Card (Ann s) n ∧ s.counter = 1 - (if s.owner = none then 0 else 1) - (n : Int)
  /-- a waker in its loop has somebody to find -/
  wake_ann : ∀ f, (s.pc f).k.isWake = true → ∃ g, Ann s g
  /-- no stranded waiter -/
  free : s.owner = none → (∀ f, (s.pc f).k.isWake = false) → ∀ g, ¬ Ann s g
  cs_held : ∀ f, f ∈ s.inCs → (s.pc f).k = .held
  cs_nodup : s.inCs.Nodup
  cs_seen : ∀ f, f ∈ s.inCs → s.seen f = s.data

theorem inv_init (stub : Nat) (nodeOf : Nat → Nat) : Inv (init stub nodeOf) := by
  constructor <;> simp [init, Pc.k, K.isHold, K.isWake, K.isPop, Ann, annK]
  exact ⟨0, Card.zero_iff.2 (by simp [Ann, annK, Pc.k]), by simp⟩

end LibfiberVerif.Mutex
