/-
  Proof/JoinL2b.lean — preservation of layer 2 (second half) (generated layout: one theorem per conjunct of the invariant of Proof/JoinBase.lean,
  each by case analysis on the event and the acting fiber's program counter, then `grind`;
  the hypotheses of each theorem are exactly the conjuncts it depends on)
-/
import LibfiberVerif.Proof.JoinBase

set_option linter.unusedSimpArgs false
set_option linter.unusedVariables false

namespace LibfiberVerif.Join

variable {s s1 : St} {e : Ev}

set_option maxHeartbeats 4000000 in
theorem inv2_sv (sv : ∀ g v, untainted s g → v ∈ s.succ g → s.retval g = some v) (cv3 : ∀ g a op v, untainted s g → s.pc a = .retn op g true v → op ≠ .detach → s.retval g = some v) (hc : stepCore s e = some s1) : ∀ g v, untainted s1 g → v ∈ s1.succ g → s1.retval g = some v := by
  step_cases e with hc
  all_goals (intros; (try simp only [upd_apply, WFJ, DET, NONE, WTJ, untainted] at *); first | grind | grind (splits := 25) | grind (splits := 80) | ((repeat' split) <;> grind (splits := 80)))

set_option maxHeartbeats 4000000 in
theorem inv2_c1 (c1 : ∀ g b, untainted s g → takePh (s.pc b) g = true → parkF (s.pc g) = true) (c4 : ∀ g, untainted s g → s.det g = WFJ → (s.finTook g = true ∨ parkF (s.pc g) = true)) (uq : ∀ g a a', untainted s g → claimPath (s.pc a) g = true → claimPath (s.pc a') g = true → a = a') (hw : ∀ a op g v p, s.pc a = .wake op g v p → s.holder p = some a ∧ parkedIn (s.pc p) p g = true) (hc : stepCore s e = some s1) : ∀ g b, untainted s1 g → takePh (s1.pc b) g = true → parkF (s1.pc g) = true := by
  step_cases e with hc
  all_goals (intros; (try simp only [upd_apply, WFJ, DET, NONE, WTJ, untainted] at *); first | grind | grind (splits := 25) | grind (splits := 80) | ((repeat' split) <;> grind (splits := 80)))

set_option maxHeartbeats 4000000 in
theorem inv2_c4 (c4 : ∀ g, untainted s g → s.det g = WFJ → (s.finTook g = true ∨ parkF (s.pc g) = true)) (k3 : ∀ g a, untainted s g → claimPath (s.pc a) g = true → (s.det g ≠ WFJ ∨ s.finTook g = true)) (hw : ∀ a op g v p, s.pc a = .wake op g v p → s.holder p = some a ∧ parkedIn (s.pc p) p g = true) (wfj : ∀ g, s.det g = WFJ → finX (s.pc g) = true) (dr : ∀ g, s.det g ≤ 3) (hc : stepCore s e = some s1) : ∀ g, untainted s1 g → s1.det g = WFJ → (s1.finTook g = true ∨ parkF (s1.pc g) = true) := by
  step_cases e with hc
  all_goals (intros; (try simp only [upd_apply, WFJ, DET, NONE, WTJ, untainted] at *); first | grind | grind (splits := 25) | grind (splits := 80) | ((repeat' split) <;> grind (splits := 80)))

set_option maxHeartbeats 4000000 in
theorem inv2_c9 (c9 : ∀ g, untainted s g → s.det g = WTJ → finX (s.pc g) = false → (s.first g ≠ none ∧ ∀ p, s.first g = some p → joinerPark (s.pc p) g = true)) (fj : ∀ p g, joinerPath (s.pc p) g = true → s.first g = some p) (tl : ∀ a op g, s.pc a = .loaded op g → op ≠ .join → s.det g ≠ NONE) (wfj : ∀ g, s.det g = WFJ → finX (s.pc g) = true) (uq : ∀ g a a', untainted s g → claimPath (s.pc a) g = true → claimPath (s.pc a') g = true → a = a') (hw : ∀ a op g v p, s.pc a = .wake op g v p → s.holder p = some a ∧ parkedIn (s.pc p) p g = true) (hf : (∀ a p, s.pc a = .fGot p → s.holder p = some a ∧ s.pc p = .jParked a) ∧ (∀ a p v, s.pc a = .fGotRes p v → s.holder p = some a ∧ s.pc p = .jParked a) ∧ (∀ a p, s.pc a = .fGave p → s.holder p = some a ∧ s.pc p = .jParked a)) (cpn : ∀ a g, claimPath (s.pc a) g = true → s.det g ≠ NONE) (dr : ∀ g, s.det g ≤ 3) (hc : stepCore s e = some s1) : ∀ g, untainted s1 g → s1.det g = WTJ → finX (s1.pc g) = false → (s1.first g ≠ none ∧ ∀ p, s1.first g = some p → joinerPark (s1.pc p) g = true) := by
  step_cases e with hc
  all_goals (intros; (try simp only [upd_apply, WFJ, DET, NONE, WTJ, untainted] at *); first | grind | grind (splits := 25) | grind (splits := 80) | ((repeat' split) <;> grind (splits := 80)))

set_option maxHeartbeats 4000000 in
theorem inv2_ii (ii : ∀ g, untainted s g → s.pc g = .fTake → (s.first g ≠ none ∧ ∀ p, s.first g = some p → joinerPark (s.pc p) g = true)) (c9 : ∀ g, untainted s g → s.det g = WTJ → finX (s.pc g) = false → (s.first g ≠ none ∧ ∀ p, s.first g = some p → joinerPark (s.pc p) g = true)) (uq : ∀ g a a', untainted s g → claimPath (s.pc a) g = true → claimPath (s.pc a') g = true → a = a') (hw : ∀ a op g v p, s.pc a = .wake op g v p → s.holder p = some a ∧ parkedIn (s.pc p) p g = true) (hf : (∀ a p, s.pc a = .fGot p → s.holder p = some a ∧ s.pc p = .jParked a) ∧ (∀ a p v, s.pc a = .fGotRes p v → s.holder p = some a ∧ s.pc p = .jParked a) ∧ (∀ a p, s.pc a = .fGave p → s.holder p = some a ∧ s.pc p = .jParked a)) (hc : stepCore s e = some s1) : ∀ g, untainted s1 g → s1.pc g = .fTake → (s1.first g ≠ none ∧ ∀ p, s1.first g = some p → joinerPark (s1.pc p) g = true) := by
  step_cases e with hc
  all_goals (intros; (try simp only [upd_apply, WFJ, DET, NONE, WTJ, untainted] at *); first | grind | grind (splits := 25) | grind (splits := 80) | ((repeat' split) <;> grind (splits := 80)))

set_option maxHeartbeats 4000000 in
theorem inv2_iii (iii : ∀ g p, untainted s g → joinerPark (s.pc p) g = true → finX (s.pc g) = true → delivering (s.pc g) p = true) (k5 : ∀ g p, untainted s g → joinerPark (s.pc p) g = true → (s.det g = WTJ ∨ (s.det g = WFJ ∧ s.finTook g = true))) (cpn : ∀ a g, claimPath (s.pc a) g = true → s.det g ≠ NONE) (fxn : ∀ g, finX (s.pc g) = true → s.det g ≠ NONE) (wfj : ∀ g, s.det g = WFJ → finX (s.pc g) = true) (mb : ∀ g, s.ji g ≠ 0 → parkedIn (s.pc (s.ji g)) (s.ji g) g = true ∧ s.holder (s.ji g) = none) (uq : ∀ g a a', untainted s g → claimPath (s.pc a) g = true → claimPath (s.pc a') g = true → a = a') (hf : (∀ a p, s.pc a = .fGot p → s.holder p = some a ∧ s.pc p = .jParked a) ∧ (∀ a p v, s.pc a = .fGotRes p v → s.holder p = some a ∧ s.pc p = .jParked a) ∧ (∀ a p, s.pc a = .fGave p → s.holder p = some a ∧ s.pc p = .jParked a)) (hc : stepCore s e = some s1) : ∀ g p, untainted s1 g → joinerPark (s1.pc p) g = true → finX (s1.pc g) = true → delivering (s1.pc g) p = true := by
  step_cases e with hc
  all_goals (intros; (try simp only [upd_apply, WFJ, DET, NONE, WTJ, untainted] at *); first | grind | grind (splits := 25) | grind (splits := 80) | ((repeat' split) <;> grind (splits := 80)))

set_option maxHeartbeats 4000000 in
theorem inv2_iv (iv : ∀ g, untainted s g → parkF (s.pc g) = true → s.det g ≠ WFJ → (s.taker g ≠ none ∧ ∀ b, s.taker g = some b → takePh (s.pc b) g = true)) (hw : ∀ a op g v p, s.pc a = .wake op g v p → s.holder p = some a ∧ parkedIn (s.pc p) p g = true) (uq : ∀ g a a', untainted s g → claimPath (s.pc a) g = true → claimPath (s.pc a') g = true → a = a') (wfj : ∀ g, s.det g = WFJ → finX (s.pc g) = true) (c1 : ∀ g b, untainted s g → takePh (s.pc b) g = true → parkF (s.pc g) = true) (hc : stepCore s e = some s1) : ∀ g, untainted s1 g → parkF (s1.pc g) = true → s1.det g ≠ WFJ → (s1.taker g ≠ none ∧ ∀ b, s1.taker g = some b → takePh (s1.pc b) g = true) := by
  step_cases e with hc
  all_goals (intros; (try simp only [upd_apply, WFJ, DET, NONE, WTJ, untainted] at *); first | grind | grind (splits := 25) | grind (splits := 80) | ((repeat' split) <;> grind (splits := 80)))

set_option maxHeartbeats 4000000 in
theorem inv2_t4 (t4 : ∀ g, untainted s g → s.detX g = true → s.det g = DET) (hc : stepCore s e = some s1) : ∀ g, untainted s1 g → s1.detX g = true → s1.det g = DET := by
  step_cases e with hc
  all_goals (intros; (try simp only [upd_apply, WFJ, DET, NONE, WTJ, untainted] at *); first | grind | grind (splits := 25) | grind (splits := 80) | ((repeat' split) <;> grind (splits := 80)))

set_option maxHeartbeats 4000000 in
theorem inv2_dx1 (dx1 : ∀ g, untainted s g → s.detX g = true → s.succ g = []) (dx2 : ∀ g a, untainted s g → s.detX g = true → claimPath (s.pc a) g = true → detTake (s.pc a) g = true) (scn : ∀ g, s.succ g ≠ [] → s.det g ≠ NONE) (k4 : ∀ g, untainted s g → s.succ g ≠ [] → (s.det g ≠ WFJ ∨ s.finTook g = true)) (t4 : ∀ g, untainted s g → s.detX g = true → s.det g = DET) (detx : ∀ g, s.det g = DET → s.detX g = true) (dr : ∀ g, s.det g ≤ 3) (hc : stepCore s e = some s1) : ∀ g, untainted s1 g → s1.detX g = true → s1.succ g = [] := by
  step_cases e with hc
  all_goals (intros; (try simp only [upd_apply, WFJ, DET, NONE, WTJ, untainted] at *); first | grind | grind (splits := 25) | grind (splits := 80) | ((repeat' split) <;> grind (splits := 80)))

set_option maxHeartbeats 4000000 in
theorem inv2_dx2 (dx2 : ∀ g a, untainted s g → s.detX g = true → claimPath (s.pc a) g = true → detTake (s.pc a) g = true) (cpn : ∀ a g, claimPath (s.pc a) g = true → s.det g ≠ NONE) (k3 : ∀ g a, untainted s g → claimPath (s.pc a) g = true → (s.det g ≠ WFJ ∨ s.finTook g = true)) (t4 : ∀ g, untainted s g → s.detX g = true → s.det g = DET) (detx : ∀ g, s.det g = DET → s.detX g = true) (dr : ∀ g, s.det g ≤ 3) (hc : stepCore s e = some s1) : ∀ g a, untainted s1 g → s1.detX g = true → claimPath (s1.pc a) g = true → detTake (s1.pc a) g = true := by
  step_cases e with hc
  all_goals (intros; (try simp only [upd_apply, WFJ, DET, NONE, WTJ, untainted] at *); first | grind | grind (splits := 25) | grind (splits := 80) | ((repeat' split) <;> grind (splits := 80)))

end LibfiberVerif.Join
