/-
  Proof/JoinL1.lean — preservation of layer 1 (generated layout: one theorem per conjunct of the invariant of Proof/JoinBase.lean,
  each by case analysis on the event and the acting fiber's program counter, then `grind`;
  the hypotheses of each theorem are exactly the conjuncts it depends on)
-/
import LibfiberVerif.Proof.JoinBase

set_option linter.unusedSimpArgs false
set_option linter.unusedVariables false

namespace LibfiberVerif.Join

variable {s s1 : St} {e : Ev}

set_option maxHeartbeats 4000000 in
theorem inv1_mb (mb : ∀ g, s.ji g ≠ 0 → parkedIn (s.pc (s.ji g)) (s.ji g) g = true ∧ s.holder (s.ji g) = none) (hh : ∀ p, s.holder p = none ∨ ∃ a, s.holder p = some a ∧ holds (s.pc a) p = true) (hw : ∀ a op g v p, s.pc a = .wake op g v p → s.holder p = some a ∧ parkedIn (s.pc p) p g = true) (hf : (∀ a p, s.pc a = .fGot p → s.holder p = some a ∧ s.pc p = .jParked a) ∧ (∀ a p v, s.pc a = .fGotRes p v → s.holder p = some a ∧ s.pc p = .jParked a) ∧ (∀ a p, s.pc a = .fGave p → s.holder p = some a ∧ s.pc p = .jParked a)) (hc : stepCore s e = some s1) : ∀ g, s1.ji g ≠ 0 → parkedIn (s1.pc (s1.ji g)) (s1.ji g) g = true ∧ s1.holder (s1.ji g) = none := by
  step_cases e with hc
  all_goals (intros; (try simp only [upd_apply, WFJ, DET, NONE, WTJ, untainted] at *); first | grind | grind (splits := 25) | grind (splits := 80) | ((repeat' split) <;> grind (splits := 80)))

set_option maxHeartbeats 4000000 in
theorem inv1_hw (hw : ∀ a op g v p, s.pc a = .wake op g v p → s.holder p = some a ∧ parkedIn (s.pc p) p g = true) (mb : ∀ g, s.ji g ≠ 0 → parkedIn (s.pc (s.ji g)) (s.ji g) g = true ∧ s.holder (s.ji g) = none) (hf : (∀ a p, s.pc a = .fGot p → s.holder p = some a ∧ s.pc p = .jParked a) ∧ (∀ a p v, s.pc a = .fGotRes p v → s.holder p = some a ∧ s.pc p = .jParked a) ∧ (∀ a p, s.pc a = .fGave p → s.holder p = some a ∧ s.pc p = .jParked a)) (hh : ∀ p, s.holder p = none ∨ ∃ a, s.holder p = some a ∧ holds (s.pc a) p = true) (hc : stepCore s e = some s1) : ∀ a op g v p, s1.pc a = .wake op g v p → s1.holder p = some a ∧ parkedIn (s1.pc p) p g = true := by
  step_cases e with hc
  all_goals (intros; (try simp only [upd_apply, WFJ, DET, NONE, WTJ, untainted] at *); first | grind | grind (splits := 25) | grind (splits := 80) | ((repeat' split) <;> grind (splits := 80)))

set_option maxHeartbeats 4000000 in
theorem inv1_hf (hf : (∀ a p, s.pc a = .fGot p → s.holder p = some a ∧ s.pc p = .jParked a) ∧ (∀ a p v, s.pc a = .fGotRes p v → s.holder p = some a ∧ s.pc p = .jParked a) ∧ (∀ a p, s.pc a = .fGave p → s.holder p = some a ∧ s.pc p = .jParked a)) (mb : ∀ g, s.ji g ≠ 0 → parkedIn (s.pc (s.ji g)) (s.ji g) g = true ∧ s.holder (s.ji g) = none) (hw : ∀ a op g v p, s.pc a = .wake op g v p → s.holder p = some a ∧ parkedIn (s.pc p) p g = true) (hh : ∀ p, s.holder p = none ∨ ∃ a, s.holder p = some a ∧ holds (s.pc a) p = true) (hc : stepCore s e = some s1) : (∀ a p, s1.pc a = .fGot p → s1.holder p = some a ∧ s1.pc p = .jParked a) ∧ (∀ a p v, s1.pc a = .fGotRes p v → s1.holder p = some a ∧ s1.pc p = .jParked a) ∧ (∀ a p, s1.pc a = .fGave p → s1.holder p = some a ∧ s1.pc p = .jParked a) := by
  step_cases e with hc
  all_goals (intros; (try simp only [upd_apply, WFJ, DET, NONE, WTJ, untainted] at *); first | grind | grind (splits := 25) | grind (splits := 80) | ((repeat' split) <;> grind (splits := 80)))

set_option maxHeartbeats 4000000 in
theorem inv1_hh (hh : ∀ p, s.holder p = none ∨ ∃ a, s.holder p = some a ∧ holds (s.pc a) p = true) (hw : ∀ a op g v p, s.pc a = .wake op g v p → s.holder p = some a ∧ parkedIn (s.pc p) p g = true) (hf : (∀ a p, s.pc a = .fGot p → s.holder p = some a ∧ s.pc p = .jParked a) ∧ (∀ a p v, s.pc a = .fGotRes p v → s.holder p = some a ∧ s.pc p = .jParked a) ∧ (∀ a p, s.pc a = .fGave p → s.holder p = some a ∧ s.pc p = .jParked a)) (mb : ∀ g, s.ji g ≠ 0 → parkedIn (s.pc (s.ji g)) (s.ji g) g = true ∧ s.holder (s.ji g) = none) (hc : stepCore s e = some s1) : ∀ p, s1.holder p = none ∨ ∃ a, s1.holder p = some a ∧ holds (s1.pc a) p = true := by
  step_cases e with hc
  all_goals (intros; (try simp only [upd_apply, WFJ, DET, NONE, WTJ, untainted] at *); first | grind | grind (splits := 25) | grind (splits := 80) | ((repeat' split) <;> grind (splits := 80)))

set_option maxHeartbeats 4000000 in
theorem inv1_st (st : ∀ g, stored (s.pc g) = true → s.retval g = some (s.res g)) (fret : ∀ g v, s.pc g = .fRet v → s.retval g = some v) (hf : (∀ a p, s.pc a = .fGot p → s.holder p = some a ∧ s.pc p = .jParked a) ∧ (∀ a p v, s.pc a = .fGotRes p v → s.holder p = some a ∧ s.pc p = .jParked a) ∧ (∀ a p, s.pc a = .fGave p → s.holder p = some a ∧ s.pc p = .jParked a)) (hc : stepCore s e = some s1) : ∀ g, stored (s1.pc g) = true → s1.retval g = some (s1.res g) := by
  step_cases e with hc
  all_goals (intros; (try simp only [upd_apply, WFJ, DET, NONE, WTJ, untainted] at *); first | grind | grind (splits := 25) | grind (splits := 80) | ((repeat' split) <;> grind (splits := 80)))

set_option maxHeartbeats 4000000 in
theorem inv1_t0 (t0 : ∀ a op g, s.pc a = .take0 op g → finX (s.pc g) = true) (wfj : ∀ g, s.det g = WFJ → finX (s.pc g) = true) (hc : stepCore s e = some s1) : ∀ a op g, s1.pc a = .take0 op g → finX (s1.pc g) = true := by
  step_cases e with hc
  all_goals (intros; (try simp only [upd_apply, WFJ, DET, NONE, WTJ, untainted] at *); first | grind | grind (splits := 25) | grind (splits := 80) | ((repeat' split) <;> grind (splits := 80)))

set_option maxHeartbeats 4000000 in
theorem inv1_tv (tv : ∀ a op g v, s.pc a = .take op g v → op ≠ .detach → s.retval g = some v) (st : ∀ g, stored (s.pc g) = true → s.retval g = some (s.res g)) (t0 : ∀ a op g, s.pc a = .take0 op g → finX (s.pc g) = true) (wfj : ∀ g, s.det g = WFJ → finX (s.pc g) = true) (hc : stepCore s e = some s1) : ∀ a op g v, s1.pc a = .take op g v → op ≠ .detach → s1.retval g = some v := by
  step_cases e with hc
  all_goals (intros; (try simp only [upd_apply, WFJ, DET, NONE, WTJ, untainted] at *); first | grind | grind (splits := 25) | grind (splits := 80) | ((repeat' split) <;> grind (splits := 80)))

set_option maxHeartbeats 4000000 in
theorem inv1_wv (wv : ∀ a op g v p, s.pc a = .wake op g v p → op ≠ .detach → s.retval g = some v) (tv : ∀ a op g v, s.pc a = .take op g v → op ≠ .detach → s.retval g = some v) (hc : stepCore s e = some s1) : ∀ a op g v p, s1.pc a = .wake op g v p → op ≠ .detach → s1.retval g = some v := by
  step_cases e with hc
  all_goals (intros; (try simp only [upd_apply, WFJ, DET, NONE, WTJ, untainted] at *); first | grind | grind (splits := 25) | grind (splits := 80) | ((repeat' split) <;> grind (splits := 80)))

set_option maxHeartbeats 4000000 in
theorem inv1_gr (gr : ∀ g p v, s.pc g = .fGotRes p v → s.retval g = some v) (st : ∀ g, stored (s.pc g) = true → s.retval g = some (s.res g)) (hc : stepCore s e = some s1) : ∀ g p v, s1.pc g = .fGotRes p v → s1.retval g = some v := by
  step_cases e with hc
  all_goals (intros; (try simp only [upd_apply, WFJ, DET, NONE, WTJ, untainted] at *); first | grind | grind (splits := 25) | grind (splits := 80) | ((repeat' split) <;> grind (splits := 80)))

set_option maxHeartbeats 4000000 in
theorem inv1_gv (gv : ∀ g p, s.pc g = .fGave p → s.retval g = some (s.res p)) (gr : ∀ g p v, s.pc g = .fGotRes p v → s.retval g = some v) (hf : (∀ a p, s.pc a = .fGot p → s.holder p = some a ∧ s.pc p = .jParked a) ∧ (∀ a p v, s.pc a = .fGotRes p v → s.holder p = some a ∧ s.pc p = .jParked a) ∧ (∀ a p, s.pc a = .fGave p → s.holder p = some a ∧ s.pc p = .jParked a)) (hc : stepCore s e = some s1) : ∀ g p, s1.pc g = .fGave p → s1.retval g = some (s1.res p) := by
  step_cases e with hc
  all_goals (intros; (try simp only [upd_apply, WFJ, DET, NONE, WTJ, untainted] at *); first | grind | grind (splits := 25) | grind (splits := 80) | ((repeat' split) <;> grind (splits := 80)))

set_option maxHeartbeats 4000000 in
theorem inv1_dj (dj : ∀ g, (s.pc g = .fWoken ∨ s.pc g = .fMark ∨ s.pc g = .fDone) → (s.claimed g = true ∨ s.detX g = true)) (detx : ∀ g, s.det g = DET → s.detX g = true) (wfj : ∀ g, s.det g = WFJ → finX (s.pc g) = true) (tcl : ∀ b g, takePh (s.pc b) g = true → (s.claimed g = true ∨ s.detX g = true)) (fc : ∀ g, holdsFAny (s.pc g) = true → s.claimed g = true) (hw : ∀ a op g v p, s.pc a = .wake op g v p → s.holder p = some a ∧ parkedIn (s.pc p) p g = true) (dr : ∀ g, s.det g ≤ 3) (hc : stepCore s e = some s1) : ∀ g, (s1.pc g = .fWoken ∨ s1.pc g = .fMark ∨ s1.pc g = .fDone) → (s1.claimed g = true ∨ s1.detX g = true) := by
  step_cases e with hc
  all_goals (intros; (try simp only [upd_apply, WFJ, DET, NONE, WTJ, untainted] at *); first | grind | grind (splits := 25) | grind (splits := 80) | ((repeat' split) <;> grind (splits := 80)))

set_option maxHeartbeats 4000000 in
theorem inv1_sc (sc : ∀ a, slotFree (s.pc a) = true → s.res a = 0) (hf : (∀ a p, s.pc a = .fGot p → s.holder p = some a ∧ s.pc p = .jParked a) ∧ (∀ a p v, s.pc a = .fGotRes p v → s.holder p = some a ∧ s.pc p = .jParked a) ∧ (∀ a p, s.pc a = .fGave p → s.holder p = some a ∧ s.pc p = .jParked a)) (hc : stepCore s e = some s1) : ∀ a, slotFree (s1.pc a) = true → s1.res a = 0 := by
  step_cases e with hc
  all_goals (intros; (try simp only [upd_apply, WFJ, DET, NONE, WTJ, untainted] at *); first | grind | grind (splits := 25) | grind (splits := 80) | ((repeat' split) <;> grind (splits := 80)))

set_option maxHeartbeats 4000000 in
theorem inv1_jo1 (jo1 : ∀ p t, s.pc p = .jParked t → (s.res p = 0 ∨ s.retval t = some (s.res p))) (sc : ∀ a, slotFree (s.pc a) = true → s.res a = 0) (hf : (∀ a p, s.pc a = .fGot p → s.holder p = some a ∧ s.pc p = .jParked a) ∧ (∀ a p v, s.pc a = .fGotRes p v → s.holder p = some a ∧ s.pc p = .jParked a) ∧ (∀ a p, s.pc a = .fGave p → s.holder p = some a ∧ s.pc p = .jParked a)) (gr : ∀ g p v, s.pc g = .fGotRes p v → s.retval g = some v) (hc : stepCore s e = some s1) : ∀ p t, s1.pc p = .jParked t → (s1.res p = 0 ∨ s1.retval t = some (s1.res p)) := by
  step_cases e with hc
  all_goals (intros; (try simp only [upd_apply, WFJ, DET, NONE, WTJ, untainted] at *); first | grind | grind (splits := 25) | grind (splits := 80) | ((repeat' split) <;> grind (splits := 80)))

set_option maxHeartbeats 4000000 in
theorem inv1_jo2 (jo2 : ∀ p t, s.pc p = .jWoken t → (s.res p = 0 ∨ s.retval t = some (s.res p))) (jo1 : ∀ p t, s.pc p = .jParked t → (s.res p = 0 ∨ s.retval t = some (s.res p))) (hf : (∀ a p, s.pc a = .fGot p → s.holder p = some a ∧ s.pc p = .jParked a) ∧ (∀ a p v, s.pc a = .fGotRes p v → s.holder p = some a ∧ s.pc p = .jParked a) ∧ (∀ a p, s.pc a = .fGave p → s.holder p = some a ∧ s.pc p = .jParked a)) (hc : stepCore s e = some s1) : ∀ p t, s1.pc p = .jWoken t → (s1.res p = 0 ∨ s1.retval t = some (s1.res p)) := by
  step_cases e with hc
  all_goals (intros; (try simp only [upd_apply, WFJ, DET, NONE, WTJ, untainted] at *); first | grind | grind (splits := 25) | grind (splits := 80) | ((repeat' split) <;> grind (splits := 80)))

set_option maxHeartbeats 4000000 in
theorem inv1_jo3 (jo3 : ∀ p t v, s.pc p = .jGotRes t v → (v = 0 ∨ s.retval t = some v)) (jo2 : ∀ p t, s.pc p = .jWoken t → (s.res p = 0 ∨ s.retval t = some (s.res p))) (hc : stepCore s e = some s1) : ∀ p t v, s1.pc p = .jGotRes t v → (v = 0 ∨ s1.retval t = some v) := by
  step_cases e with hc
  all_goals (intros; (try simp only [upd_apply, WFJ, DET, NONE, WTJ, untainted] at *); first | grind | grind (splits := 25) | grind (splits := 80) | ((repeat' split) <;> grind (splits := 80)))

set_option maxHeartbeats 4000000 in
theorem inv1_jo4 (jo4 : ∀ a op t v, s.pc a = .retn op t true v → op ≠ .detach → (v = 0 ∨ s.retval t = some v)) (jo3 : ∀ p t v, s.pc p = .jGotRes t v → (v = 0 ∨ s.retval t = some v)) (jo2 : ∀ p t, s.pc p = .jWoken t → (s.res p = 0 ∨ s.retval t = some (s.res p))) (wv : ∀ a op g v p, s.pc a = .wake op g v p → op ≠ .detach → s.retval g = some v) (hc : stepCore s e = some s1) : ∀ a op t v, s1.pc a = .retn op t true v → op ≠ .detach → (v = 0 ∨ s1.retval t = some v) := by
  step_cases e with hc
  all_goals (intros; (try simp only [upd_apply, WFJ, DET, NONE, WTJ, untainted] at *); first | grind | grind (splits := 25) | grind (splits := 80) | ((repeat' split) <;> grind (splits := 80)))

set_option maxHeartbeats 4000000 in
theorem inv1_jo5 (jo5 : ∀ t v, v ∈ s.succ t → (v = 0 ∨ s.retval t = some v)) (jo4 : ∀ a op t v, s.pc a = .retn op t true v → op ≠ .detach → (v = 0 ∨ s.retval t = some v)) (hc : stepCore s e = some s1) : ∀ t v, v ∈ s1.succ t → (v = 0 ∨ s1.retval t = some v) := by
  step_cases e with hc
  all_goals (intros; (try simp only [upd_apply, WFJ, DET, NONE, WTJ, untainted] at *); first | grind | grind (splits := 25) | grind (splits := 80) | ((repeat' split) <;> grind (splits := 80)))

end LibfiberVerif.Join
