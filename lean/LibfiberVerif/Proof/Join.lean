/-
  Proof/Join.lean — invariants of the join / tryjoin / detach / completion protocol model
  (Model/Join.lean), property C04.   (generated layout: one theorem per conjunct so that Lean
  elaborates them in parallel; every conjunct is proved by case analysis on the event and the
  acting fiber's program counter followed by `grind`.)

  Layers, all by induction over accepted events (`Sys.inv_of_run`), for an unbounded number of
  fibers, targets and calls:
    Inv0  simple unconditional facts about detach_state and the ghost fields
    Inv1  the mailbox discipline (a parked fiber is in at most one place: its mailbox, or in the
          hands of exactly one holder) and the value facts that follow from it
    Inv2  the protocol proper, for every target on which none of the three windows
          (tDetach / tThird / tOver, see Model/Join.lean) has been opened
    Inv3  no post-exchange access to a destroyed fiber (same hypothesis)
-/
import LibfiberVerif.Proof.JoinL0
import LibfiberVerif.Proof.JoinL1
import LibfiberVerif.Proof.JoinL2a
import LibfiberVerif.Proof.JoinL2b

set_option linter.unusedSimpArgs false
set_option linter.unusedVariables false

namespace LibfiberVerif.Join

variable {s s1 : St} {e : Ev}

theorem inv0_core (h0 : Inv0 s) (hc : stepCore s e = some s1) : Inv0 s1 :=
  ⟨inv0_dr h0 hc, inv0_wfj h0 hc, inv0_detx h0 hc, inv0_fret h0 hc, inv0_tl h0 hc, inv0_cpn h0 hc, inv0_scn h0 hc, inv0_fxn h0 hc, inv0_dst h0 hc, inv0_fj h0 hc, inv0_ff h0 hc, inv0_tcl h0 hc, inv0_fc h0 hc⟩

theorem inv1_core (h0 : Inv0 s) (h1 : Inv1 s) (hc : stepCore s e = some s1) : Inv1 s1 :=
  ⟨inv1_mb h1.mb h1.hh h1.hw h1.hf hc, inv1_hw h1.hw h1.mb h1.hf h1.hh hc, inv1_hf h1.hf h1.mb h1.hw h1.hh hc, inv1_hh h1.hh h1.hw h1.hf h1.mb hc, inv1_st h1.st h0.fret h1.hf hc, inv1_t0 h1.t0 h0.wfj hc, inv1_tv h1.tv h1.st h1.t0 h0.wfj hc, inv1_wv h1.wv h1.tv hc, inv1_gr h1.gr h1.st hc, inv1_gv h1.gv h1.gr h1.hf hc, inv1_dj h1.dj h0.detx h0.wfj h0.tcl h0.fc h1.hw h0.dr hc, inv1_sc h1.sc h1.hf hc, inv1_jo1 h1.jo1 h1.sc h1.hf h1.gr hc, inv1_jo2 h1.jo2 h1.jo1 h1.hf hc, inv1_jo3 h1.jo3 h1.jo2 hc, inv1_jo4 h1.jo4 h1.jo3 h1.jo2 h1.wv hc, inv1_jo5 h1.jo5 h1.jo4 hc⟩

theorem inv2_core (h0 : Inv0 s) (h1 : Inv1 s) (h2 : Inv2 s) (hc : stepCore s e = some s1) : Inv2 s1 :=
  ⟨inv2_k3 h2.k3 h0.cpn h0.dr h0.wfj hc, inv2_k4 h2.k4 h2.k3 h0.scn h0.dr h0.wfj hc, inv2_k5 h2.k5 h0.cpn hc, inv2_uq h2.uq h0.cpn h2.k3 hc, inv2_sq h2.sq h2.uq h0.scn h2.k4 hc, inv2_sl h2.sl h2.sq hc, inv2_cv1 h2.cv1 h1.gv h1.hf h1.hw h2.uq hc, inv2_cv2 h2.cv2 h2.cv1 hc, inv2_cv3 h2.cv3 h2.cv2 h2.cv1 h1.wv hc, inv2_sv h2.sv h2.cv3 hc, inv2_c1 h2.c1 h2.c4 h2.uq h1.hw hc, inv2_c4 h2.c4 h2.k3 h1.hw h0.wfj h0.dr hc, inv2_c9 h2.c9 h0.fj h0.tl h0.wfj h2.uq h1.hw h1.hf h0.cpn h0.dr hc, inv2_ii h2.ii h2.c9 h2.uq h1.hw h1.hf hc, inv2_iii h2.iii h2.k5 h0.cpn h0.fxn h0.wfj h1.mb h2.uq h1.hf hc, inv2_iv h2.iv h1.hw h2.uq h0.wfj h2.c1 hc, inv2_t4 h2.t4 hc, inv2_dx1 h2.dx1 h2.dx2 h0.scn h2.k4 h2.t4 h0.detx h0.dr hc, inv2_dx2 h2.dx2 h0.cpn h2.k3 h2.t4 h0.detx h0.dr hc⟩

/-! ### layer 3: no post-exchange access to a destroyed fiber -/

theorem core_late (hc : stepCore s e = some s1) : s1.late = s.late := by
  step_cases e with hc
  all_goals rfl

theorem ut_mono (hc : stepCore s e = some s1) : ∀ g, untainted s1 g → untainted s g := by
  step_cases e with hc
  all_goals (intros; (try simp only [upd_apply, WFJ, DET, NONE, WTJ, untainted] at *); grind)

theorem destroyed_mono (hc : stepCore s e = some s1) (hcnt : e.counted = true) : s1.destroyed = s.destroyed := by
  step_cases e with hc
  all_goals (first | rfl | simp [Ev.counted] at hcnt)

set_option maxHeartbeats 4000000 in
/-- a counted (post-exchange) access never hits a destroyed fiber on which no window was opened -/
theorem no_late (dst : ∀ g, s.destroyed g = true → s.pc g = .fDone)
    (c1 : ∀ g b, untainted s g → takePh (s.pc b) g = true → parkF (s.pc g) = true)
    (iii : ∀ g p, untainted s g → joinerPark (s.pc p) g = true → finX (s.pc g) = true → delivering (s.pc g) p = true)
    (hw : ∀ a op g v p, s.pc a = .wake op g v p → s.holder p = some a ∧ parkedIn (s.pc p) p g = true)
    (hf : (∀ a p, s.pc a = .fGot p → s.holder p = some a ∧ s.pc p = .jParked a) ∧ (∀ a p v, s.pc a = .fGotRes p v → s.holder p = some a ∧ s.pc p = .jParked a) ∧ (∀ a p, s.pc a = .fGave p → s.holder p = some a ∧ s.pc p = .jParked a))
    (hc : stepCore s e = some s1) (hcnt : e.counted = true) (hd : s.destroyed e.cellOf = true)
    (hu : untainted s e.cellOf) : False := by
  step_cases e with hc
  all_goals (first | (simp [Ev.counted] at hcnt; done) | skip)
  all_goals (simp only [Ev.cellOf, untainted] at *; grind)

def Inv3 (s : St) : Prop := ∀ g, untainted s g → s.late g = 0

/-! ### the invariant of all reachable states -/

structure Inv (s : St) : Prop where
  i0 : Inv0 s
  i1 : Inv1 s
  i2 : Inv2 s
  i3 : Inv3 s

theorem inv0_late {s : St} (l : Nat → Nat) (h : Inv0 s) : Inv0 { s with late := l } := by
  cases h; constructor <;> assumption
theorem inv1_late {s : St} (l : Nat → Nat) (h : Inv1 s) : Inv1 { s with late := l } := by
  cases h; constructor <;> assumption
theorem inv2_late {s : St} (l : Nat → Nat) (h : Inv2 s) : Inv2 { s with late := l } := by
  cases h; constructor <;> assumption

theorem inv_init (isT : Nat → Bool) : Inv (init isT) := by
  refine ⟨?_, ?_, ?_, ?_⟩
  · constructor <;> intros <;> simp_all [init, DET, NONE, WFJ, WTJ] <;> grind
  · constructor <;> intros <;> simp_all [init, DET, NONE, WFJ, WTJ]
  · constructor <;> intros <;> simp_all [init, DET, NONE, WFJ, WTJ, untainted] <;> grind
  · intro g _; rfl

theorem inv_step (isT : Nat → Bool) (s : St) (e : Ev) (s' : St) (hI : Inv s)
    (h : (sys isT).step s e = some s') : Inv s' := by
  obtain ⟨s1, hc, rfl⟩ := step_some h
  obtain ⟨h0, h1, h2, h3⟩ := hI
  refine ⟨inv0_late _ (inv0_core h0 hc), inv1_late _ (inv1_core h0 h1 hc), inv2_late _ (inv2_core h0 h1 h2 hc), ?_⟩
  intro g hu
  have hu1 : untainted s1 g := hu
  have hus : untainted s g := ut_mono hc g hu1
  have hl : s1.late = s.late := core_late hc
  show (if e.counted = true ∧ s1.destroyed e.cellOf = true then upd s1.late e.cellOf (s1.late e.cellOf + 1) else s1.late) g = 0
  by_cases hcd : e.counted = true ∧ s1.destroyed e.cellOf = true
  · by_cases hg : g = e.cellOf
    · exfalso
      subst hg
      have hd : s.destroyed e.cellOf = true := by rw [← destroyed_mono hc hcd.1]; exact hcd.2
      exact no_late h0.dst h2.c1 h2.iii h1.hw h1.hf hc hcd.1 hd hus
    · rw [if_pos hcd, upd_other _ _ _ _ hg, hl]; exact h3 g hus
  · rw [if_neg hcd, hl]; exact h3 g hus

theorem inv_of_run {isT : Nat → Bool} {es : List Ev} {s : St} (h : (sys isT).run es = some s) : Inv s :=
  Sys.inv_of_run (sys isT) Inv (inv_init isT) (inv_step isT) h

end LibfiberVerif.Join
