/-
  Proof/Join.lean — invariants of the join / tryjoin / detach / completion protocol model
  (Model/Join.lean), property C04.

  Three layers, all by induction over accepted events (`Sys.inv_of_run`), for an unbounded
  number of fibers, targets and calls:
    Inv0  simple unconditional facts about detach_state and the ghost fields
    Inv1  the mailbox discipline (a parked fiber is in at most one place: its mailbox, or in
          the hands of exactly one holder) and the value facts that follow from it
    Inv2  the protocol proper, for every target on which none of the three windows
          (tDetach / tThird / tOver, see Model/Join.lean) has been opened
    Inv3  no post-exchange access to a destroyed fiber (same hypothesis)
-/
import LibfiberVerif.Model.Join

namespace LibfiberVerif.Join

/-! ### predicates on program counters -/

/-- the fiber is past the exchange (or the DETACHED short-cut) of its own completion -/
@[simp] def finX : Pc → Bool
  | .fPark0 | .fParking | .fParked | .fWoken | .fTake | .fGot _ | .fGotRes _ _ | .fGave _ | .fMark | .fDone => true
  | _ => false

/-- the fiber has stored its result -/
@[simp] def stored : Pc → Bool
  | .fStored | .fLoaded => true
  | c => finX c

/-- the finished fiber is on its way into its own mailbox, or in it -/
@[simp] def parkF : Pc → Bool
  | .fPark0 | .fParking | .fParked => true
  | _ => false

/-- a joiner on its way into g's mailbox, or in it -/
@[simp] def joinerPark (c : Pc) (g : Nat) : Bool :=
  match c with
  | .jPark0 t | .jParking t | .jParked t => t == g
  | _ => false

@[simp] def joinerPath (c : Pc) (g : Nat) : Bool :=
  match c with
  | .jPark0 t | .jParking t | .jParked t | .jWoken t | .jGotRes t _ => t == g
  | _ => false

/-- a client that claimed the finished fiber and has not woken it yet -/
@[simp] def takePh (c : Pc) (g : Nat) : Bool :=
  match c with
  | .take0 _ t | .take _ t _ | .wake _ t _ _ => t == g
  | _ => false

/-- every program point from which a client still acts on g's mailbox / will report SUCCESS -/
@[simp] def claimPath (c : Pc) (g : Nat) : Bool :=
  match c with
  | .jPark0 t | .jParking t | .jParked t | .jWoken t | .jGotRes t _ => t == g
  | .take0 _ t | .take _ t _ | .wake _ t _ _ => t == g
  | .retn op t ok _ => t == g && ok && op != .detach
  | _ => false

/-- a holds p: it took p out of a mailbox and is about to wake it -/
@[simp] def holds (c : Pc) (p : Nat) : Bool :=
  match c with
  | .wake _ _ _ q | .fGot q | .fGotRes q _ | .fGave q => q == p
  | _ => false

/-- q is parked in g's mailbox protocol-wise -/
@[simp] def parkedIn (c : Pc) (q g : Nat) : Bool :=
  match c with
  | .jParked t => t == g
  | .fParked => q == g
  | _ => false

/-- the finishing fiber is busy delivering to its joiner p -/
@[simp] def delivering (c : Pc) (p : Nat) : Bool :=
  match c with
  | .fTake => true
  | .fGot q | .fGotRes q _ | .fGave q => q == p
  | _ => false

/-! ### from `step` to `stepCore` -/

theorem step_some {s : St} {e : Ev} {s' : St} (h : step s e = some s') :
    ∃ s1, stepCore s e = some s1 ∧
      s' = { s1 with late := if e.counted ∧ s1.destroyed e.cellOf then upd s1.late e.cellOf (s1.late e.cellOf + 1) else s1.late } := by
  unfold step at h
  cases hc : stepCore s e with
  | none => simp [hc] at h
  | some s1 => simp [hc] at h; exact ⟨s1, rfl, h.symm⟩

/-! ### layer 0 -/

structure Inv0 (s : St) : Prop where
  wfj : ∀ g, s.det g = WFJ → finX (s.pc g) = true
  detx : ∀ g, s.det g = DET → s.detX g = true
  fret : ∀ g v, s.pc g = .fRet v → s.retval g = some v
  tl : ∀ a g, s.pc a = .loaded .tryjoin g → s.det g ≠ NONE
  cpn : ∀ a g, claimPath (s.pc a) g = true → s.det g ≠ NONE
  scn : ∀ g, s.succ g ≠ [] → s.det g ≠ NONE
  fxn : ∀ g, finX (s.pc g) = true → s.det g ≠ NONE
  dst : ∀ g, s.destroyed g = true → s.pc g = .fDone
  fj : ∀ p g, joinerPath (s.pc p) g = true → s.first g = some p
  ff : ∀ g, (parkF (s.pc g) = true ∨ s.pc g = .fWoken) → s.first g = some g
  tcl : ∀ b g, takePh (s.pc b) g = true → (s.claimed g = true ∨ s.detX g = true)

theorem inv0_init (isT : Nat → Bool) : Inv0 (init isT) := by
  constructor <;> intros <;> simp_all [init, DET, NONE, WFJ]

set_option maxHeartbeats 4000000 in
theorem inv0_core (s : St) (e : Ev) (s1 : St) (hI : Inv0 s) (hc : stepCore s e = some s1) : Inv0 s1 := by
  obtain ⟨h1, h2, h3, h4, h5, h6, h7, h8, h9, h10, h11⟩ := hI
  cases e <;> simp only [stepCore] at hc
  all_goals (repeat' split at hc)
  all_goals (try (simp at hc))
  all_goals (try subst hc)
  all_goals (constructor <;> intros <;> simp [upd_apply, WFJ, DET, NONE, WTJ] at * <;> grind)

end LibfiberVerif.Join
