/-
  Proof/ChanWake.lean — "a receiver blocked on an empty channel is always resumed by a later
  send" for the unbounded and sp channels: the sender publishes (links its node) FIRST and
  raises SECOND, the receiver clears the signal first and re-checks the queue second, so a
  message that is available while nobody is about to raise implies that the receiver's next
  CAS fails (word RAISED) and that the receiver is not asleep in the word.  Property C11.
-/
import LibfiberVerif.Proof.ChanQueueStep

set_option linter.unusedSimpArgs false
set_option linter.unusedVariables false

namespace LibfiberVerif.Chan

open Signal (PSt PEv PPc pstep PInv)

/-- a message is linked at the head of the queue -/
def avail (s : St) : Prop := headNext s ≠ 0

/-- g has published (linked) a message and not yet exchanged RAISED into the signal word -/
def Pc.isPublished : Pc → Bool
  | .sPublished _ => true
  | .idle => false | .sTop _ => false | .sLdLow _ _ => false | .sLdHigh _ _ _ => false | .sRdBuf _ _ _ _ => false
  | .sClaimed _ _ => false | .qCalled _ => false | .qData _ => false | .qCleared _ => false | .qLdTail _ _ => false
  | .qSwapped _ _ _ => false | .sRaising _ => false | .sRaised _ _ => false | .sDone => false
  | .rTop => false | .rLdHigh _ => false | .rLdLow _ _ => false | .rRdBuf _ _ _ => false | .rCleared _ _ => false
  | .rGotHead _ => false | .rGotNext _ _ => false | .rMoved _ _ => false | .rGotData _ _ => false
  | .rWrote _ _ => false | .rEmpty => false | .rWaiting => false | .rDone _ => false | .tEmpty => false

def inFlight (s : St) (g : Nat) : Prop := (s.pc g).isPublished = true

/-- w found the queue empty and is on its way to the CAS that would put it to sleep -/
def committed (s : St) (w : Nat) : Prop :=
  s.pc w = .rEmpty ∨ (s.pc w = .rWaiting ∧ (s.p.pc w = .waitCalled ∨ s.p.pc w = .wCleared))

/-- w is in the word / parked and nobody has woken it yet -/
def asleep (s : St) (w : Nat) : Prop := (s.p.pc w).sleepy ∧ s.p.wakes w + 1 = s.p.parks w

/-- between the exchange and the return of fiber_signal_raise with a fiber to wake -/
def _root_.LibfiberVerif.Signal.PPc.isTarget : PPc → Bool
  | .raiseGot _ => true | .raiseCleared _ => true | .raiseReady _ => true
  | .idle => false | .waitCalled => false | .wCleared => false | .casFailed => false | .casOk => false
  | .parking => false | .parked => false | .resumed => false | .waitDone => false
  | .raiseCalled => false | .raiseDone _ => false

structure WInv (s : St) : Prop where
  pinv : PInv s.p
  idle_link : ∀ f, s.pc f ≠ .rWaiting → (∀ v, s.pc f ≠ .sRaising v) → s.p.pc f = .idle
  wait_link : ∀ f, s.pc f = .rWaiting → (s.p.pc f).inWait ∧ s.p.pc f ≠ .waitDone
  raise_link : ∀ f v, s.pc f = .sRaising v → (s.p.pc f).isTarget = true
  waiter_recv : ∀ w, s.p.waiterId = some w → s.receiver = some w
  linked_lt : ∀ i, s.linked i = true → i < s.order.length
  swapped_lt : ∀ f v prev i, s.pc f = .qSwapped v prev i → i < s.order.length
  cov_pre : avail s → (∀ g, ¬ inFlight s g) → ∀ w, committed s w → s.p.word = .raised
  cov_word : avail s → (∀ g, ¬ inFlight s g) → ∀ w, s.p.word ≠ .fiber w

theorem winv_init (k : Kind) (cap : Nat) : WInv (init k cap) := by
  constructor
  · exact Signal.pinv_init
  all_goals simp [init, initM, Signal.pinit, avail, headNext, PPc.inWait, committed, inFlight, Pc.isPublished]

end LibfiberVerif.Chan
