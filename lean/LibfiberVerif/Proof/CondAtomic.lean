/-
  Proof/CondAtomic.lean — second invariant of the condition-variable model (property C05):
  continuity of M's ownership across `fiber_cond_wait`.

    * from `call wait` until its link (last step before switching away) the waiter itself
      (`A w`) holds M;
    * from the link until the deferred unlock its agent `D w` holds M
      (`#releases < #links ↔ D w holds M`, and at most one link is outstanding);
    * claims never exceed registrations (`0 ≤ waiter_count + miss`).
-/
import LibfiberVerif.Proof.Cond

namespace LibfiberVerif.Cond

/-- between `call wait` and the link -/
def inWait : Pc → Bool
  | .waitCalled | .waitCounted | .waitSaving | .waitGotNode _ | .waitWroteData _
  | .waitClearedNode _ | .pushCleared _ | .pushXchgd _ _ _ => true
  | _ => false

structure Inv2 (s : St) : Prop where
  waitHolds : ∀ w, inWait (s.pc w) = true → s.m.pc (A w) = .held
  agentHolds : ∀ w, (s.gh w).nU < (s.gh w).nL → s.m.pc (D w) = .held
  oneLink : ∀ w, (s.gh w).nL ≤ (s.gh w).nU + 1
  cnt0 : 0 ≤ s.count + s.miss

theorem Inv2.init : Inv2 Cond.init := by
  constructor <;> simp [Cond.init, inWait]

/-- fields `Inv2` does not read may change freely -/
theorem Inv2.congr {s s' : St} (h2 : Inv2 s) (hm : s'.m = s.m) (hpc : s'.pc = s.pc)
    (hgh : ∀ w, (s'.gh w).nU = (s.gh w).nU ∧ (s'.gh w).nL = (s.gh w).nL)
    (h1 : s'.count = s.count) (h3 : s'.miss = s.miss) : Inv2 s' := by
  obtain ⟨a1, a2, a3, a4⟩ := h2
  refine ⟨?_, ?_, ?_, ?_⟩
  · rw [hm, hpc]; exact a1
  · intro w; rw [hm, (hgh w).1, (hgh w).2]; exact a2 w
  · intro w; rw [(hgh w).1, (hgh w).2]; exact a3 w
  · rw [h1, h3]; exact a4

/-- fiber `f` moves to `p'`; M untouched -/
theorem Inv2.move {s s' : St} (h2 : Inv2 s) {f : Nat} {p' : Pc} (hm : s'.m = s.m)
    (hpc : s'.pc = upd s.pc f p') (hf : inWait p' = true → s.m.pc (A f) = .held)
    (hgh : ∀ w, (s'.gh w).nU = (s.gh w).nU ∧ (s'.gh w).nL = (s.gh w).nL)
    (h1 : s'.count = s.count) (h3 : s'.miss = s.miss) : Inv2 s' := by
  obtain ⟨a1, a2, a3, a4⟩ := h2
  refine ⟨?_, ?_, ?_, ?_⟩
  · rw [hm, hpc]
    exact upd_forall (P := fun w p => inWait p = true → s.m.pc (A w) = .held) a1 hf
  · intro w; rw [hm, (hgh w).1, (hgh w).2]; exact a2 w
  · intro w; rw [(hgh w).1, (hgh w).2]; exact a3 w
  · rw [h1, h3]; exact a4

/-- a step of M by fiber `f` acting for itself, `f` not between `call wait` and its link -/
theorem Inv2.of_stepM_A {s : St} (h2 : Inv2 s) {me : Mutex.Ev} {x : Mutex.St} {f : Nat}
    (hx : Mutex.step (syncIn s s.m) me = some x) (ha : mxActor me = A f)
    (hf : inWait (s.pc f) = false) :
    Inv2 { s with m := x, fnode := x.fnode, ndata := x.ndata } := by
  obtain ⟨a1, a2, a3, a4⟩ := h2
  refine ⟨?_, ?_, a3, a4⟩
  · intro w hw
    have hne : w ≠ f := by intro h; subst h; simp only [] at hw; rw [hf] at hw; cases hw
    show x.pc (A w) = .held
    rw [mx_pc_other hx (by rw [ha]; intro h; exact hne (A_inj h))]; exact a1 w hw
  · intro w hw
    show x.pc (D w) = .held
    rw [mx_pc_other hx (by rw [ha]; exact fun h => A_ne_D f w h.symm)]; exact a2 w hw

/-- no access event is accepted from a sub-model actor that is `held` -/
theorem mx_held_no_access {x : Mutex.St} {a : Nat} (hh : x.pc a = .held) {e : Ev} {me : Mutex.Ev}
    (hme : toMx a e = some me) : Mutex.step x me = none := by
  cases e <;> simp [toMx] at hme <;> subst hme <;> simp [Mutex.step, hh]

/-- a step of M by a deferred agent in its unlock path (an access event) -/
theorem Inv2.of_stepM_D {s : St} (h2 : Inv2 s) {e : Ev} {me : Mutex.Ev} {x : Mutex.St} {w : Nat}
    (hme : toMx (D w) e = some me) (hx : Mutex.step (syncIn s s.m) me = some x) :
    Inv2 { s with m := x, fnode := x.fnode, ndata := x.ndata } ∧ ¬ (s.gh w).nU < (s.gh w).nL := by
  have hnot : ¬ (s.gh w).nU < (s.gh w).nL := by
    intro hlt
    have := mx_held_no_access (x := syncIn s s.m) (h2.agentHolds w hlt) hme
    rw [this] at hx; cases hx
  have hact := (toMx_props hme).1
  obtain ⟨a1, a2, a3, a4⟩ := h2
  refine ⟨⟨?_, ?_, a3, a4⟩, hnot⟩
  · intro w' hw'
    show x.pc (A w') = .held
    rw [mx_pc_other hx (by rw [hact]; exact A_ne_D w' w)]; exact a1 w' hw'
  · intro w' hw'
    have hne : w' ≠ w := by intro h; subst h; exact hnot hw'
    show x.pc (D w') = .held
    rw [mx_pc_other hx (by rw [hact]; intro h; exact hne (D_inj h))]; exact a2 w' hw'

theorem Inv2.retireD {s s' : St} (h2 : Inv2 s) {g w : Nat} (hn : ¬ (s.gh w).nU < (s.gh w).nL)
    (h : retireD s g w = some s') : Inv2 s' := by
  rcases retireD_shape h with ⟨x, o, hx, rfl⟩ | ⟨_, o, rfl⟩
  · obtain ⟨a1, a2, a3, a4⟩ := h2
    refine ⟨?_, ?_, a3, a4⟩
    · intro w' hw'
      show x.pc (A w') = .held
      rw [mx_pc_other hx (by simp only [mxActor]; exact A_ne_D w' w)]; exact a1 w' hw'
    · intro w' hw'
      have hne : w' ≠ w := by intro h; subst h; exact hn hw'
      show x.pc (D w') = .held
      rw [mx_pc_other hx (by simp only [mxActor]; intro h; exact hne (D_inj h))]; exact a2 w' hw'
  · exact h2.congr rfl rfl (fun _ => ⟨rfl, rfl⟩) rfl rfl

theorem ghUL_upd {gh : Nat → G} {f : Nat} {g' : G} (hU : g'.nU = (gh f).nU) (hL : g'.nL = (gh f).nL) :
    ∀ w, (upd gh f g' w).nU = (gh w).nU ∧ (upd gh f g' w).nL = (gh w).nL := by
  intro w; simp only [upd]; split
  · next h => subst h; exact ⟨hU, hL⟩
  · exact ⟨rfl, rfl⟩

theorem Inv2.finishOne {s s' : St} (h2 : Inv2 s) {f : Nat} {bc : Bool} {k : Nat}
    (h : finishOne s f bc k = some s') : Inv2 s' := by
  simp only [Cond.finishOne] at h
  split at h
  · obtain ⟨x, hx, rfl⟩ := toUnlockI_shape h
    exact h2.move (f := f) rfl rfl (by simp [inWait]) (fun _ => ⟨rfl, rfl⟩) rfl rfl
  · simp at h; subst h
    exact h2.move (f := f) rfl rfl (by simp [inWait]) (fun _ => ⟨rfl, rfl⟩) rfl rfl

theorem Inv2.stepC {s s' : St} (h2 : Inv2 s) {f : Nat} {e : Ev} (h : stepC s f e = some s') :
    Inv2 s' := by
  cases e <;> simp only [Cond.stepC] at h <;> (repeat' split at h) <;> (try simp at h) <;> (try subst h)
  all_goals first
    | (rename_i heq _
       have hw := h2.waitHolds f
       rw [heq] at hw
       refine h2.move (f := f) rfl rfl ?_ (fun _ => ⟨rfl, rfl⟩) rfl rfl
       first | (intro _; exact hw rfl) | simp [inWait]
       done)
    | (rename_i heq _ _
       have hw := h2.waitHolds f
       rw [heq] at hw
       refine h2.move (f := f) rfl rfl ?_ (fun _ => ⟨rfl, rfl⟩) rfl rfl
       first | (intro _; exact hw rfl) | simp [inWait]
       done)
    | skip
  -- xchg(&C.tail)
  · rename_i heq _
    have hw := h2.waitHolds f; rw [heq] at hw
    exact h2.move (f := f) rfl rfl (fun _ => hw rfl) (ghUL_upd rfl rfl) rfl rfl
  -- the pop
  · rename_i heq _ _ _ gp hord hg
    obtain ⟨a1, a2, a3, a4⟩ := h2
    refine ⟨?_, ?_, ?_, a4⟩
    · exact upd_forall (P := fun w p => inWait p = true → s.m.pc (A w) = .held)
        (upd_forall (P := fun w p => inWait p = true → s.m.pc (A w) = .held) a1 (by simp [inWait]))
        (by simp [inWait])
    · intro w
      have := a2 w
      simp only [upd]; split
      · next h => subst h; exact this
      · split
        · next h => subst h; exact this
        · exact this
    · intro w
      have := a3 w
      simp only [upd]; split
      · next h => subst h; exact this
      · split
        · next h => subst h; exact this
        · exact this
  · exact h2.finishOne h
  · exact h2.finishOne h
  -- the link: M passes from `A f` to `D f`
  · rename_i heq hc
    obtain ⟨a1, a2, a3, a4⟩ := h2
    have hidle : s.m.pc (D f) = .idle := hc.2.2.2.2
    have hnlt : ¬ (s.gh f).nU < (s.gh f).nL := by
      intro h; have := a2 f h; rw [hidle] at this; cases this
    refine ⟨?_, ?_, ?_, a4⟩
    · intro w; simp only [upd]; split
      · simp [inWait]
      · next hwf =>
        intro hw
        have h1 : A w ≠ D f := A_ne_D w f
        have h2 : A w ≠ A f := fun h => hwf (A_inj h)
        simp only [h1, h2, if_false]; exact a1 w hw
    · intro w; simp only [upd]; split
      · next hwf => subst hwf; intro _; simp
      · next hwf =>
        intro hw
        have h1 : D w ≠ D f := fun h => hwf (D_inj h)
        have h2 : D w ≠ A f := fun h => A_ne_D f w h.symm
        simp only [h1, h2, if_false]; exact a2 w hw
    · intro w; simp only [upd]; split
      · next hwf => subst hwf; show (s.gh w).nL + 1 ≤ (s.gh w).nU + 1; omega
      · exact a3 w

theorem Inv2.dispatch {s s' : St} (h2 : Inv2 s) {e : Ev} (h : dispatch s e = some s') : Inv2 s' := by
  simp only [Cond.dispatch] at h
  split at h
  · split at h
    · exact h2.stepC h
    · cases h
  · split at h
    · simp only [Option.bind_eq_some_iff] at h
      obtain ⟨me, hme, h⟩ := h
      obtain ⟨x, hx, rfl⟩ := stepI_shape h
      exact h2.congr rfl rfl (fun _ => ⟨rfl, rfl⟩) rfl rfl
    · cases h
  · next hc =>
    split at h
    · simp only [Option.bind_eq_some_iff] at h
      obtain ⟨me, hme, h⟩ := h
      obtain ⟨x, hx, rfl⟩ := stepM_shape h
      refine h2.of_stepM_A hx (toMx_props hme).1 ?_
      simp only [ctxOf] at hc
      split at hc
      · cases hc
      · split at hc <;> simp_all [inWait]
    · cases h
  · split at h
    · simp only [Option.bind_eq_some_iff] at h
      obtain ⟨s1, ⟨me, hme, h1⟩, h⟩ := h
      obtain ⟨x, hx, rfl⟩ := stepM_shape h1
      obtain ⟨h21, hn⟩ := h2.of_stepM_D hme hx
      exact h21.retireD hn h
    · cases h
  · cases h

theorem Inv2.noteM {s s' : St} (h2 : Inv2 s) {me : Mutex.Ev} {f : Nat} (ha : mxActor me = A f)
    (hf : inWait (s.pc f) = false) (h : stepM s me = some s') : Inv2 s' := by
  obtain ⟨x, hx, rfl⟩ := stepM_shape h
  exact h2.of_stepM_A hx ha hf

/-- `Inv2` minus the agent clause for `w`: what survives while `D w` runs its unlock -/
def Inv2x (w : Nat) (s : St) : Prop :=
  (∀ w', inWait (s.pc w') = true → s.m.pc (A w') = .held) ∧
  (∀ w', w' ≠ w → (s.gh w').nU < (s.gh w').nL → s.m.pc (D w') = .held)

theorem Inv2x.stepM {s : St} {w : Nat} (h : Inv2x w s) {me : Mutex.Ev} {x : Mutex.St}
    (hx : Mutex.step (syncIn s s.m) me = some x) (ha : mxActor me = D w) :
    Inv2x w { s with m := x, fnode := x.fnode, ndata := x.ndata } := by
  refine ⟨?_, ?_⟩
  · intro w' hw'
    show x.pc (A w') = .held
    rw [mx_pc_other hx (by rw [ha]; exact A_ne_D w' w)]; exact h.1 w' hw'
  · intro w' hne hw'
    show x.pc (D w') = .held
    rw [mx_pc_other hx (by rw [ha]; intro h; exact hne (D_inj h))]; exact h.2 w' hne hw'

theorem Inv2x.retireD {s s' : St} {w : Nat} (h : Inv2x w s) {g : Nat}
    (hr : retireD s g w = some s') : Inv2x w s' ∧ s'.gh = s.gh ∧ s'.count = s.count ∧ s'.miss = s.miss := by
  rcases retireD_shape hr with ⟨x, o, hx, rfl⟩ | ⟨_, o, rfl⟩
  · exact ⟨h.stepM hx rfl, rfl, rfl, rfl⟩
  · exact ⟨h, rfl, rfl, rfl⟩

theorem callSig_shape {s s' : St} {f : Nat} {hh bc : Bool} (h : callSig s f hh bc = some s') :
    s.pc f = .idle ∧ ∃ s1, stepI s (.callLock (A f)) = some s1 ∧
      s' = { s1 with pc := upd s1.pc f (.lockI bc),
                     gh := upd s1.gh f { s1.gh f with holds := hh, claimed := 0, popped := 0 } } := by
  simp only [Cond.callSig] at h
  by_cases hc : s.pc f = .idle ∧ s.onBehalf f = none ∧
    (if hh = true then s.m.pc (A f) = .held ∧ s.m.owner = some (A f) else s.m.pc (A f) = .idle)
  · rw [if_pos hc] at h
    simp only [Option.map_eq_some_iff] at h
    obtain ⟨s1, h1, rfl⟩ := h
    exact ⟨hc.1, s1, h1, rfl⟩
  · rw [if_neg hc] at h; cases h

/-- the deferred unlock for `w` is done: count it -/
theorem Inv2x.bumpU {s : St} {w : Nat} (hx : Inv2x w s) (hone : ∀ w', (s.gh w').nL ≤ (s.gh w').nU + 1)
    (hc0 : 0 ≤ s.count + s.miss) (d : Nat → Option Nat) :
    Inv2 { s with deferred := d, gh := upd s.gh w { s.gh w with nU := (s.gh w).nU + 1 } } := by
  refine ⟨hx.1, ?_, ?_, hc0⟩
  · intro w'; simp only [upd]; split
    · next h => subst h; intro hlt; have := hone w'; simp only [] at hlt; omega
    · next h => exact hx.2 w' h
  · intro w'; simp only [upd]; split
    · next h => subst h; have := hone w'; show (s.gh w').nL ≤ (s.gh w').nU + 1 + 1; omega
    · exact hone w'

theorem Inv2.step {s s' : St} {e : Ev} (hi : Inv s) (h2 : Inv2 s) (h : step s e = some s') :
    Inv2 s' := by
  cases e with
  | callLock f =>
    simp only [Cond.step] at h; split at h
    · next hc => exact h2.noteM (f := f) rfl (by rw [hc.1]; rfl) h
    · cases h
  | retLock f =>
    simp only [Cond.step] at h; split at h
    · next hc => exact h2.noteM (f := f) rfl (by rw [hc.1]; rfl) h
    · cases h
  | callUnlock f =>
    simp only [Cond.step] at h; split at h
    · next hc => exact h2.noteM (f := f) rfl (by rw [hc.1]; rfl) h
    · cases h
  | retUnlock f =>
    simp only [Cond.step] at h; split at h
    · next hc => exact h2.noteM (f := f) rfl (by rw [hc.1]; rfl) h
    · cases h
  | csEnter f =>
    simp only [Cond.step] at h; split at h
    · next hc => exact h2.noteM (f := f) rfl (by rw [hc]; rfl) h
    · cases h
  | csExit f v =>
    simp only [Cond.step] at h; split at h
    · next hc => exact h2.noteM (f := f) rfl (by rw [hc]; rfl) h
    · cases h
  | callWait f =>
    simp only [Cond.step] at h; split at h
    · next hc =>
      simp at h; subst h
      exact h2.move (f := f) rfl rfl (fun _ => hc.2.2.1) (fun _ => ⟨rfl, rfl⟩) rfl rfl
    · cases h
  | retWait f =>
    simp only [Cond.step] at h; split at h
    · next hpc =>
      simp only [Option.map_eq_some_iff] at h
      obtain ⟨s1, h1, rfl⟩ := h
      obtain ⟨x, hx, rfl⟩ := stepM_shape h1
      have h21 := h2.of_stepM_A (f := f) hx rfl (by rw [hpc]; rfl)
      exact h21.move (f := f) rfl rfl (by simp [inWait]) (ghUL_upd rfl rfl) rfl rfl
    · cases h
  | callSignal f hh =>
    obtain ⟨-, s1, h1, rfl⟩ := callSig_shape (by simpa only [Cond.step] using h)
    obtain ⟨x, hx, rfl⟩ := stepI_shape h1
    exact h2.move (f := f) rfl rfl (by simp [inWait]) (ghUL_upd rfl rfl) rfl rfl
  | callBroadcast f hh =>
    obtain ⟨-, s1, h1, rfl⟩ := callSig_shape (by simpa only [Cond.step] using h)
    obtain ⟨x, hx, rfl⟩ := stepI_shape h1
    exact h2.move (f := f) rfl rfl (by simp [inWait]) (ghUL_upd rfl rfl) rfl rfl
  | retSignal f =>
    simp only [Cond.step, Cond.retSig] at h; split at h
    · simp only [Option.map_eq_some_iff] at h
      obtain ⟨s1, h1, rfl⟩ := h
      obtain ⟨x, hx, rfl⟩ := stepI_shape h1
      exact h2.move (f := f) rfl rfl (by simp [inWait]) (fun _ => ⟨rfl, rfl⟩) rfl rfl
    · cases h
  | retBroadcast f =>
    simp only [Cond.step, Cond.retSig] at h; split at h
    · simp only [Option.map_eq_some_iff] at h
      obtain ⟨s1, h1, rfl⟩ := h
      obtain ⟨x, hx, rfl⟩ := stepI_shape h1
      exact h2.move (f := f) rfl rfl (by simp [inWait]) (fun _ => ⟨rfl, rfl⟩) rfl rfl
    · cases h
  | fsubCount f old =>
    simp only [Cond.step] at h; split at h
    · next hc =>
      obtain ⟨hpc, hold, _⟩ := hc
      simp only [Option.bind_eq_some_iff] at h
      obtain ⟨s1, h1, h⟩ := h
      obtain ⟨x, hx, rfl⟩ := stepI_shape h1
      have hmiss := (hi.granted hpc hx).2.2.2.1
      have hc0 := h2.cnt0
      obtain ⟨a1, a2, a3, a4⟩ := h2
      split at h
      · next hge =>
        simp at h; subst h
        refine ⟨?_, ?_, ?_, ?_⟩
        · exact upd_forall (P := fun w p => inWait p = true → s.m.pc (A w) = .held) a1 (by simp [inWait])
        · intro w; have := a2 w; simp only [upd]; split
          · next h => subst h; exact this
          · exact this
        · intro w; have := a3 w; simp only [upd]; split
          · next h => subst h; exact this
          · exact this
        · show 0 ≤ old - 1 + s.miss; omega
      · next hlt =>
        simp at h; subst h
        refine ⟨?_, a2, a3, ?_⟩
        · exact upd_forall (P := fun w p => inWait p = true → s.m.pc (A w) = .held) a1 (by simp [inWait])
        · show 0 ≤ old - 1 + 1; omega
    · cases h
  | xchgCount f old =>
    simp only [Cond.step] at h; split at h
    · next hc =>
      obtain ⟨hpc, hold, hnn, _⟩ := hc
      simp only [Option.bind_eq_some_iff] at h
      obtain ⟨s1, h1, h⟩ := h
      obtain ⟨x, hx, rfl⟩ := stepI_shape h1
      have hmiss := (hi.granted hpc hx).2.2.2.1
      obtain ⟨a1, a2, a3, a4⟩ := h2
      simp only [] at h
      split at h
      · obtain ⟨y, hy, rfl⟩ := toUnlockI_shape h
        refine ⟨?_, ?_, ?_, ?_⟩
        · exact upd_forall (P := fun w p => inWait p = true → s.m.pc (A w) = .held) a1 (by simp [inWait])
        · intro w; have := a2 w; simp only [upd]; split
          · next h => subst h; exact this
          · exact this
        · intro w; have := a3 w; simp only [upd]; split
          · next h => subst h; exact this
          · exact this
        · show (0 : Int) ≤ 0 + s.miss; omega
      · simp at h; subst h
        refine ⟨?_, ?_, ?_, ?_⟩
        · exact upd_forall (P := fun w p => inWait p = true → s.m.pc (A w) = .held) a1 (by simp [inWait])
        · intro w; have := a2 w; simp only [upd]; split
          · next h => subst h; exact this
          · exact this
        · intro w; have := a3 w; simp only [upd]; split
          · next h => subst h; exact this
          · exact this
        · show (0 : Int) ≤ 0 + s.miss; omega
    · cases h
  | faddCount t f old =>
    simp only [Cond.step] at h; split at h
    · next hpc =>
      split at h
      · next hc =>
        simp at h; subst h
        have hw := h2.waitHolds f (by rw [hpc]; rfl)
        have hc0 := h2.cnt0
        obtain ⟨a1, a2, a3, a4⟩ := h2
        refine ⟨?_, ?_, ?_, ?_⟩
        · exact upd_forall (P := fun w p => inWait p = true → s.m.pc (A w) = .held) a1 (fun _ => hw)
        · intro w; have := a2 w; simp only [upd]; split
          · next h => subst h; exact this
          · exact this
        · intro w; have := a3 w; simp only [upd]; split
          · next h => subst h; exact this
          · exact this
        · show 0 ≤ old + 1 + s.miss; omega
      · cases h
    · split at h
      · next hpc =>
        split at h
        · next hc =>
          obtain ⟨x, hx, rfl⟩ := toUnlockI_shape h
          have hm1 := hi.missPc f hpc
          have hc0 := h2.cnt0
          obtain ⟨a1, a2, a3, a4⟩ := h2
          refine ⟨?_, a2, a3, ?_⟩
          · exact upd_forall (P := fun w p => inWait p = true → s.m.pc (A w) = .held) a1 (by simp [inWait])
          · show 0 ≤ old + 1 + 0; omega
        · cases h
      · cases h
  | fsub q f old =>
    simp only [Cond.step] at h; split at h
    · split at h
      · cases h
      · split at h
        · next hpc =>
          simp only [Option.map_eq_some_iff, Option.bind_eq_some_iff] at h
          obtain ⟨s2, ⟨s1, h1, h2'⟩, rfl⟩ := h
          obtain ⟨x, hx, rfl⟩ := stepM_shape h1
          have h21 := h2.of_stepM_A (f := f) hx rfl (by rw [hpc]; rfl)
          obtain ⟨y, hy, rfl⟩ := stepM_shape h2'
          have h22 := h21.of_stepM_A (f := f) hy rfl (by show inWait (s.pc f) = false; rw [hpc]; rfl)
          exact h22.move (f := f) rfl rfl (by simp [inWait]) (fun _ => ⟨rfl, rfl⟩) rfl rfl
        · split at h
          · next hpc => exact h2.noteM (f := f) rfl (by rw [hpc]; rfl) h
          · cases h
    · exact h2.dispatch h
  | fadd q t g old =>
    simp only [Cond.step] at h; split at h
    · split at h
      · cases h
      · split at h
        · next hc => exact h2.noteM (f := g) rfl (by rw [hc.1]; rfl) h
        · split at h
          · next w hw =>
            split at h
            · next hheld =>
              simp only [Option.map_eq_some_iff, Option.bind_eq_some_iff] at h
              obtain ⟨s3, ⟨s2, ⟨s1, h1, h2'⟩, h3⟩, rfl⟩ := h
              have hx0 : Inv2x w s := ⟨h2.waitHolds, fun w' _ => h2.agentHolds w'⟩
              obtain ⟨x, hx, rfl⟩ := stepM_shape h1
              have hx1 := hx0.stepM hx rfl
              obtain ⟨y, hy, rfl⟩ := stepM_shape h2'
              have hx2 := hx1.stepM hy rfl
              obtain ⟨hx3, hgh, hcnt, hmiss⟩ := hx2.retireD h3
              have hone : ∀ w', (s3.gh w').nL ≤ (s3.gh w').nU + 1 := by rw [hgh]; exact h2.oneLink
              have hc0 : 0 ≤ s3.count + s3.miss := by rw [hcnt, hmiss]; exact h2.cnt0
              exact hx3.bumpU hone hc0 _
            · cases h
          · cases h
    · exact h2.dispatch h
  | xchgTail q f o n => exact h2.dispatch (by simpa only [Cond.step] using h)
  | rHead q f n => exact h2.dispatch (by simpa only [Cond.step] using h)
  | wHead q f n => exact h2.dispatch (by simpa only [Cond.step] using h)
  | wState f g v => exact h2.dispatch (by simpa only [Cond.step] using h)
  | rState f g v => exact h2.dispatch (by simpa only [Cond.step] using h)
  | rNode f g n => exact h2.dispatch (by simpa only [Cond.step] using h)
  | wNode f g n => exact h2.dispatch (by simpa only [Cond.step] using h)
  | wData f n g => exact h2.dispatch (by simpa only [Cond.step] using h)
  | rData f n g => exact h2.dispatch (by simpa only [Cond.step] using h)
  | wNext f n x => exact h2.dispatch (by simpa only [Cond.step] using h)
  | rNext f n x => exact h2.dispatch (by simpa only [Cond.step] using h)

theorem inv2_of_run {es : List Ev} {s : St} (h : sys.run es = some s) : Inv s ∧ Inv2 s :=
  Sys.inv_of_run sys (fun s => Inv s ∧ Inv2 s) ⟨Inv.init, Inv2.init⟩
    (fun _ _ _ hi hs => ⟨Inv.step hi.1 hs, Inv2.step hi.1 hi.2 hs⟩) h

end LibfiberVerif.Cond
