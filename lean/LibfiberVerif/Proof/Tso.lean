/-
  Proof/Tso.lean — lemmas about the store-buffer layer `Model/Tso.lean`.

  The one idea the TSO proofs share: the states the OTHER threads can observe while `t` still
  has buffered stores are the partial drains of `t`'s buffer.  `AllViews m t P` says that `P`
  holds of every partial drain (together with what is still buffered); it is inherited by a
  `flush t` for free and extended by a `store` by looking at the fully drained view only.
-/
import LibfiberVerif.Model.Tso

namespace LibfiberVerif.Tso

theorem applyAll_nil (μ : Nat → Int) : applyAll μ [] = μ := rfl

theorem applyAll_cons (μ : Nat → Int) (e : Nat × Int) (b : Buf) :
    applyAll μ (e :: b) = applyAll (upd μ e.1 e.2) b := rfl

theorem applyAll_append (μ : Nat → Int) (a b : Buf) :
    applyAll μ (a ++ b) = applyAll (applyAll μ a) b := by
  simp [applyAll, List.foldl_append]

theorem applyAll_snoc (μ : Nat → Int) (b : Buf) (c : Nat) (v : Int) :
    applyAll μ (b ++ [(c, v)]) = upd (applyAll μ b) c v := by
  rw [applyAll_append]; rfl

/-- the fully drained view, cell by cell, is "newest buffered entry, else memory" -/
theorem applyAll_apply (μ : Nat → Int) (b : Buf) (c : Nat) :
    applyAll μ b c = b.read c (μ c) := by
  induction b generalizing μ with
  | nil => rfl
  | cons e b ih =>
    rw [applyAll_cons, ih]
    simp only [Buf.read, List.foldl_cons, upd]
    by_cases h : c = e.1
    · subst h; simp
    · have : ¬ e.1 = c := fun h' => h h'.symm
      simp [h, this]

theorem load_eq_view (m : Mem) (t c : Nat) : m.load t c = m.view t c := by
  simp [Mem.load, Mem.view, applyAll_apply]

/-- cells nobody has buffered are read from memory -/
theorem applyAll_of_not_mem (μ : Nat → Int) (b : Buf) (c : Nat) (h : ∀ e ∈ b, e.1 ≠ c) :
    applyAll μ b c = μ c := by
  induction b generalizing μ with
  | nil => rfl
  | cons e b ih =>
    rw [applyAll_cons, ih _ (fun e' he' => h e' (List.mem_cons_of_mem _ he'))]
    have := h e (List.mem_cons_self)
    simp [upd]; intro hc; exact absurd hc.symm this

/-- a write to memory at `c0` is invisible, at every other cell, in every (partial) drain -/
theorem applyAll_upd_other (μ : Nat → Int) (b : Buf) (c0 c : Nat) (v : Int) (h : c ≠ c0) :
    applyAll (upd μ c0 v) b c = applyAll μ b c := by
  rw [applyAll_apply, applyAll_apply]; simp [upd, h]

theorem view_of_drained {m : Mem} {t : Nat} (h : m.buf t = []) : m.view t = m.mem := by
  simp [Mem.view, h, applyAll]

theorem load_of_drained {m : Mem} {t : Nat} (h : m.buf t = []) (c : Nat) : m.load t c = m.mem c := by
  rw [load_eq_view, view_of_drained h]

/-! ### effect of the operations -/

theorem store_buf_self (m : Mem) (t c : Nat) (v : Int) :
    (m.store t c v).buf t = m.buf t ++ [(c, v)] := by simp [Mem.store]

theorem store_buf_other (m : Mem) (t u c : Nat) (v : Int) (h : u ≠ t) :
    (m.store t c v).buf u = m.buf u := by simp [Mem.store, upd, h]

theorem store_mem (m : Mem) (t c : Nat) (v : Int) : (m.store t c v).mem = m.mem := rfl

theorem view_store_self (m : Mem) (t c : Nat) (v : Int) :
    (m.store t c v).view t = upd (m.view t) c v := by
  simp [Mem.view, store_buf_self, store_mem, applyAll_snoc]

theorem poke_buf (m : Mem) (c : Nat) (v : Int) : (m.poke c v).buf = m.buf := rfl
theorem poke_mem (m : Mem) (c : Nat) (v : Int) : (m.poke c v).mem = upd m.mem c v := rfl

theorem view_poke_other (m : Mem) (t c0 c : Nat) (v : Int) (h : c ≠ c0) :
    (m.poke c0 v).view t c = m.view t c := by
  simp [Mem.view, poke_buf, poke_mem, applyAll_upd_other _ _ _ _ _ h]

theorem flush_some {m m' : Mem} {t : Nat} (h : m.flush t = some m') :
    ∃ e rest, m.buf t = e :: rest ∧ m'.mem = upd m.mem e.1 e.2 ∧ m'.buf = upd m.buf t rest := by
  unfold Mem.flush at h
  split at h
  · cases h
  · next e rest hb => cases h; exact ⟨e, rest, hb, rfl, rfl⟩

/-- a flush changes nothing in the flushing thread's own view -/
theorem view_flush_self {m m' : Mem} {t : Nat} (h : m.flush t = some m') : m'.view t = m.view t := by
  obtain ⟨e, rest, hb, hm, hbuf⟩ := flush_some h
  simp [Mem.view, hb, hm, hbuf, applyAll_cons]

/-- draining everything = flushing as often as there are entries -/
theorem drainAll_eq_flushN (m : Mem) (t : Nat) : m.flushN t (m.buf t).length = m.drainAll t := by
  generalize hk : (m.buf t).length = k
  induction k generalizing m with
  | zero =>
    have hb : m.buf t = [] := List.length_eq_zero_iff.mp hk
    simp only [Mem.flushN, Mem.drainAll, hb, applyAll_nil]
    cases m with
    | mk mem buf =>
      simp only [Mem.mk.injEq, true_and]
      funext u; simp only [upd]; split
      · next h => subst h; exact hb
      · rfl
  | succ k ih =>
    cases hb : m.buf t with
    | nil => simp [hb] at hk
    | cons e rest =>
      have hfl : m.flush t = some { mem := upd m.mem e.1 e.2, buf := upd m.buf t rest } := by
        simp [Mem.flush, hb]
      simp only [Mem.flushN, hfl]
      rw [ih]
      · simp only [Mem.drainAll, upd_same, hb, applyAll_cons, Mem.mk.injEq, true_and]
        funext u; simp only [upd]; split <;> rfl
      · simp [hb] at hk; simpa using hk

/-! ### `AllViews`: a predicate on every partial drain of `t`'s buffer -/

/-- `P μ suf` holds whenever `μ` is memory after a prefix of `t`'s buffer has drained and `suf`
    is what is still buffered.  `pre = []`: memory as the other threads see it now;
    `suf = []`: `t`'s own view. -/
def AllViews (m : Mem) (t : Nat) (P : (Nat → Int) → Buf → Prop) : Prop :=
  ∀ pre suf, m.buf t = pre ++ suf → P (applyAll m.mem pre) suf

theorem AllViews.now {m : Mem} {t : Nat} {P} (h : AllViews m t P) : P m.mem (m.buf t) :=
  h [] (m.buf t) rfl

theorem AllViews.own {m : Mem} {t : Nat} {P} (h : AllViews m t P) : P (m.view t) [] :=
  h (m.buf t) [] (by simp)

theorem AllViews.mono {m : Mem} {t : Nat} {P Q : (Nat → Int) → Buf → Prop}
    (h : AllViews m t P) (hPQ : ∀ μ suf, (∀ e ∈ suf, e ∈ m.buf t) → P μ suf → Q μ suf) :
    AllViews m t Q := by
  intro pre suf hb
  exact hPQ _ _ (fun e he => by rw [hb]; exact List.mem_append_right _ he) (h pre suf hb)

/-- inherited by a flush of the same thread: its partial drains are partial drains of before -/
theorem AllViews.flush {m m' : Mem} {t : Nat} {P} (h : AllViews m t P)
    (hf : m.flush t = some m') : AllViews m' t P := by
  obtain ⟨e, rest, hb, hm, hbuf⟩ := flush_some hf
  intro pre suf hps
  rw [hbuf, upd_same] at hps
  have := h (e :: pre) suf (by rw [hb, hps]; rfl)
  rw [applyAll_cons] at this
  rw [hm]; exact this

theorem append_snoc_split {α : Type} {pre suf b : List α} {e : α} (h : b ++ [e] = pre ++ suf) :
    (∃ suf', suf = suf' ++ [e] ∧ b = pre ++ suf') ∨ (suf = [] ∧ pre = b ++ [e]) := by
  rcases List.eq_nil_or_concat suf with hs | ⟨suf', x, hs⟩
  · right; subst hs; simp at h; exact ⟨rfl, h.symm⟩
  · left
    subst hs
    rw [List.concat_eq_append, ← List.append_assoc] at h
    have h1 := List.append_inj' h (by simp)
    refine ⟨suf', ?_, h1.1⟩
    have := h1.2; simp at this; rw [List.concat_eq_append, this]

/-- extended by a store of the same thread: the old partial drains see one more buffered entry,
    and there is one new, fully drained view -/
theorem AllViews.store {m : Mem} {t c : Nat} {v : Int} {P Q : (Nat → Int) → Buf → Prop}
    (h : AllViews m t P)
    (hold : ∀ μ suf, (∀ e ∈ suf, e ∈ m.buf t) → P μ suf → Q μ (suf ++ [(c, v)]))
    (hnew : Q (upd (m.view t) c v) []) : AllViews (m.store t c v) t Q := by
  intro pre suf hps
  rw [store_buf_self] at hps
  rw [store_mem]
  rcases append_snoc_split hps with ⟨suf', rfl, hb⟩ | ⟨rfl, rfl⟩
  · exact hold _ _ (fun e he => by rw [hb]; exact List.mem_append_right _ he) (h pre suf' hb)
  · rw [applyAll_snoc]; exact hnew

/-- a write to memory at a cell `P` does not look at -/
theorem AllViews.poke {m : Mem} {t c0 : Nat} {v : Int} {P Q : (Nat → Int) → Buf → Prop}
    (h : AllViews m t P)
    (hPQ : ∀ μ μ' suf, (∀ e ∈ suf, e ∈ m.buf t) → (∀ c, c ≠ c0 → μ' c = μ c) → P μ suf → Q μ' suf) :
    AllViews (m.poke c0 v) t Q := by
  intro pre suf hb
  rw [poke_buf] at hb
  rw [poke_mem]
  exact hPQ _ _ _ (fun e he => by rw [hb]; exact List.mem_append_right _ he)
    (fun c hc => applyAll_upd_other _ _ _ _ _ hc) (h pre suf hb)

theorem AllViews.of_drained {m : Mem} {t : Nat} {P} (hb : m.buf t = []) (h : P m.mem []) :
    AllViews m t P := by
  intro pre suf hps
  rw [hb] at hps
  obtain ⟨h1, h2⟩ := List.append_eq_nil_iff.mp hps.symm
  subst h1; subst h2; exact h

end LibfiberVerif.Tso
