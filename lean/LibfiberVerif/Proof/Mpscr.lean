/-
  Proof/Mpscr.lean — the relaxed MPSC queue reduces to its SPSC sub-queues (property C15).

  `Mpscr.step` changes sub-queue states only through `Mpsc.step .spsc`; hence every
  sub-queue state reached in a run of the relaxed queue is a reachable state of the SPSC
  model (`sub_reachable`) and inherits its invariants and theorems.  On top of that: the
  round-robin bookkeeping (`LInv`: a trypop that returns NULL has examined every sub-queue)
  and the disjointness of the payloads of different sub-queues (`DInv`).
-/
import LibfiberVerif.Model.Mpscr
import LibfiberVerif.Proof.Mpsc

namespace LibfiberVerif.Mpscr

open Mpsc (Kind)

abbrev SubSys : Sys Mpsc.St Mpsc.Ev := Mpsc.sys .spsc 0

theorem runFrom_stub (a b : Nat) (q : Mpsc.St) (l : List Mpsc.Ev) :
    (Mpsc.sys .spsc a).runFrom q l = (Mpsc.sys .spsc b).runFrom q l := by
  induction l generalizing q with
  | nil => rfl
  | cons e l ih =>
    simp only [Sys.runFrom]
    have : (Mpsc.sys .spsc a).step q e = (Mpsc.sys .spsc b).step q e := rfl
    rw [this]
    cases (Mpsc.sys .spsc b).step q e with
    | none => rfl
    | some q' => exact ih q'

theorem run_nil (a : Mpsc.St) : SubSys.runFrom a [] = some a := rfl

theorem run_one {a b : Mpsc.St} {e : Mpsc.Ev} (h : Mpsc.step .spsc a e = some b) :
    SubSys.runFrom a [e] = some b := by
  simp [Sys.runFrom, SubSys, Mpsc.sys, h]

theorem run_two {a b c : Mpsc.St} {e1 e2 : Mpsc.Ev} (h1 : Mpsc.step .spsc a e1 = some b)
    (h2 : Mpsc.step .spsc b e2 = some c) : SubSys.runFrom a [e1, e2] = some c := by
  simp [Sys.runFrom, SubSys, Mpsc.sys, h1, h2]

/-- the sub-queue states before and after a step of the relaxed queue: all but at most one
    are unchanged, and that one made one or two SPSC steps -/
inductive SubShape (s s' : St) : Prop
  | same (h : s'.sub = s.sub)
  | one (idx : Nat) (e : Mpsc.Ev) (q' : Mpsc.St) (h1 : Mpsc.step .spsc (s.sub idx) e = some q')
      (h : s'.sub = upd s.sub idx q')
  | two (idx : Nat) (e1 e2 : Mpsc.Ev) (q' q'' : Mpsc.St)
      (h1 : Mpsc.step .spsc (s.sub idx) e1 = some q') (h2 : Mpsc.step .spsc q' e2 = some q'')
      (h : s'.sub = upd s.sub idx q'')

theorem step_subshape {s s' : St} {e : Ev} (hs : step s e = some s') : SubShape s s' := by
  cases e <;> simp only [step] at hs
  case producer t p =>
    split at hs <;> simp at hs
    subst hs; exact .same rfl
  case callPop t =>
    split at hs <;> simp at hs
    subst hs; exact .same rfl
  case rdCounter t c =>
    split at hs
    next => split at hs <;> simp at hs; subst hs; exact .same rfl
    next => simp at hs
  case wrCounter t c =>
    split at hs
    next i c0 c1 hcp =>
      split at hs
      next hc =>
        split at hs
        next q' hq => simp at hs; subst hs; exact .one _ _ q' hq rfl
        next => simp at hs
      next => simp at hs
    next => simp at hs
  case retPop t v =>
    split at hs
    next => split at hs <;> simp at hs; subst hs; exact .same rfl
    next i c0 idx hcp =>
      split at hs
      next hc =>
        split at hs
        next q' hq => simp at hs; subst hs; exact .one _ _ q' hq rfl
        next => simp at hs
      next => simp at hs
    next => simp at hs
  case sub qi e =>
    split at hs
    next => simp at hs
    next t hside =>
      split at hs
      next hc =>
        split at hs
        next q' hq => simp at hs; subst hs; exact .one _ _ q' hq rfl
        next => simp at hs
      next => simp at hs
    next t hside =>
      split at hs
      next i c0 idx hcp =>
        split at hs
        next hc =>
          split at hs
          next q' hq =>
            split at hs
            next =>
              split at hs
              next q'' hq2 => simp at hs; subst hs; exact .two _ _ _ q' q'' hq hq2 rfl
              next => simp at hs
            next => simp at hs; subst hs; exact .one _ _ q' hq rfl
          next => simp at hs
        next => simp at hs
      next => simp at hs

theorem sub_runFrom_of_shape {s s' : St} (sh : SubShape s s') (j : Nat) :
    ∃ l, SubSys.runFrom (s.sub j) l = some (s'.sub j) := by
  cases sh with
  | same h => exact ⟨[], by rw [h]; rfl⟩
  | one idx e q' h1 h =>
    by_cases hj : j = idx
    · subst hj; exact ⟨[e], by rw [h]; simp only [upd_same]; exact run_one h1⟩
    · exact ⟨[], by rw [h]; simp only [upd_apply, hj, if_false]; rfl⟩
  | two idx e1 e2 q' q'' h1 h2 h =>
    by_cases hj : j = idx
    · subst hj; exact ⟨[e1, e2], by rw [h]; simp only [upd_same]; exact run_two h1 h2⟩
    · exact ⟨[], by rw [h]; simp only [upd_apply, hj, if_false]; rfl⟩

/-- the SPSC invariants hold for a sub-queue state iff … they are preserved by SPSC runs -/
def SubOk (q : Mpsc.St) : Prop := Mpsc.Inv .spsc q ∧ Mpsc.VInv q

theorem subOk_runFrom {a b : Mpsc.St} {l : List Mpsc.Ev} (h : SubOk a)
    (hr : SubSys.runFrom a l = some b) : SubOk b :=
  Mpsc.invs_of_runFrom (k := .spsc) (stub := 0) h hr

theorem subOk_init (np j : Nat) : SubOk ((init np).sub j) :=
  ⟨Mpsc.inv_init .spsc (j + 1) (by omega), Mpsc.vinv_init (j + 1)⟩

/-- every sub-queue of a reachable state satisfies the SPSC invariants -/
theorem subOk_of_run {np : Nat} {es : List Ev} {s : St} (h : (sys np).run es = some s) :
    ∀ j, SubOk (s.sub j) :=
  Sys.inv_of_run (sys np) (fun s => ∀ j, SubOk (s.sub j)) (subOk_init np)
    (fun _ _ _ hi hs j =>
      let ⟨_, hl⟩ := sub_runFrom_of_shape (step_subshape hs) j
      subOk_runFrom (hi j) hl) h

/-- **reduction**: every sub-queue state of a reachable state of the relaxed queue is a
    reachable state of the SPSC model started with that sub-queue's stub -/
theorem sub_reachable {np : Nat} {es : List Ev} {s : St} (h : (sys np).run es = some s) (j : Nat) :
    ∃ l, (Mpsc.sys .spsc (j + 1)).run l = some (s.sub j) := by
  refine Sys.inv_of_run (sys np)
    (fun s => ∃ l, (Mpsc.sys .spsc (j + 1)).run l = some (s.sub j)) ⟨[], rfl⟩ ?_ h
  intro s e s' ⟨l, hl⟩ hs
  obtain ⟨l2, hl2⟩ := sub_runFrom_of_shape (step_subshape hs) j
  refine ⟨l ++ l2, ?_⟩
  simp only [Sys.run] at hl ⊢
  rw [Sys.runFrom_append, hl]
  simp only [Option.bind]
  rw [runFrom_stub (j + 1) 0]; exact hl2

/-- `pushed` of every sub-queue only grows, by appending -/
theorem sub_pushed_prefix_step {s s' : St} {e : Ev} (hs : step s e = some s') (j : Nat) :
    (s.sub j).pushed <+: (s'.sub j).pushed :=
  let ⟨_, hl⟩ := sub_runFrom_of_shape (step_subshape hs) j
  Mpsc.pushed_prefix_of_runFrom (k := .spsc) (stub := 0) hl

theorem sub_pushed_prefix_runFrom {np : Nat} {s s' : St} {es : List Ev}
    (h : (sys np).runFrom s es = some s') (j : Nat) : (s.sub j).pushed <+: (s'.sub j).pushed :=
  Mpsc.runFrom_induct (sys np) (fun x => (s.sub j).pushed <+: (x.sub j).pushed)
    (fun _ _ _ hp hs => List.IsPrefix.trans hp (sub_pushed_prefix_step hs j))
    (List.prefix_refl _) h

theorem subOk_runFrom' {np : Nat} {s s' : St} {es : List Ev} (hi : ∀ j, SubOk (s.sub j))
    (h : (sys np).runFrom s es = some s') : ∀ j, SubOk (s'.sub j) :=
  Mpsc.runFrom_induct (sys np) (fun x => ∀ j, SubOk (x.sub j))
    (fun _ _ _ hi hs j =>
      let ⟨_, hl⟩ := sub_runFrom_of_shape (step_subshape hs) j
      subOk_runFrom (hi j) hl) hi h

/-! ### round robin: a trypop that returns NULL has examined every sub-queue -/

theorem residues_cover {np : Nat} (hnp : 0 < np) (c j : Nat) (hj : j < np) :
    ∃ k, k < np ∧ (c + k) % np = j := by
  have hr : c % np < np := Nat.mod_lt _ hnp
  have hc : c = np * (c / np) + c % np := (Nat.div_add_mod c np).symm
  by_cases h : c % np ≤ j
  · refine ⟨j - c % np, by omega, ?_⟩
    have : c + (j - c % np) = np * (c / np) + j := by omega
    rw [this, Nat.mul_add_mod]
    exact Nat.mod_eq_of_lt hj
  · refine ⟨np - c % np + j, by omega, ?_⟩
    have : c + (np - c % np + j) = np * (c / np + 1) + j := by
      rw [Nat.mul_add, Nat.mul_one]; omega
    rw [this, Nat.mul_add_mod]
    exact Nat.mod_eq_of_lt hj

/-- sub-queues examined (and found empty) by the first `i` loop iterations of a trypop that
    started with `counter = c0` -/
def examined (np c0 i : Nat) : List Nat := (List.range i).map (fun k => (c0 + k) % np)

theorem examined_succ (np c0 i : Nat) : examined np c0 (i + 1) = examined np c0 i ++ [(c0 + i) % np] := by
  simp [examined, List.range_succ]

structure LInv (np : Nat) (s : St) : Prop where
  npEq : s.np = np
  loop : ∀ i c0, s.cpc = .loop i c0 → s.counter = c0 + i ∧ i ≤ np ∧ s.seen = examined np c0 i
  gotC : ∀ i c0 c, s.cpc = .gotC i c0 c →
    c = c0 + i ∧ s.counter = c ∧ i < np ∧ s.seen = examined np c0 i
  inSub : ∀ i c0 idx, s.cpc = .inSub i c0 idx →
    s.counter = c0 + i + 1 ∧ i < np ∧ idx = (c0 + i) % np ∧ s.seen = examined np c0 i

theorem linv_init (np : Nat) : LInv np (init np) := by
  constructor <;> simp [init]

theorem linv_step {np : Nat} {s s' : St} {e : Ev} (h : LInv np s) (hs : step s e = some s') :
    LInv np s' := by
  have hnp := h.npEq
  cases e <;> simp only [step] at hs
  case producer t p =>
    split at hs <;> simp at hs
    subst hs; exact ⟨h.npEq, h.loop, h.gotC, h.inSub⟩
  case callPop t =>
    split at hs <;> simp at hs
    subst hs
    constructor <;> simp [hnp, examined]
  case rdCounter t c =>
    split at hs
    next i c0 hcp =>
      split at hs <;> simp at hs
      rename_i hc
      subst hs
      have := h.loop _ _ hcp
      constructor <;> simp [hnp]
      grind
    next => simp at hs
  case wrCounter t c =>
    split at hs
    next i c0 c1 hcp =>
      split at hs
      next hc =>
        split at hs
        next q' hq =>
          simp at hs; subst hs
          have := h.gotC _ _ _ hcp
          constructor <;> simp [hnp]
          grind
        next => simp at hs
      next => simp at hs
    next => simp at hs
  case retPop t v =>
    split at hs
    next =>
      split at hs <;> simp at hs
      subst hs
      constructor <;> simp [hnp]
    next i c0 idx hcp =>
      split at hs
      next hc =>
        split at hs
        next q' hq =>
          simp at hs; subst hs
          constructor <;> simp [hnp]
        next => simp at hs
      next => simp at hs
    next => simp at hs
  case sub qi e =>
    split at hs
    next => simp at hs
    next t hside =>
      split at hs
      next hc =>
        split at hs
        next q' hq =>
          simp at hs; subst hs
          exact ⟨h.npEq, h.loop, h.gotC, h.inSub⟩
        next => simp at hs
      next => simp at hs
    next t hside =>
      split at hs
      next i c0 idx hcp =>
        split at hs
        next hc =>
          split at hs
          next q' hq =>
            split at hs
            next =>
              split at hs
              next q'' hq2 =>
                simp at hs; subst hs
                have := h.inSub _ _ _ hcp
                constructor <;> simp [hnp]
                rw [examined_succ]
                grind
              next => simp at hs
            next =>
              simp at hs; subst hs
              exact ⟨h.npEq, h.loop, h.gotC, h.inSub⟩
          next => simp at hs
        next => simp at hs
      next => simp at hs

theorem linv_of_run {np : Nat} {es : List Ev} {s : St} (h : (sys np).run es = some s) : LInv np s :=
  Sys.inv_of_run (sys np) (LInv np) (linv_init np) (fun _ _ _ hi hs => linv_step hi hs) h

theorem examined_all {np c0 : Nat} (hnp : 0 < np) (j : Nat) (hj : j < np) :
    j ∈ examined np c0 np := by
  obtain ⟨k, hk, hkj⟩ := residues_cover hnp c0 j hj
  simp only [examined, List.mem_map, List.mem_range]
  exact ⟨k, hk, hkj⟩

/-! ### payloads of different sub-queues are disjoint -/

structure DInv (s : St) : Prop where
  sub : ∀ j v, v ∈ (s.sub j).called → v ∈ s.called
  disj : ∀ i j v, i ≠ j → v ∈ (s.sub i).called → v ∉ (s.sub j).called

theorem dinv_init (np : Nat) : DInv (init np) := by
  constructor <;> simp [init, Mpsc.init]

/-- a sub-queue step that is not `callPush` leaves `called` alone -/
theorem called_of_step {a b : Mpsc.St} {e : Mpsc.Ev} (h : Mpsc.step .spsc a e = some b) :
    b.called = a.called ∨ ∃ t v, e = .callPush t v ∧ b.called = a.called ++ [v] := by
  cases e <;> simp only [Mpsc.step] at h
  case callPush t v =>
    split at h <;> simp at h
    subst h; exact Or.inr ⟨t, v, rfl, rfl⟩
  all_goals
    first
    | (left; split at h <;> simp at h; subst h; rfl)
    | (left; split at h
       all_goals first
         | (simp at h; done)
         | (split at h <;> simp at h; subst h; rfl))

theorem dinv_step {s s' : St} {e : Ev} (h : DInv s) (hs : step s e = some s') : DInv s' := by
  have hsub := h.sub
  have hdisj := h.disj
  cases e <;> simp only [step] at hs
  case producer t p =>
    split at hs <;> simp at hs
    subst hs; exact ⟨h.sub, h.disj⟩
  case callPop t =>
    split at hs <;> simp at hs
    subst hs; exact ⟨h.sub, h.disj⟩
  case rdCounter t c =>
    split at hs
    next => split at hs <;> simp at hs; subst hs; exact ⟨h.sub, h.disj⟩
    next => simp at hs
  case wrCounter t c =>
    split at hs
    next i c0 c1 hcp =>
      split at hs
      next hc =>
        split at hs
        next q' hq =>
          simp at hs; subst hs
          have hcl : q'.called = (s.sub (c1 % s.np)).called := by
            rcases called_of_step hq with h1 | ⟨_, _, h1, _⟩
            · exact h1
            · cases h1
          constructor <;> simp only [upd_apply] <;> grind
        next => simp at hs
      next => simp at hs
    next => simp at hs
  case retPop t v =>
    split at hs
    next => split at hs <;> simp at hs; subst hs; exact ⟨h.sub, h.disj⟩
    next i c0 idx hcp =>
      split at hs
      next hc =>
        split at hs
        next q' hq =>
          simp at hs; subst hs
          have hcl : q'.called = (s.sub idx).called := by
            rcases called_of_step hq with h1 | ⟨_, _, h1, _⟩
            · exact h1
            · cases h1
          constructor <;> simp only [upd_apply] <;> grind
        next => simp at hs
      next => simp at hs
    next => simp at hs
  case sub qi e =>
    split at hs
    next => simp at hs
    next t hside =>
      split at hs
      next hc =>
        obtain ⟨_, _, _, hok⟩ := hc
        split at hs
        next q' hq =>
          simp at hs; subst hs
          rcases called_of_step hq with hcl | ⟨t', v, he, hcl⟩
          · have : calledAfter s e = s.called ∨ ∃ v, calledAfter s e = s.called ++ [v] := by
              cases e <;> simp [calledAfter]
            constructor <;> simp only [upd_apply] <;> grind
          · subst he
            simp only [clientOk, decide_eq_true_eq] at hok
            constructor <;> simp only [upd_apply, calledAfter] <;> grind
        next => simp at hs
      next => simp at hs
    next t hside =>
      split at hs
      next i c0 idx hcp =>
        split at hs
        next hc =>
          split at hs
          next q' hq =>
            have hcl : q'.called = (s.sub idx).called := by
              rcases called_of_step hq with h1 | ⟨t', v', h1, _⟩
              · exact h1
              · subst h1; simp [side] at hside
            split at hs
            next =>
              split at hs
              next q'' hq2 =>
                simp at hs; subst hs
                have hcl2 : q''.called = q'.called := by
                  rcases called_of_step hq2 with h1 | ⟨_, _, h1, _⟩
                  · exact h1
                  · cases h1
                constructor <;> simp only [upd_apply] <;> grind
              next => simp at hs
            next =>
              simp at hs; subst hs
              constructor <;> simp only [upd_apply] <;> grind
          next => simp at hs
        next => simp at hs
      next => simp at hs

theorem dinv_of_run {np : Nat} {es : List Ev} {s : St} (h : (sys np).run es = some s) : DInv s :=
  Sys.inv_of_run (sys np) DInv (dinv_init np) (fun _ _ _ hi hs => dinv_step hi hs) h

end LibfiberVerif.Mpscr
