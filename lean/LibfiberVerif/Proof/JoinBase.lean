/-
  Proof/Join.lean — invariants of the join / tryjoin / detach / completion protocol model
  (Model/Join.lean), property C04.   (generated layout: one theorem per conjunct so that Lean
  elaborates them in parallel; every conjunct is proved by case analysis on the event and the
  acting fiber's program counter followed by `grind`.)

  Layers, all by induction over accepted events (`Sys.inv_of_run`), for an unbounded number of
  fibers, targets and calls:
    Inv0  simple unconditional facts about detach_state and the ghost fields
    Inv1  the mailbox discipline (a parked fiber is in at most one place: its mailbox, or in the
          hands of exactly one holder) and the value facts that follow from it
    Inv2  the protocol proper, for every target on which none of the three windows
          (tDetach / tThird / tOver, see Model/Join.lean) has been opened
    Inv3  no post-exchange access to a destroyed fiber (same hypothesis)
-/
import LibfiberVerif.Model.Join

set_option linter.unusedSimpArgs false
set_option linter.unusedVariables false

namespace LibfiberVerif.Join

/-! ### predicates on program counters -/

/-- the fiber is past the exchange (or the DETACHED short-cut) of its own completion -/
@[simp, grind] def finX : Pc → Bool
  | .fPark0 | .fParking | .fParked | .fWoken | .fTake | .fGot _ | .fGotRes _ _ | .fGave _ | .fMark | .fDone => true
  | _ => false

/-- the fiber has stored its result -/
@[simp, grind] def stored : Pc → Bool
  | .fStored | .fLoaded => true
  | .fPark0 | .fParking | .fParked | .fWoken | .fTake | .fGot _ | .fGotRes _ _ | .fGave _ | .fMark | .fDone => true
  | _ => false

/-- the finished fiber is on its way into its own mailbox, or in it -/
@[simp, grind] def parkF : Pc → Bool
  | .fPark0 | .fParking | .fParked => true
  | _ => false

/-- a joiner on its way into g's mailbox, or in it -/
@[simp, grind] def joinerPark (c : Pc) (g : Nat) : Bool :=
  match c with
  | .jPark0 t | .jParking t | .jParked t => t == g
  | _ => false

@[simp, grind] def joinerPath (c : Pc) (g : Nat) : Bool :=
  match c with
  | .jPark0 t | .jParking t | .jParked t | .jWoken t | .jGotRes t _ => t == g
  | _ => false

/-- a client that claimed the finished fiber and has not woken it yet -/
@[simp, grind] def takePh (c : Pc) (g : Nat) : Bool :=
  match c with
  | .take0 _ t | .take _ t _ | .wake _ t _ _ => t == g
  | _ => false

/-- every program point from which a client still acts on g's mailbox / will report SUCCESS -/
@[simp, grind] def claimPath (c : Pc) (g : Nat) : Bool :=
  match c with
  | .jPark0 t | .jParking t | .jParked t | .jWoken t | .jGotRes t _ => t == g
  | .take0 _ t | .take _ t _ | .wake _ t _ _ => t == g
  | .retn op t ok _ => t == g && ok && op != .detach
  | _ => false

/-- a detach that takes the finished fiber out of its mailbox -/
@[simp, grind] def detTake (c : Pc) (g : Nat) : Bool :=
  match c with
  | .take .detach t _ | .wake .detach t _ _ => t == g
  | _ => false

/-- a holds p: it took p out of a mailbox and is about to wake it -/
@[simp, grind] def holds (c : Pc) (p : Nat) : Bool :=
  match c with
  | .wake _ _ _ q | .fGot q | .fGotRes q _ | .fGave q => q == p
  | _ => false

/-- the finishing fiber holds its joiner p -/
@[simp, grind] def holdsF (c : Pc) (p : Nat) : Bool :=
  match c with
  | .fGot q | .fGotRes q _ | .fGave q => q == p
  | _ => false

@[simp, grind] def holdsFAny : Pc → Bool
  | .fGot _ | .fGotRes _ _ | .fGave _ => true
  | _ => false

/-- q is parked in g's mailbox protocol-wise -/
@[simp, grind] def parkedIn (c : Pc) (q g : Nat) : Bool :=
  match c with
  | .jParked t => t == g
  | .fParked => q == g
  | _ => false

/-- the finishing fiber is busy delivering to its joiner p -/
@[simp, grind] def delivering (c : Pc) (p : Nat) : Bool :=
  match c with
  | .fTake => true
  | .fGot q | .fGotRes q _ | .fGave q => q == p
  | _ => false

/-- program points of a fiber that makes calls at which its own hand-over slot (`result`) is
    clear: everywhere except between the hand-over by the finishing fiber (the earliest moment
    is the deferred store that parks the joiner) and the joiner's own clearing store -/
@[simp, grind] def slotFree : Pc → Bool
  | .idle | .called _ _ | .tLoaded1 _ | .loaded _ _ | .jPark0 _ | .jParking _
  | .take0 _ _ | .take _ _ _ | .wake _ _ _ _ | .retn _ _ _ _ => true
  | _ => false

@[grind →] theorem jpk_jp {c g} (h : joinerPark c g = true) : joinerPath c g = true := by
  cases c <;> simp_all
@[grind →] theorem jp_cp {c g} (h : joinerPath c g = true) : claimPath c g = true := by
  cases c <;> simp_all
@[grind →] theorem tp_cp {c g} (h : takePh c g = true) : claimPath c g = true := by
  cases c <;> simp_all
@[grind →] theorem hf_h {c p} (h : holdsF c p = true) : holds c p = true := by
  cases c <;> simp_all
@[grind →] theorem hf_hfa {c p} (h : holdsF c p = true) : holdsFAny c = true := by
  cases c <;> simp_all
@[grind →] theorem parkedIn_inj {c q g g'} (h : parkedIn c q g = true) (h' : parkedIn c q g' = true) : g = g' := by
  cases c <;> simp_all
@[grind →] theorem parkedIn_inv {c q g} (h : parkedIn c q g = true) : c = .jParked g ∨ (c = .fParked ∧ q = g) := by
  cases c <;> simp_all
@[grind →] theorem holds_inv {c p} (h : holds c p = true) :
    (∃ op g v, c = .wake op g v p) ∨ c = .fGot p ∨ (∃ v, c = .fGotRes p v) ∨ c = .fGave p := by
  cases c <;> simp_all
@[grind →] theorem detTake_inv {c g} (h : detTake c g = true) :
    (∃ v, c = .take .detach g v) ∨ (∃ v p, c = .wake .detach g v p) := by
  cases c with
  | take op t v => cases op <;> simp_all
  | wake op t v p => cases op <;> simp_all
  | _ => simp_all
@[grind →] theorem fx_st {c} (h : finX c = true) : stored c = true := by
  cases c <;> simp_all
@[grind →] theorem pf_fx {c} (h : parkF c = true) : finX c = true := by
  cases c <;> simp_all

/-! ### from `step` to `stepCore` -/

theorem step_some {s : St} {e : Ev} {s' : St} (h : step s e = some s') :
    ∃ s1, stepCore s e = some s1 ∧
      s' = { s1 with late := if e.counted ∧ s1.destroyed e.cellOf then upd s1.late e.cellOf (s1.late e.cellOf + 1) else s1.late } := by
  unfold step at h
  cases hc : stepCore s e with
  | none => simp [hc] at h
  | some s1 => simp [hc] at h; exact ⟨s1, rfl, h.symm⟩

/-- case analysis on the event and on the acting fiber's program counter; leaves one goal per
    accepted branch of `stepCore`, with the successor state substituted -/
syntax "step_cases " ident " with " ident : tactic
macro_rules
  | `(tactic| step_cases $e with $hc) => `(tactic| (
      cases $e:ident <;> simp only [stepCore] at $hc:ident
      all_goals (repeat' split at $hc:ident)
      all_goals (try (simp at $hc:ident))
      all_goals (try subst $hc:ident)))

/-! ### the invariant, in three layers (statements; proofs in JoinL0 / JoinL1 / JoinL2a / JoinL2b) -/

/-- layer 0: simple unconditional facts -/
structure Inv0 (s : St) : Prop where
  dr : ∀ g, s.det g ≤ 3
  wfj : ∀ g, s.det g = WFJ → finX (s.pc g) = true
  detx : ∀ g, s.det g = DET → s.detX g = true
  fret : ∀ g v, s.pc g = .fRet v → s.retval g = some v
  tl : ∀ a op g, s.pc a = .loaded op g → op ≠ .join → s.det g ≠ NONE
  cpn : ∀ a g, claimPath (s.pc a) g = true → s.det g ≠ NONE
  scn : ∀ g, s.succ g ≠ [] → s.det g ≠ NONE
  fxn : ∀ g, finX (s.pc g) = true → s.det g ≠ NONE
  dst : ∀ g, s.destroyed g = true → s.pc g = .fDone
  fj : ∀ p g, joinerPath (s.pc p) g = true → s.first g = some p
  ff : ∀ g, (parkF (s.pc g) = true ∨ s.pc g = .fWoken) → s.first g = some g
  tcl : ∀ b g, takePh (s.pc b) g = true → (s.claimed g = true ∨ s.detX g = true)
  fc : ∀ g, holdsFAny (s.pc g) = true → s.claimed g = true

/-- layer 1: mailbox discipline (holder uniqueness) and the values that travel -/
structure Inv1 (s : St) : Prop where
  mb : ∀ g, s.ji g ≠ 0 → parkedIn (s.pc (s.ji g)) (s.ji g) g = true ∧ s.holder (s.ji g) = none
  hw : ∀ a op g v p, s.pc a = .wake op g v p → s.holder p = some a ∧ parkedIn (s.pc p) p g = true
  hf : (∀ a p, s.pc a = .fGot p → s.holder p = some a ∧ s.pc p = .jParked a) ∧ (∀ a p v, s.pc a = .fGotRes p v → s.holder p = some a ∧ s.pc p = .jParked a) ∧ (∀ a p, s.pc a = .fGave p → s.holder p = some a ∧ s.pc p = .jParked a)
  hh : ∀ p, s.holder p = none ∨ ∃ a, s.holder p = some a ∧ holds (s.pc a) p = true
  st : ∀ g, stored (s.pc g) = true → s.retval g = some (s.res g)
  t0 : ∀ a op g, s.pc a = .take0 op g → finX (s.pc g) = true
  tv : ∀ a op g v, s.pc a = .take op g v → op ≠ .detach → s.retval g = some v
  wv : ∀ a op g v p, s.pc a = .wake op g v p → op ≠ .detach → s.retval g = some v
  gr : ∀ g p v, s.pc g = .fGotRes p v → s.retval g = some v
  gv : ∀ g p, s.pc g = .fGave p → s.retval g = some (s.res p)
  dj : ∀ g, (s.pc g = .fWoken ∨ s.pc g = .fMark ∨ s.pc g = .fDone) → (s.claimed g = true ∨ s.detX g = true)
  sc : ∀ a, slotFree (s.pc a) = true → s.res a = 0
  jo1 : ∀ p t, s.pc p = .jParked t → (s.res p = 0 ∨ s.retval t = some (s.res p))
  jo2 : ∀ p t, s.pc p = .jWoken t → (s.res p = 0 ∨ s.retval t = some (s.res p))
  jo3 : ∀ p t v, s.pc p = .jGotRes t v → (v = 0 ∨ s.retval t = some v)
  jo4 : ∀ a op t v, s.pc a = .retn op t true v → op ≠ .detach → (v = 0 ∨ s.retval t = some v)
  jo5 : ∀ t v, v ∈ s.succ t → (v = 0 ∨ s.retval t = some v)

/-- layer 2: the protocol on targets without an opened window -/
structure Inv2 (s : St) : Prop where
  k3 : ∀ g a, untainted s g → claimPath (s.pc a) g = true → (s.det g ≠ WFJ ∨ s.finTook g = true)
  k4 : ∀ g, untainted s g → s.succ g ≠ [] → (s.det g ≠ WFJ ∨ s.finTook g = true)
  k5 : ∀ g p, untainted s g → joinerPark (s.pc p) g = true → (s.det g = WTJ ∨ (s.det g = WFJ ∧ s.finTook g = true))
  uq : ∀ g a a', untainted s g → claimPath (s.pc a) g = true → claimPath (s.pc a') g = true → a = a'
  sq : ∀ g a, untainted s g → s.succ g ≠ [] → claimPath (s.pc a) g = false
  sl : ∀ g, untainted s g → (s.succ g).length ≤ 1
  cv1 : ∀ g p, untainted s g → s.pc p = .jWoken g → s.retval g = some (s.res p)
  cv2 : ∀ g p v, untainted s g → s.pc p = .jGotRes g v → s.retval g = some v
  cv3 : ∀ g a op v, untainted s g → s.pc a = .retn op g true v → op ≠ .detach → s.retval g = some v
  sv : ∀ g v, untainted s g → v ∈ s.succ g → s.retval g = some v
  c1 : ∀ g b, untainted s g → takePh (s.pc b) g = true → parkF (s.pc g) = true
  c4 : ∀ g, untainted s g → s.det g = WFJ → (s.finTook g = true ∨ parkF (s.pc g) = true)
  c9 : ∀ g, untainted s g → s.det g = WTJ → finX (s.pc g) = false → (s.first g ≠ none ∧ ∀ p, s.first g = some p → joinerPark (s.pc p) g = true)
  ii : ∀ g, untainted s g → s.pc g = .fTake → (s.first g ≠ none ∧ ∀ p, s.first g = some p → joinerPark (s.pc p) g = true)
  iii : ∀ g p, untainted s g → joinerPark (s.pc p) g = true → finX (s.pc g) = true → delivering (s.pc g) p = true
  iv : ∀ g, untainted s g → parkF (s.pc g) = true → s.det g ≠ WFJ → (s.taker g ≠ none ∧ ∀ b, s.taker g = some b → takePh (s.pc b) g = true)
  t4 : ∀ g, untainted s g → s.detX g = true → s.det g = DET
  dx1 : ∀ g, untainted s g → s.detX g = true → s.succ g = []
  dx2 : ∀ g a, untainted s g → s.detX g = true → claimPath (s.pc a) g = true → detTake (s.pc a) g = true

end LibfiberVerif.Join
