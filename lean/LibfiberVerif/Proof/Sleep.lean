/-
  Proof/Sleep.lean — lemmas and invariants for Model/Sleep.lean (property C09).

  Part 1: the pure tree functions (`insert` = waiter_insert, `removeLt` =
          waiter_remove_less_than, `drainAll` = the wake loop).
  Part 2: invariants of the protocol model, for every variant.
-/
import LibfiberVerif.Model.Sleep

namespace LibfiberVerif.Sleep
open Tree

/-! ## Part 1 — the tree -/

theorem mem_group {i w : Nat} {c : List Nat} {x : Nat × Nat} (h : x ∈ group i w c) : x.2 = w := by
  simp only [group, List.mem_cons, List.mem_map] at h
  rcases h with h | ⟨j, _, h⟩
  · simp [h]
  · simp [← h]

theorem insert_toList_perm (t : Tree) (id wt : Nat) :
    (insert t id wt).toList.Perm ((id, wt) :: t.toList) := by
  induction t with
  | nil => simp [insert, toList, group]
  | node i w c l r ihl ihr =>
    simp only [insert]
    split
    · -- left
      simp only [toList]
      have := ihl
      calc (insert l id wt).toList ++ group i w c ++ r.toList
          = (insert l id wt).toList ++ (group i w c ++ r.toList) := by simp
        _ |>.Perm (((id, wt) :: l.toList) ++ (group i w c ++ r.toList)) := List.Perm.append_right _ this
        _ = (id, wt) :: (l.toList ++ group i w c ++ r.toList) := by simp
    · split
      · -- equal: pushed on the chain right after the head
        rename_i h1 h2
        subst h2
        simp only [toList, group, List.map_cons]
        -- l ++ (i,w) :: (id,w) :: c' ++ r   ~   (id,w) :: l ++ (i,w) :: c' ++ r
        have : ((i, wt) :: (id, wt) :: List.map (fun j => (j, wt)) c).Perm
            ((id, wt) :: (i, wt) :: List.map (fun j => (j, wt)) c) := List.Perm.swap _ _ _
        have h3 : (l.toList ++ (i, wt) :: (id, wt) :: List.map (fun j => (j, wt)) c ++ r.toList).Perm
            (l.toList ++ ((id, wt) :: (i, wt) :: List.map (fun j => (j, wt)) c) ++ r.toList) :=
          List.Perm.append_right _ (List.Perm.append_left _ this)
        refine h3.trans ?_
        simp only [List.append_assoc, List.cons_append]
        exact List.perm_middle
      · -- right
        simp only [toList]
        have := ihr
        calc l.toList ++ group i w c ++ (insert r id wt).toList
            |>.Perm (l.toList ++ group i w c ++ ((id, wt) :: r.toList)) := List.Perm.append_left _ this
          _ |>.Perm ((id, wt) :: (l.toList ++ group i w c ++ r.toList)) := List.perm_middle

theorem mem_insert_toList {t : Tree} {id wt : Nat} {x : Nat × Nat} :
    x ∈ (insert t id wt).toList ↔ x = (id, wt) ∨ x ∈ t.toList := by
  rw [(insert_toList_perm t id wt).mem_iff]; simp

theorem insert_ordered {t : Tree} (id wt : Nat) (h : Ordered t) : Ordered (insert t id wt) := by
  induction t with
  | nil => simp [insert, Ordered, toList]
  | node i w c l r ihl ihr =>
    obtain ⟨hl, hr, hlt, hgt⟩ := h
    simp only [insert]
    split
    · refine ⟨ihl hl, hr, ?_, hgt⟩
      intro x hx
      rcases mem_insert_toList.mp hx with rfl | hx
      · assumption
      · exact hlt x hx
    · split
      · exact ⟨hl, hr, hlt, hgt⟩
      · refine ⟨hl, ihr hr, hlt, ?_⟩
        intro x hx
        rcases mem_insert_toList.mp hx with rfl | hx
        · simp; omega
        · exact hgt x hx

/-- what `waiter_remove_less_than` returns is the FIRST group of the in-order traversal -/
theorem removeLt_toList {t : Tree} {now i w : Nat} {c : List Nat} {t' : Tree}
    (h : removeLt t now = some ((i, w, c), t')) : t.toList = group i w c ++ t'.toList := by
  induction t generalizing t' with
  | nil => simp [removeLt] at h
  | node i0 w0 c0 l r ihl _ =>
    cases l with
    | nil =>
      simp only [removeLt] at h
      split at h
      · simp at h; obtain ⟨⟨rfl, rfl, rfl⟩, rfl⟩ := h; simp [toList]
      · simp at h
    | node i1 w1 c1 l1 r1 =>
      simp only [removeLt] at h
      split at h
      · simp at h
      · rename_i x l2 heq
        simp at h
        obtain ⟨rfl, rfl⟩ := h
        have := ihl heq
        simp only [toList] at this ⊢
        rw [this]; simp

theorem removeLt_lt {t : Tree} {now i w : Nat} {c : List Nat} {t' : Tree}
    (h : removeLt t now = some ((i, w, c), t')) : w < now := by
  induction t generalizing t' with
  | nil => simp [removeLt] at h
  | node i0 w0 c0 l r ihl _ =>
    cases l with
    | nil =>
      simp only [removeLt] at h
      split at h
      · simp at h; obtain ⟨⟨_, rfl, _⟩, _⟩ := h; assumption
      · simp at h
    | node i1 w1 c1 l1 r1 =>
      simp only [removeLt] at h
      split at h
      · simp at h
      · rename_i x l2 heq
        simp at h
        obtain ⟨rfl, rfl⟩ := h
        exact ihl heq

theorem removeLt_ordered {t : Tree} {now : Nat} {x : Nat × Nat × List Nat} {t' : Tree}
    (ho : Ordered t) (h : removeLt t now = some (x, t')) : Ordered t' := by
  induction t generalizing t' with
  | nil => simp [removeLt] at h
  | node i0 w0 c0 l r ihl _ =>
    obtain ⟨hl, hr, hlt, hgt⟩ := ho
    cases l with
    | nil =>
      simp only [removeLt] at h
      split at h
      · simp at h; obtain ⟨_, rfl⟩ := h; exact hr
      · simp at h
    | node i1 w1 c1 l1 r1 =>
      simp only [removeLt] at h
      split at h
      · simp at h
      · rename_i y l2 heq
        simp at h
        obtain ⟨rfl, rfl⟩ := h
        obtain ⟨i, w, c⟩ := y
        refine ⟨ihl hl heq, hr, ?_, hgt⟩
        intro z hz
        apply hlt
        rw [removeLt_toList heq]
        exact List.mem_append_right _ hz

theorem removeLt_size {t : Tree} {now : Nat} {x : Nat × Nat × List Nat} {t' : Tree}
    (h : removeLt t now = some (x, t')) : size t' < size t := by
  induction t generalizing t' with
  | nil => simp [removeLt] at h
  | node i0 w0 c0 l r ihl _ =>
    cases l with
    | nil =>
      simp only [removeLt] at h
      split at h
      · simp at h; obtain ⟨_, rfl⟩ := h; simp [size]
      · simp at h
    | node i1 w1 c1 l1 r1 =>
      simp only [removeLt] at h
      split at h
      · simp at h
      · rename_i y l2 heq
        simp at h
        obtain ⟨rfl, rfl⟩ := h
        have := ihl heq
        simp only [size] at this ⊢
        omega

/-- `waiter_remove_less_than` returns NULL only if nothing in the (ordered) tree is due -/
theorem removeLt_none {t : Tree} {now : Nat} (ho : Ordered t) (h : removeLt t now = none) :
    ∀ x ∈ t.toList, now ≤ x.2 := by
  induction t with
  | nil => simp [toList]
  | node i0 w0 c0 l r ihl _ =>
    obtain ⟨hl, hr, hlt, hgt⟩ := ho
    cases l with
    | nil =>
      simp only [removeLt] at h
      split at h
      · simp at h
      · rename_i hw
        intro x hx
        simp only [toList, List.nil_append, List.mem_append] at hx
        rcases hx with hx | hx
        · rw [mem_group hx]; omega
        · have := hgt x hx; omega
    | node i1 w1 c1 l1 r1 =>
      simp only [removeLt] at h
      split at h
      · rename_i heq
        have hleft := ihl hl heq
        -- the left subtree is not empty: its root is ≥ now and < w0
        have hmem : (i1, w1) ∈ (Tree.node i1 w1 c1 l1 r1).toList := by simp [toList, group]
        have h1 := hleft _ hmem
        have h2 := hlt _ hmem
        simp at h1 h2
        intro x hx
        simp only [toList, List.mem_append] at hx hleft
        rcases hx with (hx | hx) | hx
        · exact hleft x (by simpa [toList] using hx)
        · rw [mem_group hx]; omega
        · have := hgt x hx; omega
      · simp at h

theorem drainN_spec (n : Nat) : ∀ (t : Tree) (now : Nat), Ordered t → size t ≤ n →
    t.toList = (drainN n t now).1 ++ (drainN n t now).2.toList ∧
    (∀ x ∈ (drainN n t now).1, x.2 < now) ∧
    (∀ x ∈ (drainN n t now).2.toList, now ≤ x.2) ∧
    Ordered (drainN n t now).2 ∧ removeLt (drainN n t now).2 now = none := by
  induction n with
  | zero =>
    intro t now ho hs
    have : t = .nil := by cases t <;> simp [size] at hs ⊢
    subst this
    simp [drainN, toList, removeLt, Ordered]
  | succ n ih =>
    intro t now ho hs
    simp only [drainN]
    split
    · rename_i heq
      exact ⟨by simp, by simp, removeLt_none ho heq, ho, heq⟩
    · rename_i i w c t' heq
      have hs' : size t' ≤ n := by have := removeLt_size heq; omega
      obtain ⟨h1, h2, h3, h4, h5⟩ := ih t' now (removeLt_ordered ho heq) hs'
      refine ⟨?_, ?_, h3, h4, h5⟩
      · rw [removeLt_toList heq]
        conv => lhs; rw [h1]
        simp
      · intro x hx
        simp only [List.mem_append] at hx
        rcases hx with hx | hx
        · rw [mem_group hx]; exact removeLt_lt heq
        · exact h2 x hx

theorem filter_append_split {α : Type} (p : α → Bool) (a b : List α)
    (ha : ∀ x ∈ a, p x = true) (hb : ∀ x ∈ b, p x = false) :
    (a ++ b).filter p = a ∧ (a ++ b).filter (fun x => !p x) = b := by
  constructor
  · rw [List.filter_append, List.filter_eq_self.mpr ha, List.filter_eq_nil_iff.mpr (by
      intro x hx; simp [hb x hx])]
    simp
  · rw [List.filter_append, List.filter_eq_nil_iff.mpr (by intro x hx; simp [ha x hx]),
      List.filter_eq_self.mpr (by intro x hx; simp [hb x hx])]
    simp

/-! ## Part 2 — invariants of the protocol model (every variant unless stated) -/

/-! ### L: sleep_spinlock has one owner, and the owner's pc knows it -/

def InvL (s : St) : Prop :=
  (∀ g, (s.pc g).holds = true → s.holder = some g) ∧
  (∀ g, s.holder = some g → (s.pc g).holds = true)

theorem invL_init : InvL init := by
  constructor <;> intro g h <;> simp [init, Pc.holds] at h

theorem invL_step (v : Variant) (s s' : St) (e : Ev) (hI : InvL s) (h : step v s e = some s') :
    InvL s' := by
  obtain ⟨h1, h2⟩ := hI
  cases e <;> simp only [step] at h <;> (repeat' split at h) <;> simp at h <;> (try subst h)
  all_goals (refine ⟨?_, ?_⟩ <;> intro g' hg' <;> (try simp only [upd] at *) <;>
    grind [Pc.holds, afterNext])

/-! ### T: every timer expiration is in exactly one place -/

def flSum (l : List (Nat × Nat)) : Nat := (l.map (·.2)).sum

theorem flSum_erase (l : List (Nat × Nat)) (g k : Nat) (h : (g, k) ∈ l ∨ k = 0) :
    flSum (l.erase (g, k)) + k = flSum l := by
  induction l with
  | nil => rcases h with h | h <;> simp_all [flSum]
  | cons a l ih =>
    by_cases ha : a = (g, k)
    · subst ha; simp [flSum]; omega
    · have : (g, k) ∈ l ∨ k = 0 := by
        rcases h with h | h
        · left; simpa [Ne.symm ha] using h
        · right; exact h
      have ih := ih this
      rw [List.erase_cons_tail (by simpa using ha)]
      simp only [flSum, List.map_cons, List.sum_cons] at ih ⊢
      omega

def InvT (v : Variant) (s : St) : Prop :=
  s.ttc + s.pending + flSum s.fl = s.now / v.period ∧
  (∀ g, (s.pc g).carry ≠ 0 → (g, (s.pc g).carry) ∈ s.fl) ∧
  (∀ g r k y, s.pc g = .addW r k y → y = s.ttc)

theorem invT_init (v : Variant) : InvT v init := by
  refine ⟨?_, ?_, ?_⟩
  · simp [init, flSum]
  · intro g h; simp [init, Pc.carry] at h
  · intro g r k y h; simp [init] at h

theorem invT_step (v : Variant) (s s' : St) (e : Ev) (hL : InvL s) (hI : InvT v s)
    (h : step v s e = some s') : InvT v s' := by
  obtain ⟨h1, h2, h3⟩ := hI
  obtain ⟨l1, l2⟩ := hL
  cases e with
  | tick d k =>
    simp only [step] at h; split at h <;> simp at h; subst h
    rename_i hk
    have := Nat.div_le_div_right (c := v.period) (Nat.le_add_right s.now d)
    exact ⟨by simp only; omega, h2, h3⟩
  | wTtc g x =>
    simp only [step] at h; (repeat' split at h) <;> simp at h; subst h
    rename_i r k y hpc hx
    have hc := h2 g
    simp only [hpc, Pc.carry] at hc
    have hy := h3 g r k y hpc
    have hs := flSum_erase s.fl g k (by by_cases hk : k = 0 <;> simp_all)
    refine ⟨by simp only; omega, ?_, ?_⟩
    · intro g' hg'
      simp only [upd] at hg' ⊢
      by_cases hgg : g' = g
      · simp [hgg, Pc.carry] at hg'
      · simp only [hgg, if_false] at hg' ⊢
        exact (List.mem_erase_of_ne (by simp [hgg])).mpr (h2 g' hg')
    · intro g' r' k' y' hg'
      simp only [upd] at hg'
      by_cases hgg : g' = g
      · simp [hgg] at hg'
      · simp only [hgg, if_false] at hg'
        have e1 := l1 g (by simp [hpc, Pc.holds])
        have e2 := l1 g' (by simp [hg', Pc.holds])
        rw [e1] at e2; simp at e2; exact absurd e2.symm hgg
  | _ =>
    simp only [step] at h <;> (repeat' split at h) <;> simp at h <;> (try subst h)
    all_goals (refine ⟨?_, ?_, ?_⟩ <;> (try intro g' hg') <;> (try simp only [upd, flSum] at *) <;>
      grind [Pc.carry, afterNext])

/-! ### M: the sleepers tree, the group being woken and the sleeping fibers' pcs agree -/

def ids (t : Tree) : List Nat := t.toList.map (·.1)
def Pc.inTree : Pc → Bool
  | .inserted | .owner | .parkedL | .parked => true
  | _ => false
def Pc.walking : Pc → Bool
  | .gotNode .. | .gotNext .. | .sched .. | .needNode .. => true
  | _ => false

def InvM (s : St) : Prop :=
  (ids s.tree ++ s.cur).Nodup ∧
  (∀ x ∈ s.tree.toList, s.wake x.1 = x.2 ∧ (s.pc x.1).inTree = true ∧ x.1 ≠ 0) ∧
  (∀ m ∈ s.cur, s.wake m = s.curW ∧ s.pc m = .parked ∧ m ≠ 0) ∧
  (s.cur ≠ [] → s.curW < s.ttc ∧ ∃ g, s.holder = some g ∧ (s.pc g).walking = true) ∧
  Ordered s.tree

theorem invM_init : InvM init := by
  refine ⟨by simp [init, ids, toList], ?_, ?_, ?_, by simp [init, Ordered]⟩ <;> simp [init, toList]

theorem invM_same {s : St} (hI : InvM s) (s' : St)
    (e1 : s'.tree = s.tree) (e2 : s'.cur = s.cur) (e3 : s'.curW = s.curW) (e4 : s'.wake = s.wake)
    (e5 : s'.ttc = s.ttc) (e6 : s'.holder = s.holder) (e7 : s'.pc = s.pc) : InvM s' := by
  unfold InvM; rw [e1, e2, e3, e4, e5, e6, e7]; exact hI

theorem invM_frame {s : St} (hI : InvM s) (s' : St) (g : Nat) (p' : Pc)
    (e1 : s'.tree = s.tree) (e2 : s'.cur = s.cur) (e3 : s'.curW = s.curW) (e4 : s'.wake = s.wake)
    (e5 : s.cur ≠ [] → s.ttc ≤ s'.ttc) (e6 : s.cur ≠ [] → s'.holder = s.holder)
    (e7 : s'.pc = upd s.pc g p')
    (c1 : (s.pc g).inTree = true → p'.inTree = true)
    (c2 : s.pc g ≠ .parked)
    (c3 : (s.pc g).walking = true → p'.walking = true ∨ s.cur = []) : InvM s' := by
  obtain ⟨m1, m2, m3, m4, m5⟩ := hI
  refine ⟨by rw [e1, e2]; exact m1, ?_, ?_, ?_, by rw [e1]; exact m5⟩
  · intro x hx
    rw [e1] at hx
    have := m2 x hx
    rw [e4, e7]
    refine ⟨this.1, ?_, this.2.2⟩
    by_cases hxg : x.1 = g
    · simp only [upd, hxg, if_true]; apply c1; rw [← hxg]; exact this.2.1
    · simp only [upd, hxg, if_false]; exact this.2.1
  · intro m hm
    rw [e2] at hm
    have := m3 m hm
    rw [e4, e3, e7]
    refine ⟨this.1, ?_, this.2.2⟩
    have : m ≠ g := by intro h; subst h; exact c2 this.2.1
    simp only [upd, this, if_false]; exact (m3 m hm).2.1
  · intro hc
    rw [e2] at hc
    obtain ⟨h1, g0, h2, h3⟩ := m4 hc
    rw [e3, e6 hc, e7]
    refine ⟨Nat.lt_of_lt_of_le h1 (e5 hc), g0, h2, ?_⟩
    by_cases hg : g0 = g
    · subst hg; simp only [upd, if_true]
      rcases c3 h3 with h | h
      · exact h
      · exact absurd h hc
    · simp only [upd, hg, if_false]; exact h3

/-- the group being woken is abandoned (as found, after a stale read) -/
theorem invM_clear {s : St} (hI : InvM s) (s' : St) (g : Nat) (p' : Pc)
    (e1 : s'.tree = s.tree) (e2 : s'.cur = []) (e4 : s'.wake = s.wake)
    (e7 : s'.pc = upd s.pc g p')
    (c1 : (s.pc g).inTree = false) : InvM s' := by
  obtain ⟨m1, m2, m3, m4, m5⟩ := hI
  refine ⟨?_, ?_, by rw [e2]; simp, by rw [e2]; simp, by rw [e1]; exact m5⟩
  · rw [e1, e2]; simp; exact (List.nodup_append.mp m1).1
  · intro x hx
    rw [e1] at hx
    have := m2 x hx
    rw [e4, e7]
    refine ⟨this.1, ?_, this.2.2⟩
    have hxg : x.1 ≠ g := by intro h; rw [h] at this; simp [c1] at this
    simp only [upd, hxg, if_false]; exact this.2.1

/-- a holder that is not walking a chain means no chain is being walked -/
theorem cur_nil_of_holder {s : St} (hL : InvL s) (hI : InvM s) {g : Nat}
    (hh : (s.pc g).holds = true) (hw : (s.pc g).walking = false) : s.cur = [] := by
  apply Classical.byContradiction
  intro hc
  obtain ⟨_, g0, h2, h3⟩ := hI.2.2.2.1 hc
  have := hL.1 g hh
  rw [this] at h2; simp at h2; subst h2
  rw [hw] at h3; simp at h3

theorem cur_nil_of_free {s : St} (hI : InvM s) (hh : s.holder = none) : s.cur = [] := by
  apply Classical.byContradiction
  intro hc
  obtain ⟨_, g0, h2, _⟩ := hI.2.2.2.1 hc
  rw [hh] at h2; simp at h2

theorem ids_insert_perm (t : Tree) (f wt : Nat) : (ids (insert t f wt)).Perm (f :: ids t) := by
  have := (insert_toList_perm t f wt).map (·.1)
  simpa [ids] using this

theorem invM_insert {s : St} (hL : InvL s) (hI : InvM s) (s' : St) (f wt : Nat)
    (hpc : s.pc f = .inserting) (hf : f ≠ 0)
    (e1 : s'.tree = insert s.tree f wt) (e2 : s'.cur = s.cur) (_e3 : s'.curW = s.curW)
    (e4 : s'.wake = upd s.wake f wt) (_e5 : s'.ttc = s.ttc) (_e6 : s'.holder = s.holder)
    (e7 : s'.pc = upd s.pc f .inserted) : InvM s' := by
  have hcur := cur_nil_of_holder hL hI (g := f) (by simp [hpc, Pc.holds]) (by simp [hpc, Pc.walking])
  obtain ⟨m1, m2, m3, m4, m5⟩ := hI
  have hnot : f ∉ ids s.tree := by
    intro hm
    simp only [ids, List.mem_map] at hm
    obtain ⟨x, hx, rfl⟩ := hm
    have := (m2 x hx).2.1
    simp [hpc, Pc.inTree] at this
  refine ⟨?_, ?_, by rw [e2, hcur]; simp, by rw [e2, hcur]; simp, by rw [e1]; exact insert_ordered f wt m5⟩
  · rw [e1, e2, hcur]; simp
    rw [(ids_insert_perm s.tree f wt).nodup_iff]
    rw [hcur] at m1; simp at m1
    exact List.nodup_cons.mpr ⟨hnot, m1⟩
  · intro x hx
    rw [e1] at hx
    rw [e4, e7]
    rcases mem_insert_toList.mp hx with rfl | hx
    · simp [upd, Pc.inTree, hf]
    · have := m2 x hx
      have hxf : x.1 ≠ f := by
        intro h; apply hnot; simp only [ids, List.mem_map]; exact ⟨x, hx, h⟩
      simp only [upd, hxf, if_false]; exact this

theorem ids_group (i w : Nat) (c : List Nat) : (group i w c).map (·.1) = i :: c := by
  simp [group, Function.comp_def]

theorem invM_remove {s : St} (hL : InvL s) (hI : InvM s) (s' : St) (g i w : Nat) (c : List Nat)
    (t' : Tree) (r : Role)
    (hpc : s.pc g = .removing r) (hrm : removeLt s.tree s.ttc = some ((i, w, c), t'))
    (e1 : s'.tree = t') (e2 : s'.cur = i :: c) (e3 : s'.curW = w)
    (e4 : s'.wake = s.wake) (e5 : s'.ttc = s.ttc) (e6 : s'.holder = s.holder)
    (e7 : s'.pc = upd s.pc g (.gotNode r i)) : InvM s' := by
  have hcur := cur_nil_of_holder hL hI (g := g) (by simp [hpc, Pc.holds]) (by simp [hpc, Pc.walking])
  have hhold := hL.1 g (by simp [hpc, Pc.holds])
  obtain ⟨m1, m2, m3, m4, m5⟩ := hI
  have htl := removeLt_toList hrm
  have hids : ids s.tree = (i :: c) ++ ids t' := by
    simp only [ids, htl, List.map_append, ids_group]
  refine ⟨?_, ?_, ?_, ?_, by rw [e1]; exact removeLt_ordered m5 hrm⟩
  · rw [e1, e2]
    rw [hcur, hids] at m1; simp only [List.append_nil] at m1
    exact (List.perm_append_comm).nodup_iff.mp m1
  · intro x hx
    rw [e1] at hx
    have hx' : x ∈ s.tree.toList := by rw [htl]; exact List.mem_append_right _ hx
    have := m2 x hx'
    rw [e4, e7]
    have hxg : x.1 ≠ g := by
      intro h; rw [h] at this; simp [hpc, Pc.inTree] at this
    simp only [upd, hxg, if_false]; exact this
  · intro m hm
    rw [e2] at hm
    have hmem : (m, w) ∈ s.tree.toList := by
      rw [htl]; apply List.mem_append_left
      simp only [group, List.mem_cons, List.mem_map] at hm ⊢
      rcases hm with rfl | hm
      · left; rfl
      · right; exact ⟨m, hm, rfl⟩
    have := m2 (m, w) hmem
    simp only at this
    rw [e4, e3, e7]
    have hmg : m ≠ g := by
      intro h; rw [h] at this; simp [hpc, Pc.inTree] at this
    simp only [upd, hmg, if_false]
    refine ⟨this.1, ?_, this.2.2⟩
    -- in the tree and not the lock holder: parked
    have hin := this.2.1
    by_cases hp : s.pc m = .parked
    · exact hp
    · have hh : (s.pc m).holds = true := by
        revert hin hp; cases s.pc m <;> simp [Pc.inTree, Pc.holds]
      have := hL.1 m hh
      rw [hhold] at this; simp at this; exact absurd this.symm hmg
  · intro _
    rw [e3, e5, e6, e7]
    exact ⟨removeLt_lt hrm, g, hhold, by simp [upd, Pc.walking]⟩

theorem invM_wake {s : St} (hL : InvL s) (hI : InvM s) (s' : St) (g f : Nat) (p' : Pc)
    (hg : (s.pc g).walking = true) (hgh : (s.pc g).holds = true) (hf : s.pc f = .parked)
    (hhd : s.cur.head? = some f)
    (e1 : s'.tree = s.tree) (e2 : s'.cur = s.cur.tail) (e3 : s'.curW = s.curW)
    (e4 : s'.wake = s.wake) (e5 : s'.ttc = s.ttc) (e6 : s'.holder = s.holder)
    (e7 : s'.pc = upd (upd s.pc f .woken) g p')
    (c3 : p'.walking = true ∨ s.cur.tail = []) : InvM s' := by
  have hhold := hL.1 g hgh
  obtain ⟨m1, m2, m3, m4, m5⟩ := hI
  obtain ⟨rest, hc⟩ : ∃ rest, s.cur = f :: rest := by
    cases hcur : s.cur with
    | nil => simp [hcur] at hhd
    | cons a rest => simp [hcur] at hhd; subst hhd; exact ⟨rest, rfl⟩
  have hgin : (s.pc g).inTree = false := by revert hg; cases s.pc g <;> simp [Pc.walking, Pc.inTree]
  have hgp : s.pc g ≠ .parked := by intro h; simp [h, Pc.walking] at hg
  rw [hc] at m1 m3 m4
  have hn := List.nodup_append.mp m1
  have hfr : f ∉ rest := (List.nodup_cons.mp hn.2.1).1
  have hfi : f ∉ ids s.tree := fun h => hn.2.2 f h f (by simp) rfl
  rw [hc, List.tail_cons] at e2 c3
  refine ⟨?_, ?_, ?_, ?_, by rw [e1]; exact m5⟩
  · rw [e1, e2]
    exact List.nodup_append.mpr ⟨hn.1, (List.nodup_cons.mp hn.2.1).2,
      fun a ha b hb => hn.2.2 a ha b (List.mem_cons_of_mem _ hb)⟩
  · intro x hx
    rw [e1] at hx
    have := m2 x hx
    rw [e4, e7]
    have hxf : x.1 ≠ f := by
      intro h; apply hfi; simp only [ids, List.mem_map]; exact ⟨x, hx, h⟩
    have hxg : x.1 ≠ g := by intro h; rw [h] at this; simp [hgin] at this
    simp only [upd, hxf, hxg, if_false]; exact this
  · intro m hm
    rw [e2] at hm
    have := m3 m (List.mem_cons_of_mem _ hm)
    rw [e4, e3, e7]
    have hmf : m ≠ f := by intro h; subst h; exact hfr hm
    have hmg : m ≠ g := by intro h; subst h; exact hgp this.2.1
    simp only [upd, hmf, hmg, if_false]; exact this
  · intro hr
    rw [e2] at hr
    obtain ⟨h1, _⟩ := m4 (by simp)
    rw [e3, e5, e6, e7]
    refine ⟨h1, g, hhold, ?_⟩
    simp only [upd, if_true]
    rcases c3 with h | h
    · exact h
    · exact absurd h hr

theorem head_getD_eq_zero {l : List Nat} (h0 : ∀ m ∈ l, m ≠ 0) (h : l.head?.getD 0 = 0) : l = [] := by
  cases l with
  | nil => rfl
  | cons a l => simp at h; exact absurd h (h0 a (by simp))

theorem afterNext_walking (r : Role) (y : Nat) (h : y ≠ 0) : (afterNext r y).walking = true := by
  simp [afterNext, h, Pc.walking]

set_option maxHeartbeats 1000000 in
theorem invM_step (v : Variant) (s s' : St) (e : Ev) (hL : InvL s) (hI : InvM s)
    (h : step v s e = some s') : InvM s' := by
  have hI' := hI
  obtain ⟨m1, m2, m3, m4, m5⟩ := hI'
  cases e with
  | nodeNote f wt =>
    simp only [step] at h; (repeat' split at h) <;> simp at h; subst h
    rename_i hpc _ hc
    exact invM_insert hL hI _ f wt hpc hc.2.2.2 rfl rfl rfl rfl rfl rfl rfl
  | rWaiter g n x =>
    simp only [step] at h; (repeat' split at h) <;> simp at h <;> subst h
    · rename_i _ r hpc _ i w c t' hrm hc
      obtain ⟨rfl, _, _⟩ := hc
      exact invM_remove hL hI _ g n w c t' r hpc hrm rfl rfl rfl rfl rfl rfl rfl
    · exact invM_frame hI _ _ _ rfl rfl rfl rfl (fun _ => Nat.le_refl _) (fun _ => rfl) rfl
          (by simp_all [Pc.inTree]) (by simp_all) (by simp_all [Pc.walking])
  | wState g f x =>
    simp only [step] at h; (repeat' split at h) <;> simp at h <;> subst h
    · exact invM_frame hI _ _ _ rfl rfl rfl rfl (fun _ => Nat.le_refl _) (fun _ => rfl) rfl
          (by simp_all [Pc.inTree]) (by simp_all) (by simp_all [Pc.walking])
    · rename_i _ r n y hpc hc
      obtain ⟨_, rfl, hf, hhd, hy⟩ := hc
      refine invM_wake hL hI _ g n _ (by simp [hpc, Pc.walking]) (by simp [hpc, Pc.holds]) hf hhd
        rfl rfl rfl rfl rfl rfl rfl ?_
      by_cases hy0 : y = 0
      · right
        apply head_getD_eq_zero _ (hy0 ▸ hy.symm)
        intro m hm; exact (m3 m (List.mem_of_mem_tail hm)).2.2
      · left; exact afterNext_walking r y hy0
    · rename_i _ r n hpc hc
      obtain ⟨_, rfl, hf, hhd⟩ := hc
      exact invM_wake hL hI _ g n _ (by simp [hpc, Pc.walking]) (by simp [hpc, Pc.holds]) hf hhd
        rfl rfl rfl rfl rfl rfl rfl (Or.inl (by simp [Pc.walking]))
  | rNext g n x =>
    simp only [step] at h; (repeat' split at h) <;> simp at h <;> subst h
    · exact hI
    · exact invM_frame hI _ _ _ rfl rfl rfl rfl (fun _ => Nat.le_refl _) (fun _ => rfl) rfl
          (by simp_all [Pc.inTree]) (by simp_all) (by simp_all [Pc.walking])
    · rename_i _ r m hpc _ _ hx
      refine invM_frame hI _ _ _ rfl rfl rfl rfl (fun _ => Nat.le_refl _) (fun _ => rfl) rfl
          (by simp_all [Pc.inTree]) (by simp_all) ?_
      intro _
      by_cases hx0 : s.cur.head?.getD 0 = 0
      · right; exact head_getD_eq_zero (fun m hm => (m3 m hm).2.2) hx0
      · left; rw [hx]; exact afterNext_walking _ _ hx0
    · rename_i _ r m hpc _ _ hx
      exact invM_clear hI _ g _ rfl rfl rfl rfl (by simp [hpc, Pc.inTree])
    · rename_i _ r m hpc _ _ hx0 hx
      refine invM_frame hI _ _ _ rfl rfl rfl rfl (fun _ => Nat.le_refl _) (fun _ => rfl) rfl
          (by simp_all [Pc.inTree]) (by simp_all) ?_
      intro _
      left; rw [hx]; exact afterNext_walking _ _ (by rw [← hx]; exact hx0)
  | staleNext g x =>
    simp only [step] at h; (repeat' split at h) <;> simp at h <;> subst h
    · rename_i _ r m hpc _ hx
      exact invM_clear hI _ g _ rfl rfl rfl rfl (by simp [hpc, Pc.inTree])
    · rename_i _ r m hpc _ hx0 hx
      refine invM_frame hI _ _ _ rfl rfl rfl rfl (fun _ => Nat.le_refl _) (fun _ => rfl) rfl
          (by simp_all [Pc.inTree]) (by simp_all) ?_
      intro _
      left; rw [hx]; exact afterNext_walking _ _ (by rw [← hx]; exact hx0)
  | wTtc g x =>
    simp only [step] at h; (repeat' split at h) <;> simp at h; subst h
    rename_i _ r k y hpc hx
    have hcur := cur_nil_of_holder hL hI (g := g) (by simp [hpc, Pc.holds]) (by simp [hpc, Pc.walking])
    exact invM_frame hI _ _ _ rfl rfl rfl rfl (fun hc => absurd hcur hc) (fun _ => rfl) rfl
          (by simp_all [Pc.inTree]) (by simp_all) (by simp_all [Pc.walking])
  | lockLd g t =>
    simp only [step] at h; (repeat' split at h) <;> simp at h <;> subst h
    · rename_i hnone
      have hcur := cur_nil_of_free hI hnone
      exact invM_frame hI _ _ _ rfl rfl rfl rfl (fun _ => Nat.le_refl _) (fun hc => absurd hcur hc) rfl
          (by simp_all [Pc.inTree]) (by simp_all) (by simp_all [Pc.walking])
    · exact hI
  | unlockSt g t =>
    simp only [step] at h; (repeat' split at h) <;> simp at h <;> subst h
    all_goals
      rename_i o _ _ _ _ hpc
      have hcur := cur_nil_of_holder hL hI (g := o) (by simp [hpc, Pc.holds]) (by simp [hpc, Pc.walking])
      exact invM_frame hI _ _ _ rfl rfl rfl rfl (fun _ => Nat.le_refl _) (fun hc => absurd hcur hc) rfl
          (by simp_all [Pc.inTree]) (by simp_all) (by simp_all [Pc.walking])
  | _ =>
    simp only [step] at h <;> (repeat' split at h) <;> simp at h <;> (try subst h)
    all_goals first
      | exact hI
      | exact invM_same hI _ rfl rfl rfl rfl rfl rfl rfl
      | exact invM_frame hI _ _ _ rfl rfl rfl rfl (fun _ => Nat.le_refl _) (fun _ => rfl) rfl
          (by simp_all [Pc.inTree]) (by simp_all) (by simp_all [Pc.walking])

/-! ### S: per-sleeper timing -/

def Pc.inCall : Pc → Bool
  | .called | .inserting | .inserted | .owner | .parkedL | .parked | .woken | .done => true
  | .spin r _ _ | .locked r _ | .addR r _ | .addW r _ _ | .loopHead r | .removing r | .gotNode r _
  | .gotNext r _ _ | .sched r _ | .needNode r _ => r == .sl
  | _ => false
def Pc.hasBase : Pc → Bool
  | .inserting | .inserted | .owner | .parkedL | .parked => true
  | _ => false

/-- ticks of the fiber_sleep call in progress -/
def curTicks (v : Variant) (s : St) (f : Nat) : Nat :=
  match s.segs f with
  | [] => 0
  | (a, b) :: _ => ticks v a b

def InvS1 (v : Variant) (s : St) (f : Nat) : Prop :=
  ((s.pc f).inCall = true →
      (s.stale f = false → s.start f + s.credit f ≤ s.segStart f) ∧ s.segStart f ≤ s.now ∧
      s.credit f + guaranteed v (s.segs f) = s.guar f) ∧
  (s.pc f = .done → s.segs f = []) ∧
  ((s.pc f).hasBase = true → s.stale f = false → s.segStart f / v.period ≤ s.base f) ∧
  ((s.pc f).inTree = true → s.wake f = s.base f + curTicks v s f) ∧
  (s.pc f = .woken → s.stale f = false → s.segStart f + v.period * curTicks v s f ≤ s.now)

def InvS (v : Variant) (s : St) : Prop := ∀ f, InvS1 v s f

theorem invS_init (v : Variant) : InvS v init := by
  intro f; simp [InvS1, init, Pc.inCall, Pc.hasBase, Pc.inTree]

/-- only one pc changes, to a state that needs no new fact -/
theorem invS_frame {v : Variant} {s : St} (hI : InvS v s) (s' : St) (g : Nat) (p' : Pc)
    (e0 : s'.now = s.now) (e1 : s'.segs = s.segs) (e2 : s'.start = s.start) (e3 : s'.credit = s.credit)
    (e4 : s'.segStart = s.segStart) (e5 : s'.base = s.base) (e6 : s'.wake = s.wake)
    (e7 : s'.stale = s.stale) (e8 : s'.guar = s.guar) (e9 : s'.pc = upd s.pc g p')
    (c1 : p'.inCall = true → (s.pc g).inCall = true)
    (c2 : p' = .done → s.pc g = .done) (c3 : p'.hasBase = true → (s.pc g).hasBase = true)
    (c4 : p'.inTree = true → (s.pc g).inTree = true) (c5 : p' = .woken → s.pc g = .woken) :
    InvS v s' := by
  intro f
  have := hI f
  unfold InvS1 curTicks at *
  rw [e0, e1, e2, e3, e4, e5, e6, e7, e8, e9]
  by_cases hfg : f = g
  · subst hfg
    simp only [upd, if_true]
    exact ⟨fun h => this.1 (c1 h), fun h => this.2.1 (c2 h), fun h => this.2.2.1 (c3 h),
      fun h => this.2.2.2.1 (c4 h), fun h => this.2.2.2.2 (c5 h)⟩
  · simp only [upd, hfg, if_false]; exact this

theorem invS_same {v : Variant} {s : St} (hI : InvS v s) (s' : St)
    (e0 : s'.now = s.now) (e1 : s'.segs = s.segs) (e2 : s'.start = s.start) (e3 : s'.credit = s.credit)
    (e4 : s'.segStart = s.segStart) (e5 : s'.base = s.base) (e6 : s'.wake = s.wake)
    (e7 : s'.stale = s.stale) (e8 : s'.guar = s.guar) (e9 : s'.pc = s.pc) : InvS v s' := by
  intro f
  have := hI f
  unfold InvS1 curTicks at *
  rw [e0, e1, e2, e3, e4, e5, e6, e7, e8, e9]; exact this

theorem wake_arith {P now seg base T ttc wake : Nat} (hP : 0 < P) (h1 : ttc ≤ now / P)
    (h2 : wake < ttc) (h3 : wake = base + T) (h4 : seg / P ≤ base) : seg + P * T ≤ now := by
  have a1 : P * (now / P) ≤ now := Nat.mul_div_le now P
  have a2 : P * (seg / P + T + 1) ≤ P * (now / P) := Nat.mul_le_mul_left P (by omega)
  have a3 := Nat.div_add_mod seg P
  have a4 := Nat.mod_lt seg hP
  rw [Nat.mul_add, Nat.mul_add, Nat.mul_one] at a2
  omega


@[simp] theorem afterNext_inCall (r : Role) (y : Nat) : (afterNext r y).inCall = (r == .sl) := by
  unfold afterNext; split <;> simp [Pc.inCall]
@[simp] theorem afterNext_hasBase (r : Role) (y : Nat) : (afterNext r y).hasBase = false := by
  unfold afterNext; split <;> simp [Pc.hasBase]
@[simp] theorem afterNext_inTree (r : Role) (y : Nat) : (afterNext r y).inTree = false := by
  unfold afterNext; split <;> simp [Pc.inTree]
@[simp] theorem afterNext_ne_done (r : Role) (y : Nat) : afterNext r y ≠ .done := by
  unfold afterNext; split <;> simp
@[simp] theorem afterNext_ne_woken (r : Role) (y : Nat) : afterNext r y ≠ .woken := by
  unfold afterNext; split <;> simp

/-- fiber_sleep reads ttc: `base`, `stale` -/
theorem invS_base {v : Variant} {s : St} (hI : InvS v s) (s' : St) (g x : Nat)
    (hc : (s.pc g).inCall = true)
    (e0 : s'.now = s.now) (e1 : s'.segs = s.segs) (e2 : s'.start = s.start) (e3 : s'.credit = s.credit)
    (e4 : s'.segStart = s.segStart) (e5 : s'.base = upd s.base g x) (e6 : s'.wake = s.wake)
    (e7 : s'.stale = upd s.stale g (s.stale g || decide (x < s.segStart g / v.period)))
    (e8 : s'.guar = s.guar) (e9 : s'.pc = upd s.pc g .inserting) : InvS v s' := by
  intro f
  have := hI f
  unfold InvS1 curTicks at *
  rw [e0, e1, e2, e3, e4, e5, e6, e7, e8, e9]
  by_cases hfg : f = g
  · subst hfg
    simp only [upd, if_true, Pc.inCall, Pc.hasBase, Pc.inTree]
    have h1 := this.1 hc
    refine ⟨fun _ => ⟨fun hs => h1.1 (by simp at hs; exact hs.1), h1.2⟩, by simp, ?_, by simp, by simp⟩
    intro _ hs
    simp at hs
    exact hs.2
  · simp only [upd, hfg, if_false]; exact this


theorem invS_tick {v : Variant} {s : St} (hI : InvS v s) (s' : St)
    (e0 : s.now ≤ s'.now) (e1 : s'.segs = s.segs) (e2 : s'.start = s.start) (e3 : s'.credit = s.credit)
    (e4 : s'.segStart = s.segStart) (e5 : s'.base = s.base) (e6 : s'.wake = s.wake)
    (e7 : s'.stale = s.stale) (e8 : s'.guar = s.guar) (e9 : s'.pc = s.pc) : InvS v s' := by
  intro f
  have := hI f
  unfold InvS1 curTicks at *
  rw [e1, e2, e3, e4, e5, e6, e7, e8, e9]
  refine ⟨fun h => ⟨(this.1 h).1, Nat.le_trans (this.1 h).2.1 e0, (this.1 h).2.2⟩, this.2.1, this.2.2.1,
    this.2.2.2.1, fun h hs => Nat.le_trans (this.2.2.2.2 h hs) e0⟩

theorem invS_call {v : Variant} {s : St} (hI : InvS v s) (s' : St) (f : Nat) (pl : List (Nat × Nat))
    (e0 : s'.now = s.now) (e1 : s'.segs = upd s.segs f pl) (e2 : s'.start = upd s.start f s.now)
    (e3 : s'.credit = upd s.credit f 0) (e4 : s'.segStart = upd s.segStart f s.now)
    (e5 : s'.base = s.base) (e6 : s'.wake = s.wake) (e7 : s'.stale = upd s.stale f false)
    (e8 : s'.guar = upd s.guar f (guaranteed v pl)) (e9 : s'.pc = upd s.pc f .called) : InvS v s' := by
  intro f'
  have := hI f'
  unfold InvS1 curTicks at *
  rw [e0, e1, e2, e3, e4, e5, e6, e7, e8, e9]
  by_cases hfg : f' = f
  · subst hfg
    simp [upd, Pc.inCall, Pc.hasBase, Pc.inTree]
  · simp only [upd, hfg, if_false]; exact this

theorem invS_node {v : Variant} {s : St} (hI : InvS v s) (s' : St) (f wt sec usec : Nat)
    (tl : List (Nat × Nat)) (hpc : s.pc f = .inserting) (hsegs : s.segs f = (sec, usec) :: tl)
    (hwt : wt = s.base f + ticks v sec usec)
    (e0 : s'.now = s.now) (e1 : s'.segs = s.segs) (e2 : s'.start = s.start) (e3 : s'.credit = s.credit)
    (e4 : s'.segStart = s.segStart) (e5 : s'.base = s.base) (e6 : s'.wake = upd s.wake f wt)
    (e7 : s'.stale = s.stale) (e8 : s'.guar = s.guar) (e9 : s'.pc = upd s.pc f .inserted) : InvS v s' := by
  intro f'
  have := hI f'
  unfold InvS1 curTicks at *
  rw [e0, e1, e2, e3, e4, e5, e6, e7, e8, e9]
  by_cases hfg : f' = f
  · subst hfg
    simp only [upd, if_true, Pc.inCall, Pc.hasBase, Pc.inTree]
    simp only [hpc, Pc.inCall, Pc.hasBase, Pc.inTree] at this
    refine ⟨fun _ => this.1 trivial, by simp, fun _ => this.2.2.1 trivial, fun _ => ?_, by simp⟩
    rw [hsegs]; exact hwt
  · simp only [upd, hfg, if_false]; exact this

/-- a wake pass makes `f` READY: `f`'s deadline is behind `ttc`, and `ttc` never runs ahead of
    the timer -/
theorem invS_wake {v : Variant} {s : St} (hP : 0 < v.period) (hI : InvS v s) (s' : St)
    (g f : Nat) (p' : Pc) (hf : s.pc f = .parked) (hgf : g ≠ f)
    (hdue : s.wake f < s.ttc) (hclock : s.ttc ≤ s.now / v.period)
    (e0 : s'.now = s.now) (e1 : s'.segs = s.segs) (e2 : s'.start = s.start) (e3 : s'.credit = s.credit)
    (e4 : s'.segStart = s.segStart) (e5 : s'.base = s.base) (e6 : s'.wake = s.wake)
    (e7 : s'.stale = s.stale) (e8 : s'.guar = s.guar) (e9 : s'.pc = upd (upd s.pc f .woken) g p')
    (c1 : p'.inCall = true → (s.pc g).inCall = true)
    (c2 : p' ≠ .done) (c3 : p'.hasBase = false) (c4 : p'.inTree = false) (c5 : p' ≠ .woken) :
    InvS v s' := by
  intro f'
  have := hI f'
  unfold InvS1 curTicks at *
  rw [e0, e1, e2, e3, e4, e5, e6, e7, e8, e9]
  by_cases hfg : f' = g
  · subst hfg
    simp only [upd, if_true]
    exact ⟨fun h => this.1 (c1 h), fun h => absurd h c2, fun h => by simp [c3] at h,
      fun h => by simp [c4] at h, fun h => absurd h c5⟩
  · by_cases hff : f' = f
    · subst hff
      simp only [upd, hfg, if_false, if_true, Pc.inCall, Pc.hasBase, Pc.inTree]
      simp only [hf, Pc.inCall, Pc.hasBase, Pc.inTree] at this
      refine ⟨fun _ => this.1 trivial, by simp, by simp, by simp, fun _ hs => ?_⟩
      exact wake_arith hP hclock hdue (this.2.2.2.1 trivial) (this.2.2.1 trivial hs)
    · simp only [upd, hfg, hff, if_false]; exact this

theorem invS_resume {v : Variant} {s : St} (hI : InvS v s) (s' : St) (f sec usec : Nat)
    (rest : List (Nat × Nat)) (hpc : s.pc f = .woken) (hsegs : s.segs f = (sec, usec) :: rest)
    (e0 : s'.now = s.now) (e1 : s'.segs = upd s.segs f rest) (e2 : s'.start = s.start)
    (e3 : s'.credit = upd s.credit f (s.credit f + v.period * ticks v sec usec))
    (e4 : s'.segStart = upd s.segStart f s.now) (e5 : s'.base = s.base) (e6 : s'.wake = s.wake)
    (e7 : s'.stale = s.stale) (e8 : s'.guar = s.guar)
    (e9 : s'.pc = upd s.pc f (if rest = [] then .done else .called)) : InvS v s' := by
  intro f'
  have := hI f'
  unfold InvS1 curTicks at *
  rw [e0, e1, e2, e3, e4, e5, e6, e7, e8, e9]
  by_cases hfg : f' = f
  · subst hfg
    simp only [upd, if_true]
    simp only [hpc, hsegs, Pc.inCall, Pc.hasBase, Pc.inTree, guaranteed] at this
    have h1 := this.1 trivial
    have h5 := this.2.2.2.2 trivial
    refine ⟨fun _ => ⟨fun hs => ?_, Nat.le_refl _, by omega⟩, ?_, ?_, ?_, ?_⟩
    · have := h1.1 hs; have := h5 hs; omega
    · intro h; split at h <;> simp_all
    · intro h; split at h <;> simp [Pc.hasBase] at h
    · intro h; split at h <;> simp [Pc.inTree] at h
    · intro h; split at h <;> simp at h
  · simp only [upd, hfg, if_false]; exact this


theorem head_mem {l : List Nat} {f : Nat} (h : l.head? = some f) : f ∈ l := by
  cases l with
  | nil => simp at h
  | cons a l => simp at h; simp [h]

set_option maxHeartbeats 1000000 in
theorem invS_step (v : Variant) (hP : 0 < v.period) (s s' : St) (e : Ev) (hT : InvT v s)
    (hM : InvM s) (hI : InvS v s) (h : step v s e = some s') : InvS v s' := by
  cases e with
  | tick d k =>
    simp only [step] at h; split at h <;> simp at h; subst h
    exact invS_tick hI _ (Nat.le_add_right _ _) rfl rfl rfl rfl rfl rfl rfl rfl rfl
  | callSleep f kind a b t =>
    simp only [step] at h; split at h <;> simp at h; subst h
    exact invS_call hI _ f _ rfl rfl rfl rfl rfl rfl rfl rfl rfl rfl
  | rTtc g x inSleep =>
    simp only [step] at h; (repeat' split at h) <;> simp at h <;> subst h
    · exact invS_frame hI _ _ _ rfl rfl rfl rfl rfl rfl rfl rfl rfl rfl
        (by simp_all [Pc.inCall]) (by simp_all) (by simp_all [Pc.hasBase]) (by simp_all [Pc.inTree]) (by simp_all)
    · rename_i hx _ _ _ _ hpc _
      exact invS_base hI _ g _ (by simp [hpc, Pc.inCall]) rfl rfl rfl rfl rfl (by rw [hx]) rfl
        (by rw [hx]) rfl rfl
    · exact invS_frame hI _ _ _ rfl rfl rfl rfl rfl rfl rfl rfl rfl rfl
        (by simp_all [Pc.inCall]) (by simp_all) (by simp_all [Pc.hasBase]) (by simp_all [Pc.inTree]) (by simp_all)
    · exact invS_frame hI _ _ _ rfl rfl rfl rfl rfl rfl rfl rfl rfl rfl
        (by simp_all [Pc.inCall]) (by simp_all) (by simp_all [Pc.hasBase]) (by simp_all [Pc.inTree]) (by simp_all)
    · rename_i hx _ _ hpc hc
      obtain ⟨_, rfl, _, _⟩ := hc
      exact invS_base hI _ g _ (by simp [hpc, Pc.inCall]) rfl rfl rfl rfl rfl (by rw [hx]) rfl
        (by rw [hx]) rfl rfl
  | nodeNote f wt =>
    simp only [step] at h; (repeat' split at h) <;> simp at h; subst h
    rename_i hpc hsegs hc
    exact invS_node hI _ f wt _ _ _ hpc hsegs hc.1 rfl rfl rfl rfl rfl rfl rfl rfl rfl rfl
  | wState g f x =>
    simp only [step] at h; (repeat' split at h) <;> simp at h <;> subst h
    · exact invS_frame hI _ _ _ rfl rfl rfl rfl rfl rfl rfl rfl rfl rfl
        (by simp_all [Pc.inCall]) (by simp_all) (by simp_all [Pc.hasBase]) (by simp_all [Pc.inTree]) (by simp_all)
    · rename_i _ r n y hpc hc
      obtain ⟨_, rfl, hf, hhd, hy⟩ := hc
      have hm := head_mem hhd
      have hne : s.cur ≠ [] := by intro h0; rw [h0] at hm; simp at hm
      have hw := (hM.2.2.1 n hm).1
      have hd := (hM.2.2.2.1 hne).1
      have hclock : s.ttc ≤ s.now / v.period := by have := hT.1; omega
      exact invS_wake hP hI _ g n _ hf (by intro h0; subst h0; simp [hf] at hpc) (by omega) hclock
        rfl rfl rfl rfl rfl rfl rfl rfl rfl rfl
        (by rw [afterNext_inCall, hpc]; simp [Pc.inCall]) (by simp) (by simp) (by simp) (by simp)
    · rename_i _ r n hpc hc
      obtain ⟨_, rfl, hf, hhd⟩ := hc
      have hm := head_mem hhd
      have hne : s.cur ≠ [] := by intro h0; rw [h0] at hm; simp at hm
      have hw := (hM.2.2.1 n hm).1
      have hd := (hM.2.2.2.1 hne).1
      have hclock : s.ttc ≤ s.now / v.period := by have := hT.1; omega
      exact invS_wake hP hI _ g n _ hf (by intro h0; subst h0; simp [hf] at hpc) (by omega) hclock
        rfl rfl rfl rfl rfl rfl rfl rfl rfl rfl
        (by simp [hpc, Pc.inCall]) (by simp) (by simp [Pc.hasBase]) (by simp [Pc.inTree]) (by simp)
  | resumed f =>
    simp only [step] at h; split at h <;> simp at h; subst h
    rename_i hpc hsegs
    exact invS_resume hI _ f _ _ _ hpc hsegs rfl rfl rfl rfl rfl rfl rfl rfl rfl rfl
  | rNext g n x =>
    simp only [step] at h; (repeat' split at h) <;> simp at h <;> subst h
    · exact hI
    · exact invS_frame hI _ _ _ rfl rfl rfl rfl rfl rfl rfl rfl rfl rfl
        (by simp_all [Pc.inCall]) (by simp_all) (by simp_all [Pc.hasBase]) (by simp_all [Pc.inTree]) (by simp_all)
    · rename_i _ r m hpc _ _ hx
      exact invS_frame hI _ _ _ rfl rfl rfl rfl rfl rfl rfl rfl rfl rfl
        (by rw [afterNext_inCall, hpc]; simp [Pc.inCall]) (fun h => absurd h (afterNext_ne_done _ _))
        (by simp) (by simp) (fun h => absurd h (afterNext_ne_woken _ _))
    · rename_i _ r m hpc _ _ hx
      exact invS_frame hI _ _ _ rfl rfl rfl rfl rfl rfl rfl rfl rfl rfl
        (by rw [hpc]; simp [Pc.inCall]) (by simp) (by simp [Pc.hasBase]) (by simp [Pc.inTree]) (by simp)
    · rename_i _ r m hpc _ _ hx0 hx
      exact invS_frame hI _ _ _ rfl rfl rfl rfl rfl rfl rfl rfl rfl rfl
        (by rw [afterNext_inCall, hpc]; simp [Pc.inCall]) (fun h => absurd h (afterNext_ne_done _ _))
        (by simp) (by simp) (fun h => absurd h (afterNext_ne_woken _ _))
  | staleNext g x =>
    simp only [step] at h; (repeat' split at h) <;> simp at h <;> subst h
    · rename_i _ r m hpc _ hx
      exact invS_frame hI _ _ _ rfl rfl rfl rfl rfl rfl rfl rfl rfl rfl
        (by rw [hpc]; simp [Pc.inCall]) (by simp) (by simp [Pc.hasBase]) (by simp [Pc.inTree]) (by simp)
    · rename_i _ r m hpc _ hx0 hx
      exact invS_frame hI _ _ _ rfl rfl rfl rfl rfl rfl rfl rfl rfl rfl
        (by rw [afterNext_inCall, hpc]; simp [Pc.inCall]) (fun h => absurd h (afterNext_ne_done _ _))
        (by simp) (by simp) (fun h => absurd h (afterNext_ne_woken _ _))
  | _ =>
    simp only [step] at h <;> (repeat' split at h) <;> simp at h <;> (try subst h)
    all_goals first
      | exact hI
      | exact invS_same hI _ rfl rfl rfl rfl rfl rfl rfl rfl rfl rfl
      | exact invS_frame hI _ _ _ rfl rfl rfl rfl rfl rfl rfl rfl rfl rfl
          (by simp_all [Pc.inCall]) (by simp_all) (by simp_all [Pc.hasBase]) (by simp_all [Pc.inTree]) (by simp_all)


/-! ### C: every park is followed by at most one wake, every wake by exactly one resume -/

def InvC (s : St) : Prop := ∀ f,
  s.nWake f = s.nRes f + (if s.pc f = .woken then 1 else 0) ∧
  s.nPark f = s.nWake f + (if s.pc f = .parkedL ∨ s.pc f = .parked then 1 else 0)

theorem invC_init : InvC init := by intro f; simp [init]

set_option maxHeartbeats 2000000 in
theorem invC_step (v : Variant) (s s' : St) (e : Ev) (hI : InvC s) (h : step v s e = some s') :
    InvC s' := by
  cases e <;> simp only [step] at h <;> (repeat' split at h) <;> simp at h <;> (try subst h)
  all_goals (intro f'; have := hI f'; (try simp only [upd, afterNext] at *); grind)

/-! ### N: no sleeper is forgotten, and nothing due stays in the tree once a wake pass is over -/

def Pc.inPass : Pc → Bool
  | .loopHead _ | .removing _ | .gotNode .. | .gotNext .. | .sched .. | .needNode .. => true
  | _ => false

/-- the lock is free, or its owner is not in the middle of a wake pass -/
def Quiet (s : St) : Prop := ∀ g, s.holder = some g → (s.pc g).inPass = false

def InvN (v : Variant) (s : St) : Prop :=
  (∀ f, (s.pc f).inTree = true → f ∈ ids s.tree ∨ f ∈ s.cur ∨ f ∈ s.lost) ∧
  (Quiet s → ∀ x ∈ s.tree.toList, s.ttc ≤ x.2) ∧
  (∀ f, s.pc f = .inserting → s.base f = s.ttc) ∧
  (v.nextFirst = true → s.lost = [] ∧ s.badRead = false ∧ ∀ g r n, s.pc g ≠ .sched r n)

theorem invN_init (v : Variant) : InvN v init := by
  refine ⟨?_, ?_, ?_, ?_⟩ <;> simp [init, Pc.inTree, toList]

/-- a node of the tree whose fiber does not own the lock belongs to a parked fiber -/
theorem tree_member_parked {s : St} (hL : InvL s) (hM : InvM s) {g : Nat}
    (hg : (s.pc g).holds = true) (hgt : (s.pc g).inTree = false) {x : Nat × Nat}
    (hx : x ∈ s.tree.toList) : s.pc x.1 = .parked := by
  have hin := (hM.2.1 x hx).2.1
  have hne : x.1 ≠ g := by intro h; rw [h, hgt] at hin; simp at hin
  by_cases hp : s.pc x.1 = .parked
  · exact hp
  · have hh : (s.pc x.1).holds = true := by
      revert hin hp; cases s.pc x.1 <;> simp [Pc.inTree, Pc.holds]
    have h1 := hL.1 x.1 hh
    have h2 := hL.1 g hg
    rw [h1] at h2; simp at h2; exact absurd h2 hne

theorem invN_frame {v : Variant} {s : St} (hI : InvN v s) (s' : St) (g : Nat) (p' : Pc)
    (e1 : s'.tree = s.tree) (e2 : s'.cur = s.cur) (e3 : s'.lost = s.lost) (e4 : s'.ttc = s.ttc)
    (e5 : s'.base = s.base) (e6 : v.nextFirst = true → s.badRead = false → s'.badRead = false)
    (e7 : s'.pc = upd s.pc g p')
    (hq : Quiet s' → Quiet s)
    (c1 : p'.inTree = true → (s.pc g).inTree = true)
    (c2 : p' = .inserting → s.pc g = .inserting)
    (c3 : ∀ r n, p' ≠ .sched r n) : InvN v s' := by
  obtain ⟨n1, n2, n3, n4⟩ := hI
  refine ⟨?_, ?_, ?_, ?_⟩
  · intro f hf
    rw [e1, e2, e3]; rw [e7] at hf
    by_cases hfg : f = g
    · subst hfg; simp only [upd, if_true] at hf; exact n1 f (c1 hf)
    · simp only [upd, hfg, if_false] at hf; exact n1 f hf
  · intro hq' x hx
    rw [e1] at hx; rw [e4]; exact n2 (hq hq') x hx
  · intro f hf
    rw [e5, e4]; rw [e7] at hf
    by_cases hfg : f = g
    · subst hfg; simp only [upd, if_true] at hf; exact n3 f (c2 hf)
    · simp only [upd, hfg, if_false] at hf; exact n3 f hf
  · intro hv
    obtain ⟨a, b, c⟩ := n4 hv
    rw [e3, e7]
    refine ⟨a, e6 hv b, ?_⟩
    intro g' r n
    by_cases hfg : g' = g
    · subst hfg; simp only [upd, if_true]; exact c3 r n
    · simp only [upd, hfg, if_false]; exact c g' r n

theorem invN_same {v : Variant} {s : St} (hI : InvN v s) (s' : St)
    (e1 : s'.tree = s.tree) (e2 : s'.cur = s.cur) (e3 : s'.lost = s.lost) (e4 : s'.ttc = s.ttc)
    (e5 : s'.base = s.base) (e6 : s'.badRead = s.badRead) (e7 : s'.pc = s.pc)
    (e8 : s'.holder = s.holder) : InvN v s' := by
  unfold InvN Quiet at *; rw [e1, e2, e3, e4, e5, e6, e7, e8]; exact hI

/-- `Quiet` only looks at the owner's pc -/
theorem quiet_frame {s s' : St} {g : Nat} {p' : Pc} (e7 : s'.pc = upd s.pc g p')
    (e8 : s'.holder = s.holder) (c : s.holder = some g → p'.inPass = false → (s.pc g).inPass = false) :
    Quiet s' → Quiet s := by
  intro hq g' hg'
  have := hq g' (by rw [e8]; exact hg')
  rw [e7] at this
  by_cases hfg : g' = g
  · subst hfg; simp only [upd, if_true] at this; exact c hg' this
  · simp only [upd, hfg, if_false] at this; exact this


@[simp] theorem afterNext_inPass (r : Role) (y : Nat) : (afterNext r y).inPass = true := by
  unfold afterNext; split <;> simp [Pc.inPass]
@[simp] theorem afterNext_ne_inserting (r : Role) (y : Nat) : afterNext r y ≠ .inserting := by
  unfold afterNext; split <;> simp
@[simp] theorem afterNext_ne_sched (r : Role) (y : Nat) (r' : Role) (n : Nat) : afterNext r y ≠ .sched r' n := by
  unfold afterNext; split <;> simp

theorem mem_ids_insert {t : Tree} {f wt x : Nat} : x ∈ ids (insert t f wt) ↔ x = f ∨ x ∈ ids t := by
  rw [(ids_insert_perm t f wt).mem_iff]; simp

theorem quiet_of {s s' : St} (hq : Quiet s') (g : Nat) (p' : Pc) (e7 : s'.pc = upd s.pc g p')
    (e8 : s'.holder = s.holder) (c : s.holder = some g → p'.inPass = false → (s.pc g).inPass = false) :
    Quiet s := quiet_frame e7 e8 c hq

theorem quiet_absurd {s' : St} {g : Nat} {P : Prop} (hh : s'.holder = some g)
    (hp : (s'.pc g).inPass = true) (hq : Quiet s') : P := by
  have := hq g hh; rw [hp] at this; simp at this

set_option maxHeartbeats 2000000 in
theorem invN_step (v : Variant) (s s' : St) (e : Ev) (hL : InvL s) (hM : InvM s) (hI : InvN v s)
    (h : step v s e = some s') : InvN v s' := by
  have hI' := hI
  obtain ⟨n1, n2, n3, n4⟩ := hI'
  cases e with
  | lockLd g t =>
    simp only [step] at h; (repeat' split at h) <;> simp at h <;> subst h
    · rename_i hnone
      exact invN_frame hI _ _ _ rfl rfl rfl rfl rfl (fun _ h => h) rfl
        (fun _ g' hg' => by rw [hnone] at hg'; simp at hg')
        (by simp_all [Pc.inTree]) (by simp_all) (by simp_all)
    · exact hI
  | unlockSt g t =>
    simp only [step] at h; (repeat' split at h) <;> simp at h <;> subst h
    all_goals
      rename_i o _ _ hho _ _ hpc
      exact invN_frame hI _ _ _ rfl rfl rfl rfl rfl (fun _ h => h) rfl
        (fun _ g' hg' => by rw [hho] at hg'; simp at hg'; subst hg'; simp [hpc, Pc.inPass])
        (by simp_all [Pc.inTree]) (by simp_all) (by simp_all)
  | rTtc g x inSleep =>
    simp only [step] at h; (repeat' split at h) <;> simp at h <;> subst h
    · exact invN_frame hI _ _ _ rfl rfl rfl rfl rfl (fun _ h => h) rfl
        (quiet_frame rfl rfl (by simp_all [Pc.inPass]))
        (by simp_all [Pc.inTree]) (by simp_all) (by simp_all)
    · -- fiber_sleep (as found) reads ttc right after taking the lock
      rename_i hx _ _ _ _ hpc _
      refine ⟨?_, ?_, ?_, ?_⟩
      · intro f hf
        by_cases hfg : f = g
        · subst hfg; simp [upd, Pc.inTree] at hf
        · simp only [upd, hfg, if_false] at hf; exact n1 f hf
      · intro hq' y hy
        exact n2 (quiet_of hq' g _ rfl rfl (by simp [hpc, Pc.inPass])) y hy
      · intro f hf
        by_cases hfg : f = g
        · subst hfg; simp [upd, hx]
        · simp only [upd, hfg, if_false] at hf ⊢; exact n3 f hf
      · intro hv
        obtain ⟨a, b, c⟩ := n4 hv
        refine ⟨a, b, ?_⟩
        intro g' r n
        by_cases hfg : g' = g
        · subst hfg; simp [upd]
        · simp only [upd, hfg, if_false]; exact c g' r n
    · exact invN_frame hI _ _ _ rfl rfl rfl rfl rfl (fun _ h => h) rfl
        (quiet_frame rfl rfl (by simp_all [Pc.inPass]))
        (by simp_all [Pc.inTree]) (by simp_all) (by simp_all)
    · exact invN_frame hI _ _ _ rfl rfl rfl rfl rfl (fun _ h => h) rfl
        (quiet_frame rfl rfl (by simp_all [Pc.inPass]))
        (by simp_all [Pc.inTree]) (by simp_all) (by simp_all)
    · -- the wake pass inside fiber_sleep is over: nothing in the tree is due
      rename_i hx _ _ hpc hc
      obtain ⟨_, rfl, hnone, _⟩ := hc
      refine ⟨?_, ?_, ?_, ?_⟩
      · intro f hf
        by_cases hfg : f = g
        · subst hfg; simp [upd, Pc.inTree] at hf
        · simp only [upd, hfg, if_false] at hf; exact n1 f hf
      · intro _ y hy
        exact removeLt_none hM.2.2.2.2 hnone y hy
      · intro f hf
        by_cases hfg : f = g
        · subst hfg; simp [upd, hx]
        · simp only [upd, hfg, if_false] at hf ⊢; exact n3 f hf
      · intro hv
        obtain ⟨a, b, c⟩ := n4 hv
        refine ⟨a, b, ?_⟩
        intro g' r n
        by_cases hfg : g' = g
        · subst hfg; simp [upd]
        · simp only [upd, hfg, if_false]; exact c g' r n
  | wTtc g x =>
    simp only [step] at h; (repeat' split at h) <;> simp at h; subst h
    rename_i _ r k y hpc hx
    have hhold := hL.1 g (by simp [hpc, Pc.holds])
    refine ⟨?_, ?_, ?_, ?_⟩
    · intro f hf
      by_cases hfg : f = g
      · subst hfg; simp [upd, Pc.inTree] at hf
      · simp only [upd, hfg, if_false] at hf; exact n1 f hf
    · intro hq'
      have := hq' g hhold
      simp [upd, Pc.inPass] at this
    · intro f hf
      by_cases hfg : f = g
      · subst hfg; simp [upd] at hf
      · simp only [upd, hfg, if_false] at hf
        have := hL.1 f (by simp [hf, Pc.holds])
        rw [hhold] at this; simp at this; exact absurd this.symm hfg
    · intro hv
      obtain ⟨a, b, c⟩ := n4 hv
      refine ⟨a, b, ?_⟩
      intro g' r' n
      by_cases hfg : g' = g
      · subst hfg; simp [upd]
      · simp only [upd, hfg, if_false]; exact c g' r' n
  | nodeNote f wt =>
    simp only [step] at h; (repeat' split at h) <;> simp at h; subst h
    rename_i hpc hsegs hc
    have hb := n3 f hpc
    refine ⟨?_, ?_, ?_, ?_⟩
    · intro f' hf'
      by_cases hfg : f' = f
      · subst hfg; left; exact mem_ids_insert.mpr (Or.inl rfl)
      · simp only [upd, hfg, if_false] at hf'
        rcases n1 f' hf' with h1 | h1
        · left; exact mem_ids_insert.mpr (Or.inr h1)
        · right; exact h1
    · intro hq' y hy
      have hq : Quiet s := quiet_of hq' f _ rfl rfl (by simp [hpc, Pc.inPass])
      rcases mem_insert_toList.mp hy with rfl | hy
      · simp only; rw [hc.1]; omega
      · exact n2 hq y hy
    · intro f' hf'
      by_cases hfg : f' = f
      · subst hfg; simp [upd] at hf'
      · simp only [upd, hfg, if_false] at hf'; exact n3 f' hf'
    · intro hv
      obtain ⟨a, b, c⟩ := n4 hv
      refine ⟨a, b, ?_⟩
      intro g' r n
      by_cases hfg : g' = f
      · subst hfg; simp [upd]
      · simp only [upd, hfg, if_false]; exact c g' r n
  | rWaiter g n x =>
    simp only [step] at h; (repeat' split at h) <;> simp at h <;> subst h
    · rename_i _ r hpc _ i w c t' hrm hc
      obtain ⟨rfl, _, _⟩ := hc
      have hhold := hL.1 g (by simp [hpc, Pc.holds])
      have hcur := cur_nil_of_holder hL hM (g := g) (by simp [hpc, Pc.holds]) (by simp [hpc, Pc.walking])
      have htl := removeLt_toList hrm
      have hids : ids s.tree = (n :: c) ++ ids t' := by
        simp only [ids, htl, List.map_append, ids_group]
      have hpark : s.pc n = .parked :=
        tree_member_parked hL hM (g := g) (by simp [hpc, Pc.holds]) (by simp [hpc, Pc.inTree])
          (x := (n, w)) (by rw [htl]; simp [group])
      refine ⟨?_, ?_, ?_, ?_⟩
      · intro f hf
        by_cases hfg : f = g
        · subst hfg; simp [upd, Pc.inTree] at hf
        · simp only [upd, hfg, if_false] at hf
          rcases n1 f hf with h1 | h1 | h1
          · rw [hids] at h1
            rcases List.mem_append.mp h1 with h2 | h2
            · right; left; exact h2
            · left; exact h2
          · rw [hcur] at h1; simp at h1
          · right; right; exact h1
      · intro hq'
        have := hq' g hhold
        simp [upd, Pc.inPass] at this
      · intro f hf
        by_cases hfg : f = g
        · subst hfg; simp [upd] at hf
        · simp only [upd, hfg, if_false] at hf; exact n3 f hf
      · intro hv
        obtain ⟨a, b, c'⟩ := n4 hv
        refine ⟨a, by simp [b, hpark], ?_⟩
        intro g' r' n'
        by_cases hfg : g' = g
        · subst hfg; simp [upd]
        · simp only [upd, hfg, if_false]; exact c' g' r' n'
    · rename_i _ r y hpc hc
      obtain ⟨rfl, hhd, _⟩ := hc
      have hpark := (hM.2.2.1 n (head_mem hhd)).2.1
      exact invN_frame hI _ _ _ rfl rfl rfl rfl rfl (fun _ b => by simp [b, hpark]) rfl
        (quiet_frame rfl rfl (by simp_all [Pc.inPass]))
        (by simp_all [Pc.inTree]) (by simp_all) (by simp_all)
  | rNext g n x =>
    simp only [step] at h; (repeat' split at h) <;> simp at h <;> subst h
    · exact hI
    · rename_i _ r m hpc hc
      obtain ⟨_, rfl, hhd, _⟩ := hc
      have hpark := (hM.2.2.1 n (head_mem hhd)).2.1
      exact invN_frame hI _ _ _ rfl rfl rfl rfl rfl (fun _ b => by simp [b, hpark]) rfl
        (quiet_frame rfl rfl (by simp_all [Pc.inPass]))
        (by simp_all [Pc.inTree]) (by simp_all) (by simp_all)
    all_goals
      -- as found only: the actor is in `sched`, impossible when `next` is read first
      obtain ⟨r, m, hpc⟩ : ∃ r m, s.pc g = .sched r m := ⟨_, _, by assumption⟩
      have hhold := hL.1 g (by simp [hpc, Pc.holds])
      refine ⟨?_, ?_, ?_, ?_⟩
      · intro f hf
        by_cases hfg : f = g
        · subst hfg
          first
            | (simp [upd] at hf; done)
            | (simp [upd, Pc.inTree] at hf; done)
        · simp only [upd, hfg, if_false] at hf
          rcases n1 f hf with h1 | h1 | h1
          · left; exact h1
          · first
              | (right; left; exact h1)
              | (right; right; exact List.mem_append_right _ h1)
          · first
              | (right; right; exact h1)
              | (right; right; exact List.mem_append_left _ h1)
      · exact quiet_absurd (g := g) hhold (by first | (simp [upd]; done) | (simp [upd, Pc.inPass]; done))
      · intro f hf
        by_cases hfg : f = g
        · subst hfg; simp [upd] at hf
        · simp only [upd, hfg, if_false] at hf; exact n3 f hf
      · intro hv
        exact absurd hpc ((n4 hv).2.2 g r m)
  | staleNext g x =>
    simp only [step] at h; (repeat' split at h) <;> simp at h <;> subst h
    all_goals
      obtain ⟨r, m, hpc⟩ : ∃ r m, s.pc g = .sched r m := ⟨_, _, by assumption⟩
      have hhold := hL.1 g (by simp [hpc, Pc.holds])
      refine ⟨?_, ?_, ?_, ?_⟩
      · intro f hf
        by_cases hfg : f = g
        · subst hfg
          first
            | (simp [upd] at hf; done)
            | (simp [upd, Pc.inTree] at hf; done)
        · simp only [upd, hfg, if_false] at hf
          rcases n1 f hf with h1 | h1 | h1
          · left; exact h1
          · first
              | (right; left; exact h1)
              | (right; right; exact List.mem_append_right _ h1)
          · first
              | (right; right; exact h1)
              | (right; right; exact List.mem_append_left _ h1)
      · exact quiet_absurd (g := g) hhold (by first | (simp [upd]; done) | (simp [upd, Pc.inPass]; done))
      · intro f hf
        by_cases hfg : f = g
        · subst hfg; simp [upd] at hf
        · simp only [upd, hfg, if_false] at hf; exact n3 f hf
      · intro hv
        exact absurd hpc ((n4 hv).2.2 g r m)
  | wState g f x =>
    simp only [step] at h; (repeat' split at h) <;> simp at h <;> subst h
    · exact invN_frame hI _ _ _ rfl rfl rfl rfl rfl (fun _ h => h) rfl
        (quiet_frame rfl rfl (by simp_all [Pc.inPass]))
        (by simp_all [Pc.inTree]) (by simp_all) (by simp_all)
    all_goals
      rename_i hpc hc
      have hhold := hL.1 g (by simp [hpc, Pc.holds])
      have hf : s.pc f = .parked := by simp_all
      have hhd : s.cur.head? = some f := by simp_all
      have hgf : g ≠ f := by intro h0; subst h0; simp [hf] at hpc
      obtain ⟨rest, hcur⟩ : ∃ rest, s.cur = f :: rest := by
        cases hcc : s.cur with
        | nil => simp [hcc] at hhd
        | cons a rest => simp [hcc] at hhd; subst hhd; exact ⟨rest, rfl⟩
      refine ⟨?_, ?_, ?_, ?_⟩
      · intro f' hf'
        by_cases hfg : f' = g
        · subst hfg
          first
            | (simp [upd] at hf'; done)
            | (simp [upd, Pc.inTree] at hf'; done)
        · by_cases hff : f' = f
          · subst hff; simp [upd, hfg, Pc.inTree] at hf'
          · simp only [upd, hfg, hff, if_false] at hf'
            rcases n1 f' hf' with h1 | h1 | h1
            · left; exact h1
            · right; left; rw [hcur] at h1 ⊢; simp at h1 ⊢
              rcases h1 with h1 | h1
              · exact absurd h1 hff
              · exact h1
            · right; right; exact h1
      · exact quiet_absurd (g := g) hhold (by first | (simp [upd]; done) | (simp [upd, Pc.inPass]; done))
      · intro f' hf'
        by_cases hfg : f' = g
        · subst hfg; simp [upd] at hf'
        · by_cases hff : f' = f
          · subst hff; simp [upd, hfg] at hf'
          · simp only [upd, hfg, hff, if_false] at hf'; exact n3 f' hf'
      · intro hv
        by_cases hnf : v.nextFirst = true
        · obtain ⟨a, b, c⟩ := n4 hv
          first
            | (exact absurd hnf hc.1)
            | (refine ⟨a, b, ?_⟩
               intro g' r' n'
               by_cases hfg : g' = g
               · subst hfg; simp [upd]
               · by_cases hff : g' = f
                 · subst hff; simp [upd, hfg]
                 · simp only [upd, hfg, hff, if_false]; exact c g' r' n')
        · exact absurd hv hnf
  | unlockLd g t =>
    simp only [step] at h; (repeat' split at h) <;> simp at h <;> subst h
    · -- the poller's wake pass is over: nothing in the tree is due
      rename_i _ _ _ hc
      obtain ⟨hpc, hnone, _⟩ := hc
      refine ⟨?_, ?_, ?_, ?_⟩
      · intro f hf
        by_cases hfg : f = g
        · subst hfg; simp [upd, Pc.inTree] at hf
        · simp only [upd, hfg, if_false] at hf; exact n1 f hf
      · intro _ y hy
        exact removeLt_none hM.2.2.2.2 hnone y hy
      · intro f hf
        by_cases hfg : f = g
        · subst hfg; simp [upd] at hf
        · simp only [upd, hfg, if_false] at hf; exact n3 f hf
      · intro hv
        obtain ⟨a, b, c⟩ := n4 hv
        refine ⟨a, b, ?_⟩
        intro g' r n
        by_cases hfg : g' = g
        · subst hfg; simp [upd]
        · simp only [upd, hfg, if_false]; exact c g' r n
    · exact invN_same hI _ rfl rfl rfl rfl rfl rfl rfl rfl
  | _ =>
    simp only [step] at h <;> (repeat' split at h) <;> simp at h <;> (try subst h)
    all_goals first
      | exact hI
      | exact invN_same hI _ rfl rfl rfl rfl rfl rfl rfl rfl
      | exact invN_frame hI _ _ _ rfl rfl rfl rfl rfl (fun _ h => h) rfl
          (quiet_frame rfl rfl (by simp_all [Pc.inPass]))
          (by simp_all [Pc.inTree]) (by simp_all) (by simp_all)


/-! ### D: with the timer read under the lock (`drains`), fiber_sleep never reads a stale ttc -/

/-- the actor has read the timer under the lock and not yet added the count -/
def Pc.adding : Pc → Bool
  | .addR .. | .addW .. => true
  | _ => false
/-- sleeper inside the wake pass of fiber_sleep, after `ttc` was brought up to date -/
def Pc.passSl : Pc → Bool
  | .loopHead r | .removing r | .gotNode r _ | .gotNext r _ _ | .sched r _ | .needNode r _ => r == .sl
  | _ => false

def InvD (v : Variant) (s : St) : Prop :=
  (s.fl = [] ∨ ∃ g k, s.fl = [(g, k)] ∧ s.holder = some g ∧ (s.pc g).adding = true ∧ (s.pc g).carry = k) ∧
  (∀ f, (s.pc f).inCall = true → (s.pc f).adding = true → s.segStart f / v.period ≤ s.ttc + (s.pc f).carry) ∧
  (∀ f, (s.pc f).passSl = true → s.segStart f / v.period ≤ s.ttc) ∧
  (∀ f, (s.pc f).inCall = true → s.stale f = false)

theorem invD_init (v : Variant) : InvD v init := by
  refine ⟨Or.inl rfl, ?_, ?_, ?_⟩ <;> intro f h <;> simp [init, Pc.inCall, Pc.passSl] at h


@[simp] theorem afterNext_passSl (r : Role) (y : Nat) : (afterNext r y).passSl = (r == .sl) := by
  unfold afterNext; split <;> simp [Pc.passSl]
@[simp] theorem afterNext_adding (r : Role) (y : Nat) : (afterNext r y).adding = false := by
  unfold afterNext; split <;> simp [Pc.adding]

theorem invD_frame {v : Variant} {s : St} (hI : InvD v s) (s' : St) (g : Nat) (p' : Pc)
    (e1 : s'.fl = s.fl) (e2 : s.fl ≠ [] → s'.holder = s.holder) (e3 : s'.ttc = s.ttc)
    (e4 : s'.segStart = s.segStart) (e5 : s'.stale = s.stale) (e6 : s'.pc = upd s.pc g p')
    (c1 : (s.pc g).adding = true → p'.adding = true ∧ p'.carry = (s.pc g).carry)
    (c2 : p'.adding = true → (s.pc g).adding = true ∧ p'.carry = (s.pc g).carry)
    (c3 : p'.passSl = true → (s.pc g).passSl = true)
    (c4 : p'.inCall = true → (s.pc g).inCall = true) : InvD v s' := by
  obtain ⟨d1, d2, d3, d4⟩ := hI
  refine ⟨?_, ?_, ?_, ?_⟩
  · rw [e1]
    rcases d1 with h | ⟨g0, k, h1, h2, h3, h4⟩
    · left; exact h
    · right
      refine ⟨g0, k, h1, by rw [e2 (by rw [h1]; simp)]; exact h2, ?_⟩
      rw [e6]
      by_cases hg : g0 = g
      · subst hg; simp only [upd, if_true]
        have := c1 h3
        exact ⟨this.1, by rw [this.2]; exact h4⟩
      · simp only [upd, hg, if_false]; exact ⟨h3, h4⟩
  · intro f hf ha
    rw [e4, e3]; rw [e6] at hf ha ⊢
    by_cases hfg : f = g
    · subst hfg; simp only [upd, if_true] at hf ha ⊢
      have := c2 ha
      rw [this.2]; exact d2 f (c4 hf) this.1
    · simp only [upd, hfg, if_false] at hf ha ⊢; exact d2 f hf ha
  · intro f hf
    rw [e4, e3]; rw [e6] at hf
    by_cases hfg : f = g
    · subst hfg; simp only [upd, if_true] at hf; exact d3 f (c3 hf)
    · simp only [upd, hfg, if_false] at hf; exact d3 f hf
  · intro f hf
    rw [e5]; rw [e6] at hf
    by_cases hfg : f = g
    · subst hfg; simp only [upd, if_true] at hf; exact d4 f (c4 hf)
    · simp only [upd, hfg, if_false] at hf; exact d4 f hf

theorem invD_same {v : Variant} {s : St} (hI : InvD v s) (s' : St)
    (e1 : s'.fl = s.fl) (e2 : s'.holder = s.holder) (e3 : s'.ttc = s.ttc)
    (e4 : s'.segStart = s.segStart) (e5 : s'.stale = s.stale) (e6 : s'.pc = s.pc) : InvD v s' := by
  unfold InvD at *; rw [e1, e2, e3, e4, e5, e6]; exact hI

/-- no expirations are in flight unless the lock owner is adding them -/
theorem fl_nil_of_holder {v : Variant} {s : St} (hL : InvL s) (hI : InvD v s) {g : Nat}
    (hh : (s.pc g).holds = true) (ha : (s.pc g).adding = false) : s.fl = [] := by
  rcases hI.1 with h | ⟨g0, k, _, h2, h3, _⟩
  · exact h
  · have := hL.1 g hh
    rw [this] at h2; simp at h2; subst h2; rw [ha] at h3; simp at h3

theorem fl_nil_of_free {v : Variant} {s : St} (hI : InvD v s) (hh : s.holder = none) : s.fl = [] := by
  rcases hI.1 with h | ⟨g0, k, _, h2, _, _⟩
  · exact h
  · rw [hh] at h2; simp at h2

set_option maxHeartbeats 2000000 in
theorem invD_step (v : Variant) (hd : v.drains = true) (s s' : St) (e : Ev) (hL : InvL s)
    (hT : InvT v s) (hS : InvS v s) (hI : InvD v s) (h : step v s e = some s') : InvD v s' := by
  have hI' := hI
  obtain ⟨d1, d2, d3, d4⟩ := hI'
  cases e with
  | callSleep f kind a b t =>
    simp only [step] at h; split at h <;> simp at h; subst h
    rename_i hc
    refine ⟨?_, ?_, ?_, ?_⟩
    · rcases d1 with h | ⟨g0, k, h1, h2, h3, h4⟩
      · left; exact h
      · right
        refine ⟨g0, k, h1, h2, ?_⟩
        have : g0 ≠ f := by intro h0; subst h0; simp [hc.1, Pc.adding] at h3
        simp only [upd, this, if_false]; exact ⟨h3, h4⟩
    · intro f' hf ha
      by_cases hfg : f' = f
      · subst hfg; simp [upd, Pc.adding] at ha
      · simp only [upd, hfg, if_false] at hf ha ⊢; exact d2 f' hf ha
    · intro f' hf
      by_cases hfg : f' = f
      · subst hfg; simp [upd, Pc.passSl] at hf
      · simp only [upd, hfg, if_false] at hf ⊢; exact d3 f' hf
    · intro f' hf
      by_cases hfg : f' = f
      · subst hfg; simp [upd]
      · simp only [upd, hfg, if_false] at hf ⊢; exact d4 f' hf
  | timerRead g k =>
    simp only [step] at h; (repeat' split at h) <;> simp at h <;> subst h
    all_goals (try (exact absurd hd (by assumption)))
    · -- the timer is read under the lock: nothing else is in flight
      rename_i hk _ r hpc
      have hfl := fl_nil_of_holder hL hI (g := g) (by simp [hpc, Pc.holds]) (by simp [hpc, Pc.adding])
      have hhold := hL.1 g (by simp [hpc, Pc.holds])
      have hacct := hT.1
      rw [hfl] at hacct; simp [flSum] at hacct
      refine ⟨?_, ?_, ?_, ?_⟩
      · right; exact ⟨g, k, by rw [hfl], hhold, by simp [upd, Pc.adding], by simp [upd, Pc.carry]⟩
      · intro f hf ha
        by_cases hfg : f = g
        · subst hfg
          simp only [upd, if_true, Pc.carry]
          have := Nat.div_le_div_right (c := v.period) ((hS f).1 (by simpa [upd, hpc, Pc.inCall] using hf)).2.1
          omega
        · simp only [upd, hfg, if_false] at hf ha ⊢; exact d2 f hf ha
      · intro f hf
        by_cases hfg : f = g
        · subst hfg; simp [upd, Pc.passSl] at hf
        · simp only [upd, hfg, if_false] at hf ⊢; exact d3 f hf
      · intro f hf
        by_cases hfg : f = g
        · subst hfg; exact d4 f (by simpa [upd, hpc, Pc.inCall] using hf)
        · simp only [upd, hfg, if_false] at hf ⊢; exact d4 f hf
  | wTtc g x =>
    simp only [step] at h; (repeat' split at h) <;> simp at h; subst h
    rename_i _ r k y hpc hx
    have hhold := hL.1 g (by simp [hpc, Pc.holds])
    have hy := hT.2.2 g r k y hpc
    refine ⟨?_, ?_, ?_, ?_⟩
    · left
      rcases d1 with h | ⟨g0, k0, h1, h2, h3, h4⟩
      · rw [h]; simp
      · rw [hhold] at h2; simp at h2; subst h2
        simp [hpc, Pc.carry] at h4; subst h4
        rw [h1]; simp
    · intro f hf ha
      by_cases hfg : f = g
      · subst hfg; simp [upd, Pc.adding] at ha
      · simp only [upd, hfg, if_false] at hf ha
        have hh : (s.pc f).holds = true := by
          revert ha; cases s.pc f <;> simp [Pc.adding, Pc.holds]
        have := hL.1 f hh
        rw [hhold] at this; simp at this; exact absurd this.symm hfg
    · intro f hf
      by_cases hfg : f = g
      · subst hfg
        simp only [upd, if_true, Pc.passSl] at hf
        have := d2 f (by simpa [hpc, Pc.inCall] using hf) (by simp [hpc, Pc.adding])
        simp only [hpc, Pc.carry] at this
        simp only; omega
      · simp only [upd, hfg, if_false] at hf
        have hh : (s.pc f).holds = true := by
          revert hf; cases s.pc f <;> simp [Pc.passSl, Pc.holds]
        have := hL.1 f hh
        rw [hhold] at this; simp at this; exact absurd this.symm hfg
    · intro f hf
      by_cases hfg : f = g
      · subst hfg; exact d4 f (by simpa [upd, hpc, Pc.inCall] using hf)
      · simp only [upd, hfg, if_false] at hf ⊢; exact d4 f hf
  | rTtc g x b =>
    simp only [step] at h; (repeat' split at h) <;> simp at h <;> subst h
    all_goals (try (exact absurd hd (by assumption)))
    · exact invD_frame hI _ _ _ rfl (fun _ => rfl) rfl rfl rfl rfl
        (by simp_all [Pc.adding, Pc.carry]) (by simp_all [Pc.adding, Pc.carry]) (by simp_all [Pc.passSl])
        (by simp_all [Pc.inCall])
    · exact invD_frame hI _ _ _ rfl (fun _ => rfl) rfl rfl rfl rfl
        (by simp_all [Pc.adding, Pc.carry]) (by simp_all [Pc.adding, Pc.carry]) (by simp_all [Pc.passSl])
        (by simp_all [Pc.inCall])
    · -- fiber_sleep reads ttc after its own wake pass: up to date
      rename_i hx _ r hpc hc
      obtain ⟨_, rfl, _, _⟩ := hc
      have h3 := d3 g (by simp [hpc, Pc.passSl])
      have h4 := d4 g (by simp [hpc, Pc.inCall])
      refine ⟨?_, ?_, ?_, ?_⟩
      · rcases d1 with h | ⟨g0, k, h1, h2, h3', h4'⟩
        · left; exact h
        · right
          refine ⟨g0, k, h1, h2, ?_⟩
          have : g0 ≠ g := by intro h0; subst h0; simp [hpc, Pc.adding] at h3'
          simp only [upd, this, if_false]; exact ⟨h3', h4'⟩
      · intro f hf ha
        by_cases hfg : f = g
        · subst hfg; simp [upd, Pc.adding] at ha
        · simp only [upd, hfg, if_false] at hf ha ⊢; exact d2 f hf ha
      · intro f hf
        by_cases hfg : f = g
        · subst hfg; simp [upd, Pc.passSl] at hf
        · simp only [upd, hfg, if_false] at hf ⊢; exact d3 f hf
      · intro f hf
        by_cases hfg : f = g
        · subst hfg
          simp only [upd, if_true, h4, Bool.false_or, decide_eq_false_iff_not, Nat.not_lt]
          rw [hx]; exact h3
        · simp only [upd, hfg, if_false] at hf ⊢; exact d4 f hf
  | resumed f =>
    simp only [step] at h; split at h <;> simp at h; subst h
    rename_i hpc hsegs
    refine ⟨?_, ?_, ?_, ?_⟩
    · rcases d1 with h | ⟨g0, k, h1, h2, h3, h4⟩
      · left; exact h
      · right
        refine ⟨g0, k, h1, h2, ?_⟩
        have : g0 ≠ f := by intro h0; subst h0; simp [hpc, Pc.adding] at h3
        simp only [upd, this, if_false]; exact ⟨h3, h4⟩
    · intro f' hf ha
      by_cases hfg : f' = f
      · subst hfg; simp only [upd, if_true] at ha; split at ha <;> simp [Pc.adding] at ha
      · simp only [upd, hfg, if_false] at hf ha ⊢; exact d2 f' hf ha
    · intro f' hf
      by_cases hfg : f' = f
      · subst hfg; simp only [upd, if_true] at hf; split at hf <;> simp [Pc.passSl] at hf
      · simp only [upd, hfg, if_false] at hf ⊢; exact d3 f' hf
    · intro f' hf
      by_cases hfg : f' = f
      · subst hfg; exact d4 f' (by simp [hpc, Pc.inCall])
      · simp only [upd, hfg, if_false] at hf ⊢; exact d4 f' hf
  | lockLd g t =>
    simp only [step] at h; (repeat' split at h) <;> simp at h <;> subst h
    · rename_i hnone
      have hfl := fl_nil_of_free hI hnone
      exact invD_frame hI _ _ _ rfl (fun hc => absurd hfl hc) rfl rfl rfl rfl
        (by simp_all [Pc.adding, Pc.carry]) (by simp_all [Pc.adding, Pc.carry]) (by simp_all [Pc.passSl])
        (by simp_all [Pc.inCall])
    · exact hI
  | unlockSt g t =>
    simp only [step] at h; (repeat' split at h) <;> simp at h <;> subst h
    all_goals
      rename_i o _ _ _ _ hpc
      have hfl := fl_nil_of_holder hL hI (g := o) (by simp [hpc, Pc.holds]) (by simp [hpc, Pc.adding])
      exact invD_frame hI _ _ _ rfl (fun hc => absurd hfl hc) rfl rfl rfl rfl
        (by simp_all [Pc.adding, Pc.carry]) (by simp_all [Pc.adding, Pc.carry]) (by simp_all [Pc.passSl])
        (by simp_all [Pc.inCall])
  | wState g f x =>
    simp only [step] at h; (repeat' split at h) <;> simp at h <;> subst h
    · exact invD_frame hI _ _ _ rfl (fun _ => rfl) rfl rfl rfl rfl
        (by simp_all [Pc.adding, Pc.carry]) (by simp_all [Pc.adding, Pc.carry]) (by simp_all [Pc.passSl])
        (by simp_all [Pc.inCall])
    all_goals
      rename_i hpc hc
      have hf : s.pc f = .parked := by simp_all
      have hgf : g ≠ f := by intro h0; subst h0; simp [hf] at hpc
      -- first the sleeper (parked → woken), then the waker
      have step1 : InvD v { s with pc := upd s.pc f .woken } :=
        invD_frame hI _ f .woken rfl (fun _ => rfl) rfl rfl rfl rfl
          (by simp [hf, Pc.adding]) (by simp [Pc.adding]) (by simp [Pc.passSl]) (by simp [hf, Pc.inCall])
      refine invD_frame step1 _ g _ rfl (fun _ => rfl) rfl rfl rfl rfl ?_ ?_ ?_ ?_
      all_goals simp only [upd, hgf, if_false, hpc]
      all_goals first
        | (simp; done)
        | ((try simp only [afterNext_passSl, afterNext_inCall, afterNext_adding]);
           simp [Pc.adding, Pc.carry, Pc.passSl, Pc.inCall]; done)
  | rNext g n x =>
    simp only [step] at h; (repeat' split at h) <;> simp at h <;> subst h
    · exact hI
    · exact invD_frame hI _ _ _ rfl (fun _ => rfl) rfl rfl rfl rfl
        (by simp_all [Pc.adding, Pc.carry]) (by simp_all [Pc.adding, Pc.carry]) (by simp_all [Pc.passSl])
        (by simp_all [Pc.inCall])
    all_goals first
      | (rename_i hpc _ _; refine invD_frame hI _ g _ rfl (fun _ => rfl) rfl rfl rfl rfl ?_ ?_ ?_ ?_ <;> rw [hpc] <;>
          first
            | (simp; done)
            | ((try simp only [afterNext_passSl, afterNext_inCall, afterNext_adding]);
               simp [Pc.adding, Pc.carry, Pc.passSl, Pc.inCall]; done))
      | (rename_i hpc _ _ _; refine invD_frame hI _ g _ rfl (fun _ => rfl) rfl rfl rfl rfl ?_ ?_ ?_ ?_ <;> rw [hpc] <;>
          first
            | (simp; done)
            | ((try simp only [afterNext_passSl, afterNext_inCall, afterNext_adding]);
               simp [Pc.adding, Pc.carry, Pc.passSl, Pc.inCall]; done))
      | (rename_i hpc _ _ _ _; refine invD_frame hI _ g _ rfl (fun _ => rfl) rfl rfl rfl rfl ?_ ?_ ?_ ?_ <;> rw [hpc] <;>
          first
            | (simp; done)
            | ((try simp only [afterNext_passSl, afterNext_inCall, afterNext_adding]);
               simp [Pc.adding, Pc.carry, Pc.passSl, Pc.inCall]; done))
  | staleNext g x =>
    simp only [step] at h; (repeat' split at h) <;> simp at h <;> subst h
    all_goals first
      | (rename_i hpc _ _; refine invD_frame hI _ g _ rfl (fun _ => rfl) rfl rfl rfl rfl ?_ ?_ ?_ ?_ <;> rw [hpc] <;>
          first
            | (simp; done)
            | ((try simp only [afterNext_passSl, afterNext_inCall, afterNext_adding]);
               simp [Pc.adding, Pc.carry, Pc.passSl, Pc.inCall]; done))
      | (rename_i hpc _ _ _; refine invD_frame hI _ g _ rfl (fun _ => rfl) rfl rfl rfl rfl ?_ ?_ ?_ ?_ <;> rw [hpc] <;>
          first
            | (simp; done)
            | ((try simp only [afterNext_passSl, afterNext_inCall, afterNext_adding]);
               simp [Pc.adding, Pc.carry, Pc.passSl, Pc.inCall]; done))
      | (rename_i hpc _ _ _ _; refine invD_frame hI _ g _ rfl (fun _ => rfl) rfl rfl rfl rfl ?_ ?_ ?_ ?_ <;> rw [hpc] <;>
          first
            | (simp; done)
            | ((try simp only [afterNext_passSl, afterNext_inCall, afterNext_adding]);
               simp [Pc.adding, Pc.carry, Pc.passSl, Pc.inCall]; done))
  | _ =>
    simp only [step] at h <;> (repeat' split at h) <;> simp at h <;> (try subst h)
    all_goals first
      | exact hI
      | exact invD_same hI _ rfl rfl rfl rfl rfl rfl
      | exact invD_frame hI _ _ _ rfl (fun _ => rfl) rfl rfl rfl rfl
          (by simp_all [Pc.adding, Pc.carry]) (by simp_all [Pc.adding, Pc.carry]) (by simp_all [Pc.passSl])
          (by simp_all [Pc.inCall])


/-! ### R: what was requested against what the arithmetic guarantees -/

def InvR (s : St) : Prop := ∀ f, (s.pc f).inCall = true → s.ovf f = false → s.req f ≤ s.guar f

theorem invR_init : InvR init := by intro f h; simp [init, Pc.inCall] at h

set_option maxHeartbeats 2000000 in
theorem invR_step (v : Variant) (s s' : St) (e : Ev) (hI : InvR s) (h : step v s e = some s') :
    InvR s' := by
  cases e <;> simp only [step] at h <;> (repeat' split at h) <;> simp at h <;> (try subst h)
  all_goals (intro f'; have := hI f'; (try simp only [upd, afterNext] at *); grind [Pc.inCall])

/-! ### the arithmetic of `sleep_ms` and of the shims -/

theorem guaranteed_append (v : Variant) (l1 l2 : List (Nat × Nat)) :
    guaranteed v (l1 ++ l2) = guaranteed v l1 + guaranteed v l2 := by
  induction l1 with
  | nil => simp [guaranteed]
  | cons a l ih => obtain ⟨x, y⟩ := a; simp [guaranteed, ih]; omega

theorem guaranteed_replicate (v : Variant) (q : Nat) (x y : Nat) :
    guaranteed v (List.replicate q (x, y)) = q * (v.period * ticks v x y) := by
  induction q with
  | zero => simp [guaranteed]
  | succ q ih => simp [List.replicate_succ, guaranteed, ih, Nat.succ_mul]; omega

/-- one fiber_sleep(sec, usec) with 64-bit arithmetic lasts at least sec s + usec µs -/
theorem seg_ge (v : Variant) (hw : v.widen = true) (hp : 1000 ≤ v.period) (sec usec : Nat) :
    sec * 1000000 + usec ≤ v.period * ticks v sec usec := by
  have h1 : 1000 * ticks v sec usec ≤ v.period * ticks v sec usec := Nat.mul_le_mul_right _ hp
  simp only [ticks, hw, if_true] at h1 ⊢
  omega

theorem ns_arith (A Q b D E : Nat) (hq : Q ≤ A) (h2 : A - Q + (b / 1000 + 1) ≤ D) (h3 : Q ≤ E) :
    A + (b + 999) / 1000 ≤ E + D := by omega

/-- F-C09c fixed: every request the C types allow is covered by the fiber_sleep calls made -/
theorem guaranteed_ge_req (v : Variant) (hw : v.widen = true) (hp : 1000 ≤ v.period)
    (kind : Kind) (a b : Nat) (hok : argsOk kind a b = true) :
    reqUs kind a b ≤ guaranteed v (plan v kind a b) := by
  cases kind with
  | fs =>
    simp only [argsOk, Bool.and_eq_true, decide_eq_true_eq] at hok
    have ha : a % M32 = a := Nat.mod_eq_of_lt hok.1
    have hb : b % M32 = b := Nat.mod_eq_of_lt hok.2
    have := seg_ge v hw hp a b
    simp only [plan, guaranteed, reqUs, ha, hb]; omega
  | us =>
    simp only [argsOk, decide_eq_true_eq] at hok
    have ha : a % M32 = a := Nat.mod_eq_of_lt hok
    have := seg_ge v hw hp (a / 1000000) (a % 1000000)
    simp only [plan, guaranteed, reqUs, ha]; omega
  | sl =>
    simp only [argsOk, decide_eq_true_eq] at hok
    have ha : a % M32 = a := Nat.mod_eq_of_lt hok
    have := seg_ge v hw hp a 0
    simp only [plan, guaranteed, reqUs, ha]
    generalize ticks v a 0 = T at *
    simp only [Nat.add_zero] at *
    omega
  | ns =>
    simp only [plan, hw, if_true, reqUs, guaranteed_append, guaranteed_replicate, guaranteed]
    have hq : (a - 1) / U32MAX * U32MAX ≤ a - 1 := Nat.div_mul_le_self _ _
    have h1 := seg_ge v hw hp U32MAX 0
    have h2 := seg_ge v hw hp (a - (a - 1) / U32MAX * U32MAX) (b / 1000 + 1)
    have h3 : (a - 1) / U32MAX * (U32MAX * 1000000) ≤ (a - 1) / U32MAX * (v.period * ticks v U32MAX 0) :=
      Nat.mul_le_mul_left _ (by simpa using h1)
    rw [← Nat.mul_assoc] at h3
    generalize ticks v U32MAX 0 = T1 at *
    generalize ticks v (a - (a - 1) / U32MAX * U32MAX) (b / 1000 + 1) = T2 at *
    generalize v.period * T1 = C at *
    generalize v.period * T2 = D at *
    generalize (a - 1) / U32MAX * C = E at *
    generalize (a - 1) / U32MAX * U32MAX = Qm at *
    clear h1 hok
    simp only [Nat.add_zero]
    rw [Nat.sub_mul] at h2
    have hQA : Qm * 1000000 ≤ a * 1000000 := Nat.mul_le_mul_right _ (by omega)
    exact ns_arith _ _ _ _ _ hQA h2 h3

theorem ns_arith2 (A b X : Nat) (h : A + (b / 1000 + 1) ≤ X) : A + (b + 999) / 1000 ≤ X := by omega

/-- the 32-bit computation of `sleep_ms` does not wrap for this request -/
def noOvf : Kind → Nat → Nat → Prop
  | .fs, a, b => a * 1000 + b / 1000 + 1 < M32
  | .us, _, _ => True
  | .sl, a, _ => a * 1000 + 1 < M32
  | .ns, a, b => a < M32 ∧ a * 1000 + (b / 1000 + 1) / 1000 + 1 < M32

theorem ticks_eq (v : Variant) {sec usec : Nat} (h : sec * 1000 + usec / 1000 + 1 < M32) :
    ticks v sec usec = sec * 1000 + usec / 1000 + 1 := by
  unfold ticks; split
  · rfl
  · exact Nat.mod_eq_of_lt h

theorem seg_ge_small (v : Variant) (hp : 1000 ≤ v.period) {sec usec : Nat}
    (h : sec * 1000 + usec / 1000 + 1 < M32) : sec * 1000000 + usec ≤ v.period * ticks v sec usec := by
  have h1 : 1000 * ticks v sec usec ≤ v.period * ticks v sec usec := Nat.mul_le_mul_right _ hp
  rw [ticks_eq v h] at h1 ⊢
  generalize v.period * (sec * 1000 + usec / 1000 + 1) = X at *
  clear h
  omega

/-- as found (32-bit multiplication, truncated tv_sec): the request is still covered as long as
    `seconds * 1000 + useconds / 1000 + 1` does not wrap — in particular for every request
    below 4 290 672 seconds -/
theorem guaranteed_ge_req_small (v : Variant) (hp : 1000 ≤ v.period) (kind : Kind) (a b : Nat)
    (hok : argsOk kind a b = true) (hno : noOvf kind a b) :
    reqUs kind a b ≤ guaranteed v (plan v kind a b) := by
  by_cases hw : v.widen = true
  · exact guaranteed_ge_req v hw hp kind a b hok
  · cases kind with
    | fs =>
      simp only [argsOk, Bool.and_eq_true, decide_eq_true_eq] at hok
      have ha : a % M32 = a := Nat.mod_eq_of_lt hok.1
      have hb : b % M32 = b := Nat.mod_eq_of_lt hok.2
      have := seg_ge_small v hp (sec := a) (usec := b) hno
      simp only [plan, guaranteed, reqUs, ha, hb, Nat.add_zero]; exact this
    | us =>
      simp only [argsOk, decide_eq_true_eq] at hok
      have ha : a % M32 = a := Nat.mod_eq_of_lt hok
      have hlt : a / 1000000 * 1000 + a % 1000000 / 1000 + 1 < M32 := by
        unfold M32 at *; omega
      have := seg_ge_small v hp hlt
      simp only [plan, guaranteed, reqUs, ha, Nat.add_zero]
      have h2 := Nat.div_add_mod a 1000000
      generalize v.period * ticks v (a / 1000000) (a % 1000000) = X at *
      clear hlt hok ha
      omega
    | sl =>
      simp only [argsOk, decide_eq_true_eq] at hok
      have ha : a % M32 = a := Nat.mod_eq_of_lt hok
      have hlt : a * 1000 + 0 / 1000 + 1 < M32 := by
        have h0 : a * 1000 + 1 < M32 := hno
        rw [Nat.zero_div, Nat.add_zero]; exact h0
      have := seg_ge_small v hp (sec := a) (usec := 0) hlt
      simp only [plan, guaranteed, reqUs, ha, Nat.add_zero] at this ⊢; exact this
    | ns =>
      obtain ⟨h1, h2⟩ := hno
      simp only [argsOk, decide_eq_true_eq] at hok
      have ha : a % M32 = a := Nat.mod_eq_of_lt h1
      have hb : (b / 1000 + 1) % M32 = b / 1000 + 1 := Nat.mod_eq_of_lt (by unfold M32; omega)
      have := seg_ge_small v hp h2
      simp only [plan, hw, reqUs, ha, hb]
      exact ns_arith2 _ _ _ this


/-! ### all invariants together, along every accepted trace -/

structure AllInv (v : Variant) (s : St) : Prop where
  L : InvL s
  T : InvT v s
  M : InvM s
  S : InvS v s
  N : InvN v s
  C : InvC s
  R : InvR s

theorem allInv_init (v : Variant) : AllInv v init :=
  ⟨invL_init, invT_init v, invM_init, invS_init v, invN_init v, invC_init, invR_init⟩

theorem allInv_step (v : Variant) (hP : 0 < v.period) (s e s') (hI : AllInv v s)
    (h : step v s e = some s') : AllInv v s' :=
  ⟨invL_step v s s' e hI.L h, invT_step v s s' e hI.L hI.T h, invM_step v s s' e hI.L hI.M h,
   invS_step v hP s s' e hI.T hI.M hI.S h, invN_step v s s' e hI.L hI.M hI.N h,
   invC_step v s s' e hI.C h, invR_step v s s' e hI.R h⟩

theorem allInv_of_run (v : Variant) (hP : 0 < v.period) {es : List Ev} {s : St}
    (h : (sys v).run es = some s) : AllInv v s :=
  Sys.inv_of_run (sys v) (AllInv v) (allInv_init v) (fun s e s' hI hs => allInv_step v hP s e s' hI hs) h

theorem invD_of_run (v : Variant) (hP : 0 < v.period) (hd : v.drains = true) {es : List Ev} {s : St}
    (h : (sys v).run es = some s) : InvD v s := by
  have := Sys.inv_of_run (sys v) (fun s => AllInv v s ∧ InvD v s) ⟨allInv_init v, invD_init v⟩
    (fun s e s' hI hs => ⟨allInv_step v hP s e s' hI.1 hs,
      invD_step v hd s s' e hI.1.L hI.1.T hI.1.S hI.2 hs⟩) h
  exact this.2

/-! ### the ghost counters count events -/

def isPark (f : Nat) : Ev → Bool
  | .wState g f' x => g = f ∧ f' = f ∧ x = WAITING
  | _ => false
def isWake (f : Nat) : Ev → Bool
  | .wState _ f' x => f' = f ∧ x = READY
  | _ => false
def isResume (f : Nat) : Ev → Bool
  | .resumed f' => f' = f
  | _ => false

set_option maxHeartbeats 4000000 in
theorem counters_count_events (v : Variant) {es : List Ev} {s : St} (h : (sys v).run es = some s) :
    ∀ f, s.nPark f = es.countP (isPark f) ∧ s.nWake f = es.countP (isWake f) ∧
      s.nRes f = es.countP (isResume f) := by
  refine Sys.hist_inv_of_run (sys v) (fun s es => ∀ f, s.nPark f = es.countP (isPark f) ∧
    s.nWake f = es.countP (isWake f) ∧ s.nRes f = es.countP (isResume f))
    (by intro f; simp [sys, init]) ?_ h
  intro s es e s' hI hstep
  have hstep' : step v s e = some s' := hstep
  cases e <;> simp only [step] at hstep' <;> (repeat' split at hstep') <;> simp at hstep' <;>
    (try subst hstep')
  all_goals (intro f'; have := hI f'; simp only [List.countP_append, List.countP_cons, List.countP_nil, isPark, isWake, isResume, upd, WAITING, READY] at *; grind)


end LibfiberVerif.Sleep
