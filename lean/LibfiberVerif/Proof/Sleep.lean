/-
  Proof/Sleep.lean — lemmas and invariants for Model/Sleep.lean (property C09).

  Part 1: the pure tree functions (`insert` = waiter_insert, `removeLt` =
          waiter_remove_less_than, `drainAll` = the wake loop).
  Part 2: invariants of the protocol model, for every variant.
-/
import LibfiberVerif.Model.Sleep

namespace LibfiberVerif.Sleep
open Tree

/-! ## Part 1 — the tree -/

theorem mem_group {i w : Nat} {c : List Nat} {x : Nat × Nat} (h : x ∈ group i w c) : x.2 = w := by
  simp only [group, List.mem_cons, List.mem_map] at h
  rcases h with h | ⟨j, _, h⟩
  · simp [h]
  · simp [← h]

theorem insert_toList_perm (t : Tree) (id wt : Nat) :
    (insert t id wt).toList.Perm ((id, wt) :: t.toList) := by
  induction t with
  | nil => simp [insert, toList, group]
  | node i w c l r ihl ihr =>
    simp only [insert]
    split
    · -- left
      simp only [toList]
      have := ihl
      calc (insert l id wt).toList ++ group i w c ++ r.toList
          = (insert l id wt).toList ++ (group i w c ++ r.toList) := by simp
        _ |>.Perm (((id, wt) :: l.toList) ++ (group i w c ++ r.toList)) := List.Perm.append_right _ this
        _ = (id, wt) :: (l.toList ++ group i w c ++ r.toList) := by simp
    · split
      · -- equal: pushed on the chain right after the head
        rename_i h1 h2
        subst h2
        simp only [toList, group, List.map_cons]
        -- l ++ (i,w) :: (id,w) :: c' ++ r   ~   (id,w) :: l ++ (i,w) :: c' ++ r
        have : ((i, wt) :: (id, wt) :: List.map (fun j => (j, wt)) c).Perm
            ((id, wt) :: (i, wt) :: List.map (fun j => (j, wt)) c) := List.Perm.swap _ _ _
        have h3 : (l.toList ++ (i, wt) :: (id, wt) :: List.map (fun j => (j, wt)) c ++ r.toList).Perm
            (l.toList ++ ((id, wt) :: (i, wt) :: List.map (fun j => (j, wt)) c) ++ r.toList) :=
          List.Perm.append_right _ (List.Perm.append_left _ this)
        refine h3.trans ?_
        simp only [List.append_assoc, List.cons_append]
        exact List.perm_middle
      · -- right
        simp only [toList]
        have := ihr
        calc l.toList ++ group i w c ++ (insert r id wt).toList
            |>.Perm (l.toList ++ group i w c ++ ((id, wt) :: r.toList)) := List.Perm.append_left _ this
          _ |>.Perm ((id, wt) :: (l.toList ++ group i w c ++ r.toList)) := List.perm_middle

theorem mem_insert_toList {t : Tree} {id wt : Nat} {x : Nat × Nat} :
    x ∈ (insert t id wt).toList ↔ x = (id, wt) ∨ x ∈ t.toList := by
  rw [(insert_toList_perm t id wt).mem_iff]; simp

theorem insert_ordered {t : Tree} (id wt : Nat) (h : Ordered t) : Ordered (insert t id wt) := by
  induction t with
  | nil => simp [insert, Ordered, toList]
  | node i w c l r ihl ihr =>
    obtain ⟨hl, hr, hlt, hgt⟩ := h
    simp only [insert]
    split
    · refine ⟨ihl hl, hr, ?_, hgt⟩
      intro x hx
      rcases mem_insert_toList.mp hx with rfl | hx
      · assumption
      · exact hlt x hx
    · split
      · exact ⟨hl, hr, hlt, hgt⟩
      · refine ⟨hl, ihr hr, hlt, ?_⟩
        intro x hx
        rcases mem_insert_toList.mp hx with rfl | hx
        · simp; omega
        · exact hgt x hx

/-- what `waiter_remove_less_than` returns is the FIRST group of the in-order traversal -/
theorem removeLt_toList {t : Tree} {now i w : Nat} {c : List Nat} {t' : Tree}
    (h : removeLt t now = some ((i, w, c), t')) : t.toList = group i w c ++ t'.toList := by
  induction t generalizing t' with
  | nil => simp [removeLt] at h
  | node i0 w0 c0 l r ihl _ =>
    cases l with
    | nil =>
      simp only [removeLt] at h
      split at h
      · simp at h; obtain ⟨⟨rfl, rfl, rfl⟩, rfl⟩ := h; simp [toList]
      · simp at h
    | node i1 w1 c1 l1 r1 =>
      simp only [removeLt] at h
      split at h
      · simp at h
      · rename_i x l2 heq
        simp at h
        obtain ⟨rfl, rfl⟩ := h
        have := ihl heq
        simp only [toList] at this ⊢
        rw [this]; simp

theorem removeLt_lt {t : Tree} {now i w : Nat} {c : List Nat} {t' : Tree}
    (h : removeLt t now = some ((i, w, c), t')) : w < now := by
  induction t generalizing t' with
  | nil => simp [removeLt] at h
  | node i0 w0 c0 l r ihl _ =>
    cases l with
    | nil =>
      simp only [removeLt] at h
      split at h
      · simp at h; obtain ⟨⟨_, rfl, _⟩, _⟩ := h; assumption
      · simp at h
    | node i1 w1 c1 l1 r1 =>
      simp only [removeLt] at h
      split at h
      · simp at h
      · rename_i x l2 heq
        simp at h
        obtain ⟨rfl, rfl⟩ := h
        exact ihl heq

theorem removeLt_ordered {t : Tree} {now : Nat} {x : Nat × Nat × List Nat} {t' : Tree}
    (ho : Ordered t) (h : removeLt t now = some (x, t')) : Ordered t' := by
  induction t generalizing t' with
  | nil => simp [removeLt] at h
  | node i0 w0 c0 l r ihl _ =>
    obtain ⟨hl, hr, hlt, hgt⟩ := ho
    cases l with
    | nil =>
      simp only [removeLt] at h
      split at h
      · simp at h; obtain ⟨_, rfl⟩ := h; exact hr
      · simp at h
    | node i1 w1 c1 l1 r1 =>
      simp only [removeLt] at h
      split at h
      · simp at h
      · rename_i y l2 heq
        simp at h
        obtain ⟨rfl, rfl⟩ := h
        obtain ⟨i, w, c⟩ := y
        refine ⟨ihl hl heq, hr, ?_, hgt⟩
        intro z hz
        apply hlt
        rw [removeLt_toList heq]
        exact List.mem_append_right _ hz

theorem removeLt_size {t : Tree} {now : Nat} {x : Nat × Nat × List Nat} {t' : Tree}
    (h : removeLt t now = some (x, t')) : size t' < size t := by
  induction t generalizing t' with
  | nil => simp [removeLt] at h
  | node i0 w0 c0 l r ihl _ =>
    cases l with
    | nil =>
      simp only [removeLt] at h
      split at h
      · simp at h; obtain ⟨_, rfl⟩ := h; simp [size]
      · simp at h
    | node i1 w1 c1 l1 r1 =>
      simp only [removeLt] at h
      split at h
      · simp at h
      · rename_i y l2 heq
        simp at h
        obtain ⟨rfl, rfl⟩ := h
        have := ihl heq
        simp only [size] at this ⊢
        omega

/-- `waiter_remove_less_than` returns NULL only if nothing in the (ordered) tree is due -/
theorem removeLt_none {t : Tree} {now : Nat} (ho : Ordered t) (h : removeLt t now = none) :
    ∀ x ∈ t.toList, now ≤ x.2 := by
  induction t with
  | nil => simp [toList]
  | node i0 w0 c0 l r ihl _ =>
    obtain ⟨hl, hr, hlt, hgt⟩ := ho
    cases l with
    | nil =>
      simp only [removeLt] at h
      split at h
      · simp at h
      · rename_i hw
        intro x hx
        simp only [toList, List.nil_append, List.mem_append] at hx
        rcases hx with hx | hx
        · rw [mem_group hx]; omega
        · have := hgt x hx; omega
    | node i1 w1 c1 l1 r1 =>
      simp only [removeLt] at h
      split at h
      · rename_i heq
        have hleft := ihl hl heq
        -- the left subtree is not empty: its root is ≥ now and < w0
        have hmem : (i1, w1) ∈ (Tree.node i1 w1 c1 l1 r1).toList := by simp [toList, group]
        have h1 := hleft _ hmem
        have h2 := hlt _ hmem
        simp at h1 h2
        intro x hx
        simp only [toList, List.mem_append] at hx hleft
        rcases hx with (hx | hx) | hx
        · exact hleft x (by simpa [toList] using hx)
        · rw [mem_group hx]; omega
        · have := hgt x hx; omega
      · simp at h

theorem drainN_spec (n : Nat) : ∀ (t : Tree) (now : Nat), Ordered t → size t ≤ n →
    t.toList = (drainN n t now).1 ++ (drainN n t now).2.toList ∧
    (∀ x ∈ (drainN n t now).1, x.2 < now) ∧
    (∀ x ∈ (drainN n t now).2.toList, now ≤ x.2) ∧
    Ordered (drainN n t now).2 ∧ removeLt (drainN n t now).2 now = none := by
  induction n with
  | zero =>
    intro t now ho hs
    have : t = .nil := by cases t <;> simp [size] at hs ⊢
    subst this
    simp [drainN, toList, removeLt, Ordered]
  | succ n ih =>
    intro t now ho hs
    simp only [drainN]
    split
    · rename_i heq
      exact ⟨by simp, by simp, removeLt_none ho heq, ho, heq⟩
    · rename_i i w c t' heq
      have hs' : size t' ≤ n := by have := removeLt_size heq; omega
      obtain ⟨h1, h2, h3, h4, h5⟩ := ih t' now (removeLt_ordered ho heq) hs'
      refine ⟨?_, ?_, h3, h4, h5⟩
      · rw [removeLt_toList heq]
        conv => lhs; rw [h1]
        simp
      · intro x hx
        simp only [List.mem_append] at hx
        rcases hx with hx | hx
        · rw [mem_group hx]; exact removeLt_lt heq
        · exact h2 x hx

theorem filter_append_split {α : Type} (p : α → Bool) (a b : List α)
    (ha : ∀ x ∈ a, p x = true) (hb : ∀ x ∈ b, p x = false) :
    (a ++ b).filter p = a ∧ (a ++ b).filter (fun x => !p x) = b := by
  constructor
  · rw [List.filter_append, List.filter_eq_self.mpr ha, List.filter_eq_nil_iff.mpr (by
      intro x hx; simp [hb x hx])]
    simp
  · rw [List.filter_append, List.filter_eq_nil_iff.mpr (by intro x hx; simp [ha x hx]),
      List.filter_eq_self.mpr (by intro x hx; simp [hb x hx])]
    simp

/-! ## Part 2 — invariants of the protocol model (every variant unless stated) -/

/-! ### L: sleep_spinlock has one owner, and the owner's pc knows it -/

def InvL (s : St) : Prop :=
  (∀ g, (s.pc g).holds = true → s.holder = some g) ∧
  (∀ g, s.holder = some g → (s.pc g).holds = true)

theorem invL_init : InvL init := by
  constructor <;> intro g h <;> simp [init, Pc.holds] at h

theorem invL_step (v : Variant) (s s' : St) (e : Ev) (hI : InvL s) (h : step v s e = some s') :
    InvL s' := by
  obtain ⟨h1, h2⟩ := hI
  cases e <;> simp only [step] at h <;> (repeat' split at h) <;> simp at h <;> (try subst h)
  all_goals (refine ⟨?_, ?_⟩ <;> intro g' hg' <;> (try simp only [upd] at *) <;>
    grind [Pc.holds, afterNext])

/-! ### T: every timer expiration is in exactly one place -/

def flSum (l : List (Nat × Nat)) : Nat := (l.map (·.2)).sum

theorem flSum_erase (l : List (Nat × Nat)) (g k : Nat) (h : (g, k) ∈ l ∨ k = 0) :
    flSum (l.erase (g, k)) + k = flSum l := by
  induction l with
  | nil => rcases h with h | h <;> simp_all [flSum]
  | cons a l ih =>
    by_cases ha : a = (g, k)
    · subst ha; simp [flSum]; omega
    · have : (g, k) ∈ l ∨ k = 0 := by
        rcases h with h | h
        · left; simpa [Ne.symm ha] using h
        · right; exact h
      have ih := ih this
      rw [List.erase_cons_tail (by simpa using ha)]
      simp only [flSum, List.map_cons, List.sum_cons] at ih ⊢
      omega

def InvT (v : Variant) (s : St) : Prop :=
  s.ttc + s.pending + flSum s.fl = s.now / v.period ∧
  (∀ g, (s.pc g).carry ≠ 0 → (g, (s.pc g).carry) ∈ s.fl) ∧
  (∀ g r k y, s.pc g = .addW r k y → y = s.ttc)

theorem invT_init (v : Variant) : InvT v init := by
  refine ⟨?_, ?_, ?_⟩
  · simp [init, flSum]
  · intro g h; simp [init, Pc.carry] at h
  · intro g r k y h; simp [init] at h

theorem invT_step (v : Variant) (s s' : St) (e : Ev) (hL : InvL s) (hI : InvT v s)
    (h : step v s e = some s') : InvT v s' := by
  obtain ⟨h1, h2, h3⟩ := hI
  obtain ⟨l1, l2⟩ := hL
  cases e with
  | tick d k =>
    simp only [step] at h; split at h <;> simp at h; subst h
    rename_i hk
    have := Nat.div_le_div_right (c := v.period) (Nat.le_add_right s.now d)
    exact ⟨by simp only; omega, h2, h3⟩
  | wTtc g x =>
    simp only [step] at h; (repeat' split at h) <;> simp at h; subst h
    rename_i r k y hpc hx
    have hc := h2 g
    simp only [hpc, Pc.carry] at hc
    have hy := h3 g r k y hpc
    have hs := flSum_erase s.fl g k (by by_cases hk : k = 0 <;> simp_all)
    refine ⟨by simp only; omega, ?_, ?_⟩
    · intro g' hg'
      simp only [upd] at hg' ⊢
      by_cases hgg : g' = g
      · simp [hgg, Pc.carry] at hg'
      · simp only [hgg, if_false] at hg' ⊢
        exact (List.mem_erase_of_ne (by simp [hgg])).mpr (h2 g' hg')
    · intro g' r' k' y' hg'
      simp only [upd] at hg'
      by_cases hgg : g' = g
      · simp [hgg] at hg'
      · simp only [hgg, if_false] at hg'
        have e1 := l1 g (by simp [hpc, Pc.holds])
        have e2 := l1 g' (by simp [hg', Pc.holds])
        rw [e1] at e2; simp at e2; exact absurd e2.symm hgg
  | _ =>
    simp only [step] at h <;> (repeat' split at h) <;> simp at h <;> (try subst h)
    all_goals (refine ⟨?_, ?_, ?_⟩ <;> (try intro g' hg') <;> (try simp only [upd, flSum] at *) <;>
      grind [Pc.carry, afterNext])

end LibfiberVerif.Sleep
