/-
  Proof/CondInv.lean — the invariant of the condition-variable model (property C05), the generic
  transition lemmas, and preservation by the steps on the cond's own queue (`stepC`).
  (Mutex-side lemmas and shape lemmas: Proof/CondMx.lean; the other steps: Proof/Cond.lean.)
-/
import LibfiberVerif.Proof.CondMx

namespace LibfiberVerif.Cond

/-! ### 3. the invariant -/

/-- the fiber must be holding I: it has examined the waiter count and not yet finished -/
def needsI : Pc → Bool
  | .sigMiss | .wake _ _ _ => true
  | _ => false

/-- inside a trypop+wake iteration before the pop took effect -/
def prePop : WPc → Bool
  | .top | .gotHead _ | .gotNext _ _ => true
  | _ => false

/-- what a fiber's own history counters satisfy, by pc -/
def Loc (p : Pc) (g : G) : Prop :=
  (match p with
   | .wake bc k _ => g.popped + k = g.claimed ∧ (bc = false → g.claimed = 1)
   | .unlockI bc => g.popped = g.claimed ∧ (bc = false → g.claimed ≤ 1)
   | .sigMiss => g.claimed = 0 ∧ g.popped = 0
   | .lockI _ => g.claimed = 0 ∧ g.popped = 0
   | _ => True) ∧
  (match p with
   | .waitCounted | .waitSaving | .waitGotNode _ | .waitWroteData _ | .waitClearedNode _
   | .pushCleared _ => g.nC = g.nE + 1 ∧ g.nE = g.nL
   | .pushXchgd _ _ _ => g.nC = g.nE ∧ g.nE = g.nL + 1
   | _ => g.nC = g.nE ∧ g.nE = g.nL) ∧
  (match p with
   | .woken | .relock => g.nP = g.nR + 1
   | _ => g.nP = g.nR) ∧
  g.nU ≤ g.nL

structure Inv (s : St) : Prop where
  mi : MI s.i
  mim : MI s.m
  holdI : ∀ f, needsI (s.pc f) = true → s.i.pc (A f) = .held
  cnt : s.count + s.miss = (s.nreg : Int) - s.nclaim
  missPc : ∀ f, s.pc f = .sigMiss → s.miss = 1
  missEx : s.miss ≠ 0 → ∃ f, s.pc f = .sigMiss
  pops : s.hd + s.owed = s.nclaim
  hdLe : s.hd ≤ s.order.length
  owedPc : ∀ f bc k w, s.pc f = .wake bc k w → s.owed = k ∧ (prePop w = true → 1 ≤ k)
  owedEx : s.owed ≠ 0 → ∃ f bc k w, s.pc f = .wake bc k w
  ordReg : ∀ n g, (n, g) ∈ s.order → 1 ≤ (s.gh g).nC
  dh : ∀ w, s.m.pc (D w) = .held → (s.gh w).nU < (s.gh w).nL
  loc : ∀ f, Loc (s.pc f) (s.gh f)

theorem Inv.init : Inv Cond.init := by
  refine ⟨MI.init _ _, MI.init _ _, ?_, ?_, ?_, ?_, ?_, ?_, ?_, ?_, ?_, ?_, ?_⟩ <;>
    simp [Cond.init, needsI, Loc, Mutex.init]

/-- close the clauses of `Inv` that a step leaves syntactically untouched -/
local macro "inv_frame" hi:ident : tactic =>
  `(tactic| (refine ⟨?_, ?_, ?_, ?_, ?_, ?_, ?_, ?_, ?_, ?_, ?_, ?_, ?_⟩ <;>
      first | exact ($hi).mi | exact ($hi).mim | exact ($hi).holdI | exact ($hi).cnt
            | exact ($hi).missPc | exact ($hi).missEx | exact ($hi).pops | exact ($hi).hdLe
            | exact ($hi).owedPc | exact ($hi).owedEx | exact ($hi).ordReg | exact ($hi).dh
            | exact ($hi).loc | skip))

theorem Inv.unique {s : St} (hi : Inv s) {f g : Nat} (hf : needsI (s.pc f) = true)
    (hg : needsI (s.pc g) = true) : f = g := by
  have h1 := hi.mi.holder (A f) (by rw [hi.holdI f hf]; rfl)
  have h2 := hi.mi.holder (A g) (by rw [hi.holdI g hg]; rfl)
  rw [h1] at h2; exact A_inj (Option.some.inj h2)

/-- a fiber that has just been granted I is the only one that may need it -/
theorem Inv.claim_alone {s : St} (hi : Inv s) {f : Nat} {x : Mutex.St}
    (hx : Mutex.step (syncIn s s.i) (.retLock (A f)) = some x) (hf : needsI (s.pc f) = false) :
    ∀ g, needsI (s.pc g) = false := by
  intro g
  cases hg : needsI (s.pc g) with
  | false => rfl
  | true =>
    exfalso
    have hne : g ≠ f := by intro h; subst h; rw [hf] at hg; cases hg
    have hmx : MI x := hi.mi.sync.step hx
    have h1 : x.pc (A g) = .held := by
      rw [mx_pc_other hx (by simp only [mxActor]; intro h; exact hne (A_inj h))]
      exact hi.holdI g hg
    have h2 := hmx.holder (A g) (by rw [h1]; rfl)
    have h3 := hmx.holder (A f) (by rw [(mx_retLock hx).1]; rfl)
    rw [h2] at h3; exact hne (A_inj (Option.some.inj h3))

theorem loc_upd {pc : Nat → Pc} {gh : Nat → G} (h : ∀ g, Loc (pc g) (gh g)) {f : Nat} {p' : Pc}
    {g' : G} (hf : Loc p' g') : ∀ g, Loc (upd pc f p' g) (upd gh f g' g) := by
  intro g; simp only [upd]; split
  · exact hf
  · exact h g

theorem loc_upd_pc {pc : Nat → Pc} {gh : Nat → G} (h : ∀ g, Loc (pc g) (gh g)) {f : Nat} {p' : Pc}
    (hf : Loc p' (gh f)) : ∀ g, Loc (upd pc f p' g) (gh g) := by
  intro g; simp only [upd]; split
  · next hg => subst hg; exact hf
  · exact h g

/-- the mutex sub-model events produced by `toMx` are accesses, never API returns -/
theorem toMx_props {a : Nat} {e : Ev} {me : Mutex.Ev} (h : toMx a e = some me) :
    mxActor me = a ∧ (∀ b, me ≠ .retLock b) ∧ (∀ b r, me ≠ .retTry b r) := by
  cases e <;> simp [toMx] at h <;> subst h <;> simp [mxActor]

/-- a step of I by fiber `f` (not in the section that needs I) preserves the invariant -/
theorem Inv.of_stepI {s : St} (hi : Inv s) {e : Mutex.Ev} {x : Mutex.St} {f : Nat}
    (hx : Mutex.step (syncIn s s.i) e = some x) (ha : mxActor e = A f)
    (hf : needsI (s.pc f) = false) :
    Inv { s with i := x, fnode := x.fnode, ndata := x.ndata } := by
  inv_frame hi
  · exact hi.mi.sync.step hx
  · intro g hg
    have hne : g ≠ f := by intro h; subst h; simp only [] at hg; rw [hf] at hg; cases hg
    show x.pc (A g) = .held
    rw [mx_pc_other hx (by rw [ha]; intro h; exact hne (A_inj h))]
    exact hi.holdI g hg

/-- a step of M that cannot make a deferred agent `held` preserves the invariant -/
theorem Inv.of_stepM {s : St} (hi : Inv s) {e : Mutex.Ev} {x : Mutex.St}
    (hx : Mutex.step (syncIn s s.m) e = some x)
    (hd : ∀ w, e ≠ .retLock (D w) ∧ e ≠ .retTry (D w) true) :
    Inv { s with m := x, fnode := x.fnode, ndata := x.ndata } := by
  inv_frame hi
  · exact hi.mim.sync.step hx
  · intro w hw
    rcases mx_held_new hx hw with h | h | h
    · exact hi.dh w h
    · exact absurd h (hd w).1
    · exact absurd h (hd w).2

theorem Inv.of_stepM_A {s : St} (hi : Inv s) {e : Mutex.Ev} {x : Mutex.St} {f : Nat}
    (hx : Mutex.step (syncIn s s.m) e = some x) (ha : mxActor e = A f) :
    Inv { s with m := x, fnode := x.fnode, ndata := x.ndata } := by
  apply hi.of_stepM hx
  intro w; constructor <;> (intro h; subst h; simp only [mxActor] at ha; exact A_ne_D f w ha.symm)

theorem upd_forall {α : Type} {pc : Nat → α} {P : Nat → α → Prop} (h : ∀ g, P g (pc g)) {f : Nat}
    {p' : α} (hf : P f p') : ∀ g, P g (upd pc f p' g) := by
  intro g; simp only [upd]; split
  · next hg => subst hg; exact hf
  · exact h g

theorem upd_exists {pc : Nat → Pc} {P : Pc → Prop} (h : ∃ g, P (pc g)) {f : Nat} {p' : Pc}
    (hf : P (pc f) → P p') : ∃ g, P (upd pc f p' g) := by
  obtain ⟨g, hg⟩ := h
  by_cases hgf : g = f
  · subst hgf; exact ⟨g, by simp only [upd_same]; exact hf hg⟩
  · exact ⟨g, by rw [upd_other _ _ _ _ hgf]; exact hg⟩

theorem upd_self_eq {α : Type} (pc : Nat → α) (f : Nat) : upd pc f (pc f) = pc := by
  funext g; simp only [upd]; split
  · next h => rw [h]
  · rfl

/-- a step that moves fiber `f` to pc `p'`, sets its counters to `g'`, possibly appends `f` to the
    waiter queue / steps one of the mutexes, and leaves every other field the invariant reads
    alone.  The side conditions are the clauses of `Inv` at `f`. -/
theorem Inv.move {s s' : St} (hi : Inv s) {f : Nat} {p' : Pc} {g' : G}
    (hm : MI s'.m)
    (hdh : ∀ w, s'.m.pc (D w) = .held → s.m.pc (D w) = .held ∨ (w = f ∧ g'.nU < g'.nL))
    (hI : MI s'.i) (hIo : ∀ g, g ≠ f → s'.i.pc (A g) = s.i.pc (A g))
    (hcnt : s'.count + s'.miss = (s'.nreg : Int) - s'.nclaim) (h2 : s'.miss = s.miss)
    (h4 : s'.nclaim = s.nclaim) (h5 : s'.hd = s.hd) (h6 : s'.owed = s.owed)
    (hord : ∀ n g, (n, g) ∈ s'.order → (n, g) ∈ s.order ∨ (g = f ∧ 1 ≤ g'.nC))
    (hlen : s.order.length ≤ s'.order.length)
    (hpc : s'.pc = upd s.pc f p') (hgh : s'.gh = upd s.gh f g')
    (hHold : needsI p' = true → s'.i.pc (A f) = .held)
    (hMissPc : p' = .sigMiss → s.miss = 1)
    (hMissEx : s.miss ≠ 0 → s.pc f = .sigMiss → p' = .sigMiss)
    (hOwedPc : ∀ bc k w, p' = .wake bc k w → s.owed = k ∧ (prePop w = true → 1 ≤ k))
    (hOwedEx : s.owed ≠ 0 → (∃ bc k w, s.pc f = .wake bc k w) → ∃ bc k w, p' = .wake bc k w)
    (hLoc : Loc p' g')
    (hnC : (s.gh f).nC ≤ g'.nC) (hU : g'.nU = (s.gh f).nU) (hL : (s.gh f).nL ≤ g'.nL) : Inv s' := by
  refine ⟨hI, hm, ?_, ?_, ?_, ?_, ?_, ?_, ?_, ?_, ?_, ?_, ?_⟩
  · rw [hpc]; intro g; simp only [upd]; split
    · next h => subst h; exact hHold
    · next h => intro hg; rw [hIo g h]; exact hi.holdI g hg
  · exact hcnt
  · rw [h2, hpc]
    exact upd_forall (P := fun _ p => p = Pc.sigMiss → s.miss = 1) hi.missPc hMissPc
  · rw [h2, hpc]; intro h
    exact upd_exists (P := fun p => p = Pc.sigMiss) (hi.missEx h) (hMissEx h)
  · rw [h4, h5, h6]; exact hi.pops
  · rw [h5]; exact Nat.le_trans hi.hdLe hlen
  · rw [h6, hpc]
    exact upd_forall (P := fun _ p => ∀ bc k w, p = Pc.wake bc k w → s.owed = k ∧ (prePop w = true → 1 ≤ k))
      hi.owedPc hOwedPc
  · rw [h6, hpc]; intro h
    exact upd_exists (P := fun p => ∃ bc k w, p = Pc.wake bc k w) (hi.owedEx h) (hOwedEx h)
  · rw [hgh]; intro n g hg
    rcases hord n g hg with h | ⟨h, h'⟩
    · have := hi.ordReg n g h
      simp only [upd]; split
      · next h => subst h; omega
      · exact this
    · subst h; simp only [upd_same]; exact h'
  · rw [hgh]; intro w hw
    rcases hdh w hw with h | ⟨h, h'⟩
    · have := hi.dh w h
      simp only [upd]; split
      · next h => subst h; omega
      · exact this
    · subst h; simp only [upd_same]; exact h'
  · rw [hpc, hgh]; exact loc_upd hi.loc hLoc

/-- `Inv.move` when only the pc of `f` changes -/
theorem Inv.pcmove {s s' : St} (hi : Inv s) {f : Nat} {p' : Pc}
    (hm : s'.m = s.m) (hI : s'.i = s.i) (h1 : s'.count = s.count) (h2 : s'.miss = s.miss)
    (h3 : s'.nreg = s.nreg) (h4 : s'.nclaim = s.nclaim) (h5 : s'.hd = s.hd) (h6 : s'.owed = s.owed)
    (h7 : s'.order = s.order) (hpc : s'.pc = upd s.pc f p') (hgh : s'.gh = s.gh)
    (hHold : needsI p' = true → s.i.pc (A f) = .held)
    (hMissPc : p' = .sigMiss → s.miss = 1)
    (hMissEx : s.miss ≠ 0 → s.pc f = .sigMiss → p' = .sigMiss)
    (hOwedPc : ∀ bc k w, p' = .wake bc k w → s.owed = k ∧ (prePop w = true → 1 ≤ k))
    (hOwedEx : s.owed ≠ 0 → (∃ bc k w, s.pc f = .wake bc k w) → ∃ bc k w, p' = .wake bc k w)
    (hLoc : Loc p' (s.gh f)) : Inv s' :=
  hi.move (hm ▸ hi.mim) (fun w hw => Or.inl (hm ▸ hw)) (hI ▸ hi.mi) (fun g _ => by rw [hI])
    (by rw [h1, h2, h3, h4]; exact hi.cnt) h2 h4 h5 h6 (fun n g hg => Or.inl (h7 ▸ hg)) (by rw [h7]; exact Nat.le_refl _) hpc
    (by rw [hgh, upd_self_eq]) (by rw [hI]; exact hHold) hMissPc hMissEx hOwedPc
    hOwedEx hLoc (Nat.le_refl _) rfl (Nat.le_refl _)

/-- handing M from `A f` to the deferred agent `D f` -/
theorem MI.transfer {x : Mutex.St} (hi : MI x) {f : Nat} (h1 : x.pc (A f) = .held)
    (h2 : x.owner = some (A f)) :
    MI { x with pc := upd (upd x.pc (A f) .idle) (D f) .held, owner := some (D f) } := by
  obtain ⟨a1, a2, a3, a4, a5⟩ := hi
  have hne := A_ne_D f f
  constructor <;> (intros; simp only [upd] at *; grind [isHolder, isWaker])

/-- the facts `Inv` gives about one fiber, specialised to its current pc -/
theorem Inv.at {s : St} (hi : Inv s) (f : Nat) {p : Pc} (hp : s.pc f = p) :
    (needsI p = true → s.i.pc (A f) = .held) ∧ (p = .sigMiss → s.miss = 1) ∧
    (∀ bc k w, p = .wake bc k w → s.owed = k ∧ (prePop w = true → 1 ≤ k)) ∧ Loc p (s.gh f) := by
  subst hp; exact ⟨hi.holdI f, hi.missPc f, hi.owedPc f, hi.loc f⟩

local macro "side" : tactic =>
  `(tactic| first
      | (simp_all [needsI, prePop, Loc]; done)
      | (simp_all [needsI, prePop, Loc]; omega))

/-- a trypop+wake iteration ends: next iteration, or start releasing I -/
theorem Inv.finishOne {s s' : St} (hi : Inv s) {f : Nat} {bc : Bool} {k : Nat} {w : WPc}
    (heq : s.pc f = .wake bc k w) (hw : prePop w = false)
    (h : finishOne s f bc k = some s') : Inv s' := by
  obtain ⟨a1, a2, a3, a4⟩ := hi.at f heq
  have ho := (a3 bc k w rfl).1
  simp only [Cond.finishOne] at h
  split at h
  · next hk =>
    obtain ⟨x, hx, rfl⟩ := toUnlockI_shape h
    refine hi.move (f := f) (g' := s.gh f) hi.mim (fun w hw => Or.inl hw) (hi.mi.sync.step hx)
      (fun g hg => mx_pc_other hx (by simp only [mxActor]; intro h; exact hg (A_inj h)))
      hi.cnt rfl rfl rfl rfl (fun n g hg => Or.inl hg) (Nat.le_refl _) rfl
      (by simp only [upd_self_eq]) ?_ ?_ ?_ ?_ ?_ ?_ (Nat.le_refl _) rfl (Nat.le_refl _)
    · simp [needsI]
    · simp
    · intro _ h; rw [heq] at h; cases h
    · simp
    · intro h; omega
    · simp only [Loc] at a4 ⊢; simp_all
  · next hk =>
    simp at h; subst h
    refine hi.pcmove rfl rfl rfl rfl rfl rfl rfl rfl rfl rfl rfl ?_ ?_ ?_ ?_ ?_ ?_
    · intro _; exact a1 rfl
    · simp
    · intro _ h; rw [heq] at h; cases h
    · intro bc' k' w' h; simp at h; obtain ⟨rfl, rfl, rfl⟩ := h; exact ⟨ho, fun _ => by omega⟩
    · intro _ _; exact ⟨_, _, _, rfl⟩
    · simp only [Loc] at a4 ⊢; simp_all

theorem Inv.stepC {s s' : St} (hi : Inv s) {f : Nat} {e : Ev} (h : stepC s f e = some s') :
    Inv s' := by
  cases e <;> simp only [Cond.stepC] at h <;> (repeat' split at h) <;> (try simp at h) <;> (try subst h)
  all_goals first
    | (rename_i heq _
       obtain ⟨a1, a2, a3, a4⟩ := hi.at f heq
       refine hi.pcmove rfl rfl rfl rfl rfl rfl rfl rfl rfl rfl rfl ?_ ?_ ?_ ?_ ?_ ?_ <;>
         simp_all [needsI, prePop, Loc]
       done)
    | (rename_i heq _ _
       obtain ⟨a1, a2, a3, a4⟩ := hi.at f heq
       refine hi.pcmove rfl rfl rfl rfl rfl rfl rfl rfl rfl rfl rfl ?_ ?_ ?_ ?_ ?_ ?_ <;>
         simp_all [needsI, prePop, Loc]
       done)
    | skip
  -- xchg(&C.tail): enqueued
  · rename_i heq _
    obtain ⟨a1, a2, a3, a4⟩ := hi.at f heq
    refine hi.move (f := f) hi.mim (fun w hw => Or.inl hw) hi.mi (fun _ _ => rfl) hi.cnt rfl rfl rfl
      rfl ?_ ?_ rfl rfl ?_ ?_ ?_ ?_ ?_ ?_ ?_ ?_ ?_
    · intro n g hg
      simp only [List.mem_append, List.mem_singleton, Prod.mk.injEq] at hg
      rcases hg with hg | ⟨_, hg⟩
      · exact Or.inl hg
      · refine Or.inr ⟨hg, ?_⟩; simp only [Loc] at a4; simp; omega
    · simp
    all_goals side
  -- head := next on C.waiters: the pop
  · rename_i heq _ _ _ gp hord hg
    obtain ⟨a1, a2, a3, a4⟩ := hi.at f heq
    obtain ⟨ho, hk⟩ := a3 _ _ _ rfl
    have hk1 := hk rfl
    obtain ⟨b1, b2, b3, b4⟩ := hi.at _ hg.1
    have huniq : ∀ h, needsI (s.pc h) = true → h = f :=
      fun h hh => hi.unique hh (by rw [heq]; rfl)
    have hmiss : s.miss = 0 := by
      apply Classical.byContradiction; intro hm
      obtain ⟨h, hh⟩ := hi.missEx hm
      have := huniq h (by rw [hh]; rfl)
      subst this; rw [heq] at hh; cases hh
    refine ⟨hi.mi, hi.mim, ?_, hi.cnt, ?_, ?_, ?_, ?_, ?_, ?_, ?_, ?_, ?_⟩
    · refine upd_forall (P := fun g p => needsI p = true → s.i.pc (A g) = .held)
        (upd_forall (P := fun g p => needsI p = true → s.i.pc (A g) = .held) hi.holdI ?_) ?_
      · simp [needsI]
      · intro _; exact a1 rfl
    · refine upd_forall (P := fun _ p => p = Pc.sigMiss → s.miss = 1)
        (upd_forall (P := fun _ p => p = Pc.sigMiss → s.miss = 1) hi.missPc ?_) ?_ <;> simp
    · intro h; exact absurd hmiss h
    · show s.hd + 1 + (s.owed - 1) = s.nclaim
      have := hi.pops; omega
    · show s.hd + 1 ≤ s.order.length
      have := (List.getElem?_eq_some_iff.1 hord).1; omega
    · intro h bc' k' w' hh
      simp only [upd] at hh
      split at hh
      · simp at hh; obtain ⟨rfl, rfl, rfl⟩ := hh; exact ⟨by show s.owed - 1 = _; omega, by simp [prePop]⟩
      · split at hh
        · cases hh
        · next h1 _ => exact absurd (huniq h (by rw [hh]; rfl)) h1
    · intro _; exact ⟨f, _, _, _, upd_same _ _ _⟩
    · intro n g hg'
      have := hi.ordReg n g hg'
      simp only [upd]; split
      · next h => subst h; exact this
      · split
        · next h => subst h; exact this
        · exact this
    · intro w hw
      have := hi.dh w hw
      simp only [upd]; split
      · next h => subst h; exact this
      · split
        · next h => subst h; exact this
        · exact this
    · refine loc_upd (loc_upd hi.loc ?_) ?_
      · simp only [Loc] at b4 ⊢; simp_all
      · simp only [Loc] at a4 ⊢; simp_all; omega
  -- wake loop iteration finished (state was WAITING → READY written)
  · rename_i heq _
    exact hi.finishOne heq rfl h
  -- wake loop iteration finished (state still SAVING)
  · rename_i heq _ _
    exact hi.finishOne heq rfl h
  -- the link: last step of the waiter; M passes to its deferred agent
  · rename_i heq hc
    obtain ⟨a1, a2, a3, a4⟩ := hi.at f heq
    refine hi.move (f := f) (hi.mim.transfer hc.2.2.1 hc.2.2.2.1) ?_ hi.mi (fun _ _ => rfl) hi.cnt rfl rfl
      rfl rfl (fun n g hg => Or.inl hg) (Nat.le_refl _) rfl rfl ?_ ?_ ?_ ?_ ?_ ?_ ?_ ?_ ?_
    · intro w hw
      by_cases hwf : w = f
      · subst hwf; refine Or.inr ⟨rfl, ?_⟩; simp only [Loc] at a4; simp; omega
      · left
        have h1 : D w ≠ D f := fun h => hwf (D_inj h)
        have h2 : D w ≠ A f := fun h => A_ne_D f w h.symm
        simpa [upd, h1, h2] using hw
    all_goals side

end LibfiberVerif.Cond
