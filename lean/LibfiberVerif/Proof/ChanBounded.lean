/-
  Proof/ChanBounded.lean — the bounded channel (fiber_bounded_channel_t): a ring with a claim
  counter `high` advanced by CAS (many senders) and a consume counter `low` (one receiver);
  NULL = "not written yet".  Invariant: every claimed index is written exactly once by its
  claimer, into a slot that holds NULL, never more than `size` indices are outstanding, and
  the receiver takes the messages in claim order.  Property C11.
-/
import LibfiberVerif.Proof.ChanQueueStep

set_option linter.unusedSimpArgs false
set_option linter.unusedVariables false

namespace LibfiberVerif.Chan

/-- the fiber that claimed sequence number i (0 if none yet) -/
def qown (s : St) (i : Nat) : Nat := ((s.sent[i]?).map Prod.fst).getD 0

theorem mod_ne_of_lt {a b c : Nat} (h1 : a < b) (h2 : b - a < c) : a % c ≠ b % c := by
  intro h
  have h3 := Nat.sub_mod_eq_zero_of_mod_eq h.symm
  rw [Nat.mod_eq_of_lt h2] at h3
  omega

structure BInv (s : St) : Prop where
  len : s.sent.length = s.high
  lowhigh : s.low ≤ s.high ∧ s.high - s.low ≤ s.cap
  vnz : ∀ p, p ∈ s.sent → p.2 ≠ 0
  recvd_eq : s.recvd = (s.sent.map Prod.snd).take s.low
  calls_eq : ∀ f, sentBy s f ++ (s.pc f).pending = s.calls f
  pend_nz : ∀ f v, v ∈ (s.pc f).pending → v ≠ 0
  recv_id : ∀ f, (s.pc f).isRecv = true → s.receiver = some f
  claimed : ∀ f v h, s.pc f = .sClaimed v h →
    s.low ≤ h ∧ h < s.high ∧ qown s h = f ∧ qval s h = v ∧ s.buf (h % s.cap) = 0
  slots : ∀ i, s.low ≤ i → i < s.high → (∀ f m, s.pc f ≠ .rCleared i m) →
    s.buf (i % s.cap) = qval s i ∨
    (s.buf (i % s.cap) = 0 ∧ s.pc (qown s i) = .sClaimed (qval s i) i)
  free : ∀ j, j < s.cap → (∀ i, s.low ≤ i → i < s.high → i % s.cap ≠ j) → s.buf j = 0
  sLdLow_le : ∀ f v l, s.pc f = .sLdLow v l → l ≤ s.low
  sLdHigh_le : ∀ f v l h, s.pc f = .sLdHigh v l h → l ≤ s.low ∧ h ≤ s.high
  sRdBuf_le : ∀ f v l h x, s.pc f = .sRdBuf v l h x → l ≤ s.low ∧ h ≤ s.high
  rLdHigh_le : ∀ f h, s.pc f = .rLdHigh h → h ≤ s.high
  rLdLow_eq : ∀ f h l, s.pc f = .rLdLow h l → h ≤ s.high ∧ l = s.low
  rRdBuf_eq : ∀ f h l x, s.pc f = .rRdBuf h l x →
    l = s.low ∧ s.low < s.high ∧ x = qval s s.low ∧ s.buf (s.low % s.cap) = x ∧ x ≠ 0 ∧
    ∀ g v, s.pc g ≠ .sClaimed v s.low
  rCleared_eq : ∀ f l m, s.pc f = .rCleared l m →
    l = s.low ∧ s.low < s.high ∧ m = qval s s.low ∧ s.buf (s.low % s.cap) = 0 ∧
    ∀ g v, s.pc g ≠ .sClaimed v s.low

theorem binv_initM (spin : Bool) (cap : Nat) : BInv (initM spin .bounded cap) := by
  constructor <;> simp [initM, qval, qown, sentBy, Pc.pending, Pc.isRecv, Signal.pinit]

theorem binv_init (cap : Nat) : BInv (init .bounded cap) := binv_initM false cap

end LibfiberVerif.Chan
