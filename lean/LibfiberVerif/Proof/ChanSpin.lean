/-
  Proof/ChanSpin.lean — channels created with a NULL ready_signal ("this channel will spin"),
  property C11.  In spin mode no fiber ever touches a signal: the embedded signal protocol stays
  in its initial state for ever, nobody is ever committed to sleep or asleep, and a blocking
  receive that finds nothing is back at the top of its loop.  Also: the receive loop makes
  progress — a receiver at the top of its loop with a message available takes it in its next
  pass (the explicit event sequence is accepted by the model), in either creation mode.
-/
import LibfiberVerif.Proof.ChanBWakeStep
import LibfiberVerif.Proof.ChanWakeStep

set_option linter.unusedSimpArgs false
set_option linter.unusedVariables false

namespace LibfiberVerif.Chan
open Signal (PSt PEv PPc pstep PInv pinit)

/-- pcs in which a fiber is about to use / is using the ready_signal -/
def Pc.usesSignal : Pc → Bool
  | .rEmpty => true | .rWaiting => true | .sPublished _ => true | .sRaising _ => true
  | .idle => false | .sTop _ => false | .sLdLow _ _ => false | .sLdHigh _ _ _ => false | .sRdBuf _ _ _ _ => false
  | .sClaimed _ _ => false | .qCalled _ => false | .qData _ => false | .qCleared _ => false | .qLdTail _ _ => false
  | .qSwapped _ _ _ => false | .sRaised _ _ => false | .sDone => false
  | .rTop => false | .rLdHigh _ => false | .rLdLow _ _ => false | .rRdBuf _ _ _ => false | .rCleared _ _ => false
  | .rGotHead _ => false | .rGotNext _ _ => false | .rMoved _ _ => false | .rGotData _ _ => false
  | .rWrote _ _ => false | .rDone _ => false | .tEmpty => false

/-- spin mode: the signal protocol is untouched and nobody is at a pc that would touch it -/
structure SpinInv (s : St) : Prop where
  proto : s.p = pinit
  nosig : ∀ f, (s.pc f).usesSignal = false

theorem spininv_init (k : Kind) (cap : Nat) : SpinInv (initM true k cap) :=
  ⟨rfl, fun _ => rfl⟩

theorem spininv_embedded (s s' : St) (e : PEv) (hi : SpinInv s) (hs : pEmbedded s e = some s') : False := by
  have hn := hi.nosig (pactor e)
  simp only [pEmbedded] at hs
  split at hs
  all_goals (try (rename_i hpc; rw [hpc] at hn; simp [Pc.usesSignal] at hn))
  simp at hs

set_option maxHeartbeats 1000000 in
theorem spininv_step (s s' : St) (e : Ev) (hsp : s.spin = true) (hi : SpinInv s)
    (hs : step s e = some s') : SpinInv s' := by
  cases e with
  | p pe =>
    exfalso
    cases pe with
    | setWait g f => simp [step, hi.proto, pinit, pstep] at hs
    | callWait f => simp [step] at hs
    | retWait f => simp [step] at hs
    | callRaise f => simp [step] at hs
    | retRaise f r => simp [step] at hs
    | clrScratch f => exact spininv_embedded s s' _ hi (by simpa [step] using hs)
    | casWaiter f w ok => exact spininv_embedded s s' _ hi (by simpa [step] using hs)
    | wStateWaiting f => exact spininv_embedded s s' _ hi (by simpa [step] using hs)
    | stNone f => exact spininv_embedded s s' _ hi (by simpa [step] using hs)
    | xchg f old => exact spininv_embedded s s' _ hi (by simpa [step] using hs)
    | rScratch f g r => exact spininv_embedded s s' _ hi (by simpa [step] using hs)
    | wStateReady f g => exact spininv_embedded s s' _ hi (by simpa [step] using hs)
  | _ =>
    obtain ⟨h1, h2⟩ := hi
    simp only [step, emptyPc, pubPc, hsp, ↓reduceIte] at hs
    all_goals (repeat' (split at hs))
    all_goals (try simp at hs)
    all_goals (try contradiction)
    all_goals (first | subst hs | (obtain ⟨_, hs⟩ := hs; subst hs))
    all_goals (refine ⟨h1, fun g => ?_⟩; simp only [upd]; split <;> first | rfl | exact h2 g)

theorem spininv_of_run {k : Kind} {cap : Nat} {es : List Ev} {s : St}
    (h : (sysM true k cap).run es = some s) : SpinInv s := by
  have : s.spin = true ∧ SpinInv s :=
    Sys.inv_of_run (sysM true k cap) (fun s => s.spin = true ∧ SpinInv s) ⟨rfl, spininv_init k cap⟩
      (fun s e s' hi hs => ⟨(spin_step s s' e hs).trans hi.1, spininv_step s s' e hi.1 hi.2 hs⟩) h
  exact this.2

/-- in spin mode nobody is ever on its way to sleep, nor asleep -/
theorem spin_never_sleeps {s : St} (hi : SpinInv s) (w : Nat) : ¬ committed s w ∧ ¬ asleep s w := by
  have hn := hi.nosig w
  constructor
  · intro hc
    rcases hc with hc | ⟨hc, _⟩ <;> simp [hc, Pc.usesSignal] at hn
  · intro ha
    simp [asleep, hi.proto, pinit, PPc.sleepy] at ha

/-! ### progress of the receive loop (either creation mode, blocking receive or try_receive) -/

/-- bounded: a receiver at the top of its loop, the message with sequence number `low` in its
    slot ⇒ the next pass of the loop takes exactly that message: the six events are accepted -/
theorem receive_takes_bounded {s : St} (hk : s.kind = .bounded) (hb : BInv s) (hcap : 0 < s.cap)
    (f : Nat) (hpc : s.pc f = .rTop) (ha : bavail s) :
    ∃ s', (sysM s.spin s.kind s.cap).runFrom s
        [.ldHigh f s.high, .ldLow f s.low, .rBuf f (s.low % s.cap) (s.buf (s.low % s.cap)),
         .wBuf f (s.low % s.cap) 0, .stLow f (s.low + 1), .retRecv f (s.buf (s.low % s.cap))] = some s' ∧
      s'.pc f = .idle ∧ s'.recvd = s.recvd ++ [s.buf (s.low % s.cap)] ∧ s'.low = s.low + 1 := by
  have hlt := bavail_lt hb hcap ha
  simp only [bavail] at ha
  simp [Sys.runFrom, sysM, step, hk, hpc, upd, ha, hlt]

/-- `headNext` as a function of the three fields it reads -/
def hnext (order : List Nat) (linked : Nat → Bool) (hd : Nat) : Nat :=
  match order[hd]? with
  | some n => if linked hd then n else 0
  | none => 0

theorem headNext_hnext (s : St) : headNext s = hnext s.order s.linked s.hd := rfl

/-- queues: a receiver at the top of its loop, a message linked at the head ⇒ the next pass of
    the loop pops exactly that node and returns its message -/
theorem receive_takes_queue {s : St} (hk : s.kind ≠ .bounded) (f : Nat) (hpc : s.pc f = .rTop)
    (ha : avail s) :
    ∃ s', (sysM s.spin s.kind s.cap).runFrom s
        [.rHead f s.headNode, .rNext f s.headNode (headNext s), .wHead f (headNext s),
         .rData f (headNext s) (s.ndata (headNext s)), .wData f s.headNode (s.ndata (headNext s)),
         .rData f s.headNode (s.ndata (headNext s)), .retRecv f (s.ndata (headNext s))] = some s' ∧
      s'.pc f = .idle ∧ s'.recvd = s.recvd ++ [s.ndata (headNext s)] ∧ s'.hd = s.hd + 1 := by
  simp only [avail, headNext_hnext] at ha
  simp only [headNext_hnext]
  obtain ⟨x, hxe⟩ : ∃ x, hnext s.order s.linked s.hd = x := ⟨_, rfl⟩
  rw [hxe] at ha ⊢
  simp [Sys.runFrom, sysM, step, hk, hpc, upd, ha, headNext_hnext, hxe]

end LibfiberVerif.Chan
