/-
  Proof/Rt.lean — the inductive invariant of the runtime model `Rt` (properties C01 and the
  runtime half of C02).
-/
import LibfiberVerif.Model.Rt

set_option linter.unusedVariables false
set_option linter.unusedSimpArgs false

namespace LibfiberVerif.Rt

/-! ### small vocabulary -/

/-- the fiber a kernel thread has in its hand (popped / stolen, not yet pushed back or run) -/
def TPc.fib : TPc → Option Nat
  | .run => none
  | .held g => some g
  | .requeue g => some g
  | .checked g => some g
  | .armed g => some g
  | .stolen g => some g

def Ctx.isRunning : Ctx → Bool
  | .running _ => true
  | _ => false

/-- what is known of a fiber that sits in a run queue or in a thread's hand -/
def Q (s : St) (g : Nat) : Prop :=
  s.tracked g = true ∧ s.fst g ≠ DONE ∧
  (s.ctx g = .saved ∨ s.ctx g = .fresh ∨ (s.fst g = SAVING ∧ (s.ctx g).isRunning = true))

structure Inv (s : St) : Prop where
  live : ∀ k, k < 16 → s.ctx (s.cur k) = .running k
  liveU : ∀ g k, s.ctx g = .running k → k < 16 ∧ s.cur k = g
  rngT : ∀ k, 16 ≤ k → s.tpc k = .run
  rngQ : ∀ q, 32 ≤ q → s.bag q = []
  bagQ : ∀ q g, g ∈ s.bag q → Q s g
  handQ : ∀ k g, (s.tpc k).fib = some g → Q s g
  chk : ∀ k g, s.tpc k = .checked g → (s.ctx g = .saved ∨ s.ctx g = .fresh) ∧ s.fst g ≠ SAVING
  arm : ∀ k g, s.tpc k = .armed g → (s.ctx g = .saved ∨ s.ctx g = .fresh) ∧ s.fst g = RUNNING
  winC : ∀ k, s.mst k ≠ .idle → s.ctx (s.old k) = .saved
  winF : ∀ k, s.mst k = .flip → s.fst (s.old k) = SAVING
  winP : ∀ k, s.mst k = .push → s.fst (s.old k) = READY
  winD : ∀ k, s.mst k = .destroy → s.fst (s.old k) = DONE
  winPub : ∀ k, s.mst k ≠ .idle → s.fst (s.old k) ≠ SAVING → s.pub (s.old k) = false
  winBag : ∀ k q, s.mst k ≠ .idle → s.fst (s.old k) ≠ SAVING → s.old k ∉ s.bag q
  winHand : ∀ k k', s.mst k ≠ .idle → s.fst (s.old k) ≠ SAVING → (s.tpc k').fib ≠ some (s.old k)
  winU : ∀ k k', s.mst k ≠ .idle → s.mst k' ≠ .idle → s.old k = s.old k' → k = k'
  winM : ∀ k, s.mst k ≠ .idle → s.tracked (s.old k) = false → s.maintOf (s.old k) = k
  pubS : ∀ g, s.pub g = true → s.ctx g = .saved ∨ (s.fst g = SAVING ∧ (s.ctx g).isRunning = true)
  nodup : ∀ q, (s.bag q).Nodup
  bagbag : ∀ q q' g, g ∈ s.bag q → g ∈ s.bag q' → q = q'
  baghand : ∀ q k g, g ∈ s.bag q → (s.tpc k).fib ≠ some g
  handhand : ∀ k k' g, (s.tpc k).fib = some g → (s.tpc k').fib = some g → k = k'
  untr : ∀ g k, s.tracked g = false → s.ctx g = .running k → s.maintOf g = k
  cnone : ∀ g, s.ctx g = .none → 16 ≤ g ∧ s.maintOf g = g ∧ s.tracked g = false
  cdead : ∀ g, s.ctx g = .dead → s.tracked g = true

theorem inv_init : Inv init := by
  constructor <;> simp [init, Q, TPc.fib] <;> grind

theorem heldBy_iff (s : St) (g : Nat) :
    heldBy s g = true ↔ ∃ k, k < 16 ∧ (s.tpc k).fib = some g := by
  simp only [heldBy, List.any_eq_true, List.mem_range]
  constructor
  · rintro ⟨k, hk, h⟩
    refine ⟨k, hk, ?_⟩
    cases hp : s.tpc k <;> simp [hp, TPc.fib] at h ⊢ <;> exact h
  · rintro ⟨k, hk, h⟩
    refine ⟨k, hk, ?_⟩
    cases hp : s.tpc k <;> simp [hp, TPc.fib] at h ⊢ <;> exact h

theorem inSomeBag_iff (s : St) (g : Nat) (n : Nat) :
    inSomeBag s g n = true ↔ ∃ q, q < n ∧ g ∈ s.bag q := by
  simp [inSomeBag]

theorem nowhere_of_guards {s : St} (hI : Inv s) {g : Nat}
    (hb : ¬ inSomeBag s g NQ = true) (hh : ¬ heldBy s g = true) :
    (∀ q, g ∉ s.bag q) ∧ (∀ k, (s.tpc k).fib ≠ some g) := by
  rw [inSomeBag_iff] at hb
  rw [heldBy_iff] at hh
  constructor
  · intro q hq
    by_cases h : q < 32
    · exact hb ⟨q, h, hq⟩
    · have := hI.rngQ q (by omega); simp [this] at hq
  · intro k hk
    by_cases h : k < 16
    · exact hh ⟨k, h, hk⟩
    · have := hI.rngT k (by omega); simp [this, TPc.fib] at hk

theorem step_core {s s' : St} {e : Ev} (h : step s e = some s') : e.wf = true ∧ core s e = some s' := by
  simp only [step] at h
  split at h
  · exact ⟨by assumption, h⟩
  · simp at h

macro "destruct_inv " h:ident : tactic => `(tactic|
  obtain ⟨live, liveU, rngT, rngQ, bagQ, handQ, chk, arm, winC, winF, winP, winD, winPub, winBag, winHand,
    winU, winM, pubS, nodup, bagbag, baghand, handhand, untr, cnone, cdead⟩ := $h)

macro "inv_auto" : tactic => `(tactic|
  (constructor <;> first
    | assumption
    | (simp only [Q, RUNNING, READY, WAITING, DONE, SAVING] at * <;>
       grind [upd, Ctx.isRunning, TPc.fib])))

theorem inv_create {s s' : St} {k g : Nat} (hI : Inv s)
    (h : core s (.create k g) = some s') : Inv s' := by
  simp only [core] at h
  split at h <;> simp at h
  subst h
  destruct_inv hI
  inv_auto

theorem inv_push_requeue {s : St} {k q g : Nat} (hI : Inv s) (hq : q < 32)
    (hpc : (s.tpc k).fib = some g) (hnb : ∀ q, g ∉ s.bag q) :
    Inv { s with bag := upd s.bag q (g :: s.bag q), tpc := upd s.tpc k .run } := by
  destruct_inv hI
  inv_auto

theorem inv_push_fresh {s : St} {q g : Nat} (hI : Inv s) (hq : q < 32)
    (hnb : ∀ q, g ∉ s.bag q) (hnh : ∀ k, (s.tpc k).fib ≠ some g) (htr : s.tracked g = true)
    (hc : s.ctx g = .fresh) (hf : s.fst g = READY) :
    Inv { s with bag := upd s.bag q (g :: s.bag q) } := by
  destruct_inv hI
  inv_auto

theorem inv_push_old {s : St} {k q : Nat} (hI : Inv s) (hq : q < 32)
    (hnb : ∀ q, s.old k ∉ s.bag q) (hnh : ∀ k', (s.tpc k').fib ≠ some (s.old k))
    (htr : s.tracked (s.old k) = true)
    (hc : s.ctx (s.old k) = .saved) (hf : s.fst (s.old k) = READY) (hm : s.mst k = .push) :
    Inv { s with bag := upd s.bag q (s.old k :: s.bag q), mst := upd s.mst k .idle } := by
  destruct_inv hI
  inv_auto

theorem inv_push_pub {s : St} {q g : Nat} (hI : Inv s) (hq : q < 32)
    (hnb : ∀ q, g ∉ s.bag q) (hnh : ∀ k, (s.tpc k).fib ≠ some g) (htr : s.tracked g = true)
    (hp : s.pub g = true) (hf : s.fst g = READY ∨ s.fst g = SAVING ∨ s.fst g = WAITING) :
    Inv { s with bag := upd s.bag q (g :: s.bag q), pub := upd s.pub g false } := by
  destruct_inv hI
  inv_auto
theorem inv_rqpush {s s' : St} {k q g : Nat} {fn : Fn} (hI : Inv s) (hq : q < 32)
    (h : core s (.rqpush k q g fn) = some s') : Inv s' := by
  simp only [core] at h
  split at h
  · simp at h
  next hg =>
    simp only [not_or] at hg
    obtain ⟨-, hbag, htr⟩ := hg
    have hnb : ∀ q, g ∉ s.bag q := by
      intro q' hq'
      rw [inSomeBag_iff] at hbag
      by_cases h32 : q' < 32
      · exact hbag ⟨q', h32, hq'⟩
      · have := hI.rngQ q' (by omega); simp [this] at hq'
    simp at htr
    clear hbag
    split at h
    next h' hpc =>
      split at h <;> simp at h
      subst h; subst h'
      exact inv_push_requeue hI hq (by simp [hpc, TPc.fib]) hnb
    next h' hpc =>
      split at h <;> simp at h
      subst h; subst h'
      exact inv_push_requeue hI hq (by simp [hpc, TPc.fib]) hnb
    next hpc =>
      split at h
      · simp at h
      next hh =>
        have hnh : ∀ k, (s.tpc k).fib ≠ some g := by
          intro k' hk'
          rw [heldBy_iff] at hh
          by_cases h16 : k' < 16
          · exact hh ⟨k', h16, hk'⟩
          · have := hI.rngT k' (by omega); simp [this, TPc.fib] at hk'
        clear hh
        split at h
        next hc =>
          simp at h; subst h
          exact inv_push_fresh hI hq hnb hnh htr hc.1 hc.2
        next =>
          split at h
          next hc =>
            simp at h; subst h
            obtain ⟨hgo, hf, hc, hp, hm⟩ := hc
            subst hgo
            exact inv_push_old hI hq hnb hnh htr hc hf hm
          next =>
            split at h
            next hc =>
              simp at h; subst h
              exact inv_push_pub hI hq hnb hnh htr hc.1 hc.2
            · simp at h
    · simp at h
theorem inv_take {s : St} {k q g : Nat} {p : TPc} (hI : Inv s) (hk : k < 16)
    (hpc : s.tpc k = .run) (hg : g ∈ s.bag q) (hp : p = .held g ∨ p = .stolen g) :
    Inv { s with bag := upd s.bag q ((s.bag q).erase g), tpc := upd s.tpc k p } := by
  have hnd := hI.nodup q
  have hne : g ∉ (s.bag q).erase g := by
    intro hm; exact (List.Nodup.mem_erase_iff hnd).mp hm |>.1 rfl
  have hsub : ∀ x, x ∈ (s.bag q).erase g → x ∈ s.bag q := fun x hx => List.mem_of_mem_erase hx
  have hnd' : ((s.bag q).erase g).Nodup := hnd.erase g
  have hfib : p.fib = some g := by rcases hp with hp | hp <;> simp [hp, TPc.fib]
  have hnc : ∀ x, p ≠ .checked x := by rcases hp with hp | hp <;> simp [hp]
  have hna : ∀ x, p ≠ .armed x := by rcases hp with hp | hp <;> simp [hp]
  have hnr : p ≠ .run := by rcases hp with hp | hp <;> simp [hp]
  clear hp
  generalize (s.bag q).erase g = l at hne hsub hnd' ⊢
  destruct_inv hI
  inv_auto

theorem inv_rqpop {s s' : St} {k q : Nat} {r : Option Nat} (hI : Inv s) (hk : k < 16)
    (h : core s (.rqpop k q r) = some s') : Inv s' := by
  simp only [core] at h
  split at h
  · simp at h
  next hg =>
    simp only [not_or, Decidable.not_not] at hg
    split at h
    · simp at h; subst h; exact hI
    · split at h <;> simp at h
      next hc =>
        subst h
        exact inv_take hI hk hg.2 (by simpa using hc) (Or.inl rfl)

theorem inv_rqsteal {s s' : St} {k q : Nat} {r : Option Nat} (hI : Inv s) (hk : k < 16)
    (h : core s (.rqsteal k q r) = some s') : Inv s' := by
  simp only [core] at h
  split at h
  · simp at h
  next hg =>
    simp only [not_or, Decidable.not_not] at hg
    split at h
    · simp at h; subst h; exact hI
    · split at h <;> simp at h
      next hc =>
        subst h
        exact inv_take hI hk hg.2 (by simpa using hc) (Or.inr rfl)
theorem inv_rnext {s : St} {k g : Nat} {p : TPc} (hI : Inv s)
    (hpc : s.tpc k = .held g) (hp : (p = .requeue g ∧ s.fst g = SAVING) ∨ (p = .checked g ∧ s.fst g ≠ SAVING)) :
    Inv { s with tpc := upd s.tpc k p } := by
  have hfib : p.fib = some g := by rcases hp with hp | hp <;> simp [hp.1, TPc.fib]
  have hna : ∀ x, p ≠ .armed x := by rcases hp with hp | hp <;> simp [hp.1]
  have hnc : ∀ x, p = .checked x → x = g ∧ s.fst g ≠ SAVING := by
    rcases hp with hp | hp
    · simp [hp.1]
    · intro x hx; rw [hp.1] at hx; cases hx; exact ⟨rfl, hp.2⟩
  clear hp
  destruct_inv hI
  inv_auto

theorem inv_rmaint {s : St} {k v : Nat} {m : MSt} (hI : Inv s)
    (hm : s.mst k = .read) (hv : v = s.fst (s.old k))
    (hm' : m = (if v = SAVING then .flip else if v = READY then .push
                else if v = DONE then .destroy else .idle)) :
    Inv { s with pub := if v = WAITING then upd s.pub (s.old k) true else s.pub,
                 mst := upd s.mst k m } := by
  subst hm' hv
  destruct_inv hI
  inv_auto

theorem inv_rState {s s' : St} {k g v : Nat} {fn : Fn} (hI : Inv s)
    (h : core s (.rState k g v fn) = some s') : Inv s' := by
  simp only [core] at h
  split at h
  · simp at h
  next hg =>
    simp only [not_or, Decidable.not_not] at hg
    obtain ⟨hv, -⟩ := hg
    split at h
    · -- next
      split at h
      next h' hpc =>
        split at h <;> simp at h
        subst h; subst h'
        apply inv_rnext hI hpc
        by_cases hs : v = SAVING
        · left; simp [hs]; rw [← hv, hs]
        · right; simp [hs]; rwa [← hv]
      · simp at h
    · -- maint
      split at h
      next hc =>
        simp at h; subst h
        obtain ⟨hgo, -, hm⟩ := hc
        subst hgo
        exact inv_rmaint hI hm hv rfl
      · split at h <;> simp at h
        subst h; exact hI
    all_goals (first | (split at h <;> simp at h <;> subst h <;> exact hI) | (simp at h; subst h; exact hI))
/-- the running fiber of thread k rewrites its own state word from RUNNING (yield's READY,
    P-defer's WAITING, completion's DONE) -/
theorem inv_wcur {s : St} {k v : Nat} (hI : Inv s) (hk : k < 16)
    (hf : s.fst (s.cur k) = RUNNING) (hv : v ≠ SAVING) :
    Inv { s with fst := upd s.fst (s.cur k) v } := by
  have hrun := hI.live k hk
  destruct_inv hI
  inv_auto

theorem inv_wsaving {s : St} {k : Nat} (hI : Inv s) (hk : k < 16)
    (hf : s.fst (s.cur k) = RUNNING) :
    Inv { s with fst := upd s.fst (s.cur k) SAVING, pub := upd s.pub (s.cur k) true } := by
  have hrun := hI.live k hk
  destruct_inv hI
  inv_auto

theorem inv_warm {s : St} {k g : Nat} (hI : Inv s) (hpc : s.tpc k = .checked g) :
    Inv { s with fst := upd s.fst g RUNNING, tpc := upd s.tpc k (.armed g) } := by
  have hc := hI.chk k g hpc
  have hfib : (s.tpc k).fib = some g := by simp [hpc, TPc.fib]
  destruct_inv hI
  inv_auto

theorem inv_wflip {s : St} {k : Nat} (hI : Inv s) (hm : s.mst k = .flip) :
    Inv { s with fst := upd s.fst (s.old k) WAITING, mst := upd s.mst k .idle } := by
  have hc := hI.winC k (by simp [hm])
  have hf := hI.winF k hm
  destruct_inv hI
  inv_auto

theorem inv_wwake {s : St} {g : Nat} (hI : Inv s) (hf : s.fst g = WAITING) (hp : s.pub g = true) :
    Inv { s with fst := upd s.fst g READY } := by
  destruct_inv hI
  inv_auto
theorem inv_wState {s s' : St} {k g v : Nat} {fn : Fn} (hI : Inv s) (hk : k < 16)
    (h : core s (.wState k g v fn) = some s') : Inv s' := by
  simp only [core] at h
  split at h
  · simp at h
  · split at h
    · -- switchTo
      split at h
      next hc =>
        simp at h; subst h
        obtain ⟨hg, -, hf⟩ := hc
        subst hg
        exact inv_wcur hI hk hf (by simp [READY, SAVING])
      · split at h
        next h' hpc =>
          split at h <;> simp at h
          next hc =>
            subst h
            obtain ⟨hg, -⟩ := hc
            subst hg
            exact inv_warm hI hpc
        · simp at h
    · -- maint
      split at h <;> simp at h
      next hc =>
        subst h
        obtain ⟨hg, -, -, -, hm⟩ := hc
        subst hg
        exact inv_wflip hI hm
    · -- waitSaving
      split at h <;> simp at h
      next hc =>
        subst h
        obtain ⟨hg, -, hf, -⟩ := hc
        subst hg
        exact inv_wsaving hI hk hf
    · -- waitDefer
      split at h <;> simp at h
      next hc =>
        subst h
        obtain ⟨hg, -, hf, -⟩ := hc
        subst hg
        exact inv_wcur hI hk hf (by simp [WAITING, SAVING])
    · -- wake
      split at h <;> simp at h
      next hc =>
        subst h
        exact inv_wwake hI hc.2.1 hc.2.2.1
    · -- done
      split at h
      next hc =>
        simp at h; subst h
        obtain ⟨hg, -, hf, -⟩ := hc
        subst hg
        exact inv_wcur hI hk hf (by simp [DONE, SAVING])
      · split at h <;> simp at h
        next hc =>
          subst h
          exact inv_wwake hI hc.2.1 hc.2.2.1
    · simp at h
/-- the guard of `switch k g` in propositional form -/
def SwitchOk (s : St) (k g : Nat) : Prop :=
  g ≠ s.cur k ∧
  ((s.tracked g = true ∧ s.tpc k = .armed g) ∨
   (s.tracked g = false ∧ s.tpc k = .run ∧ s.maintOf g = k))

/-- THE property: the target of an accepted context switch has a saved (or fresh) context -/
theorem switch_target {s : St} {k g : Nat} (hI : Inv s) (hk : k < 16) (hok : SwitchOk s k g) :
    s.ctx g = .saved ∨ s.ctx g = .fresh := by
  obtain ⟨hne, hok⟩ := hok
  rcases hok with ⟨-, hpc⟩ | ⟨htr, -, hm⟩
  · exact (hI.arm k g hpc).1
  · cases hc : s.ctx g with
    | saved => simp
    | fresh => simp
    | none => have := hI.cnone g hc; omega
    | dead => have := hI.cdead g hc; simp [htr] at this
    | running k' =>
      have h1 := hI.untr g k' htr hc
      have h2 := (hI.liveU g k' hc).2
      rw [h1] at hm; subst hm
      exact absurd h2.symm hne

theorem inv_switch_tr {s : St} {k g : Nat} (hI : Inv s) (hk : k < 16) (hne : g ≠ s.cur k)
    (htr : s.tracked g = true) (hpc : s.tpc k = .armed g) :
    Inv { s with ctx := upd (upd s.ctx (s.cur k) .saved) g (.running k), cur := upd s.cur k g,
                 old := upd s.old k (s.cur k), tpc := upd s.tpc k .run, pub := upd s.pub g false,
                 mst := upd s.mst k .read } := by
  have hrun := hI.live k hk
  have hc1 : upd (upd s.ctx (s.cur k) .saved) g (.running k) g = .running k := by simp
  have hc2 : upd (upd s.ctx (s.cur k) .saved) g (.running k) (s.cur k) = .saved := by
    simp [upd]; intro h; exact absurd h.symm hne
  have hc3 : ∀ x, x ≠ g → x ≠ s.cur k → upd (upd s.ctx (s.cur k) .saved) g (.running k) x = s.ctx x := by
    intro x h1 h2; simp [upd, h1, h2]
  generalize upd (upd s.ctx (s.cur k) .saved) g (.running k) = c' at hc1 hc2 hc3 ⊢
  have ha := hI.arm k g hpc
  have hfib : (s.tpc k).fib = some g := by simp [hpc, TPc.fib]
  destruct_inv hI
  inv_auto

theorem inv_switch_un {s : St} {k g : Nat} (hI : Inv s) (hk : k < 16) (hne : g ≠ s.cur k)
    (htr : s.tracked g = false) (hpc : s.tpc k = .run) (hm : s.maintOf g = k) :
    Inv { s with ctx := upd (upd s.ctx (s.cur k) .saved) g (.running k), cur := upd s.cur k g,
                 old := upd s.old k (s.cur k), tpc := upd s.tpc k .run, pub := upd s.pub g false,
                 mst := upd s.mst k .read } := by
  have htg := switch_target hI hk ⟨hne, Or.inr ⟨htr, hpc, hm⟩⟩
  have hrun := hI.live k hk
  have hc1 : upd (upd s.ctx (s.cur k) .saved) g (.running k) g = .running k := by simp
  have hc2 : upd (upd s.ctx (s.cur k) .saved) g (.running k) (s.cur k) = .saved := by
    simp [upd]; intro h; exact absurd h.symm hne
  have hc3 : ∀ x, x ≠ g → x ≠ s.cur k → upd (upd s.ctx (s.cur k) .saved) g (.running k) x = s.ctx x := by
    intro x h1 h2; simp [upd, h1, h2]
  generalize upd (upd s.ctx (s.cur k) .saved) g (.running k) = c' at hc1 hc2 hc3 ⊢
  destruct_inv hI
  inv_auto

theorem switch_ok_of_core {s s' : St} {k g : Nat} (h : core s (.switch k g) = some s') :
    SwitchOk s k g ∧
    s' = { s with ctx := upd (upd s.ctx (s.cur k) .saved) g (.running k), cur := upd s.cur k g,
                  old := upd s.old k (s.cur k), tpc := upd s.tpc k .run, pub := upd s.pub g false,
                  mst := upd s.mst k .read } := by
  simp only [core] at h
  by_cases htr : s.tracked g = true
  · simp only [htr, if_true] at h
    split at h
    next hc =>
      simp at h
      exact ⟨⟨hc.2, Or.inl ⟨htr, by simpa using hc.1⟩⟩, h.symm⟩
    · simp at h
  · rw [if_neg htr] at h
    split at h
    next hc =>
      simp at h hc
      exact ⟨⟨hc.2, Or.inr ⟨by simpa using htr, hc.1.1, hc.1.2⟩⟩, h.symm⟩
    · simp at h

theorem inv_switch {s s' : St} {k g : Nat} (hI : Inv s) (hk : k < 16)
    (h : core s (.switch k g) = some s') : Inv s' := by
  obtain ⟨⟨hne, hok⟩, rfl⟩ := switch_ok_of_core h
  rcases hok with ⟨htr, hpc⟩ | ⟨htr, hpc, hm⟩
  · exact inv_switch_tr hI hk hne htr hpc
  · exact inv_switch_un hI hk hne htr hpc hm

theorem inv_destroy {s s' : St} {k g : Nat} (hI : Inv s)
    (h : core s (.destroy k g) = some s') : Inv s' := by
  simp only [core] at h
  split at h <;> simp at h
  next hc =>
    subst h
    obtain ⟨hg, hf, hpc, htr, hnb, hnh, hm⟩ := hc
    subst hg
    have hsv := hI.winC k (by simp [hm])
    have hpub := hI.winPub k (by simp [hm]) (by simp [hf, DONE, SAVING])
    have hb := hI.winBag k
    have hh := hI.winHand k
    destruct_inv hI
    inv_auto

theorem inv_core {s s' : St} {e : Ev} (hI : Inv s) (hw : e.wf = true) (h : core s e = some s') :
    Inv s' := by
  cases e with
  | create k g => exact inv_create hI h
  | spawn => simp [core] at h; subst h; destruct_inv hI; constructor <;> assumption
  | tick => simp [core] at h; subst h; exact hI
  | rqpush k q g fn =>
    simp [Ev.wf, NQ] at hw; exact inv_rqpush hI (of_decide_eq_true hw.2) h
  | rqpop k q r => simp [Ev.wf] at hw; exact inv_rqpop hI hw.1 h
  | rqsteal k q r => simp [Ev.wf] at hw; exact inv_rqsteal hI hw.1 h
  | rState k g v fn => exact inv_rState hI h
  | wState k g v fn => simp [Ev.wf] at hw; exact inv_wState hI hw h
  | switch k g => simp [Ev.wf] at hw; exact inv_switch hI hw h
  | destroy k g => exact inv_destroy hI h
  | touch k g => simp only [core] at h; split at h <;> simp at h; subst h; exact hI

theorem inv_step {s s' : St} {e : Ev} (hI : Inv s) (h : step s e = some s') : Inv s' := by
  obtain ⟨hw, hc⟩ := step_core h
  exact inv_core hI hw hc

theorem inv_of_run {es : List Ev} {s : St} (h : sys.run es = some s) : Inv s :=
  Sys.inv_of_run sys Inv inv_init (fun _ _ _ hI hs => inv_step hI hs) h

/-! ### projection of a step onto run queues and hands -/

/-- projection of one accepted step onto run queues, hands and the tracked flag -/
def Eff (s s' : St) : Ev → Prop
  | .rqpush k q g fn => k < 16 ∧ q < 32 ∧ s.tracked g = true ∧ s'.bag = upd s.bag q (g :: s.bag q) ∧
      s'.tracked = s.tracked ∧
      ((fn = .wake ∧ s'.tpc = s.tpc) ∨
       (fn = .next ∧ s.tpc k = .requeue g ∧ s'.tpc = upd s.tpc k .run) ∨
       (fn = .other ∧ s.tpc k = .stolen g ∧ s'.tpc = upd s.tpc k .run))
  | .rqpop k q (some g) => k < 16 ∧ q < 32 ∧ g ∈ s.bag q ∧ s.tpc k = .run ∧
      s'.bag = upd s.bag q ((s.bag q).erase g) ∧ s'.tpc = upd s.tpc k (.held g) ∧ s'.tracked = s.tracked
  | .rqsteal k q (some g) => k < 16 ∧ q < 32 ∧ g ∈ s.bag q ∧ s.tpc k = .run ∧
      s'.bag = upd s.bag q ((s.bag q).erase g) ∧ s'.tpc = upd s.tpc k (.stolen g) ∧ s'.tracked = s.tracked
  | .switch k g => k < 16 ∧ s'.bag = s.bag ∧ s'.tracked = s.tracked ∧ s'.tpc = upd s.tpc k .run ∧
      ((s.tracked g = true ∧ s.tpc k = .armed g) ∨ (s.tracked g = false ∧ s.tpc k = .run))
  | .rState k g _ _ => s'.bag = s.bag ∧ s'.tracked = s.tracked ∧
      (s'.tpc = s.tpc ∨ (k < 16 ∧ s.tpc k = .held g ∧
        (s'.tpc = upd s.tpc k (.requeue g) ∨ s'.tpc = upd s.tpc k (.checked g))))
  | .wState k g _ _ => s'.bag = s.bag ∧ s'.tracked = s.tracked ∧
      (s'.tpc = s.tpc ∨ (k < 16 ∧ s.tpc k = .checked g ∧ s'.tpc = upd s.tpc k (.armed g)))
  | .create _ g => s.ctx g = .none ∧ s'.bag = s.bag ∧ s'.tpc = s.tpc ∧
      (∀ x, x ≠ g → s'.tracked x = s.tracked x)
  | _ => s'.bag = s.bag ∧ s'.tpc = s.tpc ∧ s'.tracked = s.tracked

theorem eff_of_step {s s' : St} {e : Ev} (h : step s e = some s') : Eff s s' e := by
  obtain ⟨hw, h⟩ := step_core h
  cases e with
  | create k g =>
    simp only [core] at h; split at h <;> simp at h; subst h
    simp [Eff, *]; intro x hx; simp [upd, hx]
  | spawn => simp [core] at h; subst h; simp [Eff]
  | tick => simp [core] at h; subst h; simp [Eff]
  | rqpush k q g fn =>
    simp only [Ev.wf, Bool.and_eq_true, decide_eq_true_eq] at hw; simp only [NQ] at hw
    simp only [core] at h
    (repeat' split at h) <;> simp at h <;> subst h <;> simp_all [Eff]
  | rqpop k q r =>
    simp only [Ev.wf, Bool.and_eq_true, decide_eq_true_eq] at hw; simp only [NQ] at hw
    simp only [core] at h
    (repeat' split at h) <;> simp at h <;> subst h <;> simp_all [Eff]
  | rqsteal k q r =>
    simp only [Ev.wf, Bool.and_eq_true, decide_eq_true_eq] at hw; simp only [NQ] at hw
    simp only [core] at h
    (repeat' split at h) <;> simp at h <;> subst h <;> simp_all [Eff]
  | rState k g v fn =>
    simp only [Ev.wf, decide_eq_true_eq] at hw
    simp only [core] at h
    (repeat' split at h) <;> simp at h <;> subst h <;> simp_all [Eff]
  | wState k g v fn =>
    simp only [Ev.wf, decide_eq_true_eq] at hw
    simp only [core] at h
    (repeat' split at h) <;> simp at h <;> subst h <;> simp_all [Eff]
  | switch k g =>
    simp [Ev.wf] at hw
    obtain ⟨⟨-, hok⟩, rfl⟩ := switch_ok_of_core h
    simp only [Eff]
    refine ⟨hw, trivial, trivial, trivial, ?_⟩
    rcases hok with h1 | h1
    · exact Or.inl h1
    · exact Or.inr ⟨h1.1, h1.2.1⟩
  | destroy k g =>
    simp only [core] at h; split at h <;> simp at h; subst h
    simp [Eff]
  | touch k g =>
    simp only [core] at h; split at h <;> simp at h; subst h
    simp [Eff]


/-! ### counting places -/

/-- Σ_{j<n} c (f j) -/
def sumTo {α : Type} (n : Nat) (f : Nat → α) (c : α → Nat) : Nat :=
  ((List.range n).map (fun j => c (f j))).sum

theorem sumTo_succ {α : Type} (n : Nat) (f : Nat → α) (c : α → Nat) :
    sumTo (n + 1) f c = sumTo n f c + c (f n) := by
  simp [sumTo, List.range_succ]

theorem sumTo_upd {α : Type} (n : Nat) (f : Nat → α) (c : α → Nat) (i : Nat) (v : α) (hi : i < n) :
    sumTo n (upd f i v) c + c (f i) = sumTo n f c + c v := by
  induction n with
  | zero => omega
  | succ n ih =>
    rw [sumTo_succ, sumTo_succ]
    by_cases h : i = n
    · subst h
      have : sumTo i (upd f i v) c = sumTo i f c := by
        clear ih hi
        simp only [sumTo]
        congr 1
        apply List.map_congr_left
        intro j hj
        simp at hj
        have : j ≠ i := by omega
        simp [upd, this]
      simp [this]; omega
    · have := ih (by omega)
      simp [upd_other _ _ _ _ (Ne.symm h)]
      omega

theorem sumTo_zero {α : Type} (n : Nat) (f : Nat → α) (c : α → Nat) (h : ∀ j, j < n → c (f j) = 0) :
    sumTo n f c = 0 := by
  induction n with
  | zero => rfl
  | succ n ih => rw [sumTo_succ, ih (fun j hj => h j (by omega)), h n (by omega)]

theorem sumTo_pos {α : Type} (n : Nat) (f : Nat → α) (c : α → Nat) (h : 0 < sumTo n f c) :
    ∃ j, j < n ∧ 0 < c (f j) := by
  induction n with
  | zero => simp [sumTo] at h
  | succ n ih =>
    rw [sumTo_succ] at h
    by_cases hn : 0 < c (f n)
    · exact ⟨n, by omega, hn⟩
    · obtain ⟨j, hj, hc⟩ := ih (by omega)
      exact ⟨j, by omega, hc⟩

theorem sumTo_le_one {α : Type} (n : Nat) (f : Nat → α) (c : α → Nat)
    (h1 : ∀ j, j < n → c (f j) ≤ 1)
    (hu : ∀ i j, i < n → j < n → 0 < c (f i) → 0 < c (f j) → i = j) : sumTo n f c ≤ 1 := by
  induction n with
  | zero => simp [sumTo]
  | succ n ih =>
    rw [sumTo_succ]
    by_cases hn : 0 < c (f n)
    · have : sumTo n f c = 0 := by
        apply sumTo_zero
        intro j hj
        by_cases hj0 : 0 < c (f j)
        · have := hu j n (by omega) (by omega) hj0 hn; omega
        · omega
      have := h1 n (by omega); omega
    · have := ih (fun j hj => h1 j (by omega)) (fun i j hi hj => hu i j (by omega) (by omega))
      omega

/-- number of run-queue entries holding g (over all 32 queues, with multiplicity) -/
def bagCnt (b : Nat → List Nat) (g : Nat) : Nat := sumTo NQ b (fun l => l.count g)

/-- 1 if the hand holds g -/
def hc (g : Nat) (p : TPc) : Nat := if p.fib = some g then 1 else 0

/-- number of kernel threads holding g in their hand -/
def handCnt (t : Nat → TPc) (g : Nat) : Nat := sumTo 16 t (hc g)

/-- number of places g is in -/
def places (s : St) (g : Nat) : Nat := bagCnt s.bag g + handCnt s.tpc g

theorem bagCnt_cons (b : Nat → List Nat) (q x g : Nat) (hq : q < 32) :
    bagCnt (upd b q (x :: b q)) g = bagCnt b g + (if x = g then 1 else 0) := by
  have := sumTo_upd NQ b (fun l => l.count g) q (x :: b q) hq
  simp only [bagCnt]
  simp only [List.count_cons] at this
  by_cases h : x = g <;> simp [h] at this ⊢ <;> omega

theorem bagCnt_erase (b : Nat → List Nat) (q x g : Nat) (hq : q < 32) (hx : x ∈ b q) :
    bagCnt (upd b q ((b q).erase x)) g + (if x = g then 1 else 0) = bagCnt b g := by
  have := sumTo_upd NQ b (fun l => l.count g) q ((b q).erase x) hq
  simp only [bagCnt]
  simp only [List.count_erase] at this
  by_cases h : x = g
  · subst h
    have hpos : 0 < (b q).count x := List.count_pos_iff.mpr hx
    simp at this ⊢; omega
  · simp [h] at this ⊢; omega

theorem handCnt_upd (t : Nat → TPc) (k g : Nat) (p : TPc) (hk : k < 16) :
    handCnt (upd t k p) g + hc g (t k) = handCnt t g + hc g p :=
  sumTo_upd 16 t (hc g) k p hk

theorem places_le_one {s : St} (hI : Inv s) (g : Nat) : places s g ≤ 1 := by
  have hb : bagCnt s.bag g ≤ 1 := by
    apply sumTo_le_one
    · intro j _; exact List.nodup_iff_count.mp (hI.nodup j) g
    · intro i j _ _ hi hj
      exact hI.bagbag i j g (List.count_pos_iff.mp hi) (List.count_pos_iff.mp hj)
  have hh : handCnt s.tpc g ≤ 1 := by
    apply sumTo_le_one
    · intro j _; simp only [hc]; split <;> omega
    · intro i j _ _ hi hj
      simp only [hc] at hi hj
      split at hi <;> split at hj <;> simp at hi hj
      exact hI.handhand i j g (by assumption) (by assumption)
  by_cases hpos : 0 < bagCnt s.bag g
  · obtain ⟨q, _, hq⟩ := sumTo_pos _ _ _ hpos
    have : handCnt s.tpc g = 0 := by
      apply sumTo_zero
      intro k _
      simp only [hc]
      split
      · exact absurd (by assumption) (hI.baghand q k g (List.count_pos_iff.mp hq))
      · rfl
    simp only [places]; omega
  · simp only [places]; omega

theorem bagCnt_zero {s : St} {g : Nat} (h : ∀ q, g ∉ s.bag q) : bagCnt s.bag g = 0 :=
  sumTo_zero _ _ _ (fun q _ => List.count_eq_zero.mpr (h q))

theorem handCnt_zero {s : St} {g : Nat} (h : ∀ k, (s.tpc k).fib ≠ some g) : handCnt s.tpc g = 0 :=
  sumTo_zero _ _ _ (fun k _ => by simp [hc, h k])

theorem places_pos {s : St} {g : Nat} (hI : Inv s) (h : 0 < places s g) : Q s g := by
  simp only [places] at h
  by_cases hb : 0 < bagCnt s.bag g
  · obtain ⟨q, _, hq⟩ := sumTo_pos _ _ _ hb
    exact hI.bagQ q g (List.count_pos_iff.mp hq)
  · obtain ⟨k, _, hk⟩ := sumTo_pos _ _ _ (show 0 < handCnt s.tpc g by omega)
    simp only [hc] at hk
    split at hk
    · exact hI.handQ k g (by assumption)
    · omega

/-! ### event counters -/

def cnt (p : Ev → Bool) (es : List Ev) : Nat := es.countP p

theorem cnt_snoc (p : Ev → Bool) (es : List Ev) (e : Ev) :
    cnt p (es ++ [e]) = cnt p es + (if p e then 1 else 0) := by
  simp [cnt, List.countP_append, List.countP_cons]

/-- a wake-up: `fiber_scheduler_schedule` of g by a creator, a waker or maintenance -/
def isWake (g : Nat) : Ev → Bool
  | .rqpush _ _ x .wake => x == g
  | _ => false
/-- any push of g (wake-up, SAVING re-queue, load-balance re-push) -/
def isPush (g : Nat) : Ev → Bool
  | .rqpush _ _ x _ => x == g
  | _ => false
/-- a pop or steal returning g -/
def isTake (g : Nat) : Ev → Bool
  | .rqpop _ _ (some x) => x == g
  | .rqsteal _ _ (some x) => x == g
  | _ => false
/-- a context switch to g -/
def isSwitch (g : Nat) : Ev → Bool
  | .switch _ x => x == g
  | _ => false
def isPopBy (k g : Nat) : Ev → Bool
  | .rqpop k' _ (some x) => k' == k && x == g
  | _ => false
def isSwitchBy (k g : Nat) : Ev → Bool
  | .switch k' x => k' == k && x == g
  | _ => false
def isRequeueBy (k g : Nat) : Ev → Bool
  | .rqpush k' _ x .next => k' == k && x == g
  | _ => false
/-- any run-queue or switch event about g -/
def isAbout (g : Nat) : Ev → Bool
  | .rqpush _ _ x _ => x == g
  | .rqpop _ _ (some x) => x == g
  | .rqsteal _ _ (some x) => x == g
  | .switch _ x => x == g
  | _ => false

/-- 1 if the hand holds g as the result of a POP (not of a steal) -/
def popHand (g : Nat) : TPc → Nat
  | .held h => if h = g then 1 else 0
  | .requeue h => if h = g then 1 else 0
  | .checked h => if h = g then 1 else 0
  | .armed h => if h = g then 1 else 0
  | _ => 0

theorem ctx_none_back {s s' : St} {e : Ev} (h : step s e = some s') (g : Nat)
    (hn : s'.ctx g = .none) : s.ctx g = .none := by
  obtain ⟨-, h⟩ := step_core h
  cases e <;> simp only [core] at h <;> (repeat' split at h) <;> simp at h <;> subst h <;>
    (first | exact hn | (simp only [upd] at hn; grind))

theorem about_not_none {s s' : St} {e : Ev} (hI : Inv s) (h : step s e = some s') (g : Nat)
    (ha : isAbout g e = true) : s.ctx g ≠ .none := by
  have hE := eff_of_step h
  intro hn
  have htr := (hI.cnone g hn).2.2
  cases e with
  | rqpush k q x fn =>
    simp [isAbout] at ha; subst ha
    simp only [Eff] at hE; simp [hE.2.2.1] at htr
  | rqpop k q r =>
    cases r with
    | none => simp [isAbout] at ha
    | some x =>
      simp [isAbout] at ha; subst ha
      simp only [Eff] at hE
      have := (hI.bagQ q x hE.2.2.1).1; simp [this] at htr
  | rqsteal k q r =>
    cases r with
    | none => simp [isAbout] at ha
    | some x =>
      simp [isAbout] at ha; subst ha
      simp only [Eff] at hE
      have := (hI.bagQ q x hE.2.2.1).1; simp [this] at htr
  | switch k x =>
    simp [isAbout] at ha; subst ha
    obtain ⟨hw, hc⟩ := step_core h
    simp [Ev.wf] at hw
    have := switch_target hI hw (switch_ok_of_core hc).1
    simp [hn] at this
  | _ => simp [isAbout] at ha

theorem cnt_mono {p q : Ev → Bool} (h : ∀ e, p e = true → q e = true) (es : List Ev) :
    cnt p es ≤ cnt q es := List.countP_mono_left (fun e _ => h e)

theorem cnt_zero_of_about {p : Ev → Bool} {g : Nat} {es : List Ev}
    (h : ∀ e, p e = true → isAbout g e = true) (h0 : cnt (isAbout g) es = 0) : cnt p es = 0 := by
  have := cnt_mono h es; omega

theorem wake_about (g : Nat) (e : Ev) (h : isWake g e = true) : isAbout g e = true := by
  cases e <;> simp [isWake, isAbout] at h ⊢
  next k q x fn => cases fn <;> simp at h <;> exact h
theorem switch_about (g : Nat) (e : Ev) (h : isSwitch g e = true) : isAbout g e = true := by
  cases e <;> simp [isSwitch, isAbout] at h ⊢; exact h
theorem popBy_about (k g : Nat) (e : Ev) (h : isPopBy k g e = true) : isAbout g e = true := by
  cases e <;> simp [isPopBy, isAbout] at h ⊢
  next k q r => cases r <;> simp at h ⊢; exact h.2
theorem switchBy_about (k g : Nat) (e : Ev) (h : isSwitchBy k g e = true) : isAbout g e = true := by
  cases e <;> simp [isSwitchBy, isAbout] at h ⊢; exact h.2
theorem requeueBy_about (k g : Nat) (e : Ev) (h : isRequeueBy k g e = true) : isAbout g e = true := by
  cases e <;> simp [isRequeueBy, isAbout] at h ⊢
  next k q x fn => cases fn <;> simp at h <;> exact h.2

theorem popHand_le_hc (g : Nat) (p : TPc) : popHand g p ≤ hc g p := by
  cases p <;> simp [popHand, hc, TPc.fib]

/-- the history invariant: token conservation -/
structure Hist (s : St) (es : List Ev) : Prop where
  token : ∀ g, cnt (isPush g) es = cnt (isTake g) es + bagCnt s.bag g
  fresh : ∀ g, s.ctx g = .none → cnt (isAbout g) es = 0
  wake : ∀ g, s.tracked g = true → cnt (isWake g) es = cnt (isSwitch g) es + places s g
  pops : ∀ g k, s.tracked g = true →
    cnt (isPopBy k g) es = cnt (isSwitchBy k g) es + cnt (isRequeueBy k g) es + popHand g (s.tpc k)

theorem hist_init : Hist init [] := by
  constructor
  · intro g
    rw [bagCnt_zero (s := init) (by intro q; simp [init])]; simp [cnt]
  · intro g _; simp [cnt]
  · intro g _
    rw [places, bagCnt_zero (s := init) (by intro q; simp [init]),
      handCnt_zero (s := init) (by intro k; simp [init, TPc.fib])]
    simp [cnt]
  · intro g k _; simp [cnt, init, popHand]

theorem places_none {s : St} (hI : Inv s) {g : Nat} (hn : s.ctx g = .none) : places s g = 0 := by
  by_cases h : 0 < places s g
  · have := (places_pos hI h).1
    simp [(hI.cnone g hn).2.2] at this
  · omega

theorem hist_token {s s' : St} {es : List Ev} {e : Ev} (hH : Hist s es)
    (hE : Eff s s' e) (g : Nat) :
    cnt (isPush g) (es ++ [e]) = cnt (isTake g) (es ++ [e]) + bagCnt s'.bag g := by
  rw [cnt_snoc, cnt_snoc]
  have h0 := hH.token g
  cases e with
  | rqpush k q x fn =>
    simp only [Eff] at hE
    obtain ⟨-, hq, -, hb, -, -⟩ := hE
    rw [hb, bagCnt_cons _ _ _ _ hq]
    simp [isPush, isTake]; omega
  | rqpop k q r =>
    cases r with
    | none => simp only [Eff] at hE; simp [isPush, isTake, hE.1]; omega
    | some x =>
      simp only [Eff] at hE
      obtain ⟨-, hq, hx, -, hb, -, -⟩ := hE
      have := bagCnt_erase s.bag q x g hq hx
      rw [hb]
      simp [isPush, isTake]; omega
  | rqsteal k q r =>
    cases r with
    | none => simp only [Eff] at hE; simp [isPush, isTake, hE.1]; omega
    | some x =>
      simp only [Eff] at hE
      obtain ⟨-, hq, hx, -, hb, -, -⟩ := hE
      have := bagCnt_erase s.bag q x g hq hx
      rw [hb]
      simp [isPush, isTake]; omega
  | switch k x => simp only [Eff] at hE; simp [isPush, isTake, hE.2.1]; omega
  | rState k x v fn => simp only [Eff] at hE; simp [isPush, isTake, hE.1]; omega
  | wState k x v fn => simp only [Eff] at hE; simp [isPush, isTake, hE.1]; omega
  | create k x => simp only [Eff] at hE; simp [isPush, isTake, hE.2.1]; omega
  | spawn => simp only [Eff] at hE; simp [isPush, isTake, hE.1]; omega
  | tick => simp only [Eff] at hE; simp [isPush, isTake, hE.1]; omega
  | destroy k x => simp only [Eff] at hE; simp [isPush, isTake, hE.1]; omega
  | touch k x => simp only [Eff] at hE; simp [isPush, isTake, hE.1]; omega

theorem hist_fresh {s s' : St} {es : List Ev} {e : Ev} (hI : Inv s) (hH : Hist s es)
    (hs : step s e = some s') (g : Nat) (hn : s'.ctx g = .none) :
    cnt (isAbout g) (es ++ [e]) = 0 := by
  have hn0 := ctx_none_back hs g hn
  rw [cnt_snoc, hH.fresh g hn0]
  by_cases ha : isAbout g e = true
  · exact absurd hn0 (about_not_none hI hs g ha)
  · simp [ha]

theorem hist_wake {s s' : St} {es : List Ev} {e : Ev} (hI : Inv s) (hH : Hist s es)
    (hE : Eff s s' e) (g : Nat) (htr : s'.tracked g = true) :
    cnt (isWake g) (es ++ [e]) = cnt (isSwitch g) (es ++ [e]) + places s' g := by
  rw [cnt_snoc, cnt_snoc]
  cases e with
  | rqpush k q x fn =>
    simp only [Eff] at hE
    obtain ⟨hk, hq, -, hb, ht, hfn⟩ := hE
    rw [ht] at htr
    have h0 := hH.wake g htr
    simp only [places] at h0 ⊢
    rw [hb, bagCnt_cons _ _ _ _ hq]
    rcases hfn with ⟨hfn, hp⟩ | ⟨hfn, hpc, hp⟩ | ⟨hfn, hpc, hp⟩
    · subst hfn; rw [hp]; simp [isWake, isSwitch]; omega
    · subst hfn
      have := handCnt_upd s.tpc k g .run hk
      rw [hp]; simp [hpc, hc, TPc.fib] at this
      simp [isWake, isSwitch]; omega
    · subst hfn
      have := handCnt_upd s.tpc k g .run hk
      rw [hp]; simp [hpc, hc, TPc.fib] at this
      simp [isWake, isSwitch]; omega
  | rqpop k q r =>
    cases r with
    | none =>
      simp only [Eff] at hE; rw [hE.2.2] at htr
      have h0 := hH.wake g htr
      simp [isWake, isSwitch, places, hE.1, hE.2.1] at h0 ⊢; omega
    | some x =>
      simp only [Eff] at hE
      obtain ⟨hk, hq, hx, hpc, hb, hp, ht⟩ := hE
      rw [ht] at htr
      have h0 := hH.wake g htr
      simp only [places] at h0 ⊢
      have h1 := bagCnt_erase s.bag q x g hq hx
      have h2 := handCnt_upd s.tpc k g (.held x) hk
      rw [hb, hp]; simp [hpc, hc, TPc.fib] at h2
      simp [isWake, isSwitch]; omega
  | rqsteal k q r =>
    cases r with
    | none =>
      simp only [Eff] at hE; rw [hE.2.2] at htr
      have h0 := hH.wake g htr
      simp [isWake, isSwitch, places, hE.1, hE.2.1] at h0 ⊢; omega
    | some x =>
      simp only [Eff] at hE
      obtain ⟨hk, hq, hx, hpc, hb, hp, ht⟩ := hE
      rw [ht] at htr
      have h0 := hH.wake g htr
      simp only [places] at h0 ⊢
      have h1 := bagCnt_erase s.bag q x g hq hx
      have h2 := handCnt_upd s.tpc k g (.stolen x) hk
      rw [hb, hp]; simp [hpc, hc, TPc.fib] at h2
      simp [isWake, isSwitch]; omega
  | switch k x =>
    simp only [Eff] at hE
    obtain ⟨hk, hb, ht, hp, hc'⟩ := hE
    rw [ht] at htr
    have h0 := hH.wake g htr
    simp only [places] at h0 ⊢
    have h2 := handCnt_upd s.tpc k g .run hk
    rw [hb, hp]
    rcases hc' with ⟨-, hpc⟩ | ⟨hxt, hpc⟩
    · simp [hpc, hc, TPc.fib] at h2
      simp [isWake, isSwitch]; omega
    · simp [hpc, hc, TPc.fib] at h2
      have : x ≠ g := by intro h; subst h; simp [hxt] at htr
      simp [isWake, isSwitch, this]; omega
  | rState k x v fn =>
    simp only [Eff] at hE
    obtain ⟨hb, ht, hp⟩ := hE
    rw [ht] at htr
    have h0 := hH.wake g htr
    simp only [places] at h0 ⊢
    rw [hb]
    rcases hp with hp | ⟨hk, hpc, hp | hp⟩
    · rw [hp]; simp [isWake, isSwitch]; omega
    · have h2 := handCnt_upd s.tpc k g (.requeue x) hk
      rw [hp]; simp [hpc, hc, TPc.fib] at h2
      simp [isWake, isSwitch]; omega
    · have h2 := handCnt_upd s.tpc k g (.checked x) hk
      rw [hp]; simp [hpc, hc, TPc.fib] at h2
      simp [isWake, isSwitch]; omega
  | wState k x v fn =>
    simp only [Eff] at hE
    obtain ⟨hb, ht, hp⟩ := hE
    rw [ht] at htr
    have h0 := hH.wake g htr
    simp only [places] at h0 ⊢
    rw [hb]
    rcases hp with hp | ⟨hk, hpc, hp⟩
    · rw [hp]; simp [isWake, isSwitch]; omega
    · have h2 := handCnt_upd s.tpc k g (.armed x) hk
      rw [hp]; simp [hpc, hc, TPc.fib] at h2
      simp [isWake, isSwitch]; omega
  | create k x =>
    simp only [Eff] at hE
    obtain ⟨hn, hb, hp, ht⟩ := hE
    have hpl : places s' g = places s g := by simp [places, hb, hp]
    rw [hpl]
    by_cases hx : g = x
    · subst hx
      have hz := hH.fresh g hn
      rw [cnt_zero_of_about (wake_about g) hz, cnt_zero_of_about (switch_about g) hz,
        places_none hI hn]
      simp [isWake, isSwitch]
    · rw [ht g hx] at htr
      have h0 := hH.wake g htr
      simp [isWake, isSwitch]; omega
  | spawn =>
    simp only [Eff] at hE; rw [hE.2.2] at htr
    have h0 := hH.wake g htr
    simp [isWake, isSwitch, places, hE.1, hE.2.1] at h0 ⊢; omega
  | tick =>
    simp only [Eff] at hE; rw [hE.2.2] at htr
    have h0 := hH.wake g htr
    simp [isWake, isSwitch, places, hE.1, hE.2.1] at h0 ⊢; omega
  | destroy k x =>
    simp only [Eff] at hE; rw [hE.2.2] at htr
    have h0 := hH.wake g htr
    simp [isWake, isSwitch, places, hE.1, hE.2.1] at h0 ⊢; omega
  | touch k x =>
    simp only [Eff] at hE; rw [hE.2.2] at htr
    have h0 := hH.wake g htr
    simp [isWake, isSwitch, places, hE.1, hE.2.1] at h0 ⊢; omega

theorem popHand_none {s : St} (hI : Inv s) {g : Nat} (hn : s.ctx g = .none) (k : Nat) :
    popHand g (s.tpc k) = 0 := by
  have h1 := popHand_le_hc g (s.tpc k)
  by_cases h : (s.tpc k).fib = some g
  · have := (hI.handQ k g h).1
    simp [(hI.cnone g hn).2.2] at this
  · simp [hc, h] at h1; omega

theorem hist_pops {s s' : St} {es : List Ev} {e : Ev} (hI : Inv s) (hH : Hist s es)
    (hE : Eff s s' e) (g k : Nat) (htr : s'.tracked g = true) :
    cnt (isPopBy k g) (es ++ [e]) =
      cnt (isSwitchBy k g) (es ++ [e]) + cnt (isRequeueBy k g) (es ++ [e]) + popHand g (s'.tpc k) := by
  rw [cnt_snoc, cnt_snoc, cnt_snoc]
  cases e with
  | rqpush k' q x fn =>
    simp only [Eff] at hE
    obtain ⟨-, -, -, -, ht, hfn⟩ := hE
    rw [ht] at htr
    have h0 := hH.pops g k htr
    rcases hfn with ⟨hfn, hp⟩ | ⟨hfn, hpc, hp⟩ | ⟨hfn, hpc, hp⟩
    · subst hfn; rw [hp]; simp [isPopBy, isSwitchBy, isRequeueBy]; omega
    · subst hfn; rw [hp]
      by_cases hkk : k' = k
      · subst hkk; simp [hpc, popHand] at h0; simp [isPopBy, isSwitchBy, isRequeueBy, popHand]; omega
      · simp [isPopBy, isSwitchBy, isRequeueBy, upd, hkk, Ne.symm hkk]; omega
    · subst hfn; rw [hp]
      by_cases hkk : k' = k
      · subst hkk; simp [hpc, popHand] at h0; simp [isPopBy, isSwitchBy, isRequeueBy, popHand]; omega
      · simp [isPopBy, isSwitchBy, isRequeueBy, upd, hkk, Ne.symm hkk]; omega
  | rqpop k' q r =>
    cases r with
    | none =>
      simp only [Eff] at hE; rw [hE.2.2] at htr
      have h0 := hH.pops g k htr
      simp [isPopBy, isSwitchBy, isRequeueBy, hE.2.1]; omega
    | some x =>
      simp only [Eff] at hE
      obtain ⟨-, -, -, hpc, -, hp, ht⟩ := hE
      rw [ht] at htr
      have h0 := hH.pops g k htr
      rw [hp]
      by_cases hkk : k' = k
      · subst hkk; simp [hpc, popHand] at h0; simp [isPopBy, isSwitchBy, isRequeueBy, popHand]; omega
      · simp [isPopBy, isSwitchBy, isRequeueBy, upd, hkk, Ne.symm hkk]; omega
  | rqsteal k' q r =>
    cases r with
    | none =>
      simp only [Eff] at hE; rw [hE.2.2] at htr
      have h0 := hH.pops g k htr
      simp [isPopBy, isSwitchBy, isRequeueBy, hE.2.1]; omega
    | some x =>
      simp only [Eff] at hE
      obtain ⟨-, -, -, hpc, -, hp, ht⟩ := hE
      rw [ht] at htr
      have h0 := hH.pops g k htr
      rw [hp]
      by_cases hkk : k' = k
      · subst hkk; simp [hpc, popHand] at h0; simp [isPopBy, isSwitchBy, isRequeueBy, popHand]; omega
      · simp [isPopBy, isSwitchBy, isRequeueBy, upd, hkk, Ne.symm hkk]; omega
  | switch k' x =>
    simp only [Eff] at hE
    obtain ⟨-, -, ht, hp, hc'⟩ := hE
    rw [ht] at htr
    have h0 := hH.pops g k htr
    rw [hp]
    by_cases hkk : k' = k
    · subst hkk
      rcases hc' with ⟨-, hpc⟩ | ⟨hxt, hpc⟩
      · simp [hpc, popHand] at h0; simp [isPopBy, isSwitchBy, isRequeueBy, popHand]; omega
      · have : x ≠ g := by intro h; subst h; simp [hxt] at htr
        simp [hpc, popHand] at h0; simp [isPopBy, isSwitchBy, isRequeueBy, popHand, this]; omega
    · simp [isPopBy, isSwitchBy, isRequeueBy, upd, hkk, Ne.symm hkk]; omega
  | rState k' x v fn =>
    simp only [Eff] at hE
    obtain ⟨-, ht, hp⟩ := hE
    rw [ht] at htr
    have h0 := hH.pops g k htr
    rcases hp with hp | ⟨-, hpc, hp | hp⟩
    · rw [hp]; simp [isPopBy, isSwitchBy, isRequeueBy]; omega
    · rw [hp]
      by_cases hkk : k' = k
      · subst hkk; simp [hpc, popHand] at h0; simp [isPopBy, isSwitchBy, isRequeueBy, popHand]; omega
      · simp [isPopBy, isSwitchBy, isRequeueBy, upd, hkk, Ne.symm hkk]; omega
    · rw [hp]
      by_cases hkk : k' = k
      · subst hkk; simp [hpc, popHand] at h0; simp [isPopBy, isSwitchBy, isRequeueBy, popHand]; omega
      · simp [isPopBy, isSwitchBy, isRequeueBy, upd, hkk, Ne.symm hkk]; omega
  | wState k' x v fn =>
    simp only [Eff] at hE
    obtain ⟨-, ht, hp⟩ := hE
    rw [ht] at htr
    have h0 := hH.pops g k htr
    rcases hp with hp | ⟨-, hpc, hp⟩
    · rw [hp]; simp [isPopBy, isSwitchBy, isRequeueBy]; omega
    · rw [hp]
      by_cases hkk : k' = k
      · subst hkk; simp [hpc, popHand] at h0; simp [isPopBy, isSwitchBy, isRequeueBy, popHand]; omega
      · simp [isPopBy, isSwitchBy, isRequeueBy, upd, hkk, Ne.symm hkk]; omega
  | create k' x =>
    simp only [Eff] at hE
    obtain ⟨hn, -, hp, ht⟩ := hE
    rw [hp]
    by_cases hx : g = x
    · subst hx
      have hz := hH.fresh g hn
      rw [cnt_zero_of_about (popBy_about k g) hz, cnt_zero_of_about (switchBy_about k g) hz,
        cnt_zero_of_about (requeueBy_about k g) hz, popHand_none hI hn]
      simp [isPopBy, isSwitchBy, isRequeueBy]
    · rw [ht g hx] at htr
      have h0 := hH.pops g k htr
      simp [isPopBy, isSwitchBy, isRequeueBy]; omega
  | spawn =>
    simp only [Eff] at hE; rw [hE.2.2] at htr
    have h0 := hH.pops g k htr
    simp [isPopBy, isSwitchBy, isRequeueBy, hE.2.1]; omega
  | tick =>
    simp only [Eff] at hE; rw [hE.2.2] at htr
    have h0 := hH.pops g k htr
    simp [isPopBy, isSwitchBy, isRequeueBy, hE.2.1]; omega
  | destroy k' x =>
    simp only [Eff] at hE; rw [hE.2.2] at htr
    have h0 := hH.pops g k htr
    simp [isPopBy, isSwitchBy, isRequeueBy, hE.2.1]; omega
  | touch k' x =>
    simp only [Eff] at hE; rw [hE.2.2] at htr
    have h0 := hH.pops g k htr
    simp [isPopBy, isSwitchBy, isRequeueBy, hE.2.1]; omega

theorem hist_step {s s' : St} {es : List Ev} {e : Ev} (hI : Inv s) (hH : Hist s es)
    (hs : step s e = some s') : Hist s' (es ++ [e]) := by
  have hE := eff_of_step hs
  exact ⟨hist_token hH hE, hist_fresh hI hH hs, hist_wake hI hH hE, fun g k => hist_pops hI hH hE g k⟩

theorem inv_hist_of_run {es : List Ev} {s : St} (h : sys.run es = some s) : Inv s ∧ Hist s es :=
  Sys.hist_inv_of_run sys (fun s es => Inv s ∧ Hist s es) ⟨inv_init, hist_init⟩
    (fun _ _ _ _ hI hs => ⟨inv_step hI.1 hs, hist_step hI.1 hI.2 hs⟩) h

/-! ### C01 helpers: who runs where, dead fibers -/

theorem cur_step {s s' : St} {e : Ev} {k : Nat} (h : step s e = some s')
    (hne : ∀ x, e ≠ .switch k x) : s'.cur k = s.cur k := by
  obtain ⟨-, h⟩ := step_core h
  cases e with
  | switch k' x =>
    obtain ⟨-, rfl⟩ := switch_ok_of_core h
    have : k ≠ k' := by intro hk; subst hk; exact hne x rfl
    simp [upd, this]
  | _ =>
    simp only [core] at h <;> (repeat' split at h) <;> simp at h <;> subst h <;> rfl

theorem cur_runFrom {s s2 : St} {mid : List Ev} {k : Nat} (h : sys.runFrom s mid = some s2)
    (hno : ∀ x, Ev.switch k x ∉ mid) : s2.cur k = s.cur k := by
  induction mid generalizing s with
  | nil => simp [Sys.runFrom] at h; subst h; rfl
  | cons e es ih =>
    simp only [Sys.runFrom] at h
    cases hst : sys.step s e with
    | none => simp [hst] at h
    | some s1 =>
      simp [hst] at h
      have h1 := ih h (fun x hx => hno x (List.mem_cons_of_mem _ hx))
      have h2 := cur_step (k := k) hst (fun x hx => hno x (by simp [hx]))
      rw [h1, h2]

/-- the events that name fiber g (`touch` = any access to another field of its control block) -/
def mentions (g : Nat) : Ev → Bool
  | .create _ x => x == g
  | .rqpush _ _ x _ => x == g
  | .rqpop _ _ (some x) => x == g
  | .rqsteal _ _ (some x) => x == g
  | .rState _ x _ _ => x == g
  | .wState _ x _ _ => x == g
  | .switch _ x => x == g
  | .destroy _ x => x == g
  | .touch _ x => x == g
  | _ => false

theorem ctx_step {s s' : St} {e : Ev} (hI : Inv s) (h : step s e = some s') (g : Nat)
    (hm : mentions g e = false) (hc : ∀ k, k < 16 → s.cur k ≠ g) : s'.ctx g = s.ctx g := by
  obtain ⟨hw, h⟩ := step_core h
  cases e with
  | switch k' x =>
    obtain ⟨-, rfl⟩ := switch_ok_of_core h
    simp [Ev.wf] at hw
    simp [mentions] at hm
    have := hc k' hw
    simp [upd, Ne.symm hm, Ne.symm this]
  | create k x =>
    simp only [core] at h; split at h <;> simp at h; subst h
    simp [mentions] at hm; simp [upd, Ne.symm hm]
  | destroy k x =>
    simp only [core] at h; split at h <;> simp at h; subst h
    simp [mentions] at hm; simp [upd, Ne.symm hm]
  | _ =>
    simp only [core] at h <;> (repeat' split at h) <;> simp at h <;> subst h <;> rfl

theorem dead_step {s s' : St} {e : Ev} {g : Nat} (hI : Inv s) (hd : s.ctx g = .dead)
    (h : step s e = some s') : s'.ctx g = .dead ∧ mentions g e = false := by
  have hI' := inv_step hI h
  have hm : mentions g e = false := by
    cases hm : mentions g e with
    | false => rfl
    | true =>
      exfalso
      obtain ⟨hw, hc⟩ := step_core h
      have hE := eff_of_step h
      cases e with
      | create k x =>
        simp [mentions] at hm; subst hm
        simp only [Eff] at hE; simp [hE.1] at hd
      | rqpush k q x fn =>
        simp [mentions] at hm; subst hm
        simp only [Eff] at hE
        have hx : x ∈ s'.bag q := by rw [hE.2.2.2.1]; simp
        have hQ := hI'.bagQ q x hx
        have : s'.ctx x = s.ctx x := by
          simp only [core] at hc
          (repeat' split at hc) <;> simp at hc <;> subst hc <;> rfl
        simp [Q, this, hd, Ctx.isRunning] at hQ
      | rqpop k q r =>
        cases r with
        | none => simp [mentions] at hm
        | some x =>
          simp [mentions] at hm; subst hm
          simp only [Eff] at hE
          have hQ := hI.bagQ q x hE.2.2.1
          simp [Q, hd, Ctx.isRunning] at hQ
      | rqsteal k q r =>
        cases r with
        | none => simp [mentions] at hm
        | some x =>
          simp [mentions] at hm; subst hm
          simp only [Eff] at hE
          have hQ := hI.bagQ q x hE.2.2.1
          simp [Q, hd, Ctx.isRunning] at hQ
      | rState k x v fn =>
        simp [mentions] at hm; subst hm
        simp only [core] at hc; simp [hd] at hc
      | wState k x v fn =>
        simp [mentions] at hm; subst hm
        simp only [core] at hc; simp [hd] at hc
      | switch k x =>
        simp [mentions] at hm; subst hm
        simp [Ev.wf] at hw
        have := switch_target hI hw (switch_ok_of_core hc).1
        simp [hd] at this
      | destroy k x =>
        simp [mentions] at hm; subst hm
        simp only [core] at hc; split at hc <;> simp at hc
        next hg =>
          have := hI.winC k (by simp [hg.2.2.2.2.2.2])
          rw [← hg.1, hd] at this; simp at this
      | touch k x =>
        simp [mentions] at hm; subst hm
        simp only [core] at hc; simp [hd] at hc
      | spawn => simp [mentions] at hm
      | tick => simp [mentions] at hm
  refine ⟨?_, hm⟩
  rw [ctx_step hI h g hm, hd]
  intro k hk hcur
  have := hI.live k hk
  rw [hcur, hd] at this; simp at this

theorem sumTo_ge {α : Type} (n : Nat) (f : Nat → α) (c : α → Nat) (j : Nat) (hj : j < n) :
    c (f j) ≤ sumTo n f c := by
  induction n with
  | zero => omega
  | succ n ih =>
    rw [sumTo_succ]
    by_cases h : j = n
    · subst h; omega
    · have := ih (by omega); omega

/-- meaning of `places`: positive iff g is in some run queue or in some thread's hand -/
theorem places_pos_iff {s : St} (hI : Inv s) (g : Nat) :
    0 < places s g ↔ (∃ q, g ∈ s.bag q) ∨ (∃ k, (s.tpc k).fib = some g) := by
  constructor
  · intro h
    simp only [places] at h
    by_cases hb : 0 < bagCnt s.bag g
    · obtain ⟨q, _, hq⟩ := sumTo_pos _ _ _ hb
      exact Or.inl ⟨q, List.count_pos_iff.mp hq⟩
    · obtain ⟨k, _, hk⟩ := sumTo_pos _ _ _ (show 0 < handCnt s.tpc g by omega)
      simp only [hc] at hk
      split at hk
      · exact Or.inr ⟨k, by assumption⟩
      · omega
  · rintro (⟨q, hq⟩ | ⟨k, hk⟩)
    · have h32 : q < 32 := by
        by_cases h : q < 32
        · exact h
        · have := hI.rngQ q (by omega); simp [this] at hq
      have := sumTo_ge NQ s.bag (fun l => l.count g) q h32
      have hp : 0 < (s.bag q).count g := List.count_pos_iff.mpr hq
      simp only [places, bagCnt]; omega
    · have h16 : k < 16 := by
        by_cases h : k < 16
        · exact h
        · have := hI.rngT k (by omega); simp [this, TPc.fib] at hk
      have := sumTo_ge 16 s.tpc (hc g) k h16
      simp only [hc, hk] at this
      simp only [places, handCnt]; simp at this; omega
end LibfiberVerif.Rt
