/-
  Proof/Rt.lean — the inductive invariant of the runtime model `Rt` (properties C01 and the
  runtime half of C02).
-/
import LibfiberVerif.Model.Rt

namespace LibfiberVerif.Rt

/-! ### small vocabulary -/

/-- the fiber a kernel thread has in its hand (popped / stolen, not yet pushed back or run) -/
def TPc.fib : TPc → Option Nat
  | .run => none
  | .held g => some g
  | .requeue g => some g
  | .checked g => some g
  | .armed g => some g
  | .stolen g => some g

def Ctx.isRunning : Ctx → Bool
  | .running _ => true
  | _ => false

/-- what is known of a fiber that sits in a run queue or in a thread's hand -/
def Q (s : St) (g : Nat) : Prop :=
  s.tracked g = true ∧ s.fst g ≠ DONE ∧
  (s.ctx g = .saved ∨ s.ctx g = .fresh ∨ (s.fst g = SAVING ∧ (s.ctx g).isRunning = true))

structure Inv (s : St) : Prop where
  live : ∀ k, k < 16 → s.ctx (s.cur k) = .running k
  liveU : ∀ g k, s.ctx g = .running k → k < 16 ∧ s.cur k = g
  rngT : ∀ k, 16 ≤ k → s.tpc k = .run
  rngQ : ∀ q, 32 ≤ q → s.bag q = []
  bagQ : ∀ q g, g ∈ s.bag q → Q s g
  handQ : ∀ k g, (s.tpc k).fib = some g → Q s g
  chk : ∀ k g, s.tpc k = .checked g → (s.ctx g = .saved ∨ s.ctx g = .fresh) ∧ s.fst g ≠ SAVING
  arm : ∀ k g, s.tpc k = .armed g → (s.ctx g = .saved ∨ s.ctx g = .fresh) ∧ s.fst g = RUNNING
  winC : ∀ k, s.mst k ≠ .idle → s.ctx (s.old k) = .saved
  winF : ∀ k, s.mst k = .flip → s.fst (s.old k) = SAVING
  winP : ∀ k, s.mst k = .push → s.fst (s.old k) = READY
  winD : ∀ k, s.mst k = .destroy → s.fst (s.old k) = DONE
  winPub : ∀ k, s.mst k ≠ .idle → s.fst (s.old k) ≠ SAVING → s.pub (s.old k) = false
  winBag : ∀ k q, s.mst k ≠ .idle → s.fst (s.old k) ≠ SAVING → s.old k ∉ s.bag q
  winHand : ∀ k k', s.mst k ≠ .idle → s.fst (s.old k) ≠ SAVING → (s.tpc k').fib ≠ some (s.old k)
  winU : ∀ k k', s.mst k ≠ .idle → s.mst k' ≠ .idle → s.old k = s.old k' → k = k'
  winM : ∀ k, s.mst k ≠ .idle → s.tracked (s.old k) = false → s.maintOf (s.old k) = k
  pubS : ∀ g, s.pub g = true → s.ctx g = .saved ∨ (s.fst g = SAVING ∧ (s.ctx g).isRunning = true)
  nodup : ∀ q, (s.bag q).Nodup
  bagbag : ∀ q q' g, g ∈ s.bag q → g ∈ s.bag q' → q = q'
  baghand : ∀ q k g, g ∈ s.bag q → (s.tpc k).fib ≠ some g
  handhand : ∀ k k' g, (s.tpc k).fib = some g → (s.tpc k').fib = some g → k = k'
  untr : ∀ g k, s.tracked g = false → s.ctx g = .running k → s.maintOf g = k
  cnone : ∀ g, s.ctx g = .none → 16 ≤ g ∧ s.maintOf g = g ∧ s.tracked g = false
  cdead : ∀ g, s.ctx g = .dead → s.tracked g = true

theorem inv_init : Inv init := by
  constructor <;> simp [init, Q, TPc.fib] <;> grind

theorem heldBy_iff (s : St) (g : Nat) :
    heldBy s g = true ↔ ∃ k, k < 16 ∧ (s.tpc k).fib = some g := by
  simp only [heldBy, List.any_eq_true, List.mem_range]
  constructor
  · rintro ⟨k, hk, h⟩
    refine ⟨k, hk, ?_⟩
    cases hp : s.tpc k <;> simp [hp, TPc.fib] at h ⊢ <;> exact h
  · rintro ⟨k, hk, h⟩
    refine ⟨k, hk, ?_⟩
    cases hp : s.tpc k <;> simp [hp, TPc.fib] at h ⊢ <;> exact h

theorem inSomeBag_iff (s : St) (g : Nat) (n : Nat) :
    inSomeBag s g n = true ↔ ∃ q, q < n ∧ g ∈ s.bag q := by
  simp [inSomeBag]

theorem nowhere_of_guards {s : St} (hI : Inv s) {g : Nat}
    (hb : ¬ inSomeBag s g NQ = true) (hh : ¬ heldBy s g = true) :
    (∀ q, g ∉ s.bag q) ∧ (∀ k, (s.tpc k).fib ≠ some g) := by
  rw [inSomeBag_iff] at hb
  rw [heldBy_iff] at hh
  constructor
  · intro q hq
    by_cases h : q < 32
    · exact hb ⟨q, h, hq⟩
    · have := hI.rngQ q (by omega); simp [this] at hq
  · intro k hk
    by_cases h : k < 16
    · exact hh ⟨k, h, hk⟩
    · have := hI.rngT k (by omega); simp [this, TPc.fib] at hk

theorem step_core {s s' : St} {e : Ev} (h : step s e = some s') : e.wf = true ∧ core s e = some s' := by
  simp only [step] at h
  split at h
  · exact ⟨by assumption, h⟩
  · simp at h

macro "destruct_inv " h:ident : tactic => `(tactic|
  obtain ⟨live, liveU, rngT, rngQ, bagQ, handQ, chk, arm, winC, winF, winP, winD, winPub, winBag, winHand,
    winU, winM, pubS, nodup, bagbag, baghand, handhand, untr, cnone, cdead⟩ := $h)

macro "inv_auto" : tactic => `(tactic|
  (constructor <;> simp only [Q] at * <;> grind [upd, Ctx.isRunning, TPc.fib]))

theorem inv_create {s s' : St} {k g : Nat} (hI : Inv s)
    (h : core s (.create k g) = some s') : Inv s' := by
  simp only [core] at h
  split at h <;> simp at h
  subst h
  destruct_inv hI
  inv_auto

end LibfiberVerif.Rt
