/-
  Proof/Mpmc.lean — inductive invariant of the MPMC FIFO model (property C13).
-/
import LibfiberVerif.Model.Mpmc

namespace LibfiberVerif.Mpmc

set_option linter.unusedSimpArgs false
set_option linter.unusedVariables false

/-! ### what a program counter holds (projections used by the invariant) -/

/-- the node the thread owns exclusively (taken from the free list, not yet in the queue) -/
def own : Pc → Option Nat
  | .taken n => some n
  | .valued n _ => some n
  | .pushCalled n _ => some n
  | .pushLoop n _ => some n
  | .pushGotTail n _ _ => some n
  | .pushPub n _ _ => some n
  | .pushFenced n _ _ => some n
  | .pushVal n _ _ => some n
  | .pushNext n _ _ => some n
  | _ => none

/-- … whose `value` field has been written -/
def ownVal : Pc → Option (Nat × Nat)
  | .valued n v => some (n, v)
  | .pushCalled n v => some (n, v)
  | .pushLoop n v => some (n, v)
  | .pushGotTail n v _ => some (n, v)
  | .pushPub n v _ => some (n, v)
  | .pushFenced n v _ => some (n, v)
  | .pushVal n v _ => some (n, v)
  | .pushNext n v _ => some (n, v)
  | _ => none

/-- … whose `prev` field has been reset to NULL -/
def ownInit : Pc → Option Nat
  | .pushLoop n _ => some n
  | .pushGotTail n _ _ => some n
  | .pushPub n _ _ => some n
  | .pushFenced n _ _ => some n
  | .pushVal n _ _ => some n
  | .pushNext n _ _ => some n
  | _ => none

/-- node on which the thread holds a validated protection in slot 0 and relies on it -/
def hold0 : Pc → Option Nat
  | .pushVal _ _ tl => some tl
  | .pushNext _ _ tl => some tl
  | .pushCased _ _ tl => some tl
  | .popVal0 h => some h
  | .popGotPrev h _ => some h
  | .popPub1 h _ => some h
  | .popFenced1 h _ => some h
  | .popVal1 h _ => some h
  | .popGotVal h _ _ => some h
  | _ => none

/-- same for slot 1 -/
def hold1 : Pc → Option Nat
  | .popVal1 _ p => some p
  | .popGotVal _ p _ => some p
  | _ => none

/-- the validated head whose `prev` is about to be read -/
def atHead : Pc → Option Nat
  | .popVal0 h => some h
  | _ => none

/-- (head, prev) after `head->prev` was read non-NULL -/
def sawPrev : Pc → Option (Nat × Nat)
  | .popGotPrev h p => some (h, p)
  | .popPub1 h p => some (h, p)
  | .popFenced1 h p => some (h, p)
  | .popVal1 h p => some (h, p)
  | .popGotVal h p _ => some (h, p)
  | _ => none

/-- (prev, value) after `prev->value` was read -/
def sawVal : Pc → Option (Nat × Nat)
  | .popGotVal _ p x => some (p, x)
  | _ => none

/-- (new, old tail) between the successful tail CAS and `tail->prev = new` -/
def linking : Pc → Option (Nat × Nat)
  | .pushCased n _ tl => some (n, tl)
  | _ => none

theorem atHead_hold0 {p : Pc} {h : Nat} (e : atHead p = some h) : hold0 p = some h := by
  cases p <;> simp_all [atHead, hold0]
theorem sawPrev_hold0 {p : Pc} {h q : Nat} (e : sawPrev p = some (h, q)) : hold0 p = some h := by
  cases p <;> simp_all [sawPrev, hold0]
theorem sawVal_hold1 {p : Pc} {q x : Nat} (e : sawVal p = some (q, x)) : hold1 p = some q := by
  cases p <;> simp_all [sawVal, hold1]
theorem linking_hold0 {p : Pc} {n tl : Nat} (e : linking p = some (n, tl)) : hold0 p = some tl := by
  cases p <;> simp_all [linking, hold0]
theorem ownVal_own {p : Pc} {n v : Nat} (e : ownVal p = some (n, v)) : own p = some n := by
  cases p <;> simp_all [ownVal, own]
theorem ownInit_own {p : Pc} {n : Nat} (e : ownInit p = some n) : own p = some n := by
  cases p <;> simp_all [ownInit, own]

/-! ### list helpers -/

theorem mem_clr {l : List (Nat × Nat)} {t u n : Nat} :
    (u, n) ∈ clr l t ↔ (u, n) ∈ l ∧ u ≠ t := by
  simp [clr, List.mem_filter]

theorem unprot_ne {l : List (Nat × Nat)} {n u m : Nat} (h : unprot l n = true)
    (hm : (u, m) ∈ l) : m ≠ n := by
  simp [unprot, List.all_eq_true] at h
  exact h u m hm

theorem mem_addProt {l : List (Nat × Nat)} {life : Nat → Life} {t n u m : Nat} :
    (u, m) ∈ addProt l life t n ↔ ((u, m) ∈ l ∨ (life n = .inq ∧ u = t ∧ m = n)) := by
  unfold addProt
  split <;> simp_all
  · constructor
    · rintro (⟨rfl, rfl⟩ | h) <;> simp_all
    · rintro (h | ⟨rfl, rfl⟩) <;> simp_all

/-! ### the invariant -/

structure Inv (s : St) : Prop where
  hd_lt : s.hd < s.len
  head_eq : s.head = s.ordN s.hd
  tail_eq : s.tail = s.ordN (s.len - 1)
  q_life : ∀ j, s.hd ≤ j → j < s.len → s.life (s.ordN j) = .inq
  q_pos : ∀ j, s.hd ≤ j → j < s.len → s.pos (s.ordN j) = j
  inq_pos : ∀ n, s.life n = .inq → s.hd ≤ s.pos n ∧ s.pos n < s.len ∧ s.ordN (s.pos n) = n
  ret_prev : ∀ n, s.life n = .retired → s.prev n ≠ none
  q_prev : ∀ j, s.hd ≤ j → j < s.len →
    s.prev (s.ordN j) = none ∨ (j + 1 < s.len ∧ s.prev (s.ordN j) = some (s.ordN (j + 1)))
  q_val : ∀ j, s.hd ≤ j → j < s.len → s.value (s.ordN j) = s.ordV j
  p0_life : ∀ u n, (u, n) ∈ s.prot0 → s.life n = .inq ∨ s.life n = .retired
  p1_life : ∀ u n, (u, n) ∈ s.prot1 → s.life n = .inq ∨ s.life n = .retired
  own_life : ∀ t n, own (s.pc t) = some n → s.life n = .owned t
  own_val : ∀ t n v, ownVal (s.pc t) = some (n, v) → s.value n = v
  own_init : ∀ t n, ownInit (s.pc t) = some n → s.prev n = none
  hold0_in : ∀ t n, hold0 (s.pc t) = some n → (t, n) ∈ s.prot0
  hold1_in : ∀ t n, hold1 (s.pc t) = some n → (t, n) ∈ s.prot1
  at_head : ∀ t h, atHead (s.pc t) = some h → s.pos h ≤ s.hd
  saw_prev : ∀ t h p, sawPrev (s.pc t) = some (h, p) → s.prev h = some p
  saw_val : ∀ t p x, sawVal (s.pc t) = some (p, x) → s.value p = x
  link : ∀ t n tl, linking (s.pc t) = some (n, tl) →
    s.prev tl = none ∧ s.pos tl + 1 < s.len ∧ s.ordN (s.pos tl + 1) = n ∧
    s.ordN (s.pos tl) = tl ∧ s.hd ≤ s.pos tl
  link_inj : ∀ t u n n' tl, linking (s.pc t) = some (n, tl) → linking (s.pc u) = some (n', tl) → t = u
  link_pending : ∀ j, s.hd ≤ j → j + 1 < s.len → s.prev (s.ordN j) = none →
    ∃ u, linking (s.pc u) = some (s.ordN (j + 1), s.ordN j)
  pushed_len : s.pushed.length + 1 = s.len
  pushed_val : ∀ j, j + 1 < s.len → s.pushed[j]? = some (s.ordV (j + 1))
  popped_eq : s.popped = s.pushed.take s.hd

theorem inv_init : Inv init := by
  constructor <;> simp [init, own, ownVal, ownInit, hold0, hold1, atHead, sawPrev, sawVal, linking]
  · intro n; split <;> simp


/-! ### frame lemma: the thread's pc changes, protections change compatibly, and cells the
    invariant does not mention (`slot0`, `slot1`, `next`) change arbitrarily -/

theorem inv_pc {s : St} (hI : Inv s) (t : Nat) (B : Pc) (p0 p1 : List (Nat × Nat))
    (sl0 sl1 nx : Nat → Option Nat)
    (hp0 : ∀ u n, (u, n) ∈ p0 → s.life n = .inq ∨ s.life n = .retired)
    (hp0' : ∀ u n, u ≠ t → (u, n) ∈ s.prot0 → (u, n) ∈ p0)
    (hp1 : ∀ u n, (u, n) ∈ p1 → s.life n = .inq ∨ s.life n = .retired)
    (hp1' : ∀ u n, u ≠ t → (u, n) ∈ s.prot1 → (u, n) ∈ p1)
    (h_own : ∀ n, own B = some n → s.life n = .owned t)
    (h_val : ∀ n v, ownVal B = some (n, v) → s.value n = v)
    (h_init : ∀ n, ownInit B = some n → s.prev n = none)
    (h_h0 : ∀ n, hold0 B = some n → (t, n) ∈ p0)
    (h_h1 : ∀ n, hold1 B = some n → (t, n) ∈ p1)
    (h_at : ∀ h, atHead B = some h → s.pos h ≤ s.hd)
    (h_sp : ∀ h p, sawPrev B = some (h, p) → s.prev h = some p)
    (h_sv : ∀ p x, sawVal B = some (p, x) → s.value p = x)
    (h_link : linking B = linking (s.pc t)) :
    Inv { s with pc := upd s.pc t B, prot0 := p0, prot1 := p1, slot0 := sl0, slot1 := sl1, next := nx } := by
  constructor <;> simp only []
  case hd_lt => exact hI.hd_lt
  case head_eq => exact hI.head_eq
  case tail_eq => exact hI.tail_eq
  case q_life => exact hI.q_life
  case q_pos => exact hI.q_pos
  case inq_pos => exact hI.inq_pos
  case ret_prev => exact hI.ret_prev
  case q_prev => exact hI.q_prev
  case q_val => exact hI.q_val
  case p0_life => exact hp0
  case p1_life => exact hp1
  case pushed_len => exact hI.pushed_len
  case pushed_val => exact hI.pushed_val
  case popped_eq => exact hI.popped_eq
  case own_life =>
    intro u n; by_cases hu : u = t
    · subst hu; simpa using h_own n
    · simpa [hu] using hI.own_life u n
  case own_val =>
    intro u n v; by_cases hu : u = t
    · subst hu; simpa using h_val n v
    · simpa [hu] using hI.own_val u n v
  case own_init =>
    intro u n; by_cases hu : u = t
    · subst hu; simpa using h_init n
    · simpa [hu] using hI.own_init u n
  case hold0_in =>
    intro u n; by_cases hu : u = t
    · subst hu; simpa using h_h0 n
    · simp [hu]; intro h; exact hp0' u n hu (hI.hold0_in u n h)
  case hold1_in =>
    intro u n; by_cases hu : u = t
    · subst hu; simpa using h_h1 n
    · simp [hu]; intro h; exact hp1' u n hu (hI.hold1_in u n h)
  case at_head =>
    intro u n; by_cases hu : u = t
    · subst hu; simpa using h_at n
    · simpa [hu] using hI.at_head u n
  case saw_prev =>
    intro u h p; by_cases hu : u = t
    · subst hu; simpa using h_sp h p
    · simpa [hu] using hI.saw_prev u h p
  case saw_val =>
    intro u p x; by_cases hu : u = t
    · subst hu; simpa using h_sv p x
    · simpa [hu] using hI.saw_val u p x
  case link =>
    intro u n tl; by_cases hu : u = t
    · subst hu; simp [h_link]; exact hI.link u n tl
    · simpa [hu] using hI.link u n tl
  case link_inj =>
    intro u w n n' tl h1 h2
    have e1 : linking (upd s.pc t B u) = linking (s.pc u) := by
      by_cases hu : u = t
      · subst hu; simp [h_link]
      · simp [hu]
    have e2 : linking (upd s.pc t B w) = linking (s.pc w) := by
      by_cases hu : w = t
      · subst hu; simp [h_link]
      · simp [hu]
    rw [e1] at h1; rw [e2] at h2
    exact hI.link_inj u w n n' tl h1 h2
  case link_pending =>
    intro j h1 h2 h3
    obtain ⟨u, hu⟩ := hI.link_pending j h1 h2 h3
    refine ⟨u, ?_⟩
    by_cases e : u = t
    · subst e; simp [h_link, hu]
    · simp [e, hu]


/-- `inv_pc` with unchanged protections -/
theorem inv_pc0 {s : St} (hI : Inv s) (t : Nat) (B : Pc)
    (h_own : ∀ n, own B = some n → s.life n = .owned t)
    (h_val : ∀ n v, ownVal B = some (n, v) → s.value n = v)
    (h_init : ∀ n, ownInit B = some n → s.prev n = none)
    (h_h0 : ∀ n, hold0 B = some n → (t, n) ∈ s.prot0)
    (h_h1 : ∀ n, hold1 B = some n → (t, n) ∈ s.prot1)
    (h_at : ∀ h, atHead B = some h → s.pos h ≤ s.hd)
    (h_sp : ∀ h p, sawPrev B = some (h, p) → s.prev h = some p)
    (h_sv : ∀ p x, sawVal B = some (p, x) → s.value p = x)
    (h_link : linking B = linking (s.pc t)) :
    Inv { s with pc := upd s.pc t B } :=
  inv_pc hI t B s.prot0 s.prot1 s.slot0 s.slot1 s.next hI.p0_life (fun _ _ _ h => h)
    hI.p1_life (fun _ _ _ h => h) h_own h_val h_init h_h0 h_h1 h_at h_sp h_sv h_link

/-- discharge the side goals of `inv_pc`/`inv_pc0` from the thread's old pc -/
macro "pc_side" hI:ident t:ident hpc:ident : tactic => `(tactic|
  (have a1 := Inv.own_life $hI $t; have a2 := Inv.own_val $hI $t; have a3 := Inv.own_init $hI $t
   have a4 := Inv.hold0_in $hI $t; have a5 := Inv.hold1_in $hI $t; have a6 := Inv.at_head $hI $t
   have a7 := Inv.saw_prev $hI $t; have a8 := Inv.saw_val $hI $t
   rw [$hpc:ident] at a1 a2 a3 a4 a5 a6 a7 a8
   simp [own, ownVal, ownInit, hold0, hold1, atHead, sawPrev, sawVal, linking, mem_addProt, mem_clr, $hpc:ident] at *
   try grind))

theorem inv_callPush {s s' : St} {t v : Nat} (hI : Inv s)
    (h : step s (.callPush t v) = some s') : Inv s' := by
  simp only [step] at h
  split at h <;> try (simp at h; done)
  rename_i n w hpc
  split at h <;> simp at h
  subst h
  apply inv_pc0 hI <;> pc_side hI t hpc


theorem inv_skip {s s' : St} {t : Nat} (hI : Inv s) (h : step s (.skip t) = some s') : Inv s' := by
  simp only [step] at h
  split at h <;> simp at h
  subst h; exact hI

theorem inv_rdSlot {s s' : St} {t u k : Nat} {x : Option Nat} (hI : Inv s)
    (h : step s (.rdSlot t u k x) = some s') : Inv s' := by
  simp only [step] at h
  split at h <;> simp at h
  subst h; exact hI

theorem inv_retPush {s s' : St} {t : Nat} (hI : Inv s)
    (h : step s (.retPush t) = some s') : Inv s' := by
  simp only [step] at h
  split at h <;> try (simp at h; done)
  rename_i hpc
  simp at h; subst h
  apply inv_pc0 hI <;> pc_side hI t hpc

theorem inv_callPop {s s' : St} {t : Nat} (hI : Inv s)
    (h : step s (.callPop t) = some s') : Inv s' := by
  simp only [step] at h
  split at h <;> simp at h
  rename_i hpc
  subst h
  apply inv_pc0 hI <;> pc_side hI t hpc

theorem inv_retPop {s s' : St} {t x : Nat} (hI : Inv s)
    (h : step s (.retPop t x) = some s') : Inv s' := by
  simp only [step] at h
  split at h <;> try (simp at h; done)
  rename_i y hpc
  split at h <;> simp at h
  subst h
  apply inv_pc0 hI <;> pc_side hI t hpc

theorem inv_callScan {s s' : St} {t : Nat} (hI : Inv s)
    (h : step s (.callScan t) = some s') : Inv s' := by
  simp only [step] at h
  split at h <;> simp at h
  rename_i hpc
  subst h
  apply inv_pc0 hI <;> pc_side hI t hpc

theorem inv_retScan {s s' : St} {t : Nat} (hI : Inv s)
    (h : step s (.retScan t) = some s') : Inv s' := by
  simp only [step] at h
  split at h <;> simp at h
  rename_i hpc
  subst h
  apply inv_pc0 hI <;> pc_side hI t hpc

theorem inv_fence {s s' : St} {t : Nat} (hI : Inv s)
    (h : step s (.fence t) = some s') : Inv s' := by
  simp only [step] at h
  split at h <;> try (simp at h; done)
  all_goals (rename_i hpc; simp at h; subst h; apply inv_pc0 hI <;> pc_side hI t hpc)

theorem inv_rdValue {s s' : St} {t n x : Nat} (hI : Inv s)
    (h : step s (.rdValue t n x) = some s') : Inv s' := by
  simp only [step] at h
  split at h <;> try (simp at h; done)
  rename_i hd p hpc
  split at h <;> simp at h
  rename_i hc
  obtain ⟨rfl, rfl, hl⟩ := hc
  subst h
  apply inv_pc0 hI <;> pc_side hI t hpc

theorem inv_rdPrev {s s' : St} {t n : Nat} {x : Option Nat} (hI : Inv s)
    (h : step s (.rdPrev t n x) = some s') : Inv s' := by
  simp only [step] at h
  split at h <;> try (simp at h; done)
  rename_i hd hpc
  split at h <;> try (simp at h; done)
  rename_i hc
  obtain ⟨rfl, rfl, hl⟩ := hc
  split at h
  all_goals (simp at h; subst h; apply inv_pc0 hI <;> pc_side hI t hpc)


theorem inv_wrNext {s s' : St} {t n : Nat} {x : Option Nat} (hI : Inv s)
    (h : step s (.wrNext t n x) = some s') : Inv s' := by
  simp only [step] at h
  split at h <;> try (simp at h; done)
  rename_i m v tl hpc
  split at h <;> simp at h
  subst h
  apply inv_pc hI t _ s.prot0 s.prot1 s.slot0 s.slot1 _ hI.p0_life (fun _ _ _ h => h)
    hI.p1_life (fun _ _ _ h => h) <;> pc_side hI t hpc

theorem inv_ldTail {s s' : St} {t x : Nat} (hI : Inv s)
    (h : step s (.ldTail t x) = some s') : Inv s' := by
  simp only [step] at h
  split at h <;> try (simp at h; done)
  · rename_i n v hpc
    split at h <;> simp at h
    subst h
    apply inv_pc0 hI <;> pc_side hI t hpc
  · rename_i n v tl hpc
    split at h <;> try (simp at h; done)
    rename_i hx
    split at h
    · rename_i hx2
      simp at h; subst h
      have hlen := hI.hd_lt
      have hq := hI.q_life (s.len - 1) (by omega) (by omega)
      rw [← hI.tail_eq] at hq
      have hp0 := hI.p0_life
      apply inv_pc hI t _ _ s.prot1 s.slot0 s.slot1 s.next ?_ ?_
        hI.p1_life (fun _ _ _ h => h)
      all_goals first
        | (intro u m; simp only [mem_addProt]; grind)
        | pc_side hI t hpc
    · simp at h; subst h
      apply inv_pc0 hI <;> pc_side hI t hpc


theorem inv_ldHead {s s' : St} {t x : Nat} (hI : Inv s)
    (h : step s (.ldHead t x) = some s') : Inv s' := by
  simp only [step] at h
  split at h <;> try (simp at h; done)
  · rename_i hpc
    split at h <;> simp at h
    subst h
    apply inv_pc0 hI <;> pc_side hI t hpc
  · rename_i hd hpc
    split at h <;> try (simp at h; done)
    rename_i hx
    split at h
    · rename_i hx2
      simp at h; subst h
      have hlen := hI.hd_lt
      have hq := hI.q_life s.hd (by omega) (by omega)
      have hqp := hI.q_pos s.hd (by omega) (by omega)
      rw [← hI.head_eq] at hq hqp
      have hp0 := hI.p0_life
      apply inv_pc hI t _ _ s.prot1 s.slot0 s.slot1 s.next ?_ ?_
        hI.p1_life (fun _ _ _ h => h)
      all_goals first
        | (intro u m; simp only [mem_addProt]; grind)
        | pc_side hI t hpc
    · simp at h; subst h
      apply inv_pc0 hI <;> pc_side hI t hpc
  · rename_i hd p hpc
    split at h <;> try (simp at h; done)
    rename_i hx
    split at h
    · rename_i hx2
      simp at h; subst h
      have hlen := hI.hd_lt
      have hq := hI.q_life s.hd (by omega) (by omega)
      have hqp := hI.q_pos s.hd (by omega) (by omega)
      rw [← hI.head_eq] at hq hqp
      have hsp := hI.saw_prev t hd p (by simp [hpc, sawPrev])
      have hqv := hI.q_prev s.hd (by omega) (by omega)
      rw [← hI.head_eq] at hqv
      have hp : s.life p = .inq := by
        subst hx2; subst hx
        rw [hsp] at hqv; simp at hqv
        obtain ⟨h1, h2⟩ := hqv
        rw [h2]; exact hI.q_life _ (by omega) h1
      have hp1 := hI.p1_life
      apply inv_pc hI t _ s.prot0 _ s.slot0 s.slot1 s.next hI.p0_life (fun _ _ _ h => h) ?_ ?_
      all_goals first
        | (intro u m; simp only [mem_addProt]; grind)
        | pc_side hI t hpc
    · simp at h; subst h
      apply inv_pc0 hI <;> pc_side hI t hpc


theorem clr_life {s : St} (hI : ∀ u n, (u, n) ∈ l → s.life n = .inq ∨ s.life n = .retired) (t : Nat) :
    ∀ u n, (u, n) ∈ clr l t → s.life n = .inq ∨ s.life n = .retired := by
  intro u n h; exact hI u n (mem_clr.mp h).1

theorem clr_keep (l : List (Nat × Nat)) (t : Nat) :
    ∀ u n, u ≠ t → (u, n) ∈ l → (u, n) ∈ clr l t := by
  intro u n hu h; exact mem_clr.mpr ⟨h, hu⟩

theorem inv_wrSlot {s s' : St} {t u k : Nat} {x : Option Nat} (hI : Inv s)
    (h : step s (.wrSlot t u k x) = some s') : Inv s' := by
  simp only [step] at h
  split at h <;> try (simp at h; done)
  split at h
  · split at h <;> try (simp at h; done)
    all_goals
      rename_i hpc
      split at h <;> simp at h
      subst h
      apply inv_pc hI t _ _ s.prot1 _ s.slot1 s.next (clr_life hI.p0_life t) (clr_keep _ t)
        hI.p1_life (fun _ _ _ h => h) <;> pc_side hI t hpc
  · split at h <;> try (simp at h; done)
    split at h <;> try (simp at h; done)
    all_goals
      rename_i hpc
      split at h <;> simp at h
      subst h
      apply inv_pc hI t _ s.prot0 _ s.slot0 _ s.next hI.p0_life (fun _ _ _ h => h)
        (clr_life hI.p1_life t) (clr_keep _ t) <;> pc_side hI t hpc


theorem inv_take {s s' : St} {t n : Nat} (hI : Inv s)
    (h : step s (.take t n) = some s') : Inv s' := by
  simp only [step] at h
  split at h <;> simp at h
  rename_i hc
  obtain ⟨hpc, hfree⟩ := hc
  subst h
  constructor <;> simp only []
  case hd_lt => exact hI.hd_lt
  case head_eq => exact hI.head_eq
  case tail_eq => exact hI.tail_eq
  case q_life => have := hI.q_life; grind [upd_apply]
  case q_pos => exact hI.q_pos
  case inq_pos => have := hI.inq_pos; grind [upd_apply]
  case ret_prev => have := hI.ret_prev; grind [upd_apply]
  case q_prev => exact hI.q_prev
  case q_val => exact hI.q_val
  case p0_life => have := hI.p0_life; grind [upd_apply]
  case p1_life => have := hI.p1_life; grind [upd_apply]
  case own_life => have := hI.own_life; grind [upd_apply, own]
  case own_val => have := hI.own_val; grind [upd_apply, ownVal]
  case own_init => have := hI.own_init; grind [upd_apply, ownInit]
  case hold0_in => have := hI.hold0_in; grind [upd_apply, hold0]
  case hold1_in => have := hI.hold1_in; grind [upd_apply, hold1]
  case at_head => have := hI.at_head; grind [upd_apply, atHead]
  case saw_prev => have := hI.saw_prev; grind [upd_apply, sawPrev]
  case saw_val => have := hI.saw_val; grind [upd_apply, sawVal]
  case link => have := hI.link; grind [upd_apply, linking]
  case link_inj => have := hI.link_inj; grind [upd_apply, linking]
  case link_pending =>
    intro j h1 h2 h3
    obtain ⟨u, hu⟩ := hI.link_pending j h1 h2 h3
    refine ⟨u, ?_⟩
    have : u ≠ t := by intro e; subst e; simp [hpc, linking] at hu
    simp [this, hu]
  case pushed_len => exact hI.pushed_len
  case pushed_val => exact hI.pushed_val
  case popped_eq => exact hI.popped_eq


theorem inv_wrValue {s s' : St} {t n v : Nat} (hI : Inv s)
    (h : step s (.wrValue t n v) = some s') : Inv s' := by
  simp only [step] at h
  split at h <;> try (simp at h; done)
  rename_i m hpc
  split at h <;> simp at h
  rename_i hc
  obtain ⟨rfl, hfree⟩ := hc
  subst h
  have hown := hI.own_life t n (by simp [hpc, own])
  constructor <;> simp only []
  case hd_lt => exact hI.hd_lt
  case head_eq => exact hI.head_eq
  case tail_eq => exact hI.tail_eq
  case q_life => exact hI.q_life
  case q_pos => exact hI.q_pos
  case inq_pos => exact hI.inq_pos
  case ret_prev => exact hI.ret_prev
  case q_prev => exact hI.q_prev
  case q_val => have := hI.q_val; have := hI.q_life; grind [upd_apply]
  case p0_life => exact hI.p0_life
  case p1_life => exact hI.p1_life
  case own_life => have := hI.own_life; grind [upd_apply, own]
  case own_val => have := hI.own_val; have := hI.own_life; grind [upd_apply, ownVal, ownVal_own]
  case own_init => have := hI.own_init; grind [upd_apply, ownInit]
  case hold0_in => have := hI.hold0_in; grind [upd_apply, hold0]
  case hold1_in => have := hI.hold1_in; grind [upd_apply, hold1]
  case at_head => have := hI.at_head; grind [upd_apply, atHead]
  case saw_prev => have := hI.saw_prev; grind [upd_apply, sawPrev]
  case saw_val =>
    have := hI.saw_val; have := hI.hold1_in; have := hI.p1_life
    grind [upd_apply, sawVal, → sawVal_hold1]
  case link => have := hI.link; grind [upd_apply, linking]
  case link_inj => have := hI.link_inj; grind [upd_apply, linking]
  case link_pending =>
    intro j h1 h2 h3
    obtain ⟨u, hu⟩ := hI.link_pending j h1 h2 h3
    refine ⟨u, ?_⟩
    have : u ≠ t := by intro e; subst e; simp [hpc, linking] at hu
    simp [this, hu]
  case pushed_len => exact hI.pushed_len
  case pushed_val => exact hI.pushed_val
  case popped_eq => exact hI.popped_eq


theorem inv_wrPrev {s s' : St} {t n : Nat} {x : Option Nat} (hI : Inv s)
    (h : step s (.wrPrev t n x) = some s') : Inv s' := by
  simp only [step] at h
  split at h <;> try (simp at h; done)
  · -- new->prev = NULL on the thread's own node
    rename_i m v hpc
    split at h <;> simp at h
    rename_i hc
    obtain ⟨rfl, rfl, hfree⟩ := hc
    subst h
    have hown := hI.own_life t n (by simp [hpc, own])
    constructor <;> simp only []
    case hd_lt => exact hI.hd_lt
    case head_eq => exact hI.head_eq
    case tail_eq => exact hI.tail_eq
    case q_life => exact hI.q_life
    case q_pos => exact hI.q_pos
    case inq_pos => exact hI.inq_pos
    case ret_prev => have := hI.ret_prev; grind [upd_apply]
    case q_prev => have := hI.q_prev; have := hI.q_life; grind [upd_apply]
    case q_val => exact hI.q_val
    case p0_life => exact hI.p0_life
    case p1_life => exact hI.p1_life
    case own_life => have := hI.own_life; grind [upd_apply, own]
    case own_val => have := hI.own_val; grind [upd_apply, ownVal]
    case own_init => have := hI.own_init; grind [upd_apply, ownInit]
    case hold0_in => have := hI.hold0_in; grind [upd_apply, hold0]
    case hold1_in => have := hI.hold1_in; grind [upd_apply, hold1]
    case at_head => have := hI.at_head; grind [upd_apply, atHead]
    case saw_prev =>
      have := hI.saw_prev; have := hI.hold0_in; have := hI.p0_life
      grind [upd_apply, sawPrev, → sawPrev_hold0]
    case saw_val => have := hI.saw_val; grind [upd_apply, sawVal]
    case link => have := hI.link; grind [upd_apply, linking]
    case link_inj => have := hI.link_inj; grind [upd_apply, linking]
    case link_pending =>
      intro j h1 h2 h3
      have hq := hI.q_life j h1 (by omega)
      have hne : s.ordN j ≠ n := by intro e; rw [e] at hq; simp [hq] at hown
      simp [upd_apply, hne] at h3
      obtain ⟨u, hu⟩ := hI.link_pending j h1 h2 h3
      refine ⟨u, ?_⟩
      have : u ≠ t := by intro e; subst e; simp [hpc, linking] at hu
      simp [this, hu]
    case pushed_len => exact hI.pushed_len
    case pushed_val => exact hI.pushed_val
    case popped_eq => exact hI.popped_eq
  · -- tail->prev = new after the successful CAS
    rename_i m v tl hpc
    split at h <;> simp at h
    rename_i hc
    obtain ⟨rfl, rfl, hfree⟩ := hc
    subst h
    obtain ⟨l1, l2, l3, l4, l5⟩ := hI.link t m n (by simp [hpc, linking])
    have hh0 := hI.p0_life t n (hI.hold0_in t n (by simp [hpc, hold0]))
    have hlt : linking (s.pc t) = some (m, n) := by simp [hpc, linking]
    constructor <;> simp only []
    case hd_lt => exact hI.hd_lt
    case head_eq => exact hI.head_eq
    case tail_eq => exact hI.tail_eq
    case q_life => exact hI.q_life
    case q_pos => exact hI.q_pos
    case inq_pos => exact hI.inq_pos
    case ret_prev => have := hI.ret_prev; grind [upd_apply]
    case q_prev => have := hI.q_prev; have := hI.q_pos; grind [upd_apply]
    case q_val => exact hI.q_val
    case p0_life => exact hI.p0_life
    case p1_life => exact hI.p1_life
    case own_life => have := hI.own_life; grind [upd_apply, own]
    case own_val => have := hI.own_val; grind [upd_apply, ownVal]
    case own_init =>
      have := hI.own_init; have := hI.own_life
      grind [upd_apply, ownInit, → ownInit_own]
    case hold0_in => have := hI.hold0_in; grind [upd_apply, hold0]
    case hold1_in => have := hI.hold1_in; grind [upd_apply, hold1]
    case at_head => have := hI.at_head; grind [upd_apply, atHead]
    case saw_prev => have := hI.saw_prev; grind [upd_apply, sawPrev]
    case saw_val => have := hI.saw_val; grind [upd_apply, sawVal]
    case link =>
      intro u n' tl' hu
      by_cases e : u = t
      · subst e; simp [linking] at hu
      · simp [e] at hu
        have hne : tl' ≠ n := by
          intro e2; subst e2
          exact e (hI.link_inj u t n' m tl' hu hlt)
        simp [upd_apply, hne]
        exact hI.link u n' tl' hu
    case link_inj => have := hI.link_inj; grind [upd_apply, linking]
    case link_pending =>
      intro j h1 h2 h3
      have hne : s.ordN j ≠ n := by intro e; simp [upd_apply, e] at h3
      simp [upd_apply, hne] at h3
      obtain ⟨u, hu⟩ := hI.link_pending j h1 h2 h3
      refine ⟨u, ?_⟩
      have : u ≠ t := by
        intro e; subst e; rw [hlt] at hu; simp at hu; exact hne hu.2.symm
      simp [this, hu]
    case pushed_len => exact hI.pushed_len
    case pushed_val => exact hI.pushed_val
    case popped_eq => exact hI.popped_eq


theorem inv_reclaim {s s' : St} {t n : Nat} (hI : Inv s)
    (h : step s (.reclaim t n) = some s') : Inv s' := by
  simp only [step] at h
  split at h <;> simp at h
  rename_i hc
  obtain ⟨hscan, hret, hu0, hu1⟩ := hc
  subst h
  have h0 : ∀ u m, (u, m) ∈ s.prot0 → m ≠ n := fun u m hm => unprot_ne hu0 hm
  have h1 : ∀ u m, (u, m) ∈ s.prot1 → m ≠ n := fun u m hm => unprot_ne hu1 hm
  constructor <;> simp only []
  case hd_lt => exact hI.hd_lt
  case head_eq => exact hI.head_eq
  case tail_eq => exact hI.tail_eq
  case q_life => have := hI.q_life; grind [upd_apply]
  case q_pos => exact hI.q_pos
  case inq_pos => have := hI.inq_pos; grind [upd_apply]
  case ret_prev => have := hI.ret_prev; grind [upd_apply]
  case q_prev => exact hI.q_prev
  case q_val => exact hI.q_val
  case p0_life => have := hI.p0_life; grind [upd_apply]
  case p1_life => have := hI.p1_life; grind [upd_apply]
  case own_life => have := hI.own_life; grind [upd_apply]
  case own_val => exact hI.own_val
  case own_init => exact hI.own_init
  case hold0_in => exact hI.hold0_in
  case hold1_in => exact hI.hold1_in
  case at_head => exact hI.at_head
  case saw_prev => exact hI.saw_prev
  case saw_val => exact hI.saw_val
  case link => exact hI.link
  case link_inj => exact hI.link_inj
  case link_pending => exact hI.link_pending
  case pushed_len => exact hI.pushed_len
  case pushed_val => exact hI.pushed_val
  case popped_eq => exact hI.popped_eq

theorem take_succ_of_getElem? {l : List Nat} {i x : Nat} (h : l[i]? = some x) :
    l.take (i + 1) = l.take i ++ [x] := by
  rw [List.take_add_one, h]; rfl

theorem inv_casHead {s s' : St} {t f e d : Nat} {ok : Bool} (hI : Inv s)
    (h : step s (.casHead t f e d ok) = some s') : Inv s' := by
  simp only [step] at h
  split at h <;> try (simp at h; done)
  rename_i hd p x hpc
  split at h <;> try (simp at h; done)
  rename_i hc
  obtain ⟨hf, he, hdd, hok⟩ := hc
  split at h
  · simp at h; subst h
    have hfh : s.head = hd := by simp_all
    have hlen := hI.hd_lt
    have hN : s.ordN s.hd = hd := by rw [← hI.head_eq]; exact hfh
    have hsp := hI.saw_prev t hd p (by simp [hpc, sawPrev])
    have hsv := hI.saw_val t p x (by simp [hpc, sawVal])
    have hq := hI.q_life s.hd (by omega) (by omega)
    have hqp := hI.q_pos s.hd (by omega) (by omega)
    have hqv := hI.q_prev s.hd (by omega) (by omega)
    rw [hN] at hq hqp hqv
    rw [hsp] at hqv; simp at hqv
    obtain ⟨hlt, hP⟩ := hqv
    have hxv : x = s.ordV (s.hd + 1) := by
      rw [← hsv, hP]; exact hI.q_val _ (by omega) hlt
    constructor <;> simp only []
    case hd_lt => omega
    case head_eq => exact hP
    case tail_eq => exact hI.tail_eq
    case q_life => have := hI.q_life; have := hI.q_pos; grind [upd_apply]
    case q_pos => have := hI.q_pos; grind
    case inq_pos => have := hI.inq_pos; grind [upd_apply]
    case ret_prev => have := hI.ret_prev; grind [upd_apply]
    case q_prev => have := hI.q_prev; grind
    case q_val => have := hI.q_val; grind
    case p0_life => have := hI.p0_life; grind [upd_apply]
    case p1_life => have := hI.p1_life; grind [upd_apply]
    case own_life => have := hI.own_life; grind [upd_apply, own]
    case own_val => have := hI.own_val; grind [upd_apply, ownVal]
    case own_init => have := hI.own_init; grind [upd_apply, ownInit]
    case hold0_in => have := hI.hold0_in; grind [upd_apply, hold0]
    case hold1_in => have := hI.hold1_in; grind [upd_apply, hold1]
    case at_head => have := hI.at_head; grind [upd_apply, atHead]
    case saw_prev => have := hI.saw_prev; grind [upd_apply, sawPrev]
    case saw_val => have := hI.saw_val; grind [upd_apply, sawVal]
    case link => have := hI.link; grind [upd_apply, linking]
    case link_inj => have := hI.link_inj; grind [upd_apply, linking]
    case link_pending =>
      intro j h1 h2 h3
      obtain ⟨u, hu⟩ := hI.link_pending j (by omega) h2 h3
      refine ⟨u, ?_⟩
      have : u ≠ t := by intro e; subst e; simp [hpc, linking] at hu
      simp [this, hu]
    case pushed_len => exact hI.pushed_len
    case pushed_val => exact hI.pushed_val
    case popped_eq =>
      have := hI.pushed_val s.hd hlt
      rw [take_succ_of_getElem? this, ← hI.popped_eq, hxv]
  · simp at h; subst h
    apply inv_pc0 hI <;> pc_side hI t hpc


theorem inv_casTail {s s' : St} {t f e d : Nat} {ok : Bool} (hI : Inv s)
    (h : step s (.casTail t f e d ok) = some s') : Inv s' := by
  simp only [step] at h
  split at h <;> try (simp at h; done)
  rename_i n v tl hpc
  split at h <;> try (simp at h; done)
  rename_i hc
  obtain ⟨hf, he, hd, hok⟩ := hc
  split at h
  · simp at h; subst h
    have hft : s.tail = tl := by simp_all
    have hown := hI.own_life t n (by simp [hpc, own, ownVal, ownInit, hold0])
    have hval := hI.own_val t n v (by simp [hpc, own, ownVal, ownInit, hold0])
    have hini := hI.own_init t n (by simp [hpc, own, ownVal, ownInit, hold0])
    have hh0 := hI.hold0_in t tl (by simp [hpc, own, ownVal, ownInit, hold0])
    have hq := hI.q_life (s.len - 1) (by have := hI.hd_lt; omega) (by have := hI.hd_lt; omega)
    have hqp := hI.q_pos (s.len - 1) (by have := hI.hd_lt; omega) (by have := hI.hd_lt; omega)
    have htl : s.ordN (s.len - 1) = tl := by rw [← hI.tail_eq]; exact hft
    rw [htl] at hq hqp
    have hne : tl ≠ n := by intro h; rw [h] at hq; simp [hq] at hown
    have hlen := hI.hd_lt
    constructor <;> simp only [] 
    case hd_lt => omega
    case head_eq => have := hI.head_eq; grind [upd_apply]
    case tail_eq => grind [upd_apply]
    case q_life => have := hI.q_life; grind [upd_apply]
    case q_pos => have := hI.q_pos; have := hI.q_life; grind [upd_apply]
    case inq_pos => have := hI.inq_pos; grind [upd_apply]
    case ret_prev => have := hI.ret_prev; grind [upd_apply]
    case q_prev => have := hI.q_prev;  grind [upd_apply]
    case q_val => have := hI.q_val; grind [upd_apply]
    case p0_life => have := hI.p0_life; grind [upd_apply]
    case p1_life => have := hI.p1_life; grind [upd_apply]
    case own_life => have := hI.own_life; grind [upd_apply, own]
    case own_val => have := hI.own_val; have := hI.own_life; grind [upd_apply, ownVal, own]
    case own_init => have := hI.own_init; grind [upd_apply, ownInit]
    case hold0_in => have := hI.hold0_in; grind [upd_apply, hold0]
    case hold1_in => have := hI.hold1_in; grind [upd_apply, hold1]
    case at_head => have := hI.at_head; have := hI.hold0_in; have := hI.p0_life; grind [upd_apply, atHead, atHead_hold0]
    case saw_prev => have := hI.saw_prev; grind [upd_apply, sawPrev]
    case saw_val => have := hI.saw_val; have := hI.hold1_in; have := hI.p1_life; grind [upd_apply, sawVal, sawVal_hold1]
    case link => 
      have := hI.link; have := hI.hold0_in; have := hI.p0_life; have := hI.q_prev (s.len - 1)
      grind [upd_apply, linking, linking_hold0]
    case link_inj => have := hI.link_inj; have := hI.link; grind [upd_apply, linking]
    case link_pending =>
      intro j h1 h2 h3
      by_cases hj : j + 1 = s.len
      · refine ⟨t, ?_⟩
        have : j = s.len - 1 := by omega
        subst this
        simp [upd_apply, hj, htl, linking]; omega
      · have hj' : j ≠ s.len := by omega
        simp [upd_apply, hj, hj'] at h3 ⊢
        obtain ⟨u, hu⟩ := hI.link_pending j h1 (by omega) h3
        refine ⟨u, ?_⟩
        have : u ≠ t := by intro e; subst e; simp [hpc, linking] at hu
        simp [this, hu]
    case pushed_len => have := hI.pushed_len; simp; omega
    case pushed_val =>
      intro j hj
      have hl := hI.pushed_len
      by_cases e : j + 1 = s.len
      · have : j = s.pushed.length := by omega
        subst this; simp [upd_apply, e, List.getElem?_append_right]
      · have h1 : j < s.pushed.length := by omega
        rw [List.getElem?_append_left h1]
        simp [upd_apply, e]; exact hI.pushed_val j (by omega)
    case popped_eq =>
      have hl := hI.pushed_len
      rw [List.take_append_of_le_length (by omega)]; exact hI.popped_eq
  · simp at h; subst h
    apply inv_pc0 hI <;> pc_side hI t hpc


theorem inv_step {s s' : St} {e : Ev} (hI : Inv s) (h : step s e = some s') : Inv s' := by
  cases e with
  | take t n => exact inv_take hI h
  | skip t => exact inv_skip hI h
  | callPush t v => exact inv_callPush hI h
  | retPush t => exact inv_retPush hI h
  | callPop t => exact inv_callPop hI h
  | retPop t x => exact inv_retPop hI h
  | callScan t => exact inv_callScan hI h
  | retScan t => exact inv_retScan hI h
  | wrValue t n v => exact inv_wrValue hI h
  | rdValue t n x => exact inv_rdValue hI h
  | wrPrev t n x => exact inv_wrPrev hI h
  | rdPrev t n x => exact inv_rdPrev hI h
  | wrNext t n x => exact inv_wrNext hI h
  | ldTail t x => exact inv_ldTail hI h
  | ldHead t x => exact inv_ldHead hI h
  | casTail t f e d ok => exact inv_casTail hI h
  | casHead t f e d ok => exact inv_casHead hI h
  | wrSlot t u k x => exact inv_wrSlot hI h
  | rdSlot t u k x => exact inv_rdSlot hI h
  | fence t => exact inv_fence hI h
  | reclaim t n => exact inv_reclaim hI h

theorem inv_reachable {s : St} (h : sys.Reachable s) : Inv s :=
  Sys.inv_of_step sys Inv inv_init (fun _ _ _ hI hs => inv_step hI hs) h

theorem inv_of_run {es : List Ev} {s : St} (h : sys.run es = some s) : Inv s :=
  inv_reachable (Sys.reachable_of_run sys h)

/-! ### consequences of the invariant used by the property theorems -/

theorem next_not_free {s : St} (hI : Inv s) (t n : Nat) (h : nextAccess (s.pc t) = some n) :
    s.life n ≠ .free := by
  have a1 := hI.own_life t; have a4 := hI.hold0_in t; have a5 := hI.hold1_in t
  have p0 := hI.p0_life t; have p1 := hI.p1_life t
  cases hpc : s.pc t <;> simp [hpc, nextAccess] at h <;> subst h <;>
    simp [hpc, own, hold0, hold1] at a1 a4 a5 <;> grind

/-- every node-field access the model accepts is the one `nextAccess` names -/
theorem access_is_next {s s' : St} {e : Ev} (h : step s e = some s') :
    (∀ t n v, e = .wrValue t n v → nextAccess (s.pc t) = some n) ∧
    (∀ t n x, e = .rdValue t n x → nextAccess (s.pc t) = some n) ∧
    (∀ t n x, e = .wrPrev t n x → nextAccess (s.pc t) = some n) ∧
    (∀ t n x, e = .rdPrev t n x → nextAccess (s.pc t) = some n) ∧
    (∀ t n x, e = .wrNext t n x → nextAccess (s.pc t) = some n) := by
  refine ⟨?_, ?_, ?_, ?_, ?_⟩ <;> intro t n x he <;> subst he <;> simp only [step] at h <;>
    split at h <;> simp at h <;> rename_i hpc <;> simp [hpc, nextAccess] <;>
    (try split at h) <;> simp_all

/-- what a successful head CAS sees -/
theorem casHead_facts {s : St} (hI : Inv s) {t h p x : Nat} (hpc : s.pc t = .popGotVal h p x)
    (hh : s.head = h) :
    s.hd + 1 < s.len ∧ p = s.ordN (s.hd + 1) ∧ x = s.ordV (s.hd + 1) ∧
    x = s.value (s.ordN (s.hd + 1)) ∧ s.pushed[s.hd]? = some x := by
  have hlen := hI.hd_lt
  have hN : s.ordN s.hd = h := by rw [← hI.head_eq]; exact hh
  have hsp := hI.saw_prev t h p (by simp [hpc, sawPrev])
  have hsv := hI.saw_val t p x (by simp [hpc, sawVal])
  have hqv := hI.q_prev s.hd (by omega) (by omega)
  rw [hN, hsp] at hqv; simp at hqv
  obtain ⟨hlt, hP⟩ := hqv
  have hxv : x = s.ordV (s.hd + 1) := by
    rw [← hsv, hP]; exact hI.q_val _ (by omega) hlt
  refine ⟨hlt, hP, hxv, ?_, ?_⟩
  · rw [← hP, hsv]
  · rw [hxv]; exact hI.pushed_val s.hd hlt

/-- what the read `head->prev == NULL` on the validated head sees -/
theorem empty_facts {s : St} (hI : Inv s) {t h : Nat} (hpc : s.pc t = .popVal0 h)
    (hp : s.prev h = none) :
    h = s.ordN s.hd ∧
    (s.hd + 1 = s.len ∨ ∃ u, linking (s.pc u) = some (s.ordN (s.hd + 1), s.ordN s.hd)) := by
  have hlen := hI.hd_lt
  have hin := hI.hold0_in t h (by simp [hpc, hold0])
  have hat := hI.at_head t h (by simp [hpc, atHead])
  have hl : s.life h = .inq := by
    rcases hI.p0_life t h hin with h1 | h1
    · exact h1
    · exact absurd hp (hI.ret_prev h h1)
  obtain ⟨i1, i2, i3⟩ := hI.inq_pos h hl
  have hpos : s.pos h = s.hd := by omega
  have hN : h = s.ordN s.hd := by rw [← hpos]; exact i3.symm
  refine ⟨hN, ?_⟩
  by_cases hlt : s.hd + 1 < s.len
  · right
    exact hI.link_pending s.hd (by omega) hlt (by rw [← hN]; exact hp)
  · left; omega


/-! ### refinement of the sequential specification (linearisation-point form) -/

structure Rel (a : Spec) (s : St) : Prop where
  q_eq : a.q = s.pushed.drop s.hd
  ph_eq : ∀ t, a.ph t = phaseOf (s.pc t)
  fl_in : ∀ t, phaseOf (s.pc t) = .pushLin → t ∈ a.fl

theorem rel_init : Rel Spec.init init := by
  constructor <;> simp [Spec.init, init, phaseOf]

/-- a step that only moves thread `t` to a pc of the same phase and leaves `pushed`/`hd` alone -/
theorem rel_frame {a : Spec} {s s' : St} (hR : Rel a s) (t : Nat) (B : Pc)
    (hpc : s'.pc = upd s.pc t B) (hph : phaseOf B = phaseOf (s.pc t))
    (hp : s'.pushed = s.pushed) (hh : s'.hd = s.hd) : Rel a s' := by
  have e : ∀ u, phaseOf (s'.pc u) = phaseOf (s.pc u) := by
    intro u; rw [hpc]; by_cases hu : u = t
    · subst hu; simp [hph]
    · simp [hu]
  constructor
  · rw [hp, hh]; exact hR.q_eq
  · intro u; rw [e]; exact hR.ph_eq u
  · intro u; rw [e]; exact hR.fl_in u

macro "rel_none_tac" h:ident hR:ident : tactic => `(tactic|
  (simp only [step] at $h:ident
   repeat' (split at $h:ident)
   all_goals first | (simp at $h:ident; done) | skip
   all_goals
     simp at $h:ident
     first | (obtain ⟨hc, rfl⟩ := $h:ident) | (subst $h:ident)
     first
       | exact $hR
       | (constructor <;> simp only [] <;> first | exact Rel.q_eq $hR | exact Rel.ph_eq $hR | exact Rel.fl_in $hR)
       | (simp_all; done)
       | (refine rel_frame $hR _ _ rfl ?_ rfl rfl; simp_all [phaseOf])))

theorem rel_step_none {a : Spec} {s s' : St} {e : Ev} (hR : Rel a s)
    (h : step s e = some s') (ha : api e = none) : Rel a s' := by
  cases e
  case casTail t f e d ok => cases ok <;> simp [api] at ha; rel_none_tac h hR
  case casHead t f e d ok => cases ok <;> simp [api] at ha; rel_none_tac h hR
  case rdPrev t n x => cases x <;> simp [api] at ha; rel_none_tac h hR
  all_goals first | (simp [api] at ha; done) | rel_none_tac h hR


/-- phases after thread `t` moved to a pc of phase `P` -/
theorem ph_upd {a : Spec} {s : St} (hR : Rel a s) (t : Nat) (B : Pc) (P : Phase)
    (hB : phaseOf B = P) : ∀ u, upd a.ph t P u = phaseOf (upd s.pc t B u) := by
  intro u; by_cases hu : u = t
  · subst hu; simp [hB]
  · simp [hu]; exact hR.ph_eq u

theorem drop_cons_of_getElem? {l : List Nat} {i x : Nat} (h : l[i]? = some x) :
    l.drop i = x :: l.drop (i + 1) := by
  obtain ⟨hi, rfl⟩ := List.getElem?_eq_some_iff.mp h
  exact List.drop_eq_getElem_cons hi

theorem rel_step_some {a : Spec} {s s' : St} {e : Ev} {x : Api} (hI : Inv s) (hR : Rel a s)
    (h : step s e = some s') (ha : api e = some x) :
    ∃ a', Spec.step a x = some a' ∧ Rel a' s' := by
  cases e <;> simp [api] at ha
  case callPush t v =>
    subst ha
    simp only [step] at h
    split at h <;> try (simp at h; done)
    rename_i n w hpc
    split at h <;> simp at h
    rename_i hv; subst hv; subst h
    have hph : a.ph t = .idle := by rw [hR.ph_eq, hpc]; rfl
    refine ⟨_, by simp [Spec.step, hph]; rfl, ?_⟩
    constructor
    · exact hR.q_eq
    · exact ph_upd hR t _ _ rfl
    · intro u; by_cases hu : u = t
      · subst hu; simp [phaseOf]
      · simp [hu]; exact hR.fl_in u
  case callPop t =>
    subst ha
    simp only [step] at h
    split at h <;> simp at h
    rename_i hpc; subst h
    have hph : a.ph t = .idle := by rw [hR.ph_eq, hpc]; rfl
    refine ⟨_, by simp [Spec.step, hph]; rfl, ?_⟩
    constructor
    · exact hR.q_eq
    · exact ph_upd hR t _ _ rfl
    · intro u; by_cases hu : u = t
      · subst hu; simp [phaseOf]
      · simp [hu]; exact hR.fl_in u
  case retPop t y =>
    subst ha
    simp only [step] at h
    split at h <;> try (simp at h; done)
    rename_i z hpc
    split at h <;> simp at h
    rename_i hv; subst hv; subst h
    have hph : a.ph t = .popLin y := by rw [hR.ph_eq, hpc]; rfl
    refine ⟨_, by simp [Spec.step, hph]; rfl, ?_⟩
    constructor
    · exact hR.q_eq
    · exact ph_upd hR t _ _ rfl
    · intro u; by_cases hu : u = t
      · subst hu; simp [phaseOf]
      · simp [hu]; exact hR.fl_in u
  case retPush t =>
    subst ha
    simp only [step] at h
    split at h <;> try (simp at h; done)
    rename_i hpc
    simp at h; subst h
    have hph : a.ph t = .pushLin := by rw [hR.ph_eq, hpc]; rfl
    refine ⟨_, by simp [Spec.step, hph]; rfl, ?_⟩
    constructor
    · exact hR.q_eq
    · exact ph_upd hR t _ _ rfl
    · intro u; by_cases hu : u = t
      · subst hu; simp [phaseOf]
      · simp [hu]; intro hp; exact hR.fl_in u hp
  case casTail t f e d ok =>
    cases ok <;> simp [api] at ha
    subst ha
    simp only [step] at h
    split at h <;> try (simp at h; done)
    rename_i n v tl hpc
    split at h <;> try (simp at h; done)
    simp at h; subst h
    have hph : a.ph t = .pushPend v := by rw [hR.ph_eq, hpc]; rfl
    refine ⟨_, by simp [Spec.step, hph]; rfl, ?_⟩
    have hl := hI.pushed_len
    have hlen := hI.hd_lt
    constructor
    · simp only []
      rw [List.drop_append_of_le_length (by omega), hR.q_eq]
    · exact ph_upd hR t _ _ rfl
    · intro u; by_cases hu : u = t
      · subst hu; simp
      · simp [hu]; intro hp; exact hR.fl_in u hp
  case casHead t f e d ok =>
    cases ok <;> simp [api] at ha
    subst ha
    simp only [step] at h
    split at h <;> try (simp at h; done)
    rename_i hd p x hpc
    split at h <;> try (simp at h; done)
    rename_i hc
    simp at h; subst h
    have hfh : s.head = hd := by
      obtain ⟨h1, h2, h3, h4⟩ := hc
      have : f = e := by simpa using h4.symm
      rw [← h1, this, h2]
    obtain ⟨c1, c2, c3, c4, c5⟩ := casHead_facts hI hpc hfh
    have hph : a.ph t = .popPend := by rw [hR.ph_eq, hpc]; rfl
    have hq : a.q = x :: s.pushed.drop (s.hd + 1) := by
      rw [hR.q_eq]; exact drop_cons_of_getElem? c5
    refine ⟨{ a with q := s.pushed.drop (s.hd + 1), ph := upd a.ph t (.popLin x) },
      by simp [Spec.step, hph, hq], ?_⟩
    constructor
    · rfl
    · exact ph_upd hR t _ _ rfl
    · intro u; by_cases hu : u = t
      · subst hu; simp [phaseOf]
      · simp [hu]; exact hR.fl_in u
  case rdPrev t n y =>
    cases y <;> simp [api] at ha
    subst ha
    simp only [step] at h
    split at h <;> try (simp at h; done)
    rename_i hd hpc
    split at h <;> try (simp at h; done)
    rename_i hc
    obtain ⟨rfl, hnone, hl⟩ := hc
    simp at h; subst h
    obtain ⟨e1, e2⟩ := empty_facts hI hpc hnone.symm
    have hph : a.ph t = .popPend := by rw [hR.ph_eq, hpc]; rfl
    have hlen := hI.pushed_len
    have hemp : a.q = [] ∨ a.fl ≠ [] := by
      rcases e2 with e2 | ⟨u, hu⟩
      · left; rw [hR.q_eq]; exact List.drop_eq_nil_of_le (by omega)
      · right
        have : phaseOf (s.pc u) = .pushLin := by
          cases hpu : s.pc u <;> simp [hpu, linking] at hu <;> rfl
        exact List.ne_nil_of_mem (hR.fl_in u this)
    refine ⟨{ a with ph := upd a.ph t (.popLin 0) }, by simp [Spec.step, hph, hemp], ?_⟩
    constructor
    · exact hR.q_eq
    · exact ph_upd hR t _ _ rfl
    · intro u; by_cases hu : u = t
      · subst hu; simp [phaseOf]
      · simp [hu]; exact hR.fl_in u


theorem run_snoc {σ ε : Type} (M : Sys σ ε) (l : List ε) (x : ε) (a a' : σ)
    (h : M.run l = some a) (hs : M.step a x = some a') : M.run (l ++ [x]) = some a' := by
  simp only [Sys.run] at h ⊢
  rw [Sys.runFrom_append, h]; simp [Sys.runFrom, hs]

/-- every accepted trace, projected to the API level, is a run of the sequential specification -/
theorem refines {es : List Ev} {s : St} (h : sys.run es = some s) :
    Inv s ∧ ∃ a, specSys.run (es.filterMap api) = some a ∧ Rel a s := by
  refine Sys.hist_inv_of_run sys
    (fun s es => Inv s ∧ ∃ a, specSys.run (es.filterMap api) = some a ∧ Rel a s)
    ⟨inv_init, Spec.init, rfl, rel_init⟩ ?_ h
  intro s es e s' hIH hs
  obtain ⟨hI, a, ha, hR⟩ := hIH
  refine ⟨inv_step hI hs, ?_⟩
  rw [List.filterMap_append]
  cases hx : api e with
  | none =>
    refine ⟨a, ?_, rel_step_none hR hs hx⟩
    simp [List.filterMap_cons, hx, ha]
  | some x =>
    obtain ⟨a', h1, h2⟩ := rel_step_some hI hR hs hx
    refine ⟨a', ?_, h2⟩
    simp only [List.filterMap_cons, hx, List.filterMap_nil]
    exact run_snoc specSys _ x a a' ha h1


/-! ### shape of the API-level traces the specification accepts: in each thread's own
    sequence of events every linearisation point directly follows the invocation and every
    response directly follows the linearisation point -/

def Api.tid : Api → Nat
  | .callPush t _ => t
  | .linPush t => t
  | .retPush t => t
  | .callPop t => t
  | .linPopOk t => t
  | .linPopEmpty t => t
  | .retPop t _ => t

/-- the last event of thread `t` in `l` -/
def lastOf (t : Nat) (l : List Api) : Option Api :=
  l.foldl (fun acc x => if x.tid = t then some x else acc) none

/-- what thread `t`'s phase must be, given its last event -/
def PhaseAfter (p : Phase) : Option Api → Prop
  | none => p = .idle
  | some (.callPush _ v) => p = .pushPend v
  | some (.linPush _) => p = .pushLin
  | some (.retPush _) => p = .idle
  | some (.callPop _) => p = .popPend
  | some (.linPopOk _) => ∃ x, p = .popLin x
  | some (.linPopEmpty _) => p = .popLin 0
  | some (.retPop _ _) => p = .idle

theorem spec_phase_last {l : List Api} {a : Spec} (h : specSys.run l = some a) :
    ∀ t, PhaseAfter (a.ph t) (lastOf t l) := by
  refine Sys.hist_inv_of_run specSys (fun a l => ∀ t, PhaseAfter (a.ph t) (lastOf t l)) ?_ ?_ h
  · intro t; simp [specSys, Spec.init, lastOf, PhaseAfter]
  · intro a l x a' ih hs t
    have hl : lastOf t (l ++ [x]) = if x.tid = t then some x else lastOf t l := by
      simp [lastOf, List.foldl_append]
    rw [hl]
    have := ih t
    simp only [specSys] at hs
    by_cases ht : x.tid = t
    · cases x <;> simp only [Spec.step] at hs <;> (repeat' (split at hs)) <;> simp at hs <;>
        (try subst hs) <;> simp only [Api.tid] at ht <;> subst ht <;>
        simp_all [PhaseAfter, upd_apply, Api.tid]
    · cases x <;> simp only [Spec.step] at hs <;> (repeat' (split at hs)) <;> simp at hs <;>
        (try subst hs) <;> simp only [Api.tid] at ht <;>
        simp_all [PhaseAfter, upd_apply, Api.tid] <;> (have ht' : ¬ t = _ := fun e => ht e.symm) <;>
        simp_all

end LibfiberVerif.Mpmc
