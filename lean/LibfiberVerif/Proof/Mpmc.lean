/-
  Proof/Mpmc.lean — inductive invariant of the MPMC FIFO model (property C13).
-/
import LibfiberVerif.Model.Mpmc

namespace LibfiberVerif.Mpmc

/-! ### what a program counter holds (projections used by the invariant) -/

/-- the node the thread owns exclusively (taken from the free list, not yet in the queue) -/
def own : Pc → Option Nat
  | .taken n => some n
  | .valued n _ => some n
  | .pushCalled n _ => some n
  | .pushLoop n _ => some n
  | .pushGotTail n _ _ => some n
  | .pushPub n _ _ => some n
  | .pushFenced n _ _ => some n
  | .pushVal n _ _ => some n
  | .pushNext n _ _ => some n
  | _ => none

/-- … whose `value` field has been written -/
def ownVal : Pc → Option (Nat × Nat)
  | .valued n v => some (n, v)
  | .pushCalled n v => some (n, v)
  | .pushLoop n v => some (n, v)
  | .pushGotTail n v _ => some (n, v)
  | .pushPub n v _ => some (n, v)
  | .pushFenced n v _ => some (n, v)
  | .pushVal n v _ => some (n, v)
  | .pushNext n v _ => some (n, v)
  | _ => none

/-- … whose `prev` field has been reset to NULL -/
def ownInit : Pc → Option Nat
  | .pushLoop n _ => some n
  | .pushGotTail n _ _ => some n
  | .pushPub n _ _ => some n
  | .pushFenced n _ _ => some n
  | .pushVal n _ _ => some n
  | .pushNext n _ _ => some n
  | _ => none

/-- node on which the thread holds a validated protection in slot 0 and relies on it -/
def hold0 : Pc → Option Nat
  | .pushVal _ _ tl => some tl
  | .pushNext _ _ tl => some tl
  | .pushCased _ _ tl => some tl
  | .popVal0 h => some h
  | .popGotPrev h _ => some h
  | .popPub1 h _ => some h
  | .popFenced1 h _ => some h
  | .popVal1 h _ => some h
  | .popGotVal h _ _ => some h
  | _ => none

/-- same for slot 1 -/
def hold1 : Pc → Option Nat
  | .popVal1 _ p => some p
  | .popGotVal _ p _ => some p
  | _ => none

/-- the validated head whose `prev` is about to be read -/
def atHead : Pc → Option Nat
  | .popVal0 h => some h
  | _ => none

/-- (head, prev) after `head->prev` was read non-NULL -/
def sawPrev : Pc → Option (Nat × Nat)
  | .popGotPrev h p => some (h, p)
  | .popPub1 h p => some (h, p)
  | .popFenced1 h p => some (h, p)
  | .popVal1 h p => some (h, p)
  | .popGotVal h p _ => some (h, p)
  | _ => none

/-- (prev, value) after `prev->value` was read -/
def sawVal : Pc → Option (Nat × Nat)
  | .popGotVal _ p x => some (p, x)
  | _ => none

/-- (new, old tail) between the successful tail CAS and `tail->prev = new` -/
def linking : Pc → Option (Nat × Nat)
  | .pushCased n _ tl => some (n, tl)
  | _ => none

/-! ### list helpers -/

theorem mem_clr {l : List (Nat × Nat)} {t u n : Nat} :
    (u, n) ∈ clr l t ↔ (u, n) ∈ l ∧ u ≠ t := by
  simp [clr, List.mem_filter]

theorem unprot_ne {l : List (Nat × Nat)} {n u m : Nat} (h : unprot l n = true)
    (hm : (u, m) ∈ l) : m ≠ n := by
  simp [unprot, List.all_eq_true] at h
  exact h u m hm

theorem mem_addProt {l : List (Nat × Nat)} {life : Nat → Life} {t n u m : Nat} :
    (u, m) ∈ addProt l life t n ↔ ((u, m) ∈ l ∨ (life n = .inq ∧ u = t ∧ m = n)) := by
  unfold addProt
  split <;> simp_all
  · constructor
    · rintro (⟨rfl, rfl⟩ | h) <;> simp_all
    · rintro (h | ⟨rfl, rfl⟩) <;> simp_all

/-! ### the invariant -/

structure Inv (s : St) : Prop where
  hd_lt : s.hd < s.len
  head_eq : s.head = s.ordN s.hd
  tail_eq : s.tail = s.ordN (s.len - 1)
  q_life : ∀ j, s.hd ≤ j → j < s.len → s.life (s.ordN j) = .inq
  q_pos : ∀ j, s.hd ≤ j → j < s.len → s.pos (s.ordN j) = j
  inq_pos : ∀ n, s.life n = .inq → s.hd ≤ s.pos n ∧ s.pos n < s.len ∧ s.ordN (s.pos n) = n
  ret_prev : ∀ n, s.life n = .retired → s.prev n ≠ none
  q_prev : ∀ j, s.hd ≤ j → j < s.len →
    s.prev (s.ordN j) = none ∨ (j + 1 < s.len ∧ s.prev (s.ordN j) = some (s.ordN (j + 1)))
  q_val : ∀ j, s.hd ≤ j → j < s.len → s.value (s.ordN j) = s.ordV j
  p0_life : ∀ u n, (u, n) ∈ s.prot0 → s.life n = .inq ∨ s.life n = .retired
  p1_life : ∀ u n, (u, n) ∈ s.prot1 → s.life n = .inq ∨ s.life n = .retired
  own_life : ∀ t n, own (s.pc t) = some n → s.life n = .owned t
  own_val : ∀ t n v, ownVal (s.pc t) = some (n, v) → s.value n = v
  own_init : ∀ t n, ownInit (s.pc t) = some n → s.prev n = none
  hold0_in : ∀ t n, hold0 (s.pc t) = some n → (t, n) ∈ s.prot0
  hold1_in : ∀ t n, hold1 (s.pc t) = some n → (t, n) ∈ s.prot1
  at_head : ∀ t h, atHead (s.pc t) = some h → s.pos h ≤ s.hd
  saw_prev : ∀ t h p, sawPrev (s.pc t) = some (h, p) → s.prev h = some p
  saw_val : ∀ t p x, sawVal (s.pc t) = some (p, x) → s.value p = x
  link : ∀ t n tl, linking (s.pc t) = some (n, tl) →
    s.prev tl = none ∧ s.pos tl + 1 < s.len ∧ s.ordN (s.pos tl + 1) = n ∧
    s.ordN (s.pos tl) = tl ∧ s.hd ≤ s.pos tl
  link_inj : ∀ t u n n' tl, linking (s.pc t) = some (n, tl) → linking (s.pc u) = some (n', tl) → t = u
  link_pending : ∀ j, s.hd ≤ j → j + 1 < s.len → s.prev (s.ordN j) = none →
    ∃ u, linking (s.pc u) = some (s.ordN (j + 1), s.ordN j)
  pushed_len : s.pushed.length + 1 = s.len
  pushed_val : ∀ j, j + 1 < s.len → s.pushed[j]? = some (s.ordV (j + 1))
  popped_eq : s.popped = s.pushed.take s.hd

theorem inv_init : Inv init := by
  constructor <;> simp [init, own, ownVal, ownInit, hold0, hold1, atHead, sawPrev, sawVal, linking]
  · intro n; split <;> simp

end LibfiberVerif.Mpmc
