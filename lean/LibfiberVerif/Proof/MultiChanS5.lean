/-
  Proof/MultiChanS5.lean — `MultiChan.Inv` is preserved by the events of group S5
  (one lemma per event; several modules so that they compile in parallel).
-/
import LibfiberVerif.Proof.MultiChanInv

set_option linter.unusedSimpArgs false

namespace LibfiberVerif.MultiChan
set_option maxHeartbeats 4000000 in
theorem inv_step_wScratch (s s' : St) (f g x : Nat) (htwo : s.two = false) (hi : Inv s)
    (hs : step s (.wScratch f g x) = some s') : Inv s' := by
  have hI := hi
  obtain ⟨h1, h2, h3, h4, h5, h6, h7, h8, h9, h10, h11, h12, h13, h14, h15, h16, h17, h18, h19, h20,
    h21, h22, h23, h24, h25, h26, h27, h28, h29, h30, h31, h32⟩ := hi
  simp only [step] at hs
  split at hs
  · rename_i o w hpc
    split at hs <;> simp at hs
    rename_i hc
    obtain ⟨hg, hx⟩ := hc
    subst hg hx hs
    have hnot : g ∉ s.wl := by
      intro hm
      obtain ⟨⟨o', ho'⟩, _⟩ := hI.wl_listed g hm
      simp [hpc, Pc.listedOp] at ho'
    have hch := chainW_upd_of_not_mem s.scr g x s.wl hnot hI.chain
    constructor
    case chain => exact hch
    all_goals mc_close
  · rename_i res w hpc
    split at hs <;> simp at hs
    rename_i hc
    obtain ⟨hg, hx⟩ := hc
    subst hg hx hs
    have hwk := hI.waking_of f g (by simp [hpc, Pc.wakingOf])
    have hnot : g ∉ s.wl := (hI.waking_lock g hwk).2.1
    have hch := chainW_upd_of_not_mem s.scr g 0 s.wl hnot hI.chain
    constructor
    case chain => exact hch
    all_goals mc_close
  · simp at hs

set_option maxHeartbeats 4000000 in
theorem inv_step_wWaiters (s s' : St) (f w : Nat) (htwo : s.two = false) (hi : Inv s)
    (hs : step s (.wWaiters f w) = some s') : Inv s' := by
  have hI := hi
  obtain ⟨h1, h2, h3, h4, h5, h6, h7, h8, h9, h10, h11, h12, h13, h14, h15, h16, h17, h18, h19, h20,
    h21, h22, h23, h24, h25, h26, h27, h28, h29, h30, h31, h32⟩ := hi
  simp only [step, htwo] at hs
  simp only [Bool.false_eq_true, false_implies, and_true, false_and, not_false_eq_true] at hs
  split at hs
  · -- internal_wait: link self in front
    rename_i o hpc
    split at hs <;> simp at hs
    rename_i hw
    subst hw hs
    have hscr := hI.wLinked_eq w o hpc
    have hnot : w ∉ s.wl := by
      intro hm
      obtain ⟨⟨o', ho'⟩, _⟩ := hI.wl_listed w hm
      simp [hpc, Pc.listedOp] at ho'
    have hnz : w ≠ 0 := hI.nz w (by simp [hpc])
    have hwk : s.woken w = false := by
      cases hw : s.woken w with
      | false => rfl
      | true => obtain ⟨o', ho'⟩ := hI.woken_asleep w hw; simp [hpc] at ho'
    cases o with
    | recv =>
      have hle := hI.wait_recv w (by simp [hpc, Pc.waitOp])
      constructor
      case chain => exact ⟨by rw [hscr, hI.waiters_eq], hI.chain⟩
      case wl_nodup => exact List.nodup_cons.2 ⟨hnot, hI.wl_nodup⟩
      case actR => intro _ _ hgt; exact absurd hle (Nat.not_le.2 hgt)
      all_goals mc_close
    | send v =>
      have hle := hI.wait_send w v (by simp [hpc, Pc.waitOp])
      constructor
      case chain => exact ⟨by rw [hscr, hI.waiters_eq], hI.chain⟩
      case wl_nodup => exact List.nodup_cons.2 ⟨hnot, hI.wl_nodup⟩
      case actS => intro _ _ hlt; exact absurd hlt hle
      all_goals mc_close
  · -- internal_wake: unlink the head
    rename_i res g x hpc
    split at hs <;> simp at hs
    rename_i hw
    subst hw hs
    obtain ⟨rest, hwl, hx⟩ := hI.kNext_head f res g w hpc
    have hch := hI.chain
    have hnd := hI.wl_nodup
    rw [hwl] at hch hnd
    simp only [List.nodup_cons] at hnd
    have hlock := hI.cs_lock f (by simp [hpc, Pc.inCS])
    have hgl := hI.wl_listed g (by rw [hwl]; simp)
    have hgpc : ∃ o, s.pc g = .wAsleep o := by
      obtain ⟨⟨o, ho⟩, _⟩ := hgl
      rcases listedOp_cases _ _ ho with h | h | h
      · have := hI.cs_lock g (by simp [h, Pc.inCS]); rw [hlock] at this
        have : f = g := Option.some.inj this
        subst this; simp [hpc] at h
      · have := hI.cs_lock g (by simp [h, Pc.inCS]); rw [hlock] at this
        have : f = g := Option.some.inj this
        subst this; simp [hpc] at h
      · exact ⟨o, h⟩
    have hgf : g ≠ f := by
      intro e; subst e; obtain ⟨o, ho⟩ := hgpc; simp [hpc] at ho
    have hrest : ∀ m, m ∈ rest → m ∈ s.wl := by intro m hm; rw [hwl]; simp [hm]
    constructor
    case waiters_eq => simp [hwl, hx]
    case chain => simpa [hwl] using hch.2
    case wl_nodup => simpa [hwl] using hnd.2
    case wl_nz => intro h0; simp only [hwl, List.drop_succ_cons, List.drop_zero] at h0; exact hI.wl_nz (hrest 0 h0)
    case wl_listed =>
      intro m hm
      simp only [hwl, List.drop_succ_cons, List.drop_zero] at hm
      have hmf : m ≠ f := by
        intro e; subst e
        obtain ⟨⟨o, ho⟩, _⟩ := hI.wl_listed m (hrest m hm)
        simp [hpc, Pc.listedOp] at ho
      have := hI.wl_listed m (hrest m hm)
      simpa [upd, hmf] using this
    case waking_lock =>
      intro m hm
      simp only [Option.some.injEq] at hm
      subst hm
      obtain ⟨o, ho⟩ := hgpc
      refine ⟨⟨f, hlock, by simp [upd, Pc.wakingOf]⟩, ?_, hgl.2, o, by simp [upd, hgf, ho]⟩
      simp only [hwl, List.drop_succ_cons, List.drop_zero]; exact hnd.1
    case asleep_wl =>
      intro m o hm hwk
      simp only [upd] at hm
      split at hm
      · simp at hm
      · rename_i hmf
        by_cases hmg : m = g
        · right; simp [hmg]
        · left
          rcases hI.asleep_wl m o hm hwk with h | h
          · rw [hwl] at h
            simp only [List.mem_cons] at h
            simp only [hwl, List.drop_succ_cons, List.drop_zero]
            rcases h with h | h
            · exact absurd h hmg
            · exact h
          · have := (hI.waking_lock m h).1
            obtain ⟨g', hg', hw'⟩ := this
            rw [hlock] at hg'
            have : f = g' := Option.some.inj hg'
            subst this
            simp [hpc, Pc.wakingOf] at hw'
    case listed_wl1 =>
      intro m o hm
      simp only [upd] at hm
      split at hm
      · simp at hm
      · rename_i hmf
        have := hI.cs_lock m (by simp [hm, Pc.inCS]); rw [hlock] at this
        exact absurd (Option.some.inj this).symm hmf
    case listed_wl2 =>
      intro m o hm
      simp only [upd] at hm
      split at hm
      · simp at hm
      · rename_i hmf
        have := hI.cs_lock m (by simp [hm, Pc.inCS]); rw [hlock] at this
        exact absurd (Option.some.inj this).symm hmf
    case kGot_head =>
      intro m r w' hm
      simp only [upd] at hm
      split at hm
      · simp at hm
      · rename_i hmf
        have := hI.cs_lock m (by simp [hm, Pc.inCS]); rw [hlock] at this
        exact absurd (Option.some.inj this).symm hmf
    case kNext_head =>
      intro m r w' x' hm
      simp only [upd] at hm
      split at hm
      · simp at hm
      · rename_i hmf
        have := hI.cs_lock m (by simp [hm, Pc.inCS]); rw [hlock] at this
        exact absurd (Option.some.inj this).symm hmf
    case actR =>
      intro _ _ _
      exact ⟨f, by simp [upd, Pc.witR]⟩
    case actS =>
      intro _ _ _
      exact ⟨f, by simp [upd, Pc.witS]⟩
    all_goals mc_close
  · simp at hs
end LibfiberVerif.MultiChan
