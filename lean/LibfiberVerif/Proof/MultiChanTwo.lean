/-
  Proof/MultiChanTwo.lean — the invariant of the multi channel model under the TWO-LIST
  discipline (`St.two = true`: `waiters` = blocked receivers, `send_waiters` = blocked senders; a
  send wakes a receiver, a receive wakes a sender — /repo since commit b18179b).

  The heart is a counting argument.  `awR` is the (duplicate-free) list of receivers that are
  awake and have not yet taken their message; as long as some receiver is blocked,
      #messages buffered  ≤  #awake receivers  (+ 1 while a sender still owes its wake-up),
  because every message put while the receivers' list is non-empty wakes exactly one of them.
  Symmetrically for free slots and senders.  In a quiescent state both right-hand sides are 0,
  so a blocked receiver faces an empty ring and a blocked sender a full one: no lost wake-up.
-/
import LibfiberVerif.Proof.MultiChanRingStep

set_option linter.unusedSimpArgs false
set_option linter.unusedVariables false

namespace LibfiberVerif.MultiChan

/-- a receiver that is awake and has not yet taken its message -/
def Pc.awakeR : Pc → Bool → Bool
  | .lock o, _ => o.isRecv | .lockWait o, _ => o.isRecv | .gotHigh o _, _ => o.isRecv | .gotLow o _ _, _ => o.isRecv
  | .rRead _ _, _ => true | .rCleared _ _, _ => true
  | .wAsleep o, wk => o.isRecv && wk
  | .idle, _ => false | .wGot _ _, _ => false | .wLinked _, _ => false | .wListed _, _ => false | .wPending _, _ => false
  | .sWrote _ _, _ => false
  | .kTop _, _ => false | .kGot _ _, _ => false | .kNext _ _ _, _ => false | .kUnl _ _, _ => false | .kClr _ _, _ => false
  | .unlock _, _ => false | .handing _, _ => false | .done _, _ => false

/-- a sender that is awake and has not yet put its message -/
def Pc.awakeS : Pc → Bool → Bool
  | .lock o, _ => o.isSend | .lockWait o, _ => o.isSend | .gotHigh o _, _ => o.isSend | .gotLow o _ _, _ => o.isSend
  | .sWrote _ _, _ => true
  | .wAsleep o, wk => o.isSend && wk
  | .idle, _ => false | .wGot _ _, _ => false | .wLinked _, _ => false | .wListed _, _ => false | .wPending _, _ => false
  | .rRead _ _, _ => false | .rCleared _ _, _ => false
  | .kTop _, _ => false | .kGot _ _, _ => false | .kNext _ _ _, _ => false | .kUnl _ _, _ => false | .kClr _ _, _ => false
  | .unlock _, _ => false | .handing _, _ => false | .done _, _ => false

/-- inside internal_wake -/
def Pc.isWaker : Pc → Bool
  | .kTop _ => true | .kGot _ _ => true | .kNext _ _ _ => true | .kUnl _ _ => true | .kClr _ _ => true
  | .idle => false | .lock _ => false | .lockWait _ => false | .gotHigh _ _ => false | .gotLow _ _ _ => false
  | .wGot _ _ => false | .wLinked _ => false | .wListed _ => false | .wPending _ => false | .wAsleep _ => false
  | .sWrote _ _ => false | .rRead _ _ => false | .rCleared _ _ => false
  | .unlock _ => false | .handing _ => false | .done _ => false

theorem isWaker_inCS (p : Pc) (h : p.isWaker = true) : p.inCS = true := by
  cases p <;> simp [Pc.isWaker, Pc.inCS] at *

def b2n (b : Bool) : Nat := if b then 1 else 0

structure Inv2 (s : St) : Prop where
  two : s.two = true
  wait_recv : ∀ f, (s.pc f).waitOp = some .recv → s.high ≤ s.low
  wait_send : ∀ f v, (s.pc f).waitOp = some (.send v) → ¬ (s.high - s.low < s.cap)
  wGot_r : ∀ f w, s.pc f = .wGot .recv w → w = s.waiters
  wGot_s : ∀ f v w, s.pc f = .wGot (.send v) w → w = s.swaiters
  wLinked_r : ∀ f, s.pc f = .wLinked .recv → s.scr f = s.waiters
  wLinked_s : ∀ f v, s.pc f = .wLinked (.send v) → s.scr f = s.swaiters
  woken_asleep : ∀ f, s.woken f = true → ∃ o, s.pc f = .wAsleep o
  -- the receivers' list
  waiters_eq : s.waiters = headW s.wl
  chain : ChainW s.scr s.wl
  wl_nodup : s.wl.Nodup
  wl_nz : 0 ∉ s.wl
  wl_listed : ∀ f, f ∈ s.wl → (s.pc f).listedOp = some .recv ∧ s.woken f = false
  listed_wl1 : ∀ f, s.pc f = .wListed .recv → f ∈ s.wl
  listed_wl2 : ∀ f, s.pc f = .wPending .recv → f ∈ s.wl
  -- the senders' list
  swaiters_eq : s.swaiters = headW s.swl
  schain : ChainW s.scr s.swl
  swl_nodup : s.swl.Nodup
  swl_nz : 0 ∉ s.swl
  swl_listed : ∀ f, f ∈ s.swl → (∃ v, (s.pc f).listedOp = some (.send v)) ∧ s.woken f = false
  slisted_wl1 : ∀ f v, s.pc f = .wListed (.send v) → f ∈ s.swl
  slisted_wl2 : ∀ f v, s.pc f = .wPending (.send v) → f ∈ s.swl
  -- internal_wake in progress
  kGot_r : ∀ g res w, s.pc g = .kGot res w → s.wk = false → ∃ rest, s.wl = w :: rest
  kGot_s : ∀ g res w, s.pc g = .kGot res w → s.wk = true → ∃ rest, s.swl = w :: rest
  kNext_r : ∀ g res w x, s.pc g = .kNext res w x → s.wk = false → ∃ rest, s.wl = w :: rest ∧ x = headW rest
  kNext_s : ∀ g res w x, s.pc g = .kNext res w x → s.wk = true → ∃ rest, s.swl = w :: rest ∧ x = headW rest
  waking_of : ∀ g w, (s.pc g).wakingOf = some w → s.waking = some w
  waking_lock : ∀ w, s.waking = some w →
    (∃ g, s.lock = some g ∧ (s.pc g).wakingOf = some w) ∧ w ∉ s.wl ∧ w ∉ s.swl ∧ s.woken w = false ∧
    (s.wk = false → s.pc w = .wAsleep .recv) ∧ (s.wk = true → ∃ v, s.pc w = .wAsleep (.send v))
  asleep_r : ∀ f, s.pc f = .wAsleep .recv → s.woken f = false → f ∈ s.wl ∨ s.waking = some f
  asleep_s : ∀ f v, s.pc f = .wAsleep (.send v) → s.woken f = false → f ∈ s.swl ∨ s.waking = some f
  fibers_all : ∀ f, s.pc f ≠ .idle → f ∈ s.fibers
  nz : ∀ f, s.pc f ≠ .idle → f ≠ 0
  -- awake fibers, owed wake-up
  awR_nodup : s.awR.Nodup
  awS_nodup : s.awS.Nodup
  awR_iff : ∀ f, f ∈ s.awR ↔ (s.pc f).awakeR (s.woken f) = true
  awS_iff : ∀ f, f ∈ s.awS ↔ (s.pc f).awakeS (s.woken f) = true
  pw_lock : s.pw = true → ∃ g, s.lock = some g ∧ (s.pc g).isWaker = true
  waker_pw : ∀ g, (s.pc g).isWaker = true → s.pw = true
  -- the counting invariants
  actR : s.wl ≠ [] → s.high ≤ s.low + s.awR.length + b2n (s.pw && !s.wk)
  actS : s.swl ≠ [] → s.cap + s.low ≤ s.high + s.awS.length + b2n (s.pw && s.wk)

theorem inv2_init (cap : Nat) : Inv2 (init true cap) := by
  constructor <;> simp [init, Pc.inCS, Pc.wakingOf, Pc.waitOp, Pc.listedOp, headW, ChainW, Pc.awakeR, Pc.awakeS, Pc.isWaker]

/-- closes one conjunct of `Inv2 s'` for an explicit successor record -/
macro "m2_close" : tactic =>
  `(tactic| (intros; (try simp only [upd, b2n] at *); first | done | grind (splits := 14) (ematch := 8) (instances := 4000) [Pc.inCS, Pc.wakingOf, Pc.waitOp, Pc.listedOp, Pc.awakeR, Pc.awakeS, Pc.isWaker, Op.isRecv, Op.isSend, headW, ChainW, mem_addFiber, waitOp_inCS, wakingOf_inCS, isWaker_inCS, headW_mem, headW_cons, listedOp_cases, Op.isRecv_false, Op.isSend_false, List.mem_erase_of_ne, List.Nodup.erase, List.length_erase_of_mem, List.Nodup.mem_erase_iff]))

end LibfiberVerif.MultiChan
