/-
  Proof/MultiChanRingStep.lean — `MultiChan.RInv` (ring buffer contents, exactly-once, order,
  capacity) is preserved by every event; consequences used in Props/C11.lean.
-/
import LibfiberVerif.Proof.MultiChanRing

set_option linter.unusedSimpArgs false
set_option linter.deprecated false

namespace LibfiberVerif.MultiChan

macro "mr_close" : tactic =>
  `(tactic| (intros; (try simp only [upd, val, sentBy] at *); first | done | grind [Pc.pending, Op.pend, Pc.inCS]))

set_option maxHeartbeats 4000000 in
theorem rinv_step_callSend (s s' : St) (f v : _) (hi : LInv s) (hr : RInv s) (hs : step s (.callSend f v) = some s') : RInv s' := by
  have hR := hr
  obtain ⟨r1, r2, r3, r4, r5, r6, r7, r8, r9, r10, r11⟩ := hr
  simp only [step] at hs
  repeat' (split at hs)
  all_goals (try simp at hs)
  all_goals (first | subst hs | (obtain ⟨_, hs⟩ := hs; subst hs))
  all_goals (constructor <;> mr_close)

set_option maxHeartbeats 4000000 in
theorem rinv_step_retSend (s s' : St) (f : _) (hi : LInv s) (hr : RInv s) (hs : step s (.retSend f) = some s') : RInv s' := by
  have hR := hr
  obtain ⟨r1, r2, r3, r4, r5, r6, r7, r8, r9, r10, r11⟩ := hr
  simp only [step] at hs
  repeat' (split at hs)
  all_goals (try simp at hs)
  all_goals (first | subst hs | (obtain ⟨_, hs⟩ := hs; subst hs))
  all_goals (constructor <;> mr_close)

set_option maxHeartbeats 4000000 in
theorem rinv_step_callRecv (s s' : St) (f : _) (hi : LInv s) (hr : RInv s) (hs : step s (.callRecv f) = some s') : RInv s' := by
  have hR := hr
  obtain ⟨r1, r2, r3, r4, r5, r6, r7, r8, r9, r10, r11⟩ := hr
  simp only [step] at hs
  repeat' (split at hs)
  all_goals (try simp at hs)
  all_goals (first | subst hs | (obtain ⟨_, hs⟩ := hs; subst hs))
  all_goals (constructor <;> mr_close)

set_option maxHeartbeats 4000000 in
theorem rinv_step_retRecv (s s' : St) (f v : _) (hi : LInv s) (hr : RInv s) (hs : step s (.retRecv f v) = some s') : RInv s' := by
  have hR := hr
  obtain ⟨r1, r2, r3, r4, r5, r6, r7, r8, r9, r10, r11⟩ := hr
  simp only [step] at hs
  repeat' (split at hs)
  all_goals (try simp at hs)
  all_goals (first | subst hs | (obtain ⟨_, hs⟩ := hs; subst hs))
  all_goals (constructor <;> mr_close)

set_option maxHeartbeats 4000000 in
theorem rinv_step_fsub (s s' : St) (f old : _) (hi : LInv s) (hr : RInv s) (hs : step s (.fsub f old) = some s') : RInv s' := by
  have hR := hr
  obtain ⟨r1, r2, r3, r4, r5, r6, r7, r8, r9, r10, r11⟩ := hr
  simp only [step] at hs
  repeat' (split at hs)
  all_goals (try simp at hs)
  all_goals (first | subst hs | (obtain ⟨_, hs⟩ := hs; subst hs))
  all_goals (constructor <;> mr_close)

set_option maxHeartbeats 4000000 in
theorem rinv_step_fadd (s s' : St) (f old : _) (hi : LInv s) (hr : RInv s) (hs : step s (.fadd f old) = some s') : RInv s' := by
  have hR := hr
  obtain ⟨r1, r2, r3, r4, r5, r6, r7, r8, r9, r10, r11⟩ := hr
  simp only [step] at hs
  repeat' (split at hs)
  all_goals (try simp at hs)
  all_goals (first | subst hs | (obtain ⟨_, hs⟩ := hs; subst hs))
  all_goals (constructor <;> mr_close)

set_option maxHeartbeats 4000000 in
theorem rinv_step_handoff (s s' : St) (f g : _) (hi : LInv s) (hr : RInv s) (hs : step s (.handoff f g) = some s') : RInv s' := by
  have hR := hr
  obtain ⟨r1, r2, r3, r4, r5, r6, r7, r8, r9, r10, r11⟩ := hr
  simp only [step] at hs
  repeat' (split at hs)
  all_goals (try simp at hs)
  all_goals (first | subst hs | (obtain ⟨_, hs⟩ := hs; subst hs))
  all_goals (constructor <;> mr_close)

set_option maxHeartbeats 4000000 in
theorem rinv_step_rHigh (s s' : St) (f h : _) (hi : LInv s) (hr : RInv s) (hs : step s (.rHigh f h) = some s') : RInv s' := by
  have hR := hr
  obtain ⟨r1, r2, r3, r4, r5, r6, r7, r8, r9, r10, r11⟩ := hr
  simp only [step] at hs
  repeat' (split at hs)
  all_goals (try simp at hs)
  all_goals (first | subst hs | (obtain ⟨_, hs⟩ := hs; subst hs))
  all_goals (constructor <;> mr_close)

set_option maxHeartbeats 4000000 in
theorem rinv_step_rLow (s s' : St) (f l : _) (hi : LInv s) (hr : RInv s) (hs : step s (.rLow f l) = some s') : RInv s' := by
  have hR := hr
  obtain ⟨r1, r2, r3, r4, r5, r6, r7, r8, r9, r10, r11⟩ := hr
  simp only [step] at hs
  repeat' (split at hs)
  all_goals (try simp at hs)
  all_goals (first | subst hs | (obtain ⟨_, hs⟩ := hs; subst hs))
  all_goals (constructor <;> mr_close)

set_option maxHeartbeats 4000000 in
theorem rinv_step_rWaiters (s s' : St) (f w : _) (hi : LInv s) (hr : RInv s) (hs : step s (.rWaiters f w) = some s') : RInv s' := by
  have hR := hr
  obtain ⟨r1, r2, r3, r4, r5, r6, r7, r8, r9, r10, r11⟩ := hr
  simp only [step] at hs
  repeat' (split at hs)
  all_goals (try simp at hs)
  all_goals (first | subst hs | (obtain ⟨_, hs⟩ := hs; subst hs))
  all_goals (constructor <;> mr_close)

set_option maxHeartbeats 4000000 in
theorem rinv_step_wWaiters (s s' : St) (f w : _) (hi : LInv s) (hr : RInv s) (hs : step s (.wWaiters f w) = some s') : RInv s' := by
  have hR := hr
  obtain ⟨r1, r2, r3, r4, r5, r6, r7, r8, r9, r10, r11⟩ := hr
  simp only [step] at hs
  repeat' (split at hs)
  all_goals (try simp at hs)
  all_goals (first | subst hs | (obtain ⟨_, hs⟩ := hs; subst hs))
  all_goals (constructor <;> mr_close)

set_option maxHeartbeats 4000000 in
theorem rinv_step_rScratch (s s' : St) (f g x : _) (hi : LInv s) (hr : RInv s) (hs : step s (.rScratch f g x) = some s') : RInv s' := by
  have hR := hr
  obtain ⟨r1, r2, r3, r4, r5, r6, r7, r8, r9, r10, r11⟩ := hr
  simp only [step] at hs
  repeat' (split at hs)
  all_goals (try simp at hs)
  all_goals (first | subst hs | (obtain ⟨_, hs⟩ := hs; subst hs))
  all_goals (constructor <;> mr_close)

set_option maxHeartbeats 4000000 in
theorem rinv_step_rSWaiters (s s' : St) (f w : _) (hi : LInv s) (hr : RInv s) (hs : step s (.rSWaiters f w) = some s') : RInv s' := by
  have hR := hr
  obtain ⟨r1, r2, r3, r4, r5, r6, r7, r8, r9, r10, r11⟩ := hr
  simp only [step] at hs
  repeat' (split at hs)
  all_goals (try simp at hs)
  all_goals (first | subst hs | (obtain ⟨_, hs⟩ := hs; subst hs))
  all_goals (constructor <;> mr_close)

set_option maxHeartbeats 4000000 in
theorem rinv_step_wSWaiters (s s' : St) (f w : _) (hi : LInv s) (hr : RInv s) (hs : step s (.wSWaiters f w) = some s') : RInv s' := by
  have hR := hr
  obtain ⟨r1, r2, r3, r4, r5, r6, r7, r8, r9, r10, r11⟩ := hr
  simp only [step] at hs
  repeat' (split at hs)
  all_goals (try simp at hs)
  all_goals (first | subst hs | (obtain ⟨_, hs⟩ := hs; subst hs))
  all_goals (constructor <;> mr_close)

set_option maxHeartbeats 4000000 in
theorem rinv_step_wScratch (s s' : St) (f g x : _) (hi : LInv s) (hr : RInv s) (hs : step s (.wScratch f g x) = some s') : RInv s' := by
  have hR := hr
  obtain ⟨r1, r2, r3, r4, r5, r6, r7, r8, r9, r10, r11⟩ := hr
  simp only [step] at hs
  repeat' (split at hs)
  all_goals (try simp at hs)
  all_goals (first | subst hs | (obtain ⟨_, hs⟩ := hs; subst hs))
  all_goals (constructor <;> mr_close)

set_option maxHeartbeats 4000000 in
theorem rinv_step_wStateWaiting (s s' : St) (f : _) (hi : LInv s) (hr : RInv s) (hs : step s (.wStateWaiting f) = some s') : RInv s' := by
  have hR := hr
  obtain ⟨r1, r2, r3, r4, r5, r6, r7, r8, r9, r10, r11⟩ := hr
  simp only [step] at hs
  repeat' (split at hs)
  all_goals (try simp at hs)
  all_goals (first | subst hs | (obtain ⟨_, hs⟩ := hs; subst hs))
  all_goals (constructor <;> mr_close)

set_option maxHeartbeats 4000000 in
theorem rinv_step_wStateReady (s s' : St) (f g : _) (hi : LInv s) (hr : RInv s) (hs : step s (.wStateReady f g) = some s') : RInv s' := by
  have hR := hr
  obtain ⟨r1, r2, r3, r4, r5, r6, r7, r8, r9, r10, r11⟩ := hr
  simp only [step] at hs
  repeat' (split at hs)
  all_goals (try simp at hs)
  all_goals (first | subst hs | (obtain ⟨_, hs⟩ := hs; subst hs))
  all_goals (constructor <;> mr_close)

set_option maxHeartbeats 4000000 in
theorem rinv_step_rBuf (s s' : St) (f i x : Nat) (hi : LInv s) (hr : RInv s)
    (hs : step s (.rBuf f i x) = some s') : RInv s' := by
  have hR := hr
  obtain ⟨r1, r2, r3, r4, r5, r6, r7, r8, r9, r10, r11⟩ := hr
  simp only [step] at hs
  split at hs <;> simp at hs
  rename_i h l hpc
  obtain ⟨⟨hgt, hidx, hx⟩, hs⟩ := hs
  subst hs
  obtain ⟨hh, hl⟩ := hi.gotLow_eq f .recv h l hpc
  have huniq : ∀ g, (s.pc g).inCS = true → g = f := fun g hg =>
    (cs_unique hi (by simp [hpc, Pc.inCS]) hg).symm
  have hval : x = val s l := by
    rw [hx, hidx]
    apply hR.slots l (by omega) (by omega)
    intro g m hg
    have := huniq g (by simp [hg, Pc.inCS])
    subst this; simp [hpc] at hg
  constructor
  case rRead_val =>
    intro g l' m hg
    simp only [upd] at hg
    split at hg
    · simp at hg; obtain ⟨rfl, rfl⟩ := hg; exact hval
    · have := huniq g (by simp [hg, Pc.inCS]); contradiction
  all_goals mr_close

set_option maxHeartbeats 4000000 in
theorem rinv_step_wLow (s s' : St) (f l : Nat) (hi : LInv s) (hr : RInv s)
    (hs : step s (.wLow f l) = some s') : RInv s' := by
  have hR := hr
  obtain ⟨r1, r2, r3, r4, r5, r6, r7, r8, r9, r10, r11⟩ := hr
  simp only [step] at hs
  split at hs <;> simp at hs
  rename_i l' m hpc
  obtain ⟨hl, hs⟩ := hs
  subst hl hs
  obtain ⟨hlow, hgt⟩ := hi.rCleared_eq f l' m hpc
  subst hlow
  obtain ⟨hmv, hbuf⟩ := hR.rCleared_val f s.low m hpc
  have huniq : ∀ g, (s.pc g).inCS = true → g = f := fun g hg =>
    (cs_unique hi (by simp [hpc, Pc.inCS]) hg).symm
  have hlt : s.low < s.sent.length := by rw [r1]; exact hgt
  have htake : (s.sent.take (s.low + 1)).map Prod.snd = (s.sent.take s.low).map Prod.snd ++ [m] := by
    rw [List.take_succ, List.map_append]
    simp only [hmv, val]
    rw [List.getElem?_eq_getElem hlt]
    simp
  constructor
  case lowhigh => simp only; omega
  case recvd_eq => simp only; rw [r3, htake]
  case slots =>
    intro i h1 h2 h3
    simp only at h1 h2
    have := hR.slots i (by omega) h2 (by
      intro g m' hg
      have := huniq g (by simp [hg, Pc.inCS])
      subst this; rw [hpc] at hg; simp at hg; omega)
    simpa [val] using this
  case free =>
    intro j hj hfree hsw
    simp only at hfree
    by_cases hjl : s.low % s.cap = j
    · rw [← hjl]; exact hbuf
    · apply hR.free j hj
      · intro i h1 h2
        by_cases hil : i = s.low
        · subst hil; exact hjl
        · exact hfree i (by omega) h2
      · intro g v h hg
        have := huniq g (by simp [hg, Pc.inCS])
        subst this; rw [hpc] at hg; simp at hg
  case rCleared_val =>
    intro g l2 m2 hg
    simp only [upd] at hg
    split at hg
    · simp at hg
    · have := huniq g (by simp [hg, Pc.inCS]); contradiction
  case rRead_val =>
    intro g l2 m2 hg
    simp only [upd] at hg
    split at hg
    · simp at hg
    · have := huniq g (by simp [hg, Pc.inCS]); contradiction
  case sWrote_slot =>
    intro g v h hg
    simp only [upd] at hg
    split at hg
    · simp at hg
    · have := huniq g (by simp [hg, Pc.inCS]); contradiction
  all_goals mr_close

/-- the slot a sender is about to write is free: NULL, and the ring is not full -/
theorem send_slot_free {s : St} (hi : LInv s) (hr : RInv s) (f v h l : Nat)
    (hpc : s.pc f = .gotLow (.send v) h l) (hlt : h - l < s.cap) :
    s.buf (h % s.cap) = 0 ∧ s.high - s.low < s.cap := by
  obtain ⟨hh, hl⟩ := hi.gotLow_eq f (.send v) h l hpc
  subst hh hl
  refine ⟨?_, hlt⟩
  apply hr.free _ (Nat.mod_lt _ (by omega))
  · intro i h1 h2
    exact mod_ne_of_lt h2 (by omega)
  · intro g v' h' hg
    have := cs_unique hi (f := f) (g := g) (by simp [hpc, Pc.inCS]) (by simp [hg, Pc.inCS])
    subst this; rw [hpc] at hg; simp at hg

set_option maxHeartbeats 4000000 in
theorem rinv_step_wBuf (s s' : St) (f i x : Nat) (hi : LInv s) (hr : RInv s)
    (hs : step s (.wBuf f i x) = some s') : RInv s' := by
  have hR := hr
  obtain ⟨r1, r2, r3, r4, r5, r6, r7, r8, r9, r10, r11⟩ := hr
  simp only [step] at hs
  split at hs
  · -- sender writes its message into slot high % size
    rename_i v h l hpc
    split at hs <;> simp at hs
    rename_i hc
    obtain ⟨hlt, hidx, hx⟩ := hc
    subst hidx hx hs
    obtain ⟨hh, hl⟩ := hi.gotLow_eq f (.send x) h l hpc
    subst hh hl
    have huniq : ∀ g, (s.pc g).inCS = true → g = f := fun g hg =>
      (cs_unique hi (by simp [hpc, Pc.inCS]) hg).symm
    constructor
    case slots =>
      intro i h1 h2 h3
      simp only at h1 h2
      have hne : i % s.cap ≠ s.high % s.cap := mod_ne_of_lt h2 (by omega)
      have := hR.slots i h1 h2 (by
        intro g m hg
        have := huniq g (by simp [hg, Pc.inCS])
        subst this; rw [hpc] at hg; simp at hg)
      simpa [upd, hne, val] using this
    case sWrote_slot =>
      intro g v h hg
      simp only [upd] at hg
      split at hg
      · simp at hg; obtain ⟨rfl, rfl⟩ := hg; simp [upd]
      · have := huniq g (by simp [hg, Pc.inCS]); contradiction
    case rRead_val =>
      intro g l2 m2 hg
      simp only [upd] at hg
      split at hg
      · simp at hg
      · have := huniq g (by simp [hg, Pc.inCS]); contradiction
    case rCleared_val =>
      intro g l2 m2 hg
      simp only [upd] at hg
      split at hg
      · simp at hg
      · have := huniq g (by simp [hg, Pc.inCS]); contradiction
    case free =>
      intro j hj hfree hsw
      have hjn : s.high % s.cap ≠ j := hsw f x s.high (by simp [upd])
      have := hR.free j hj hfree (by
        intro g v h hg
        have := huniq g (by simp [hg, Pc.inCS])
        subst this; rw [hpc] at hg; simp at hg)
      simp only [upd]
      rw [if_neg (fun e => hjn e.symm)]; exact this
    all_goals mr_close
  · -- receiver clears the slot it read
    rename_i l m hpc
    split at hs <;> simp at hs
    rename_i hc
    obtain ⟨hidx, hx⟩ := hc
    subst hidx hx hs
    obtain ⟨hl, hgt⟩ := hi.rRead_eq f l m hpc
    subst hl
    have hm := hR.rRead_val f s.low m hpc
    have huniq : ∀ g, (s.pc g).inCS = true → g = f := fun g hg =>
      (cs_unique hi (by simp [hpc, Pc.inCS]) hg).symm
    constructor
    case slots =>
      intro i h1 h2 h3
      simp only at h1 h2
      have hil : i ≠ s.low := by
        intro e; subst e; exact h3 f m (by simp [upd])
      have hne : i % s.cap ≠ s.low % s.cap := (mod_ne_of_lt (by omega) (by omega)).symm
      have := hR.slots i h1 h2 (by
        intro g m' hg
        have := huniq g (by simp [hg, Pc.inCS])
        subst this; rw [hpc] at hg; simp at hg)
      simpa [upd, hne, val] using this
    case sWrote_slot =>
      intro g v h hg
      simp only [upd] at hg
      split at hg
      · simp at hg
      · have := huniq g (by simp [hg, Pc.inCS]); contradiction
    case rRead_val =>
      intro g l2 m2 hg
      simp only [upd] at hg
      split at hg
      · simp at hg
      · have := huniq g (by simp [hg, Pc.inCS]); contradiction
    case rCleared_val =>
      intro g l2 m2 hg
      simp only [upd] at hg
      split at hg
      · simp at hg; obtain ⟨rfl, rfl⟩ := hg; exact ⟨by simpa [val] using hm, by simp [upd]⟩
      · have := huniq g (by simp [hg, Pc.inCS]); contradiction
    case free =>
      intro j hj hfree hsw
      simp only [upd]
      split
      · rfl
      · exact hR.free j hj hfree (by
          intro g v h hg
          have := huniq g (by simp [hg, Pc.inCS])
          subst this; rw [hpc] at hg; simp at hg)
    all_goals mr_close
  · simp at hs

set_option maxHeartbeats 4000000 in
theorem rinv_step_wHigh (s s' : St) (f h : Nat) (hi : LInv s) (hr : RInv s)
    (hs : step s (.wHigh f h) = some s') : RInv s' := by
  have hR := hr
  obtain ⟨r1, r2, r3, r4, r5, r6, r7, r8, r9, r10, r11⟩ := hr
  simp only [step] at hs
  split at hs <;> simp at hs
  rename_i v h' hpc
  obtain ⟨hh, hs⟩ := hs
  subst hh hs
  obtain ⟨hh', hlt⟩ := hi.sWrote_eq f v h' hpc
  subst hh'
  have hslot := hR.sWrote_slot f v s.high hpc
  have huniq : ∀ g, (s.pc g).inCS = true → g = f := fun g hg =>
    (cs_unique hi (by simp [hpc, Pc.inCS]) hg).symm
  have hvnz : v ≠ 0 := hR.pend_nz f v (by simp [hpc, Pc.pending])
  constructor
  case len => simp [r1]
  case lowhigh => simp only; omega
  case recvd_eq =>
    simp only
    rw [List.take_append_of_le_length (by omega)]; exact r3
  case slots =>
    intro i h1 h2 h3
    simp only at h1 h2
    by_cases hih : i = s.high
    · subst hih
      simp only [val]
      rw [List.getElem?_append_right (by omega)]
      simp [r1, hslot]
    · have hlt' : i < s.high := by omega
      have := hR.slots i h1 hlt' (by
        intro g m hg
        have := huniq g (by simp [hg, Pc.inCS])
        subst this; rw [hpc] at hg; simp at hg)
      simp only [val] at this ⊢
      rw [List.getElem?_append_left (by omega)]; exact this
  case sWrote_slot =>
    intro g v2 h2 hg
    simp only [upd] at hg
    split at hg
    · simp at hg
    · have := huniq g (by simp [hg, Pc.inCS]); contradiction
  case rRead_val =>
    intro g l2 m2 hg
    simp only [upd] at hg
    split at hg
    · simp at hg
    · have := huniq g (by simp [hg, Pc.inCS]); contradiction
  case rCleared_val =>
    intro g l2 m2 hg
    simp only [upd] at hg
    split at hg
    · simp at hg
    · have := huniq g (by simp [hg, Pc.inCS]); contradiction
  case free =>
    intro j hj hfree hsw
    simp only at hfree
    exact hR.free j hj (fun i h1 h2 => hfree i h1 (by omega)) (by
      intro g v2 h2 hg
      have := huniq g (by simp [hg, Pc.inCS])
      subst this; rw [hpc] at hg; simp at hg
      obtain ⟨_, rfl⟩ := hg
      exact hfree s.high (by omega) (by omega))
  case nonzero =>
    intro p hp
    simp only [List.mem_append, List.mem_singleton] at hp
    rcases hp with hp | hp
    · exact r9 p hp
    · subst hp; exact hvnz
  case calls_eq =>
    intro g
    simp only [sentBy, List.filter_append, List.map_append, upd]
    by_cases hgf : g = f
    · subst hgf
      have := r10 g
      simp only [sentBy, hpc, Pc.pending] at this
      simp [Pc.pending, List.filter, this]
    · have := r10 g
      simp only [sentBy] at this
      have hfg : ¬ f = g := fun e => hgf e.symm
      simp [hgf, hfg, List.filter, this]
  case pend_nz =>
    intro g v2 hv
    simp only [upd] at hv
    split at hv
    · simp [Pc.pending] at hv
    · exact r11 g v2 hv

theorem rinv_step (s s' : St) (e : Ev) (hi : LInv s) (hr : RInv s) (hs : step s e = some s') : RInv s' := by
  cases e with
  | callSend f v => exact rinv_step_callSend s s' f v hi hr hs
  | retSend f => exact rinv_step_retSend s s' f hi hr hs
  | callRecv f => exact rinv_step_callRecv s s' f hi hr hs
  | retRecv f v => exact rinv_step_retRecv s s' f v hi hr hs
  | fsub f old => exact rinv_step_fsub s s' f old hi hr hs
  | fadd f old => exact rinv_step_fadd s s' f old hi hr hs
  | handoff f g => exact rinv_step_handoff s s' f g hi hr hs
  | rHigh f h => exact rinv_step_rHigh s s' f h hi hr hs
  | rLow f l => exact rinv_step_rLow s s' f l hi hr hs
  | wHigh f h => exact rinv_step_wHigh s s' f h hi hr hs
  | wLow f l => exact rinv_step_wLow s s' f l hi hr hs
  | rBuf f i x => exact rinv_step_rBuf s s' f i x hi hr hs
  | wBuf f i x => exact rinv_step_wBuf s s' f i x hi hr hs
  | rWaiters f w => exact rinv_step_rWaiters s s' f w hi hr hs
  | wWaiters f w => exact rinv_step_wWaiters s s' f w hi hr hs
  | rScratch f g x => exact rinv_step_rScratch s s' f g x hi hr hs
  | wScratch f g x => exact rinv_step_wScratch s s' f g x hi hr hs
  | wStateWaiting f => exact rinv_step_wStateWaiting s s' f hi hr hs
  | wStateReady f g => exact rinv_step_wStateReady s s' f g hi hr hs
  | rSWaiters f w => exact rinv_step_rSWaiters s s' f w hi hr hs
  | wSWaiters f w => exact rinv_step_wSWaiters s s' f w hi hr hs

theorem rinv_of_run {two : Bool} {cap : Nat} {es : List Ev} {s : St} (h : (sys two cap).run es = some s) :
    RInv s := by
  have : LInv s ∧ RInv s :=
    Sys.inv_of_run (sys two cap) (fun s => LInv s ∧ RInv s) ⟨linv_init two cap, rinv_init two cap⟩
      (fun s e s' hi hs => ⟨linv_step s s' e hi.1 hs, rinv_step s s' e hi.1 hi.2 hs⟩) h
  exact this.2

end LibfiberVerif.MultiChan
