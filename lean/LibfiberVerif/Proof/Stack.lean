/-
  Proof/Stack.lean — the inductive invariant of Model/Stack.lean (mpmc_stack.h) and its
  preservation by every step, for any number of threads and nodes.

  Why the single-word CAS push is ABA-safe here: a pusher only needs "my node's `next` is
  the head at the CAS instant".  It wrote `next := h` into a node only it owns, and the CAS
  succeeds iff `head = h` right now — whatever happened to `h` in between (flushed, walked,
  pushed again), `h` IS the current top, so consing is correct.  Removal is only ever
  "take everything" by an atomic exchange, which cannot be fooled by a stale pointer.
  The reversal and the walk run on nodes the flusher owns exclusively.
-/
import LibfiberVerif.Model.Stack
import LibfiberVerif.Proof.NodeList

namespace LibfiberVerif.Stack
open NodeList

/-- in-place reversal, loop invariant: `todo` hangs off `hd`, `done` hangs off `acc`, all
    nodes are the flusher's, and un-reversing gives the list to hand out -/
structure RevOk (next : Nat → Nat) (owner : Nat → Option Nat) (res : List Nat)
    (t hd acc : Nat) (todo done : List Nat) : Prop where
  hd0 : hd ≠ 0
  ctodo : Chain next hd todo
  cdone : Chain next acc done
  otodo : ∀ n ∈ todo, owner n = some t
  odone : ∀ n ∈ done, owner n = some t
  nodup : (todo ++ done).Nodup
  res : todo.reverse ++ done = res

/-- walking the private result: `rest` hangs off `p` and is the not-yet-handed-out suffix -/
structure WalkOk (next : Nat → Nat) (owner : Nat → Option Nat) (res : List Nat)
    (t p k : Nat) (rest : List Nat) : Prop where
  crest : Chain next p rest
  orest : ∀ n ∈ rest, owner n = some t
  res : rest = res.drop k

/-- what thread `t` knows at each program counter -/
def Local (s : St) (t : Nat) : Pc → Prop
  | .pushReady n => n ≠ 0 ∧ s.owner n = some t
  | .pushGotHead n _ => n ≠ 0 ∧ s.owner n = some t
  | .pushWroteNext n h => n ≠ 0 ∧ s.owner n = some t ∧ s.next n = h
  | .revLoop hd acc todo done => RevOk s.next s.owner (s.res t) t hd acc todo done
  | .revGotNext hd acc x todo done => RevOk s.next s.owner (s.res t) t hd acc todo done ∧ s.next hd = x
  | .walk p k rest => WalkOk s.next s.owner (s.res t) t p k rest
  | .walkGotData p k _ rest => p ≠ 0 ∧ WalkOk s.next s.owner (s.res t) t p k rest
  | .walkItem p k rest => p ≠ 0 ∧ WalkOk s.next s.owner (s.res t) t p k rest
  | _ => True

structure Inv (s : St) : Prop where
  /-- the cells spell the abstract stack -/
  chain : Chain s.next s.head s.stk
  nodup : s.stk.Nodup
  /-- a node is in the container iff nobody owns it -/
  own : ∀ n, n ∈ s.stk ↔ s.owner n = none
  loc : ∀ t, Local s t (s.pc t)
  /-- the ghost linearisation is a legal sequential push / take-everything history -/
  lin : stackReplay s.lin = some (s.stk.map (fun n => (n, s.data n)))

theorem inv_init (own0 : Nat → Nat) : Inv (init own0) := by
  constructor <;> simp [init, Local, stackReplay, stackReplayFrom]

/-- `Local` of a thread only depends on the `next`/`owner` cells of the nodes it owns and on
    its own `res` -/
theorem local_frame {s s' : St} {t : Nat} {pc : Pc} (h : Local s t pc)
    (hfr : ∀ n, s.owner n = some t → s'.next n = s.next n ∧ s'.owner n = some t)
    (hres : s'.res t = s.res t) : Local s' t pc := by
  cases pc <;> simp only [Local] at h ⊢
  case pushReady n => exact ⟨h.1, (hfr n h.2).2⟩
  case pushGotHead n hd => exact ⟨h.1, (hfr n h.2).2⟩
  case pushWroteNext n hd => exact ⟨h.1, (hfr n h.2.1).2, by rw [(hfr n h.2.1).1]; exact h.2.2⟩
  case revLoop hd acc todo done =>
    exact ⟨h.hd0, chain_of_eq (fun n hn => (hfr n (h.otodo n hn)).1) h.ctodo,
      chain_of_eq (fun n hn => (hfr n (h.odone n hn)).1) h.cdone,
      fun n hn => (hfr n (h.otodo n hn)).2, fun n hn => (hfr n (h.odone n hn)).2, h.nodup,
      by rw [hres]; exact h.res⟩
  case revGotNext hd acc x todo done =>
    obtain ⟨h, hx⟩ := h
    have hmem : hd ∈ todo := chain_head_mem h.ctodo h.hd0
    refine ⟨⟨h.hd0, chain_of_eq (fun n hn => (hfr n (h.otodo n hn)).1) h.ctodo,
      chain_of_eq (fun n hn => (hfr n (h.odone n hn)).1) h.cdone,
      fun n hn => (hfr n (h.otodo n hn)).2, fun n hn => (hfr n (h.odone n hn)).2, h.nodup,
      by rw [hres]; exact h.res⟩, ?_⟩
    rw [(hfr hd (h.otodo hd hmem)).1]; exact hx
  case walk p k rest =>
    exact ⟨chain_of_eq (fun n hn => (hfr n (h.orest n hn)).1) h.crest,
      fun n hn => (hfr n (h.orest n hn)).2, by rw [hres]; exact h.res⟩
  case walkGotData p k v rest =>
    obtain ⟨hp, h⟩ := h
    exact ⟨hp, chain_of_eq (fun n hn => (hfr n (h.orest n hn)).1) h.crest,
      fun n hn => (hfr n (h.orest n hn)).2, by rw [hres]; exact h.res⟩
  case walkItem p k rest =>
    obtain ⟨hp, h⟩ := h
    exact ⟨hp, chain_of_eq (fun n hn => (hfr n (h.orest n hn)).1) h.crest,
      fun n hn => (hfr n (h.orest n hn)).2, by rw [hres]; exact h.res⟩

theorem map_data_upd {stk : List Nat} {data : Nat → Nat} {n v : Nat} (hn : n ∉ stk) :
    stk.map (fun m => (m, upd data n v m)) = stk.map (fun m => (m, data m)) := by
  apply List.map_congr_left
  intro m hm
  have : m ≠ n := fun h => hn (h ▸ hm)
  simp [upd, this]

/-- events that only move `pc t` (and possibly `data`, which `Local` ignores) -/
theorem loc_pconly {s : St} {t : Nat} {new : Pc} {s' : St} (hI : Inv s)
    (hpc : s'.pc = upd s.pc t new) (hnext : s'.next = s.next) (hown : s'.owner = s.owner)
    (hres : s'.res = s.res) (hnew : Local s' t new) : ∀ t', Local s' t' (s'.pc t') := by
  intro t'
  by_cases e : t' = t
  · subst e; rw [hpc]; simpa using hnew
  · rw [hpc]; simp only [upd, e, if_false]
    exact local_frame (hI.loc t') (fun n hn => by rw [hnext, hown]; exact ⟨rfl, hn⟩) (by rw [hres])

theorem step_callPush (s s' : St) (t v : Nat) (hI : Inv s)
    (h : step s (.callPush t v) = some s') : Inv s' := by
  simp only [step] at h
  split at h <;> simp at h
  subst h
  exact ⟨hI.chain, hI.nodup, hI.own, loc_pconly hI rfl rfl rfl rfl (by simp [Local]), hI.lin⟩

theorem step_retPush (s s' : St) (t : Nat) (hI : Inv s)
    (h : step s (.retPush t) = some s') : Inv s' := by
  simp only [step] at h
  split at h <;> simp at h
  subst h
  exact ⟨hI.chain, hI.nodup, hI.own, loc_pconly hI rfl rfl rfl rfl (by simp [Local]), hI.lin⟩

theorem step_callFlush (s s' : St) (t : Nat) (b : Bool) (hI : Inv s)
    (h : step s (.callFlush t b) = some s') : Inv s' := by
  simp only [step] at h
  split at h <;> simp at h
  subst h
  exact ⟨hI.chain, hI.nodup, hI.own, loc_pconly hI rfl rfl rfl rfl (by simp [Local]), hI.lin⟩

theorem step_retFlush (s s' : St) (t k : Nat) (hI : Inv s)
    (h : step s (.retFlush t k) = some s') : Inv s' := by
  simp only [step] at h
  split at h <;> simp at h
  obtain ⟨_, rfl⟩ := h
  exact ⟨hI.chain, hI.nodup, hI.own, loc_pconly hI rfl rfl rfl rfl (by simp [Local]), hI.lin⟩

theorem step_wrData (s s' : St) (t n v : Nat) (hI : Inv s)
    (h : step s (.wrData t n v) = some s') : Inv s' := by
  simp only [step] at h
  split at h <;> simp at h
  obtain ⟨⟨rfl, hn0, hown_n⟩, rfl⟩ := h
  have hnotin : n ∉ s.stk := by
    intro hm; have := (hI.own n).1 hm; simp [this] at hown_n
  refine ⟨hI.chain, hI.nodup, hI.own, loc_pconly hI rfl rfl rfl rfl (by simp [Local, hn0, hown_n]), ?_⟩
  show stackReplay s.lin = some (s.stk.map (fun m => (m, upd s.data n v m)))
  rw [map_data_upd hnotin]; exact hI.lin

theorem step_ldHead (s s' : St) (t hd : Nat) (hI : Inv s)
    (h : step s (.ldHead t hd) = some s') : Inv s' := by
  simp only [step] at h
  split at h <;> simp at h
  rename_i n hpc
  obtain ⟨rfl, rfl⟩ := h
  have h1 := hI.loc t; rw [hpc] at h1; simp only [Local] at h1
  exact ⟨hI.chain, hI.nodup, hI.own, loc_pconly hI rfl rfl rfl rfl (by simpa [Local] using h1), hI.lin⟩

theorem step_rdData (s s' : St) (t n v : Nat) (hI : Inv s)
    (h : step s (.rdData t n v) = some s') : Inv s' := by
  simp only [step] at h
  split at h <;> simp at h
  rename_i p k rest hpc
  obtain ⟨⟨hp, rfl, rfl⟩, rfl⟩ := h
  have h1 := hI.loc t; rw [hpc] at h1; simp only [Local] at h1
  exact ⟨hI.chain, hI.nodup, hI.own, loc_pconly hI rfl rfl rfl rfl (by simp only [Local]; exact ⟨hp, h1⟩), hI.lin⟩

theorem step_item (s s' : St) (t v : Nat) (hI : Inv s)
    (h : step s (.item t v) = some s') : Inv s' := by
  simp only [step] at h
  split at h <;> simp at h
  rename_i p k v' rest hpc
  obtain ⟨rfl, rfl⟩ := h
  have h1 := hI.loc t; rw [hpc] at h1; simp only [Local] at h1
  exact ⟨hI.chain, hI.nodup, hI.own, loc_pconly hI rfl rfl rfl rfl (by simpa only [Local] using h1), hI.lin⟩

theorem step_rdNext (s s' : St) (t n x : Nat) (hI : Inv s)
    (h : step s (.rdNext t n x) = some s') : Inv s' := by
  simp only [step] at h
  split at h <;> simp at h
  · rename_i hd acc todo done hpc
    obtain ⟨⟨rfl, rfl⟩, rfl⟩ := h
    have h1 := hI.loc t; rw [hpc] at h1; simp only [Local] at h1
    exact ⟨hI.chain, hI.nodup, hI.own,
      loc_pconly hI rfl rfl rfl rfl (by simp only [Local]; exact ⟨h1, trivial⟩), hI.lin⟩
  · rename_i p k rest hpc
    obtain ⟨⟨rfl, rfl⟩, rfl⟩ := h
    have h1 := hI.loc t; rw [hpc] at h1; simp only [Local] at h1
    obtain ⟨hp, hw⟩ := h1
    obtain ⟨rest', hrest, hc'⟩ := chain_nonzero hw.crest hp
    refine ⟨hI.chain, hI.nodup, hI.own, loc_pconly hI rfl rfl rfl rfl ?_, hI.lin⟩
    simp only [Local]
    refine ⟨?_, ?_, ?_⟩
    · show Chain s.next (s.next n) rest.tail
      rw [hrest]; exact hc'
    · intro m hm; exact hw.orest m (List.mem_of_mem_tail hm)
    · show rest.tail = (s.res t).drop (k + 1)
      rw [hw.res, List.tail_drop]

/-- writes to the `next` cell of a node the writer owns do not touch other threads' knowledge -/
theorem loc_wrNext {s : St} {t n v : Nat} {new : Pc} {s' : St} (hI : Inv s)
    (hown_n : s.owner n = some t)
    (hpc : s'.pc = upd s.pc t new) (hnext : s'.next = upd s.next n v) (hown : s'.owner = s.owner)
    (hres : s'.res = s.res) (hnew : Local s' t new) : ∀ t', Local s' t' (s'.pc t') := by
  intro t'
  by_cases e : t' = t
  · subst e; rw [hpc]; simpa using hnew
  · rw [hpc]; simp only [upd, e, if_false]
    refine local_frame (hI.loc t') (fun m hm => ?_) (by rw [hres])
    rw [hnext, hown]
    have : m ≠ n := by intro e'; subst e'; rw [hown_n] at hm; simp at hm; exact e hm.symm
    exact ⟨by simp [upd, this], hm⟩

theorem step_wrNext (s s' : St) (t m x : Nat) (hI : Inv s)
    (h : step s (.wrNext t m x) = some s') : Inv s' := by
  simp only [step] at h
  split at h <;> simp at h
  · -- push: n->next = head (own node)
    rename_i n hd hpc
    obtain ⟨⟨rfl, rfl⟩, rfl⟩ := h
    have h1 := hI.loc t; rw [hpc] at h1; simp only [Local] at h1
    have hnotin : m ∉ s.stk := by
      intro hm; have := (hI.own m).1 hm; rw [this] at h1; simp at h1
    exact ⟨chain_upd_notin hnotin hI.chain, hI.nodup, hI.own,
      loc_wrNext (v := x) hI h1.2 rfl rfl rfl rfl (by simp [Local, h1.1, h1.2, upd]), hI.lin⟩
  · -- reverse: head->next = fifo (own node)
    rename_i hd acc nx todo done hpc
    obtain ⟨⟨rfl, rfl⟩, rfl⟩ := h
    have h1 := hI.loc t; rw [hpc] at h1; simp only [Local] at h1
    obtain ⟨hr, hnx⟩ := h1
    obtain ⟨todo', htodo, hc'⟩ := chain_nonzero hr.ctodo hr.hd0
    have hownm : s.owner m = some t := hr.otodo m (by rw [htodo]; simp)
    have hnotin : m ∉ s.stk := by
      intro hm; have := (hI.own m).1 hm; rw [this] at hownm; simp at hownm
    have hnd : (m ∉ todo' ∧ m ∉ done) ∧ (todo' ++ done).Nodup := by
      have := hr.nodup; rw [htodo] at this; simpa using this
    have hnd2 : todo'.Nodup ∧ done.Nodup ∧ ∀ a ∈ todo', ∀ b ∈ done, a ≠ b := by
      have := hnd.2; rw [List.nodup_append] at this; exact this
    -- the new chains
    have c1 : Chain (upd s.next m x) nx todo' := by
      rw [← hnx]; exact chain_upd_notin hnd.1.1 hc'
    have c2 : Chain (upd s.next m x) m (m :: done) := by
      simp; refine ⟨hr.hd0, ?_⟩
      exact chain_upd_notin hnd.1.2 hr.cdone
    have o1 : ∀ n ∈ todo', s.owner n = some t := fun n hn => hr.otodo n (by rw [htodo]; simp [hn])
    have o2 : ∀ n ∈ m :: done, s.owner n = some t := by
      intro n hn; simp at hn; rcases hn with e | e
      · subst e; exact hownm
      · exact hr.odone n e
    have r1 : todo'.reverse ++ (m :: done) = s.res t := by
      rw [← hr.res, htodo]; simp
    refine ⟨chain_upd_notin hnotin hI.chain, hI.nodup, hI.own, ?_, hI.lin⟩
    refine loc_wrNext (v := x)
      (new := if nx = 0 then Pc.walk m 0 (m :: done) else Pc.revLoop nx m todo.tail (m :: done))
      hI hownm rfl rfl rfl rfl ?_
    by_cases hnx0 : nx = 0
    · -- the loop ends: the reversed list is complete
      simp only [hnx0, if_true, Local]
      have : todo' = [] := by rw [hnx0] at c1; exact chain_zero c1
      subst this
      exact ⟨c2, o2, by simpa using r1⟩
    · simp only [hnx0, if_false, Local]
      have htl : todo.tail = todo' := by rw [htodo]; rfl
      rw [htl]
      refine ⟨hnx0, c1, c2, o1, o2, ?_, r1⟩
      rw [List.nodup_append]
      refine ⟨hnd2.1, ?_, ?_⟩
      · simp [hnd.1.2, hnd2.2.1]
      · intro a ha b hb
        simp at hb; rcases hb with e | e
        · subst e; intro e'; subst e'; exact hnd.1.1 ha
        · exact hnd2.2.2 a ha b e

theorem step_cas (s s' : St) (t found exp des : Nat) (ok : Bool) (hI : Inv s)
    (h : step s (.cas t found exp des ok) = some s') : Inv s' := by
  simp only [step] at h
  split at h
  · rename_i n hd hpc
    split at h
    case isFalse => simp at h
    rename_i hcond
    obtain ⟨rfl, rfl, rfl, hok⟩ := hcond
    have h1 := hI.loc t; rw [hpc] at h1; simp only [Local] at h1
    have hnotin : des ∉ s.stk := by
      intro hm; have := (hI.own des).1 hm; rw [this] at h1; simp at h1
    split at h <;> simp at h <;> subst h
    · -- success: `exp` is the head right now, whatever happened to that node meanwhile
      rename_i hoktrue
      simp [hoktrue] at hok
      refine ⟨?_, ?_, ?_, ?_, ?_⟩
      · show Chain s.next des (des :: s.stk)
        simp; refine ⟨h1.1, ?_⟩; rw [h1.2.2, ← hok]; exact hI.chain
      · show (des :: s.stk).Nodup
        simp [hnotin, hI.nodup]
      · intro m; show m ∈ des :: s.stk ↔ upd s.owner des none m = none
        simp only [upd]; split
        · simp_all
        · rename_i hne; simp [hne, hI.own m]
      · intro t'
        by_cases e : t' = t
        · subst e; simp [upd, Local]
        · show Local _ t' (upd s.pc t Pc.pushDone t')
          simp only [upd, e, if_false]
          refine local_frame (hI.loc t') (fun m hm => ?_) rfl
          have : m ≠ des := by
            intro e'; subst e'; rw [h1.2.1] at hm; simp at hm; exact e hm.symm
          exact ⟨rfl, by simp [upd, this]; exact hm⟩
      · show stackReplay (s.lin ++ [.push des (s.data des)]) = some ((des :: s.stk).map (fun n => (n, s.data n)))
        rw [stackReplay_snoc, hI.lin]; simp [stackStep]
    · exact ⟨hI.chain, hI.nodup, hI.own,
        loc_pconly hI rfl rfl rfl rfl (by simp [Local, h1.1, h1.2.1]), hI.lin⟩
  · simp at h

theorem step_xchg (s s' : St) (t old : Nat) (hI : Inv s)
    (h : step s (.xchg t old) = some s') : Inv s' := by
  simp only [step] at h
  split at h <;> simp at h
  rename_i fifo hpc
  obtain ⟨rfl, rfl⟩ := h
  have hownd : ∀ n ∈ s.stk, (if n ∈ s.stk then some t else s.owner n) = some t := by
    intro n hn; simp [hn]
  refine ⟨?_, ?_, ?_, ?_, ?_⟩
  · show Chain s.next 0 []; simp
  · show ([] : List Nat).Nodup; simp
  · intro n; show n ∈ [] ↔ (if n ∈ s.stk then some t else s.owner n) = none
    by_cases hn : n ∈ s.stk
    · simp [hn]
    · simp [hn]; intro h0; exact hn ((hI.own n).2 h0)
  · intro t'
    by_cases e : t' = t
    · subst e
      show Local _ t' (upd s.pc t' _ t')
      simp only [upd_same]
      by_cases hb : fifo = true ∧ s.head ≠ 0
      · simp only [hb, if_true, Local]
        refine ⟨hb.2, hI.chain, by simp, hownd, by simp, by simpa using hI.nodup, ?_⟩
        simp
      · simp only [hb, if_false, Local]
        refine ⟨hI.chain, hownd, ?_⟩
        show s.stk = (upd s.res t' (if fifo = true then s.stk.reverse else s.stk) t').drop 0
        simp only [upd_same, List.drop_zero]
        by_cases hf : fifo = true
        · have h0 : s.head = 0 := by
            by_cases hh : s.head = 0
            · exact hh
            · exact absurd ⟨hf, hh⟩ hb
          have : s.stk = [] := by have := hI.chain; rw [h0] at this; exact chain_zero this
          simp [hf, this]
        · simp [hf]
    · show Local _ t' (upd s.pc t _ t')
      simp only [upd, e, if_false]
      refine local_frame (hI.loc t') (fun m hm => ?_) (by simp [upd, e])
      have : m ∉ s.stk := by intro hmem; have := (hI.own m).1 hmem; rw [this] at hm; simp at hm
      exact ⟨rfl, by simp [this]; exact hm⟩
  · show stackReplay (s.lin ++ [.flush (s.stk.map (fun n => (n, s.data n)))]) = some (([] : List Nat).map _)
    rw [stackReplay_snoc, hI.lin]; simp [stackStep]

theorem inv_step (s s' : St) (e : Ev) (hI : Inv s) (h : step s e = some s') : Inv s' := by
  cases e with
  | callPush t v => exact step_callPush s s' t v hI h
  | wrData t n v => exact step_wrData s s' t n v hI h
  | ldHead t hd => exact step_ldHead s s' t hd hI h
  | wrNext t n x => exact step_wrNext s s' t n x hI h
  | cas t f e d ok => exact step_cas s s' t f e d ok hI h
  | retPush t => exact step_retPush s s' t hI h
  | callFlush t b => exact step_callFlush s s' t b hI h
  | xchg t old => exact step_xchg s s' t old hI h
  | rdNext t n x => exact step_rdNext s s' t n x hI h
  | rdData t n v => exact step_rdData s s' t n v hI h
  | item t v => exact step_item s s' t v hI h
  | retFlush t k => exact step_retFlush s s' t k hI h

theorem inv_of_run {own0 : Nat → Nat} {es : List Ev} {s : St} (h : (sys own0).run es = some s) : Inv s :=
  Sys.inv_of_run (sys own0) Inv (inv_init own0) (fun s e s' hI hs => inv_step s s' e hI hs) h

/-! ### consequences -/

/-- a successful push CAS conses the node on the abstract stack as it is AT THE CAS INSTANT:
    its `next` is the current top, although the local `h` may be a node that was flushed,
    walked and pushed again since it was loaded (no ABA counter needed) -/
theorem push_cas_success {s s' : St} {t n h found exp des : Nat} (hI : Inv s)
    (hpc : s.pc t = .pushWroteNext n h) (hcas : step s (.cas t found exp des true) = some s') :
    s.head = h ∧ s.next n = h ∧ s'.stk = n :: s.stk ∧ s'.head = n ∧ s.owner n = some t ∧
      s'.owner n = none ∧ s'.lin = s.lin ++ [.push n (s.data n)] := by
  have h1 := hI.loc t; rw [hpc] at h1; simp only [Local] at h1
  simp only [step, hpc] at hcas
  split at hcas
  · rename_i hc; obtain ⟨rfl, rfl, rfl, hok⟩ := hc
    simp at hok hcas; subst hcas
    exact ⟨hok, h1.2.2, rfl, rfl, h1.2.1, by simp [upd], rfl⟩
  · simp at hcas

/-- the exchange takes EVERYTHING: the pointer it returns heads exactly the abstract stack,
    the container is empty afterwards, every taken node now belongs to the flusher alone, and
    the list to hand out is fixed: the content, reversed for a fifo flush -/
theorem flush_takes_all {s s' : St} {t old : Nat} {fifo : Bool} (hI : Inv s)
    (hpc : s.pc t = .flushCalled fifo) (hx : step s (.xchg t old) = some s') :
    Chain s.next old s.stk ∧ s'.stk = [] ∧ s'.head = 0 ∧
      s'.res t = (if fifo then s.stk.reverse else s.stk) ∧
      (∀ n ∈ s.stk, s.owner n = none ∧ s'.owner n = some t) ∧
      s'.lin = s.lin ++ [.flush (s.stk.map (fun n => (n, s.data n)))] := by
  simp only [step, hpc] at hx
  split at hx
  · rename_i hc; subst hc
    simp at hx; subst hx
    refine ⟨hI.chain, rfl, rfl, by simp [upd], ?_, rfl⟩
    intro n hn
    exact ⟨(hI.own n).1 hn, by simp [hn]⟩
  · simp at hx

/-- what the flusher walks: the not-yet-handed-out suffix of its result list hangs off the
    current pointer (for `k = 0`: the reversal is complete and correct), all nodes its own -/
theorem walk_result {s : St} {t p k : Nat} {rest : List Nat} (hI : Inv s)
    (hpc : s.pc t = .walk p k rest) :
    Chain s.next p rest ∧ rest = (s.res t).drop k ∧ ∀ n ∈ rest, s.owner n = some t := by
  have h1 := hI.loc t; rw [hpc] at h1; simp only [Local] at h1
  exact ⟨h1.crest, h1.res, h1.orest⟩

/-- exactly-once bookkeeping: every node was pushed exactly as often as it was handed out by
    flushes, plus one if it is in the container right now -/
theorem count_balance {s : St} (hI : Inv s) (n : Nat) :
    pushCount n s.lin = takeCount n s.lin + (if n ∈ s.stk then 1 else 0) := by
  have := stackReplayFrom_count n hI.lin
  simp [List.map_map, Function.comp_def] at this
  rw [this, hI.nodup.count]

/-- the linearisation of the flushable stack only contains pushes and flushes -/
theorem lin_ops_step {s s' : St} {e : Ev} (h : step s e = some s')
    (hI : ∀ o ∈ s.lin, isPushOp o = true ∨ ∃ l, o = .flush l) :
    ∀ o ∈ s'.lin, isPushOp o = true ∨ ∃ l, o = .flush l := by
  cases e <;> simp only [step] at h
  case cas t f e d ok =>
    (repeat' split at h) <;> simp at h <;> subst h
    · intro o ho; simp at ho; rcases ho with ho | rfl
      · exact hI o ho
      · simp [isPushOp]
    · exact hI
  case xchg t old =>
    split at h
    · split at h
      · simp at h; subst h
        intro o ho; simp at ho; rcases ho with ho | rfl
        · exact hI o ho
        · exact Or.inr ⟨_, rfl⟩
      · simp at h
    · simp at h
  all_goals
    (repeat' split at h) <;> simp at h <;> (try obtain ⟨_, h⟩ := h) <;> (try subst h) <;> exact hI

theorem lin_ops {own0 : Nat → Nat} {es : List Ev} {s : St} (h : (sys own0).run es = some s) :
    ∀ o ∈ s.lin, isPushOp o = true ∨ ∃ l, o = .flush l :=
  Sys.inv_of_run (sys own0) (fun s => ∀ o ∈ s.lin, isPushOp o = true ∨ ∃ l, o = .flush l)
    (by simp [sys, init]) (fun s e s' hI hs => lin_ops_step hs hI) h

end LibfiberVerif.Stack
