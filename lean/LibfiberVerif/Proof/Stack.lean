/-
  Proof/Stack.lean — the inductive invariant of Model/Stack.lean (mpmc_stack.h) and its
  preservation by every step, for any number of threads and nodes.

  Why the single-word CAS push is ABA-safe here: a pusher only needs "my node's `next` is
  the head at the CAS instant".  It wrote `next := h` into a node only it owns, and the CAS
  succeeds iff `head = h` right now — whatever happened to `h` in between (flushed, walked,
  pushed again), `h` IS the current top, so consing is correct.  Removal is only ever
  "take everything" by an atomic exchange, which cannot be fooled by a stale pointer.
  The reversal and the walk run on nodes the flusher owns exclusively.
-/
import LibfiberVerif.Model.Stack
import LibfiberVerif.Proof.NodeList

namespace LibfiberVerif.Stack
open NodeList

/-- in-place reversal, loop invariant: `todo` hangs off `hd`, `done` hangs off `acc`, all
    nodes are the flusher's, and un-reversing gives the list to hand out -/
structure RevOk (next : Nat → Nat) (owner : Nat → Option Nat) (res : List Nat)
    (t hd acc : Nat) (todo done : List Nat) : Prop where
  hd0 : hd ≠ 0
  ctodo : Chain next hd todo
  cdone : Chain next acc done
  otodo : ∀ n ∈ todo, owner n = some t
  odone : ∀ n ∈ done, owner n = some t
  nodup : (todo ++ done).Nodup
  res : todo.reverse ++ done = res

/-- walking the private result: `rest` hangs off `p` and is the not-yet-handed-out suffix -/
structure WalkOk (next : Nat → Nat) (owner : Nat → Option Nat) (res : List Nat)
    (t p k : Nat) (rest : List Nat) : Prop where
  crest : Chain next p rest
  orest : ∀ n ∈ rest, owner n = some t
  res : rest = res.drop k

/-- what thread `t` knows at each program counter -/
def Local (s : St) (t : Nat) : Pc → Prop
  | .pushReady n => n ≠ 0 ∧ s.owner n = some t
  | .pushGotHead n _ => n ≠ 0 ∧ s.owner n = some t
  | .pushWroteNext n h => n ≠ 0 ∧ s.owner n = some t ∧ s.next n = h
  | .toReady n _ => n ≠ 0 ∧ s.owner n = some t
  | .toGotHead n _ _ => n ≠ 0 ∧ s.owner n = some t
  | .toWroteNext n h _ => n ≠ 0 ∧ s.owner n = some t ∧ s.next n = h
  -- a push_timeout that gave up still owns its node
  | .toGaveUp n => n ≠ 0 ∧ s.owner n = some t
  | .revLoop hd acc todo done => RevOk s.next s.owner (s.res t) t hd acc todo done
  | .revGotNext hd acc x todo done => RevOk s.next s.owner (s.res t) t hd acc todo done ∧ s.next hd = x
  | .walk p k rest => WalkOk s.next s.owner (s.res t) t p k rest
  | .walkGotData p k _ rest => p ≠ 0 ∧ WalkOk s.next s.owner (s.res t) t p k rest
  | .walkItem p k rest => p ≠ 0 ∧ WalkOk s.next s.owner (s.res t) t p k rest
  | _ => True

structure Inv (s : St) : Prop where
  /-- the cells spell the abstract stack -/
  chain : Chain s.next s.head s.stk
  nodup : s.stk.Nodup
  /-- a node is in the container iff nobody owns it -/
  own : ∀ n, n ∈ s.stk ↔ s.owner n = none
  loc : ∀ t, Local s t (s.pc t)
  /-- the ghost linearisation is a legal sequential push / take-everything history -/
  lin : stackReplay s.lin = some (s.stk.map (fun n => (n, s.data n)))

theorem inv_init (own0 : Nat → Nat) : Inv (init own0) := by
  constructor <;> simp [init, Local, stackReplay, stackReplayFrom]

/-- `Local` of a thread only depends on the `next`/`owner` cells of the nodes it owns and on
    its own `res` -/
theorem local_frame {s s' : St} {t : Nat} {pc : Pc} (h : Local s t pc)
    (hfr : ∀ n, s.owner n = some t → s'.next n = s.next n ∧ s'.owner n = some t)
    (hres : s'.res t = s.res t) : Local s' t pc := by
  cases pc <;> simp only [Local] at h ⊢
  case pushReady n => exact ⟨h.1, (hfr n h.2).2⟩
  case pushGotHead n hd => exact ⟨h.1, (hfr n h.2).2⟩
  case pushWroteNext n hd => exact ⟨h.1, (hfr n h.2.1).2, by rw [(hfr n h.2.1).1]; exact h.2.2⟩
  case toReady n b => exact ⟨h.1, (hfr n h.2).2⟩
  case toGotHead n hd b => exact ⟨h.1, (hfr n h.2).2⟩
  case toWroteNext n hd b => exact ⟨h.1, (hfr n h.2.1).2, by rw [(hfr n h.2.1).1]; exact h.2.2⟩
  case toGaveUp n => exact ⟨h.1, (hfr n h.2).2⟩
  case revLoop hd acc todo done =>
    exact ⟨h.hd0, chain_of_eq (fun n hn => (hfr n (h.otodo n hn)).1) h.ctodo,
      chain_of_eq (fun n hn => (hfr n (h.odone n hn)).1) h.cdone,
      fun n hn => (hfr n (h.otodo n hn)).2, fun n hn => (hfr n (h.odone n hn)).2, h.nodup,
      by rw [hres]; exact h.res⟩
  case revGotNext hd acc x todo done =>
    obtain ⟨h, hx⟩ := h
    have hmem : hd ∈ todo := chain_head_mem h.ctodo h.hd0
    refine ⟨⟨h.hd0, chain_of_eq (fun n hn => (hfr n (h.otodo n hn)).1) h.ctodo,
      chain_of_eq (fun n hn => (hfr n (h.odone n hn)).1) h.cdone,
      fun n hn => (hfr n (h.otodo n hn)).2, fun n hn => (hfr n (h.odone n hn)).2, h.nodup,
      by rw [hres]; exact h.res⟩, ?_⟩
    rw [(hfr hd (h.otodo hd hmem)).1]; exact hx
  case walk p k rest =>
    exact ⟨chain_of_eq (fun n hn => (hfr n (h.orest n hn)).1) h.crest,
      fun n hn => (hfr n (h.orest n hn)).2, by rw [hres]; exact h.res⟩
  case walkGotData p k v rest =>
    obtain ⟨hp, h⟩ := h
    exact ⟨hp, chain_of_eq (fun n hn => (hfr n (h.orest n hn)).1) h.crest,
      fun n hn => (hfr n (h.orest n hn)).2, by rw [hres]; exact h.res⟩
  case walkItem p k rest =>
    obtain ⟨hp, h⟩ := h
    exact ⟨hp, chain_of_eq (fun n hn => (hfr n (h.orest n hn)).1) h.crest,
      fun n hn => (hfr n (h.orest n hn)).2, by rw [hres]; exact h.res⟩

theorem map_data_upd {stk : List Nat} {data : Nat → Nat} {n v : Nat} (hn : n ∉ stk) :
    stk.map (fun m => (m, upd data n v m)) = stk.map (fun m => (m, data m)) := by
  apply List.map_congr_left
  intro m hm
  have : m ≠ n := fun h => hn (h ▸ hm)
  simp [upd, this]

/-- events that only move `pc t` (and possibly `data`, which `Local` ignores) -/
theorem loc_pconly {s : St} {t : Nat} {new : Pc} {s' : St} (hI : Inv s)
    (hpc : s'.pc = upd s.pc t new) (hnext : s'.next = s.next) (hown : s'.owner = s.owner)
    (hres : s'.res = s.res) (hnew : Local s' t new) : ∀ t', Local s' t' (s'.pc t') := by
  intro t'
  by_cases e : t' = t
  · subst e; rw [hpc]; simpa using hnew
  · rw [hpc]; simp only [upd, e, if_false]
    exact local_frame (hI.loc t') (fun n hn => by rw [hnext, hown]; exact ⟨rfl, hn⟩) (by rw [hres])

theorem step_callPush (s s' : St) (t v : Nat) (hI : Inv s)
    (h : step s (.callPush t v) = some s') : Inv s' := by
  simp only [step] at h
  split at h <;> simp at h
  subst h
  exact ⟨hI.chain, hI.nodup, hI.own, loc_pconly hI rfl rfl rfl rfl (by simp [Local]), hI.lin⟩

theorem step_retPush (s s' : St) (t : Nat) (hI : Inv s)
    (h : step s (.retPush t) = some s') : Inv s' := by
  simp only [step] at h
  split at h <;> simp at h
  subst h
  exact ⟨hI.chain, hI.nodup, hI.own, loc_pconly hI rfl rfl rfl rfl (by simp [Local]), hI.lin⟩

theorem step_callPushTo (s s' : St) (t v b : Nat) (hI : Inv s)
    (h : step s (.callPushTo t v b) = some s') : Inv s' := by
  simp only [step] at h
  split at h <;> simp at h
  subst h
  exact ⟨hI.chain, hI.nodup, hI.own, loc_pconly hI rfl rfl rfl rfl (by simp [Local]), hI.lin⟩

theorem step_retPushTo (s s' : St) (t r : Nat) (hI : Inv s)
    (h : step s (.retPushTo t r) = some s') : Inv s' := by
  simp only [step] at h
  split at h <;> simp at h
  all_goals
    obtain ⟨_, rfl⟩ := h
    exact ⟨hI.chain, hI.nodup, hI.own, loc_pconly hI rfl rfl rfl rfl (by simp [Local]), hI.lin⟩

theorem step_callFlush (s s' : St) (t : Nat) (b : Bool) (hI : Inv s)
    (h : step s (.callFlush t b) = some s') : Inv s' := by
  simp only [step] at h
  split at h <;> simp at h
  subst h
  exact ⟨hI.chain, hI.nodup, hI.own, loc_pconly hI rfl rfl rfl rfl (by simp [Local]), hI.lin⟩

theorem step_retFlush (s s' : St) (t k : Nat) (hI : Inv s)
    (h : step s (.retFlush t k) = some s') : Inv s' := by
  simp only [step] at h
  split at h <;> simp at h
  obtain ⟨_, rfl⟩ := h
  exact ⟨hI.chain, hI.nodup, hI.own, loc_pconly hI rfl rfl rfl rfl (by simp [Local]), hI.lin⟩

theorem step_wrData (s s' : St) (t n v : Nat) (hI : Inv s)
    (h : step s (.wrData t n v) = some s') : Inv s' := by
  simp only [step] at h
  split at h <;> simp at h
  · obtain ⟨⟨rfl, hn0, hown_n⟩, rfl⟩ := h
    have hnotin : n ∉ s.stk := by
      intro hm; have := (hI.own n).1 hm; simp [this] at hown_n
    refine ⟨hI.chain, hI.nodup, hI.own, loc_pconly hI rfl rfl rfl rfl (by simp [Local, hn0, hown_n]), ?_⟩
    show stackReplay s.lin = some (s.stk.map (fun m => (m, upd s.data n v m)))
    rw [map_data_upd hnotin]; exact hI.lin
  · -- push_timeout: the same store
    obtain ⟨⟨rfl, hn0, hown_n⟩, rfl⟩ := h
    have hnotin : n ∉ s.stk := by
      intro hm; have := (hI.own n).1 hm; simp [this] at hown_n
    refine ⟨hI.chain, hI.nodup, hI.own, loc_pconly hI rfl rfl rfl rfl (by simp [Local, hn0, hown_n]), ?_⟩
    show stackReplay s.lin = some (s.stk.map (fun m => (m, upd s.data n v m)))
    rw [map_data_upd hnotin]; exact hI.lin

theorem step_ldHead (s s' : St) (t hd : Nat) (hI : Inv s)
    (h : step s (.ldHead t hd) = some s') : Inv s' := by
  simp only [step] at h
  split at h <;> simp at h
  · rename_i n hpc
    obtain ⟨rfl, rfl⟩ := h
    have h1 := hI.loc t; rw [hpc] at h1; simp only [Local] at h1
    exact ⟨hI.chain, hI.nodup, hI.own, loc_pconly hI rfl rfl rfl rfl (by simpa [Local] using h1), hI.lin⟩
  · rename_i n b hpc
    obtain ⟨rfl, rfl⟩ := h
    have h1 := hI.loc t; rw [hpc] at h1; simp only [Local] at h1
    exact ⟨hI.chain, hI.nodup, hI.own, loc_pconly hI rfl rfl rfl rfl (by simpa [Local] using h1), hI.lin⟩

theorem step_rdData (s s' : St) (t n v : Nat) (hI : Inv s)
    (h : step s (.rdData t n v) = some s') : Inv s' := by
  simp only [step] at h
  split at h <;> simp at h
  rename_i p k rest hpc
  obtain ⟨⟨hp, rfl, rfl⟩, rfl⟩ := h
  have h1 := hI.loc t; rw [hpc] at h1; simp only [Local] at h1
  exact ⟨hI.chain, hI.nodup, hI.own, loc_pconly hI rfl rfl rfl rfl (by simp only [Local]; exact ⟨hp, h1⟩), hI.lin⟩

theorem step_item (s s' : St) (t v : Nat) (hI : Inv s)
    (h : step s (.item t v) = some s') : Inv s' := by
  simp only [step] at h
  split at h <;> simp at h
  rename_i p k v' rest hpc
  obtain ⟨rfl, rfl⟩ := h
  have h1 := hI.loc t; rw [hpc] at h1; simp only [Local] at h1
  exact ⟨hI.chain, hI.nodup, hI.own, loc_pconly hI rfl rfl rfl rfl (by simpa only [Local] using h1), hI.lin⟩

theorem step_rdNext (s s' : St) (t n x : Nat) (hI : Inv s)
    (h : step s (.rdNext t n x) = some s') : Inv s' := by
  simp only [step] at h
  split at h <;> simp at h
  · rename_i hd acc todo done hpc
    obtain ⟨⟨rfl, rfl⟩, rfl⟩ := h
    have h1 := hI.loc t; rw [hpc] at h1; simp only [Local] at h1
    exact ⟨hI.chain, hI.nodup, hI.own,
      loc_pconly hI rfl rfl rfl rfl (by simp only [Local]; exact ⟨h1, trivial⟩), hI.lin⟩
  · rename_i p k rest hpc
    obtain ⟨⟨rfl, rfl⟩, rfl⟩ := h
    have h1 := hI.loc t; rw [hpc] at h1; simp only [Local] at h1
    obtain ⟨hp, hw⟩ := h1
    obtain ⟨rest', hrest, hc'⟩ := chain_nonzero hw.crest hp
    refine ⟨hI.chain, hI.nodup, hI.own, loc_pconly hI rfl rfl rfl rfl ?_, hI.lin⟩
    simp only [Local]
    refine ⟨?_, ?_, ?_⟩
    · show Chain s.next (s.next n) rest.tail
      rw [hrest]; exact hc'
    · intro m hm; exact hw.orest m (List.mem_of_mem_tail hm)
    · show rest.tail = (s.res t).drop (k + 1)
      rw [hw.res, List.tail_drop]

/-- writes to the `next` cell of a node the writer owns do not touch other threads' knowledge -/
theorem loc_wrNext {s : St} {t n v : Nat} {new : Pc} {s' : St} (hI : Inv s)
    (hown_n : s.owner n = some t)
    (hpc : s'.pc = upd s.pc t new) (hnext : s'.next = upd s.next n v) (hown : s'.owner = s.owner)
    (hres : s'.res = s.res) (hnew : Local s' t new) : ∀ t', Local s' t' (s'.pc t') := by
  intro t'
  by_cases e : t' = t
  · subst e; rw [hpc]; simpa using hnew
  · rw [hpc]; simp only [upd, e, if_false]
    refine local_frame (hI.loc t') (fun m hm => ?_) (by rw [hres])
    rw [hnext, hown]
    have : m ≠ n := by intro e'; subst e'; rw [hown_n] at hm; simp at hm; exact e hm.symm
    exact ⟨by simp [upd, this], hm⟩

theorem step_wrNext (s s' : St) (t m x : Nat) (hI : Inv s)
    (h : step s (.wrNext t m x) = some s') : Inv s' := by
  simp only [step] at h
  split at h <;> simp at h
  · -- push: n->next = head (own node)
    rename_i n hd hpc
    obtain ⟨⟨rfl, rfl⟩, rfl⟩ := h
    have h1 := hI.loc t; rw [hpc] at h1; simp only [Local] at h1
    have hnotin : m ∉ s.stk := by
      intro hm; have := (hI.own m).1 hm; rw [this] at h1; simp at h1
    exact ⟨chain_upd_notin hnotin hI.chain, hI.nodup, hI.own,
      loc_wrNext (v := x) hI h1.2 rfl rfl rfl rfl (by simp [Local, h1.1, h1.2, upd]), hI.lin⟩
  · -- push_timeout: n->next = head (own node)
    rename_i n hd b hpc
    obtain ⟨⟨rfl, rfl⟩, rfl⟩ := h
    have h1 := hI.loc t; rw [hpc] at h1; simp only [Local] at h1
    have hnotin : m ∉ s.stk := by
      intro hm; have := (hI.own m).1 hm; rw [this] at h1; simp at h1
    exact ⟨chain_upd_notin hnotin hI.chain, hI.nodup, hI.own,
      loc_wrNext (v := x) hI h1.2 rfl rfl rfl rfl (by simp [Local, h1.1, h1.2, upd]), hI.lin⟩
  · -- reverse: head->next = fifo (own node)
    rename_i hd acc nx todo done hpc
    obtain ⟨⟨rfl, rfl⟩, rfl⟩ := h
    have h1 := hI.loc t; rw [hpc] at h1; simp only [Local] at h1
    obtain ⟨hr, hnx⟩ := h1
    obtain ⟨todo', htodo, hc'⟩ := chain_nonzero hr.ctodo hr.hd0
    have hownm : s.owner m = some t := hr.otodo m (by rw [htodo]; simp)
    have hnotin : m ∉ s.stk := by
      intro hm; have := (hI.own m).1 hm; rw [this] at hownm; simp at hownm
    have hnd : (m ∉ todo' ∧ m ∉ done) ∧ (todo' ++ done).Nodup := by
      have := hr.nodup; rw [htodo] at this; simpa using this
    have hnd2 : todo'.Nodup ∧ done.Nodup ∧ ∀ a ∈ todo', ∀ b ∈ done, a ≠ b := by
      have := hnd.2; rw [List.nodup_append] at this; exact this
    -- the new chains
    have c1 : Chain (upd s.next m x) nx todo' := by
      rw [← hnx]; exact chain_upd_notin hnd.1.1 hc'
    have c2 : Chain (upd s.next m x) m (m :: done) := by
      simp; refine ⟨hr.hd0, ?_⟩
      exact chain_upd_notin hnd.1.2 hr.cdone
    have o1 : ∀ n ∈ todo', s.owner n = some t := fun n hn => hr.otodo n (by rw [htodo]; simp [hn])
    have o2 : ∀ n ∈ m :: done, s.owner n = some t := by
      intro n hn; simp at hn; rcases hn with e | e
      · subst e; exact hownm
      · exact hr.odone n e
    have r1 : todo'.reverse ++ (m :: done) = s.res t := by
      rw [← hr.res, htodo]; simp
    refine ⟨chain_upd_notin hnotin hI.chain, hI.nodup, hI.own, ?_, hI.lin⟩
    refine loc_wrNext (v := x)
      (new := if nx = 0 then Pc.walk m 0 (m :: done) else Pc.revLoop nx m todo.tail (m :: done))
      hI hownm rfl rfl rfl rfl ?_
    by_cases hnx0 : nx = 0
    · -- the loop ends: the reversed list is complete
      simp only [hnx0, if_true, Local]
      have : todo' = [] := by rw [hnx0] at c1; exact chain_zero c1
      subst this
      exact ⟨c2, o2, by simpa using r1⟩
    · simp only [hnx0, if_false, Local]
      have htl : todo.tail = todo' := by rw [htodo]; rfl
      rw [htl]
      refine ⟨hnx0, c1, c2, o1, o2, ?_, r1⟩
      rw [List.nodup_append]
      refine ⟨hnd2.1, ?_, ?_⟩
      · simp [hnd.1.2, hnd2.2.1]
      · intro a ha b hb
        simp at hb; rcases hb with e | e
        · subst e; intro e'; subst e'; exact hnd.1.1 ha
        · exact hnd2.2.2 a ha b e

/-- the success branch of the CAS, shared by `mpmc_stack_push` and `mpmc_stack_push_timeout`:
    `des` is a node `t` owns whose `next` is the head right now -/
theorem inv_cas_success {s : St} {t des : Nat} {new : Pc} {att : Nat → Nat} (hI : Inv s)
    (hn0 : des ≠ 0) (hown : s.owner des = some t) (hnext : s.next des = s.head)
    (hnew : ∀ s' : St, Local s' t new) :
    Inv { s with head := des, owner := upd s.owner des none, stk := des :: s.stk,
                 lin := s.lin ++ [.push des (s.data des)], pc := upd s.pc t new, att := att } := by
  have hnotin : des ∉ s.stk := by
    intro hm; have := (hI.own des).1 hm; rw [this] at hown; simp at hown
  refine ⟨?_, ?_, ?_, ?_, ?_⟩
  · show Chain s.next des (des :: s.stk)
    simp; refine ⟨hn0, ?_⟩; rw [hnext]; exact hI.chain
  · show (des :: s.stk).Nodup
    simp [hnotin, hI.nodup]
  · intro m; show m ∈ des :: s.stk ↔ upd s.owner des none m = none
    simp only [upd]; split
    · simp_all
    · rename_i hne; simp [hne, hI.own m]
  · intro t'
    by_cases e : t' = t
    · subst e; show Local _ t' (upd s.pc t' new t'); rw [upd_same]; exact hnew _
    · show Local _ t' (upd s.pc t new t')
      simp only [upd, e, if_false]
      refine local_frame (hI.loc t') (fun m hm => ?_) rfl
      have : m ≠ des := by
        intro e'; subst e'; rw [hown] at hm; simp at hm; exact e hm.symm
      exact ⟨rfl, by simp [upd, this]; exact hm⟩
  · show stackReplay (s.lin ++ [.push des (s.data des)]) = some ((des :: s.stk).map (fun n => (n, s.data n)))
    rw [stackReplay_snoc, hI.lin]; simp [stackStep]

theorem step_cas (s s' : St) (t found exp des : Nat) (ok : Bool) (hI : Inv s)
    (h : step s (.cas t found exp des ok) = some s') : Inv s' := by
  simp only [step] at h
  split at h
  · rename_i n hd hpc
    split at h
    case isFalse => simp at h
    rename_i hcond
    obtain ⟨rfl, rfl, rfl, hok⟩ := hcond
    have h1 := hI.loc t; rw [hpc] at h1; simp only [Local] at h1
    split at h <;> simp at h <;> subst h
    · -- success: `exp` is the head right now, whatever happened to that node meanwhile
      rename_i hoktrue
      simp [hoktrue] at hok
      exact inv_cas_success (att := s.att) hI h1.1 h1.2.1 (by rw [h1.2.2, hok]) (fun _ => by simp [Local])
    · exact ⟨hI.chain, hI.nodup, hI.own,
        loc_pconly hI rfl rfl rfl rfl (by simp [Local, h1.1, h1.2.1]), hI.lin⟩
  · -- push_timeout
    rename_i n hd b hpc
    split at h
    case isFalse => simp at h
    rename_i hcond
    obtain ⟨rfl, rfl, rfl, hok⟩ := hcond
    have h1 := hI.loc t; rw [hpc] at h1; simp only [Local] at h1
    split at h <;> simp at h <;> subst h
    · rename_i hoktrue
      simp [hoktrue] at hok
      exact inv_cas_success hI h1.1 h1.2.1 (by rw [h1.2.2, hok]) (fun _ => by simp [Local])
    · -- failure: retry with the refreshed head or give up; nothing but the pc (and the ghost
      -- attempt counter) changes, the node stays with its owner
      refine ⟨hI.chain, hI.nodup, hI.own, loc_pconly hI rfl rfl rfl rfl ?_, hI.lin⟩
      by_cases hb : b - 1 = 0 <;> simp [hb, Local, h1.1, h1.2.1]
  · simp at h

theorem step_xchg (s s' : St) (t old : Nat) (hI : Inv s)
    (h : step s (.xchg t old) = some s') : Inv s' := by
  simp only [step] at h
  split at h <;> simp at h
  rename_i fifo hpc
  obtain ⟨rfl, rfl⟩ := h
  have hownd : ∀ n ∈ s.stk, (if n ∈ s.stk then some t else s.owner n) = some t := by
    intro n hn; simp [hn]
  refine ⟨?_, ?_, ?_, ?_, ?_⟩
  · show Chain s.next 0 []; simp
  · show ([] : List Nat).Nodup; simp
  · intro n; show n ∈ [] ↔ (if n ∈ s.stk then some t else s.owner n) = none
    by_cases hn : n ∈ s.stk
    · simp [hn]
    · simp [hn]; intro h0; exact hn ((hI.own n).2 h0)
  · intro t'
    by_cases e : t' = t
    · subst e
      show Local _ t' (upd s.pc t' _ t')
      simp only [upd_same]
      by_cases hb : fifo = true ∧ s.head ≠ 0
      · simp only [hb, if_true, Local]
        refine ⟨hb.2, hI.chain, by simp, hownd, by simp, by simpa using hI.nodup, ?_⟩
        simp
      · simp only [hb, if_false, Local]
        refine ⟨hI.chain, hownd, ?_⟩
        show s.stk = (upd s.res t' (if fifo = true then s.stk.reverse else s.stk) t').drop 0
        simp only [upd_same, List.drop_zero]
        by_cases hf : fifo = true
        · have h0 : s.head = 0 := by
            by_cases hh : s.head = 0
            · exact hh
            · exact absurd ⟨hf, hh⟩ hb
          have : s.stk = [] := by have := hI.chain; rw [h0] at this; exact chain_zero this
          simp [hf, this]
        · simp [hf]
    · show Local _ t' (upd s.pc t _ t')
      simp only [upd, e, if_false]
      refine local_frame (hI.loc t') (fun m hm => ?_) (by simp [upd, e])
      have : m ∉ s.stk := by intro hmem; have := (hI.own m).1 hmem; rw [this] at hm; simp at hm
      exact ⟨rfl, by simp [this]; exact hm⟩
  · show stackReplay (s.lin ++ [.flush (s.stk.map (fun n => (n, s.data n)))]) = some (([] : List Nat).map _)
    rw [stackReplay_snoc, hI.lin]; simp [stackStep]

theorem inv_step (s s' : St) (e : Ev) (hI : Inv s) (h : step s e = some s') : Inv s' := by
  cases e with
  | callPush t v => exact step_callPush s s' t v hI h
  | wrData t n v => exact step_wrData s s' t n v hI h
  | ldHead t hd => exact step_ldHead s s' t hd hI h
  | wrNext t n x => exact step_wrNext s s' t n x hI h
  | cas t f e d ok => exact step_cas s s' t f e d ok hI h
  | retPush t => exact step_retPush s s' t hI h
  | callPushTo t v b => exact step_callPushTo s s' t v b hI h
  | retPushTo t r => exact step_retPushTo s s' t r hI h
  | callFlush t b => exact step_callFlush s s' t b hI h
  | xchg t old => exact step_xchg s s' t old hI h
  | rdNext t n x => exact step_rdNext s s' t n x hI h
  | rdData t n v => exact step_rdData s s' t n v hI h
  | item t v => exact step_item s s' t v hI h
  | retFlush t k => exact step_retFlush s s' t k hI h

theorem inv_of_run {own0 : Nat → Nat} {es : List Ev} {s : St} (h : (sys own0).run es = some s) : Inv s :=
  Sys.inv_of_run (sys own0) Inv (inv_init own0) (fun s e s' hI hs => inv_step s s' e hI hs) h

/-! ### consequences -/

/-- a successful push CAS conses the node on the abstract stack as it is AT THE CAS INSTANT:
    its `next` is the current top, although the local `h` may be a node that was flushed,
    walked and pushed again since it was loaded (no ABA counter needed) -/
theorem push_cas_success {s s' : St} {t n h found exp des : Nat} (hI : Inv s)
    (hpc : s.pc t = .pushWroteNext n h) (hcas : step s (.cas t found exp des true) = some s') :
    s.head = h ∧ s.next n = h ∧ s'.stk = n :: s.stk ∧ s'.head = n ∧ s.owner n = some t ∧
      s'.owner n = none ∧ s'.lin = s.lin ++ [.push n (s.data n)] := by
  have h1 := hI.loc t; rw [hpc] at h1; simp only [Local] at h1
  simp only [step, hpc] at hcas
  split at hcas
  · rename_i hc; obtain ⟨rfl, rfl, rfl, hok⟩ := hc
    simp at hok hcas; subst hcas
    exact ⟨hok, h1.2.2, rfl, rfl, h1.2.1, by simp [upd], rfl⟩
  · simp at hcas


/-! ### mpmc_stack_push_timeout -/

/-- a successful CAS of push_timeout: exactly `push_cas_success` -/
theorem pushto_cas_success {s s' : St} {t n h b found exp des : Nat} (hI : Inv s)
    (hpc : s.pc t = .toWroteNext n h b) (hcas : step s (.cas t found exp des true) = some s') :
    s.head = h ∧ s.next n = h ∧ s'.stk = n :: s.stk ∧ s'.head = n ∧ s.owner n = some t ∧
      s'.owner n = none ∧ s'.lin = s.lin ++ [.push n (s.data n)] ∧ s'.pc t = .toDone := by
  have h1 := hI.loc t; rw [hpc] at h1; simp only [Local] at h1
  simp only [step, hpc] at hcas
  split at hcas
  · rename_i hc; obtain ⟨rfl, rfl, rfl, hok⟩ := hc
    simp at hok hcas; subst hcas
    exact ⟨hok, h1.2.2, rfl, rfl, h1.2.1, by simp [upd], rfl, by simp⟩
  · simp at hcas

/-- … and it is literally the step `mpmc_stack_push` would have made from the same state: put
    the thread at the corresponding pc of the unbounded push; the same CAS event is accepted
    there and the two successor states agree on every cell and every container ghost -/
theorem pushto_success_is_push {s s' : St} {t n h b found exp des : Nat}
    (hpc : s.pc t = .toWroteNext n h b) (hcas : step s (.cas t found exp des true) = some s') :
    ∃ s0', step { s with pc := upd s.pc t (.pushWroteNext n h) } (.cas t found exp des true) = some s0' ∧
      s'.head = s0'.head ∧ s'.next = s0'.next ∧ s'.data = s0'.data ∧ s'.owner = s0'.owner ∧
      s'.stk = s0'.stk ∧ s'.res = s0'.res ∧ s'.lin = s0'.lin := by
  simp only [step, hpc] at hcas
  split at hcas
  · rename_i hc
    simp at hcas; subst hcas
    simp only [step, upd_same]
    rw [if_pos hc]
    exact ⟨_, rfl, rfl, rfl, rfl, rfl, rfl, rfl, rfl⟩
  · simp at hcas

/-- a failed CAS of push_timeout found another head than expected and changes nothing but the
    thread's pc (retry with the refreshed head while tries remain, else give up) -/
theorem pushto_cas_failure {s s' : St} {t n h b found exp des : Nat}
    (hpc : s.pc t = .toWroteNext n h b) (hcas : step s (.cas t found exp des false) = some s') :
    found = s.head ∧ found ≠ h ∧ s'.head = s.head ∧ s'.next = s.next ∧ s'.data = s.data ∧
      s'.owner = s.owner ∧ s'.stk = s.stk ∧ s'.res = s.res ∧ s'.lin = s.lin ∧
      s'.pc t = (if b - 1 = 0 then .toGaveUp n else .toGotHead n found (b - 1)) := by
  simp only [step, hpc] at hcas
  split at hcas
  · rename_i hc; obtain ⟨rfl, rfl, rfl, hok⟩ := hc
    simp at hok hcas; subst hcas
    exact ⟨rfl, hok, rfl, rfl, rfl, rfl, rfl, rfl, rfl, by simp⟩
  · simp at hcas

/-- a push_timeout that is about to report MPMC_RETRY still owns its node, which is not in
    the container -/
theorem gaveUp_unpublished {s : St} {t n : Nat} (hI : Inv s) (hpc : s.pc t = .toGaveUp n) :
    n ≠ 0 ∧ s.owner n = some t ∧ n ∉ s.stk := by
  have h1 := hI.loc t; rw [hpc] at h1; simp only [Local] at h1
  refine ⟨h1.1, h1.2, ?_⟩
  intro hm; have := (hI.own n).1 hm; rw [this] at h1; simp at h1

/-- the thread performing an event -/
def tidOf : Ev → Nat
  | .callPush t _ => t
  | .wrData t _ _ => t
  | .ldHead t _ => t
  | .wrNext t _ _ => t
  | .cas t _ _ _ _ => t
  | .retPush t => t
  | .callPushTo t _ _ => t
  | .retPushTo t _ => t
  | .callFlush t _ => t
  | .xchg t _ => t
  | .rdNext t _ _ => t
  | .rdData t _ _ => t
  | .item t _ => t
  | .retFlush t _ => t

/-- the events that change the container: a successful CAS and the exchange -/
def publishes : Ev → Bool
  | .cas _ _ _ _ ok => ok
  | .xchg _ _ => true
  | _ => false

/-- every other step leaves `head`, the abstract stack, the ownership and the linearisation alone -/
theorem step_frame {s s' : St} {e : Ev} (h : step s e = some s') (hp : publishes e = false) :
    s'.head = s.head ∧ s'.stk = s.stk ∧ s'.owner = s.owner ∧ s'.lin = s.lin := by
  cases e <;> simp only [step] at h <;> simp only [publishes] at hp
  case xchg => simp at hp
  case cas t f e d ok =>
    subst hp
    (repeat' split at h) <;> simp at h <;> (try obtain ⟨_, h⟩ := h) <;> (try subst h) <;>
      first | exact ⟨rfl, rfl, rfl, rfl⟩ | simp_all
  all_goals
    (repeat' split at h) <;> simp at h <;> (try obtain ⟨_, h⟩ := h) <;> (try subst h) <;> exact ⟨rfl, rfl, rfl, rfl⟩

/-- a step only touches the pc and the attempt counters of the thread that performs it -/
theorem step_other {s s' : St} {e : Ev} {t' : Nat} (h : step s e = some s') (ht : t' ≠ tidOf e) :
    s'.pc t' = s.pc t' ∧ s'.att t' = s.att t' ∧ s'.tries0 t' = s.tries0 t' := by
  cases e <;> simp only [step] at h <;> simp only [tidOf] at ht <;>
    (repeat' split at h) <;> simp at h <;> (try obtain ⟨_, h⟩ := h) <;> (try subst h) <;> simp [upd, ht]

/-! #### budget: at most `tries` CAS attempts -/

/-- remaining tries + attempts made = the budget the call was given -/
def BudOk (s : St) (t : Nat) : Pc → Prop
  | .toCalled _ b => 1 ≤ b ∧ b = s.tries0 t ∧ s.att t = 0
  | .toReady _ b => 1 ≤ b ∧ b = s.tries0 t ∧ s.att t = 0
  | .toGotHead _ _ b => 1 ≤ b ∧ s.att t + b = s.tries0 t
  | .toWroteNext _ _ b => 1 ≤ b ∧ s.att t + b = s.tries0 t
  | .toGaveUp _ => s.att t = s.tries0 t
  | _ => s.att t ≤ s.tries0 t

theorem BudOk.le {s : St} {t : Nat} {pc : Pc} (h : BudOk s t pc) : s.att t ≤ s.tries0 t := by
  cases pc <;> simp only [BudOk] at h <;> omega

theorem bud_step {s s' : St} {e : Ev} (hI : ∀ t, BudOk s t (s.pc t)) (h : step s e = some s') :
    ∀ t, BudOk s' t (s'.pc t) := by
  intro t'
  by_cases ht : t' = tidOf e
  · subst ht
    have h0 := hI (tidOf e)
    cases e <;> simp only [step] at h <;> simp only [tidOf] at h0 ⊢ <;>
      (repeat' split at h) <;> simp at h <;> (try obtain ⟨_, h⟩ := h) <;> (try subst h) <;>
      simp_all [BudOk, upd] <;> omega
  · obtain ⟨h1, h2, h3⟩ := step_other h ht
    have h0 := hI t'
    rw [h1]
    cases hpc : s.pc t' <;> rw [hpc] at h0 <;> simp only [BudOk] at h0 ⊢ <;> omega

theorem bud_of_run {own0 : Nat → Nat} {es : List Ev} {s : St} (h : (sys own0).run es = some s) :
    ∀ t, BudOk s t (s.pc t) :=
  Sys.inv_of_run (sys own0) (fun s => ∀ t, BudOk s t (s.pc t))
    (by intro t; simp [sys, init, BudOk]) (fun s e s' hI hs => bud_step hI hs) h


/-! #### operation level: the events of a thread's current operation -/

/-- `e` is a call note of thread `t` -/
def isCallOf (t : Nat) : Ev → Bool
  | .callPush t' _ => t' = t
  | .callPushTo t' _ _ => t' = t
  | .callFlush t' _ => t' = t
  | _ => false

/-- `e` is a CAS (successful or not) by thread `t` -/
def isCasOf (t : Nat) : Ev → Bool
  | .cas t' _ _ _ _ => t' = t
  | _ => false

/-- the events after thread `t`'s latest call note (events of all threads, in trace order) -/
def curOp (t : Nat) (es : List Ev) : List Ev :=
  (es.reverse.takeWhile (fun e => !isCallOf t e)).reverse

/-- thread `t`'s latest call note -/
def callOf (t : Nat) (es : List Ev) : Option Ev := es.reverse.find? (isCallOf t)

/-- number of CAS attempts thread `t` made in `es` -/
def casCount (t : Nat) (es : List Ev) : Nat := (es.filter (isCasOf t)).length

theorem curOp_snoc (t : Nat) (es : List Ev) (e : Ev) :
    curOp t (es ++ [e]) = if isCallOf t e then [] else curOp t es ++ [e] := by
  simp only [curOp, List.reverse_append, List.reverse_cons, List.reverse_nil, List.nil_append,
    List.singleton_append, List.takeWhile_cons]
  cases isCallOf t e <;> simp

theorem callOf_snoc (t : Nat) (es : List Ev) (e : Ev) :
    callOf t (es ++ [e]) = if isCallOf t e then some e else callOf t es := by
  simp only [callOf, List.reverse_append, List.reverse_cons, List.reverse_nil, List.nil_append,
    List.singleton_append, List.find?_cons]
  cases isCallOf t e <;> simp

theorem casCount_snoc (t : Nat) (es : List Ev) (e : Ev) :
    casCount t (es ++ [e]) = casCount t es + (if isCasOf t e then 1 else 0) := by
  simp only [casCount, List.filter_append, List.length_append]
  cases h : isCasOf t e <;> simp [List.filter, h]

theorem tid_of_isCallOf {t : Nat} {e : Ev} (h : isCallOf t e = true) : tidOf e = t := by
  cases e <;> simp [isCallOf] at h <;> simp [tidOf, h]

theorem tid_of_isCasOf {t : Nat} {e : Ev} (h : isCasOf t e = true) : tidOf e = t := by
  cases e <;> simp [isCasOf] at h <;> simp [tidOf, h]

/-- inside a push_timeout that has not succeeded (yet, or at all) -/
def toPending : Pc → Bool
  | .toCalled _ _ => true
  | .toReady _ _ => true
  | .toGotHead _ _ _ => true
  | .toWroteNext _ _ _ => true
  | .toGaveUp _ => true
  | _ => false

/-- inside a push_timeout -/
def inTo : Pc → Bool
  | .toDone => true
  | pc => toPending pc

/-- a thread is inside a not-yet-successful push_timeout only if it was so before or has just
    called it; and the step it made did not change the container -/
theorem pending_step {s s' : St} {e : Ev} (h : step s e = some s')
    (hp : toPending (s'.pc (tidOf e)) = true) (hc : isCallOf (tidOf e) e = false) :
    toPending (s.pc (tidOf e)) = true ∧ publishes e = false := by
  cases e <;> simp only [step] at h <;> simp only [tidOf] at hp hc ⊢ <;>
    (repeat' split at h) <;> simp at h <;> (try obtain ⟨_, h⟩ := h) <;> (try subst h) <;>
    simp_all [toPending, publishes, isCallOf, upd]

/-- bookkeeping of the ghost attempt counter against the trace -/
theorem inTo_step {s s' : St} {e : Ev} (h : step s e = some s')
    (hp : inTo (s'.pc (tidOf e)) = true) :
    (isCallOf (tidOf e) e = true ∧ s'.att (tidOf e) = 0 ∧
        ∃ v, e = .callPushTo (tidOf e) v (s'.tries0 (tidOf e))) ∨
    (isCallOf (tidOf e) e = false ∧ inTo (s.pc (tidOf e)) = true ∧
        s'.tries0 (tidOf e) = s.tries0 (tidOf e) ∧
        s'.att (tidOf e) = s.att (tidOf e) + (if isCasOf (tidOf e) e then 1 else 0)) := by
  cases e <;> simp only [step] at h <;> simp only [tidOf] at hp ⊢ <;>
    (repeat' split at h) <;> simp at h <;> (try obtain ⟨_, h⟩ := h) <;> (try subst h) <;>
    simp_all [inTo, toPending, isCasOf, isCallOf, upd]

/-- history invariant: (1) no event of a not-yet-successful push_timeout changed the container;
    (2) the ghost attempt counter is the number of CAS events of the operation; (3) the ghost
    budget is the one the operation was called with -/
structure OpInv (s : St) (es : List Ev) : Prop where
  quiet : ∀ t, toPending (s.pc t) = true → ∀ e ∈ curOp t es, tidOf e = t → publishes e = false
  count : ∀ t, inTo (s.pc t) = true → s.att t = casCount t (curOp t es)
  call : ∀ t, inTo (s.pc t) = true → ∃ v, callOf t es = some (.callPushTo t v (s.tries0 t))

theorem opInv_step {s s' : St} {es : List Ev} {e : Ev} (hI : OpInv s es) (h : step s e = some s') :
    OpInv s' (es ++ [e]) := by
  refine ⟨?_, ?_, ?_⟩
  · intro t hp e' he' ht'
    by_cases ht : t = tidOf e
    · subst ht
      by_cases hc : isCallOf (tidOf e) e = true
      · rw [curOp_snoc, if_pos hc] at he'; simp at he'
      · have hc' : isCallOf (tidOf e) e = false := by simpa using hc
        obtain ⟨hp0, hq⟩ := pending_step h hp hc'
        rw [curOp_snoc] at he'; simp only [hc', Bool.false_eq_true, if_false, List.mem_append,
          List.mem_singleton] at he'
        rcases he' with he' | rfl
        · exact hI.quiet _ hp0 e' he' ht'
        · exact hq
    · have hc' : isCallOf t e = false := by
        cases hc : isCallOf t e
        · rfl
        · exact absurd (tid_of_isCallOf hc).symm ht
      rw [(step_other h ht).1] at hp
      rw [curOp_snoc] at he'; simp only [hc', Bool.false_eq_true, if_false, List.mem_append,
        List.mem_singleton] at he'
      rcases he' with he' | rfl
      · exact hI.quiet _ hp e' he' ht'
      · exact absurd ht'.symm ht
  · intro t hp
    by_cases ht : t = tidOf e
    · subst ht
      rcases inTo_step h hp with ⟨hc, ha, _⟩ | ⟨hc, hp0, _, ha⟩
      · rw [curOp_snoc, if_pos hc, ha]; rfl
      · rw [curOp_snoc]; simp only [hc, Bool.false_eq_true, if_false]
        rw [casCount_snoc, ha, hI.count _ hp0]
    · have hc' : isCallOf t e = false := by
        cases hc : isCallOf t e
        · rfl
        · exact absurd (tid_of_isCallOf hc).symm ht
      have hcas : isCasOf t e = false := by
        cases hc : isCasOf t e
        · rfl
        · exact absurd (tid_of_isCasOf hc).symm ht
      obtain ⟨h1, h2, _⟩ := step_other h ht
      rw [h1] at hp
      rw [curOp_snoc]; simp only [hc', Bool.false_eq_true, if_false]
      rw [casCount_snoc, h2, hI.count _ hp, hcas]; simp
  · intro t hp
    by_cases ht : t = tidOf e
    · subst ht
      rcases inTo_step h hp with ⟨hc, _, v, hv⟩ | ⟨hc, hp0, htr, _⟩
      · rw [callOf_snoc, if_pos hc]; exact ⟨v, by rw [← hv]⟩
      · rw [callOf_snoc]; simp only [hc, Bool.false_eq_true, if_false]
        rw [htr]; exact hI.call _ hp0
    · have hc' : isCallOf t e = false := by
        cases hc : isCallOf t e
        · rfl
        · exact absurd (tid_of_isCallOf hc).symm ht
      obtain ⟨h1, _, h3⟩ := step_other h ht
      rw [h1] at hp
      rw [callOf_snoc]; simp only [hc', Bool.false_eq_true, if_false]
      rw [h3]; exact hI.call _ hp

theorem opInv_of_run {own0 : Nat → Nat} {es : List Ev} {s : St} (h : (sys own0).run es = some s) :
    OpInv s es :=
  Sys.hist_inv_of_run (sys own0) OpInv
    ⟨by simp [sys, init, toPending], by simp [sys, init, inTo, toPending],
     by simp [sys, init, inTo, toPending]⟩
    (fun s es e s' hI hs => opInv_step hI hs) h

/-- the model only accepts push_timeout calls with `tries ≥ 1` -/
theorem call_budget_pos {own0 : Nat → Nat} {es : List Ev} {s : St} (h : (sys own0).run es = some s) :
    ∀ t v b, Ev.callPushTo t v b ∈ es → 1 ≤ b := by
  refine Sys.hist_inv_of_run (sys own0) (fun _ es => ∀ t v b, Ev.callPushTo t v b ∈ es → 1 ≤ b)
    (by simp) ?_ h
  intro s es e s' hI hs t v b hm
  simp only [List.mem_append, List.mem_singleton] at hm
  rcases hm with hm | rfl
  · exact hI t v b hm
  · simp only [sys, step] at hs
    split at hs
    · rename_i hc; exact hc.2.2
    · simp at hs

theorem callOf_budget_pos {own0 : Nat → Nat} {es : List Ev} {s : St} {t v b : Nat}
    (h : (sys own0).run es = some s) (hc : callOf t es = some (.callPushTo t v b)) : 1 ≤ b := by
  have hm : Ev.callPushTo t v b ∈ es := by
    have := List.mem_of_find?_eq_some hc
    simpa using this
  exact call_budget_pos h t v b hm

/-- the exchange takes EVERYTHING: the pointer it returns heads exactly the abstract stack,
    the container is empty afterwards, every taken node now belongs to the flusher alone, and
    the list to hand out is fixed: the content, reversed for a fifo flush -/
theorem flush_takes_all {s s' : St} {t old : Nat} {fifo : Bool} (hI : Inv s)
    (hpc : s.pc t = .flushCalled fifo) (hx : step s (.xchg t old) = some s') :
    Chain s.next old s.stk ∧ s'.stk = [] ∧ s'.head = 0 ∧
      s'.res t = (if fifo then s.stk.reverse else s.stk) ∧
      (∀ n ∈ s.stk, s.owner n = none ∧ s'.owner n = some t) ∧
      s'.lin = s.lin ++ [.flush (s.stk.map (fun n => (n, s.data n)))] := by
  simp only [step, hpc] at hx
  split at hx
  · rename_i hc; subst hc
    simp at hx; subst hx
    refine ⟨hI.chain, rfl, rfl, by simp [upd], ?_, rfl⟩
    intro n hn
    exact ⟨(hI.own n).1 hn, by simp [hn]⟩
  · simp at hx

/-- what the flusher walks: the not-yet-handed-out suffix of its result list hangs off the
    current pointer (for `k = 0`: the reversal is complete and correct), all nodes its own -/
theorem walk_result {s : St} {t p k : Nat} {rest : List Nat} (hI : Inv s)
    (hpc : s.pc t = .walk p k rest) :
    Chain s.next p rest ∧ rest = (s.res t).drop k ∧ ∀ n ∈ rest, s.owner n = some t := by
  have h1 := hI.loc t; rw [hpc] at h1; simp only [Local] at h1
  exact ⟨h1.crest, h1.res, h1.orest⟩

/-- exactly-once bookkeeping: every node was pushed exactly as often as it was handed out by
    flushes, plus one if it is in the container right now -/
theorem count_balance {s : St} (hI : Inv s) (n : Nat) :
    pushCount n s.lin = takeCount n s.lin + (if n ∈ s.stk then 1 else 0) := by
  have := stackReplayFrom_count n hI.lin
  simp [List.map_map, Function.comp_def] at this
  rw [this, hI.nodup.count]

/-- the linearisation of the flushable stack only contains pushes and flushes -/
theorem lin_ops_step {s s' : St} {e : Ev} (h : step s e = some s')
    (hI : ∀ o ∈ s.lin, isPushOp o = true ∨ ∃ l, o = .flush l) :
    ∀ o ∈ s'.lin, isPushOp o = true ∨ ∃ l, o = .flush l := by
  cases e <;> simp only [step] at h
  case cas t f e d ok =>
    (repeat' split at h) <;> simp at h <;> subst h
    all_goals first
      | exact hI
      | (intro o ho; simp at ho; rcases ho with ho | rfl
         · exact hI o ho
         · simp [isPushOp])
  case xchg t old =>
    split at h
    · split at h
      · simp at h; subst h
        intro o ho; simp at ho; rcases ho with ho | rfl
        · exact hI o ho
        · exact Or.inr ⟨_, rfl⟩
      · simp at h
    · simp at h
  all_goals
    (repeat' split at h) <;> simp at h <;> (try obtain ⟨_, h⟩ := h) <;> (try subst h) <;> exact hI

theorem lin_ops {own0 : Nat → Nat} {es : List Ev} {s : St} (h : (sys own0).run es = some s) :
    ∀ o ∈ s.lin, isPushOp o = true ∨ ∃ l, o = .flush l :=
  Sys.inv_of_run (sys own0) (fun s => ∀ o ∈ s.lin, isPushOp o = true ∨ ∃ l, o = .flush l)
    (by simp [sys, init]) (fun s e s' hI hs => lin_ops_step hs hI) h

end LibfiberVerif.Stack
