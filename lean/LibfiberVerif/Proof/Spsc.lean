/-
  Proof/Spsc.lean — spsc_fifo.h is the `Kind.spsc` instance of the model proved in
  `Proof/Mpsc.lean`; this file only names the instances used by `Props/C15.lean` and by the
  reduction of the relaxed queue (`Proof/Mpscr.lean`).
-/
import LibfiberVerif.Model.Spsc
import LibfiberVerif.Proof.Mpsc

namespace LibfiberVerif.Spsc

open Mpsc

theorem invs_of_run {stub : Nat} (h0 : stub ≠ 0) {es : List Ev} {s : St}
    (h : (sys stub).run es = some s) : Inv .spsc s ∧ VInv s :=
  Mpsc.invs_of_run (k := .spsc) h0 h

/-- single producer: at most one push is in progress, and it is the registered `pusher` -/
theorem single_pusher {stub : Nat} (h0 : stub ≠ 0) {es : List Ev} {s : St}
    (h : (sys stub).run es = some s) (t t' : Nat) (ht : s.pc t ≠ .idle) (ht' : s.pc t' ≠ .idle) :
    t = t' := by
  have hi := (invs_of_run h0 h).1
  have h1 := hi.single rfl t ht
  have h2 := hi.single rfl t' ht'
  rw [h1] at h2; exact Option.some.inj h2

/-- strict emptiness: a trypop reads `head->next = NULL` only if every push that has returned
    has already been popped -/
theorem empty_strict {stub : Nat} (h0 : stub ≠ 0) {es : List Ev} {s s' : St} {t h : Nat}
    (hr : (sys stub).run es = some s) (hs : Mpsc.step .spsc s (.rdNext t h 0) = some s') :
    ∀ v, v ∈ s.returned → v ∈ s.popped :=
  let ⟨hi, hv⟩ := invs_of_run h0 hr
  spsc_empty_core hi hv hs

end LibfiberVerif.Spsc
