/-
  Proof/MultiChanS3.lean — `MultiChan.Inv` (one-list discipline) is preserved by the events of
  group S3 (one lemma per event; several modules so that they compile in parallel).
-/
import LibfiberVerif.Proof.MultiChanInv

set_option linter.unusedSimpArgs false
set_option linter.unusedVariables false

namespace LibfiberVerif.MultiChan

set_option maxHeartbeats 4000000 in
theorem inv_step_wLow (s s' : St) (f l : _) (htwo : s.two = false) (hi : Inv s) (hs : step s (.wLow f l) = some s') : Inv s' := by
  have hI := hi
  obtain ⟨h1, h2, h3, h4, h5, h6, h7, h8, h9, h10, h11, h12, h13, h14, h15, h16, h17, h18, h19, h20, h21, h22, h23, h24, h25, h26, h27, h28, h29, h30, h31, h32⟩ := hi
  simp only [step, htwo] at hs
  repeat' (split at hs)
  all_goals (try simp at hs)
  all_goals (first | subst hs | (obtain ⟨_, hs⟩ := hs; subst hs))
  all_goals (constructor <;> mc_close)

set_option maxHeartbeats 4000000 in
theorem inv_step_wBuf (s s' : St) (f i x : _) (htwo : s.two = false) (hi : Inv s) (hs : step s (.wBuf f i x) = some s') : Inv s' := by
  have hI := hi
  obtain ⟨h1, h2, h3, h4, h5, h6, h7, h8, h9, h10, h11, h12, h13, h14, h15, h16, h17, h18, h19, h20, h21, h22, h23, h24, h25, h26, h27, h28, h29, h30, h31, h32⟩ := hi
  simp only [step, htwo] at hs
  repeat' (split at hs)
  all_goals (try simp at hs)
  all_goals (first | subst hs | (obtain ⟨_, hs⟩ := hs; subst hs))
  all_goals (constructor <;> mc_close)

set_option maxHeartbeats 4000000 in
theorem inv_step_rWaiters (s s' : St) (f w : _) (htwo : s.two = false) (hi : Inv s) (hs : step s (.rWaiters f w) = some s') : Inv s' := by
  have hI := hi
  obtain ⟨h1, h2, h3, h4, h5, h6, h7, h8, h9, h10, h11, h12, h13, h14, h15, h16, h17, h18, h19, h20, h21, h22, h23, h24, h25, h26, h27, h28, h29, h30, h31, h32⟩ := hi
  simp only [step, htwo] at hs
  repeat' (split at hs)
  all_goals (try simp at hs)
  all_goals (first | subst hs | (obtain ⟨_, hs⟩ := hs; subst hs))
  all_goals (constructor <;> mc_close)

set_option maxHeartbeats 4000000 in
theorem inv_step_rScratch (s s' : St) (f g x : _) (htwo : s.two = false) (hi : Inv s) (hs : step s (.rScratch f g x) = some s') : Inv s' := by
  have hI := hi
  obtain ⟨h1, h2, h3, h4, h5, h6, h7, h8, h9, h10, h11, h12, h13, h14, h15, h16, h17, h18, h19, h20, h21, h22, h23, h24, h25, h26, h27, h28, h29, h30, h31, h32⟩ := hi
  simp only [step, htwo] at hs
  repeat' (split at hs)
  all_goals (try simp at hs)
  all_goals (first | subst hs | (obtain ⟨_, hs⟩ := hs; subst hs))
  all_goals (constructor <;> mc_close)

end LibfiberVerif.MultiChan
