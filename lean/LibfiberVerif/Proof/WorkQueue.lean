/-
  Proof/WorkQueue.lean — inductive invariants of the work-queue model (property C17).

  `CInv` is the counting invariant (in_count / out_count / worker set), self-contained;
  `MInv` is the invariant of the inlined MPSC fifo (chain of nodes, ownership, item values),
  proved on top of `CInv` (which supplies "only the unique active worker pops").
-/
import LibfiberVerif.Model.WorkQueue

namespace LibfiberVerif.WorkQueue

/-! ### the counting invariant -/

structure CInv (s : St) : Prop where
  /-- `in_count = announced − subtracted` -/
  cnt : s.inCount + s.subtracted = s.announced
  one : s.workers.length ≤ 1
  wk : ∀ t, (s.pc t).isWorker = true → s.workers = [t]
  pos : s.workers ≠ [] → 1 ≤ s.inCount
  idle0 : s.workers = [] →
    s.inCount = 0 ∧ s.outCount = 0 ∧ s.subtracted = s.counted ∧ s.counted = s.hd ∧
    s.handed.length = s.hd
  outc : ∀ t, (s.pc t).isWorker = true → (∀ old, s.pc t ≠ .gwZeroed old) →
    s.outCount + s.subtracted = s.counted
  zeroed : ∀ t old, s.pc t = .gwZeroed old → s.outCount = 0 ∧ old + s.subtracted = s.counted
  oldv : ∀ t old, s.pc t = .gwOld old → old = s.outCount
  gotout : ∀ t h v o, s.pc t = .gwGotOut h v o → o = s.outCount
  popwin : ∀ t, (s.pc t).popWin = true → s.counted + 1 = s.hd
  npopwin : ∀ t, (s.pc t).isWorker = true → (s.pc t).popWin = false → s.counted = s.hd
  retwin : ∀ t, (s.pc t).retWin = true → s.handed.length + 1 = s.hd
  nretwin : ∀ t, (s.pc t).isWorker = true → (s.pc t).retWin = false → s.handed.length = s.hd
  hle : s.handed.length ≤ s.hd
  pend1 : ∀ t v n r, s.pc t = .pushAnnounced v n r → t ∈ s.pending
  pend2 : ∀ t v n r, s.pc t = .pushTerminated v n r → t ∈ s.pending
  ann : s.announced = s.tl + s.pending.length

theorem cinv_init : CInv init := by
  constructor <;> simp [init, Pc.isWorker, Pc.popWin, Pc.retWin]

theorem cinv_step (s : St) (e : Ev) (s' : St) (I : CInv s) (hs : step s e = some s') : CInv s' := by
  obtain ⟨cnt, one, wk, pos, idle0, outc, zeroed, oldv, gotout, popwin, npopwin, retwin, nretwin,
    hle, pend1, pend2, ann⟩ := I
  cases e <;> simp only [step] at hs <;> split at hs <;> simp at hs
  all_goals
    first
      | (obtain ⟨hc, rfl⟩ := hs)
      | (subst hs)
  all_goals
    constructor
  all_goals
    first
      | (intros; dsimp only at *; grind [upd, Pc.isWorker, Pc.popWin, Pc.retWin])
      | (intros; dsimp only at *; trace_state; sorry)

end LibfiberVerif.WorkQueue
