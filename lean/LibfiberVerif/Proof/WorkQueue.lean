/-
  Proof/WorkQueue.lean — inductive invariants of the work-queue model (property C17).

  `CInv` is the counting invariant (in_count / out_count / worker set), self-contained;
  `MInv` is the invariant of the inlined MPSC fifo (chain of nodes, ownership, item values),
  proved on top of `CInv` (which supplies "only the unique active worker pops").
-/
import LibfiberVerif.Model.WorkQueue

namespace LibfiberVerif.WorkQueue

/-! ### relations between the pc classes -/

theorem Pc.popWin_retWin {p : Pc} (h : p.popWin = true) : p.retWin = true := by
  cases p <;> simp_all [Pc.popWin, Pc.retWin]

theorem Pc.retWin_isWorker {p : Pc} (h : p.retWin = true) : p.isWorker = true := by
  cases p <;> simp_all [Pc.isWorker, Pc.retWin]

theorem Pc.retWin_inGetWork {p : Pc} (h : p.retWin = true) : p.inGetWork = true := by
  cases p <;> simp_all [Pc.inGetWork, Pc.retWin]

theorem Pc.inGetWork_isWorker {p : Pc} (h : p.inGetWork = true) : p.isWorker = true := by
  cases p <;> simp_all [Pc.isWorker, Pc.inGetWork]

/-! ### the counting invariant -/

structure CInv (s : St) : Prop where
  /-- `in_count = announced − subtracted` -/
  cnt : s.inCount + s.subtracted = s.announced
  one : s.workers.length ≤ 1
  wk : ∀ t, (s.pc t).isWorker = true → s.workers = [t]
  pos : s.workers ≠ [] → 1 ≤ s.inCount
  idle0 : s.workers = [] →
    s.inCount = 0 ∧ s.outCount = 0 ∧ s.subtracted = s.counted ∧ s.counted = s.hd ∧
    s.handed.length = s.hd
  outc : ∀ t, (s.pc t).isWorker = true → (∀ old, s.pc t ≠ .gwZeroed old) →
    s.outCount + s.subtracted = s.counted
  zeroed : ∀ t old, s.pc t = .gwZeroed old → s.outCount = 0 ∧ old + s.subtracted = s.counted
  oldv : ∀ t old, s.pc t = .gwOld old → old = s.outCount
  gotout : ∀ t h v o, s.pc t = .gwGotOut h v o → o = s.outCount
  popwin : ∀ t, (s.pc t).popWin = true → s.counted + 1 = s.hd
  npopwin : ∀ t, (s.pc t).isWorker = true → (s.pc t).popWin = false → s.counted = s.hd
  retwin : ∀ t, (s.pc t).retWin = true → s.handed.length + 1 = s.hd
  nretwin : ∀ t, (s.pc t).isWorker = true → (s.pc t).retWin = false → s.handed.length = s.hd
  hle : s.handed.length ≤ s.hd
  hub : s.hd ≤ s.handed.length + 1
  pend1 : ∀ t v n r, s.pc t = .pushAnnounced v n r → t ∈ s.pending
  pend2 : ∀ t v n r, s.pc t = .pushTerminated v n r → t ∈ s.pending
  ann : s.announced = s.tl + s.pending.length

theorem cinv_init : CInv init := by
  constructor <;> simp [init, Pc.isWorker, Pc.popWin, Pc.retWin]

/-- common script: split the step, substitute the new state, prove each conjunct with `grind` -/
macro "cinv_tac" : tactic => `(tactic| (
  all_goals
    (intros; (try dsimp only at *); grind [upd, Pc.isWorker, Pc.popWin, Pc.retWin, → Pc.popWin_retWin, → Pc.retWin_isWorker])))

macro "split_step" hs:ident : tactic => `(tactic| (
  simp only [step] at $hs:ident <;> split at $hs:ident <;> simp at $hs:ident
  all_goals
    first
      | (obtain ⟨hc, hs2⟩ := $hs:ident; subst hs2)
      | (subst $hs:ident)))

theorem cinv_callPush (s s' : St) (t v n : Nat) (I : CInv s) (hs : step s (.callPush t v n) = some s') : CInv s' := by
  obtain ⟨cnt, one, wk, pos, idle0, outc, zeroed, oldv, gotout, popwin, npopwin, retwin, nretwin,
    hle, hub, pend1, pend2, ann⟩ := I
  split_step hs
  all_goals constructor
  cinv_tac

theorem cinv_retPush (s s' : St) (t r : Nat) (I : CInv s) (hs : step s (.retPush t r) = some s') : CInv s' := by
  obtain ⟨cnt, one, wk, pos, idle0, outc, zeroed, oldv, gotout, popwin, npopwin, retwin, nretwin,
    hle, hub, pend1, pend2, ann⟩ := I
  split_step hs
  all_goals constructor
  cinv_tac

theorem cinv_callGw (s s' : St) (t : Nat) (I : CInv s) (hs : step s (.callGw t) = some s') : CInv s' := by
  obtain ⟨cnt, one, wk, pos, idle0, outc, zeroed, oldv, gotout, popwin, npopwin, retwin, nretwin,
    hle, hub, pend1, pend2, ann⟩ := I
  split_step hs
  all_goals constructor
  cinv_tac

theorem cinv_retGw (s s' : St) (t v n : Nat) (I : CInv s) (hs : step s (.retGw t v n) = some s') : CInv s' := by
  obtain ⟨cnt, one, wk, pos, idle0, outc, zeroed, oldv, gotout, popwin, npopwin, retwin, nretwin,
    hle, hub, pend1, pend2, ann⟩ := I
  split_step hs
  all_goals constructor
  cinv_tac

theorem cinv_faddIn (s s' : St) (t old : Nat) (I : CInv s) (hs : step s (.faddIn t old) = some s') : CInv s' := by
  obtain ⟨cnt, one, wk, pos, idle0, outc, zeroed, oldv, gotout, popwin, npopwin, retwin, nretwin,
    hle, hub, pend1, pend2, ann⟩ := I
  split_step hs
  rename_i hc
  have hw : old = 0 → s.workers = [] := by
    intro h
    by_cases hw : s.workers = []
    · exact hw
    · have := pos hw; omega
  by_cases h0 : old = 0
  · have hw0 := hw h0
    have hi := idle0 hw0
    simp only [h0, if_true, hw0]
    constructor
    cinv_tac
  · simp only [h0, if_false]
    constructor
    cinv_tac

theorem cinv_fsubIn (s s' : St) (t old op : Nat) (I : CInv s) (hs : step s (.fsubIn t old op) = some s') : CInv s' := by
  obtain ⟨cnt, one, wk, pos, idle0, outc, zeroed, oldv, gotout, popwin, npopwin, retwin, nretwin,
    hle, hub, pend1, pend2, ann⟩ := I
  split_step hs
  all_goals constructor
  cinv_tac

theorem cinv_rdIn (s s' : St) (t x : Nat) (I : CInv s) (hs : step s (.rdIn t x) = some s') : CInv s' := by
  obtain ⟨cnt, one, wk, pos, idle0, outc, zeroed, oldv, gotout, popwin, npopwin, retwin, nretwin,
    hle, hub, pend1, pend2, ann⟩ := I
  split_step hs
  all_goals constructor
  cinv_tac

theorem cinv_rdOut (s s' : St) (t x : Nat) (I : CInv s) (hs : step s (.rdOut t x) = some s') : CInv s' := by
  obtain ⟨cnt, one, wk, pos, idle0, outc, zeroed, oldv, gotout, popwin, npopwin, retwin, nretwin,
    hle, hub, pend1, pend2, ann⟩ := I
  split_step hs
  all_goals constructor
  cinv_tac

theorem cinv_wrOut (s s' : St) (t x : Nat) (I : CInv s) (hs : step s (.wrOut t x) = some s') : CInv s' := by
  obtain ⟨cnt, one, wk, pos, idle0, outc, zeroed, oldv, gotout, popwin, npopwin, retwin, nretwin,
    hle, hub, pend1, pend2, ann⟩ := I
  split_step hs
  all_goals constructor
  cinv_tac

theorem cinv_rdHead (s s' : St) (t x : Nat) (I : CInv s) (hs : step s (.rdHead t x) = some s') : CInv s' := by
  obtain ⟨cnt, one, wk, pos, idle0, outc, zeroed, oldv, gotout, popwin, npopwin, retwin, nretwin,
    hle, hub, pend1, pend2, ann⟩ := I
  split_step hs
  all_goals constructor
  cinv_tac

theorem cinv_wrHead (s s' : St) (t x : Nat) (I : CInv s) (hs : step s (.wrHead t x) = some s') : CInv s' := by
  obtain ⟨cnt, one, wk, pos, idle0, outc, zeroed, oldv, gotout, popwin, npopwin, retwin, nretwin,
    hle, hub, pend1, pend2, ann⟩ := I
  split_step hs
  all_goals constructor
  cinv_tac

theorem cinv_xchgTail (s s' : St) (t old new : Nat) (I : CInv s) (hs : step s (.xchgTail t old new) = some s') : CInv s' := by
  obtain ⟨cnt, one, wk, pos, idle0, outc, zeroed, oldv, gotout, popwin, npopwin, retwin, nretwin,
    hle, hub, pend1, pend2, ann⟩ := I
  split_step hs
  all_goals constructor
  cinv_tac

theorem cinv_rdNext (s s' : St) (t n x : Nat) (I : CInv s) (hs : step s (.rdNext t n x) = some s') : CInv s' := by
  obtain ⟨cnt, one, wk, pos, idle0, outc, zeroed, oldv, gotout, popwin, npopwin, retwin, nretwin,
    hle, hub, pend1, pend2, ann⟩ := I
  split_step hs
  all_goals constructor
  cinv_tac

theorem cinv_wrNext (s s' : St) (t n x : Nat) (I : CInv s) (hs : step s (.wrNext t n x) = some s') : CInv s' := by
  obtain ⟨cnt, one, wk, pos, idle0, outc, zeroed, oldv, gotout, popwin, npopwin, retwin, nretwin,
    hle, hub, pend1, pend2, ann⟩ := I
  split_step hs
  all_goals constructor
  cinv_tac

theorem cinv_rdData (s s' : St) (t n x : Nat) (I : CInv s) (hs : step s (.rdData t n x) = some s') : CInv s' := by
  obtain ⟨cnt, one, wk, pos, idle0, outc, zeroed, oldv, gotout, popwin, npopwin, retwin, nretwin,
    hle, hub, pend1, pend2, ann⟩ := I
  split_step hs
  all_goals constructor
  cinv_tac

theorem cinv_wrData (s s' : St) (t n x : Nat) (I : CInv s) (hs : step s (.wrData t n x) = some s') : CInv s' := by
  obtain ⟨cnt, one, wk, pos, idle0, outc, zeroed, oldv, gotout, popwin, npopwin, retwin, nretwin,
    hle, hub, pend1, pend2, ann⟩ := I
  split_step hs
  all_goals constructor
  cinv_tac

theorem cinv_step (s : St) (e : Ev) (s' : St) (I : CInv s) (hs : step s e = some s') : CInv s' := by
  cases e with
  | callPush t v n => exact cinv_callPush s s' t v n I hs
  | retPush t r => exact cinv_retPush s s' t r I hs
  | callGw t => exact cinv_callGw s s' t I hs
  | retGw t v n => exact cinv_retGw s s' t v n I hs
  | faddIn t old => exact cinv_faddIn s s' t old I hs
  | fsubIn t old op => exact cinv_fsubIn s s' t old op I hs
  | rdIn t x => exact cinv_rdIn s s' t x I hs
  | rdOut t x => exact cinv_rdOut s s' t x I hs
  | wrOut t x => exact cinv_wrOut s s' t x I hs
  | rdHead t x => exact cinv_rdHead s s' t x I hs
  | wrHead t x => exact cinv_wrHead s s' t x I hs
  | xchgTail t old new => exact cinv_xchgTail s s' t old new I hs
  | rdNext t n x => exact cinv_rdNext s s' t n x I hs
  | wrNext t n x => exact cinv_wrNext s s' t n x I hs
  | rdData t n x => exact cinv_rdData s s' t n x I hs
  | wrData t n x => exact cinv_wrData s s' t n x I hs

/-! ### list helpers -/

theorem getElem?_append_of_some {l : List Nat} {i : Nat} {x : Nat} (v : Nat)
    (h : l[i]? = some x) : (l ++ [v])[i]? = some x := by
  have hi : i < l.length := by
    rcases List.getElem?_eq_some_iff.mp h with ⟨hi, _⟩; exact hi
  rw [List.getElem?_append_left hi]; exact h

theorem getElem?_append_lt {l : List Nat} {i : Nat} (v : Nat) (hi : i < l.length) :
    (l ++ [v])[i]? = l[i]? := List.getElem?_append_left hi

theorem getElem?_append_length (l : List Nat) (v : Nat) : (l ++ [v])[l.length]? = some v := by
  simp

theorem take_succ_of_getElem? {l : List Nat} {i x : Nat} (h : l[i]? = some x) :
    l.take (i + 1) = l.take i ++ [x] := by
  rw [List.take_add_one, h]; rfl

/-! ### the invariant of the inlined MPSC fifo

  Split in a part that does not mention program counters (`Chain`, a predicate of the
  individual cells / ghost fields, hence insensitive to `pc` updates) and what each program
  counter value guarantees (`PcOk`). -/

structure Chain (hd tl head tail : Nat) (next nodeAt : Nat → Nat) (linked : Nat → Bool)
    (own : Nat → Own) (data : Nat → Nat) (xchgd handed : List Nat) : Prop where
  hdtl : hd ≤ tl
  head_eq : head = nodeAt hd
  tail_eq : tail = nodeAt tl
  /-- a written link points to the next queue position -/
  lk : ∀ i, hd ≤ i → i < tl → linked i = true → next (nodeAt i) = nodeAt (i + 1)
  /-- an unwritten link is NULL -/
  unlk : ∀ i, hd ≤ i → i ≤ tl → linked i = false → next (nodeAt i) = 0
  lktl : ∀ i, tl ≤ i → linked i = false
  lkhd : ∀ i, i < hd → linked i = true
  /-- the nodes from the stub to the tail are pairwise distinct (nodes are recycled, so this
      is not true of the whole history) -/
  dist : ∀ i j, hd ≤ i → i < j → j ≤ tl → nodeAt i ≠ nodeAt j
  qd : ∀ i, hd ≤ i → i ≤ tl → own (nodeAt i) = .queued
  nz : ∀ i, hd ≤ i → i ≤ tl → nodeAt i ≠ 0
  /-- queued nodes carry the exchanged values, in order -/
  dat : ∀ i, hd ≤ i → i < tl → xchgd[i]? = some (data (nodeAt (i + 1)))
  xlen : xchgd.length = tl
  /-- items handed out = a prefix of the exchange order -/
  hand : handed = xchgd.take handed.length

/-- what the program counter of thread `t` (with the values it has observed) guarantees -/
def PcOk (tl head : Nat) (next nodeAt : Nat → Nat) (linked : Nat → Bool) (linker : Nat → Nat)
    (own : Nat → Own) (data : Nat → Nat) (xchgd handed : List Nat) (t : Nat) : Pc → Prop
  | .pushCalled v n => own n = .held t ∧ data n = v ∧ n ≠ 0
  | .pushAnnounced v n _ => own n = .held t ∧ data n = v ∧ n ≠ 0
  | .pushTerminated v n _ => own n = .held t ∧ data n = v ∧ n ≠ 0 ∧ next n = 0
  -- between its exchange and its link write a producer owns the unwritten link `i`
  | .pushXchgd n prev _ i =>
    i < tl ∧ linked i = false ∧ nodeAt i = prev ∧ nodeAt (i + 1) = n ∧ linker i = t
  | .gwGotHead h => h = head
  | .gwGotNext h nx => h = head ∧ nx = next h ∧ nx ≠ 0
  -- the item about to be handed out is the next one in exchange order
  | .gwMoved h nx => own h = .taken t ∧ nx = head ∧ xchgd[handed.length]? = some (data nx)
  | .gwGotData h v => own h = .taken t ∧ xchgd[handed.length]? = some v
  | .gwWrote h v => own h = .taken t ∧ xchgd[handed.length]? = some v
  | .gwGotOut h v _ => own h = .taken t ∧ xchgd[handed.length]? = some v
  | .gwDone v h => own h = .taken t ∧ xchgd[handed.length]? = some v
  | _ => True

structure MInv (s : St) : Prop where
  chain : Chain s.hd s.tl s.head s.tail s.next s.nodeAt s.linked s.own s.data s.xchgd s.handed
  pcok : ∀ t, PcOk s.tl s.head s.next s.nodeAt s.linked s.linker s.own s.data s.xchgd s.handed t
    (s.pc t)

theorem minv_init : MInv init := by
  constructor
  · constructor <;> simp [init]
    all_goals (intros; omega)
  · intro t; simp [init, PcOk]

/-! ### preservation of the MPSC invariant: events that only move a program counter -/


/-- events that only move the program counter of `t` (and touch fields `Chain`/`PcOk` do not
    mention): the chain part is unchanged, other threads' `PcOk` is unchanged -/
macro "pc_only" ch:ident pcok:ident t:ident : tactic => `(tactic| (
  constructor
  · exact $ch
  · intro t'
    by_cases e : t' = $t
    · subst e; simp only [upd_same]
      first
        | (simp [PcOk]; done)
        | (split <;> simp [PcOk]; done)
        | (have ⟨hdtl, head_eq, tail_eq, lk, unlk, lktl, lkhd, dist, qd, nz, dat, xlen, hand⟩ := $ch
           grind [PcOk])
    · simp only [upd_other _ _ _ _ e]; exact $pcok t'))

theorem minv_retPush (s s' : St) (t r : Nat) (_C : CInv s) (M : MInv s)
    (hs : step s (.retPush t r) = some s') : MInv s' := by
  obtain ⟨ch, pcok⟩ := M
  have hp := pcok t
  cases hpc : s.pc t <;> simp [step, hpc] at hs
  all_goals
    first
      | (obtain ⟨hc, rfl⟩ := hs)
      | (subst hs)
  all_goals
    rw [hpc] at hp; simp only [PcOk] at hp
    pc_only ch pcok t

theorem minv_callGw (s s' : St) (t : Nat) (_C : CInv s) (M : MInv s)
    (hs : step s (.callGw t) = some s') : MInv s' := by
  obtain ⟨ch, pcok⟩ := M
  have hp := pcok t
  cases hpc : s.pc t <;> simp [step, hpc] at hs
  all_goals
    first
      | (obtain ⟨hc, rfl⟩ := hs)
      | (subst hs)
  all_goals
    rw [hpc] at hp; simp only [PcOk] at hp
    pc_only ch pcok t

theorem minv_faddIn (s s' : St) (t old : Nat) (_C : CInv s) (M : MInv s)
    (hs : step s (.faddIn t old) = some s') : MInv s' := by
  obtain ⟨ch, pcok⟩ := M
  have hp := pcok t
  cases hpc : s.pc t <;> simp [step, hpc] at hs
  all_goals
    first
      | (obtain ⟨hc, rfl⟩ := hs)
      | (subst hs)
  all_goals
    rw [hpc] at hp; simp only [PcOk] at hp
    pc_only ch pcok t

theorem minv_fsubIn (s s' : St) (t old op : Nat) (_C : CInv s) (M : MInv s)
    (hs : step s (.fsubIn t old op) = some s') : MInv s' := by
  obtain ⟨ch, pcok⟩ := M
  have hp := pcok t
  cases hpc : s.pc t <;> simp [step, hpc] at hs
  all_goals
    first
      | (obtain ⟨hc, rfl⟩ := hs)
      | (subst hs)
  all_goals
    rw [hpc] at hp; simp only [PcOk] at hp
    pc_only ch pcok t

theorem minv_rdIn (s s' : St) (t x : Nat) (_C : CInv s) (M : MInv s)
    (hs : step s (.rdIn t x) = some s') : MInv s' := by
  obtain ⟨ch, pcok⟩ := M
  have hp := pcok t
  cases hpc : s.pc t <;> simp [step, hpc] at hs
  all_goals
    first
      | (obtain ⟨hc, rfl⟩ := hs)
      | (subst hs)
  all_goals
    rw [hpc] at hp; simp only [PcOk] at hp
    pc_only ch pcok t

theorem minv_rdOut (s s' : St) (t x : Nat) (_C : CInv s) (M : MInv s)
    (hs : step s (.rdOut t x) = some s') : MInv s' := by
  obtain ⟨ch, pcok⟩ := M
  have hp := pcok t
  cases hpc : s.pc t <;> simp [step, hpc] at hs
  all_goals
    first
      | (obtain ⟨hc, rfl⟩ := hs)
      | (subst hs)
  all_goals
    rw [hpc] at hp; simp only [PcOk] at hp
    pc_only ch pcok t

theorem minv_wrOut (s s' : St) (t x : Nat) (_C : CInv s) (M : MInv s)
    (hs : step s (.wrOut t x) = some s') : MInv s' := by
  obtain ⟨ch, pcok⟩ := M
  have hp := pcok t
  cases hpc : s.pc t <;> simp [step, hpc] at hs
  all_goals
    first
      | (obtain ⟨hc, rfl⟩ := hs)
      | (subst hs)
  all_goals
    rw [hpc] at hp; simp only [PcOk] at hp
    pc_only ch pcok t

theorem minv_rdHead (s s' : St) (t x : Nat) (_C : CInv s) (M : MInv s)
    (hs : step s (.rdHead t x) = some s') : MInv s' := by
  obtain ⟨ch, pcok⟩ := M
  have hp := pcok t
  cases hpc : s.pc t <;> simp [step, hpc] at hs
  all_goals
    first
      | (obtain ⟨hc, rfl⟩ := hs)
      | (subst hs)
  all_goals
    rw [hpc] at hp; simp only [PcOk] at hp
    pc_only ch pcok t

theorem minv_rdNext (s s' : St) (t n x : Nat) (_C : CInv s) (M : MInv s)
    (hs : step s (.rdNext t n x) = some s') : MInv s' := by
  obtain ⟨ch, pcok⟩ := M
  have hp := pcok t
  cases hpc : s.pc t <;> simp [step, hpc] at hs
  all_goals
    first
      | (obtain ⟨hc, rfl⟩ := hs)
      | (subst hs)
  all_goals
    rw [hpc] at hp; simp only [PcOk] at hp
    pc_only ch pcok t

theorem minv_rdData (s s' : St) (t n x : Nat) (_C : CInv s) (M : MInv s)
    (hs : step s (.rdData t n x) = some s') : MInv s' := by
  obtain ⟨ch, pcok⟩ := M
  have hp := pcok t
  cases hpc : s.pc t <;> simp [step, hpc] at hs
  all_goals
    first
      | (obtain ⟨hc, rfl⟩ := hs)
      | (subst hs)
  all_goals
    rw [hpc] at hp; simp only [PcOk] at hp
    pc_only ch pcok t


/-! ### preservation of the MPSC invariant: events that change cells or ghost fields -/


macro "data_chain" ch:ident C:ident : tactic => `(tactic| (
  have ⟨hdtl, head_eq, tail_eq, lk, unlk, lktl, lkhd, dist, qd, nz, dat, xlen, hand⟩ := $ch
  have hle := CInv.hle $C
  constructor
  all_goals
    first
      | assumption
      | (intros; (try dsimp only at *);
         grind [upd, getElem?_append_of_some, getElem?_append_length, getElem?_append_lt, take_succ_of_getElem?])
))

macro "data_pcok" s:ident ch:ident pcok:ident t:ident C:ident : tactic => `(tactic| (
  have ⟨hdtl, head_eq, tail_eq, lk, unlk, lktl, lkhd, dist, qd, nz, dat, xlen, hand⟩ := $ch
  have hle := CInv.hle $C
  intro t'
  by_cases e : t' = $t
  · subst e; simp only [upd_same]
    first
      | (simp only [PcOk]; done)
      | (simp only [PcOk]; grind [upd, getElem?_append_of_some, getElem?_append_length, getElem?_append_lt, take_succ_of_getElem?])
  · simp only [upd_other _ _ _ _ e]
    have hq := $pcok t'
    have hw := CInv.wk $C t'
    cases hq' : St.pc $s t' <;> rw [hq'] at hq hw <;> simp only [PcOk, Pc.isWorker] at hq hw ⊢
    all_goals
      first
        | trivial
        | grind [upd, getElem?_append_of_some, getElem?_append_length, getElem?_append_lt, take_succ_of_getElem?]
  ))

theorem chain_callPush (s s' : St) (t v n : Nat) (C : CInv s) (M : MInv s)
    (hs : step s (.callPush t v n) = some s') :
    Chain s'.hd s'.tl s'.head s'.tail s'.next s'.nodeAt s'.linked s'.own s'.data s'.xchgd s'.handed := by
  obtain ⟨ch, pcok⟩ := M
  have hp := pcok t
  have hwt := C.wk t
  have hnr := C.nretwin t
  cases hpc : s.pc t <;> simp [step, hpc] at hs
  all_goals
    first
      | (obtain ⟨hc, rfl⟩ := hs)
      | (subst hs)
  all_goals
    rw [hpc] at hp hwt hnr; simp only [PcOk, Pc.isWorker, Pc.retWin] at hp hwt hnr
    data_chain ch C

theorem pcok_callPush (s s' : St) (t v n : Nat) (C : CInv s) (M : MInv s)
    (hs : step s (.callPush t v n) = some s') :
    ∀ t', PcOk s'.tl s'.head s'.next s'.nodeAt s'.linked s'.linker s'.own s'.data s'.xchgd s'.handed t' (s'.pc t') := by
  obtain ⟨ch, pcok⟩ := M
  have hp := pcok t
  have hwt := C.wk t
  have hnr := C.nretwin t
  cases hpc : s.pc t <;> simp [step, hpc] at hs
  all_goals
    first
      | (obtain ⟨hc, rfl⟩ := hs)
      | (subst hs)
  all_goals
    rw [hpc] at hp hwt hnr; simp only [PcOk, Pc.isWorker, Pc.retWin] at hp hwt hnr
    data_pcok s ch pcok t C

theorem minv_callPush (s s' : St) (t v n : Nat) (C : CInv s) (M : MInv s)
    (hs : step s (.callPush t v n) = some s') : MInv s' :=
  ⟨chain_callPush s s' t v n C M hs, pcok_callPush s s' t v n C M hs⟩

theorem chain_wrNext (s s' : St) (t n x : Nat) (C : CInv s) (M : MInv s)
    (hs : step s (.wrNext t n x) = some s') :
    Chain s'.hd s'.tl s'.head s'.tail s'.next s'.nodeAt s'.linked s'.own s'.data s'.xchgd s'.handed := by
  obtain ⟨ch, pcok⟩ := M
  have hp := pcok t
  have hwt := C.wk t
  have hnr := C.nretwin t
  cases hpc : s.pc t <;> simp [step, hpc] at hs
  all_goals
    first
      | (obtain ⟨hc, rfl⟩ := hs)
      | (subst hs)
  all_goals
    rw [hpc] at hp hwt hnr; simp only [PcOk, Pc.isWorker, Pc.retWin] at hp hwt hnr
    data_chain ch C

theorem pcok_wrNext (s s' : St) (t n x : Nat) (C : CInv s) (M : MInv s)
    (hs : step s (.wrNext t n x) = some s') :
    ∀ t', PcOk s'.tl s'.head s'.next s'.nodeAt s'.linked s'.linker s'.own s'.data s'.xchgd s'.handed t' (s'.pc t') := by
  obtain ⟨ch, pcok⟩ := M
  have hp := pcok t
  have hwt := C.wk t
  have hnr := C.nretwin t
  cases hpc : s.pc t <;> simp [step, hpc] at hs
  all_goals
    first
      | (obtain ⟨hc, rfl⟩ := hs)
      | (subst hs)
  all_goals
    rw [hpc] at hp hwt hnr; simp only [PcOk, Pc.isWorker, Pc.retWin] at hp hwt hnr
    data_pcok s ch pcok t C

theorem minv_wrNext (s s' : St) (t n x : Nat) (C : CInv s) (M : MInv s)
    (hs : step s (.wrNext t n x) = some s') : MInv s' :=
  ⟨chain_wrNext s s' t n x C M hs, pcok_wrNext s s' t n x C M hs⟩

theorem chain_xchgTail (s s' : St) (t old new : Nat) (C : CInv s) (M : MInv s)
    (hs : step s (.xchgTail t old new) = some s') :
    Chain s'.hd s'.tl s'.head s'.tail s'.next s'.nodeAt s'.linked s'.own s'.data s'.xchgd s'.handed := by
  obtain ⟨ch, pcok⟩ := M
  have hp := pcok t
  have hwt := C.wk t
  have hnr := C.nretwin t
  cases hpc : s.pc t <;> simp [step, hpc] at hs
  all_goals
    first
      | (obtain ⟨hc, rfl⟩ := hs)
      | (subst hs)
  all_goals
    rw [hpc] at hp hwt hnr; simp only [PcOk, Pc.isWorker, Pc.retWin] at hp hwt hnr
    data_chain ch C

theorem pcok_xchgTail (s s' : St) (t old new : Nat) (C : CInv s) (M : MInv s)
    (hs : step s (.xchgTail t old new) = some s') :
    ∀ t', PcOk s'.tl s'.head s'.next s'.nodeAt s'.linked s'.linker s'.own s'.data s'.xchgd s'.handed t' (s'.pc t') := by
  obtain ⟨ch, pcok⟩ := M
  have hp := pcok t
  have hwt := C.wk t
  have hnr := C.nretwin t
  cases hpc : s.pc t <;> simp [step, hpc] at hs
  all_goals
    first
      | (obtain ⟨hc, rfl⟩ := hs)
      | (subst hs)
  all_goals
    rw [hpc] at hp hwt hnr; simp only [PcOk, Pc.isWorker, Pc.retWin] at hp hwt hnr
    data_pcok s ch pcok t C

theorem minv_xchgTail (s s' : St) (t old new : Nat) (C : CInv s) (M : MInv s)
    (hs : step s (.xchgTail t old new) = some s') : MInv s' :=
  ⟨chain_xchgTail s s' t old new C M hs, pcok_xchgTail s s' t old new C M hs⟩

theorem chain_wrHead (s s' : St) (t x : Nat) (C : CInv s) (M : MInv s)
    (hs : step s (.wrHead t x) = some s') :
    Chain s'.hd s'.tl s'.head s'.tail s'.next s'.nodeAt s'.linked s'.own s'.data s'.xchgd s'.handed := by
  obtain ⟨ch, pcok⟩ := M
  have hp := pcok t
  have hwt := C.wk t
  have hnr := C.nretwin t
  cases hpc : s.pc t <;> simp [step, hpc] at hs
  all_goals
    first
      | (obtain ⟨hc, rfl⟩ := hs)
      | (subst hs)
  all_goals
    rw [hpc] at hp hwt hnr; simp only [PcOk, Pc.isWorker, Pc.retWin] at hp hwt hnr
    data_chain ch C

theorem pcok_wrHead (s s' : St) (t x : Nat) (C : CInv s) (M : MInv s)
    (hs : step s (.wrHead t x) = some s') :
    ∀ t', PcOk s'.tl s'.head s'.next s'.nodeAt s'.linked s'.linker s'.own s'.data s'.xchgd s'.handed t' (s'.pc t') := by
  obtain ⟨ch, pcok⟩ := M
  have hp := pcok t
  have hwt := C.wk t
  have hnr := C.nretwin t
  cases hpc : s.pc t <;> simp [step, hpc] at hs
  all_goals
    first
      | (obtain ⟨hc, rfl⟩ := hs)
      | (subst hs)
  all_goals
    rw [hpc] at hp hwt hnr; simp only [PcOk, Pc.isWorker, Pc.retWin] at hp hwt hnr
    data_pcok s ch pcok t C

theorem minv_wrHead (s s' : St) (t x : Nat) (C : CInv s) (M : MInv s)
    (hs : step s (.wrHead t x) = some s') : MInv s' :=
  ⟨chain_wrHead s s' t x C M hs, pcok_wrHead s s' t x C M hs⟩

theorem chain_wrData (s s' : St) (t n x : Nat) (C : CInv s) (M : MInv s)
    (hs : step s (.wrData t n x) = some s') :
    Chain s'.hd s'.tl s'.head s'.tail s'.next s'.nodeAt s'.linked s'.own s'.data s'.xchgd s'.handed := by
  obtain ⟨ch, pcok⟩ := M
  have hp := pcok t
  have hwt := C.wk t
  have hnr := C.nretwin t
  cases hpc : s.pc t <;> simp [step, hpc] at hs
  all_goals
    first
      | (obtain ⟨hc, rfl⟩ := hs)
      | (subst hs)
  all_goals
    rw [hpc] at hp hwt hnr; simp only [PcOk, Pc.isWorker, Pc.retWin] at hp hwt hnr
    data_chain ch C

theorem pcok_wrData (s s' : St) (t n x : Nat) (C : CInv s) (M : MInv s)
    (hs : step s (.wrData t n x) = some s') :
    ∀ t', PcOk s'.tl s'.head s'.next s'.nodeAt s'.linked s'.linker s'.own s'.data s'.xchgd s'.handed t' (s'.pc t') := by
  obtain ⟨ch, pcok⟩ := M
  have hp := pcok t
  have hwt := C.wk t
  have hnr := C.nretwin t
  cases hpc : s.pc t <;> simp [step, hpc] at hs
  all_goals
    first
      | (obtain ⟨hc, rfl⟩ := hs)
      | (subst hs)
  all_goals
    rw [hpc] at hp hwt hnr; simp only [PcOk, Pc.isWorker, Pc.retWin] at hp hwt hnr
    data_pcok s ch pcok t C

theorem minv_wrData (s s' : St) (t n x : Nat) (C : CInv s) (M : MInv s)
    (hs : step s (.wrData t n x) = some s') : MInv s' :=
  ⟨chain_wrData s s' t n x C M hs, pcok_wrData s s' t n x C M hs⟩

theorem chain_retGw (s s' : St) (t v n : Nat) (C : CInv s) (M : MInv s)
    (hs : step s (.retGw t v n) = some s') :
    Chain s'.hd s'.tl s'.head s'.tail s'.next s'.nodeAt s'.linked s'.own s'.data s'.xchgd s'.handed := by
  obtain ⟨ch, pcok⟩ := M
  have hp := pcok t
  have hwt := C.wk t
  have hnr := C.nretwin t
  cases hpc : s.pc t <;> simp [step, hpc] at hs
  all_goals
    first
      | (obtain ⟨hc, rfl⟩ := hs)
      | (subst hs)
  all_goals
    rw [hpc] at hp hwt hnr; simp only [PcOk, Pc.isWorker, Pc.retWin] at hp hwt hnr
    data_chain ch C

theorem pcok_retGw (s s' : St) (t v n : Nat) (C : CInv s) (M : MInv s)
    (hs : step s (.retGw t v n) = some s') :
    ∀ t', PcOk s'.tl s'.head s'.next s'.nodeAt s'.linked s'.linker s'.own s'.data s'.xchgd s'.handed t' (s'.pc t') := by
  obtain ⟨ch, pcok⟩ := M
  have hp := pcok t
  have hwt := C.wk t
  have hnr := C.nretwin t
  cases hpc : s.pc t <;> simp [step, hpc] at hs
  all_goals
    first
      | (obtain ⟨hc, rfl⟩ := hs)
      | (subst hs)
  all_goals
    rw [hpc] at hp hwt hnr; simp only [PcOk, Pc.isWorker, Pc.retWin] at hp hwt hnr
    data_pcok s ch pcok t C

theorem minv_retGw (s s' : St) (t v n : Nat) (C : CInv s) (M : MInv s)
    (hs : step s (.retGw t v n) = some s') : MInv s' :=
  ⟨chain_retGw s s' t v n C M hs, pcok_retGw s s' t v n C M hs⟩

theorem minv_step (s : St) (e : Ev) (s' : St) (C : CInv s) (M : MInv s) (hs : step s e = some s') :
    MInv s' := by
  cases e with
  | callPush t v n => exact minv_callPush s s' t v n C M hs
  | retPush t r => exact minv_retPush s s' t r C M hs
  | callGw t => exact minv_callGw s s' t C M hs
  | retGw t v n => exact minv_retGw s s' t v n C M hs
  | faddIn t old => exact minv_faddIn s s' t old C M hs
  | fsubIn t old op => exact minv_fsubIn s s' t old op C M hs
  | rdIn t x => exact minv_rdIn s s' t x C M hs
  | rdOut t x => exact minv_rdOut s s' t x C M hs
  | wrOut t x => exact minv_wrOut s s' t x C M hs
  | rdHead t x => exact minv_rdHead s s' t x C M hs
  | wrHead t x => exact minv_wrHead s s' t x C M hs
  | xchgTail t old new => exact minv_xchgTail s s' t old new C M hs
  | rdNext t n x => exact minv_rdNext s s' t n x C M hs
  | wrNext t n x => exact minv_wrNext s s' t n x C M hs
  | rdData t n x => exact minv_rdData s s' t n x C M hs
  | wrData t n x => exact minv_wrData s s' t n x C M hs

/-! ### the combined invariant holds in every reachable state -/

structure Inv (s : St) : Prop where
  c : CInv s
  m : MInv s

theorem inv_init : Inv init := ⟨cinv_init, minv_init⟩

theorem inv_step (s : St) (e : Ev) (s' : St) (I : Inv s) (hs : step s e = some s') : Inv s' :=
  ⟨cinv_step s e s' I.c hs, minv_step s e s' I.c I.m hs⟩

theorem inv_of_run {es : List Ev} {s : St} (h : sys.run es = some s) : Inv s :=
  Sys.inv_of_run sys Inv inv_init inv_step h

/-! ### history invariant: exchanged values come from `call push` -/

/-- every exchanged value is the argument of an earlier `call push` (nothing is invented) -/
def PushedInv (s : St) (es : List Ev) : Prop :=
  (∀ v, v ∈ s.xchgd → ∃ t n, Ev.callPush t v n ∈ es) ∧
  (∀ t v n, s.pc t = .pushCalled v n → Ev.callPush t v n ∈ es) ∧
  (∀ t v n r, s.pc t = .pushAnnounced v n r → Ev.callPush t v n ∈ es) ∧
  (∀ t v n r, s.pc t = .pushTerminated v n r → Ev.callPush t v n ∈ es)

theorem pushedInv_step (s : St) (es : List Ev) (e : Ev) (s' : St) (I : PushedInv s es)
    (hs : step s e = some s') : PushedInv s' (es ++ [e]) := by
  obtain ⟨i1, i2, i3, i4⟩ := I
  cases e <;> simp only [step] at hs <;> split at hs <;> simp at hs
  all_goals
    first
      | (obtain ⟨hc, rfl⟩ := hs)
      | (subst hs)
  all_goals
    refine ⟨?_, ?_, ?_, ?_⟩
  all_goals
    (intros; (try dsimp only at *); grind [upd])

theorem pushedInv_of_run {es : List Ev} {s : St} (h : sys.run es = some s) : PushedInv s es := by
  refine Sys.hist_inv_of_run sys PushedInv ?_ pushedInv_step h
  simp [PushedInv, sys, init]

end LibfiberVerif.WorkQueue
