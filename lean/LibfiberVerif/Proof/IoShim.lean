/-
  Proof/IoShim.lean — invariants of Model/IoShim.lean (property C08).

  E layer:  `EInv`  — per descriptor, by stage of the critical section in progress: a parked
            waiter is armed (or the descriptor number has been closed); the wake loop leaves the
            list empty.
  S layer:  `SInv`  — per fiber, by program counter: what the ghost fields (`syss`, `lastChk`)
            say about the invocation in progress; which descriptors a program counter can name.
  Index  :  `XInv`  — every descriptor a section / a ticket / a program counter that indexes the
            tables refers to is inside [0, max_fd).
-/
import LibfiberVerif.Model.IoShim

namespace LibfiberVerif.IoShim

/-! ## E layer -/

/-- interest armed in epoll (or its event already fetched by a poller), or the descriptor number
    has been closed at some time -/
def Armed (s : St) (fd : Int) : Prop := s.interest fd ≠ 0 ∨ s.everClosed fd = true

/-- what holds of descriptor `fd` at each stage of the critical section -/
def EOkC (sec : Sec) (ws : List Nat) (armed : Prop) (evs : Nat) : Prop :=
  match sec with
  | .free | .parked | .wfailed _ | .wfail _ _ => ws ≠ [] → armed
  | .w1 _ bit | .w2 _ bit _ => (ws ≠ [] → armed) ∧ bit ≠ 0
  | .w3 _ _ | .w4 _ _ | .w5 _ _ => (ws ≠ [] → armed) ∧ evs ≠ 0
  | .w6 _ | .w7 _ | .w8 _ _ | .w9 _ | .w10 _ => armed
  | .done _ | .cj1 _ | .cj2 _ => ws = []
  | _ => True

def EOk (s : St) (fd : Int) : Prop := EOkC (s.sec fd) (s.waiters fd) (Armed s fd) (s.events fd)

def EInv (s : St) : Prop := ∀ fd, EOk s fd

theorem einv_init (m : Int) : EInv (init m) := by
  intro fd; simp [EOk, EOkC, init]

theorem dir_ne_zero (o : Op) : o.dir ≠ 0 := by
  unfold Op.dir; split <;> decide

/-- frame: a step that leaves the E fields of `fd` alone keeps `EOk … fd` (interest may only have
    been cleared together with `everClosed` being set) -/
theorem eok_frame {s s' : St} {fd : Int}
    (h : EOk s fd) (h1 : s'.sec fd = s.sec fd) (h2 : s'.waiters fd = s.waiters fd)
    (h3 : s'.events fd = s.events fd)
    (h4 : Armed s fd → Armed s' fd) : EOk s' fd := by
  unfold EOk at *
  rw [h1, h2, h3]
  generalize s.sec fd = sc at *
  cases sc <;> simp only [EOkC] at * <;> first
    | exact fun hw => h4 (h hw)
    | exact ⟨fun hw => h4 (h.1 hw), h.2⟩
    | exact h4 h
    | exact h
    | trivial

set_option linter.unusedSimpArgs false

/-- closes `EOk s' fd` after the step equation `hst` has been unfolded: `x` = the descriptor the
    event indexes -/
syntax "e_case " term : tactic
set_option hygiene false in
macro_rules
  | `(tactic| e_case $x) => `(tactic|
    (try simp only [step] at hst
     repeat' split at hst
     all_goals (first
       | (simp at hst; done)
       | (simp at hst; subst hst
          by_cases hq : fd = $x
          · subst hq
            first
              | (simp_all [EOk, EOkC, Armed, updI]; done)
              | (simp only [EOk, Armed] at *; simp only [startSec]
                 repeat' split
                 all_goals (simp_all [EOkC, updI, dir_ne_zero]))
              | (simp only [EOk, Armed] at *
                 generalize hsc : s.sec _ = sc at *
                 cases sc <;> simp_all [EOkC, updI])
          · exact eok_frame hfd (by simp [updI, hq]) (by simp [updI, hq]) (by simp [updI, hq]) (by simp [Armed, updI, hq])))))

set_option maxRecDepth 4000 in
theorem einv_step {D : Decisions} (hD : D.ctlChecked = true) {s s' : St} {e : Ev} (h : EInv s)
    (hst : step D s e = some s') : EInv s' := by
  intro fd
  have hfd := h fd
  cases e with
  | call f c => e_case (0 : Int)
  | ret f op r => e_case (0 : Int)
  | fLoad f x v => e_case x
  | fOr f x old m => e_case x
  | fAnd f x old m => e_case x
  | fStore f x v => have hx := h x; e_case x
  | sys f x r => have hx := h x; e_case x
  | sys2 f a b r => e_case a
  | sysCtl f x r => e_case x
  | lkTake a x old => e_case x
  | lkPoll a x v => have hx := h x; e_case x
  | ulLoad a x v => e_case x
  | ulStore a x v => have hx := h x; e_case x
  | rEvents a x v => have hx := h x; e_case x
  | wEvents a x v => have hx := h x; e_case x
  | rAdded a x v => have hx := h x; e_case x
  | wAdded a x v => have hx := h x; e_case x
  | rBoth a x ev ad => have hx := h x; e_case x
  | ctl a op x mask okk => have hx := h x; e_case x
  | rWaiters a x hd => have hx := h x; e_case x
  | wWaiters a x hd => have hx := h x; e_case x
  | rScr a g v =>
    cases hc : s.cur a with
    | none => simp only [step, hc] at hst; e_case (0 : Int)
    | some x => have hx := h x; simp only [step, hc] at hst; e_case x
  | wScr a g v =>
    cases hc : s.cur a with
    | none => simp [step, hc] at hst
    | some x => have hx := h x; simp only [step, hc] at hst; e_case x
  | wSt a g v =>
    cases hc : s.cur a with
    | none => simp [step, hc] at hst
    | some x => have hx := h x; simp only [step, hc] at hst; e_case x

theorem einv_of_run {D : Decisions} (hD : D.ctlChecked = true) {m : Int} {es : List Ev} {s : St}
    (h : (sys D m).run es = some s) : EInv s :=
  Sys.inv_of_run (sys D m) EInv (einv_init m) (fun _ _ _ hi hs => einv_step hD hi hs) h

/-! ## S layer -/

def AllRetry (o : Op) (l : List Res) : Prop := ∀ x ∈ l, retryable o x = true

/-- read / write family and accept: the calls `transparent` and `blocking_never_eagain` speak about -/
def Op.xfer (o : Op) : Bool := o.isRead || o.isWrite || o.isAccept

/-- the value about to be returned is the last underlying call's; the earlier ones asked to retry -/
def Transparent (o : Op) (syss : List Res) (r : Res) : Prop :=
  ∃ rest, syss = r :: rest ∧ AllRetry o rest

/-- why a shim may return EAGAIN -/
def Justified (D : Decisions) (m : Int) (c : Call) (chk : Option Nat) (r : Res) : Prop :=
  r = .err EAGAIN →
    c.dw = true ∨ inRange m c.fd = false ∨ (∃ v, chk = some v ∧ sb D v = false) ∨
    (c.op = .accept ∧ D.acceptLoops = false)

def SOkC (D : Decisions) (m : Int) (syss : List Res) (chk : Option Nat) : Pc → Prop
  | .idle => True
  | .sbTop c => c.op.isRead = true ∧ c.dw = false ∧ inRange m c.fd = true ∧ AllRetry c.op syss
  | .doSys c => AllRetry c.op syss
  | .sbRetry c r => c.dw = false ∧ inRange m c.fd = true ∧ retryable c.op r = true ∧
      Transparent c.op syss r
  | .wantWait c => c.dw = false ∧ inRange m c.fd = true ∧ AllRetry c.op syss ∧
      ∃ v, chk = some v ∧ sb D v = true
  | .inWait c => inRange m c.fd = true ∧ AllRetry c.op syss
  | .soErr c => c.op.xfer = false
  | .setupFlag c n left r | .setupCtl c n left r =>
      inRange m n = true ∧ (∀ x ∈ left, inRange m x = true) ∧ r ≠ .err EAGAIN ∧
      (c.op.xfer = true → Transparent c.op syss r)
  | .pipeCtl c todo both _ => (∀ x ∈ todo, inRange m x = true) ∧ (∀ x ∈ both, inRange m x = true) ∧ c.op.xfer = false
  | .pipeFlag c todo _ => (∀ x ∈ todo, inRange m x = true) ∧ c.op.xfer = false
  | .mChk c => c.op.xfer = false ∧ inRange m c.fd = true
  | .mRmw c _ => c.op.xfer = false ∧ (D.boundsChecked = true → inRange m c.fd = true)
  | .mSys c mg => c.op.xfer = false ∧ (mg = true → inRange m c.fd = true)
  | .mGetMask c _ => c.op.xfer = false ∧ inRange m c.fd = true
  | .clSec c | .clInSec c => c.op.xfer = false ∧ (D.boundsChecked = true → inRange m c.fd = true)
  | .clStore c | .clSys c => c.op.xfer = false
  | .retv c r => c.op.xfer = true → Transparent c.op syss r ∧ Justified D m c chk r
  | .retFail _ => True

def SOk (D : Decisions) (s : St) (f : Nat) : Prop := SOkC D s.maxFd (s.syss f) (s.lastChk f) (s.pc f)

def SInv (D : Decisions) (s : St) : Prop := ∀ f, SOk D s f

theorem sinv_init (D : Decisions) (m : Int) : SInv D (init m) := by
  intro f; simp [SOk, SOkC, init]

theorem step_maxFd {D : Decisions} {s s' : St} {e : Ev} (hst : step D s e = some s') : s'.maxFd = s.maxFd := by
  cases e <;> simp only [step] at hst <;> (repeat' split at hst) <;> simp at hst <;> (try subst hst) <;> (try rfl)


theorem allRetry_nil (o : Op) : AllRetry o [] := by intro x hx; cases hx

theorem allRetry_cons {o : Op} {r : Res} {l : List Res} (h1 : retryable o r = true) (h2 : AllRetry o l) :
    AllRetry o (r :: l) := by
  intro x hx
  cases hx with
  | head => exact h1
  | tail _ h => exact h2 x h

theorem sok_frame {D : Decisions} {s s' : St} {g : Nat} (h : SOk D s g) (h0 : s'.maxFd = s.maxFd)
    (h1 : s'.pc g = s.pc g) (h2 : s'.syss g = s.syss g) (h3 : s'.lastChk g = s.lastChk g) : SOk D s' g := by
  unfold SOk at *; rw [h0, h1, h2, h3]; exact h

theorem enter_ok (D : Decisions) (m : Int) (c : Call) : SOkC D m [] none (enter D m c) := by
  obtain ⟨op, fd, dw⟩ := c
  cases op <;> simp [enter, Op.isRead] <;>
    (repeat' split) <;> simp_all [SOkC, Op.xfer, Op.isRead, Op.isWrite, Op.isAccept, allRetry_nil]

theorem afterSys_ok (D : Decisions) (m : Int) (c : Call) (r : Res) (syss : List Res)
    (h : AllRetry c.op syss)
    (hacc : ∀ n, r = .ok n → c.op = .accept → inRange m (n : Int) = true) :
    SOkC D m (r :: syss) none (afterSys D m c r (syss.length + 1)) := by
  unfold afterSys
  simp only []
  repeat' split
  all_goals (simp_all [SOkC, Transparent, Justified, Op.xfer, Op.isRead, Op.isWrite, Op.isAccept, Op.isConnect, retryable])
  all_goals (obtain ⟨op, fd, dw⟩ := c; cases op <;> simp_all)

theorem sokc_ite {D : Decisions} {m : Int} {l : List Res} {k : Option Nat} (p : Prop) [Decidable p] (a b : Pc) :
    SOkC D m l k (if p then a else b) = if p then SOkC D m l k a else SOkC D m l k b := by
  split <;> rfl

theorem allRetry_of_transparent {o : Op} {l : List Res} {r : Res} (h : Transparent o l r)
    (hr : retryable o r = true) : AllRetry o l := by
  obtain ⟨rest, h1, h2⟩ := h
  rw [h1]; exact allRetry_cons hr h2

theorem transparent_cons {o : Op} {l : List Res} (r : Res) (h : AllRetry o l) : Transparent o (r :: l) r :=
  ⟨l, rfl, h⟩

theorem xfer_of_isRead {o : Op} (h : o.isRead = true) : o.xfer = true := by simp [Op.xfer, h]
theorem xfer_of_isAccept {o : Op} (h : o.isAccept = true) : o.xfer = true := by simp [Op.xfer, h]
theorem not_xfer_of_isSocketpair {o : Op} (h : o.isSocketpair = true) : o.xfer = false := by
  cases o <;> simp_all [Op.xfer, Op.isRead, Op.isWrite, Op.isAccept, Op.isSocketpair]
theorem not_xfer_of_isPipe {o : Op} (h : o.isPipe = true) : o.xfer = false := by
  cases o <;> simp_all [Op.xfer, Op.isRead, Op.isWrite, Op.isAccept, Op.isPipe]
theorem not_xfer_of_isSocket {o : Op} (h : o.isSocket = true) : o.xfer = false := by
  cases o <;> simp_all [Op.xfer, Op.isRead, Op.isWrite, Op.isAccept, Op.isSocket]
theorem not_xfer_of_isConnect {o : Op} (h : o.isConnect = true) : o.xfer = false := by
  cases o <;> simp_all [Op.xfer, Op.isRead, Op.isWrite, Op.isAccept, Op.isConnect]

theorem startSec_ok {D : Decisions} {m : Int} {l : List Res} {k : Option Nat} (s : St) (a : Nat) (fd : Int)
    (h : SOkC D m l k (s.pc a)) : SOkC D m l k (startSec s a fd).2 := by
  unfold startSec
  split
  · split <;> simp_all [SOkC]
  · split <;> simp_all [SOkC]
  · simp_all

theorem not_xfer_of_create2 {o : Op} (h : (o.isSocketpair || o.isPipe) = true) : o.xfer = false := by
  cases o <;> simp_all [Op.xfer, Op.isRead, Op.isWrite, Op.isAccept, Op.isSocketpair, Op.isPipe]

theorem afterSbTrue_retry_ok {D : Decisions} {m : Int} {l : List Res} {k : Option Nat} {c : Call} {r : Res} {v : Nat}
    (hs : SOkC D m l k (.sbRetry c r)) (hv : sb D v = true) : SOkC D m l (some v) (afterSbTrue D c false) := by
  simp only [SOkC] at hs
  obtain ⟨h1, h2, h3, h4⟩ := hs
  have h5 := allRetry_of_transparent h4 h3
  unfold afterSbTrue
  split <;> simp_all [SOkC]

theorem afterSbTrue_top_ok {D : Decisions} {m : Int} {l : List Res} {k : Option Nat} {c : Call} {v : Nat}
    (hs : SOkC D m l k (.sbTop c)) (hv : sb D v = true) : SOkC D m l (some v) (afterSbTrue D c true) := by
  simp only [SOkC] at hs
  unfold afterSbTrue
  split <;> simp_all [SOkC]

theorem sbRetry_load_ok {D : Decisions} {m : Int} {l : List Res} {k : Option Nat} {c : Call} {r : Res} (v : Nat)
    (hs : SOkC D m l k (.sbRetry c r)) :
    SOkC D m l (some v) (if sb D v then afterSbTrue D c false else .retv c r) := by
  split
  · exact afterSbTrue_retry_ok hs ‹_›
  · simp only [SOkC] at hs ⊢
    intro _
    exact ⟨hs.2.2.2, fun _ => Or.inr (Or.inr (Or.inl ⟨v, rfl, by simp_all⟩))⟩

theorem sbTop_load_ok {D : Decisions} {m : Int} {l : List Res} {k : Option Nat} {c : Call} (v : Nat)
    (hs : SOkC D m l k (.sbTop c)) :
    SOkC D m l (some v) (if sb D v then afterSbTrue D c true else .doSys c) := by
  split
  · exact afterSbTrue_top_ok hs ‹_›
  · simp only [SOkC] at hs ⊢; exact hs.2.2.2

syntax "s_case " term : tactic
set_option hygiene false in
macro_rules
  | `(tactic| s_case $x) => `(tactic|
    (try simp only [step] at hst
     repeat' split at hst
     all_goals (first
       | (simp at hst; done)
       | (simp only [Option.some.injEq] at hst; subst hst; exact sok_frame hg rfl rfl rfl rfl)
       | (simp only [Option.some.injEq] at hst; subst hst
          by_cases hq : g = $x
          · subst hq
            simp only [SOk] at *
            simp only [upd, ↓reduceIte] at *
            simp only [*] at hg
            first
              | exact afterSbTrue_retry_ok hg (by simp_all)
              | exact afterSbTrue_top_ok hg (by simp_all)
              | exact enter_ok _ _ _
              | exact afterSys_ok _ _ _ _ _ hg (by intro n hr ho; simp_all)
          · simp_all [SOk, upd])
       | (simp at hst; subst hst
          by_cases hq : g = $x
          · subst hq
            first
              | (simp_all [SOk, SOkC, upd]; done)
              | (simp only [SOk] at *; simp_all [upd]; exact enter_ok _ _ _)
              | (simp only [SOk] at *
                 simp only [upd, ↓reduceIte, afterSbTrue, afterWait, sokc_ite] at *
                 repeat' split
                 all_goals (first
                   | (simp_all [SOkC, Justified, allRetry_nil, allRetry_cons, transparent_cons, xfer_of_isRead, xfer_of_isAccept,
                        not_xfer_of_isSocketpair, not_xfer_of_isPipe, not_xfer_of_isSocket, not_xfer_of_isConnect]; done)
                   | (simp_all [SOkC, Justified]; exact allRetry_of_transparent (by assumption) (by assumption))
                   | (simp_all [SOkC, Justified, Transparent, allRetry_nil, allRetry_cons, xfer_of_isRead, xfer_of_isAccept,
                        not_xfer_of_isSocketpair, not_xfer_of_isPipe, not_xfer_of_isSocket, not_xfer_of_isConnect]; done))
                 done)
              | (simp only [SOk] at *; simp only [upd, ↓reduceIte] at *; exact startSec_ok _ _ _ ha)
              | (simp only [SOk] at *; simp_all [upd, SOkC, not_xfer_of_create2]; done)
          · simp_all [SOk, upd]))))

set_option maxRecDepth 4000 in
theorem sinv_step {D : Decisions} {s s' : St} {e : Ev} (h : SInv D s)
    (hst : step D s e = some s') : SInv D s' := by
  intro g
  have hg := h g
  cases e with
  | call f c => have ha := h f; s_case f
  | ret f op r => have ha := h f; s_case f
  | fLoad f x v => have ha := h f; s_case f
  | fOr f x old m => have ha := h f; s_case f
  | fAnd f x old m => have ha := h f; s_case f
  | fStore f x v => have ha := h f; s_case f
  | sys f x r => have ha := h f; s_case f
  | sys2 f a b r => have ha := h f; s_case f
  | sysCtl f x r => have ha := h f; s_case f
  | lkTake a x old => have ha := h a; s_case a
  | lkPoll a x v => have ha := h a; s_case a
  | ulLoad a x v => have ha := h a; s_case a
  | ulStore a x v => have ha := h a; s_case a
  | rEvents a x v => have ha := h a; s_case a
  | wEvents a x v => have ha := h a; s_case a
  | rAdded a x v => have ha := h a; s_case a
  | wAdded a x v => have ha := h a; s_case a
  | rBoth a x ev ad => have ha := h a; s_case a
  | ctl a op x mask okk => have ha := h a; s_case a
  | rWaiters a x hd => have ha := h a; s_case a
  | wWaiters a x hd => have ha := h a; s_case a
  | rScr a g' v =>
    have ha := h a
    cases hc : s.cur a with
    | none => simp only [step, hc] at hst; s_case a
    | some x => simp only [step, hc] at hst; s_case a
  | wScr a g' v =>
    have ha := h a
    cases hc : s.cur a with
    | none => simp [step, hc] at hst
    | some x => simp only [step, hc] at hst; s_case a
  | wSt a g' v =>
    have ha := h a
    cases hc : s.cur a with
    | none => simp [step, hc] at hst
    | some x => simp only [step, hc] at hst; s_case a


theorem sinv_of_run {D : Decisions} {m : Int} {es : List Ev} {s : St}
    (h : (sys D m).run es = some s) : SInv D s :=
  Sys.inv_of_run (sys D m) (SInv D) (sinv_init D m) (fun _ _ _ hi hs => sinv_step hi hs) h

/-! ## index invariant -/

structure XInv (s : St) : Prop where
  sec : ∀ fd, s.sec fd ≠ .free → inRange s.maxFd fd = true
  tk : ∀ a fd t, s.tk a = some (fd, t) → inRange s.maxFd fd = true
  opn : ∀ fd, s.isOpen fd = true → inRange s.maxFd fd = true

theorem xinv_init (m : Int) : XInv (init m) := by
  constructor <;> simp [init]

/-- the descriptor with which an event indexes `fd_info[]` / `wait_info[]` -/
def idx : Ev → Option Int
  | .fLoad _ fd _ | .fOr _ fd _ _ | .fAnd _ fd _ _ | .fStore _ fd _ => some fd
  | .lkTake _ fd _ | .lkPoll _ fd _ | .ulLoad _ fd _ | .ulStore _ fd _ => some fd
  | .rEvents _ fd _ | .wEvents _ fd _ | .rAdded _ fd _ | .wAdded _ fd _ | .rBoth _ fd _ _ => some fd
  | .rWaiters _ fd _ | .wWaiters _ fd _ => some fd
  | _ => none

syntax "x_case " term : tactic
set_option hygiene false in
macro_rules
  | `(tactic| x_case $x) => `(tactic|
    (try simp only [step] at hst
     repeat' split at hst
     all_goals (first
       | (simp at hst; done)
       | (simp only [Option.some.injEq] at hst; subst hst
          exact ⟨hx.sec, hx.tk, hx.opn⟩)
       | (simp at hst; subst hst
          have h1 := hx.sec; have h2 := hx.tk; have h3 := hx.opn
          constructor
          · intro fd hfd
            by_cases hq : fd = $x
            · subst hq
              first
                | (simp_all [updI, upd, SOk, SOkC]; done)
                | (simp_all [updI, upd, SOk, SOkC]; grind)
            · first
                | (simp_all [updI, upd, SOk, SOkC]; done)
                | (simp_all [updI, upd, SOk, SOkC]; grind)
          · intro a' fd t ht
            first
              | exact h2 _ _ _ ht
              | (simp_all [updI, upd, SOk, SOkC]; done)
              | (simp_all [updI, upd, SOk, SOkC]; grind)
          · intro fd hfd
            first
              | exact h3 _ hfd
              | (simp_all [updI, upd, SOk, SOkC]; done)
              | (simp_all [updI, upd, SOk, SOkC]; grind)))))

set_option maxRecDepth 4000 in
theorem xinv_step {D : Decisions} (hb : D.boundsChecked = true) {s s' : St} {e : Ev} (hs : SInv D s) (hx : XInv s)
    (hst : step D s e = some s') : XInv s' := by
  cases e with
  | call f c => x_case (0 : Int)
  | ret f op r => x_case (0 : Int)
  | fLoad f x v => x_case x
  | fOr f x old m => x_case x
  | fAnd f x old m => x_case x
  | fStore f x v => x_case x
  | sys f x r => x_case x
  | sys2 f a b r => x_case a
  | sysCtl f x r => x_case x
  | lkTake a x old =>
    have ha : ∀ c, s.pc a = .wantWait c → inRange s.maxFd c.fd = true := by
      intro c hc; have := hs a; simp only [SOk, hc, SOkC] at this; exact this.2.1
    have hb2 : ∀ c, s.pc a = .clSec c → inRange s.maxFd c.fd = true := by
      intro c hc; have := hs a; simp only [SOk, hc, SOkC] at this; exact this.2 hb
    x_case x
  | lkPoll a x v => x_case x
  | ulLoad a x v => x_case x
  | ulStore a x v => x_case x
  | rEvents a x v => x_case x
  | wEvents a x v => x_case x
  | rAdded a x v => x_case x
  | wAdded a x v => x_case x
  | rBoth a x ev ad => x_case x
  | ctl a op x mask okk => x_case x
  | rWaiters a x hd => x_case x
  | wWaiters a x hd => x_case x
  | rScr a g' v =>
    cases hc : s.cur a with
    | none => simp only [step, hc] at hst; x_case (0 : Int)
    | some x => simp only [step, hc] at hst; x_case x
  | wScr a g' v =>
    cases hc : s.cur a with
    | none => simp [step, hc] at hst
    | some x => simp only [step, hc] at hst; x_case x
  | wSt a g' v =>
    cases hc : s.cur a with
    | none => simp [step, hc] at hst
    | some x => simp only [step, hc] at hst; x_case x

theorem xinv_sinv_of_run {D : Decisions} (hb : D.boundsChecked = true) {m : Int} {es : List Ev} {s : St}
    (h : (sys D m).run es = some s) : SInv D s ∧ XInv s :=
  Sys.inv_of_run (sys D m) (fun s => SInv D s ∧ XInv s) ⟨sinv_init D m, xinv_init m⟩
    (fun _ _ _ hi hst => ⟨sinv_step hi.1 hst, xinv_step hb hi.1 hi.2 hst⟩) h

/-- facts about the actor's program counter that the index theorem needs -/
theorem pc_inRange {D : Decisions} (hb : D.boundsChecked = true) {s : St} (hs : SInv D s) (f : Nat) :
    (∀ c, s.pc f = .sbTop c → inRange s.maxFd c.fd = true) ∧
    (∀ c r, s.pc f = .sbRetry c r → inRange s.maxFd c.fd = true) ∧
    (∀ c r, s.pc f = .mGetMask c r → inRange s.maxFd c.fd = true) ∧
    (∀ c r, s.pc f = .mRmw c r → inRange s.maxFd c.fd = true) ∧
    (∀ c n l r, s.pc f = .setupFlag c n l r → inRange s.maxFd n = true) ∧
    (∀ c t r, s.pc f = .pipeFlag c t r → ∀ x ∈ t, inRange s.maxFd x = true) ∧
    (∀ c, s.pc f = .wantWait c → inRange s.maxFd c.fd = true) ∧
    (∀ c, s.pc f = .clSec c → inRange s.maxFd c.fd = true) := by
  have h := hs f
  unfold SOk at h
  refine ⟨?_, ?_, ?_, ?_, ?_, ?_, ?_, ?_⟩ <;> intros <;> simp_all [SOkC]

syntax "i_case " term : tactic
set_option hygiene false in
macro_rules
  | `(tactic| i_case $f) => `(tactic|
    (simp only [idx, Option.some.injEq] at hi; subst hi
     have hp := pc_inRange hb hs $f
     simp only [step] at hst
     repeat' split at hst
     all_goals (first
       | (simp at hst; done)
       | (simp_all; done)
       | (obtain ⟨p1, p2, p3, p4, p5, p6, p7, p8⟩ := hp; simp_all; done)
       | (obtain ⟨p1, p2, p3, p4, p5, p6, p7, p8⟩ := hp; simp_all; grind)
       | (apply h1; simp_all; done)
       | (apply h1; intro hh; simp_all; done)
       | grind)))

set_option maxRecDepth 4000 in
theorem index_step {D : Decisions} (hb : D.boundsChecked = true) {s s' : St} {e : Ev} (hs : SInv D s) (hx : XInv s)
    (hst : step D s e = some s') {fd : Int} (hi : idx e = some fd) : inRange s.maxFd fd = true := by
  have h1 := hx.sec; have h2 := hx.tk
  cases e with
  | fLoad f x v => i_case f
  | fOr f x old m => i_case f
  | fAnd f x old m => i_case f
  | fStore f x v => i_case f
  | lkTake a x old => i_case a
  | lkPoll a x v => i_case a
  | ulLoad a x v => i_case a
  | ulStore a x v => i_case a
  | rEvents a x v => i_case a
  | wEvents a x v => i_case a
  | rAdded a x v => i_case a
  | wAdded a x v => i_case a
  | rBoth a x ev ad => i_case a
  | rWaiters a x hd => i_case a
  | wWaiters a x hd => i_case a
  | _ => simp [idx] at hi


/-! ## invalid descriptors -/

def Op.isCreate (o : Op) : Bool := o.isSocket || o.isSocketpair || o.isPipe

/-- where a call on a descriptor outside [0, max_fd) can be -/
def BOkC (m : Int) : Pc → Prop
  | .idle | .doSys _ | .clSys _ | .mSys _ _ => True
  | .retv c r => inRange m c.fd = false → c.op.isCreate = false → r = .err EBADF
  | .sbTop c | .sbRetry c _ | .wantWait c | .inWait c | .soErr c | .mChk c | .mRmw c _ | .mGetMask c _
  | .clSec c | .clInSec c | .clStore c | .retFail c => inRange m c.fd = true
  | .setupFlag c _ _ _ | .setupCtl c _ _ _ | .pipeCtl c _ _ _ | .pipeFlag c _ _ =>
      inRange m c.fd = true ∨ c.op.isCreate = true

def BOk (s : St) (f : Nat) : Prop := BOkC s.maxFd (s.pc f)
def BInv (s : St) : Prop := ∀ f, BOk s f

theorem binv_init (m : Int) : BInv (init m) := by intro f; simp [BOk, BOkC, init]

theorem bokc_ite {m : Int} (p : Prop) [Decidable p] (a b : Pc) :
    BOkC m (if p then a else b) = if p then BOkC m a else BOkC m b := by
  split <;> rfl

theorem enter_bok {D : Decisions} (hb : D.boundsChecked = true) (m : Int) (c : Call) : BOkC m (enter D m c) := by
  obtain ⟨op, fd, dw⟩ := c
  cases op <;> simp [enter, Op.isRead, hb] <;> (repeat' split) <;> simp_all [BOkC]

theorem afterSys_bok (D : Decisions) (m : Int) (c : Call) (r : Res) (n : Nat)
    (hk : inRange m c.fd = false → r = .err EBADF) : BOkC m (afterSys D m c r n) := by
  unfold afterSys
  simp only []
  repeat' split
  all_goals (simp_all [BOkC, retryable, EBADF, EAGAIN, EINPROGRESS])
  all_goals (try (by_cases hr : inRange m c.fd = true <;> simp_all [EBADF, EAGAIN, EINPROGRESS]))
  all_goals (try (split at * <;> simp_all))

theorem bok_frame {s s' : St} {g : Nat} (h : BOk s g) (h0 : s'.maxFd = s.maxFd) (h1 : s'.pc g = s.pc g) : BOk s' g := by
  unfold BOk at *; rw [h0, h1]; exact h

theorem startSec_bok {m : Int} (s : St) (a : Nat) (fd : Int) (h : BOkC m (s.pc a)) : BOkC m (startSec s a fd).2 := by
  unfold startSec
  split
  · split <;> simp_all [BOkC]
  · split <;> simp_all [BOkC]
  · simp_all

syntax "b_case " term : tactic
set_option hygiene false in
macro_rules
  | `(tactic| b_case $x) => `(tactic|
    (try simp only [step] at hst
     repeat' split at hst
     all_goals (first
       | (simp at hst; done)
       | (simp only [Option.some.injEq] at hst; subst hst; exact bok_frame hg rfl rfl)
       | (simp only [Option.some.injEq] at hst; subst hst
          by_cases hq : g = $x
          · subst hq
            simp only [BOk] at *
            simp only [upd, ↓reduceIte] at *
            first
              | exact enter_bok hb _ _
              | exact startSec_bok _ _ _ hg
              | (apply afterSys_bok; intro hr; simp_all [kernelOk]; done)
              | (apply afterSys_bok; intro hr; simp_all [kernelOk]; grind)
          · simp_all [BOk, upd])
       | (simp at hst; subst hst
          by_cases hq : g = $x
          · subst hq
            simp only [BOk, SOk] at *
            simp only [upd, ↓reduceIte, afterSbTrue, afterWait, bokc_ite] at *
            repeat' split
            all_goals (first
              | (simp_all [BOkC, SOkC, kernelOk, Op.isCreate]; done)
              | (simp_all [BOkC, SOkC, kernelOk, Op.isCreate]; grind))
          · simp_all [BOk, upd]))))

set_option maxRecDepth 4000 in
theorem binv_step {D : Decisions} (hb : D.boundsChecked = true) {s s' : St} {e : Ev} (hs : SInv D s) (hx : XInv s)
    (h : BInv s) (hk : kernelOk s e = true) (hst : step D s e = some s') : BInv s' := by
  intro g
  have hg := h g
  have hop := hx.opn
  cases e with
  | call f c => b_case f
  | ret f op r => b_case f
  | fLoad f x v => have ha := hs f; b_case f
  | fOr f x old m => have ha := hs f; b_case f
  | fAnd f x old m => have ha := hs f; b_case f
  | fStore f x v => have ha := hs f; b_case f
  | sys f x r => have ha := hs f; b_case f
  | sys2 f a b r => have ha := hs f; b_case f
  | sysCtl f x r => have ha := hs f; b_case f
  | lkTake a x old => b_case a
  | lkPoll a x v => b_case a
  | ulLoad a x v => b_case a
  | ulStore a x v => have ha := hs a; b_case a
  | rEvents a x v => b_case a
  | wEvents a x v => b_case a
  | rAdded a x v => b_case a
  | wAdded a x v => b_case a
  | rBoth a x ev ad => b_case a
  | ctl a op x mask okk => b_case a
  | rWaiters a x hd => b_case a
  | wWaiters a x hd => b_case a
  | rScr a g' v =>
    have ha := hs a
    cases hc : s.cur a with
    | none => simp only [step, hc] at hst; b_case a
    | some x => simp only [step, hc] at hst; b_case a
  | wScr a g' v =>
    cases hc : s.cur a with
    | none => simp [step, hc] at hst
    | some x => simp only [step, hc] at hst; b_case a
  | wSt a g' v =>
    cases hc : s.cur a with
    | none => simp [step, hc] at hst
    | some x => simp only [step, hc] at hst; b_case a


theorem sysK_step {D : Decisions} {m : Int} {s s' : St} {e : Ev} (h : (sysK D m).step s e = some s') :
    kernelOk s e = true ∧ step D s e = some s' := by
  simp only [sysK] at h
  split at h
  · exact ⟨by assumption, h⟩
  · simp at h

theorem allinv_of_runK {D : Decisions} (hb : D.boundsChecked = true) {m : Int} {es : List Ev} {s : St}
    (h : (sysK D m).run es = some s) : SInv D s ∧ XInv s ∧ BInv s ∧ s.maxFd = m :=
  Sys.inv_of_run (sysK D m) (fun s => SInv D s ∧ XInv s ∧ BInv s ∧ s.maxFd = m)
    ⟨sinv_init D m, xinv_init m, binv_init m, rfl⟩
    (fun _ _ _ hi hst => by
      obtain ⟨hk, hst⟩ := sysK_step hst
      exact ⟨sinv_step hi.1 hst, xinv_step hb hi.1 hi.2.1 hst, binv_step hb hi.1 hi.2.1 hi.2.2.1 hk hst,
             by rw [step_maxFd hst]; exact hi.2.2.2⟩) h

end LibfiberVerif.IoShim
