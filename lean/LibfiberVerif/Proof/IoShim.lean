/-
  Proof/IoShim.lean — invariants of Model/IoShim.lean (property C08).

  E layer:  `EInv`  — per descriptor, by stage of the critical section in progress: a parked
            waiter is armed (or the descriptor number has been closed); the wake loop leaves the
            list empty.
  S layer:  `SInv`  — per fiber, by program counter: what the ghost fields (`syss`, `lastChk`)
            say about the invocation in progress; which descriptors a program counter can name.
  Index  :  `XInv`  — every descriptor a section / a ticket / a program counter that indexes the
            tables refers to is inside [0, max_fd).
-/
import LibfiberVerif.Model.IoShim

namespace LibfiberVerif.IoShim

/-! ## E layer -/

/-- interest armed in epoll (or its event already fetched by a poller), or the descriptor number
    has been closed at some time -/
def Armed (s : St) (fd : Int) : Prop := s.interest fd ≠ 0 ∨ s.everClosed fd = true

/-- what holds of descriptor `fd` at each stage of the critical section -/
def EOkC (sec : Sec) (ws : List Nat) (armed : Prop) (evs : Nat) : Prop :=
  match sec with
  | .free | .parked | .wfailed _ | .wfail _ _ => ws ≠ [] → armed
  | .w1 _ bit | .w2 _ bit _ => (ws ≠ [] → armed) ∧ bit ≠ 0
  | .w3 _ _ | .w4 _ _ | .w5 _ _ => (ws ≠ [] → armed) ∧ evs ≠ 0
  | .w6 _ | .w7 _ | .w8 _ _ | .w9 _ | .w10 _ => armed
  | .done _ | .cj1 _ | .cj2 _ => ws = []
  | _ => True

def EOk (s : St) (fd : Int) : Prop := EOkC (s.sec fd) (s.waiters fd) (Armed s fd) (s.events fd)

def EInv (s : St) : Prop := ∀ fd, EOk s fd

theorem einv_init (m : Int) : EInv (init m) := by
  intro fd; simp [EOk, EOkC, init]

theorem dir_ne_zero (o : Op) : o.dir ≠ 0 := by
  unfold Op.dir; split <;> decide

/-- frame: a step that leaves the E fields of `fd` alone keeps `EOk … fd` (interest may only have
    been cleared together with `everClosed` being set) -/
theorem eok_frame {s s' : St} {fd : Int}
    (h : EOk s fd) (h1 : s'.sec fd = s.sec fd) (h2 : s'.waiters fd = s.waiters fd)
    (h3 : s'.events fd = s.events fd)
    (h4 : Armed s fd → Armed s' fd) : EOk s' fd := by
  unfold EOk at *
  rw [h1, h2, h3]
  generalize s.sec fd = sc at *
  cases sc <;> simp only [EOkC] at * <;> first
    | exact fun hw => h4 (h hw)
    | exact ⟨fun hw => h4 (h.1 hw), h.2⟩
    | exact h4 h
    | exact h
    | trivial

end LibfiberVerif.IoShim
