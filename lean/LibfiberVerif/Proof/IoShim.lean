/-
  Proof/IoShim.lean — invariants of Model/IoShim.lean (property C08).

  E layer:  `EInv`  — per descriptor, by stage of the critical section in progress: a parked
            waiter is armed (or the descriptor number has been closed); the wake loop leaves the
            list empty.
  S layer:  `SInv`  — per fiber, by program counter: what the ghost fields (`syss`, `lastChk`)
            say about the invocation in progress; which descriptors a program counter can name.
  Index  :  `XInv`  — every descriptor a section / a ticket / a program counter that indexes the
            tables refers to is inside [0, max_fd).
-/
import LibfiberVerif.Model.IoShim

namespace LibfiberVerif.IoShim

/-! ## E layer -/

/-- interest armed in epoll (or its event already fetched by a poller), or the descriptor number
    has been closed at some time -/
def Armed (s : St) (fd : Int) : Prop := s.interest fd ≠ 0 ∨ s.everClosed fd = true

/-- what holds of descriptor `fd` at each stage of the critical section -/
def EOkC (sec : Sec) (ws : List Nat) (armed : Prop) (evs : Nat) : Prop :=
  match sec with
  | .free | .parked | .wfailed _ | .wfail _ _ => ws ≠ [] → armed
  | .w1 _ bit | .w2 _ bit _ => (ws ≠ [] → armed) ∧ bit ≠ 0
  | .w3 _ _ | .w4 _ _ | .w5 _ _ => (ws ≠ [] → armed) ∧ evs ≠ 0
  | .w6 _ | .w7 _ | .w8 _ _ | .w9 _ | .w10 _ => armed
  | .done _ | .cj1 _ | .cj2 _ => ws = []
  | _ => True

def EOk (s : St) (fd : Int) : Prop := EOkC (s.sec fd) (s.waiters fd) (Armed s fd) (s.events fd)

def EInv (s : St) : Prop := ∀ fd, EOk s fd

theorem einv_init (m : Int) : EInv (init m) := by
  intro fd; simp [EOk, EOkC, init]

theorem dir_ne_zero (o : Op) : o.dir ≠ 0 := by
  unfold Op.dir; split <;> decide

/-- frame: a step that leaves the E fields of `fd` alone keeps `EOk … fd` (interest may only have
    been cleared together with `everClosed` being set) -/
theorem eok_frame {s s' : St} {fd : Int}
    (h : EOk s fd) (h1 : s'.sec fd = s.sec fd) (h2 : s'.waiters fd = s.waiters fd)
    (h3 : s'.events fd = s.events fd)
    (h4 : Armed s fd → Armed s' fd) : EOk s' fd := by
  unfold EOk at *
  rw [h1, h2, h3]
  generalize s.sec fd = sc at *
  cases sc <;> simp only [EOkC] at * <;> first
    | exact fun hw => h4 (h hw)
    | exact ⟨fun hw => h4 (h.1 hw), h.2⟩
    | exact h4 h
    | exact h
    | trivial

set_option linter.unusedSimpArgs false

/-- closes `EOk s' fd` after the step equation `hst` has been unfolded: `x` = the descriptor the
    event indexes -/
syntax "e_case " term : tactic
set_option hygiene false in
macro_rules
  | `(tactic| e_case $x) => `(tactic|
    (try simp only [step] at hst
     repeat' split at hst
     all_goals (first
       | (simp at hst; done)
       | (simp at hst; subst hst
          by_cases hq : fd = $x
          · subst hq
            first
              | (simp_all [EOk, EOkC, Armed, updI]; done)
              | (simp only [EOk, Armed] at *; simp only [startSec]
                 repeat' split
                 all_goals (simp_all [EOkC, updI, dir_ne_zero]))
              | (simp only [EOk, Armed] at *
                 generalize hsc : s.sec _ = sc at *
                 cases sc <;> simp_all [EOkC, updI])
          · exact eok_frame hfd (by simp [updI, hq]) (by simp [updI, hq]) (by simp [updI, hq]) (by simp [Armed, updI, hq])))))

set_option maxRecDepth 4000 in
theorem einv_step {D : Decisions} (hD : D.ctlChecked = true) {s s' : St} {e : Ev} (h : EInv s)
    (hst : step D s e = some s') : EInv s' := by
  intro fd
  have hfd := h fd
  cases e with
  | call f c => e_case (0 : Int)
  | ret f op r => e_case (0 : Int)
  | fLoad f x v => e_case x
  | fOr f x old m => e_case x
  | fAnd f x old m => e_case x
  | fStore f x v => have hx := h x; e_case x
  | sys f x r => have hx := h x; e_case x
  | sys2 f a b r => e_case a
  | sysCtl f x r => e_case x
  | lkTake a x old => e_case x
  | lkPoll a x v => have hx := h x; e_case x
  | ulLoad a x v => e_case x
  | ulStore a x v => have hx := h x; e_case x
  | rEvents a x v => have hx := h x; e_case x
  | wEvents a x v => have hx := h x; e_case x
  | rAdded a x v => have hx := h x; e_case x
  | wAdded a x v => have hx := h x; e_case x
  | rBoth a x ev ad => have hx := h x; e_case x
  | ctl a op x mask okk => have hx := h x; e_case x
  | rWaiters a x hd => have hx := h x; e_case x
  | wWaiters a x hd => have hx := h x; e_case x
  | rScr a g v =>
    cases hc : s.cur a with
    | none => simp only [step, hc] at hst; e_case (0 : Int)
    | some x => have hx := h x; simp only [step, hc] at hst; e_case x
  | wScr a g v =>
    cases hc : s.cur a with
    | none => simp [step, hc] at hst
    | some x => have hx := h x; simp only [step, hc] at hst; e_case x
  | wSt a g v =>
    cases hc : s.cur a with
    | none => simp [step, hc] at hst
    | some x => have hx := h x; simp only [step, hc] at hst; e_case x

theorem einv_of_run {D : Decisions} (hD : D.ctlChecked = true) {m : Int} {es : List Ev} {s : St}
    (h : (sys D m).run es = some s) : EInv s :=
  Sys.inv_of_run (sys D m) EInv (einv_init m) (fun _ _ _ hi hs => einv_step hD hi hs) h

end LibfiberVerif.IoShim
