/-
  Proof/WsdTsoGrowSim.lean — the TSO model with growth (`Model/WsdTsoGrow.lean`) runs the SAME
  PROGRAM as the sequentially consistent, log-validated model `Model/Wsd.lean`.

  `embed` maps one event of `Wsd` to the same access on the store-buffer machine, a store being
  followed at once by the `flush` that drains it (sequential consistency = the schedule of
  flushes in which every store drains immediately); the memory-order argument of the log line
  is dropped.  `Sim` relates the states: all buffers empty, memory = the SC cells, program
  counters equal constructor by constructor, the same `pushed` / `returned`.
  `sim_runFrom`: every trace accepted by `Wsd.sys k0` — in particular every log of the real
  code that C02's check has replayed — is, event for event, a trace of the TSO model (for
  either setting of `fenced` / `ordered`).  So the TSO theorems are about a superset of the
  validated behaviours, not about some other program.
-/
import LibfiberVerif.Proof.WsdTsoGrow

namespace LibfiberVerif.WsdTsoGrow
open LibfiberVerif.Tso

/-- program counters of `Model/Wsd.lean`, constructor by constructor -/
def ofPc : Wsd.Pc → Pc
  | .idle => .idle
  | .pushCalled v => .pushCalled v
  | .pushGotB v b => .pushGotB v b
  | .pushGotT v b t => .pushGotT v b t
  | .pushCopy v b t g i => .pushCopy v b t g i
  | .pushCopyW v b t g i x => .pushCopyW v b t g i x
  | .pushPublish v b t g => .pushPublish v b t g
  | .pushPut v b g => .pushPut v b g
  | .pushWritten v b => .pushWritten v b
  | .pushDone => .pushDone
  | .popCalled => .popCalled
  | .popGotB b => .popGotB b
  | .popGotArr b g => .popGotArr b g
  | .popStored b g => .popStored b g
  | .popEmpty t => .popEmpty t
  | .popTake b g t => .popTake b g t
  | .popRead b t x => .popRead b t x
  | .popCased t r => .popCased t r
  | .popDone r => .popDone r
  | .stealCalled => .stealCalled
  | .stealGotT t => .stealGotT t
  | .stealGotB t b => .stealGotB t b
  | .stealGotArr t g => .stealGotArr t g
  | .stealRead t g x => .stealRead t g x
  | .stealDone r => .stealDone r

/-- one SC event = the same access on the TSO machine, every store drained at once -/
def embed : Wsd.Ev → List Ev
  | .callPush t v => [.callPush t v]
  | .retPush t => [.retPush t]
  | .callPop t => [.callPop t]
  | .retPop t r => [.retPop t r]
  | .callSteal t => [.callSteal t]
  | .retSteal t r => [.retSteal t r]
  | .ldBottom t x _ => [.ldBottom t x]
  | .stBottom t x _ => [.stBottom t x, .flush t]
  | .ldTop t x _ => [.ldTop t x]
  | .casTop t f e d ok _ => [.casTop t f e d ok]
  | .ldArr t g _ => [.ldArr t g]
  | .stArr t g _ => [.stArr t g, .flush t]
  | .rdSlot t g i x => [.rdSlot t g i.toNat x]
  | .wrSlot t g i x => [.wrSlot t g i.toNat x, .flush t]

structure Sim (a : Wsd.St) (c : St) : Prop where
  k0 : c.k0 = a.k0
  bufs : ∀ u, c.m.buf u = []
  top : c.m.mem cTop = a.top
  bot : c.m.mem cBot = a.bottom
  arr : c.m.mem cArr = a.arr
  slot : ∀ g j, c.m.mem (cSlot a.k0 g j) = a.slot g (Wsd.idx (a.k0 + g) j)
  pc : ∀ u, c.pc u = ofPc (a.pc u)
  pushed : c.pushed = a.pushed
  returned : c.returned = a.returned

def OkAnd (o : Option St) (P : St → Prop) : Prop :=
  match o with
  | some c => P c
  | none => False

@[simp] theorem OkAnd_some (c : St) (P : St → Prop) : OkAnd (some c) P = P c := rfl


theorem size_cast (k0 g : Nat) : ((size k0 g : Nat) : Int) = Wsd.sz (k0 + g) := by
  simp [size, Wsd.sz]

theorem pslot_eq (k0 g : Nat) (j : Int) : pslot k0 g j = (Wsd.idx (k0 + g) j).toNat := by
  simp [pslot, Wsd.idx, size_cast]

theorem store_flush {m : Mem} (hb : ∀ u, m.buf u = []) (t c : Nat) (v : Int) :
    ∃ m', (m.store t c v).flush t = some m' ∧ m'.mem = upd m.mem c v ∧ ∀ u, m'.buf u = [] := by
  refine ⟨{ mem := upd m.mem c v, buf := upd (upd m.buf t (m.buf t ++ [(c, v)])) t [] }, ?_, rfl, ?_⟩
  · simp [Mem.flush, Mem.store, hb t]
  · intro u; simp only [upd]; split
    · rfl
    · exact hb u

/-- the state of the TSO model's thread `t`, from the simulation relation -/
theorem Sim.pcAt {a : Wsd.St} {c : St} (hS : Sim a c) {t : Nat} {p : Wsd.Pc} (h : a.pc t = p) :
    c.pc t = ofPc p := by rw [hS.pc, h]

theorem Sim.pcUpd {a : Wsd.St} {c : St} (hS : Sim a c) (t : Nat) (p : Wsd.Pc) :
    ∀ u, upd c.pc t (ofPc p) u = ofPc (upd a.pc t p u) := by
  intro u; simp only [upd]; split
  · rfl
  · exact hS.pc u


macro "sim_close" hS:ident : tactic =>
  `(tactic| (constructor <;> (first | rfl | exact ($hS).k0 | exact ($hS).bufs | exact ($hS).top | exact ($hS).bot | exact ($hS).arr | exact ($hS).slot | exact ($hS).pushed | exact ($hS).returned | (intro u; simp only [upd]; split <;> (first | rfl | exact ($hS).pc u)))))

theorem sim_callPush {f o : Bool} {k : Nat} {a a' : Wsd.St} {c : St} {t : Nat} {v : Int} (hS : Sim a c)
    (h : Wsd.step a (.callPush t v) = some a') :
    OkAnd ((sys f o k).runFrom c (embed (.callPush t v))) (Sim a') := by
  simp only [Wsd.step] at h
  (repeat' split at h) <;> simp at h
  subst h
  rename_i hc
  obtain ⟨rfl, hpc, -⟩ := hc
  have hpcC := hS.pcAt hpc; simp only [ofPc] at hpcC
  simp [embed, Sys.runFrom, sys, step, hpcC]
  sim_close hS

theorem sim_callPop {f o : Bool} {k : Nat} {a a' : Wsd.St} {c : St} {t : Nat} (hS : Sim a c)
    (h : Wsd.step a (.callPop t) = some a') :
    OkAnd ((sys f o k).runFrom c (embed (.callPop t))) (Sim a') := by
  simp only [Wsd.step] at h
  (repeat' split at h) <;> simp at h
  subst h
  rename_i hc
  obtain ⟨rfl, hpc⟩ := hc
  have hpcC := hS.pcAt hpc; simp only [ofPc] at hpcC
  simp [embed, Sys.runFrom, sys, step, hpcC]
  sim_close hS

theorem sim_callSteal {f o : Bool} {k : Nat} {a a' : Wsd.St} {c : St} {t : Nat} (hS : Sim a c)
    (h : Wsd.step a (.callSteal t) = some a') :
    OkAnd ((sys f o k).runFrom c (embed (.callSteal t))) (Sim a') := by
  simp only [Wsd.step] at h
  (repeat' split at h) <;> simp at h
  subst h
  rename_i hc
  have hpcC := hS.pcAt hc.2; simp only [ofPc] at hpcC
  simp [embed, Sys.runFrom, sys, step, hpcC, hc.1]
  sim_close hS

theorem sim_ldBottom {f o : Bool} {k : Nat} {a a' : Wsd.St} {c : St} {t : Nat} {x : Int} {mo : Nat} (hS : Sim a c)
    (h : Wsd.step a (.ldBottom t x mo) = some a') :
    OkAnd ((sys f o k).runFrom c (embed (.ldBottom t x mo))) (Sim a') := by
  simp only [Wsd.step] at h
  split at h <;> (try (simp at h; done))
  all_goals
    rename_i heq
    have hpcC := hS.pcAt heq; simp only [ofPc] at hpcC
    split at h <;> simp at h
    subst h
    rename_i hc
    simp [embed, Sys.runFrom, sys, step, hpcC, hc.1, load_of_drained (hS.bufs t), hS.bot]
    sim_close hS

theorem sim_ldTop {f o : Bool} {k : Nat} {a a' : Wsd.St} {c : St} {t : Nat} {x : Int} {mo : Nat} (hS : Sim a c)
    (h : Wsd.step a (.ldTop t x mo) = some a') :
    OkAnd ((sys f o k).runFrom c (embed (.ldTop t x mo))) (Sim a') := by
  simp only [Wsd.step] at h
  split at h <;> (try (simp at h; done))
  all_goals
    rename_i heq
    have hpcC := hS.pcAt heq; simp only [ofPc] at hpcC
    (repeat' split at h) <;> simp at h
    all_goals
      subst h
      rename_i hc
      have hbt := hS.bufs t; have htop := hS.top
      simp_all [embed, Sys.runFrom, sys, step, load_of_drained, Mem.drained, ← Int.not_le]
      sim_close hS

theorem idx_nonneg (k : Nat) (j : Int) : 0 ≤ Wsd.idx k j := by
  have : (0 : Int) < Wsd.sz k := by simp [Wsd.sz]; exact Int.pow_pos (by omega)
  exact Int.emod_nonneg _ (by omega)

theorem cSlot_eq_iff (k0 : Nat) (g g' : Nat) (j j' : Int) :
    cSlot k0 g' j' = cSlot k0 g j ↔ g' = g ∧ Wsd.idx (k0 + g') j' = Wsd.idx (k0 + g) j := by
  constructor
  · intro h
    by_cases hg : g' = g
    · subst hg
      refine ⟨rfl, ?_⟩
      have h1 := idx_nonneg (k0 + g') j'
      have h2 := idx_nonneg (k0 + g') j
      simp only [cSlot, pslot_eq] at h
      omega
    · exact absurd h (cSlot_gen_ne k0 hg _ _)
  · rintro ⟨rfl, h⟩
    simp only [cSlot, pslot_eq, h]

theorem sim_ldArr {f o : Bool} {k : Nat} {a a' : Wsd.St} {c : St} {t g : Nat} {mo : Nat} (hS : Sim a c)
    (h : Wsd.step a (.ldArr t g mo) = some a') :
    OkAnd ((sys f o k).runFrom c (embed (.ldArr t g mo))) (Sim a') := by
  simp only [Wsd.step] at h
  split at h <;> (try (simp at h; done))
  all_goals
    rename_i heq
    have hpcC := hS.pcAt heq; simp only [ofPc] at hpcC
    (repeat' split at h) <;> simp at h
    all_goals
      subst h
      have hbt := hS.bufs t; have harr := hS.arr; have hk := hS.k0
      simp_all [embed, Sys.runFrom, sys, step, load_of_drained, ← Int.not_le, size_cast]
      sim_close hS

theorem sim_rdSlot {f o : Bool} {k : Nat} {a a' : Wsd.St} {c : St} {t g : Nat} {i x : Int} (hS : Sim a c)
    (h : Wsd.step a (.rdSlot t g i x) = some a') :
    OkAnd ((sys f o k).runFrom c (embed (.rdSlot t g i x))) (Sim a') := by
  simp only [Wsd.step] at h
  split at h <;> (try (simp at h; done))
  all_goals
    rename_i heq
    have hpcC := hS.pcAt heq; simp only [ofPc] at hpcC
    (repeat' split at h) <;> simp at h
    all_goals
      subst h
      have hbt := hS.bufs t; have hk := hS.k0; have hsl := hS.slot
      simp_all [embed, Sys.runFrom, sys, step, load_of_drained, ← Int.not_le, pslot_eq]
      sim_close hS

theorem sim_casTop {f o : Bool} {k : Nat} {a a' : Wsd.St} {c : St} {t : Nat} {fd e d : Int} {ok : Bool} {mo : Nat}
    (hS : Sim a c) (h : Wsd.step a (.casTop t fd e d ok mo) = some a') :
    OkAnd ((sys f o k).runFrom c (embed (.casTop t fd e d ok mo))) (Sim a') := by
  simp only [Wsd.step] at h
  split at h <;> (try (simp at h; done))
  all_goals
    rename_i heq
    have hpcC := hS.pcAt heq; simp only [ofPc] at hpcC
    split at h <;> (try (simp at h; done))
    rename_i hcc
    obtain ⟨rfl, rfl, rfl, hok, -⟩ := hcc
    have hbt := hS.bufs t; have htop := hS.top
    split at h <;> simp at h <;> subst h
    · rename_i hwon
      subst hwon
      have hT : a.top = e := by simpa using hok.symm
      simp [embed, Sys.runFrom, sys, step, hpcC, Mem.drained, hbt, htop, hT]
      constructor <;> (first | rfl | exact hS.k0 | exact hS.bufs | exact hS.pushed | exact hS.returned | (show (c.m.poke cTop _).mem cTop = _; simp; done) | (show (c.m.poke cTop _).mem cBot = _; rw [poke_top_bot]; exact hS.bot) | (show (c.m.poke cTop _).mem cArr = _; simp only [Mem.poke, upd_other _ _ _ _ cArr_ne_top]; exact hS.arr) | (intro g j; simp only [poke_top_slot]; exact hS.slot g j) | (intro u; simp only [upd]; split <;> (first | rfl | exact hS.pc u)))
    · rename_i hlost
      have hok' : ok = false := by simpa using hlost
      subst hok'
      have hT : ¬ a.top = e := by simpa using hok.symm
      simp [embed, Sys.runFrom, sys, step, hpcC, Mem.drained, hbt, htop, hT]
      sim_close hS

theorem sim_ret {f o : Bool} {k : Nat} {a a' : Wsd.St} {c : St} {e : Wsd.Ev} (hS : Sim a c)
    (he : (∃ t, e = .retPush t) ∨ (∃ t r, e = .retPop t r) ∨ (∃ t r, e = .retSteal t r))
    (h : Wsd.step a e = some a') :
    OkAnd ((sys f o k).runFrom c (embed e)) (Sim a') := by
  rcases he with ⟨t, rfl⟩ | ⟨t, r, rfl⟩ | ⟨t, r, rfl⟩
  all_goals
    simp only [Wsd.step] at h
    split at h <;> (try (simp at h; done))
    rename_i heq
    have hpcC := hS.pcAt heq; simp only [ofPc] at hpcC
    (repeat' split at h) <;> simp at h
    subst h
    have hret := hS.returned
    simp_all [embed, Sys.runFrom, sys, step]
    sim_close hS

theorem sim_stBottom {f o : Bool} {k : Nat} {a a' : Wsd.St} {c : St} {t : Nat} {x : Int} {mo : Nat} (hS : Sim a c)
    (h : Wsd.step a (.stBottom t x mo) = some a') :
    OkAnd ((sys f o k).runFrom c (embed (.stBottom t x mo))) (Sim a') := by
  obtain ⟨m', hf, hmem, hbuf⟩ := store_flush hS.bufs t cBot x
  simp only [Wsd.step] at h
  split at h <;> (try (simp at h; done))
  all_goals
    rename_i heq
    have hpcC := hS.pcAt heq; simp only [ofPc] at hpcC
    (repeat' split at h) <;> simp at h
    subst h
    rename_i hc
    have hx := hc.1
    simp [embed, Sys.runFrom, sys, step, hpcC, hx]
    rw [← hx, hf]
    simp only [OkAnd_some]
    constructor <;> (first | rfl | exact hS.k0 | exact hbuf | (show m'.mem cTop = _; rw [hmem, upd_other _ _ _ _ cBot_ne_top.symm]; exact hS.top) | (show m'.mem cBot = _; rw [hmem, upd_same]) | (show m'.mem cArr = _; rw [hmem, upd_other _ _ _ _ cArr_ne_bot]; exact hS.arr) | (simp [hS.pushed, hS.returned]; done) | (intro g j; simp only [hmem, upd_other _ _ _ _ (cSlot_ne_bot _ _ _)]; exact hS.slot g j) | (intro u; simp only [upd]; split <;> (first | rfl | exact hS.pc u)))

theorem sim_stArr {f o : Bool} {k : Nat} {a a' : Wsd.St} {c : St} {t g : Nat} {mo : Nat} (hS : Sim a c)
    (h : Wsd.step a (.stArr t g mo) = some a') :
    OkAnd ((sys f o k).runFrom c (embed (.stArr t g mo))) (Sim a') := by
  simp only [Wsd.step] at h
  split at h <;> (try (simp at h; done))
  rename_i v b tt g' heq
  have hpcC := hS.pcAt heq; simp only [ofPc] at hpcC
  (repeat' split at h) <;> simp at h
  subst h
  rename_i hc
  obtain ⟨hg, -⟩ := hc
  subst hg
  obtain ⟨m', hf, hmem, hbuf⟩ := store_flush hS.bufs t cArr ((g' : Int) + 1)
  simp [embed, Sys.runFrom, sys, step, hpcC]
  rw [hf]
  simp only [OkAnd_some]
  constructor <;> (first | rfl | exact hS.k0 | exact hbuf | (show m'.mem cTop = _; rw [hmem, upd_other _ _ _ _ cArr_ne_top.symm]; exact hS.top) | (show m'.mem cBot = _; rw [hmem, upd_other _ _ _ _ cArr_ne_bot.symm]; exact hS.bot) | (show m'.mem cArr = ((g' + 1 : Nat) : Int); rw [hmem, upd_same]; omega) | exact hS.pushed | exact hS.returned | (intro g j; simp only [hmem, upd_other _ _ _ _ (cSlot_ne_arr _ _ _)]; exact hS.slot g j) | (intro u; simp only [upd]; split <;> (first | rfl | exact hS.pc u)))

theorem sim_wrSlot {f o : Bool} {k : Nat} {a a' : Wsd.St} {c : St} {t g : Nat} {i x : Int} (hS : Sim a c)
    (h : Wsd.step a (.wrSlot t g i x) = some a') :
    OkAnd ((sys f o k).runFrom c (embed (.wrSlot t g i x))) (Sim a') := by
  simp only [Wsd.step] at h
  split at h <;> (try (simp at h; done))
  all_goals
    rename_i heq
    have hpcC := hS.pcAt heq; simp only [ofPc] at hpcC
    split at h <;> (try (simp at h; done))
    rename_i hc
    obtain ⟨hg, hi, hx⟩ := hc
  · -- a copy store
    rename_i v b tt g' j y
    obtain ⟨m', hf, hmem, hbuf⟩ := store_flush hS.bufs t (cSlot a.k0 g j) x
    have hslot : ∀ g1 j1, m'.mem (cSlot a.k0 g1 j1) =
        Wsd.setSlot a.slot g i x g1 (Wsd.idx (a.k0 + g1) j1) := by
      intro g1 j1
      rw [hmem]; simp only [upd, Wsd.setSlot, cSlot_eq_iff, hi]
      split <;> simp_all [hS.slot]
    split at h <;> simp at h <;> subst h
    all_goals
      rename_i hjb
      simp [embed, Sys.runFrom, sys, step, hpcC, hg, hi, hx, hS.k0, pslot_eq, hjb]
      rw [← hg, ← hx, hf]
      simp only [OkAnd_some]
      constructor <;> (first | rfl | exact hS.k0 | exact hbuf | (show m'.mem cTop = _; rw [hmem, upd_other _ _ _ _ (cSlot_ne_top _ _ _).symm]; exact hS.top) | (show m'.mem cBot = _; rw [hmem, upd_other _ _ _ _ (cSlot_ne_bot _ _ _).symm]; exact hS.bot) | (show m'.mem cArr = _; rw [hmem, upd_other _ _ _ _ (cSlot_ne_arr _ _ _).symm]; exact hS.arr) | exact hS.pushed | exact hS.returned | (intro g1 j1; have h' := hslot g1 j1; rw [hi] at h'; exact h') | (intro u; simp only [upd]; split <;> (first | rfl | exact hS.pc u)))
  · -- the element store
    rename_i v b g'
    obtain ⟨m', hf, hmem, hbuf⟩ := store_flush hS.bufs t (cSlot a.k0 g b) x
    have hslot : ∀ g1 j1, m'.mem (cSlot a.k0 g1 j1) =
        Wsd.setSlot a.slot g i x g1 (Wsd.idx (a.k0 + g1) j1) := by
      intro g1 j1
      rw [hmem]; simp only [upd, Wsd.setSlot, cSlot_eq_iff, hi]
      split <;> simp_all [hS.slot]
    simp at h; subst h
    simp [embed, Sys.runFrom, sys, step, hpcC, hg, hi, hx, hS.k0, pslot_eq]
    rw [← hg, ← hx, hf]
    simp only [OkAnd_some]
    constructor <;> (first | rfl | exact hS.k0 | exact hbuf | (show m'.mem cTop = _; rw [hmem, upd_other _ _ _ _ (cSlot_ne_top _ _ _).symm]; exact hS.top) | (show m'.mem cBot = _; rw [hmem, upd_other _ _ _ _ (cSlot_ne_bot _ _ _).symm]; exact hS.bot) | (show m'.mem cArr = _; rw [hmem, upd_other _ _ _ _ (cSlot_ne_arr _ _ _).symm]; exact hS.arr) | exact hS.pushed | exact hS.returned | (intro g1 j1; have h' := hslot g1 j1; rw [hi] at h'; exact h') | (intro u; simp only [upd]; split <;> (first | rfl | exact hS.pc u)))

theorem sim_step {f o : Bool} {k : Nat} {a a' : Wsd.St} {c : St} {e : Wsd.Ev} (hS : Sim a c)
    (h : Wsd.step a e = some a') : OkAnd ((sys f o k).runFrom c (embed e)) (Sim a') := by
  cases e with
  | callPush t v => exact sim_callPush hS h
  | retPush t => exact sim_ret hS (Or.inl ⟨t, rfl⟩) h
  | callPop t => exact sim_callPop hS h
  | retPop t r => exact sim_ret hS (Or.inr (Or.inl ⟨t, r, rfl⟩)) h
  | callSteal t => exact sim_callSteal hS h
  | retSteal t r => exact sim_ret hS (Or.inr (Or.inr ⟨t, r, rfl⟩)) h
  | ldBottom t x mo => exact sim_ldBottom hS h
  | stBottom t x mo => exact sim_stBottom hS h
  | ldTop t x mo => exact sim_ldTop hS h
  | casTop t fd e d ok mo => exact sim_casTop hS h
  | ldArr t g mo => exact sim_ldArr hS h
  | stArr t g mo => exact sim_stArr hS h
  | rdSlot t g i x => exact sim_rdSlot hS h
  | wrSlot t g i x => exact sim_wrSlot hS h

theorem sim_init (f o : Bool) (k0 : Nat) : Sim (Wsd.init k0) (init f o k0) := by
  constructor <;> simp [Wsd.init, init, Mem.init, ofPc]

theorem sim_runFrom {f o : Bool} {k : Nat} {a a' : Wsd.St} {c : St} {es : List Wsd.Ev}
    (hS : Sim a c) (h : (Wsd.sys k).runFrom a es = some a') :
    ∃ c', (sys f o k).runFrom c (es.flatMap embed) = some c' ∧ Sim a' c' := by
  induction es generalizing a c with
  | nil => simp [Sys.runFrom] at h; subst h; exact ⟨c, rfl, hS⟩
  | cons e es ih =>
    simp only [Sys.runFrom] at h
    cases hst : (Wsd.sys k).step a e with
    | none => simp [hst] at h
    | some a1 =>
      simp [hst] at h
      have h1 := sim_step (f := f) (o := o) (k := k) hS hst
      cases hc : (sys f o k).runFrom c (embed e) with
      | none => rw [hc] at h1; exact absurd h1 (by simp [OkAnd])
      | some c1 =>
        rw [hc] at h1
        obtain ⟨c', hc', hS'⟩ := ih h1 h
        refine ⟨c', ?_, hS'⟩
        simp only [List.flatMap_cons, Sys.runFrom_append, hc]
        exact hc'

end LibfiberVerif.WsdTsoGrow
