/-
  Proof/ChanQueue.lean — the unbounded (MPSC) and sp (SPSC) channels: every message is
  received exactly once, in the order the senders swapped the tail (hence per sender in the
  order sent).  Property C11.  The queue itself is the abstract one of the model
  (`order`/`linked`/`hd`, justified by C15); here we relate it to `sent`/`recvd` and to the
  node `data` words the receiver actually reads.
-/
import LibfiberVerif.Proof.Chan

set_option linter.unusedSimpArgs false

namespace LibfiberVerif.Chan

def qval (s : St) (i : Nat) : Nat := ((s.sent[i]?).map Prod.snd).getD 0

def sentBy (s : St) (f : Nat) : List Nat := (s.sent.filter (fun p => p.1 = f)).map Prod.snd

/-- the message a sender has been given and not yet linearised (claim / tail swap) -/
def Pc.pending : Pc → List Nat
  | .sTop v => [v] | .sLdLow v _ => [v] | .sLdHigh v _ _ => [v] | .sRdBuf v _ _ _ => [v]
  | .qCalled v => [v] | .qData v => [v] | .qCleared v => [v] | .qLdTail v _ => [v]
  | .idle => [] | .sClaimed _ _ => [] | .qSwapped _ _ _ => [] | .sPublished _ => [] | .sRaising _ => []
  | .sRaised _ _ => [] | .sDone => [] | .rTop => [] | .rLdHigh _ => [] | .rLdLow _ _ => []
  | .rRdBuf _ _ _ => [] | .rCleared _ _ => [] | .rGotHead _ => [] | .rGotNext _ _ => []
  | .rMoved _ _ => [] | .rGotData _ _ => [] | .rWrote _ _ => [] | .rEmpty => [] | .rWaiting => []
  | .rDone _ => [] | .tEmpty => []

/-- pcs of the receive operation -/
def Pc.isRecv : Pc → Bool
  | .rTop => true | .rLdHigh _ => true | .rLdLow _ _ => true | .rRdBuf _ _ _ => true | .rCleared _ _ => true
  | .rGotHead _ => true | .rGotNext _ _ => true | .rMoved _ _ => true | .rGotData _ _ => true
  | .rWrote _ _ => true | .rEmpty => true | .rWaiting => true | .rDone _ => true | .tEmpty => true
  | .idle => false | .sTop _ => false | .sLdLow _ _ => false | .sLdHigh _ _ _ => false | .sRdBuf _ _ _ _ => false
  | .sClaimed _ _ => false | .qCalled _ => false | .qData _ => false | .qCleared _ => false | .qLdTail _ _ => false
  | .qSwapped _ _ _ => false | .sPublished _ => false | .sRaising _ => false | .sRaised _ _ => false | .sDone => false

theorem PcTrans.pending {a b : Pc} (h : PcTrans a b) : a.pending = [] ∧ b.pending = [] := by
  cases h <;> simp [Pc.pending]

theorem PcTrans.isRecv {a b : Pc} (h : PcTrans a b) : a.isRecv = b.isRecv := by
  cases h <;> simp [Pc.isRecv]

/-- h is the queue's initial stub or a node strictly before the last one popped: the receiver
    may overwrite its `data` without touching a message that is still to be read -/
def isOld (s : St) (h : Nat) : Prop := h = 1 ∨ ∃ j, j + 1 < s.hd ∧ j < s.sent.length ∧ h = qval s j + 1

structure QInv (s : St) : Prop where
  ord : s.order = (s.sent.map Prod.snd).map (· + 1)
  vnz : ∀ p, p ∈ s.sent → p.2 ≠ 0
  vnodup : (s.sent.map Prod.snd).Nodup
  pend : ∀ f v, v ∈ (s.pc f).pending → v ≠ 0 ∧ v ∈ s.used ∧ (∀ p, p ∈ s.sent → p.2 ≠ v)
  vused : ∀ p, p ∈ s.sent → p.2 ∈ s.used
  pend_uniq : ∀ f g v, v ∈ (s.pc f).pending → v ∈ (s.pc g).pending → f = g
  hd_le : s.hd ≤ s.sent.length
  head : s.headNode = if s.hd = 0 then 1 else qval s (s.hd - 1) + 1
  data : ∀ i, s.hd ≤ i → i < s.sent.length → s.ndata (qval s i + 1) = qval s i
  recvd_eq : s.recvd = (s.sent.map Prod.snd).take s.hd
  calls_eq : ∀ f, sentBy s f ++ (s.pc f).pending = s.calls f
  recv_id : ∀ f, (s.pc f).isRecv = true → s.receiver = some f
  qData_nd1 : ∀ f v, s.pc f = .qData v → s.ndata (v + 1) = v
  qData_nd2 : ∀ f v, s.pc f = .qCleared v → s.ndata (v + 1) = v
  qData_nd3 : ∀ f v t, s.pc f = .qLdTail v t → s.ndata (v + 1) = v
  rGotHead_eq : ∀ f h, s.pc f = .rGotHead h → h = s.headNode
  rGotNext_eq : ∀ f h x, s.pc f = .rGotNext h x →
    h = s.headNode ∧ s.hd < s.sent.length ∧ x = qval s s.hd + 1
  rMoved_eq : ∀ f h x, s.pc f = .rMoved h x →
    0 < s.hd ∧ x = qval s (s.hd - 1) + 1 ∧ s.ndata x = qval s (s.hd - 1) ∧ isOld s h
  rGotData_old : ∀ f h d, s.pc f = .rGotData h d → isOld s h
  rWrote_old : ∀ f h d, s.pc f = .rWrote h d → isOld s h

theorem qinv_initM (spin : Bool) (k : Kind) (cap : Nat) : QInv (initM spin k cap) := by
  constructor <;> simp [initM, qval, sentBy, Pc.pending, Pc.isRecv, Signal.pinit]

theorem qinv_init (k : Kind) (cap : Nat) : QInv (init k cap) := qinv_initM false k cap

end LibfiberVerif.Chan
