/-
  Proof/MultiChanS1.lean — `MultiChan.Inv` (one-list discipline) is preserved by the events of
  group S1 (one lemma per event; several modules so that they compile in parallel).
-/
import LibfiberVerif.Proof.MultiChanInv

set_option linter.unusedSimpArgs false
set_option linter.unusedVariables false

namespace LibfiberVerif.MultiChan

set_option maxHeartbeats 4000000 in
theorem inv_step_callSend (s s' : St) (f v : _) (htwo : s.two = false) (hi : Inv s) (hs : step s (.callSend f v) = some s') : Inv s' := by
  have hI := hi
  obtain ⟨h1, h2, h3, h4, h5, h6, h7, h8, h9, h10, h11, h12, h13, h14, h15, h16, h17, h18, h19, h20, h21, h22, h23, h24, h25, h26, h27, h28, h29, h30, h31, h32⟩ := hi
  simp only [step, htwo] at hs
  repeat' (split at hs)
  all_goals (try simp at hs)
  all_goals (first | subst hs | (obtain ⟨_, hs⟩ := hs; subst hs))
  all_goals (constructor <;> mc_close)

set_option maxHeartbeats 4000000 in
theorem inv_step_retSend (s s' : St) (f : _) (htwo : s.two = false) (hi : Inv s) (hs : step s (.retSend f) = some s') : Inv s' := by
  have hI := hi
  obtain ⟨h1, h2, h3, h4, h5, h6, h7, h8, h9, h10, h11, h12, h13, h14, h15, h16, h17, h18, h19, h20, h21, h22, h23, h24, h25, h26, h27, h28, h29, h30, h31, h32⟩ := hi
  simp only [step, htwo] at hs
  repeat' (split at hs)
  all_goals (try simp at hs)
  all_goals (first | subst hs | (obtain ⟨_, hs⟩ := hs; subst hs))
  all_goals (constructor <;> mc_close)

set_option maxHeartbeats 4000000 in
theorem inv_step_callRecv (s s' : St) (f : _) (htwo : s.two = false) (hi : Inv s) (hs : step s (.callRecv f) = some s') : Inv s' := by
  have hI := hi
  obtain ⟨h1, h2, h3, h4, h5, h6, h7, h8, h9, h10, h11, h12, h13, h14, h15, h16, h17, h18, h19, h20, h21, h22, h23, h24, h25, h26, h27, h28, h29, h30, h31, h32⟩ := hi
  simp only [step, htwo] at hs
  repeat' (split at hs)
  all_goals (try simp at hs)
  all_goals (first | subst hs | (obtain ⟨_, hs⟩ := hs; subst hs))
  all_goals (constructor <;> mc_close)

set_option maxHeartbeats 4000000 in
theorem inv_step_retRecv (s s' : St) (f v : _) (htwo : s.two = false) (hi : Inv s) (hs : step s (.retRecv f v) = some s') : Inv s' := by
  have hI := hi
  obtain ⟨h1, h2, h3, h4, h5, h6, h7, h8, h9, h10, h11, h12, h13, h14, h15, h16, h17, h18, h19, h20, h21, h22, h23, h24, h25, h26, h27, h28, h29, h30, h31, h32⟩ := hi
  simp only [step, htwo] at hs
  repeat' (split at hs)
  all_goals (try simp at hs)
  all_goals (first | subst hs | (obtain ⟨_, hs⟩ := hs; subst hs))
  all_goals (constructor <;> mc_close)

set_option maxHeartbeats 4000000 in
theorem inv_step_fsub (s s' : St) (f old : _) (htwo : s.two = false) (hi : Inv s) (hs : step s (.fsub f old) = some s') : Inv s' := by
  have hI := hi
  obtain ⟨h1, h2, h3, h4, h5, h6, h7, h8, h9, h10, h11, h12, h13, h14, h15, h16, h17, h18, h19, h20, h21, h22, h23, h24, h25, h26, h27, h28, h29, h30, h31, h32⟩ := hi
  simp only [step, htwo] at hs
  repeat' (split at hs)
  all_goals (try simp at hs)
  all_goals (first | subst hs | (obtain ⟨_, hs⟩ := hs; subst hs))
  all_goals (constructor <;> mc_close)

set_option maxHeartbeats 4000000 in
theorem inv_step_handoff (s s' : St) (f g : _) (htwo : s.two = false) (hi : Inv s) (hs : step s (.handoff f g) = some s') : Inv s' := by
  have hI := hi
  obtain ⟨h1, h2, h3, h4, h5, h6, h7, h8, h9, h10, h11, h12, h13, h14, h15, h16, h17, h18, h19, h20, h21, h22, h23, h24, h25, h26, h27, h28, h29, h30, h31, h32⟩ := hi
  simp only [step, htwo] at hs
  repeat' (split at hs)
  all_goals (try simp at hs)
  all_goals (first | subst hs | (obtain ⟨_, hs⟩ := hs; subst hs))
  all_goals (constructor <;> mc_close)

set_option maxHeartbeats 4000000 in
theorem inv_step_rHigh (s s' : St) (f h : _) (htwo : s.two = false) (hi : Inv s) (hs : step s (.rHigh f h) = some s') : Inv s' := by
  have hI := hi
  obtain ⟨h1, h2, h3, h4, h5, h6, h7, h8, h9, h10, h11, h12, h13, h14, h15, h16, h17, h18, h19, h20, h21, h22, h23, h24, h25, h26, h27, h28, h29, h30, h31, h32⟩ := hi
  simp only [step, htwo] at hs
  repeat' (split at hs)
  all_goals (try simp at hs)
  all_goals (first | subst hs | (obtain ⟨_, hs⟩ := hs; subst hs))
  all_goals (constructor <;> mc_close)

set_option maxHeartbeats 4000000 in
theorem inv_step_rSWaiters (s s' : St) (f w : _) (htwo : s.two = false) (hi : Inv s) (hs : step s (.rSWaiters f w) = some s') : Inv s' := by
  have hI := hi
  obtain ⟨h1, h2, h3, h4, h5, h6, h7, h8, h9, h10, h11, h12, h13, h14, h15, h16, h17, h18, h19, h20, h21, h22, h23, h24, h25, h26, h27, h28, h29, h30, h31, h32⟩ := hi
  simp only [step, htwo] at hs
  repeat' (split at hs)
  all_goals (try simp at hs)
  all_goals (first | subst hs | (obtain ⟨_, hs⟩ := hs; subst hs))
  all_goals (constructor <;> mc_close)

set_option maxHeartbeats 4000000 in
theorem inv_step_wSWaiters (s s' : St) (f w : _) (htwo : s.two = false) (hi : Inv s) (hs : step s (.wSWaiters f w) = some s') : Inv s' := by
  have hI := hi
  obtain ⟨h1, h2, h3, h4, h5, h6, h7, h8, h9, h10, h11, h12, h13, h14, h15, h16, h17, h18, h19, h20, h21, h22, h23, h24, h25, h26, h27, h28, h29, h30, h31, h32⟩ := hi
  simp only [step, htwo] at hs
  repeat' (split at hs)
  all_goals (try simp at hs)
  all_goals (first | subst hs | (obtain ⟨_, hs⟩ := hs; subst hs))
  all_goals (constructor <;> mc_close)

end LibfiberVerif.MultiChan
