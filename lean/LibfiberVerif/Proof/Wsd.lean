/-
  Proof/Wsd.lean — the inductive invariant of the Chase–Lev deque model (Model/Wsd.lean).

  `Inv` relates, for the owner's program counter, the published `bottom` to the ghost upper
  end `hb` of the logical contents `[top, hb)`, and for every thief what it has read so far
  to the current state: "if `top` still equals the value `t` I loaded, then `t < hb` and the
  value I read (from whatever generation I hold) is the value of logical index `t` in the
  published generation".  Growth is handled access by access (the copy loop's progress is
  part of the owner's promise), so nothing is assumed about it.
  Everything holds for any number of thieves, any initial size, unbounded growth.
-/
import LibfiberVerif.Model.Wsd
namespace LibfiberVerif.Wsd

theorem sz_pos (k : Nat) : 0 < sz k := by
  unfold sz; exact Int.pow_pos (by decide)

theorem sz_succ (k : Nat) : sz (k + 1) = 2 * sz k := by
  unfold sz; rw [Int.pow_succ]; omega

/-- two logical indices less than one array size apart occupy different slots -/
theorem idx_inj {k : Nat} {i j : Int} (h : idx k i = idx k j) (h1 : i - j < sz k) (h2 : j - i < sz k) :
    i = j := by
  unfold idx at h
  have hd : sz k ∣ (i - j) := Int.dvd_of_emod_eq_zero (Int.emod_eq_emod_iff_emod_sub_eq_zero.mp h)
  have hp := sz_pos k
  rcases Int.lt_trichotomy (i - j) 0 with hlt | heq | hgt
  · have hd' : sz k ∣ (j - i) := by
      have : j - i = -(i - j) := by omega
      rw [this]; exact Int.dvd_neg.mpr hd
    have := Int.le_of_dvd (by omega) hd'
    omega
  · omega
  · have := Int.le_of_dvd hgt hd
    omega

/-- `[f lo, f (lo+1), …, f (lo+n-1)]` -/
def seg (f : Int → Int) : Int → Nat → List Int
  | _, 0 => []
  | lo, n + 1 => f lo :: seg f (lo + 1) n

theorem seg_snoc (f : Int → Int) (lo : Int) (n : Nat) :
    seg f lo (n + 1) = seg f lo n ++ [f (lo + n)] := by
  induction n generalizing lo with
  | zero => simp [seg]
  | succ n ih =>
    rw [seg, ih (lo + 1)]
    have : lo + 1 + (n : Int) = lo + ((n + 1 : Nat) : Int) := by omega
    rw [this]
    simp only [seg, List.cons_append]

theorem seg_congr {f g : Int → Int} {lo : Int} {n : Nat}
    (h : ∀ i, lo ≤ i → i < lo + n → f i = g i) : seg f lo n = seg g lo n := by
  induction n generalizing lo with
  | zero => rfl
  | succ n ih =>
    simp only [seg]
    rw [h lo (by omega) (by omega), ih (fun i h1 h2 => h i (by omega) (by omega))]


/-- value stored for logical index `i` in generation `g` -/
def atg (k0 : Nat) (sl : Nat → Int → Int) (g : Nat) (i : Int) : Int := sl g (idx (k0 + g) i)

theorem at_eq (s : St) (g : Nat) (i : Int) : s.at g i = atg s.k0 s.slot g i := rfl

/-- what the owner's program counter promises (`rc`/`wt` = the owner's `raced`/`wit` flags) -/
def ownerOk (k0 : Nat) (T B H : Int) (A : Nat) (sl : Nat → Int → Int) (rc wt : Bool) : Pc → Prop
  | .idle | .pushCalled _ | .pushDone | .popCalled => B = H
  | .pushGotB _ b => b = B ∧ B = H
  | .pushGotT _ b t => b = B ∧ B = H ∧ t ≤ T ∧ b - t ≤ sz (k0 + A) - 1
  | .pushCopy _ b t g i => b = B ∧ B = H ∧ t ≤ T ∧ g = A ∧ b - t ≤ sz (k0 + g) - 1 ∧ t ≤ i ∧ i < b ∧
      ∀ j, t ≤ j → j < i → atg k0 sl (g + 1) j = atg k0 sl g j
  | .pushCopyW _ b t g i x => b = B ∧ B = H ∧ t ≤ T ∧ g = A ∧ b - t ≤ sz (k0 + g) - 1 ∧ t ≤ i ∧ i < b ∧
      (∀ j, t ≤ j → j < i → atg k0 sl (g + 1) j = atg k0 sl g j) ∧ x = atg k0 sl g i
  | .pushPublish _ b t g => b = B ∧ B = H ∧ t ≤ T ∧ g = A ∧ b - t ≤ sz (k0 + g) - 1 ∧
      ∀ j, t ≤ j → j < b → atg k0 sl (g + 1) j = atg k0 sl g j
  | .pushPut _ b g => b = B ∧ B = H ∧ g = A ∧ b + 1 - T ≤ sz (k0 + g) - 1
  | .pushWritten v b => b = B ∧ B = H ∧ b + 1 - T ≤ sz (k0 + A) - 1 ∧ atg k0 sl A b = v
  | .popGotB b => b + 1 = B ∧ B = H
  | .popGotArr b g => b + 1 = B ∧ B = H ∧ g = A
  | .popStored b g => B = b ∧ H = b + 1 ∧ g = A
  | .popEmpty t => H = t ∧ T = t ∧ B + 1 = H ∧ wt = true
  | .popTake b g t => g = A ∧ B = b ∧ t ≤ T ∧ (rc = false → T = t) ∧
      ((t < b ∧ H = b) ∨ (t = b ∧ H = b + 1))
  | .popRead b t x => t = b ∧ B = b ∧ H = b + 1 ∧ t ≤ T ∧ (rc = false → T = t) ∧ x = atg k0 sl A b
  | .popCased t r => B = t ∧ H = t + 1 ∧ T = H ∧ (r = .abort → rc = true) ∧ r ≠ .empty
  | .popDone r => B = H ∧ (r = .abort → rc = true) ∧ (r = .empty → wt = true)
  | _ => False

/-- what a thief's program counter promises -/
def thiefOk (k0 : Nat) (T H : Int) (A : Nat) (sl : Nat → Int → Int) (rc wt : Bool) : Pc → Prop
  | .idle | .stealCalled => True
  | .stealGotT t => t ≤ T ∧ (rc = false → T = t)
  | .stealGotB t b => t ≤ T ∧ (rc = false → T = t) ∧ (t < b → T = t → t < H) ∧ (b ≤ t → wt = true)
  | .stealGotArr t g => t ≤ T ∧ (rc = false → T = t) ∧ g ≤ A ∧
      (T = t → t < H ∧ atg k0 sl g t = atg k0 sl A t)
  | .stealRead t g x => t ≤ T ∧ (rc = false → T = t) ∧ g ≤ A ∧ (T = t → t < H ∧ x = atg k0 sl A t)
  | .stealDone r => (r = .abort → rc = true) ∧ (r = .empty → wt = true)
  | _ => False

/-- the logical contents: values of indices `[top, hb)` in the published generation -/
def logical (s : St) : List Int := seg (atg s.k0 s.slot s.arr) s.top (s.hb - s.top).toNat

structure Inv (s : St) : Prop where
  owner : ownerOk s.k0 s.top s.bottom s.hb s.arr s.slot (s.raced 0) (s.wit 0) (s.pc 0)
  thief : ∀ u, u ≠ 0 → thiefOk s.k0 s.top s.hb s.arr s.slot (s.raced u) (s.wit u) (s.pc u)
  tle : s.top ≤ s.hb
  ble : s.bottom ≤ s.hb
  cap : s.hb - s.top ≤ sz (s.k0 + s.arr) - 1
  perm : s.pushed.Perm (s.taken ++ logical s)

theorem inv_init (k0 : Nat) : Inv (init k0) := by
  constructor <;> simp [init, ownerOk, thiefOk, logical, seg]
  have := sz_pos k0; omega


/-! ### stability of the per-thread promises under the other threads' steps -/

theorem ownerOk_top_succ {k0 T B H A sl rc wt p} (h : ownerOk k0 T B H A sl rc wt p) (hlt : T < H) :
    ownerOk k0 (T + 1) B H A sl true wt p := by
  cases p <;> simp [ownerOk] at h ⊢ <;> grind

theorem thiefOk_top_succ {k0 T H A sl rc wt p} (h : thiefOk k0 T H A sl rc wt p) :
    thiefOk k0 (T + 1) H A sl true wt p := by
  cases p <;> simp [thiefOk] at h ⊢ <;> grind

theorem owner_window {k0 T B H A sl rc wt p} (h : ownerOk k0 T B H A sl rc wt p)
    (hw : p.popWindow = false) : B = H := by
  cases p <;> simp [ownerOk, Pc.popWindow] at h hw ⊢ <;> omega

theorem thiefOk_hb {k0 T H H' A sl rc wt p} (h : thiefOk k0 T H A sl rc wt p)
    (hH : T < H → T < H') : thiefOk k0 T H' A sl rc wt p := by
  cases p <;> simp [thiefOk] at h ⊢ <;> grind

theorem atg_setSlot_gen {k0 sl g g' i x j} (hg : g ≠ g') :
    atg k0 (setSlot sl g' i x) g j = atg k0 sl g j := by
  simp [atg, setSlot, hg]

theorem atg_setSlot_idx {k0 sl g i x j} (h1 : i - j < sz (k0 + g)) (h2 : j - i < sz (k0 + g))
    (hne : i ≠ j) : atg k0 (setSlot sl g (idx (k0 + g) i) x) g j = atg k0 sl g j := by
  have : idx (k0 + g) j ≠ idx (k0 + g) i := fun h => hne (idx_inj h h2 h1).symm
  simp [atg, setSlot, this]

theorem atg_setSlot_same {k0 sl g i x} :
    atg k0 (setSlot sl g (idx (k0 + g) i) x) g i = x := by
  simp [atg, setSlot]

/-- the owner writes slot `H` of the published generation (push_bottom's put) -/
theorem thiefOk_put {k0 T H A sl rc wt p x} (h : thiefOk k0 T H A sl rc wt p)
    (hcap : H - T ≤ sz (k0 + A) - 1) :
    thiefOk k0 T H A (setSlot sl A (idx (k0 + A) H) x) rc wt p := by
  have key : ∀ t, T = t → t < H → atg k0 (setSlot sl A (idx (k0 + A) H) x) A t = atg k0 sl A t := by
    intro t ht hlt
    exact atg_setSlot_idx (by omega) (by omega) (by omega)
  have key2 : ∀ t g, g ≤ A → T = t → t < H →
      atg k0 (setSlot sl A (idx (k0 + A) H) x) g t = atg k0 sl g t := by
    intro t g hg ht hlt
    by_cases hgA : g = A
    · subst hgA; exact key t ht hlt
    · exact atg_setSlot_gen hgA
  cases p <;> simp [thiefOk] at h ⊢
  · grind
  · grind
  · obtain ⟨h1, h2, h3, h4⟩ := h
    refine ⟨h1, h2, h3, fun ht => ?_⟩
    obtain ⟨h5, h6⟩ := h4 ht
    exact ⟨h5, by rw [key2 _ _ h3 ht h5, key _ ht h5, h6]⟩
  · obtain ⟨h1, h2, h3, h4⟩ := h
    refine ⟨h1, h2, h3, fun ht => ?_⟩
    obtain ⟨h5, h6⟩ := h4 ht
    exact ⟨h5, by rw [key _ ht h5, h6]⟩
  · grind

/-- the owner writes a slot of the not yet published generation (grow's copy) -/
theorem thiefOk_copyW {k0 T H A sl rc wt p i x} (h : thiefOk k0 T H A sl rc wt p) :
    thiefOk k0 T H A (setSlot sl (A + 1) i x) rc wt p := by
  have key : ∀ g t, g ≤ A → atg k0 (setSlot sl (A + 1) i x) g t = atg k0 sl g t := by
    intro g t hg; exact atg_setSlot_gen (by omega)
  cases p <;> simp [thiefOk] at h ⊢
  · grind
  · grind
  · obtain ⟨h1, h2, h3, h4⟩ := h
    refine ⟨h1, h2, h3, fun ht => ?_⟩
    obtain ⟨h5, h6⟩ := h4 ht
    exact ⟨h5, by rw [key _ _ h3, key _ _ (Nat.le_refl A), h6]⟩
  · obtain ⟨h1, h2, h3, h4⟩ := h
    refine ⟨h1, h2, h3, fun ht => ?_⟩
    obtain ⟨h5, h6⟩ := h4 ht
    exact ⟨h5, by rw [key _ _ (Nat.le_refl A), h6]⟩
  · grind

/-- the owner publishes generation `A + 1`, a copy of `[t0, H)` of generation `A` -/
theorem thiefOk_publish {k0 T H A sl rc wt p t0} (h : thiefOk k0 T H A sl rc wt p)
    (hcopy : ∀ j, t0 ≤ j → j < H → atg k0 sl (A + 1) j = atg k0 sl A j) (ht0 : t0 ≤ T) :
    thiefOk k0 T H (A + 1) sl rc wt p := by
  cases p <;> simp [thiefOk] at h ⊢
  · grind
  · grind
  · obtain ⟨h1, h2, h3, h4⟩ := h
    refine ⟨h1, h2, by omega, fun ht => ?_⟩
    obtain ⟨h5, h6⟩ := h4 ht
    exact ⟨h5, by rw [hcopy _ (by omega) h5, h6]⟩
  · obtain ⟨h1, h2, h3, h4⟩ := h
    refine ⟨h1, h2, by omega, fun ht => ?_⟩
    obtain ⟨h5, h6⟩ := h4 ht
    exact ⟨h5, by rw [hcopy _ (by omega) h5, h6]⟩
  · grind

/-! ### the invariant is preserved by every step -/

theorem tid_zero {s : St} (hI : Inv s) {t : Nat} {p : Pc} (hpc : s.pc t = p)
    (hp : ∀ k0 T H A sl rc wt, ¬ thiefOk k0 T H A sl rc wt p) : t = 0 := by
  apply Classical.byContradiction; intro hne
  have := hI.thief t hne; rw [hpc] at this; exact hp _ _ _ _ _ _ _ this

theorem tid_ne_zero {s : St} (hI : Inv s) {t : Nat} {p : Pc} (hpc : s.pc t = p)
    (hp : ∀ k0 T B H A sl rc wt, ¬ ownerOk k0 T B H A sl rc wt p) : t ≠ 0 := by
  intro h0; subst h0
  have := hI.owner; rw [hpc] at this; exact hp _ _ _ _ _ _ _ _ this

/-- a step that changes only thread `u`'s pc / `raced` / `wit` -/
theorem inv_local {s s' : St} (hI : Inv s) (u : Nat)
    (hk : s'.k0 = s.k0) (hT : s'.top = s.top) (hB : s'.bottom = s.bottom) (hH : s'.hb = s.hb)
    (hA : s'.arr = s.arr) (hS : s'.slot = s.slot) (hP : s'.pushed = s.pushed)
    (hK : s'.taken = s.taken)
    (hpc : ∀ w, w ≠ u → s'.pc w = s.pc w) (hrc : ∀ w, w ≠ u → s'.raced w = s.raced w)
    (hwt : ∀ w, w ≠ u → s'.wit w = s.wit w)
    (hown : u = 0 → ownerOk s.k0 s.top s.bottom s.hb s.arr s.slot (s'.raced 0) (s'.wit 0) (s'.pc 0))
    (hth : u ≠ 0 → thiefOk s.k0 s.top s.hb s.arr s.slot (s'.raced u) (s'.wit u) (s'.pc u)) :
    Inv s' := by
  constructor
  · rw [hk, hT, hB, hH, hA, hS]
    by_cases h0 : u = 0
    · exact hown h0
    · rw [hpc 0 (Ne.symm h0), hrc 0 (Ne.symm h0), hwt 0 (Ne.symm h0)]; exact hI.owner
  · intro w hw
    rw [hk, hT, hH, hA, hS]
    by_cases hwu : w = u
    · subst hwu; exact hth hw
    · rw [hpc w hwu, hrc w hwu, hwt w hwu]; exact hI.thief w hw
  · rw [hT, hH]; exact hI.tle
  · rw [hB, hH]; exact hI.ble
  · rw [hT, hH, hk, hA]; exact hI.cap
  · have : logical s' = logical s := by simp [logical, hk, hT, hH, hA, hS]
    rw [hP, hK, this]; exact hI.perm

macro "local_side" : tactic =>
  `(tactic| first | rfl | (intro w hw; simp [upd, hw]))

theorem inv_callPush {s s' : St} {t : Nat} {v : Int} (hI : Inv s)
    (h : step s (.callPush t v) = some s') : Inv s' := by
  simp only [step] at h
  split at h <;> simp at h
  subst h
  rename_i hc
  obtain ⟨ht, hpc, -⟩ := hc
  subst ht
  have ho := hI.owner; rw [hpc] at ho
  apply inv_local hI 0 <;> try local_side
  · intro _; simpa [ownerOk] using ho
  · intro hh; exact absurd rfl hh

theorem inv_callPop {s s' : St} {t : Nat} (hI : Inv s)
    (h : step s (.callPop t) = some s') : Inv s' := by
  simp only [step] at h
  split at h <;> simp at h
  subst h
  rename_i hc
  obtain ⟨ht, hpc⟩ := hc
  subst ht
  have ho := hI.owner; rw [hpc] at ho
  apply inv_local hI 0 <;> try local_side
  · intro _; simpa [ownerOk] using ho
  · intro hh; exact absurd rfl hh

theorem inv_callSteal {s s' : St} {t : Nat} (hI : Inv s)
    (h : step s (.callSteal t) = some s') : Inv s' := by
  simp only [step] at h
  split at h <;> simp at h
  subst h
  rename_i hc
  obtain ⟨ht, hpc⟩ := hc
  apply inv_local hI t <;> try local_side
  · intro h0; exact absurd h0 ht
  · intro _; simp [thiefOk]

theorem inv_retPush {s s' : St} {t : Nat} (hI : Inv s)
    (h : step s (.retPush t) = some s') : Inv s' := by
  simp only [step] at h
  split at h <;> simp at h
  next hpc =>
    have ht := tid_zero hI hpc (by simp [thiefOk]); subst ht
    have ho := hI.owner; rw [hpc] at ho; simp only [ownerOk] at ho
    subst h
    apply inv_local hI 0 <;> try local_side
    · intro _; simpa [ownerOk] using ho
    · intro hh; exact absurd rfl hh

theorem inv_retPop {s s' : St} {t : Nat} {r : Int} (hI : Inv s)
    (h : step s (.retPop t r) = some s') : Inv s' := by
  simp only [step] at h
  split at h <;> simp at h
  next r' hpc =>
    have ht := tid_zero hI hpc (by simp [thiefOk]); subst ht
    have ho := hI.owner; rw [hpc] at ho; simp only [ownerOk] at ho
    obtain ⟨-, h⟩ := h
    subst h
    apply inv_local hI 0 <;> try local_side
    · intro _; simp [ownerOk]; omega
    · intro hh; exact absurd rfl hh

theorem inv_retSteal {s s' : St} {t : Nat} {r : Int} (hI : Inv s)
    (h : step s (.retSteal t r) = some s') : Inv s' := by
  simp only [step] at h
  split at h <;> simp at h
  next r' hpc =>
    have ht := tid_ne_zero hI hpc (by simp [ownerOk])
    obtain ⟨-, h⟩ := h
    subst h
    apply inv_local hI t <;> try local_side
    · intro h0; exact absurd h0 ht
    · intro _; simp [thiefOk]

theorem inv_ldBottom {s s' : St} {t : Nat} {x : Int} {mo : Nat} (hI : Inv s)
    (h : step s (.ldBottom t x mo) = some s') : Inv s' := by
  simp only [step] at h
  split at h
  next v hpc =>
    have ht := tid_zero hI hpc (by simp [thiefOk]); subst ht
    have ho := hI.owner; rw [hpc] at ho; simp only [ownerOk] at ho
    split at h <;> simp at h
    subst h
    apply inv_local hI 0 <;> try local_side
    · intro _; simp [ownerOk]; omega
    · intro hh; exact absurd rfl hh
  next hpc =>
    have ht := tid_zero hI hpc (by simp [thiefOk]); subst ht
    have ho := hI.owner; rw [hpc] at ho; simp only [ownerOk] at ho
    split at h <;> simp at h
    subst h
    apply inv_local hI 0 <;> try local_side
    · intro _; simp [ownerOk]; omega
    · intro hh; exact absurd rfl hh
  next tt hpc =>
    have ht := tid_ne_zero hI hpc (by simp [ownerOk])
    have hth := hI.thief t ht; rw [hpc] at hth; simp only [thiefOk] at hth
    split at h <;> simp at h
    subst h
    rename_i hc
    have hble := hI.ble
    have hwin := @owner_window _ _ _ _ _ _ _ _ _ hI.owner
    apply inv_local hI t <;> try local_side
    · intro h0; exact absurd h0 ht
    · intro _
      simp [thiefOk]
      refine ⟨hth.1, hth.2, ?_, ?_⟩
      · omega
      · intro hle
        cases hw : (s.pc 0).popWindow
        · left; have := hwin hw; omega
        · right; rfl
  next => simp at h

theorem perm_snoc_move {a l : List Int} {x : Int} : (a ++ (l ++ [x])).Perm ((a ++ [x]) ++ l) := by
  rw [List.append_assoc]
  exact List.Perm.append_left a List.perm_append_comm

theorem inv_ldTop {s s' : St} {t : Nat} {x : Int} {mo : Nat} (hI : Inv s)
    (h : step s (.ldTop t x mo) = some s') : Inv s' := by
  simp only [step] at h
  split at h
  next v b hpc =>
    have ht := tid_zero hI hpc (by simp [thiefOk]); subst ht
    have ho := hI.owner; rw [hpc] at ho; simp only [ownerOk] at ho
    split at h <;> simp at h
    subst h
    rename_i hc
    have hcap := hI.cap
    apply inv_local hI 0 <;> try local_side
    · intro _; simp [ownerOk]; omega
    · intro hh; exact absurd rfl hh
  next b g hpc =>
    have ht := tid_zero hI hpc (by simp [thiefOk]); subst ht
    have ho := hI.owner; rw [hpc] at ho; simp only [ownerOk] at ho
    split at h
    next hc =>
      obtain ⟨hx, -⟩ := hc
      have htle := hI.tle
      split at h
      next hlt =>
        simp at h; subst h
        apply inv_local hI 0 <;> try local_side
        · intro _; simp [ownerOk]; omega
        · intro hh; exact absurd rfl hh
      next hnlt =>
        split at h
        next hlt =>
          -- commit: the owner takes element b without a CAS
          simp at h; subst h
          have hcap := hI.cap
          have hble := hI.ble
          constructor
          · simp [ownerOk]; omega
          · intro u hu
            simp [upd, hu]
            exact thiefOk_hb (hI.thief u hu) (fun _ => by omega)
          · simp; omega
          · simp; omega
          · simp; omega
          · have hp := hI.perm
            simp only [logical] at hp ⊢
            simp only [at_eq]
            have hn : (s.hb - s.top).toNat = (b - s.top).toNat + 1 := by omega
            rw [hn, seg_snoc] at hp
            have hb : s.top + ((b - s.top).toNat : Int) = b := by omega
            rw [hb] at hp
            rw [ho.2.2]
            exact hp.trans perm_snoc_move
        next hnlt2 =>
          simp at h; subst h
          apply inv_local hI 0 <;> try local_side
          · intro _; simp [ownerOk]; omega
          · intro hh; exact absurd rfl hh
    next => simp at h
  next hpc =>
    have ht := tid_ne_zero hI hpc (by simp [ownerOk])
    split at h <;> simp at h
    subst h
    rename_i hc
    apply inv_local hI t <;> try local_side
    · intro h0; exact absurd h0 ht
    · intro _; simp [thiefOk]; omega
  next => simp at h

theorem inv_ldArr {s s' : St} {t : Nat} {g : Nat} {mo : Nat} (hI : Inv s)
    (h : step s (.ldArr t g mo) = some s') : Inv s' := by
  simp only [step] at h
  split at h
  next v b tt hpc =>
    have ht := tid_zero hI hpc (by simp [thiefOk]); subst ht
    have ho := hI.owner; rw [hpc] at ho; simp only [ownerOk] at ho
    split at h
    next hc =>
      obtain ⟨hg, -⟩ := hc
      subst hg
      split at h
      next hgrow =>
        split at h
        next hlt =>
          simp at h; subst h
          apply inv_local hI 0 <;> try local_side
          · intro _; simp [ownerOk]
            refine ⟨ho.1, ho.2.1, ho.2.2.1, ho.2.2.2, hlt, ?_⟩
            intro j h1 h2; omega
          · intro hh; exact absurd rfl hh
        next hnlt =>
          simp at h; subst h
          apply inv_local hI 0 <;> try local_side
          · intro _; simp [ownerOk]
            refine ⟨ho.1, ho.2.1, ho.2.2.1, ho.2.2.2, ?_⟩
            intro j h1 h2; omega
          · intro hh; exact absurd rfl hh
      next hngrow =>
        simp at h; subst h
        apply inv_local hI 0 <;> try local_side
        · intro _; simp [ownerOk]; omega
        · intro hh; exact absurd rfl hh
    next => simp at h
  next b hpc =>
    have ht := tid_zero hI hpc (by simp [thiefOk]); subst ht
    have ho := hI.owner; rw [hpc] at ho; simp only [ownerOk] at ho
    split at h <;> simp at h
    subst h
    rename_i hc
    apply inv_local hI 0 <;> try local_side
    · intro _; simp [ownerOk]; omega
    · intro hh; exact absurd rfl hh
  next tt b hpc =>
    have ht := tid_ne_zero hI hpc (by simp [ownerOk])
    have hth := hI.thief t ht; rw [hpc] at hth; simp only [thiefOk] at hth
    split at h
    next hc =>
      obtain ⟨hg, -⟩ := hc
      subst hg
      split at h
      next hle =>
        simp at h; subst h
        apply inv_local hI t <;> try local_side
        · intro h0; exact absurd h0 ht
        · intro _; simp [thiefOk]; exact hth.2.2.2 hle
      next hnle =>
        simp at h; subst h
        apply inv_local hI t <;> try local_side
        · intro h0; exact absurd h0 ht
        · intro _; simp [thiefOk]
          refine ⟨hth.1, hth.2.1, fun hT => hth.2.2.1 (by omega) hT⟩
    next => simp at h
  next => simp at h

theorem inv_rdSlot {s s' : St} {t : Nat} {g : Nat} {i x : Int} (hI : Inv s)
    (h : step s (.rdSlot t g i x) = some s') : Inv s' := by
  simp only [step] at h
  split at h
  next v b tt g' j hpc =>
    have ht := tid_zero hI hpc (by simp [thiefOk]); subst ht
    have ho := hI.owner; rw [hpc] at ho; simp only [ownerOk] at ho
    split at h <;> simp at h
    subst h
    rename_i hc
    obtain ⟨hg, hi, hx⟩ := hc
    subst hg
    apply inv_local hI 0 <;> try local_side
    · intro _; simp [ownerOk]
      refine ⟨ho.1, ho.2.1, ho.2.2.1, ho.2.2.2.1, ho.2.2.2.2.1, ho.2.2.2.2.2.1, ho.2.2.2.2.2.2.1,
        ho.2.2.2.2.2.2.2, ?_⟩
      rw [hx, hi]; rfl
    · intro hh; exact absurd rfl hh
  next b g' tt hpc =>
    have ht := tid_zero hI hpc (by simp [thiefOk]); subst ht
    have ho := hI.owner; rw [hpc] at ho; simp only [ownerOk] at ho
    split at h
    next hc =>
      obtain ⟨hg, hi, hx⟩ := hc
      subst hg
      split at h
      next hlt =>
        simp at h; subst h
        apply inv_local hI 0 <;> try local_side
        · intro _; simp [ownerOk]; omega
        · intro hh; exact absurd rfl hh
      next hnlt =>
        simp at h; subst h
        apply inv_local hI 0 <;> try local_side
        · intro _; simp [ownerOk]
          obtain ⟨h1, h2, h3, h4, h5⟩ := ho
          refine ⟨by omega, h2, by omega, h3, h4, ?_⟩
          rw [hx, hi, ← h1]; rfl
        · intro hh; exact absurd rfl hh
    next => simp at h
  next tt g' hpc =>
    have ht := tid_ne_zero hI hpc (by simp [ownerOk])
    have hth := hI.thief t ht; rw [hpc] at hth; simp only [thiefOk] at hth
    split at h <;> simp at h
    subst h
    rename_i hc
    obtain ⟨hg, hi, hx⟩ := hc
    subst hg
    apply inv_local hI t <;> try local_side
    · intro h0; exact absurd h0 ht
    · intro _; simp [thiefOk]
      obtain ⟨h1, h2, h3, h4⟩ := hth
      refine ⟨h1, h2, h3, fun hT => ⟨(h4 hT).1, ?_⟩⟩
      rw [← (h4 hT).2, hx, hi]; rfl
  next => simp at h

theorem inv_wrSlot {s s' : St} {t : Nat} {g : Nat} {i x : Int} (hI : Inv s)
    (h : step s (.wrSlot t g i x) = some s') : Inv s' := by
  simp only [step] at h
  split at h
  next v b tt g' j y hpc =>
    -- grow: copy one element into the unpublished generation g' + 1
    have ht := tid_zero hI hpc (by simp [thiefOk]); subst ht
    have ho := hI.owner; rw [hpc] at ho; simp only [ownerOk] at ho
    obtain ⟨h1, h2, h3, h4, h5, h6, h7, h8, h9⟩ := ho
    subst h4
    have hszs := sz_succ (s.k0 + s.arr)
    have hszp := sz_pos (s.k0 + s.arr)
    split at h
    next hc =>
      obtain ⟨hg, hi, hx⟩ := hc
      subst hg; subst hx; subst hi
      -- facts about the new slot function
      have hold : ∀ k, atg s.k0 (setSlot s.slot (s.arr + 1) (idx (s.k0 + (s.arr + 1)) j) x) s.arr k
          = atg s.k0 s.slot s.arr k := fun k => atg_setSlot_gen (by omega)
      have hnew : ∀ k, tt ≤ k → k < j →
          atg s.k0 (setSlot s.slot (s.arr + 1) (idx (s.k0 + (s.arr + 1)) j) x) (s.arr + 1) k
          = atg s.k0 s.slot (s.arr + 1) k := by
        intro k hk1 hk2
        have e : s.k0 + (s.arr + 1) = s.k0 + s.arr + 1 := by omega
        exact atg_setSlot_idx (by rw [e]; omega) (by rw [e]; omega) (by omega)
      have hcopy : ∀ k, tt ≤ k → k < j + 1 →
          atg s.k0 (setSlot s.slot (s.arr + 1) (idx (s.k0 + (s.arr + 1)) j) x) (s.arr + 1) k
          = atg s.k0 (setSlot s.slot (s.arr + 1) (idx (s.k0 + (s.arr + 1)) j) x) s.arr k := by
        intro k hk1 hk2
        rw [hold]
        by_cases hkj : k = j
        · subst hkj; rw [atg_setSlot_same]; exact h9
        · rw [hnew k hk1 (by omega)]; exact h8 k hk1 (by omega)
      have hrest : Inv { s with slot := setSlot s.slot (s.arr + 1) (idx (s.k0 + (s.arr + 1)) j) x } →
          ∀ p, ownerOk s.k0 s.top s.bottom s.hb s.arr
              (setSlot s.slot (s.arr + 1) (idx (s.k0 + (s.arr + 1)) j) x) (s.raced 0) (s.wit 0) p →
          Inv { s with slot := setSlot s.slot (s.arr + 1) (idx (s.k0 + (s.arr + 1)) j) x,
                       pc := upd s.pc 0 p } := by
        intro hI' p hp
        apply inv_local hI' 0 <;> try local_side
        · intro _; simpa using hp
        · intro hh; exact absurd rfl hh
      have hI' : Inv { s with slot := setSlot s.slot (s.arr + 1) (idx (s.k0 + (s.arr + 1)) j) x } := by
        constructor
        · simp; rw [hpc]; simp only [ownerOk]
          refine ⟨h1, h2, h3, trivial, h5, h6, h7, ?_, ?_⟩
          · intro k hk1 hk2; rw [hold, hnew k hk1 hk2]; exact h8 k hk1 hk2
          · rw [hold]; exact h9
        · intro u hu; exact thiefOk_copyW (hI.thief u hu)
        · exact hI.tle
        · exact hI.ble
        · exact hI.cap
        · have : logical { s with slot := setSlot s.slot (s.arr + 1) (idx (s.k0 + (s.arr + 1)) j) x }
              = logical s := by
            simp only [logical]
            exact seg_congr (fun k _ _ => hold k)
          rw [this]; exact hI.perm
      split at h
      next hlt =>
        simp at h; subst h
        apply hrest hI'
        simp only [ownerOk]
        exact ⟨h1, h2, h3, trivial, h5, by omega, hlt, hcopy⟩
      next hnlt =>
        simp at h; subst h
        apply hrest hI'
        simp only [ownerOk]
        exact ⟨h1, h2, h3, trivial, h5, fun k hk1 hk2 => hcopy k hk1 (by omega)⟩
    next => simp at h
  next v b g' hpc =>
    -- put: write the new element below the published range
    have ht := tid_zero hI hpc (by simp [thiefOk]); subst ht
    have ho := hI.owner; rw [hpc] at ho; simp only [ownerOk] at ho
    obtain ⟨h1, h2, h3, h4⟩ := ho
    subst h3
    split at h <;> simp at h
    subst h
    rename_i hc
    obtain ⟨hg, hi, hx⟩ := hc
    subst hg; subst hx; subst hi
    have hbH : b = s.hb := by omega
    subst hbH
    have htle := hI.tle
    have hcap := hI.cap
    constructor
    · simp [ownerOk]
      refine ⟨h1, h2, h4, atg_setSlot_same⟩
    · intro u hu
      simp [upd, hu]
      exact thiefOk_put (hI.thief u hu) hcap
    · exact hI.tle
    · exact hI.ble
    · exact hI.cap
    · have : logical { s with slot := setSlot s.slot s.arr (idx (s.k0 + s.arr) s.hb) x,
                              pc := upd s.pc 0 (Pc.pushWritten x s.hb) } = logical s := by
        simp only [logical]
        apply seg_congr
        intro k hk1 hk2
        exact atg_setSlot_idx (by omega) (by omega) (by omega)
      rw [this]; exact hI.perm
  next => simp at h

theorem inv_stArr {s s' : St} {t : Nat} {g : Nat} {mo : Nat} (hI : Inv s)
    (h : step s (.stArr t g mo) = some s') : Inv s' := by
  simp only [step] at h
  split at h
  next v b tt g' hpc =>
    have ht := tid_zero hI hpc (by simp [thiefOk]); subst ht
    have ho := hI.owner; rw [hpc] at ho; simp only [ownerOk] at ho
    obtain ⟨h1, h2, h3, h4, h5, h6⟩ := ho
    subst h4
    split at h <;> simp at h
    subst h
    rename_i hc
    obtain ⟨hg, -⟩ := hc
    subst hg
    have hbH : b = s.hb := by omega
    subst hbH
    have hszs := sz_succ (s.k0 + s.arr)
    have hszp := sz_pos (s.k0 + s.arr)
    have e : s.k0 + (s.arr + 1) = s.k0 + s.arr + 1 := by omega
    have htle := hI.tle
    have hcap := hI.cap
    constructor
    · simp [ownerOk]; rw [e]; omega
    · intro u hu
      simp [upd, hu]
      exact thiefOk_publish (hI.thief u hu) h6 h3
    · exact hI.tle
    · exact hI.ble
    · show s.hb - s.top ≤ sz (s.k0 + (s.arr + 1)) - 1
      rw [e]; omega
    · have : logical { s with arr := s.arr + 1, pc := upd s.pc 0 (Pc.pushPut v s.hb (s.arr + 1)) }
          = logical s := by
        simp only [logical]
        apply seg_congr
        intro k hk1 hk2
        exact h6 k (by omega) (by omega)
      rw [this]; exact hI.perm
  next => simp at h

theorem inv_stBottom {s s' : St} {t : Nat} {x : Int} {mo : Nat} (hI : Inv s)
    (h : step s (.stBottom t x mo) = some s') : Inv s' := by
  simp only [step] at h
  split at h
  next v b hpc =>
    -- push_bottom publishes the new element
    have ht := tid_zero hI hpc (by simp [thiefOk]); subst ht
    have ho := hI.owner; rw [hpc] at ho; simp only [ownerOk] at ho
    obtain ⟨h1, h2, h3, h4⟩ := ho
    split at h <;> simp at h
    subst h
    rename_i hc
    obtain ⟨hx, -⟩ := hc
    subst hx
    have hbH : b = s.hb := by omega
    subst hbH
    have htle := hI.tle
    constructor
    · simp [ownerOk]
    · intro u hu
      simp [upd, hu]
      exact thiefOk_hb (hI.thief u hu) (fun _ => by omega)
    · simp; omega
    · simp
    · simp; omega
    · have hp := hI.perm
      simp only [logical] at hp ⊢
      have hn : (s.hb + 1 - s.top).toNat = (s.hb - s.top).toNat + 1 := by omega
      rw [hn, seg_snoc]
      have hb : s.top + ((s.hb - s.top).toNat : Int) = s.hb := by omega
      rw [hb, h4, ← List.append_assoc]
      exact List.Perm.append_right [v] hp
  next b g hpc =>
    -- pop_bottom lowers bottom (the seq_cst store)
    have ht := tid_zero hI hpc (by simp [thiefOk]); subst ht
    have ho := hI.owner; rw [hpc] at ho; simp only [ownerOk] at ho
    obtain ⟨h1, h2, h3⟩ := ho
    split at h <;> simp at h
    subst h
    rename_i hc
    obtain ⟨hx, -⟩ := hc
    subst hx
    constructor
    · simp [ownerOk]; omega
    · intro u hu
      simp [upd, hu]
      exact hI.thief u hu
    · exact hI.tle
    · simp; omega
    · exact hI.cap
    · exact hI.perm
  next tt hpc =>
    -- pop_bottom found the deque empty: restore bottom
    have ht := tid_zero hI hpc (by simp [thiefOk]); subst ht
    have ho := hI.owner; rw [hpc] at ho; simp only [ownerOk] at ho
    obtain ⟨h1, h2, h3, h4⟩ := ho
    split at h <;> simp at h
    subst h
    rename_i hc
    obtain ⟨hx, -⟩ := hc
    subst hx
    constructor
    · simp [ownerOk]; exact ⟨by omega, h4⟩
    · intro u hu
      simp [upd, hu]
      exact hI.thief u hu
    · exact hI.tle
    · simp; omega
    · exact hI.cap
    · exact hI.perm
  next tt r hpc =>
    -- pop_bottom after its CAS: bottom := t + 1
    have ht := tid_zero hI hpc (by simp [thiefOk]); subst ht
    have ho := hI.owner; rw [hpc] at ho; simp only [ownerOk] at ho
    obtain ⟨h1, h2, h3, h4, h5⟩ := ho
    split at h <;> simp at h
    subst h
    rename_i hc
    obtain ⟨hx, -⟩ := hc
    subst hx
    constructor
    · simp [ownerOk]; exact ⟨by omega, h4, fun h => absurd h h5⟩
    · intro u hu
      simp [upd, hu]
      exact hI.thief u hu
    · exact hI.tle
    · simp; omega
    · exact hI.cap
    · exact hI.perm
  next => simp at h

theorem inv_casTop {s s' : St} {t : Nat} {found exp des : Int} {ok : Bool} {mo : Nat} (hI : Inv s)
    (h : step s (.casTop t found exp des ok mo) = some s') : Inv s' := by
  simp only [step] at h
  split at h
  next b tt x hpc =>
    -- pop_bottom races for the last element
    have ht := tid_zero hI hpc (by simp [thiefOk]); subst ht
    have ho := hI.owner; rw [hpc] at ho; simp only [ownerOk] at ho
    obtain ⟨h1, h2, h3, h4, h5, h6⟩ := ho
    subst h1
    split at h
    next hc =>
      obtain ⟨hf, he, hd, hok, -⟩ := hc
      subst hf; subst he; subst hd
      have htle := hI.tle
      split at h
      next hwon =>
        simp at h; subst h
        simp [hwon] at hok
        have hcap := hI.cap
        constructor
        · simp [ownerOk]; omega
        · intro u hu
          have := thiefOk_top_succ (hI.thief u hu)
          simp [upd, hu]
          rw [← hok]; exact this
        · simp; omega
        · simp; omega
        · simp; omega
        · have hp := hI.perm
          simp only [logical] at hp ⊢
          have hn : (s.hb - s.top).toNat = 0 + 1 := by omega
          have hn' : (s.hb - (exp + 1)).toNat = 0 := by omega
          rw [hn] at hp
          rw [hn']
          simp only [seg] at hp ⊢
          rw [hok, ← h6] at hp
          simpa using hp
      next hlost =>
        simp at h; subst h
        simp [hlost] at hok
        apply inv_local hI 0 <;> try local_side
        · intro _; simp [ownerOk]
          refine ⟨h2, h3, by omega, ?_⟩
          cases hr : s.raced 0
          · exact absurd (h5 hr) hok
          · rfl
        · intro hh; exact absurd rfl hh
    next => simp at h
  next tt g x hpc =>
    -- a thief's CAS
    have ht := tid_ne_zero hI hpc (by simp [ownerOk])
    have hth := hI.thief t ht; rw [hpc] at hth; simp only [thiefOk] at hth
    obtain ⟨h1, h2, h3, h4⟩ := hth
    split at h
    next hc =>
      obtain ⟨hf, he, hd, hok, -⟩ := hc
      subst hf; subst he; subst hd
      split at h
      next hwon =>
        simp at h; subst h
        simp [hwon] at hok
        obtain ⟨h5, h6⟩ := h4 hok
        have hcap := hI.cap
        have hble := hI.ble
        constructor
        · have := ownerOk_top_succ hI.owner (by omega)
          simp [upd, Ne.symm ht]
          rw [← hok]; exact this
        · intro u hu
          by_cases hut : u = t
          · subst hut; simp [upd, thiefOk]
          · have := thiefOk_top_succ (hI.thief u hu)
            simp [upd, hut]
            rw [← hok]; exact this
        · simp; omega
        · exact hI.ble
        · simp; omega
        · have hp := hI.perm
          simp only [logical] at hp ⊢
          have hn : (s.hb - s.top).toNat = (s.hb - (exp + 1)).toNat + 1 := by omega
          rw [hn] at hp
          simp only [seg] at hp
          rw [hok, ← h6] at hp
          simpa using hp
      next hlost =>
        simp at h; subst h
        simp [hlost] at hok
        apply inv_local hI t <;> try local_side
        · intro h0; exact absurd h0 ht
        · intro _; simp [thiefOk]
          cases hr : s.raced t
          · exact absurd (h2 hr) hok
          · rfl
    next => simp at h
  next => simp at h

theorem inv_step {s s' : St} {e : Ev} (hI : Inv s) (h : step s e = some s') : Inv s' := by
  cases e with
  | callPush t v => exact inv_callPush hI h
  | retPush t => exact inv_retPush hI h
  | callPop t => exact inv_callPop hI h
  | retPop t r => exact inv_retPop hI h
  | callSteal t => exact inv_callSteal hI h
  | retSteal t r => exact inv_retSteal hI h
  | ldBottom t x mo => exact inv_ldBottom hI h
  | stBottom t x mo => exact inv_stBottom hI h
  | ldTop t x mo => exact inv_ldTop hI h
  | casTop t f e d ok mo => exact inv_casTop hI h
  | ldArr t g mo => exact inv_ldArr hI h
  | stArr t g mo => exact inv_stArr hI h
  | rdSlot t g i x => exact inv_rdSlot hI h
  | wrSlot t g i x => exact inv_wrSlot hI h

theorem inv_of_run {k0 : Nat} {es : List Ev} {s : St} (h : (sys k0).run es = some s) : Inv s :=
  Sys.inv_of_run (sys k0) Inv (inv_init k0) (fun _ _ _ hI hs => inv_step hI hs) h

/-! ### accounting: commit points (`taken`) versus API-level returns (`returned`) -/

/-- the value a thread has won but not yet handed back to its caller -/
def holdsPc (k0 : Nat) (sl : Nat → Int → Int) : Pc → Option Int
  | .popTake b g t => if t < b then some (atg k0 sl g b) else none
  | .popCased _ (.val x) => some x
  | .popDone (.val x) => some x
  | .stealDone (.val x) => some x
  | _ => none

def holds (s : St) (u : Nat) : Option Int := holdsPc s.k0 s.slot (s.pc u)

structure Acc (s : St) : Prop where
  mem : ∀ u x, (u, x) ∈ s.owed ↔ holds s u = some x
  nodup : s.owed.Nodup
  perm : s.taken.Perm (s.returned ++ s.owed.map Prod.snd)

theorem acc_init (k0 : Nat) : Acc (init k0) := by
  constructor <;> simp [init, holds, holdsPc]

theorem acc_of_holds {s s' : St} (hA : Acc s) (hO : s'.owed = s.owed) (hK : s'.taken = s.taken)
    (hR : s'.returned = s.returned) (hold : ∀ u, holds s' u = holds s u) : Acc s' := by
  constructor
  · intro u x; rw [hO, hold]; exact hA.mem u x
  · rw [hO]; exact hA.nodup
  · rw [hK, hR, hO]; exact hA.perm

theorem acc_local {s s' : St} (hA : Acc s) (t : Nat)
    (hk : s'.k0 = s.k0) (hS : s'.slot = s.slot) (hO : s'.owed = s.owed) (hK : s'.taken = s.taken)
    (hR : s'.returned = s.returned) (hpc : ∀ w, w ≠ t → s'.pc w = s.pc w)
    (hh : holdsPc s.k0 s.slot (s'.pc t) = holdsPc s.k0 s.slot (s.pc t)) : Acc s' := by
  apply acc_of_holds hA hO hK hR
  intro u
  unfold holds
  rw [hk, hS]
  by_cases hu : u = t
  · subst hu; exact hh
  · rw [hpc u hu]

/-- thread `t` wins the value `x` -/
theorem acc_commit {s s' : St} (hA : Acc s) (t : Nat) (x : Int)
    (hk : s'.k0 = s.k0) (hS : s'.slot = s.slot) (hO : s'.owed = s.owed ++ [(t, x)])
    (hK : s'.taken = s.taken ++ [x]) (hR : s'.returned = s.returned)
    (hpc : ∀ w, w ≠ t → s'.pc w = s.pc w)
    (hold : holdsPc s.k0 s.slot (s.pc t) = none)
    (hnew : holdsPc s.k0 s.slot (s'.pc t) = some x) : Acc s' := by
  have hnot : ∀ y, (t, y) ∉ s.owed := by
    intro y hy
    have := (hA.mem t y).mp hy
    unfold holds at this; rw [hold] at this; cases this
  have hother : ∀ u, u ≠ t → holds s' u = holds s u := by
    intro u hu; unfold holds; rw [hk, hS, hpc u hu]
  have hself : holds s' t = some x := by unfold holds; rw [hk, hS]; exact hnew
  constructor
  · intro u y
    rw [hO, List.mem_append, List.mem_singleton]
    by_cases hu : u = t
    · subst hu
      rw [hself]
      constructor
      · rintro (h | h)
        · exact absurd h (hnot y)
        · cases h; rfl
      · intro h; cases h; right; rfl
    · rw [hother u hu, ← hA.mem u y]
      constructor
      · rintro (h | h)
        · exact h
        · cases h; exact absurd rfl hu
      · intro h; left; exact h
  · rw [hO]
    refine List.nodup_append.mpr ⟨hA.nodup, by simp, ?_⟩
    intro a ha b hb
    rw [List.mem_singleton] at hb; subst hb
    intro hab; subst hab; exact hnot x ha
  · rw [hK, hR, hO, List.map_append, ← List.append_assoc]
    exact List.Perm.append_right _ hA.perm

/-- thread `t` hands back what it holds (or EMPTY / ABORT) -/
theorem acc_ret {s s' : St} (hA : Acc s) (t : Nat) (r : Res)
    (hk : s'.k0 = s.k0) (hS : s'.slot = s.slot) (hO : s'.owed = r.settle t s.owed)
    (hK : s'.taken = s.taken) (hR : s'.returned = s.returned ++ r.vals)
    (hpc : ∀ w, w ≠ t → s'.pc w = s.pc w)
    (hold : holdsPc s.k0 s.slot (s.pc t) = (match r with | .val x => some x | _ => none))
    (hnew : holdsPc s.k0 s.slot (s'.pc t) = none) : Acc s' := by
  have hother : ∀ u, u ≠ t → holds s' u = holds s u := by
    intro u hu; unfold holds; rw [hk, hS, hpc u hu]
  have hself : holds s' t = none := by unfold holds; rw [hk, hS]; exact hnew
  cases r with
  | empty =>
    simp [Res.settle, Res.vals] at hO hR hold
    exact acc_local hA t hk hS hO hK hR hpc (by rw [hnew, hold])
  | abort =>
    simp [Res.settle, Res.vals] at hO hR hold
    exact acc_local hA t hk hS hO hK hR hpc (by rw [hnew, hold])
  | val x =>
    simp only [Res.settle, Res.vals] at hO hR hold
    have hin : (t, x) ∈ s.owed := (hA.mem t x).mpr (by unfold holds; exact hold)
    constructor
    · intro u y
      rw [hO, hA.nodup.mem_erase_iff]
      by_cases hu : u = t
      · subst hu
        rw [hself]
        constructor
        · rintro ⟨hne, hm⟩
          have := (hA.mem u y).mp hm
          unfold holds at this; rw [hold] at this
          cases this; exact absurd rfl hne
        · intro h; cases h
      · rw [hother u hu, ← hA.mem u y]
        constructor
        · rintro ⟨_, hm⟩; exact hm
        · intro hm; refine ⟨?_, hm⟩
          intro h; cases h; exact hu rfl
    · rw [hO]; exact hA.nodup.erase _
    · rw [hK, hR, hO]
      have h1 : s.owed.Perm ((t, x) :: s.owed.erase (t, x)) := List.perm_cons_erase hin
      have h2 := (h1.map Prod.snd)
      simp only [List.map_cons] at h2
      refine hA.perm.trans ?_
      refine (List.Perm.append_left s.returned h2).trans ?_
      simp

macro "acc_loc" hA:ident t:ident : tactic =>
  `(tactic| (apply acc_local $hA $t <;>
      first | rfl | (intro w hw; simp [upd, hw]) | (simp [upd, holdsPc, *])))

theorem acc_callPush {s s' : St} {t : Nat} {v : Int} (hA : Acc s)
    (h : step s (.callPush t v) = some s') : Acc s' := by
  simp only [step] at h; (repeat' split at h) <;> simp at h
  rename_i hc; obtain ⟨ht, hpc, -⟩ := hc
  rw [ht] at hpc; subst h; acc_loc hA t

theorem acc_callPop {s s' : St} {t : Nat} (hA : Acc s)
    (h : step s (.callPop t) = some s') : Acc s' := by
  simp only [step] at h; (repeat' split at h) <;> simp at h
  rename_i hc; obtain ⟨ht, hpc⟩ := hc
  rw [ht] at hpc; subst h; acc_loc hA t

theorem acc_callSteal {s s' : St} {t : Nat} (hA : Acc s)
    (h : step s (.callSteal t) = some s') : Acc s' := by
  simp only [step] at h; (repeat' split at h) <;> simp at h <;> subst h <;> acc_loc hA t

theorem acc_retPush {s s' : St} {t : Nat} (hA : Acc s)
    (h : step s (.retPush t) = some s') : Acc s' := by
  simp only [step] at h; (repeat' split at h) <;> simp at h <;> subst h <;> acc_loc hA t

theorem acc_ldBottom {s s' : St} {t : Nat} {x : Int} {mo : Nat} (hA : Acc s)
    (h : step s (.ldBottom t x mo) = some s') : Acc s' := by
  simp only [step] at h; (repeat' split at h) <;> simp at h <;> subst h <;> acc_loc hA t

theorem acc_ldArr {s s' : St} {t : Nat} {g : Nat} {mo : Nat} (hA : Acc s)
    (h : step s (.ldArr t g mo) = some s') : Acc s' := by
  simp only [step] at h; (repeat' split at h) <;> simp at h <;> subst h <;> acc_loc hA t

theorem acc_stArr {s s' : St} {t : Nat} {g : Nat} {mo : Nat} (hA : Acc s)
    (h : step s (.stArr t g mo) = some s') : Acc s' := by
  simp only [step] at h; (repeat' split at h) <;> simp at h <;> subst h <;> acc_loc hA t

theorem acc_stBottom {s s' : St} {t : Nat} {x : Int} {mo : Nat} (hA : Acc s)
    (h : step s (.stBottom t x mo) = some s') : Acc s' := by
  simp only [step] at h
  split at h
  next => (repeat' split at h) <;> simp at h <;> subst h <;> acc_loc hA t
  next => (repeat' split at h) <;> simp at h <;> subst h <;> acc_loc hA t
  next => (repeat' split at h) <;> simp at h <;> subst h <;> acc_loc hA t
  next tt r hpc =>
    (repeat' split at h) <;> simp at h
    subst h
    cases r <;> acc_loc hA t
  next => simp at h

theorem acc_rdSlot {s s' : St} {t : Nat} {g : Nat} {i x : Int} (hA : Acc s)
    (h : step s (.rdSlot t g i x) = some s') : Acc s' := by
  simp only [step] at h
  split at h
  next => (repeat' split at h) <;> simp at h <;> subst h <;> acc_loc hA t
  next b g' tt hpc =>
    split at h
    next hc =>
      obtain ⟨hg, hi, hx⟩ := hc
      subst hg
      split at h
      next hlt =>
        simp at h; subst h
        apply acc_local hA t <;> first | rfl | (intro w hw; simp [upd, hw]) | skip
        simp [upd, holdsPc, hpc, hlt, atg, hx, hi]
      next hnlt =>
        simp at h; subst h
        acc_loc hA t
    next => simp at h
  next => (repeat' split at h) <;> simp at h <;> subst h <;> acc_loc hA t
  next => simp at h

theorem acc_ldTop {s s' : St} {t : Nat} {x : Int} {mo : Nat} (hA : Acc s)
    (h : step s (.ldTop t x mo) = some s') : Acc s' := by
  simp only [step] at h
  split at h
  next => (repeat' split at h) <;> simp at h <;> subst h <;> acc_loc hA t
  next b g hpc =>
    split at h
    next hc =>
      split at h
      next hlt => simp at h; subst h; acc_loc hA t
      next hnlt =>
        split at h
        next hlt =>
          simp at h; subst h
          apply acc_commit hA t (s.at g b) <;> first | rfl | (intro w hw; simp [upd, hw]) | skip
          · simp [hpc, holdsPc]
          · simp [upd, holdsPc, hlt, at_eq]
        next hnlt2 =>
          simp at h; subst h
          apply acc_local hA t <;> first | rfl | (intro w hw; simp [upd, hw]) | skip
          simp [upd, holdsPc, hpc]; omega
    next => simp at h
  next => (repeat' split at h) <;> simp at h <;> subst h <;> acc_loc hA t
  next => simp at h

theorem acc_casTop {s s' : St} {t : Nat} {found exp des : Int} {ok : Bool} {mo : Nat} (hA : Acc s)
    (h : step s (.casTop t found exp des ok mo) = some s') : Acc s' := by
  simp only [step] at h
  split at h
  next b tt x hpc =>
    split at h
    next hc =>
      split at h
      next hwon =>
        simp at h; subst h
        apply acc_commit hA t x <;> first | rfl | (intro w hw; simp [upd, hw]) | skip
        · simp [hpc, holdsPc]
        · simp [upd, holdsPc]
      next hlost => simp at h; subst h; acc_loc hA t
    next => simp at h
  next tt g x hpc =>
    split at h
    next hc =>
      split at h
      next hwon =>
        simp at h; subst h
        apply acc_commit hA t x <;> first | rfl | (intro w hw; simp [upd, hw]) | skip
        · simp [hpc, holdsPc]
        · simp [upd, holdsPc]
      next hlost => simp at h; subst h; acc_loc hA t
    next => simp at h
  next => simp at h

theorem acc_retPop {s s' : St} {t : Nat} {r : Int} (hA : Acc s)
    (h : step s (.retPop t r) = some s') : Acc s' := by
  simp only [step] at h
  split at h
  next r' hpc =>
    split at h <;> simp at h
    subst h
    apply acc_ret hA t r' <;> first | rfl | (intro w hw; simp [upd, hw]) | skip
    · cases r' <;> simp [hpc, holdsPc]
    · simp [upd, holdsPc]
  next => simp at h

theorem acc_retSteal {s s' : St} {t : Nat} {r : Int} (hA : Acc s)
    (h : step s (.retSteal t r) = some s') : Acc s' := by
  simp only [step] at h
  split at h
  next r' hpc =>
    split at h <;> simp at h
    subst h
    apply acc_ret hA t r' <;> first | rfl | (intro w hw; simp [upd, hw]) | skip
    · cases r' <;> simp [hpc, holdsPc]
    · simp [upd, holdsPc]
  next => simp at h

/-- slot writes happen only while the owner is inside push_bottom: nobody holds a value whose
    identity depends on a slot -/
theorem acc_wrSlot {s s' : St} {t : Nat} {g : Nat} {i x : Int} (hI : Inv s) (hA : Acc s)
    (h : step s (.wrSlot t g i x) = some s') : Acc s' := by
  have thief_indep : ∀ u, u ≠ 0 → ∀ sl, holdsPc s.k0 sl (s.pc u) = holdsPc s.k0 s.slot (s.pc u) := by
    intro u hu sl
    have := hI.thief u hu
    cases hp : s.pc u <;> simp [hp, thiefOk] at this <;> (first | rfl | (rename_i r; cases r <;> rfl))
  simp only [step] at h
  split at h
  next v b tt g' j y hpc =>
    have ht := tid_zero hI hpc (by simp [thiefOk]); subst ht
    (repeat' split at h) <;> simp at h <;> subst h <;>
    · apply acc_of_holds hA (by rfl) (by rfl) (by rfl)
      intro u
      by_cases hu : u = 0
      · subst hu; simp [holds, upd, hpc, holdsPc]
      · simp only [holds, upd, hu, if_false]; exact thief_indep u hu _
  next v b g' hpc =>
    have ht := tid_zero hI hpc (by simp [thiefOk]); subst ht
    (repeat' split at h) <;> simp at h <;> subst h <;>
    · apply acc_of_holds hA (by rfl) (by rfl) (by rfl)
      intro u
      by_cases hu : u = 0
      · subst hu; simp [holds, upd, hpc, holdsPc]
      · simp only [holds, upd, hu, if_false]; exact thief_indep u hu _
  next => simp at h

theorem acc_step {s s' : St} {e : Ev} (hI : Inv s) (hA : Acc s) (h : step s e = some s') : Acc s' := by
  cases e with
  | callPush t v => exact acc_callPush hA h
  | retPush t => exact acc_retPush hA h
  | callPop t => exact acc_callPop hA h
  | retPop t r => exact acc_retPop hA h
  | callSteal t => exact acc_callSteal hA h
  | retSteal t r => exact acc_retSteal hA h
  | ldBottom t x mo => exact acc_ldBottom hA h
  | stBottom t x mo => exact acc_stBottom hA h
  | ldTop t x mo => exact acc_ldTop hA h
  | casTop t f e d ok mo => exact acc_casTop hA h
  | ldArr t g mo => exact acc_ldArr hA h
  | stArr t g mo => exact acc_stArr hA h
  | rdSlot t g i x => exact acc_rdSlot hA h
  | wrSlot t g i x => exact acc_wrSlot hI hA h

theorem inv_acc_of_run {k0 : Nat} {es : List Ev} {s : St} (h : (sys k0).run es = some s) :
    Inv s ∧ Acc s :=
  Sys.inv_of_run (sys k0) (fun s => Inv s ∧ Acc s) ⟨inv_init k0, acc_init k0⟩
    (fun _ _ _ hIA hs => ⟨inv_step hIA.1 hs, acc_step hIA.1 hIA.2 hs⟩) h

end LibfiberVerif.Wsd
