/-
  Proof/RwLock.lean — the inductive invariant of Model/RwLock.lean (property C07).

  The invariant is split into four groups, each a predicate over just the state components
  it talks about (and over the fibers' pcs only through `view`):
    A  the state word against the ghost holder / waiter lists and grants (counts),
    B  the ghost lists against the pcs (who is in them),
    C  the abstract waiter queues against the pcs,
    D  the wakers (grants in flight, popped-not-yet-woken fibers, one consumer per queue).
  A step re-proves only the groups whose components it changes.
-/
import LibfiberVerif.Model.RwLock

namespace LibfiberVerif.RwLock

/-! ### the state word -/

theorem decode_encode (w : Word)
    (h : w.wl < 2 ∧ w.rc < 2097152 ∧ w.wr < 2097152 ∧ w.ww < 2097152) : decode (encode w) = w := by
  cases w
  simp only [decode, encode, Word.mk.injEq] at *
  omega

theorem encode_eq_zero (w : Word) :
    encode w = 0 ↔ (w.wl = 0 ∧ w.rc = 0 ∧ w.wr = 0 ∧ w.ww = 0) := by
  simp only [encode]; omega

theorem encode_inj (w w' : Word)
    (h : w.wl < 2 ∧ w.rc < 2097152 ∧ w.wr < 2097152 ∧ w.ww < 2097152)
    (h' : w'.wl < 2 ∧ w'.rc < 2097152 ∧ w'.wr < 2097152 ∧ w'.ww < 2097152)
    (he : encode w = encode w') : w = w' := by
  rw [← decode_encode w h, ← decode_encode w' h', he]

theorem fits_iff (w : Word) :
    w.fits = true ↔ (w.wl < 2 ∧ w.rc < 2097152 ∧ w.wr < 2097152 ∧ w.ww < 2097152) := by
  simp [Word.fits, and_assoc]

/-! ### views of program counters -/

structure View where
  /-- holds in mode b (identified holder, not parked) -/
  hold : Option Bool := none
  /-- counted as a waiter on queue b, not yet parked -/
  wait : Option Bool := none
  /-- in a wake loop on queue q, k pops to go, no pop in progress beyond reading -/
  pre : Option (Bool × Nat) := none
  /-- in a wake loop on queue q, k pops to go after this one, finishing the pop of fiber g -/
  post : Option (Bool × Nat × Nat) := none
  /-- `xchg(&tail)` done on queue b with node n as entry i, not yet linked -/
  xch : Option (Bool × Nat × Nat) := none
  /-- linked entry i of queue b -/
  prk : Option (Bool × Nat) := none
  /-- a try operation about to CAS from a snapshot that does not allow immediate acquisition
      (never happens: the code returns FIBER_ERROR before) -/
  bad : Bool := false

def view : Pc → View
  | .counted b => { wait := some b }
  | .waitSaving b => { wait := some b }
  | .waitGotNode b _ => { wait := some b }
  | .waitWroteData b _ => { wait := some b }
  | .waitClearedNode b _ => { wait := some b }
  | .pushCleared b _ => { wait := some b }
  | .pushXchgd b n _ i => { wait := some b, xch := some (b, n, i) }
  | .parked b i => { prk := some (b, i) }
  | .acquired b => { hold := some b }
  | .tryDone b true => { hold := some b }
  | .held b => { hold := some b }
  | .inCs b => { hold := some b }
  | .unlockCalled b => { hold := some b }
  | .unlockRead b _ => { hold := some b }
  | .tryRead b snap => { bad := !tryLegal b snap }
  | .wakeLoop q k => { pre := some (q, k) }
  | .popGotHead q k _ => { pre := some (q, k) }
  | .popGotNext q k _ _ => { pre := some (q, k) }
  | .popMoved q k _ _ g => { post := some (q, k, g) }
  | .popGotData q k _ _ g => { post := some (q, k, g) }
  | .popWrote q k _ g => { post := some (q, k, g) }
  | .wakeGotFiber q k _ g => { post := some (q, k, g) }
  | .wakeGaveNode q k _ g => { post := some (q, k, g) }
  | .wakeReadState q k g _ => { post := some (q, k, g) }
  | _ => {}

/-- the mode in which a fiber holds the lock: an identified holder, or a parked waiter whose
    queue entry has been popped (handed off, possibly not yet resumed) -/
def holdMode (hd : Bool → Nat) (v : View) : Option Bool :=
  match v.hold, v.prk with
  | some b, _ => some b
  | none, some (b, i) => if i < hd b then some b else none
  | none, none => none

/-- the queue a fiber is counted on as a waiter (from its counting CAS until it is popped) -/
def waitMode (hd : Bool → Nat) (v : View) : Option Bool :=
  match v.wait, v.prk with
  | some b, _ => some b
  | none, some (b, i) => if hd b ≤ i then some b else none
  | none, none => none

/-- the queue a fiber is consuming from (it is inside fiber_manager_wake_from_mpsc_queue) -/
def popQ (a : Option (Bool × Nat)) (b : Option (Bool × Nat × Nat)) : Option Bool :=
  match a, b with
  | some (q, _), _ => some q
  | none, some (q, _, _) => some q
  | none, none => none

def St.hm (s : St) : Nat → Option Bool := fun g => holdMode s.hd (view (s.pc g))
def St.wm (s : St) : Nat → Option Bool := fun g => waitMode s.hd (view (s.pc g))
def St.xch (s : St) : Nat → Option (Bool × Nat × Nat) := fun g => (view (s.pc g)).xch
def St.prk (s : St) : Nat → Option (Bool × Nat) := fun g => (view (s.pc g)).prk
def St.pre (s : St) : Nat → Option (Bool × Nat) := fun g => (view (s.pc g)).pre
def St.post (s : St) : Nat → Option (Bool × Nat × Nat) := fun g => (view (s.pc g)).post

/-- A: the word against the ghost counts -/
structure InvA (w : Word) (holders waiters : Bool → List Nat) (tok : Bool → Nat) : Prop where
  fits : w.wl < 2 ∧ w.rc < 2097152 ∧ w.wr < 2097152 ∧ w.ww < 2097152
  cnt_w : w.wl = (holders true).length + tok true
  cnt_r : w.rc = (holders false).length + tok false
  excl : w.wl = 1 → w.rc = 0
  wait_r : (waiters false).length = w.wr + tok false
  wait_w : (waiters true).length = w.ww + tok true
  ns_r : 0 < w.wr → w.wl = 1 ∨ 0 < w.ww
  ns_w : 0 < w.ww → w.wl = 1 ∨ 0 < w.rc

/-- B: who is in the ghost lists -/
structure InvB (holders waiters : Bool → List Nat) (hm wm : Nat → Option Bool) : Prop where
  hold : ∀ f b, f ∈ holders b ↔ hm f = some b
  hnd : ∀ b, (holders b).Nodup
  wait : ∀ f b, f ∈ waiters b ↔ wm f = some b
  wnd : ∀ b, (waiters b).Nodup

/-- C: the abstract queues -/
structure InvC (order : Bool → List (Nat × Nat)) (linked : Bool → Nat → Bool) (hd : Bool → Nat)
    (xch : Nat → Option (Bool × Nat × Nat)) (prk : Nat → Option (Bool × Nat)) : Prop where
  q1 : ∀ b i n g, hd b ≤ i → (order b)[i]? = some (n, g) →
    (xch g = some (b, n, i) ∧ linked b i = false) ∨ (prk g = some (b, i) ∧ linked b i = true)
  q2 : ∀ f b n i, xch f = some (b, n, i) → (order b)[i]? = some (n, f) ∧ hd b ≤ i ∧ linked b i = false
  q3 : ∀ f b i, prk f = some (b, i) → ∃ n, (order b)[i]? = some (n, f)
  q4 : ∀ b i, (order b).length ≤ i → linked b i = false
  q5 : ∀ b, hd b ≤ (order b).length

/-- D: the wakers -/
structure InvD (woken : Nat → Bool) (tok hd : Bool → Nat) (pre : Nat → Option (Bool × Nat))
    (post : Nat → Option (Bool × Nat × Nat)) (prk : Nat → Option (Bool × Nat)) : Prop where
  wk : ∀ g, woken g = true → ∃ b i, prk g = some (b, i) ∧ i < hd b
  p1 : ∀ p q k, pre p = some (q, k) → tok q = k ∧ 0 < k
  p2 : ∀ p q k g, post p = some (q, k, g) →
    tok q = k ∧ woken g = false ∧ ∃ i, prk g = some (q, i) ∧ i < hd q
  p3 : ∀ p p' q, popQ (pre p) (post p) = some q → popQ (pre p') (post p') = some q → p = p'
  p4 : ∀ q, 0 < tok q → ∃ p, popQ (pre p) (post p) = some q

structure Inv (s : St) : Prop where
  a : InvA s.w s.holders s.waiters s.tok
  b : InvB s.holders s.waiters s.hm s.wm
  c : InvC s.order s.linked s.hd s.xch s.prk
  d : InvD s.woken s.tok s.hd s.pre s.post s.prk
  e : ∀ f, (view (s.pc f)).bad = false

theorem bad_upd {pc : Nat → Pc} (h : ∀ g, (view (pc g)).bad = false) (f : Nat) (pc' : Pc)
    (h' : (view pc').bad = false) : ∀ g, (view (upd pc f pc' g)).bad = false := by
  intro g; by_cases hg : g = f
  · subst hg; simpa using h'
  · simpa [upd, hg] using h g

theorem InvB.congr {H W : Bool → List Nat} {hm wm hm' wm' : Nat → Option Bool}
    (h : InvB H W hm wm) (e1 : ∀ g, hm' g = hm g) (e2 : ∀ g, wm' g = wm g) : InvB H W hm' wm' := by
  have := funext e1; have := funext e2; subst_vars; exact h

theorem InvC.congr {o l hd} {x x' : Nat → Option (Bool × Nat × Nat)} {p p' : Nat → Option (Bool × Nat)}
    (h : InvC o l hd x p) (e1 : ∀ g, x' g = x g) (e2 : ∀ g, p' g = p g) : InvC o l hd x' p' := by
  have := funext e1; have := funext e2; subst_vars; exact h

theorem InvD.congr {wo t hd} {a a' : Nat → Option (Bool × Nat)} {b b' : Nat → Option (Bool × Nat × Nat)}
    {p p' : Nat → Option (Bool × Nat)}
    (h : InvD wo t hd a b p) (e1 : ∀ g, a' g = a g) (e2 : ∀ g, b' g = b g) (e3 : ∀ g, p' g = p g) :
    InvD wo t hd a' b' p' := by
  have := funext e1; have := funext e2; have := funext e3; subst_vars; exact h

theorem inv_init (stub : Bool → Nat) (nodeOf : Nat → Nat) : Inv (init stub nodeOf) := by
  refine ⟨?_, ?_, ?_, ?_, ?_⟩
  rotate_right
  · intro f; simp [init, view]
  all_goals constructor <;>
    simp [init, view, holdMode, waitMode, popQ, St.hm, St.wm, St.xch, St.prk, St.pre, St.post]

/-- `∀ g, proj s' g = proj s g` when s' differs from s in the pc of `f` only and the views agree -/
macro "same_view " f:ident hpc:ident : tactic =>
  `(tactic| (intro g; by_cases hg : g = $f
             · subst hg
               simp [St.hm, St.wm, St.xch, St.prk, St.pre, St.post, view, holdMode, waitMode, $hpc:ident]
             · simp [St.hm, St.wm, St.xch, St.prk, St.pre, St.post, upd, hg]))

/-- a step that only moves the acting fiber to a pc with the same view -/
theorem inv_local {s : St} (hI : Inv s) (f : Nat) (pc' : Pc) (hv : view pc' = view (s.pc f)) :
    Inv { s with pc := upd s.pc f pc' } := by
  have hv' : ∀ g, view (upd s.pc f pc' g) = view (s.pc g) := by
    intro g; by_cases h : g = f
    · subst h; simp [hv]
    · simp [upd, h]
  exact ⟨hI.a,
    hI.b.congr (fun g => by simp [St.hm, hv']) (fun g => by simp [St.wm, hv']),
    hI.c.congr (fun g => by simp [St.xch, hv']) (fun g => by simp [St.prk, hv']),
    hI.d.congr (fun g => by simp [St.pre, hv']) (fun g => by simp [St.post, hv'])
      (fun g => by simp [St.prk, hv']),
    fun g => by rw [hv']; exact hI.e g⟩

/-! ### list updates of group B -/

theorem InvB.cons_hold {H W : Bool → List Nat} {hm wm hm' : Nat → Option Bool}
    (h : InvB H W hm wm) (f : Nat) (b : Bool) (h0 : hm f = none) (h1 : hm' f = some b)
    (h2 : ∀ g, g ≠ f → hm' g = hm g) : InvB (updB H b (f :: H b)) W hm' wm := by
  have hnot : ∀ c, f ∉ H c := by intro c hc; have := (h.hold f c).1 hc; rw [h0] at this; simp at this
  refine ⟨?_, ?_, h.wait, h.wnd⟩
  · intro g c
    by_cases hg : g = f
    · subst hg; rw [h1]
      by_cases hc : c = b
      · subst hc; simp
      · simp only [updB_apply, hc, if_false]
        constructor
        · intro hx; exact absurd hx (hnot c)
        · intro hx; simp at hx; exact absurd hx.symm hc
    · rw [h2 g hg, ← h.hold g c]
      by_cases hc : c = b
      · subst hc; simp [hg]
      · simp only [updB_apply, hc, if_false]
  · intro c
    by_cases hc : c = b
    · subst hc; simp only [updB_same]; exact List.nodup_cons.2 ⟨hnot c, h.hnd c⟩
    · simp only [updB_apply, hc, if_false]; exact h.hnd c

theorem InvB.cons_wait {H W : Bool → List Nat} {hm wm wm' : Nat → Option Bool}
    (h : InvB H W hm wm) (f : Nat) (b : Bool) (h0 : wm f = none) (h1 : wm' f = some b)
    (h2 : ∀ g, g ≠ f → wm' g = wm g) : InvB H (updB W b (f :: W b)) hm wm' := by
  have h' : InvB W H wm hm := ⟨h.wait, h.wnd, h.hold, h.hnd⟩
  have := h'.cons_hold f b h0 h1 h2
  exact ⟨this.wait, this.wnd, this.hold, this.hnd⟩

theorem InvB.erase_hold {H W : Bool → List Nat} {hm wm hm' : Nat → Option Bool}
    (h : InvB H W hm wm) (f : Nat) (b : Bool) (h0 : hm f = some b) (h1 : hm' f = none)
    (h2 : ∀ g, g ≠ f → hm' g = hm g) : InvB (updB H b ((H b).erase f)) W hm' wm := by
  refine ⟨?_, ?_, h.wait, h.wnd⟩
  · intro g c
    by_cases hg : g = f
    · subst hg; rw [h1]
      by_cases hc : c = b
      · subst hc; simp only [updB_same]
        constructor
        · intro hx; have := ((h.hnd c).mem_erase_iff).1 hx; exact absurd rfl this.1
        · intro hx; simp at hx
      · simp only [updB_apply, hc, if_false]
        constructor
        · intro hx; have := (h.hold g c).1 hx; rw [h0] at this; simp at this; exact absurd this.symm hc
        · intro hx; simp at hx
    · rw [h2 g hg, ← h.hold g c]
      by_cases hc : c = b
      · subst hc; simp only [updB_same]; rw [(h.hnd c).mem_erase_iff]; simp [hg]
      · simp only [updB_apply, hc, if_false]
  · intro c
    by_cases hc : c = b
    · subst hc; simp only [updB_same]; exact (h.hnd c).erase f
    · simp only [updB_apply, hc, if_false]; exact h.hnd c

theorem InvB.erase_wait {H W : Bool → List Nat} {hm wm wm' : Nat → Option Bool}
    (h : InvB H W hm wm) (f : Nat) (b : Bool) (h0 : wm f = some b) (h1 : wm' f = none)
    (h2 : ∀ g, g ≠ f → wm' g = wm g) : InvB H (updB W b ((W b).erase f)) hm wm' := by
  have h' : InvB W H wm hm := ⟨h.wait, h.wnd, h.hold, h.hnd⟩
  have := h'.erase_hold f b h0 h1 h2
  exact ⟨this.wait, this.wnd, this.hold, this.hnd⟩

theorem InvB.hold_len {H W : Bool → List Nat} {hm wm : Nat → Option Bool}
    (h : InvB H W hm wm) {f : Nat} {b : Bool} (h0 : hm f = some b) : 0 < (H b).length :=
  List.length_pos_of_mem ((h.hold f b).2 h0)

theorem InvB.wait_len {H W : Bool → List Nat} {hm wm : Nat → Option Bool}
    (h : InvB H W hm wm) {f : Nat} {b : Bool} (h0 : wm f = some b) : 0 < (W b).length :=
  List.length_pos_of_mem ((h.wait f b).2 h0)

theorem len_le_one_unique {l : List Nat} (h : l.length ≤ 1) {a b : Nat} (ha : a ∈ l) (hb : b ∈ l) :
    a = b := by
  match l, h with
  | [x], _ => simp at ha hb; rw [ha, hb]
  | [], _ => simp at ha

/-! ### what the operations compute from a snapshot of a fitting word -/

theorem lockNew_enc (w : Word) (hf : w.wl < 2 ∧ w.rc < 2097152 ∧ w.wr < 2097152 ∧ w.ww < 2097152)
    (b : Bool) :
    lockNew b (encode w) =
      if b then
        if ¬(w.wl = 0 ∧ w.rc = 0 ∧ w.wr = 0 ∧ w.ww = 0) then ({ w with ww := w.ww + 1 }, true)
        else ({ w with wl := 1 }, false)
      else
        if w.ww ≠ 0 ∨ w.wl ≠ 0 ∨ w.wr ≠ 0 then ({ w with wr := w.wr + 1 }, true)
        else ({ w with rc := w.rc + 1 }, false) := by
  simp only [lockNew, decode_encode w hf, ne_eq, encode_eq_zero]

theorem tryLegal_enc (w : Word) (hf : w.wl < 2 ∧ w.rc < 2097152 ∧ w.wr < 2097152 ∧ w.ww < 2097152)
    (b : Bool) :
    tryLegal b (encode w) = true ↔
      (if b then (w.wl = 0 ∧ w.rc = 0 ∧ w.wr = 0 ∧ w.ww = 0) else (w.ww = 0 ∧ w.wl = 0 ∧ w.wr = 0)) := by
  cases b <;> simp [tryLegal, decode_encode w hf, encode_eq_zero, and_assoc]

theorem tryNew_enc (w : Word) (hf : w.wl < 2 ∧ w.rc < 2097152 ∧ w.wr < 2097152 ∧ w.ww < 2097152)
    (b : Bool) :
    tryNew b (encode w) = if b then { w with wl := 1 } else { w with rc := w.rc + 1 } := by
  simp only [tryNew, decode_encode w hf]

theorem unlockNew_enc (w : Word) (hf : w.wl < 2 ∧ w.rc < 2097152 ∧ w.wr < 2097152 ∧ w.ww < 2097152)
    (b : Bool) :
    unlockNew b (encode w) =
      if b then
        if w.ww ≠ 0 then ({ wl := 1, rc := w.rc, wr := w.wr, ww := w.ww - 1 }, some (true, 1))
        else if w.wr ≠ 0 then ({ wl := 0, rc := w.wr, wr := 0, ww := w.ww }, some (false, w.wr))
        else ({ w with wl := 0 }, none)
      else
        if (w.rc + 2097152 - 1) % 2097152 = 0 then
          if w.ww ≠ 0 then ({ wl := 1, rc := 0, wr := w.wr, ww := w.ww - 1 }, some (true, 1))
          else if w.wr ≠ 0 then ({ wl := w.wl, rc := w.wr, wr := 0, ww := w.ww }, some (false, w.wr))
          else ({ w with rc := 0 }, none)
        else ({ w with rc := (w.rc + 2097152 - 1) % 2097152 }, none) := by
  simp only [unlockNew, decode_encode w hf]

/-- group A across a releasing CAS, plus what makes the hand-off safe: no grant is pending on
    the target queue and nobody but the releaser is an identified holder in that mode -/
theorem unlock_A {w : Word} {H W : Bool → List Nat} {T : Bool → Nat} (hA : InvA w H W T)
    (b : Bool) (f : Nat) (hf : f ∈ H b) :
    match (unlockNew b (encode w)).2 with
    | none => InvA (unlockNew b (encode w)).1 (updB H b ((H b).erase f)) W T
    | some (q, n) =>
      InvA (unlockNew b (encode w)).1 (updB H b ((H b).erase f)) W (updB T q (T q + n)) ∧
        T q = 0 ∧ 0 < n ∧ (∀ g ∈ H q, g = f) := by
  have hpos := List.length_pos_of_mem hf
  have hl := List.length_erase_of_mem hf
  rw [unlockNew_enc w hA.fits b]
  obtain ⟨h1, h2, h3, h4, h5, h6, h7, h8⟩ := hA
  have nil_of : ∀ c, (H c).length = 0 → ∀ g ∈ H c, g = f := by
    intro c hc g hg; rw [List.length_eq_zero_iff.1 hc] at hg; simp at hg
  cases b
  · generalize hr : (w.rc + 2097152 - 1) % 2097152 = r
    have hr' : r = w.rc - 1 := by omega
    clear hr
    by_cases h0 : r = 0
    · by_cases hww : w.ww ≠ 0
      · simp only [Bool.false_eq_true, if_false, if_pos h0, if_pos hww]
        refine ⟨?_, by omega, by omega, nil_of true (by omega)⟩
        constructor <;> simp [updB] at * <;> omega
      · by_cases hwr : w.wr ≠ 0
        · exfalso; omega
        · simp only [Bool.false_eq_true, if_false, if_pos h0, if_neg hww, if_neg hwr]
          constructor <;> simp [updB] at * <;> omega
    · simp only [Bool.false_eq_true, if_false, if_neg h0]
      constructor <;> simp [updB] at * <;> omega
  · by_cases hww : w.ww ≠ 0
    · simp only [if_true, if_pos hww]
      refine ⟨?_, by omega, by omega, ?_⟩
      · constructor <;> simp [updB] at * <;> omega
      · intro g hg; exact len_le_one_unique (by omega) hg hf
    · by_cases hwr : w.wr ≠ 0
      · simp only [if_true, if_neg hww, if_pos hwr]
        refine ⟨?_, by omega, by omega, nil_of false (by omega)⟩
        constructor <;> simp [updB] at * <;> omega
      · simp only [if_true, if_neg hww, if_neg hwr]
        constructor <;> simp [updB] at * <;> omega

/-! ### the steps that change a view -/

theorem view_post_pre (pc : Pc) {x} (h : (view pc).post = some x) : (view pc).pre = none := by
  unfold view at h ⊢; split at h <;> simp_all

theorem popQ_of_post {s : St} {p q k g} (h : s.post p = some (q, k, g)) :
    popQ (s.pre p) (s.post p) = some q := by
  have : s.pre p = none := view_post_pre _ h
  rw [this, h]; rfl

theorem popQ_of_pre {s : St} {p q k} (h : s.pre p = some (q, k)) :
    popQ (s.pre p) (s.post p) = some q := by
  rw [h]; rfl

theorem popQ_cases {a : Option (Bool × Nat)} {b : Option (Bool × Nat × Nat)} {q : Bool}
    (h : popQ a b = some q) : (∃ k, a = some (q, k)) ∨ (a = none ∧ ∃ k g, b = some (q, k, g)) := by
  unfold popQ at h; split at h
  · simp at h; subst h; exact Or.inl ⟨_, rfl⟩
  · simp at h; subst h; exact Or.inr ⟨rfl, _, _, rfl⟩
  · simp at h

theorem getElem?_lt {α : Type} {l : List α} {i : Nat} {a : α} (h : l[i]? = some a) : i < l.length := by
  obtain ⟨h, _⟩ := List.getElem?_eq_some_iff.1 h; exact h

/-- `prev = xchg(&tail, node)` -/
theorem inv_xchg {s s' : St} (hI : Inv s) (f : Nat) (b : Bool) (m old : Nat)
    (hpc : s.pc f = .pushCleared b m)
    (hs' : s' = { s with order := updB s.order b (s.order b ++ [(m, f)]),
                         pc := upd s.pc f (.pushXchgd b m old (s.order b).length) }) : Inv s' := by
  have hxf : s.xch f = none := by simp [St.xch, hpc, view]
  have hpf : s.prk f = none := by simp [St.prk, hpc, view]
  have hprk : ∀ g, s'.prk g = s.prk g := by subst hs'; same_view f hpc
  have hxch : ∀ g, g ≠ f → s'.xch g = s.xch g := by
    subst hs'; intro g hg; simp [St.xch, upd, hg]
  have hxchf : s'.xch f = some (b, m, (s.order b).length) := by subst hs'; simp [St.xch, view]
  have hC := hI.c
  have hE : ∀ g, (view (s'.pc g)).bad = false := by
    subst hs'; exact bad_upd hI.e _ _ (by simp [view])
  refine ⟨by subst hs'; exact hI.a,
    by subst hs'; exact hI.b.congr (by same_view f hpc) (by same_view f hpc), ?_,
    by subst hs'; exact hI.d.congr (by same_view f hpc) (by same_view f hpc) (by same_view f hpc), hE⟩
  have ho : s'.order = updB s.order b (s.order b ++ [(m, f)]) := by subst hs'; rfl
  have hl : s'.linked = s.linked := by subst hs'; rfl
  have hh : s'.hd = s.hd := by subst hs'; rfl
  rw [ho, hl, hh]
  constructor
  · -- q1
    intro c i n g hi hget
    simp only [hprk]
    by_cases hc : c = b
    · subst hc
      simp only [updB_same] at hget
      by_cases hlt : i < (s.order c).length
      · rw [List.getElem?_append_left hlt] at hget
        have h1 := hC.q1 c i n g hi hget
        have hne : g ≠ f := by rintro rfl; simp [hxf, hpf] at h1
        rw [hxch g hne]; exact h1
      · have hil : i = (s.order c).length := by
          have := getElem?_lt hget; simp at this; omega
        subst hil
        simp at hget
        obtain ⟨rfl, rfl⟩ := hget
        left; exact ⟨hxchf, hC.q4 _ _ (Nat.le_refl _)⟩
    · simp only [updB_apply, hc, if_false] at hget
      have h1 := hC.q1 c i n g hi hget
      have hne : g ≠ f := by rintro rfl; simp [hxf, hpf] at h1
      rw [hxch g hne]; exact h1
  · -- q2
    intro g c n i hx
    by_cases hg : g = f
    · subst hg
      rw [hxchf] at hx
      simp only [Option.some.injEq, Prod.mk.injEq] at hx
      obtain ⟨rfl, rfl, rfl⟩ := hx
      exact ⟨by simp, hC.q5 _, hC.q4 _ _ (Nat.le_refl _)⟩
    · rw [hxch g hg] at hx
      obtain ⟨h1, h2, h3⟩ := hC.q2 g c n i hx
      refine ⟨?_, h2, h3⟩
      by_cases hc : c = b
      · subst hc
        simp [List.getElem?_append_left (getElem?_lt h1), h1]
      · simp [updB_apply, hc, h1]
  · -- q3
    intro g c i hp
    rw [hprk] at hp
    obtain ⟨n, h1⟩ := hC.q3 g c i hp
    refine ⟨n, ?_⟩
    by_cases hc : c = b
    · subst hc
      simp [List.getElem?_append_left (getElem?_lt h1), h1]
    · simp [updB_apply, hc, h1]
  · -- q4
    intro c i hlen
    by_cases hc : c = b
    · subst hc; simp at hlen; exact hC.q4 _ _ (by omega)
    · simp only [updB_apply, hc, if_false] at hlen; exact hC.q4 _ _ hlen
  · -- q5
    intro c
    by_cases hc : c = b
    · subst hc; simp; have := hC.q5 c; omega
    · simp only [updB_apply, hc, if_false]; exact hC.q5 c

/-- `prev->next = node`: the entry becomes visible to the consumer, the fiber is parked -/
theorem inv_link {s s' : St} (hI : Inv s) (f : Nat) (b : Bool) (m p i : Nat)
    (hpc : s.pc f = .pushXchgd b m p i)
    (hs' : s' = { s with linked := updB s.linked b (upd (s.linked b) i true),
                         pc := upd s.pc f (.parked b i) }) : Inv s' := by
  have hC := hI.c
  have hD := hI.d
  have hxf : s.xch f = some (b, m, i) := by simp [St.xch, hpc, view]
  have hpf : s.prk f = none := by simp [St.prk, hpc, view]
  obtain ⟨hof, hhdi, hlf⟩ := hC.q2 f b m i hxf
  have hprk : ∀ g, g ≠ f → s'.prk g = s.prk g := by
    subst hs'; intro g hg; simp [St.prk, upd, hg]
  have hprkf : s'.prk f = some (b, i) := by subst hs'; simp [St.prk, view]
  have hxch : ∀ g, g ≠ f → s'.xch g = s.xch g := by
    subst hs'; intro g hg; simp [St.xch, upd, hg]
  have hxchf : s'.xch f = none := by subst hs'; simp [St.xch, view]
  have ho : s'.order = s.order := by subst hs'; rfl
  have hl : s'.linked = updB s.linked b (upd (s.linked b) i true) := by subst hs'; rfl
  have hh : s'.hd = s.hd := by subst hs'; rfl
  have hhm : ∀ g, s'.hm g = s.hm g := by
    subst hs'; intro g; by_cases hg : g = f
    · subst hg; simp [St.hm, view, holdMode, hpc]; omega
    · simp [St.hm, upd, hg]
  have hwm : ∀ g, s'.wm g = s.wm g := by
    subst hs'; intro g; by_cases hg : g = f
    · subst hg; simp [St.wm, view, waitMode, hpc]; omega
    · simp [St.wm, upd, hg]
  have hpre : ∀ g, s'.pre g = s.pre g := by subst hs'; same_view f hpc
  have hpost : ∀ g, s'.post g = s.post g := by subst hs'; same_view f hpc
  have hE : ∀ g, (view (s'.pc g)).bad = false := by
    subst hs'; exact bad_upd hI.e _ _ (by simp [view])
  refine ⟨by subst hs'; exact hI.a, ?_, ?_, ?_, hE⟩
  · have := hI.b.congr hhm hwm; subst hs'; exact this
  · rw [ho, hl, hh]
    constructor
    · -- q1
      intro c j n g hj hget
      have h1 := hC.q1 c j n g hj hget
      by_cases hcj : c = b ∧ j = i
      · obtain ⟨rfl, rfl⟩ := hcj
        rw [hof] at hget
        simp only [Option.some.injEq, Prod.mk.injEq] at hget
        obtain ⟨rfl, rfl⟩ := hget
        right; exact ⟨hprkf, by simp⟩
      · have hne : g ≠ f := by
          rintro rfl
          rcases h1 with ⟨h1, _⟩ | ⟨h1, _⟩
          · rw [hxf] at h1; simp only [Option.some.injEq, Prod.mk.injEq] at h1; exact hcj ⟨h1.1.symm, h1.2.2.symm⟩
          · rw [hpf] at h1; simp at h1
        rw [hxch g hne, hprk g hne]
        have hlk : updB s.linked b (upd (s.linked b) i true) c j = s.linked c j := by
          simp only [updB_apply]; split
          · next hcb => subst hcb; simp only [upd]; split
                        · next hji => exact absurd ⟨rfl, hji⟩ hcj
                        · rfl
          · rfl
        rw [hlk]; exact h1
    · -- q2
      intro g c n j hx
      have hg : g ≠ f := by rintro rfl; rw [hxchf] at hx; simp at hx
      rw [hxch g hg] at hx
      obtain ⟨h1, h2, h3⟩ := hC.q2 g c n j hx
      refine ⟨h1, h2, ?_⟩
      have hcj : ¬ (c = b ∧ j = i) := by
        rintro ⟨rfl, rfl⟩; rw [hof] at h1; simp at h1; exact hg h1.2.symm
      simp only [updB_apply]; split
      · next hcb => subst hcb; simp only [upd]; split
                    · next hji => exact absurd ⟨rfl, hji⟩ hcj
                    · exact h3
      · exact h3
    · -- q3
      intro g c j hp
      by_cases hg : g = f
      · subst hg; rw [hprkf] at hp; simp only [Option.some.injEq, Prod.mk.injEq] at hp
        obtain ⟨rfl, rfl⟩ := hp; exact ⟨m, hof⟩
      · rw [hprk g hg] at hp; exact hC.q3 g c j hp
    · -- q4
      intro c j hlen
      have h4 := hC.q4 c j hlen
      have hcj : ¬ (c = b ∧ j = i) := by
        rintro ⟨rfl, rfl⟩; have := getElem?_lt hof; omega
      simp only [updB_apply]; split
      · next hcb => subst hcb; simp only [upd]; split
                    · next hji => exact absurd ⟨rfl, hji⟩ hcj
                    · exact h4
      · exact h4
    · exact hC.q5
  · have hwo : s'.woken = s.woken := by subst hs'; rfl
    have ht : s'.tok = s.tok := by subst hs'; rfl
    rw [hwo, ht, hh]
    have hD' := hD.congr hpre hpost (fun g => rfl)
    constructor
    · -- wk
      intro g hw
      obtain ⟨c, j, h1, h2⟩ := hD.wk g hw
      have hg : g ≠ f := by rintro rfl; rw [hpf] at h1; simp at h1
      exact ⟨c, j, by rw [hprk g hg]; exact h1, h2⟩
    · exact hD'.p1
    · intro q' c k g hp
      obtain ⟨h1, h2, j, h3, h4⟩ := hD'.p2 q' c k g hp
      have hg : g ≠ f := by rintro rfl; rw [hpf] at h3; simp at h3
      exact ⟨h1, h2, j, by rw [hprk g hg]; exact h3, h4⟩
    · exact hD'.p3
    · exact hD'.p4

/-- a popped and woken waiter returns from rdlock / wrlock -/
theorem inv_resume {s s' : St} (hI : Inv s) (f : Nat) (b : Bool) (i : Nat)
    (hpc : s.pc f = .parked b i) (hi : i < s.hd b) (hwf : s.woken f = true)
    (hs' : s' = { s with woken := upd s.woken f false, pc := upd s.pc f (.held b) }) : Inv s' := by
  have hC := hI.c
  have hD := hI.d
  have hxf : s.xch f = none := by simp [St.xch, hpc, view]
  have hpf : s.prk f = some (b, i) := by simp [St.prk, hpc, view]
  have hprk : ∀ g, g ≠ f → s'.prk g = s.prk g := by
    subst hs'; intro g hg; simp [St.prk, upd, hg]
  have hprkf : s'.prk f = none := by subst hs'; simp [St.prk, view]
  have hxch : ∀ g, s'.xch g = s.xch g := by subst hs'; same_view f hpc
  have ho : s'.order = s.order := by subst hs'; rfl
  have hl : s'.linked = s.linked := by subst hs'; rfl
  have hh : s'.hd = s.hd := by subst hs'; rfl
  have hhm : ∀ g, s'.hm g = s.hm g := by
    subst hs'; intro g; by_cases hg : g = f
    · subst hg; simp [St.hm, view, holdMode, hpc, hi]
    · simp [St.hm, upd, hg]
  have hwm : ∀ g, s'.wm g = s.wm g := by
    subst hs'; intro g; by_cases hg : g = f
    · subst hg; simp [St.wm, view, waitMode, hpc]; omega
    · simp [St.wm, upd, hg]
  have hpre : ∀ g, s'.pre g = s.pre g := by subst hs'; same_view f hpc
  have hpost : ∀ g, s'.post g = s.post g := by subst hs'; same_view f hpc
  have hE : ∀ g, (view (s'.pc g)).bad = false := by
    subst hs'; exact bad_upd hI.e _ _ (by simp [view])
  refine ⟨by subst hs'; exact hI.a, ?_, ?_, ?_, hE⟩
  · have := hI.b.congr hhm hwm; subst hs'; exact this
  · rw [ho, hl, hh]
    have hC' := hC.congr hxch (fun g => rfl)
    constructor
    · intro c j n g hj hget
      have h1 := hC'.q1 c j n g hj hget
      have hne : g ≠ f := by
        rintro rfl
        rcases h1 with ⟨h1, _⟩ | ⟨h1, _⟩
        · rw [hxch, hxf] at h1; simp at h1
        · rw [hpf] at h1; simp only [Option.some.injEq, Prod.mk.injEq] at h1
          obtain ⟨rfl, rfl⟩ := h1; omega
      rw [hprk g hne]; exact h1
    · exact hC'.q2
    · intro g c j hp
      have hg : g ≠ f := by rintro rfl; rw [hprkf] at hp; simp at hp
      rw [hprk g hg] at hp; exact hC.q3 g c j hp
    · exact hC.q4
    · exact hC.q5
  · have hwo : s'.woken = upd s.woken f false := by subst hs'; rfl
    have ht : s'.tok = s.tok := by subst hs'; rfl
    rw [hwo, ht, hh]
    have hD' := hD.congr hpre hpost (fun g => rfl)
    constructor
    · intro g hw
      have hg : g ≠ f := by rintro rfl; simp at hw
      simp only [upd, hg, if_false] at hw
      obtain ⟨c, j, h1, h2⟩ := hD.wk g hw
      exact ⟨c, j, by rw [hprk g hg]; exact h1, h2⟩
    · exact hD'.p1
    · intro q' c k g hp
      obtain ⟨h1, h2, j, h3, h4⟩ := hD'.p2 q' c k g hp
      have hg : g ≠ f := by rintro rfl; rw [hwf] at h2; simp at h2
      exact ⟨h1, by simp [upd, hg, h2], j, by rw [hprk g hg]; exact h3, h4⟩
    · exact hD'.p3
    · exact hD'.p4

/-- the waker is done with the popped fiber g (read SAVING, or wrote READY): g may run -/
theorem inv_woke {s s' : St} (hI : Inv s) (f : Nat) (q : Bool) (k g : Nat)
    (hpost : s.post f = some (q, k, g)) (hpre : s.pre f = none)
    (hvf : (view (s.pc f)).hold = none ∧ (view (s.pc f)).wait = none ∧ (view (s.pc f)).xch = none
            ∧ (view (s.pc f)).prk = none)
    (hs' : s' = { s with woken := upd s.woken g true, pc := upd s.pc f (afterPop q k) }) : Inv s' := by
  have hD := hI.d
  obtain ⟨htk, hwg, i, hpg, hig⟩ := hD.p2 f q k g hpost
  have hva1 : (view (afterPop q k)).hold = none := by simp only [afterPop]; split <;> rfl
  have hva2 : (view (afterPop q k)).wait = none := by simp only [afterPop]; split <;> rfl
  have hva3 : (view (afterPop q k)).xch = none := by simp only [afterPop]; split <;> rfl
  have hva4 : (view (afterPop q k)).prk = none := by simp only [afterPop]; split <;> rfl
  have hva5 : (view (afterPop q k)).post = none := by simp only [afterPop]; split <;> rfl
  have hva6 : (view (afterPop q k)).pre = if k = 0 then none else some (q, k) := by
    simp only [afterPop]; split <;> rfl
  have hh : s'.hd = s.hd := by subst hs'; rfl
  have hprk : ∀ g', s'.prk g' = s.prk g' := by
    subst hs'; intro g'; by_cases hg : g' = f
    · subst hg; simp [St.prk, hva4, hvf.2.2.2]
    · simp [St.prk, upd, hg]
  have hxch : ∀ g', s'.xch g' = s.xch g' := by
    subst hs'; intro g'; by_cases hg : g' = f
    · subst hg; simp [St.xch, hva3, hvf.2.2.1]
    · simp [St.xch, upd, hg]
  have hhm : ∀ g', s'.hm g' = s.hm g' := by
    subst hs'; intro g'; by_cases hg : g' = f
    · subst hg; simp [St.hm, holdMode, hva1, hva4, hvf.1, hvf.2.2.2]
    · simp [St.hm, upd, hg]
  have hwm : ∀ g', s'.wm g' = s.wm g' := by
    subst hs'; intro g'; by_cases hg : g' = f
    · subst hg; simp [St.wm, waitMode, hva2, hva4, hvf.2.1, hvf.2.2.2]
    · simp [St.wm, upd, hg]
  have hpre' : ∀ p, p ≠ f → s'.pre p = s.pre p := by
    subst hs'; intro p hp; simp [St.pre, upd, hp]
  have hpost' : ∀ p, p ≠ f → s'.post p = s.post p := by
    subst hs'; intro p hp; simp [St.post, upd, hp]
  have hpref : s'.pre f = if k = 0 then none else some (q, k) := by
    subst hs'; simp [St.pre, hva6]
  have hpostf : s'.post f = none := by
    subst hs'; simp [St.post, hva5]
  have hE : ∀ g, (view (s'.pc g)).bad = false := by
    subst hs'; exact bad_upd hI.e _ _ (by simp only [afterPop]; split <;> rfl)
  refine ⟨by subst hs'; exact hI.a, ?_, ?_, ?_, hE⟩
  · have := hI.b.congr hhm hwm; subst hs'; exact this
  · have := hI.c.congr hxch hprk; subst hs'; exact this
  · have hwo : s'.woken = upd s.woken g true := by subst hs'; rfl
    have ht : s'.tok = s.tok := by subst hs'; rfl
    rw [hwo, ht, hh]
    constructor
    · intro g' hw
      by_cases hg : g' = g
      · subst hg; exact ⟨q, i, by rw [hprk]; exact hpg, hig⟩
      · simp only [upd, hg, if_false] at hw
        obtain ⟨c, j, h1, h2⟩ := hD.wk g' hw
        exact ⟨c, j, by rw [hprk]; exact h1, h2⟩
    · intro p c k' hp
      by_cases hpf : p = f
      · subst hpf; rw [hpref] at hp
        split at hp
        · simp at hp
        · simp only [Option.some.injEq, Prod.mk.injEq] at hp
          obtain ⟨rfl, rfl⟩ := hp; exact ⟨htk, by omega⟩
      · rw [hpre' p hpf] at hp; exact hD.p1 p c k' hp
    · intro p c k' g' hp
      have hpf : p ≠ f := by rintro rfl; rw [hpostf] at hp; simp at hp
      rw [hpost' p hpf] at hp
      obtain ⟨h1, h2, j, h3, h4⟩ := hD.p2 p c k' g' hp
      have hg : g' ≠ g := by
        rintro rfl
        rw [hpg] at h3; simp only [Option.some.injEq, Prod.mk.injEq] at h3
        obtain ⟨rfl, rfl⟩ := h3
        exact hpf (hD.p3 p f q (popQ_of_post hp) (popQ_of_post hpost))
      refine ⟨h1, by simp [upd, hg, h2], j, by rw [hprk]; exact h3, h4⟩
    · intro p p' c h1 h2
      have e : ∀ x, popQ (s'.pre x) (s'.post x) = some c → popQ (s.pre x) (s.post x) = some c := by
        intro x hx
        by_cases hxf : x = f
        · subst hxf; rw [hpref, hpostf] at hx; rw [hpre, hpost]
          split at hx <;> simp [popQ] at hx ⊢; exact hx
        · rw [hpre' x hxf, hpost' x hxf] at hx; exact hx
      exact hD.p3 p p' c (e p h1) (e p' h2)
    · intro c hc
      obtain ⟨p, hp⟩ := hD.p4 c hc
      by_cases hpf : p = f
      · subst hpf
        rw [hpre, hpost] at hp; simp [popQ] at hp; subst hp
        refine ⟨p, ?_⟩
        rw [hpref, hpostf]
        have : k ≠ 0 := by omega
        simp [this, popQ]
      · exact ⟨p, by rw [hpre' p hpf, hpost' p hpf]; exact hp⟩

/-- rdlock / wrlock CAS that counts the caller as a waiter -/
theorem inv_lock_wait {s s' : St} (hI : Inv s) (f : Nat) (b : Bool) (snap : Nat)
    (hpc : s.pc f = .lockRead b snap) (hsnap : snap = encode s.w)
    (hfit : (lockNew b snap).1.fits = true) (hwait : (lockNew b snap).2 = true)
    (hs' : s' = { s with w := (lockNew b snap).1, waiters := updB s.waiters b (f :: s.waiters b),
                         pc := upd s.pc f (.counted b) }) : Inv s' := by
  have hA := hI.a
  have hnew := lockNew_enc s.w hA.fits b
  rw [← hsnap] at hnew
  rw [fits_iff] at hfit
  have hwm0 : s.wm f = none := by simp [St.wm, hpc, view, waitMode]
  have hE : ∀ g, (view (s'.pc g)).bad = false := by
    subst hs'; exact bad_upd hI.e _ _ (by simp [view])
  refine ⟨?_, ?_, ?_, ?_, hE⟩
  · -- A
    subst hs'
    obtain ⟨h1, h2, h3, h4, h5, h6, h7, h8⟩ := hA
    cases b
    · simp only [Bool.false_eq_true, if_false] at hnew
      split at hnew
      · rw [hnew] at hfit ⊢
        constructor <;> simp [updB] at * <;> omega
      · rw [hnew] at hwait; simp at hwait
    · simp only [if_true] at hnew
      split at hnew
      · rw [hnew] at hfit ⊢
        constructor <;> simp [updB] at * <;> omega
      · rw [hnew] at hwait; simp at hwait
  · -- B
    have hb := hI.b.cons_wait (wm' := s'.wm) f b hwm0
      (by subst hs'; simp [St.wm, view, waitMode])
      (by subst hs'; intro g hg; simp [St.wm, upd, hg])
    have := hb.congr (hm' := s'.hm) (wm' := s'.wm) (by subst hs'; same_view f hpc) (fun g => rfl)
    subst hs'; exact this
  · have := hI.c.congr (x' := s'.xch) (p' := s'.prk) (by subst hs'; same_view f hpc) (by subst hs'; same_view f hpc)
    subst hs'; exact this
  · have := hI.d.congr (a' := s'.pre) (b' := s'.post) (p' := s'.prk) (by subst hs'; same_view f hpc)
      (by subst hs'; same_view f hpc) (by subst hs'; same_view f hpc)
    subst hs'; exact this

/-- rdlock / wrlock CAS that acquires directly -/
theorem inv_lock_acq {s s' : St} (hI : Inv s) (f : Nat) (b : Bool) (snap : Nat)
    (hpc : s.pc f = .lockRead b snap) (hsnap : snap = encode s.w)
    (hfit : (lockNew b snap).1.fits = true) (hwait : (lockNew b snap).2 = false)
    (hs' : s' = { s with w := (lockNew b snap).1, holders := updB s.holders b (f :: s.holders b),
                         pc := upd s.pc f (.acquired b) }) : Inv s' := by
  have hA := hI.a
  have hnew := lockNew_enc s.w hA.fits b
  rw [← hsnap] at hnew
  rw [fits_iff] at hfit
  have hhm0 : s.hm f = none := by simp [St.hm, hpc, view, holdMode]
  have hE : ∀ g, (view (s'.pc g)).bad = false := by
    subst hs'; exact bad_upd hI.e _ _ (by simp [view])
  refine ⟨?_, ?_, ?_, ?_, hE⟩
  · -- A
    subst hs'
    obtain ⟨h1, h2, h3, h4, h5, h6, h7, h8⟩ := hA
    cases b
    · simp only [Bool.false_eq_true, if_false] at hnew
      split at hnew
      · rw [hnew] at hwait; simp at hwait
      · rw [hnew] at hfit ⊢
        constructor <;> simp [updB] at * <;> omega
    · simp only [if_true] at hnew
      split at hnew
      · rw [hnew] at hwait; simp at hwait
      · rw [hnew] at hfit ⊢
        constructor <;> simp [updB] at * <;> omega
  · -- B
    have hb := hI.b.cons_hold (hm' := s'.hm) f b hhm0
      (by subst hs'; simp [St.hm, view, holdMode])
      (by subst hs'; intro g hg; simp [St.hm, upd, hg])
    have := hb.congr (hm' := s'.hm) (wm' := s'.wm) (fun g => rfl) (by subst hs'; same_view f hpc)
    subst hs'; exact this
  · have := hI.c.congr (x' := s'.xch) (p' := s'.prk) (by subst hs'; same_view f hpc) (by subst hs'; same_view f hpc)
    subst hs'; exact this
  · have := hI.d.congr (a' := s'.pre) (b' := s'.post) (p' := s'.prk) (by subst hs'; same_view f hpc)
      (by subst hs'; same_view f hpc) (by subst hs'; same_view f hpc)
    subst hs'; exact this

/-- successful tryrdlock / trywrlock CAS -/
theorem inv_try_acq {s s' : St} (hI : Inv s) (f : Nat) (b : Bool) (snap : Nat)
    (hpc : s.pc f = .tryRead b snap) (hsnap : snap = encode s.w)
    (hlegal : tryLegal b snap = true) (hfit : (tryNew b snap).fits = true)
    (hs' : s' = { s with w := tryNew b snap, holders := updB s.holders b (f :: s.holders b),
                         pc := upd s.pc f (.tryDone b true) }) : Inv s' := by
  have hA := hI.a
  have hnew := tryNew_enc s.w hA.fits b
  have hleg := tryLegal_enc s.w hA.fits b
  rw [← hsnap] at hnew hleg
  rw [fits_iff] at hfit
  have hhm0 : s.hm f = none := by simp [St.hm, hpc, view, holdMode]
  have hE : ∀ g, (view (s'.pc g)).bad = false := by
    subst hs'; exact bad_upd hI.e _ _ (by simp [view])
  refine ⟨?_, ?_, ?_, ?_, hE⟩
  · -- A
    subst hs'
    obtain ⟨h1, h2, h3, h4, h5, h6, h7, h8⟩ := hA
    have hl := hleg.1 hlegal
    cases b
    · simp only [Bool.false_eq_true, if_false] at hnew hl
      rw [hnew] at hfit ⊢
      constructor <;> simp [updB] at * <;> omega
    · simp only [if_true] at hnew hl
      rw [hnew] at hfit ⊢
      constructor <;> simp [updB] at * <;> omega
  · -- B
    have hb := hI.b.cons_hold (hm' := s'.hm) f b hhm0
      (by subst hs'; simp [St.hm, view, holdMode])
      (by subst hs'; intro g hg; simp [St.hm, upd, hg])
    have := hb.congr (hm' := s'.hm) (wm' := s'.wm) (fun g => rfl) (by subst hs'; same_view f hpc)
    subst hs'; exact this
  · have := hI.c.congr (x' := s'.xch) (p' := s'.prk) (by subst hs'; same_view f hpc) (by subst hs'; same_view f hpc)
    subst hs'; exact this
  · have := hI.d.congr (a' := s'.pre) (b' := s'.post) (p' := s'.prk) (by subst hs'; same_view f hpc)
      (by subst hs'; same_view f hpc) (by subst hs'; same_view f hpc)
    subst hs'; exact this

/-- releasing CAS without hand-off -/
theorem inv_unlock_plain {s s' : St} (hI : Inv s) (f : Nat) (b : Bool) (snap : Nat)
    (hpc : s.pc f = .unlockRead b snap) (hsnap : snap = encode s.w)
    (hnone : (unlockNew b snap).2 = none)
    (hs' : s' = { s with w := (unlockNew b snap).1,
                         holders := updB s.holders b ((s.holders b).erase f),
                         pc := upd s.pc f .unlockDone }) : Inv s' := by
  have hhm0 : s.hm f = some b := by simp [St.hm, hpc, view, holdMode]
  have hf : f ∈ s.holders b := (hI.b.hold f b).2 hhm0
  have hA := unlock_A hI.a b f hf
  rw [← hsnap, hnone] at hA
  have hE : ∀ g, (view (s'.pc g)).bad = false := by
    subst hs'; exact bad_upd hI.e _ _ (by simp [view])
  refine ⟨by subst hs'; exact hA, ?_, ?_, ?_, hE⟩
  · have hb := hI.b.erase_hold (hm' := s'.hm) f b hhm0
      (by subst hs'; simp [St.hm, view, holdMode])
      (by subst hs'; intro g hg; simp [St.hm, upd, hg])
    have := hb.congr (hm' := s'.hm) (wm' := s'.wm) (fun g => rfl) (by subst hs'; same_view f hpc)
    subst hs'; exact this
  · have := hI.c.congr (x' := s'.xch) (p' := s'.prk) (by subst hs'; same_view f hpc) (by subst hs'; same_view f hpc)
    subst hs'; exact this
  · have := hI.d.congr (a' := s'.pre) (b' := s'.post) (p' := s'.prk) (by subst hs'; same_view f hpc)
      (by subst hs'; same_view f hpc) (by subst hs'; same_view f hpc)
    subst hs'; exact this

/-- nobody is consuming from queue q when no grant is pending on it and the only identified
    holder in mode q (if any) is not parked -/
theorem no_popper {s : St} (hI : Inv s) (q : Bool) (f : Nat) (ht : s.tok q = 0)
    (hh : ∀ g ∈ s.holders q, g = f) (hpf : s.prk f = none) (p : Nat) :
    popQ (s.pre p) (s.post p) ≠ some q := by
  intro hp
  rcases popQ_cases hp with ⟨k, h1⟩ | ⟨_, k, g, h1⟩
  · have := hI.d.p1 p q k h1; omega
  · obtain ⟨_, _, i, h3, h4⟩ := hI.d.p2 p q k g h1
    have hg : s.hm g = some q := by
      have h3' : (view (s.pc g)).prk = some (q, i) := h3
      simp only [St.hm, holdMode]
      have hh' : (view (s.pc g)).hold = none := by
        revert h3'; unfold view; split <;> simp
      rw [hh', h3']; simp [h4]
    have := hh g ((hI.b.hold g q).2 hg)
    subst this; rw [hpf] at h3; simp at h3

/-- releasing CAS that hands the lock to `n` waiters of queue `q` -/
theorem inv_unlock_hand {s s' : St} (hI : Inv s) (f : Nat) (b : Bool) (snap : Nat) (q : Bool) (n : Nat)
    (hpc : s.pc f = .unlockRead b snap) (hsnap : snap = encode s.w)
    (hsome : (unlockNew b snap).2 = some (q, n))
    (hs' : s' = { s with w := (unlockNew b snap).1,
                         holders := updB s.holders b ((s.holders b).erase f),
                         tok := updB s.tok q (s.tok q + n),
                         pc := upd s.pc f (.wakeLoop q n) }) : Inv s' := by
  have hhm0 : s.hm f = some b := by simp [St.hm, hpc, view, holdMode]
  have hf : f ∈ s.holders b := (hI.b.hold f b).2 hhm0
  have hA := unlock_A hI.a b f hf
  rw [← hsnap, hsome] at hA
  obtain ⟨hA', ht0, hn, hall⟩ := hA
  have hpf : s.prk f = none := by simp [St.prk, hpc, view]
  have hnp := no_popper hI q f ht0 hall hpf
  have hD := hI.d
  have hpre' : ∀ p, p ≠ f → s'.pre p = s.pre p := by
    subst hs'; intro p hp; simp [St.pre, upd, hp]
  have hpost' : ∀ p, s'.post p = s.post p := by subst hs'; same_view f hpc
  have hprk' : ∀ p, s'.prk p = s.prk p := by subst hs'; same_view f hpc
  have hpref : s'.pre f = some (q, n) := by subst hs'; simp [St.pre, view]
  have hpref0 : s.pre f = none := by simp [St.pre, hpc, view]
  have hpostf0 : s.post f = none := by simp [St.post, hpc, view]
  have hpq : ∀ p, p ≠ f → popQ (s'.pre p) (s'.post p) = popQ (s.pre p) (s.post p) := by
    intro p hp; rw [hpre' p hp, hpost' p]
  have hpqf : popQ (s'.pre f) (s'.post f) = some q := by rw [hpref]; rfl
  have hE : ∀ g, (view (s'.pc g)).bad = false := by
    subst hs'; exact bad_upd hI.e _ _ (by simp [view])
  refine ⟨by subst hs'; exact hA', ?_, ?_, ?_, hE⟩
  · have hb := hI.b.erase_hold (hm' := s'.hm) f b hhm0
      (by subst hs'; simp [St.hm, view, holdMode])
      (by subst hs'; intro g hg; simp [St.hm, upd, hg])
    have := hb.congr (hm' := s'.hm) (wm' := s'.wm) (fun g => rfl) (by subst hs'; same_view f hpc)
    subst hs'; exact this
  · have := hI.c.congr (x' := s'.xch) (p' := s'.prk) (by subst hs'; same_view f hpc) (by subst hs'; same_view f hpc)
    subst hs'; exact this
  · have hwo : s'.woken = s.woken := by subst hs'; rfl
    have ht : s'.tok = updB s.tok q (s.tok q + n) := by subst hs'; rfl
    have hh : s'.hd = s.hd := by subst hs'; rfl
    rw [hwo, ht, hh]
    constructor
    · intro g hw
      obtain ⟨c, j, h1, h2⟩ := hD.wk g hw
      exact ⟨c, j, by rw [hprk']; exact h1, h2⟩
    · intro p c k hp
      by_cases hpf' : p = f
      · subst hpf'; rw [hpref] at hp; simp only [Option.some.injEq, Prod.mk.injEq] at hp
        obtain ⟨rfl, rfl⟩ := hp; simp [ht0, hn]
      · rw [hpre' p hpf'] at hp
        have hc : c ≠ q := by rintro rfl; exact hnp p (popQ_of_pre hp)
        simp only [updB_apply, hc, if_false]; exact hD.p1 p c k hp
    · intro p c k g hp
      rw [hpost' p] at hp
      have hc : c ≠ q := by rintro rfl; exact hnp p (popQ_of_post hp)
      obtain ⟨h1, h2, j, h3, h4⟩ := hD.p2 p c k g hp
      exact ⟨by simp only [updB_apply, hc, if_false]; exact h1, h2, j, by rw [hprk']; exact h3, h4⟩
    · intro p p' c h1 h2
      by_cases hp : p = f
      · by_cases hp' : p' = f
        · rw [hp, hp']
        · subst hp; rw [hpqf] at h1; simp at h1; subst h1
          rw [hpq p' hp'] at h2; exact absurd h2 (hnp p')
      · by_cases hp' : p' = f
        · subst hp'; rw [hpqf] at h2; simp at h2; subst h2
          rw [hpq p hp] at h1; exact absurd h1 (hnp p)
        · rw [hpq p hp] at h1; rw [hpq p' hp'] at h2; exact hD.p3 p p' c h1 h2
    · intro c hc
      by_cases hcq : c = q
      · subst hcq; exact ⟨f, hpqf⟩
      · simp only [updB_apply, hcq, if_false] at hc
        obtain ⟨p, hp⟩ := hD.p4 c hc
        have hpf' : p ≠ f := by rintro rfl; rw [hpref0, hpostf0] at hp; simp [popQ] at hp
        exact ⟨p, by rw [hpq p hpf']; exact hp⟩

theorem view_prk (pc : Pc) {x} (h : (view pc).prk = some x) :
    (view pc).hold = none ∧ (view pc).wait = none ∧ (view pc).xch = none ∧ (view pc).pre = none
      ∧ (view pc).post = none := by
  unfold view at h ⊢; split at h <;> simp_all

/-- `head = next`: the pop takes effect — the oldest linked waiter consumes one grant -/
theorem inv_pop {s s' : St} (hI : Inv s) (f : Nat) (q : Bool) (k h x n' g : Nat)
    (hpc : s.pc f = .popGotNext q k h x)
    (hget : (s.order q)[s.hd q]? = some (n', g)) (hlk : s.linked q (s.hd q) = true)
    (hs' : s' = { s with headNode := updB s.headNode q x, hd := updB s.hd q (s.hd q + 1),
                         tok := updB s.tok q (s.tok q - 1),
                         waiters := updB s.waiters q ((s.waiters q).erase g),
                         holders := updB s.holders q (g :: s.holders q),
                         pc := upd s.pc f (.popMoved q (k - 1) h x g) }) : Inv s' := by
  have hC := hI.c
  have hD := hI.d
  have hpref : s.pre f = some (q, k) := by simp [St.pre, hpc, view]
  have hpostf : s.post f = none := by simp [St.post, hpc, view]
  have hprkf : s.prk f = none := by simp [St.prk, hpc, view]
  obtain ⟨htk, hk⟩ := hD.p1 f q k hpref
  have hprkg : s.prk g = some (q, s.hd q) := by
    rcases hC.q1 q (s.hd q) n' g (Nat.le_refl _) hget with ⟨_, h2⟩ | ⟨h1, _⟩
    · rw [hlk] at h2; simp at h2
    · exact h1
  have hgf : g ≠ f := by rintro rfl; rw [hprkf] at hprkg; simp at hprkg
  obtain ⟨hvg1, hvg2, -, -, -⟩ := view_prk (s.pc g) hprkg
  have hhmg : s.hm g = none := by
    have h3 : (view (s.pc g)).prk = some (q, s.hd q) := hprkg
    simp [St.hm, holdMode, hvg1, h3]
  have hwmg : s.wm g = some q := by
    have h3 : (view (s.pc g)).prk = some (q, s.hd q) := hprkg
    simp [St.wm, waitMode, hvg2, h3]
  have hgw : g ∈ s.waiters q := (hI.b.wait g q).2 hwmg
  have hlen := List.length_erase_of_mem hgw
  have hpos := List.length_pos_of_mem hgw
  have hhd : s'.hd = updB s.hd q (s.hd q + 1) := by subst hs'; rfl
  have hprk' : ∀ p, s'.prk p = s.prk p := by subst hs'; same_view f hpc
  have hxch' : ∀ p, s'.xch p = s.xch p := by subst hs'; same_view f hpc
  have hpre' : ∀ p, p ≠ f → s'.pre p = s.pre p := by
    subst hs'; intro p hp; simp [St.pre, upd, hp]
  have hpost' : ∀ p, p ≠ f → s'.post p = s.post p := by
    subst hs'; intro p hp; simp [St.post, upd, hp]
  have hpref' : s'.pre f = none := by subst hs'; simp [St.pre, view]
  have hpostf' : s'.post f = some (q, k - 1, g) := by subst hs'; simp [St.post, view]
  have hpq : ∀ p, popQ (s'.pre p) (s'.post p) = popQ (s.pre p) (s.post p) := by
    intro p; by_cases hp : p = f
    · subst hp; rw [hpref', hpostf', hpref, hpostf]; rfl
    · rw [hpre' p hp, hpost' p hp]
  have honly : ∀ p c, popQ (s.pre p) (s.post p) = some c → p ≠ f → c ≠ q := by
    intro p c hp hpf hc; subst hc
    exact hpf (hD.p3 p f c hp (popQ_of_pre hpref))
  -- who moves between the lists: only g
  have hhm' : ∀ p, s'.hm p = if p = g then some q else s.hm p := by
    intro p
    by_cases hp : p = f
    · subst hp; subst hs'; simp [St.hm, view, holdMode, hpc, hgf.symm]
    · have hpcp : s'.pc p = s.pc p := by subst hs'; simp [upd, hp]
      simp only [St.hm, hpcp, hhd]
      by_cases hpg : p = g
      · subst hpg
        have h3 : (view (s.pc p)).prk = some (q, s.hd q) := hprkg
        simp [holdMode, hvg1, h3]
      · simp only [hpg, if_false, holdMode]
        cases hh : (view (s.pc p)).hold with
        | some b => rfl
        | none =>
          cases hpk : (view (s.pc p)).prk with
          | none => rfl
          | some bi =>
            obtain ⟨c, i⟩ := bi
            simp only [updB_apply]
            by_cases hc : c = q
            · subst hc; simp only [if_true]
              have hne : i ≠ s.hd c := by
                rintro rfl
                obtain ⟨n, hn⟩ := hC.q3 p c _ hpk
                rw [hget] at hn; simp at hn; exact hpg hn.2.symm
              by_cases hlt : i < s.hd c
              · simp [hlt, Nat.lt_succ_of_lt hlt]
              · have : ¬ i < s.hd c + 1 := by omega
                simp [hlt, this]
            · simp [hc]
  have hwm' : ∀ p, s'.wm p = if p = g then none else s.wm p := by
    intro p
    by_cases hp : p = f
    · subst hp; subst hs'; simp [St.wm, view, waitMode, hpc, hgf.symm]
    · have hpcp : s'.pc p = s.pc p := by subst hs'; simp [upd, hp]
      simp only [St.wm, hpcp, hhd]
      by_cases hpg : p = g
      · subst hpg
        have h3 : (view (s.pc p)).prk = some (q, s.hd q) := hprkg
        simp [waitMode, hvg2, h3]
      · simp only [hpg, if_false, waitMode]
        cases hh : (view (s.pc p)).wait with
        | some b => rfl
        | none =>
          cases hpk : (view (s.pc p)).prk with
          | none => rfl
          | some bi =>
            obtain ⟨c, i⟩ := bi
            simp only [updB_apply]
            by_cases hc : c = q
            · subst hc; simp only [if_true]
              have hne : i ≠ s.hd c := by
                rintro rfl
                obtain ⟨n, hn⟩ := hC.q3 p c _ hpk
                rw [hget] at hn; simp at hn; exact hpg hn.2.symm
              by_cases hlt : s.hd c ≤ i
              · have : s.hd c + 1 ≤ i := by omega
                simp [hlt, this]
              · have : ¬ s.hd c + 1 ≤ i := by omega
                simp [hlt, this]
            · simp [hc]
  have hE : ∀ g, (view (s'.pc g)).bad = false := by
    subst hs'; exact bad_upd hI.e _ _ (by simp [view])
  refine ⟨?_, ?_, ?_, ?_, hE⟩
  · -- A
    subst hs'
    obtain ⟨h1, h2, h3, h4, h5, h6, h7, h8⟩ := hI.a
    cases q <;> constructor <;> simp [updB] at * <;> omega
  · -- B
    have hb1 := hI.b.erase_wait (wm' := s'.wm) g q hwmg (by rw [hwm']; simp)
      (by intro p hp; rw [hwm']; simp [hp])
    have hb2 := hb1.cons_hold (hm' := s'.hm) g q hhmg (by rw [hhm']; simp)
      (by intro p hp; rw [hhm']; simp [hp])
    subst hs'; exact hb2
  · -- C
    have ho : s'.order = s.order := by subst hs'; rfl
    have hl : s'.linked = s.linked := by subst hs'; rfl
    rw [ho, hl, hhd]
    have hC' := hC.congr hxch' hprk'
    have hge : ∀ c, s.hd c ≤ updB s.hd q (s.hd q + 1) c := by
      intro c; simp only [updB_apply]; split
      · next hc => subst hc; omega
      · exact Nat.le_refl _
    constructor
    · intro c i n p hi hg'
      exact hC'.q1 c i n p (Nat.le_trans (hge c) hi) hg'
    · intro p c n i hx
      obtain ⟨h1, h2, h3⟩ := hC'.q2 p c n i hx
      refine ⟨h1, ?_, h3⟩
      simp only [updB_apply]; split
      · next hc =>
        subst hc
        have : i ≠ s.hd c := by rintro rfl; rw [hlk] at h3; simp at h3
        omega
      · exact h2
    · exact hC'.q3
    · exact hC'.q4
    · intro c
      simp only [updB_apply]; split
      · next hc => subst hc; have := getElem?_lt hget; omega
      · exact hC.q5 c
  · -- D
    have hwo : s'.woken = s.woken := by subst hs'; rfl
    have ht : s'.tok = updB s.tok q (s.tok q - 1) := by subst hs'; rfl
    rw [hwo, ht, hhd]
    have hge : ∀ c, s.hd c ≤ updB s.hd q (s.hd q + 1) c := by
      intro c; simp only [updB_apply]; split
      · next hc => subst hc; omega
      · exact Nat.le_refl _
    constructor
    · intro p hw
      obtain ⟨c, j, h1, h2⟩ := hD.wk p hw
      exact ⟨c, j, by rw [hprk']; exact h1, Nat.lt_of_lt_of_le h2 (hge c)⟩
    · intro p c k' hp
      have hpf : p ≠ f := by rintro rfl; rw [hpref'] at hp; simp at hp
      rw [hpre' p hpf] at hp
      have hc := honly p c (popQ_of_pre hp) hpf
      simp only [updB_apply, hc, if_false]; exact hD.p1 p c k' hp
    · intro p c k' g' hp
      by_cases hpf : p = f
      · subst hpf; rw [hpostf'] at hp; simp only [Option.some.injEq, Prod.mk.injEq] at hp
        obtain ⟨rfl, rfl, rfl⟩ := hp
        refine ⟨by simp [htk], ?_, s.hd q, by rw [hprk']; exact hprkg, by simp⟩
        cases hw : s.woken g with
        | false => rfl
        | true =>
          obtain ⟨c', j, h1, h2⟩ := hD.wk g hw
          rw [hprkg] at h1; simp only [Option.some.injEq, Prod.mk.injEq] at h1
          obtain ⟨rfl, rfl⟩ := h1; omega
      · rw [hpost' p hpf] at hp
        have hc := honly p c (popQ_of_post hp) hpf
        obtain ⟨h1, h2, j, h3, h4⟩ := hD.p2 p c k' g' hp
        refine ⟨by simp only [updB_apply, hc, if_false]; exact h1, h2, j, by rw [hprk']; exact h3, ?_⟩
        simp only [updB_apply, hc, if_false]; exact h4
    · intro p p' c h1 h2
      rw [hpq] at h1 h2; exact hD.p3 p p' c h1 h2
    · intro c hc
      by_cases hcq : c = q
      · subst hcq; exact ⟨f, by rw [hpq]; exact popQ_of_pre hpref⟩
      · simp only [updB_apply, hcq, if_false] at hc
        obtain ⟨p, hp⟩ := hD.p4 c hc
        exact ⟨p, by rw [hpq]; exact hp⟩

/-! ### every step preserves the invariant -/

-- `loc hpc`: finish a case whose step only moves the acting fiber inside one view
set_option hygiene false in
macro "loc2 " hpc:ident hc:ident : tactic =>
  `(tactic| (simp only [Option.some.injEq] at h; subst h; exact inv_local hI _ _ (by simp [view, $hpc:ident, $hc:ident])))

set_option hygiene false in
macro "loc " hpc:ident : tactic =>
  `(tactic| (simp only [Option.some.injEq] at h; subst h; exact inv_local hI _ _ (by simp [view, $hpc:ident])))

theorem inv_step {s s' : St} {e : Ev} (hI : Inv s) (h : step s e = some s') : Inv s' := by
  cases e with
  | callLock f b =>
    simp only [step] at h
    split at h
    · next hpc => loc hpc
    · simp at h
  | callTry f b =>
    simp only [step] at h
    split at h
    · next hpc => loc hpc
    · simp at h
  | callUnlock f b =>
    simp only [step] at h
    split at h
    · next hpc => loc hpc
    · simp at h
  | csEnter f b =>
    simp only [step] at h
    split at h
    · next hpc => loc hpc
    · simp at h
  | csExit f =>
    simp only [step] at h
    split at h
    · next hpc => loc hpc
    · simp at h
  | rBlob f v =>
    simp only [step] at h
    split at h
    · next hpc => split at h
                  · loc hpc
                  · simp at h
    · next hpc => split at h
                  · split at h
                    · next hl =>
                      simp only [Option.some.injEq] at h; subst h
                      exact inv_local hI _ _ (by simp [view, hpc, hl])
                    · loc hpc
                  · simp at h
    · next hpc => split at h
                  · loc hpc
                  · simp at h
    · simp at h
  | cas f found expected desired ok =>
    simp only [step] at h
    split at h
    · next b snap hpc =>
      split at h
      · next hc =>
        obtain ⟨he, hfo, hok, hde⟩ := hc
        split at h
        · next hokt =>
          have hsnap : snap = encode s.w := by
            subst hokt; simp at hok; rw [← he, ← hok, hfo]
          split at h
          · next hfit =>
            split at h
            · next hw =>
              simp only [Option.some.injEq] at h
              exact inv_lock_wait hI f b snap hpc hsnap hfit hw h.symm
            · next hw =>
              simp only [Option.some.injEq] at h
              exact inv_lock_acq hI f b snap hpc hsnap hfit (by simpa using hw) h.symm
          · simp at h
        · loc hpc
      · simp at h
    · next b snap hpc =>
      split at h
      · next hc =>
        obtain ⟨he, hfo, hok, hde⟩ := hc
        have hleg : tryLegal b snap = true := by
          have := hI.e f; rw [hpc] at this; simpa [view] using this
        split at h
        · next hokt =>
          have hsnap : snap = encode s.w := by
            subst hokt; simp at hok; rw [← he, ← hok, hfo]
          split at h
          · next hfit =>
            simp only [Option.some.injEq] at h
            exact inv_try_acq hI f b snap hpc hsnap hleg hfit h.symm
          · simp at h
        · simp only [Option.some.injEq] at h; subst h
          exact inv_local hI _ _ (by simp [view, hpc, hleg])
      · simp at h
    · next b snap hpc =>
      split at h
      · next hc =>
        obtain ⟨he, hfo, hok, hde⟩ := hc
        split at h
        · next hokt =>
          have hsnap : snap = encode s.w := by
            subst hokt; simp at hok; rw [← he, ← hok, hfo]
          split at h
          · next hfit =>
            split at h
            · next hn =>
              simp only [Option.some.injEq] at h
              exact inv_unlock_plain hI f b snap hpc hsnap hn h.symm
            · next q n hn =>
              simp only [Option.some.injEq] at h
              exact inv_unlock_hand hI f b snap q n hpc hsnap hn h.symm
          · simp at h
        · loc hpc
      · simp at h
    · simp at h
  | wState f g v =>
    simp only [step] at h
    split at h
    · next hpc => split at h
                  · loc hpc
                  · simp at h
    · next q k g' st hpc =>
      split at h
      · next hc =>
        obtain ⟨rfl, -, -⟩ := hc
        simp only [Option.some.injEq] at h
        exact inv_woke hI f q k g (by simp [St.post, hpc, view]) (by simp [St.pre, hpc, view])
          (by simp [hpc, view]) h.symm
      · simp at h
    · simp at h
  | rState f g v =>
    simp only [step] at h
    split at h
    · next q k hh g' hpc =>
      split at h
      · next hc =>
        obtain ⟨rfl, -⟩ := hc
        split at h
        · loc hpc
        · simp only [Option.some.injEq] at h
          exact inv_woke hI f q k g (by simp [St.post, hpc, view]) (by simp [St.pre, hpc, view])
            (by simp [hpc, view]) h.symm
      · simp at h
    · simp at h
  | rNode f g n =>
    simp only [step] at h
    split at h
    · next hpc => split at h
                  · loc hpc
                  · simp at h
    · simp at h
  | wNode f g n =>
    simp only [step] at h
    split at h
    · next hpc =>
      split at h
      · simp only [Option.some.injEq] at h; subst h
        exact inv_local (s := { s with fnode := upd s.fnode f 0 })
          ⟨hI.a, hI.b, hI.c, hI.d, hI.e⟩ _ _ (by simp [view, hpc])
      · simp at h
    · next hpc =>
      split at h
      · next hc =>
        simp only [Option.some.injEq] at h; subst h
        exact inv_local (s := { s with fnode := upd s.fnode g _ })
          ⟨hI.a, hI.b, hI.c, hI.d, hI.e⟩ _ _ (by simp [view, hpc, hc])
      · simp at h
    · simp at h
  | wData f n g =>
    simp only [step] at h
    split at h
    · next hpc => split at h
                  · loc hpc
                  · simp at h
    · next hpc => split at h
                  · next hc => loc2 hpc hc
                  · simp at h
    · simp at h
  | rData f n g =>
    simp only [step] at h
    split at h
    · next hpc => split at h
                  · next hc => loc2 hpc hc
                  · simp at h
    · next hpc => split at h
                  · next hc => loc2 hpc hc
                  · simp at h
    · simp at h
  | wNext f n x =>
    simp only [step] at h
    split at h
    · next hpc => split at h
                  · loc hpc
                  · simp at h
    · next b m p i hpc =>
      split at h
      · simp only [Option.some.injEq] at h
        exact inv_link hI f b m p i hpc h.symm
      · simp at h
    · simp at h
  | rNext f n x =>
    simp only [step] at h
    split at h
    · next hpc =>
      split at h
      · split at h
        · loc hpc
        · loc hpc
      · simp at h
    · simp at h
  | xchgTail f q old new =>
    simp only [step] at h
    split at h
    · next b m hpc =>
      split at h
      · next hc =>
        obtain ⟨rfl, rfl, rfl⟩ := hc
        simp only [Option.some.injEq] at h
        exact inv_xchg hI f _ _ _ hpc h.symm
      · simp at h
    · simp at h
  | retLock f b =>
    simp only [step] at h
    split at h
    · next hpc => split at h
                  · next hb => subst hb; loc hpc
                  · simp at h
    · next b' i hpc =>
      split at h
      · next hc =>
        obtain ⟨rfl, hi, hw⟩ := hc
        simp only [Option.some.injEq] at h
        exact inv_resume hI f b i hpc hi hw h.symm
      · simp at h
    · simp at h
  | retTry f b r =>
    simp only [step] at h
    split at h
    · next b' r' hpc =>
      split at h
      · next hc =>
        obtain ⟨rfl, rfl⟩ := hc
        simp only [Option.some.injEq] at h; subst h
        cases r <;> exact inv_local hI _ _ (by simp [view, hpc])
      · simp at h
    · simp at h
  | rHead f q n =>
    simp only [step] at h
    split at h
    · next hpc =>
      split at h
      · next hc => obtain ⟨rfl, -⟩ := hc; loc hpc
      · simp at h
    · simp at h
  | wHead f q n =>
    simp only [step] at h
    split at h
    · next q' k hh x hpc =>
      split at h
      · next hc =>
        obtain ⟨rfl, rfl⟩ := hc
        split at h
        · next n' g hget =>
          split at h
          · next hc2 =>
            obtain ⟨rfl, hlk⟩ := hc2
            simp only [Option.some.injEq] at h
            exact inv_pop hI f q k hh n' n' g hpc hget hlk h.symm
          · simp at h
        · simp at h
      · simp at h
    · simp at h
  | retUnlock f =>
    simp only [step] at h
    split at h
    · next hpc => loc hpc
    · simp at h

theorem inv_of_run {stub : Bool → Nat} {nodeOf : Nat → Nat} {es : List Ev} {s : St}
    (h : (sys stub nodeOf).run es = some s) : Inv s :=
  Sys.inv_of_run (sys stub nodeOf) Inv (inv_init stub nodeOf)
    (fun _ _ _ hI hs => inv_step hI hs) h

/-! ### readable predicates -/

/-- fiber f holds the lock in mode b (true = write): it acquired by its own CAS and has not
    yet released, or it is a parked waiter whose queue entry a releaser has popped
    (handed off — possibly not yet resumed) -/
def Holds (s : St) (f : Nat) (b : Bool) : Prop := holdMode s.hd (view (s.pc f)) = some b

/-- fiber f is counted as a waiter of queue b and has not been popped yet -/
def Waits (s : St) (f : Nat) (b : Bool) : Prop := waitMode s.hd (view (s.pc f)) = some b

/-- fiber p is consuming from queue q (it is inside fiber_manager_wake_from_mpsc_queue) -/
def Popping (s : St) (p : Nat) (q : Bool) : Prop := popQ (s.pre p) (s.post p) = some q

theorem holds_iff (s : St) (f : Nat) (b : Bool) :
    Holds s f b ↔ (s.pc f = .acquired b ∨ s.pc f = .tryDone b true ∨ s.pc f = .held b ∨
      s.pc f = .inCs b ∨ s.pc f = .unlockCalled b ∨ (∃ snap, s.pc f = .unlockRead b snap) ∨
      ∃ i, s.pc f = .parked b i ∧ i < s.hd b) := by
  unfold Holds
  cases hpc : s.pc f <;> simp [view, holdMode]
  case tryDone b' r => cases r <;> simp
  case parked b' i =>
    constructor
    · rintro ⟨h1, rfl⟩; exact ⟨i, ⟨rfl, rfl⟩, h1⟩
    · rintro ⟨j, ⟨rfl, rfl⟩, h⟩; exact ⟨h, rfl⟩

theorem waits_iff (s : St) (f : Nat) (b : Bool) :
    Waits s f b ↔ (s.pc f = .counted b ∨ s.pc f = .waitSaving b ∨ (∃ n, s.pc f = .waitGotNode b n) ∨
      (∃ n, s.pc f = .waitWroteData b n) ∨ (∃ n, s.pc f = .waitClearedNode b n) ∨
      (∃ n, s.pc f = .pushCleared b n) ∨ (∃ n p i, s.pc f = .pushXchgd b n p i) ∨
      ∃ i, s.pc f = .parked b i ∧ s.hd b ≤ i) := by
  unfold Waits
  cases hpc : s.pc f <;> simp [view, waitMode]
  case tryDone b' r => cases r <;> simp
  case parked b' i =>
    constructor
    · rintro ⟨h1, rfl⟩; exact ⟨i, ⟨rfl, rfl⟩, h1⟩
    · rintro ⟨j, ⟨rfl, rfl⟩, h⟩; exact ⟨h, rfl⟩

theorem popping_iff (s : St) (p : Nat) (q : Bool) :
    Popping s p q ↔ ((∃ k, s.pc p = .wakeLoop q k) ∨ (∃ k h, s.pc p = .popGotHead q k h) ∨
      (∃ k h x, s.pc p = .popGotNext q k h x) ∨ (∃ k h x g, s.pc p = .popMoved q k h x g) ∨
      (∃ k h x g, s.pc p = .popGotData q k h x g) ∨ (∃ k h g, s.pc p = .popWrote q k h g) ∨
      (∃ k h g, s.pc p = .wakeGotFiber q k h g) ∨ (∃ k h g, s.pc p = .wakeGaveNode q k h g) ∨
      ∃ k g st, s.pc p = .wakeReadState q k g st) := by
  unfold Popping St.pre St.post
  cases hpc : s.pc p <;> simp [view, popQ]
  case tryDone b' r => cases r <;> simp

/-! ### consequences of the invariant -/

theorem Inv.excl_lists {s : St} (hI : Inv s) :
    (s.holders true).length + s.tok true ≤ 1 ∧
    ((s.holders true).length + s.tok true = 1 → s.holders false = [] ∧ s.tok false = 0) := by
  obtain ⟨h1, h2, h3, h4, -, -, -, -⟩ := hI.a
  refine ⟨by omega, fun h => ?_⟩
  have : (s.holders false).length = 0 ∧ s.tok false = 0 := by omega
  exact ⟨List.length_eq_zero_iff.1 this.1, this.2⟩

theorem Inv.holds_mem {s : St} (hI : Inv s) {f : Nat} {b : Bool} : Holds s f b ↔ f ∈ s.holders b :=
  (hI.b.hold f b).symm

theorem Inv.waits_mem {s : St} (hI : Inv s) {f : Nat} {b : Bool} : Waits s f b ↔ f ∈ s.waiters b :=
  (hI.b.wait f b).symm

theorem Inv.writer_alone {s : St} (hI : Inv s) {f g : Nat} {b : Bool}
    (hf : Holds s f true) (hg : Holds s g b) : g = f ∧ b = true := by
  have hf' := hI.holds_mem.1 hf
  have hg' := hI.holds_mem.1 hg
  have hpos := List.length_pos_of_mem hf'
  obtain ⟨h1, h2⟩ := hI.excl_lists
  cases b
  · have := (h2 (by omega)).1; rw [this] at hg'; simp at hg'
  · exact ⟨len_le_one_unique (by omega) hg' hf', rfl⟩

/-! ### frame facts about single steps -/

def actor : Ev → Nat
  | .callLock f _ | .retLock f _ | .callTry f _ | .retTry f _ _ | .callUnlock f _ | .retUnlock f
  | .csEnter f _ | .csExit f | .rBlob f _ | .cas f _ _ _ _ | .wState f _ _ | .rState f _ _
  | .rNode f _ _ | .wNode f _ _ | .wData f _ _ | .rData f _ _ | .wNext f _ _ | .rNext f _ _
  | .xchgTail f _ _ _ | .rHead f _ _ | .wHead f _ _ => f

/-- a step changes the pc of the acting fiber only -/
theorem step_frame {s s' : St} {e : Ev} (h : step s e = some s') (g : Nat) (hg : g ≠ actor e) :
    s'.pc g = s.pc g := by
  cases e <;> simp only [step] at h <;> simp only [actor] at hg <;>
    (repeat' split at h) <;> simp at h <;> subst h <;> simp [upd, hg]

/-- the only step a fiber inside the critical section takes is `cs exit` -/
theorem step_from_inCs {s s' : St} {e : Ev} (h : step s e = some s') {c : Bool}
    (hc : s.pc (actor e) = .inCs c) : e = .csExit (actor e) := by
  cases e <;> simp only [step] at h <;> simp only [actor] at hc ⊢ <;>
    (repeat' split at h) <;> simp_all

/-- tryrdlock / trywrlock never block: a fiber inside a try operation stays inside it (read,
    CAS, retry) until it returns — it never enters the wait path -/
theorem step_try_closed {s s' : St} {e : Ev} (h : step s e = some s') (f : Nat) (b : Bool)
    (hf : s.pc f = .tryCalled b ∨ (∃ snap, s.pc f = .tryRead b snap) ∨ ∃ r, s.pc f = .tryDone b r) :
    s'.pc f = .tryCalled b ∨ (∃ snap, s'.pc f = .tryRead b snap) ∨ (∃ r, s'.pc f = .tryDone b r) ∨
      s'.pc f = .held b ∨ s'.pc f = .idle := by
  by_cases hfa : f = actor e
  · subst hfa
    cases e <;> simp only [step] at h <;> simp only [actor] at hf ⊢ <;>
      (repeat' split at h) <;> simp at h <;> subst h <;> simp_all [upd]
  · rw [step_frame h f hfa]
    rcases hf with h1 | h1 | h1
    · exact Or.inl h1
    · exact Or.inr (Or.inl h1)
    · exact Or.inr (Or.inr (Or.inl h1))

/-! ### what a successful CAS of a try / unlock operation does -/

theorem step_cas_try {s s' : St} {f found expected desired : Nat} {b : Bool} {snap : Nat}
    (h : step s (.cas f found expected desired true) = some s') (hpc : s.pc f = .tryRead b snap) :
    snap = encode s.w ∧
    s' = { s with w := tryNew b snap, holders := updB s.holders b (f :: s.holders b),
                  pc := upd s.pc f (.tryDone b true) } := by
  simp only [step, hpc] at h
  split at h
  · next hc =>
    obtain ⟨he, hfo, hok, -⟩ := hc
    simp at hok
    simp only [if_true] at h
    split at h
    · simp only [Option.some.injEq] at h
      exact ⟨by rw [← he, ← hok, hfo], h.symm⟩
    · simp at h
  · simp at h

theorem step_cas_unlock {s s' : St} {f found expected desired : Nat} {b : Bool} {snap : Nat}
    (h : step s (.cas f found expected desired true) = some s') (hpc : s.pc f = .unlockRead b snap) :
    snap = encode s.w ∧
    ((unlockNew b snap).2 = none ∧
      s' = { s with w := (unlockNew b snap).1, holders := updB s.holders b ((s.holders b).erase f),
                    pc := upd s.pc f .unlockDone } ∨
     ∃ q n, (unlockNew b snap).2 = some (q, n) ∧
      s' = { s with w := (unlockNew b snap).1, holders := updB s.holders b ((s.holders b).erase f),
                    tok := updB s.tok q (s.tok q + n), pc := upd s.pc f (.wakeLoop q n) }) := by
  simp only [step, hpc] at h
  split at h
  · next hc =>
    obtain ⟨he, hfo, hok, -⟩ := hc
    simp at hok
    simp only [if_true] at h
    split at h
    · split at h
      · next hn =>
        simp only [Option.some.injEq] at h
        exact ⟨by rw [← he, ← hok, hfo], Or.inl ⟨hn, h.symm⟩⟩
      · next q n hn =>
        simp only [Option.some.injEq] at h
        exact ⟨by rw [← he, ← hok, hfo], Or.inr ⟨q, n, hn, h.symm⟩⟩
    · simp at h
  · simp at h

/-! ### the occupancy monitor never fires on an accepted trace -/

structure MonInv (s : St) (m : Mon) : Prop where
  ok : m.err = none
  ins : ∀ p ∈ m.inside, s.pc p.1 = .inCs p.2

theorem no_conflict {s : St} {m : Mon} (hI : Inv s) (hm : MonInv s m) {f : Nat} {b : Bool}
    (hf : Holds s f b) (hnot : ∀ c, s.pc f ≠ .inCs c) : conflict b m.inside = false := by
  have key : ∀ p ∈ m.inside, Holds s p.1 p.2 := by
    intro p hp; rw [holds_iff]; exact Or.inr (Or.inr (Or.inr (Or.inl (hm.ins p hp))))
  cases b
  · simp only [conflict, Bool.false_eq_true, if_false]
    rw [List.any_eq_false]
    intro p hp hp2
    have hp' := key p hp; rw [hp2] at hp'
    have := (hI.writer_alone hp' hf).2; simp at this
  · simp only [conflict, if_true]
    cases hin : m.inside with
    | nil => rfl
    | cons p l =>
      exfalso
      have hp : p ∈ m.inside := by rw [hin]; simp
      have := (hI.writer_alone hf (key p hp)).1
      exact hnot p.2 (this ▸ hm.ins p hp)

theorem mon_step {s s' : St} {e : Ev} {m : Mon} (hI : Inv s) (hm : MonInv s m)
    (h : step s e = some s') : MonInv s' (monStep m e) := by
  have hmem : ∀ p ∈ m.inside, e ≠ .csExit p.1 → s'.pc p.1 = .inCs p.2 := by
    intro p hp hne
    have hpc := hm.ins p hp
    by_cases ha : p.1 = actor e
    · exfalso; rw [ha] at hpc hne; exact hne (step_from_inCs h hpc)
    · rw [step_frame h p.1 ha]; exact hpc
  cases e with
  | csEnter f b =>
    have hs := h
    simp only [step] at hs
    split at hs
    · next hpc =>
      simp only [Option.some.injEq] at hs
      have hf : Holds s f b := by rw [holds_iff]; exact Or.inr (Or.inr (Or.inl hpc))
      have hnc := no_conflict hI hm hf (by intro c; rw [hpc]; simp)
      simp only [monStep, hnc, Bool.false_eq_true, if_false]
      refine ⟨hm.ok, ?_⟩
      intro p hp
      simp only [List.mem_cons] at hp
      rcases hp with rfl | hp
      · subst hs; simp
      · exact hmem p hp (by simp)
    · simp at hs
  | csExit f =>
    simp only [monStep]
    refine ⟨hm.ok, ?_⟩
    intro p hp
    simp only [List.mem_filter, decide_eq_true_eq] at hp
    have ha : p.1 ≠ actor (.csExit f) := hp.2
    rw [step_frame h p.1 ha]; exact hm.ins p hp.1
  | retTry f b r =>
    cases r
    · exact ⟨hm.ok, fun p hp => hmem p hp (by simp)⟩
    · have hs := h
      simp only [step] at hs
      split at hs
      · next b' r' hpc =>
        split at hs
        · next hc =>
          obtain ⟨rfl, rfl⟩ := hc
          have hf : Holds s f b := by rw [holds_iff]; exact Or.inr (Or.inl hpc)
          have hnc := no_conflict hI hm hf (by intro c; rw [hpc]; simp)
          simp only [monStep, hnc, Bool.false_eq_true, if_false]
          exact ⟨hm.ok, fun p hp => hmem p hp (by simp)⟩
        · simp at hs
      · simp at hs
  | _ => exact ⟨hm.ok, fun p hp => hmem p hp (by simp)⟩

theorem monitor_none_of_run {stub : Bool → Nat} {nodeOf : Nat → Nat} {es : List Ev} {s : St}
    (h : (sys stub nodeOf).run es = some s) : monitor es = none := by
  have := Sys.hist_inv_of_run (sys stub nodeOf)
    (fun s es => Inv s ∧ MonInv s (es.foldl monStep monInit))
    ⟨inv_init stub nodeOf, ⟨rfl, by simp [monInit]⟩⟩
    (fun s es e s' hI hs => by
      refine ⟨inv_step hI.1 hs, ?_⟩
      rw [List.foldl_append]
      exact mon_step hI.1 hI.2 hs) h
  exact this.2.ok

end LibfiberVerif.RwLock
