/-
  Model/WorkQueue.lean — src/work_queue.c + include/work_queue.h over include/mpsc_fifo.h
  (property C17).  The MPSC fifo is inlined: one model step = one access to a shared cell
  (`in_count`, `out_count`, fifo `head`/`tail`, a node's `next`/`data`) exactly in the order the
  C code performs them, plus the API call/return notes of the harness.  Any number of threads
  (`Nat → Pc`), any number of items, nodes are recycled (the stub handed back by `get_work`
  may be pushed again).  64-bit wrap-around of the counters is not modelled.

  C code being modelled

    push(item):   in = __sync_add_and_fetch(&in_count, 1);        fadd in_count old 1
                  ret = (in == 1) ? START_WORKING : QUEUED;
                  item->next = NULL;                               w   n.next 0
                  prev = atomic_exchange(&fifo.tail, item);        xchg tail prev n
                  prev->next = item;                               w   prev.next n
                  return ret;

    get_work():   loop:
                    h = fifo.head;                                 r   head h
                    nx = h->next;                                  r   h.next nx
                    if (nx) { fifo.head = nx;                      w   head nx
                              h->data = nx->data;                  r   nx.data v ; w h.data v
                              out_count += 1;                      r   out_count o ; w out_count o+1
                              *out = h; return MORE_WORK; }
                    if (out_count == in_count) {                   r   out_count o ; r in_count i
                      old = out_count;                             r   out_count old
                      out_count = 0;                               w   out_count 0
                      new = __sync_sub_and_fetch(&in_count, old);  fsub in_count x old
                      if (new == 0) return EMPTY; }
                    cpu_relax();                                   (scheduling point, not logged)
                  goto loop

  Client contract (followed by the harness, enforced by the `pc` discipline of the model): a
  thread calls `get_work` only after a push told it START_WORKING, and then keeps calling it
  until EMPTY; a node is pushed only while the client owns it.

  Node ids: `@n<k>` ↦ `k ≥ 1`, NULL ↦ `0`.  `n1` is the stub allocated by `mpsc_fifo_init`.
-/
import LibfiberVerif.Core.Sys
import LibfiberVerif.Core.Event
import LibfiberVerif.Driver

namespace LibfiberVerif.WorkQueue

/-- ghost ownership of a node -/
inductive Own
  | free                -- the client may push it
  | held (t : Nat)      -- being pushed by thread `t`, not yet exchanged into `tail`
  | queued              -- reachable from `head` (the stub or a queued item)
  | taken (t : Nat)     -- popped stub, being handed to worker `t`
  deriving Repr, DecidableEq, Inhabited

inductive Pc
  | idle
  | pushCalled (v n : Nat)
  | pushAnnounced (v n r : Nat)        -- after `fadd in_count`; r = 1 ⇒ START_WORKING
  | pushTerminated (v n r : Nat)       -- after `n.next := NULL`
  | pushXchgd (n prev r i : Nat)       -- after `xchg tail`; ghost `i` = queue position of `prev`
  | pushDone (r : Nat)                 -- after `prev.next := n`
  | working                            -- told to start working, outside `get_work`
  | gwCalled                           -- top of the `while` loop
  | gwGotHead (h : Nat)
  | gwGotNext (h nx : Nat)             -- `nx ≠ NULL`
  | gwMoved (h nx : Nat)               -- after `head := nx`
  | gwGotData (h v : Nat)
  | gwWrote (h v : Nat)
  | gwGotOut (h v o : Nat)
  | gwDone (v h : Nat)                 -- returns MORE_WORK with node `h` carrying `v`
  | gwEmpty                            -- trypop returned NULL
  | gwE1 (o : Nat)                     -- read `out_count` for the comparison
  | gwEq                               -- `out_count == in_count` held
  | gwOld (old : Nat)
  | gwZeroed (old : Nat)
  | gwEmptyDone                        -- `sub_and_fetch` returned 0: returns EMPTY
  deriving Repr, DecidableEq, Inhabited

/-- the thread has been told to start working and has not yet been told EMPTY
    (at the level of the shared accesses: from its `fadd` that returned 1 to its `fsub`
    that returned 0) -/
def Pc.isWorker : Pc → Bool
  | .idle | .pushCalled _ _ | .gwEmptyDone => false
  | .pushAnnounced _ _ r | .pushTerminated _ _ r | .pushXchgd _ _ r _ | .pushDone r => r == 1
  | _ => true

/-- inside `get_work` -/
def Pc.inGetWork : Pc → Bool
  | .gwCalled | .gwGotHead _ | .gwGotNext _ _ | .gwMoved _ _ | .gwGotData _ _ | .gwWrote _ _
  | .gwGotOut _ _ _ | .gwDone _ _ | .gwEmpty | .gwE1 _ | .gwEq | .gwOld _ | .gwZeroed _ => true
  | _ => false

/-- between the pop (`head := nx`) and the `out_count` increment -/
def Pc.popWin : Pc → Bool
  | .gwMoved _ _ | .gwGotData _ _ | .gwWrote _ _ | .gwGotOut _ _ _ => true
  | _ => false

/-- between the pop and the return of the popped item -/
def Pc.retWin : Pc → Bool
  | .gwMoved _ _ | .gwGotData _ _ | .gwWrote _ _ | .gwGotOut _ _ _ | .gwDone _ _ => true
  | _ => false

inductive Ev
  | callPush (t v n : Nat)
  | retPush (t r : Nat)
  | callGw (t : Nat)
  | retGw (t v n : Nat)               -- `v = 0`: EMPTY
  | faddIn (t old : Nat)              -- `__sync_add_and_fetch(&in_count, 1)`, `old` = value before
  | fsubIn (t old op : Nat)           -- `__sync_sub_and_fetch(&in_count, op)`
  | rdIn (t x : Nat)
  | rdOut (t x : Nat)
  | wrOut (t x : Nat)
  | rdHead (t x : Nat)
  | wrHead (t x : Nat)
  | xchgTail (t old new : Nat)
  | rdNext (t n x : Nat)
  | wrNext (t n x : Nat)
  | rdData (t n x : Nat)
  | wrData (t n x : Nat)
  deriving Repr, DecidableEq, Inhabited

structure St where
  inCount : Nat
  outCount : Nat
  head : Nat
  tail : Nat
  next : Nat → Nat
  data : Nat → Nat
  pc : Nat → Pc
  /-- ghost: threads between "told START_WORKING" (`fadd` returned 1) and "told EMPTY" (`fsub` returned 0) -/
  workers : List Nat
  /-- ghost: threads that announced a push (`fadd`) and have not yet exchanged `tail` -/
  pending : List Nat
  /-- ghost: number of `fadd`s (announced items) -/
  announced : Nat
  /-- ghost: sum of all operands of `fsub` -/
  subtracted : Nat
  /-- ghost: number of `out_count += 1` writes -/
  counted : Nat
  /-- ghost: number of `xchg tail` so far = queue position of the tail node -/
  tl : Nat
  /-- ghost: number of successful pops (`head := next`) = queue position of the stub -/
  hd : Nat
  /-- ghost: node at queue position `i` (position 0 = the initial stub) -/
  nodeAt : Nat → Nat
  /-- ghost: the `next` link out of position `i` has been written -/
  linked : Nat → Bool
  /-- ghost: the thread that exchanged position `i+1` in and still has to write the link out of `i` -/
  linker : Nat → Nat
  own : Nat → Own
  /-- ghost: item values in the order of their `xchg tail` -/
  xchgd : List Nat
  /-- ghost: item values in the order `get_work` returned them -/
  handed : List Nat

def init : St :=
  { inCount := 0, outCount := 0, head := 1, tail := 1, next := fun _ => 0, data := fun _ => 0,
    pc := fun _ => .idle, workers := [], pending := [], announced := 0, subtracted := 0,
    counted := 0, tl := 0, hd := 0, nodeAt := fun _ => 1, linked := fun _ => false,
    linker := fun _ => 0, own := fun n => if n = 1 then .queued else .free,
    xchgd := [], handed := [] }

def step (s : St) : Ev → Option St
  | .callPush t v n =>
    if s.pc t = .idle ∧ v ≠ 0 ∧ n ≠ 0 ∧ s.own n = .free then
      some { s with pc := upd s.pc t (.pushCalled v n), own := upd s.own n (.held t),
                    data := upd s.data n v }
    else none
  | .faddIn t old =>
    match s.pc t with
    | .pushCalled v n =>
      if old = s.inCount then
        some { s with inCount := s.inCount + 1, announced := s.announced + 1,
                      pending := t :: s.pending,
                      workers := if old = 0 then t :: s.workers else s.workers,
                      pc := upd s.pc t (.pushAnnounced v n (if old = 0 then 1 else 0)) }
      else none
    | _ => none
  | .wrNext t n x =>
    match s.pc t with
    | .pushAnnounced v n' r =>
      if n = n' ∧ x = 0 then
        some { s with next := upd s.next n 0, pc := upd s.pc t (.pushTerminated v n r) }
      else none
    | .pushXchgd n' prev r i =>
      if n = prev ∧ x = n' then
        some { s with next := upd s.next prev n', linked := upd s.linked i true,
                      pc := upd s.pc t (.pushDone r) }
      else none
    | _ => none
  | .xchgTail t old new =>
    match s.pc t with
    | .pushTerminated v n r =>
      if old = s.tail ∧ new = n then
        some { s with tail := n, tl := s.tl + 1, nodeAt := upd s.nodeAt (s.tl + 1) n,
                      own := upd s.own n .queued, xchgd := s.xchgd ++ [v],
                      pending := s.pending.erase t, linker := upd s.linker s.tl t,
                      pc := upd s.pc t (.pushXchgd n old r s.tl) }
      else none
    | _ => none
  | .retPush t r =>
    match s.pc t with
    | .pushDone r' =>
      if r = r' then some { s with pc := upd s.pc t (if r = 1 then .working else .idle) } else none
    | _ => none
  | .callGw t =>
    if s.pc t = .working then some { s with pc := upd s.pc t .gwCalled } else none
  | .rdHead t x =>
    match s.pc t with
    | .gwCalled => if x = s.head then some { s with pc := upd s.pc t (.gwGotHead x) } else none
    | _ => none
  | .rdNext t n x =>
    match s.pc t with
    | .gwGotHead h =>
      if n = h ∧ x = s.next h then
        some { s with pc := upd s.pc t (if x = 0 then .gwEmpty else .gwGotNext h x) }
      else none
    | _ => none
  | .wrHead t x =>
    match s.pc t with
    | .gwGotNext h nx =>
      if x = nx then
        some { s with head := nx, hd := s.hd + 1, own := upd s.own h (.taken t),
                      pc := upd s.pc t (.gwMoved h nx) }
      else none
    | _ => none
  | .rdData t n x =>
    match s.pc t with
    | .gwMoved h nx =>
      if n = nx ∧ x = s.data nx then some { s with pc := upd s.pc t (.gwGotData h x) } else none
    | _ => none
  | .wrData t n x =>
    match s.pc t with
    | .gwGotData h v =>
      if n = h ∧ x = v then
        some { s with data := upd s.data h v, pc := upd s.pc t (.gwWrote h v) }
      else none
    | _ => none
  | .rdOut t x =>
    match s.pc t with
    | .gwWrote h v => if x = s.outCount then some { s with pc := upd s.pc t (.gwGotOut h v x) } else none
    | .gwEmpty => if x = s.outCount then some { s with pc := upd s.pc t (.gwE1 x) } else none
    | .gwEq => if x = s.outCount then some { s with pc := upd s.pc t (.gwOld x) } else none
    | _ => none
  | .wrOut t x =>
    match s.pc t with
    | .gwGotOut h v o =>
      if x = o + 1 then
        some { s with outCount := x, counted := s.counted + 1, pc := upd s.pc t (.gwDone v h) }
      else none
    | .gwOld old =>
      if x = 0 then some { s with outCount := 0, pc := upd s.pc t (.gwZeroed old) } else none
    | _ => none
  | .rdIn t x =>
    match s.pc t with
    | .gwE1 o =>
      if x = s.inCount then some { s with pc := upd s.pc t (if o = x then .gwEq else .gwCalled) }
      else none
    | _ => none
  | .fsubIn t old op =>
    match s.pc t with
    | .gwZeroed o =>
      if old = s.inCount ∧ op = o ∧ op ≤ old then
        some { s with inCount := old - op, subtracted := s.subtracted + op,
                      workers := if old - op = 0 then s.workers.erase t else s.workers,
                      pc := upd s.pc t (if old - op = 0 then .gwEmptyDone else .gwCalled) }
      else none
    | _ => none
  | .retGw t v n =>
    match s.pc t with
    | .gwDone v' h =>
      if v = v' ∧ n = h ∧ v ≠ 0 then
        some { s with own := upd s.own h .free, handed := s.handed ++ [v],
                      pc := upd s.pc t .working }
      else none
    | .gwEmptyDone => if v = 0 then some { s with pc := upd s.pc t .idle } else none
    | _ => none

def sys : Sys St Ev := { init := init, step := step }

/-! ### log-line decoding -/

/-- `@n3` ↦ 3, `0` ↦ 0 -/
def nodeVal (s : String) : Option Nat :=
  if s = "0" then some 0
  else if s.startsWith "@n" then
    match (s.drop 2).toString.toNat? with
    | some k => if k = 0 then none else some k
    | none => none
  else none

/-- `n3.next` ↦ (3, "next") -/
def nodeCell (c : String) : Option (Nat × String) :=
  if c.startsWith "n" then
    match (c.drop 1).toString.splitOn "." with
    | [k, f] => match k.toNat? with
      | some k => if k = 0 then none else some (k, f)
      | none => none
    | _ => none
  else none

def ofRaw (r : RawEv) : Option Ev :=
  let t := r.tid
  match r.kind, r.args with
  | "note", ["call", "push", v, n] => do let v ← v.toNat?; let n ← n.toNat?; pure (Ev.callPush t v n)
  | "note", ["ret", "push", x] => x.toNat?.map (Ev.retPush t)
  | "note", ["call", "getwork"] => some (Ev.callGw t)
  | "note", ["ret", "getwork", "0"] => some (Ev.retGw t 0 0)
  | "note", ["ret", "getwork", v, n] => do let v ← v.toNat?; let n ← n.toNat?; pure (Ev.retGw t v n)
  | "fadd", ["in_count", old, "1", _] => old.toNat?.map (Ev.faddIn t)
  | "fsub", ["in_count", old, op, _] => do let o ← old.toNat?; let p ← op.toNat?; pure (Ev.fsubIn t o p)
  | "xchg", ["tail", old, new, _] => do let o ← nodeVal old; let n ← nodeVal new; pure (Ev.xchgTail t o n)
  | "r", ["in_count", x] => x.toNat?.map (Ev.rdIn t)
  | "r", ["out_count", x] => x.toNat?.map (Ev.rdOut t)
  | "w", ["out_count", x] => x.toNat?.map (Ev.wrOut t)
  | "r", ["head", x] => (nodeVal x).map (Ev.rdHead t)
  | "w", ["head", x] => (nodeVal x).map (Ev.wrHead t)
  | "r", [c, x] => do
    let (k, f) ← nodeCell c
    if f = "next" then (nodeVal x).map (Ev.rdNext t k)
    else if f = "data" then x.toNat?.map (Ev.rdData t k) else none
  | "w", [c, x] => do
    let (k, f) ← nodeCell c
    if f = "next" then (nodeVal x).map (Ev.wrNext t k)
    else if f = "data" then x.toNat?.map (Ev.wrData t k) else none
  | _, _ => none

/-! ### API-level monitor (failing-input search): looks only at the call/return notes and flags
    patterns no correct work queue can produce (definite violations). -/

structure PushOp where
  t : Nat
  v : Nat
  call : Nat
  ret : Nat
  start : Bool
  deriving Repr, Inhabited

structure GwOp where
  t : Nat
  v : Nat          -- 0 = EMPTY
  call : Nat
  ret : Nat
  deriving Repr, Inhabited

structure Hist where
  pos : Nat := 0
  pendPush : List (Nat × Nat × Nat) := []    -- thread, value, call position
  pendGw : List (Nat × Nat) := []            -- thread, call position
  pushes : List PushOp := []
  gws : List GwOp := []

def histStep (h : Hist) (e : Ev) : Hist :=
  let h := { h with pos := h.pos + 1 }
  match e with
  | .callPush t v _ => { h with pendPush := (t, v, h.pos) :: h.pendPush }
  | .retPush t r =>
    match h.pendPush.find? (fun p => p.1 = t) with
    | some (_, v, c) =>
      { h with pendPush := h.pendPush.filter (fun p => p.1 ≠ t),
               pushes := h.pushes ++ [{ t := t, v := v, call := c, ret := h.pos, start := r = 1 }] }
    | none => h
  | .callGw t => { h with pendGw := (t, h.pos) :: h.pendGw }
  | .retGw t v _ =>
    match h.pendGw.find? (fun p => p.1 = t) with
    | some (_, c) =>
      { h with pendGw := h.pendGw.filter (fun p => p.1 ≠ t),
               gws := h.gws ++ [{ t := t, v := v, call := c, ret := h.pos }] }
    | none => h
  | _ => h

/-- working sessions: (thread, position of `ret push 1`, call position of that push,
    call position of the `get_work` that returned EMPTY, its return position); the last two are
    `none` for a session that never ended -/
def sessions (h : Hist) : List (Nat × Nat × Nat × Option Nat × Option Nat) :=
  (h.pushes.filter (·.start)).map fun p =>
    match h.gws.find? (fun g => g.t = p.t && g.v = 0 && g.call > p.ret) with
    | some g => (p.t, p.ret, p.call, some g.call, some g.ret)
    | none => (p.t, p.ret, p.call, none, none)

def monitor (evs : List Ev) (quiescent : Bool) : Option String :=
  let h := evs.foldl histStep {}
  let got := h.gws.filter (fun g => g.v ≠ 0)
  -- invented
  match got.find? (fun g => !(h.pushes.any (fun p => p.v = g.v && p.call < g.ret)
                              || h.pendPush.any (fun p => p.2.1 = g.v && p.2.2 < g.ret))) with
  | some g => some s!"invented: get_work returned {g.v} which was not pushed before"
  | none =>
  -- duplicate
  match got.find? (fun g => got.any (fun g' => g'.v = g.v && g'.call ≠ g.call)) with
  | some g => some s!"duplicate: item {g.v} handed out twice"
  | none =>
  let ss := sessions h
  -- two workers: session 2 certainly began inside session 1
  match ss.findSome? (fun (t1, r1, _, e1, _) => ss.findSome? (fun (t2, r2, c2, _, _) =>
      if t1 ≠ t2 && r1 < c2 then
        -- some get_work call of t1 belonging to session 1 was made after t2 had been told to start
        match h.gws.find? (fun g => g.t = t1 && g.call > r2 &&
                (match e1 with | some e => g.call ≤ e | none => true)) with
        | some _ => some s!"twoWorkers: thread {t2} was told to start working while thread {t1} was still working"
        | none => none
      else none)) with
  | some m => some m
  | none =>
  -- emptyLie: EMPTY although an item whose push had returned before this get_work call
  -- had not been handed out before the call
  match h.gws.findSome? (fun g =>
      if g.v = 0 then
        h.pushes.findSome? (fun p =>
          if p.ret < g.call && !(got.any (fun g' => g'.v = p.v && g'.ret < g.call)) then
            some s!"emptyLie: thread {g.t} was told EMPTY while item {p.v} (push returned earlier) had not been handed out"
          else none)
      else none) with
  | some m => some m
  | none =>
  -- queuedLie: a push was told QUEUED although no working session can have been active
  match h.pushes.find? (fun p => !p.start &&
      !(ss.any (fun (t', _, c', _, e') => t' ≠ p.t && c' < p.ret &&
          (match e' with | some e => p.call < e | none => true))) &&
      -- a session of the same thread cannot overlap its own push
      true) with
  | some p => some s!"queuedLie: push of {p.v} by thread {p.t} was told QUEUED although no worker can have been active"
  | none =>
  -- lost (at quiescence every pushed item must have been handed out)
  if quiescent then
    match h.pushes.find? (fun p => !(got.any (fun g => g.v = p.v))) with
    | some p => some s!"lost: item {p.v} was pushed but never handed to a worker"
    | none =>
      if !h.pendPush.isEmpty || !h.pendGw.isEmpty then some "incomplete: an operation never returned"
      else none
  else none

/-- `verifdrv WorkQueue <log>` -/
def drive (lines : List String) : IO UInt32 := do
  match initArgs lines with
  | "workqueue" :: rest =>
    -- the harness may add `base` to both counters once, mid-session (a session that never
    -- found the fifo empty): the model counts from 0, so logged counter values at or above
    -- `base` are rebased (real values of these short runs are tiny compared with it)
    let base := (rest.head?.bind String.toNat?).getD 0
    let rb (x : Nat) : Nat := if base > 0 ∧ x ≥ base then x - base else x
    let rebase (r : RawEv) : Option Ev :=
      match ofRaw r with
      | some (.faddIn t o) => some (.faddIn t (rb o))
      | some (.fsubIn t o p) => some (.fsubIn t (rb o) (rb p))
      | some (.rdIn t x) => some (.rdIn t (rb x))
      | some (.rdOut t x) => some (.rdOut t (rb x))
      | some (.wrOut t x) => some (.wrOut t (rb x))
      | x => x
    let body := lines.filter (fun l => !isInit l)
    let v := validate sys rebase body
    let evs := body.filterMap (fun l => (parseLine l).bind rebase)
    report "WorkQueue" v (monitor evs true)
  | _ => IO.println "VALIDATE DIVERGE missing init"; return 1

end LibfiberVerif.WorkQueue
