/-
  Model/Chan.lean — the three single-receiver channels of include/fiber_channel.h (C11),
  parametrised by `Kind`:

  * `bounded`    fiber_bounded_channel_t: ring `buffer[size]` with a claim counter `high`
                 (CAS by the senders) and a consume counter `low` (single receiver); a NULL
                 slot is "not written yet".  send spins (fiber_yield) while full.
  * `unbounded`  fiber_unbounded_channel_t = mpsc_fifo.h queue of caller-owned nodes
  * `sp`         fiber_unbounded_sp_channel_t = spsc_fifo.h queue (ONE sender)

  all three + ONE fiber_signal_t `ready_signal`: the sender PUBLISHES FIRST and RAISES SECOND,
  the receiver checks the container and, if it looks empty, waits on the signal and re-checks.
  Client contract: ONE receiver fiber (the signal allows one waiter) — ghost-checked
  (`receiver`); `sp`: ONE sender fiber — ghost-checked (`spSender`).

  The signal protocol (word `waiter`, the fibers' `scratch` markers, the deferred
  `set_wait_location` write by the successor, the raiser's spin) is `Signal.pstep`, embedded
  unchanged: a protocol event of fiber f is accepted only while f is inside the wait (receiver
  found nothing) respectively the raise (sender has published) of a channel operation.

  C code, bounded:
    send(m):  loop { l = load(low); h = load(high); i = h & mask;
                     if (!buffer[i] && h - l < size && CAS(&high, h → h+1)) {   // short-circuit
                       buffer[i] = m; return signal_raise(); }
                     fiber_yield(); }
    receive:  loop { h = load(high); l = load(low); i = l & mask; m = buffer[i];
                     if (m && h > l) { buffer[i] = 0; store(low, l+1); return m; }
                     signal_wait(); }
  unbounded / sp (queue kept abstractly as in Model/Mutex.lean: ghost `order` of pushed nodes
  in tail-exchange order, `linked` flags, `hd` popped so far; every logged `head`/`tail`/`next`
  value is checked against it — adequacy of that abstraction is C15):
    send(n):  n->next = NULL; prev = xchg(&tail, n)   [sp: prev = load(tail); store(tail, n)];
              prev->next = n;  return signal_raise();
    receive:  loop { h = head; x = h->next; if (x) { head = x; h->data = x->data; return h; }
                     signal_wait(); }
  Node `M<k>` is named k+1 (0 = NULL); `M0` is the queue's initial stub; the harness sends
  value v in node M<v>.

  try_receive (`callTry`, ghost/control flag `tryMode`): ONE pass of the receive loop, performing
  exactly the accesses of the blocking receive up to the decision; where the blocking receive
  would go to `signal_wait` the try variant returns "empty" (pc `tEmpty`, then `ret pop 0`):
    bounded:   h = load(high); l = load(low); m = buffer[l & mask];
               if (m && h > l) { buffer[i] = 0; store(low, l+1); *out = m; return 1; } return 0;
    queues:    return trypop();      // h = head; x = h->next; if (!x) return NULL; …
  NULL ready_signal (`spin = true`, "this channel will spin"): send publishes and returns 0
  WITHOUT touching a signal (pc `sRaised v false` right after the publishing write: the next
  logged event of the sender is the harness's `woke 0` note); the blocking receive that finds
  nothing goes back to the top of its loop (`rTop`) — the bounded one through fiber_yield()
  (scheduler traffic, skipped by projection), the unbounded / sp ones immediately, WITHOUT
  yielding.  No protocol event is ever accepted in spin mode (nobody is in `rEmpty`,
  `rWaiting`, `sPublished`, `sRaising`).
-/
import LibfiberVerif.Core.Sys
import LibfiberVerif.Core.Event
import LibfiberVerif.Driver
import LibfiberVerif.Model.Signal

namespace LibfiberVerif.Chan

open Signal (PSt PEv PPc pstep pinit)

inductive Kind | bounded | unbounded | sp
  deriving Repr, DecidableEq, Inhabited

inductive Pc
  | idle
  -- send, bounded
  | sTop (v : Nat)                        -- top of the send loop
  | sLdLow (v l : Nat)
  | sLdHigh (v l h : Nat)
  | sRdBuf (v l h x : Nat)
  | sClaimed (v h : Nat)                  -- CAS(high) succeeded: slot h is ours
  -- send, queues
  | qCalled (v : Nat)
  | qData (v : Nat)                       -- harness wrote node->data := v
  | qCleared (v : Nat)                    -- node->next := NULL
  | qLdTail (v t : Nat)                   -- sp only: read tail
  | qSwapped (v prev i : Nat)             -- tail := node; our entry is order[i]
  -- send, common
  | sPublished (v : Nat)                  -- message visible; the raise comes next
  | sRaising (v : Nat)
  | sRaised (v : Nat) (r : Bool)          -- `woke r` note next
  | sDone
  -- receive, bounded
  | rTop
  | rLdHigh (h : Nat)
  | rLdLow (h l : Nat)
  | rRdBuf (h l x : Nat)
  | rCleared (l x : Nat)                  -- buffer[i] := 0
  -- receive, queues
  | rGotHead (h : Nat)
  | rGotNext (h x : Nat)
  | rMoved (h x : Nat)                    -- head := x
  | rGotData (h d : Nat)
  | rWrote (h d : Nat)                    -- h->data := d
  -- receive, common
  | rEmpty                                -- found nothing: signal_wait next
  | rWaiting
  | rDone (v : Nat)
  | tEmpty                                -- try_receive found nothing: returns "empty"
  deriving Repr, DecidableEq, Inhabited

inductive Ev
  | callSend (f v : Nat) | woke (f : Nat) (r : Bool) | retSend (f : Nat)
  | callRecv (f : Nat) | retRecv (f v : Nat)
  | callTry (f : Nat)                     -- `*_try_receive`; returns through `retRecv` (0 = empty)
  | p (e : PEv)
  -- bounded
  | ldLow (f l : Nat) | ldHigh (f h : Nat) | rBuf (f i x : Nat)
  | casHigh (f found exp new : Nat) (ok : Bool)
  | wBuf (f i x : Nat) | stLow (f l : Nat)
  -- queues
  | wNext (f n x : Nat)
  | xchgTail (f old new : Nat) | ldTail (f t : Nat) | stTail (f n : Nat)
  | rHead (f h : Nat) | wHead (f x : Nat)
  | rNext (f n x : Nat)
  | rData (f n d : Nat) | wData (f n d : Nat)
  deriving Repr, DecidableEq, Inhabited

structure St where
  kind : Kind
  cap : Nat
  p : PSt
  -- bounded
  high : Nat
  low : Nat
  buf : Nat → Nat
  -- queues
  order : List Nat
  linked : Nat → Bool
  hd : Nat
  headNode : Nat
  ndata : Nat → Nat
  pc : Nat → Pc
  /-- ghost: the single receiver / (sp) the single sender -/
  receiver : Option Nat
  spSender : Option Nat
  /-- ghost: (sender, value) in linearisation order: successful CAS on `high` / tail swap -/
  sent : List (Nat × Nat)
  /-- ghost: values in the order the receiver took them -/
  recvd : List Nat
  /-- ghost: values passed to `send` by each fiber, in call order -/
  calls : Nat → List Nat
  /-- ghost: every value ever passed to `send` (messages are distinct: for the queue kinds a
      message IS a caller-owned node, which must not be sent again while the channel owns it) -/
  used : List Nat
  /-- the channel was created with a NULL ready_signal ("will spin") -/
  spin : Bool := false
  /-- the receive operation in progress is a `*_try_receive` (set by `callTry`, cleared by
      `callRecv`; meaningful while the receiver is inside an operation) -/
  tryMode : Bool := false
  /-- ghost (bounded): the receiver's load of `high` in the current operation saw an EMPTY
      channel (`high = low` at that instant, i.e. every claimed message already consumed);
      reset by `callRecv` / `callTry`, set only by the receiver's `ldHigh` -/
  emptySeen : Bool := false
  /-- ghost: number of `*_try_receive` calls that reported "empty" -/
  tryEmpty : Nat := 0

def initM (spin : Bool) (k : Kind) (cap : Nat) : St :=
  { kind := k, cap := cap, p := pinit, high := 0, low := 0, buf := fun _ => 0,
    order := [], linked := fun _ => false, hd := 0, headNode := 1, ndata := fun _ => 0,
    pc := fun _ => .idle, receiver := none, spSender := none, sent := [], recvd := [],
    calls := fun _ => [], used := [], spin := spin }

/-- a channel with a ready_signal -/
def init (k : Kind) (cap : Nat) : St := initM false k cap

/-- where the receive operation goes when it found nothing: try_receive returns "empty"; the
    blocking receive of a spinning channel loops; otherwise fiber_signal_wait -/
def emptyPc (s : St) : Pc :=
  if s.tryMode then .tEmpty else if s.spin then .rTop else .rEmpty

/-- where send goes after its publishing write: a spinning channel returns 0 at once -/
def pubPc (s : St) (v : Nat) : Pc :=
  if s.spin then .sRaised v false else .sPublished v

def tailNode (s : St) : Nat := s.order.getLast?.getD 1

/-- `next` of the current stub as the consumer sees it -/
def headNext (s : St) : Nat :=
  match s.order[s.hd]? with
  | some n => if s.linked s.hd then n else 0
  | none => 0

/-- actor of a protocol event (the fiber whose program order it belongs to) -/
def pactor : PEv → Nat
  | .callWait f | .clrScratch f | .casWaiter f _ _ | .wStateWaiting f | .stNone f | .retWait f
  | .callRaise f | .xchg f _ | .rScratch f _ _ | .wStateReady f _ | .retRaise f _ => f
  | .setWait g _ => g

/-- protocol event inside a channel operation: bracket it with the call/return of wait/raise -/
def pEmbedded (s : St) (e : PEv) : Option St :=
  let f := pactor e
  match s.pc f with
  | .rEmpty => do
      let p1 ← pstep s.p (.callWait f)
      let p2 ← pstep p1 e
      some { s with p := p2, pc := upd s.pc f .rWaiting }
  | .rWaiting => do
      let p2 ← pstep s.p e
      if p2.pc f = .waitDone then
        let p3 ← pstep p2 (.retWait f)
        some { s with p := p3, pc := upd s.pc f .rTop }
      else some { s with p := p2 }
  | .sPublished v => do
      let p1 ← pstep s.p (.callRaise f)
      let p2 ← pstep p1 e
      match p2.pc f with
      | .raiseDone r => do
          let p3 ← pstep p2 (.retRaise f r)
          some { s with p := p3, pc := upd s.pc f (.sRaised v r) }
      | _ => some { s with p := p2, pc := upd s.pc f (.sRaising v) }
  | .sRaising v => do
      let p2 ← pstep s.p e
      match p2.pc f with
      | .raiseDone r => do
          let p3 ← pstep p2 (.retRaise f r)
          some { s with p := p3, pc := upd s.pc f (.sRaised v r) }
      | _ => some { s with p := p2 }
  | _ => none

def step (s : St) : Ev → Option St
  -- ------------------------------------------------------------------ API notes
  | .callSend f v =>
    if s.pc f = .idle ∧ v ≠ 0 ∧ v ∉ s.used ∧ s.receiver ≠ some f ∧
        (s.kind = .sp → (s.spSender = none ∨ s.spSender = some f)) then
      some { s with calls := upd s.calls f (s.calls f ++ [v]), used := v :: s.used,
                    spSender := if s.kind = .sp then some f else s.spSender,
                    pc := upd s.pc f (if s.kind = .bounded then .sTop v else .qCalled v) }
    else none
  | .woke f r =>
    match s.pc f with
    | .sRaised _ r' => if r = r' then some { s with pc := upd s.pc f .sDone } else none
    | _ => none
  | .retSend f =>
    match s.pc f with
    | .sDone => some { s with pc := upd s.pc f .idle }
    | _ => none
  | .callRecv f =>
    if s.pc f = .idle ∧ (s.receiver = none ∨ s.receiver = some f) ∧ s.spSender ≠ some f then
      some { s with receiver := some f, tryMode := false, emptySeen := false, pc := upd s.pc f .rTop }
    else none
  | .callTry f =>
    if s.pc f = .idle ∧ (s.receiver = none ∨ s.receiver = some f) ∧ s.spSender ≠ some f then
      some { s with receiver := some f, tryMode := true, emptySeen := false, pc := upd s.pc f .rTop }
    else none
  | .retRecv f v =>
    match s.pc f with
    | .rDone v' => if v = v' then some { s with pc := upd s.pc f .idle } else none
    | .tEmpty => if v = 0 then some { s with tryEmpty := s.tryEmpty + 1, pc := upd s.pc f .idle } else none
    | _ => none
  -- ------------------------------------------------------------------ signal protocol
  | .p (.callWait _) => none
  | .p (.retWait _) => none
  | .p (.callRaise _) => none
  | .p (.retRaise _ _) => none
  | .p (.setWait g f) => (pstep s.p (.setWait g f)).map fun p' => { s with p := p' }
  | .p e => pEmbedded s e
  -- ------------------------------------------------------------------ bounded: send
  | .ldLow f l =>
    if s.kind ≠ .bounded ∨ l ≠ s.low then none else
    match s.pc f with
    | .sTop v => some { s with pc := upd s.pc f (.sLdLow v l) }
    | .sRdBuf v l' h x =>
      -- slot busy or ring full: fiber_yield, retry
      if ¬ (x = 0 ∧ h - l' < s.cap) then some { s with pc := upd s.pc f (.sLdLow v l) } else none
    | .rLdHigh h => some { s with pc := upd s.pc f (.rLdLow h l) }
    | _ => none
  | .ldHigh f h =>
    if s.kind ≠ .bounded ∨ h ≠ s.high then none else
    match s.pc f with
    | .sLdLow v l => some { s with pc := upd s.pc f (.sLdHigh v l h) }
    | .rTop => some { s with emptySeen := decide (s.high = s.low), pc := upd s.pc f (.rLdHigh h) }
    | _ => none
  | .rBuf f i x =>
    if s.kind ≠ .bounded ∨ x ≠ s.buf i then none else
    match s.pc f with
    | .sLdHigh v l h => if i = h % s.cap then some { s with pc := upd s.pc f (.sRdBuf v l h x) } else none
    | .rLdLow h l =>
      if i = l % s.cap then
        if x ≠ 0 ∧ h > l then some { s with pc := upd s.pc f (.rRdBuf h l x) }
        else some { s with pc := upd s.pc f (emptyPc s) }
      else none
    | _ => none
  | .casHigh f found exp new ok =>
    if s.kind ≠ .bounded then none else
    match s.pc f with
    | .sRdBuf v l h x =>
      if x = 0 ∧ h - l < s.cap ∧ exp = h ∧ new = h + 1 ∧ found = s.high ∧ (ok → found = exp) then
        if ok then
          some { s with high := h + 1, sent := s.sent ++ [(f, v)], pc := upd s.pc f (.sClaimed v h) }
        else some { s with pc := upd s.pc f (.sTop v) }     -- (weak) CAS failed: yield, retry
      else none
    | _ => none
  | .wBuf f i x =>
    if s.kind ≠ .bounded then none else
    match s.pc f with
    | .sClaimed v h =>
      if i = h % s.cap ∧ x = v then some { s with buf := upd s.buf i v, pc := upd s.pc f (pubPc s v) } else none
    | .rRdBuf _ l m =>
      if i = l % s.cap ∧ x = 0 then some { s with buf := upd s.buf i 0, pc := upd s.pc f (.rCleared l m) } else none
    | _ => none
  | .stLow f l =>
    if s.kind ≠ .bounded then none else
    match s.pc f with
    | .rCleared l' m =>
      if l = l' + 1 then some { s with low := l, recvd := s.recvd ++ [m], pc := upd s.pc f (.rDone m) } else none
    | _ => none
  -- ------------------------------------------------------------------ queues: send
  | .wData f n d =>
    if s.kind = .bounded then none else
    match s.pc f with
    | .qCalled v => if n = v + 1 ∧ d = v then some { s with ndata := upd s.ndata n v, pc := upd s.pc f (.qData v) } else none
    | .rGotData h d' => if n = h ∧ d = d' then some { s with ndata := upd s.ndata h d, pc := upd s.pc f (.rWrote h d) } else none
    | _ => none
  | .wNext f n x =>
    if s.kind = .bounded then none else
    match s.pc f with
    | .qData v => if n = v + 1 ∧ x = 0 then some { s with pc := upd s.pc f (.qCleared v) } else none
    | .qSwapped v prev i =>
      if n = prev ∧ x = v + 1 then some { s with linked := upd s.linked i true, pc := upd s.pc f (pubPc s v) }
      else none
    | _ => none
  | .xchgTail f old new =>
    if s.kind ≠ .unbounded then none else
    match s.pc f with
    | .qCleared v =>
      if new = v + 1 ∧ old = tailNode s then
        some { s with order := s.order ++ [v + 1], sent := s.sent ++ [(f, v)],
                      pc := upd s.pc f (.qSwapped v old s.order.length) }
      else none
    | _ => none
  | .ldTail f t =>
    if s.kind ≠ .sp then none else
    match s.pc f with
    | .qCleared v => if t = tailNode s then some { s with pc := upd s.pc f (.qLdTail v t) } else none
    | _ => none
  | .stTail f n =>
    if s.kind ≠ .sp then none else
    match s.pc f with
    | .qLdTail v t =>
      if n = v + 1 ∧ t = tailNode s then
        some { s with order := s.order ++ [v + 1], sent := s.sent ++ [(f, v)],
                      pc := upd s.pc f (.qSwapped v t s.order.length) }
      else none
    | _ => none
  -- ------------------------------------------------------------------ queues: receive
  | .rHead f h =>
    if s.kind = .bounded then none else
    match s.pc f with
    | .rTop => if h = s.headNode then some { s with pc := upd s.pc f (.rGotHead h) } else none
    | _ => none
  | .rNext f n x =>
    if s.kind = .bounded then none else
    match s.pc f with
    | .rGotHead h =>
      if n = h ∧ x = headNext s then
        if x = 0 then some { s with pc := upd s.pc f (emptyPc s) }
        else some { s with pc := upd s.pc f (.rGotNext h x) }
      else none
    | _ => none
  | .wHead f x =>
    if s.kind = .bounded then none else
    match s.pc f with
    | .rGotNext h x' =>
      -- the pop takes effect here (ghost `recvd`: the value the node carries)
      if x = x' then
        some { s with headNode := x, hd := s.hd + 1, recvd := s.recvd ++ [s.ndata x], pc := upd s.pc f (.rMoved h x) }
      else none
    | _ => none
  | .rData f n d =>
    if s.kind = .bounded then none else
    match s.pc f with
    | .rMoved h x =>
      if n = x ∧ d = s.ndata x then some { s with pc := upd s.pc f (.rGotData h d) } else none
    | .rWrote h d' => if n = h ∧ d = d' ∧ d = s.ndata h then some { s with pc := upd s.pc f (.rDone d) } else none
    | _ => none

/-- channel with a ready_signal -/
def sys (k : Kind) (cap : Nat) : Sys St Ev := { init := init k cap, step := step }

/-- both creation modes: `sysM false` = `sys`, `sysM true` = NULL ready_signal (spinning) -/
def sysM (spin : Bool) (k : Kind) (cap : Nat) : Sys St Ev := { init := initM spin k cap, step := step }

/-! ### log decoding -/

open Signal (fiberId cellFiber splitCell schedulerFuncs skipKinds protoOfRaw isProtoFunc)

/-- `0` ↦ 0, `@M3` ↦ 4 -/
def nodeId (s : String) : Option Nat :=
  if s = "0" then some 0
  else if s.startsWith "@M" then (s.drop 2).toString.toNat?.map (· + 1) else none

def cellNode (c field : String) : Option Nat :=
  match splitCell c with
  | some (a, b) => if b = field ∧ a.startsWith "M" then (a.drop 1).toString.toNat?.map (· + 1) else none
  | none => none

def bufIdx (c : String) : Option Nat :=
  if c.startsWith "buf" then (c.drop 3).toString.toNat? else none

def ofRaw (k : Kind) (r : RawEv) : Option (Option Ev) :=
  let f := r.fiber
  match protoOfRaw r with
  | some e => some (some (.p e))
  | none =>
  if isProtoFunc r.func then none else
  if schedulerFuncs.contains r.func || skipKinds.contains r.kind then some none else
  match r.kind, r.args with
  | "note", ["call", "push", v] => v.toNat?.map (fun v => some (.callSend f v))
  | "note", ["woke", v] => some (some (.woke f (v = "1")))
  | "note", ["ret", "push", _] => some (some (.retSend f))
  | "note", ["call", "pop"] => some (some (.callRecv f))
  | "note", ["call", "pop", "try"] => some (some (.callTry f))
  | "note", ["ret", "pop", v] => v.toNat?.map (fun v => some (.retRecv f v))
  | "note", _ => some none
  | kd, args =>
    match k with
    | .bounded =>
      match kd, args with
      | "ld", ["low", v, _] => v.toNat?.map (fun v => some (.ldLow f v))
      | "ld", ["high", v, _] => v.toNat?.map (fun v => some (.ldHigh f v))
      | "st", ["low", v, _] => v.toNat?.map (fun v => some (.stLow f v))
      | "cas", ["high", a, b, c, ok, _] => do
          let a ← a.toNat?; let b ← b.toNat?; let c ← c.toNat?
          pure (some (.casHigh f a b c (ok = "1")))
      | "r", [c, v] => do let i ← bufIdx c; let v ← v.toNat?; pure (some (.rBuf f i v))
      | "w", [c, v] => do let i ← bufIdx c; let v ← v.toNat?; pure (some (.wBuf f i v))
      | _, _ => none
    | .unbounded =>
      match kd, args with
      | "xchg", ["tail", o, n, _] => do let o ← nodeId o; let n ← nodeId n; pure (some (.xchgTail f o n))
      | "r", ["head", h] => (nodeId h).map (fun h => some (.rHead f h))
      | "w", ["head", h] => (nodeId h).map (fun h => some (.wHead f h))
      | "r", [c, v] =>
        match cellNode c "next", cellNode c "data" with
        | some n, _ => (nodeId v).map (fun x => some (.rNext f n x))
        | _, some n => v.toNat?.map (fun d => some (.rData f n d))
        | _, _ => none
      | "w", [c, v] =>
        match cellNode c "next", cellNode c "data" with
        | some n, _ => (nodeId v).map (fun x => some (.wNext f n x))
        | _, some n => v.toNat?.map (fun d => some (.wData f n d))
        | _, _ => none
      | _, _ => none
    | .sp =>
      match kd, args with
      | "ld", ["tail", t, _] => (nodeId t).map (fun t => some (.ldTail f t))
      | "st", ["tail", t, _] => (nodeId t).map (fun t => some (.stTail f t))
      | "ld", ["head", h, _] => (nodeId h).map (fun h => some (.rHead f h))
      | "st", ["head", h, _] => (nodeId h).map (fun h => some (.wHead f h))
      | "ld", [c, v, _] => do let n ← cellNode c "next"; let x ← nodeId v; pure (some (.rNext f n x))
      | "st", [c, v, _] => do let n ← cellNode c "next"; let x ← nodeId v; pure (some (.wNext f n x))
      | "r", [c, v] => do let n ← cellNode c "data"; let d ← v.toNat?; pure (some (.rData f n d))
      | "w", [c, v] => do let n ← cellNode c "data"; let d ← v.toNat?; pure (some (.wData f n d))
      | _, _ => none

/-! ### API-level monitor: the generic queue-history monitor (per-sender FIFO, exactly once,
    nothing invented/lost, capacity for the bounded kind) with FIBERS as threads -/

def noteOfRaw (r : RawEv) : Option QueueHist.Note :=
  if r.kind ≠ "note" then none else
  match r.args with
  | ["call", "push", v] => v.toNat?.map (QueueHist.Note.callPush r.fiber)
  | ["ret", "push", v] => v.toNat?.map (QueueHist.Note.retPush r.fiber)
  | ["call", "pop"] => some (QueueHist.Note.callPop r.fiber)
  | ["call", "pop", "try"] => some (QueueHist.Note.callPop r.fiber)
  | ["ret", "pop", v] => v.toNat?.map (QueueHist.Note.retPop r.fiber)
  | _ => none

def fiberQueueMonitor (cfg : QueueHist.Cfg) (lines : List String) : Option String :=
  let notes := lines.filterMap (fun l => (parseLine l).bind noteOfRaw)
  QueueHist.check cfg (QueueHist.opsOf notes)

/-- did every `call` note get its `ret` (i.e. the run completed)? -/
def allReturned (lines : List String) : Bool :=
  let rec go (pend : List Nat) : List String → Bool
    | [] => pend.isEmpty
    | l :: ls =>
      match parseLine l with
      | some r =>
        if r.kind = "note" then
          match r.args.head? with
          | some "call" => go (r.fiber :: pend) ls
          | some "ret" => go (pend.erase r.fiber) ls
          | _ => go pend ls
        else go pend ls
      | none => go pend ls
  go [] lines

def kindOf : List String → Kind × Nat
  | "chan" :: "b" :: c :: _ => (.bounded, c.toNat?.getD 0)
  | "chan" :: "u" :: _ => (.unbounded, 0)
  | "chan" :: "s" :: _ => (.sp, 0)
  | _ => (.bounded, 0)

/-- `init chan <kind> <cap> spin`: the channel was created with a NULL ready_signal -/
def spinOf : List String → Bool
  | [_, _, _, "spin"] => true
  | _ => false

def drive (lines : List String) : IO UInt32 := do
  let (k, cap) := kindOf (initArgs lines)
  let spin := spinOf (initArgs lines)
  let body := lines.filter (fun l => !isInit l)
  let v := validateP (sysM spin k cap) (ofRaw k) body
  -- all sends complete ⇒ every message must have been received (the receiver's script
  -- receives as many as are sent); FIFO is promised per sender for the multi-sender kinds
  -- a try_receive may report "empty" (`ret pop 0`) only if the channel was empty at some instant
  -- of the call or a send was in flight (Props/C11 `try_empty_*`): at the API level, an EMPTY
  -- whose call overlapped no send at all while a completed send was unreceived is a violation
  let cfg : QueueHist.Cfg :=
    { disc := .fifo, capacity := cap, drained := allReturned body, checkEmpty := true,
      emptyOkInFlight := true, perProducerFifo := true }
  report "Chan" v (fiberQueueMonitor cfg body)

end LibfiberVerif.Chan
