/-
  Model/Join.lean — fiber_join / fiber_tryjoin / fiber_detach / fiber_mark_completed
  (src/fiber.c) on top of fiber_manager_set_and_wait / fiber_manager_clear_or_wait, the
  deferred `set_wait_location` store and the `done_fiber` destruction of
  fiber_manager_do_maintenance (src/fiber_manager.c) — property C04.

  Actors are FIBERS (the `fiber` column of the log), any number of them (`Nat → Pc`), on any
  number of kernel threads.  One model step = one access to a registered cell of some fiber
  `g` (`detach_state`, `join_info`, `result`, and `state` as written by the wait / wake /
  completion code), in exactly the order the C code performs them, plus the API notes of the
  harness and the runtime's `fdestroy` event.  Scheduler traffic on `state` is the runtime
  model's business (C01/C02); it is kept as a `touch` event so that the monitor can see any
  access to a fiber after its destruction.

  C code (D = detach_state ∈ {0 NONE, 1 WAIT_FOR_JOINER, 2 WAIT_TO_JOIN, 3 DETACHED}):

    fiber_mark_completed(f, r):  store f.result := r;
        if load(f.D) ≠ 3 { old := xchg(f.D, 1);
          old = 0 → set_and_wait(&f.join_info, f)                     -- park in own mailbox
          old = 2 → p := clear_or_wait(&f.join_info); p.result := load f.result;
                    p.state := READY; schedule p }
        f.state := DONE;                 then done_fiber := f; yield; the SUCCESSOR destroys f
    fiber_join(g):   if load(g.D) = 3 → ERROR;  old := xchg(g.D, 2);
          old = 0 → set_and_wait(&g.join_info, self); v := load self.result; self.result := 0; SUCCESS v
          old = 1 → v := load g.result; p := clear_or_wait(&g.join_info); p.state := READY; schedule p; SUCCESS v
          else    → ERROR
    fiber_tryjoin(g): if load(g.D) = 3 → ERROR; if load(g.D) = 1 { old := xchg(g.D, 2);
          old = 1 → (as join's old = 1 branch) SUCCESS v }  ERROR
    fiber_detach(g): old := xchg(g.D, 3);
          old ∈ {1,2} → p := clear_or_wait(&g.join_info); p.state := READY; schedule p; SUCCESS
          old = 3 → ERROR;  old = 0 → SUCCESS
    set_and_wait(loc, v):  manager.set_wait_location := loc, value := v; self.state := WAITING; yield
                           — the SUCCESSOR fiber performs `*loc := v` in do_maintenance
    clear_or_wait(loc):    loop { p := xchg(loc, 0); if p ≠ 0 return p; yield }

  NULL result pointer (`fiber_join(g, NULL)`, `fiber_tryjoin(g, NULL)`; events `callN` / `retN`,
  flag `nul a` for the call in flight): every `if (result) *result = …;` is skipped, i.e.
    joiner first  : after the wake-up NO load of self.result, but still `self.result := 0`
    finisher first: NO load of g.result, straight into clear_or_wait(&g.join_info)
  The program counters of such a call carry, as a ghost, the value the call would have delivered
  (the content of the caller's hand-over slot before it is cleared / g.result at the exchange);
  on a successful `retN` that ghost value is recorded in `succ g` like a delivered one, so every
  theorem about `succ` speaks about NULL-result calls too.

  The model accepts what the code does, including the histories in which the protocol goes
  wrong (see Props/C04.lean); those are recognised by three ghost flags per target that are
  set at the exchange that opens the window:
    tDetach g : a detach's exchange found WAIT_TO_JOIN (a joiner is parked, or a joiner has
                already taken the finished fiber and left the stale value behind)
    tThird g  : a join/tryjoin/detach found WAIT_FOR_JOINER although the finishing fiber had
                itself found WAIT_TO_JOIN (it is a taker of the mailbox, not parked in it)
    tOver g   : an exchange of the finishing fiber / join / tryjoin found DETACHED and
                overwrote it (detach slipped in between the load and the exchange)
-/
import LibfiberVerif.Core.Sys
import LibfiberVerif.Core.Event
import LibfiberVerif.Driver

namespace LibfiberVerif.Join

def NONE : Nat := 0
def WFJ : Nat := 1
def WTJ : Nat := 2
def DET : Nat := 3
def READY : Nat := 2
def WAITING : Nat := 3
def DONE : Nat := 4

inductive Op | join | tryjoin | detach
  deriving Repr, DecidableEq, Inhabited

inductive Pc
  | idle
  | called (op : Op) (g : Nat)
  | tLoaded1 (g : Nat)                   -- tryjoin: first load ≠ DETACHED
  | loaded (op : Op) (g : Nat)           -- join: load ≠ DETACHED / tryjoin: second load = WAIT_FOR_JOINER
  | jPark0 (g : Nat)                     -- join: exchange found NONE
  | jParking (g : Nat)                   -- own state := WAITING written; deferred store pending
  | jParked (g : Nat)                    -- the successor stored us into g's mailbox
  | jWoken (g : Nat)                     -- a waker wrote our state := READY
  | jGotRes (g v : Nat)                  -- read own result
  | take0 (op : Op) (g : Nat)            -- join/tryjoin: exchange found WAIT_FOR_JOINER
  | take (op : Op) (g v : Nat)           -- in clear_or_wait on g's mailbox (v = result read)
  | wake (op : Op) (g v p : Nat)         -- took p out of the mailbox: about to wake it
  | retn (op : Op) (g : Nat) (ok : Bool) (v : Nat)
  | fRet (v : Nat)                       -- own function returned v
  | fStored                              -- result stored
  | fLoaded                              -- load(D) ≠ DETACHED
  | fPark0 | fParking | fParked | fWoken
  | fTake                                -- exchange found WAIT_TO_JOIN: in clear_or_wait on own mailbox
  | fGot (p : Nat) | fGotRes (p v : Nat) | fGave (p : Nat)
  | fMark                                -- about to write state := DONE
  | fDone
  deriving Repr, DecidableEq, Inhabited

inductive Ev
  | call (a : Nat) (op : Op) (g : Nat)
  | ret (a : Nat) (op : Op) (g : Nat) (ok : Bool) (v : Nat)
  | callN (a : Nat) (op : Op) (g : Nat)          -- join / tryjoin with a NULL result pointer
  | retN (a : Nat) (op : Op) (g : Nat) (ok : Bool)   -- … returns (no value is observed)
  | fnRet (f v : Nat)                          -- f's run_function returned v (ghost, from the harness note)
  | ldDet (a g v : Nat)
  | xchgDet (a g old new : Nat)
  | stRes (a g v : Nat)
  | ldRes (a g v : Nat)
  | xchgJi (a g old : Nat)                     -- xchg(&g.join_info, NULL) returned old
  | wJi (a g v : Nat)                          -- deferred `*set_wait_location = v` done by successor a
  | wState (a g v : Nat)                       -- state writes of the wait / wake / completion code
  | destroy (a g : Nat)                        -- fiber_destroy(g) run by a
  | touch (a g : Nat)                          -- scheduler access to a cell of g / switch to g
  deriving Repr, DecidableEq, Inhabited

structure St where
  det : Nat → Nat
  ji : Nat → Nat
  res : Nat → Nat
  pc : Nat → Pc
  /-- ghost: return value of the fiber's function -/
  retval : Nat → Option Nat
  /-- ghost: values delivered by successful join/tryjoin calls on g, most recent first -/
  succ : Nat → List Nat
  /-- ghost: some detach on g returned SUCCESS -/
  detRet : Nat → Bool
  /-- ghost: a detach exchanged g's detach_state (g is detached from then on) -/
  detX : Nat → Bool
  /-- ghost: a join/tryjoin claimed the finished fiber g (its exchange found WAIT_FOR_JOINER)
      or the finishing fiber took its parked joiner out of the mailbox -/
  claimed : Nat → Bool
  destroyed : Nat → Bool
  /-- ghost: the finishing fiber's exchange found WAIT_TO_JOIN -/
  finTook : Nat → Bool
  tDetach : Nat → Bool
  tThird : Nat → Bool
  tOver : Nat → Bool
  /-- ghost: number of post-exchange accesses to a cell of g after its destruction -/
  late : Nat → Nat
  /-- ghost: `holder p = some a`: a took p out of a mailbox and has not woken it yet -/
  holder : Nat → Option Nat
  /-- ghost: the fiber whose exchange of g's detach_state found NONE and that therefore parks in g's mailbox -/
  first : Nat → Option Nat
  /-- ghost: the client whose exchange found WAIT_FOR_JOINER (it takes the finished fiber) -/
  taker : Nat → Option Nat
  /-- the call a has in flight was made with a NULL result pointer -/
  nul : Nat → Bool

def init (isTarget : Nat → Bool) : St :=
  { det := fun f => if isTarget f then NONE else DET, ji := fun _ => 0, res := fun _ => 0,
    pc := fun _ => .idle, retval := fun _ => none, succ := fun _ => [], detRet := fun _ => false,
    detX := fun f => !isTarget f, claimed := fun _ => false, destroyed := fun _ => false,
    finTook := fun _ => false, tDetach := fun _ => false, tThird := fun _ => false,
    tOver := fun _ => false, late := fun _ => 0, holder := fun _ => none, first := fun _ => none,
    taker := fun _ => none, nul := fun _ => false }

def untainted (s : St) (g : Nat) : Prop :=
  s.tDetach g = false ∧ s.tThird g = false ∧ s.tOver g = false

instance (s : St) (g : Nat) : Decidable (untainted s g) := by unfold untainted; infer_instance

/-- Accesses that count as "touching the fiber after its destruction": everything a protocol
    participant does after its exchange of `detach_state`.  The loads / the exchange of a client
    call that has not exchanged yet are not counted: such a call has no claim on the fiber, and if
    the fiber is (legitimately) destroyed before the call's exchange the handle was invalid —
    a client error inherent to raw handles.  Scheduler traffic (`touch`) is C01's business. -/
def Ev.counted : Ev → Bool
  | .stRes .. | .ldRes .. | .xchgJi .. | .wJi .. | .wState .. => true
  | _ => false

/-- the fiber whose cell the event accesses -/
def Ev.cellOf : Ev → Nat
  | .call a _ _ => a | .ret a _ _ _ _ => a | .fnRet f _ => f
  | .callN a _ _ => a | .retN a _ _ _ => a
  | .ldDet _ g _ => g | .xchgDet _ g _ _ => g | .stRes _ g _ => g
  | .ldRes _ g _ => g | .xchgJi _ g _ => g | .wJi _ g _ => g
  | .wState _ g _ => g | .destroy a _ => a | .touch _ g => g

/-- the fiber acting -/
def Ev.actor : Ev → Nat
  | .call a _ _ => a | .ret a _ _ _ _ => a | .fnRet f _ => f
  | .callN a _ _ => a | .retN a _ _ _ => a
  | .ldDet a _ _ => a | .xchgDet a _ _ _ => a | .stRes a _ _ => a
  | .ldRes a _ _ => a | .xchgJi a _ _ => a | .wJi a _ _ => a
  | .wState a _ _ => a | .destroy a _ => a | .touch a _ => a

def Ev.who (e : Ev) : Nat × Nat := (e.actor, e.cellOf)

def stepCore (s : St) : Ev → Option St
  | .call a op g =>
    if s.pc a = .idle then some { s with pc := upd s.pc a (.called op g), nul := upd s.nul a false } else none
  | .callN a op g =>
    if s.pc a = .idle ∧ op ≠ .detach then some { s with pc := upd s.pc a (.called op g), nul := upd s.nul a true }
    else none
  | .retN a op g ok =>
    -- the value in the program counter is the ghost of a NULL-result call (see the header)
    match s.pc a with
    | .retn op' g' ok' v =>
      if op' = op ∧ g' = g ∧ ok' = ok ∧ op ≠ .detach ∧ s.nul a = true then
        some { s with pc := upd s.pc a .idle, succ := if ok then upd s.succ g (v :: s.succ g) else s.succ }
      else none
    | _ => none
  | .ret a op g ok v =>
    if s.pc a = .retn op g ok v ∧ s.nul a = false then
      if op = .detach then
        some { s with pc := upd s.pc a .idle, detRet := if ok then upd s.detRet g true else s.detRet }
      else
        some { s with pc := upd s.pc a .idle, succ := if ok then upd s.succ g (v :: s.succ g) else s.succ }
    else none
  | .fnRet f v =>
    if s.pc f = .idle ∧ s.retval f = none then
      some { s with pc := upd s.pc f (.fRet v), retval := upd s.retval f (some v) }
    else none
  | .ldDet a g v =>
    if v ≠ s.det g then none else
    match s.pc a with
    | .called op g' =>
      if g ≠ g' ∨ op = .detach then none
      else
        -- a client that reads WAIT_FOR_JOINER although the finishing fiber is a taker is inside window `tThird`
        let s := if v = WFJ ∧ s.finTook g = true then { s with tThird := upd s.tThird g true } else s
        if v = DET then some { s with pc := upd s.pc a (.retn op g false 0) }
        else if op = .join then some { s with pc := upd s.pc a (.loaded .join g) }
        else some { s with pc := upd s.pc a (.tLoaded1 g) }
    | .tLoaded1 g' =>
      if g ≠ g' then none
      else
        let s := if v = WFJ ∧ s.finTook g = true then { s with tThird := upd s.tThird g true } else s
        if v = WFJ then some { s with pc := upd s.pc a (.loaded .tryjoin g) }
        else some { s with pc := upd s.pc a (.retn .tryjoin g false 0) }
    | .fStored =>
      if g ≠ a then none
      else if v = DET then some { s with pc := upd s.pc a .fMark }
      else some { s with pc := upd s.pc a .fLoaded }
    | _ => none
  | .xchgDet a g old new =>
    if old ≠ s.det g then none else
    match s.pc a with
    | .loaded op g' =>
      if g ≠ g' ∨ new ≠ WTJ ∨ op = .detach then none
      else if old = NONE ∧ op = .join then
        some { s with det := upd s.det g new, pc := upd s.pc a (.jPark0 g), first := upd s.first g (some a) }
      else if old = WFJ then
        if s.nul a = true then
          -- NULL result pointer: g.result is not read; ghost value = g.result at this instant
          some { s with det := upd s.det g new, pc := upd s.pc a (.take op g (s.res g)), claimed := upd s.claimed g true,
                        taker := upd s.taker g (some a),
                        tThird := if s.finTook g then upd s.tThird g true else s.tThird }
        else
        some { s with det := upd s.det g new, pc := upd s.pc a (.take0 op g), claimed := upd s.claimed g true,
                      taker := upd s.taker g (some a),
                      tThird := if s.finTook g then upd s.tThird g true else s.tThird }
      else if old = DET then
        some { s with det := upd s.det g new, pc := upd s.pc a (.retn op g false 0), tOver := upd s.tOver g true }
      else some { s with det := upd s.det g new, pc := upd s.pc a (.retn op g false 0) }
    | .called .detach g' =>
      if g ≠ g' ∨ new ≠ DET then none
      else if old = WFJ then
        some { s with det := upd s.det g new, pc := upd s.pc a (.take .detach g 0), detX := upd s.detX g true,
                      taker := upd s.taker g (some a),
                      tThird := if s.finTook g then upd s.tThird g true else s.tThird }
      else if old = WTJ then
        some { s with det := upd s.det g new, pc := upd s.pc a (.take .detach g 0), detX := upd s.detX g true,
                      tDetach := upd s.tDetach g true }
      else if old = DET then some { s with det := upd s.det g new, pc := upd s.pc a (.retn .detach g false 0) }
      else some { s with det := upd s.det g new, pc := upd s.pc a (.retn .detach g true 0), detX := upd s.detX g true }
    | .fLoaded =>
      if g ≠ a ∨ new ≠ WFJ then none
      else if old = NONE then
        some { s with det := upd s.det g new, pc := upd s.pc a .fPark0, first := upd s.first g (some a) }
      else if old = WTJ then
        some { s with det := upd s.det g new, pc := upd s.pc a .fTake, finTook := upd s.finTook a true }
      else if old = DET then
        some { s with det := upd s.det g new, pc := upd s.pc a .fMark, tOver := upd s.tOver a true }
      else some { s with det := upd s.det g new, pc := upd s.pc a .fMark }
    | _ => none
  | .wState a g v =>
    match s.pc a with
    | .jPark0 t => if g = a ∧ v = WAITING then some { s with pc := upd s.pc a (.jParking t) } else none
    | .fPark0 => if g = a ∧ v = WAITING then some { s with pc := upd s.pc a .fParking } else none
    | .wake op t val p =>
      if g = p ∧ v = READY ∧ p ≠ a then
        match s.pc p with
        | .jParked t' => some { s with pc := upd (upd s.pc p (.jWoken t')) a (.retn op t true val),
                                       holder := upd s.holder p none }
        | .fParked => some { s with pc := upd (upd s.pc p .fWoken) a (.retn op t true val),
                                    holder := upd s.holder p none }
        | _ => none
      else none
    | .fGave p =>
      if g = p ∧ v = READY ∧ p ≠ a then
        match s.pc p with
        | .jParked t' => some { s with pc := upd (upd s.pc p (.jWoken t')) a .fMark,
                                       holder := upd s.holder p none }
        | _ => none
      else none
    | .fMark => if g = a ∧ v = DONE then some { s with pc := upd s.pc a .fDone } else none
    | .fWoken => if g = a ∧ v = DONE then some { s with pc := upd s.pc a .fDone } else none
    | _ => none
  | .wJi a g v =>
    if v = 0 ∨ a = v then none else
    match s.pc v with
    | .jParking t => if t = g then some { s with ji := upd s.ji g v, pc := upd s.pc v (.jParked g) } else none
    | .fParking => if v = g then some { s with ji := upd s.ji g v, pc := upd s.pc v .fParked } else none
    | _ => none
  | .xchgJi a g old =>
    if old ≠ s.ji g then none else
    match s.pc a with
    | .take op t v =>
      if g ≠ t then none
      else if old = 0 then some s
      else some { s with ji := upd s.ji g 0, pc := upd s.pc a (.wake op t v old), holder := upd s.holder old (some a) }
    | .fTake =>
      if g ≠ a then none
      else if old = 0 then some s
      else some { s with ji := upd s.ji g 0, pc := upd s.pc a (.fGot old), claimed := upd s.claimed a true,
                         holder := upd s.holder old (some a) }
    | _ => none
  | .ldRes a g v =>
    if v ≠ s.res g then none else
    match s.pc a with
    | .take0 op t => if g = t then some { s with pc := upd s.pc a (.take op t v) } else none
    | .fGot p => if g = a then some { s with pc := upd s.pc a (.fGotRes p v) } else none
    | .jWoken t => if g = a ∧ s.nul a = false then some { s with pc := upd s.pc a (.jGotRes t v) } else none
    | _ => none
  | .stRes a g v =>
    match s.pc a with
    | .fRet v' => if g = a ∧ v = v' then some { s with res := upd s.res g v, pc := upd s.pc a .fStored } else none
    | .fGotRes p v' => if g = p ∧ v = v' then some { s with res := upd s.res g v, pc := upd s.pc a (.fGave p) } else none
    | .jGotRes t v' => if g = a ∧ v = 0 then some { s with res := upd s.res g 0, pc := upd s.pc a (.retn .join t true v') } else none
    | .jWoken t =>
      -- NULL result pointer: the slot is cleared without having been read; ghost value = its content
      if g = a ∧ v = 0 ∧ s.nul a = true then
        some { s with res := upd s.res g 0, pc := upd s.pc a (.retn .join t true (s.res a)) }
      else none
    | _ => none
  | .destroy a g =>
    if s.pc g = .fDone ∧ s.destroyed g = false ∧ a ≠ g then some { s with destroyed := upd s.destroyed g true }
    else none
  | .touch _ _ => some s

def step (s : St) (e : Ev) : Option St :=
  (stepCore s e).map (fun s' =>
    { s' with late := if e.counted ∧ s'.destroyed e.cellOf then upd s'.late e.cellOf (s'.late e.cellOf + 1) else s'.late })

def sys (isTarget : Nat → Bool) : Sys St Ev := { init := init isTarget, step := step }

/-! ### log decoding -/

def fiberOfPtr (s : String) : Option Nat :=
  if s = "0" then some 0
  else if s.startsWith "@F" then (s.drop 2).toString.toNat? else none

def splitCell (c : String) : Option (Nat × String) :=
  match c.splitOn "." with
  | [a, b] => if a.startsWith "F" then (a.drop 1).toString.toNat?.map (fun g => (g, b))
              else if a.startsWith "N" then (a.drop 1).toString.toNat?.map (fun g => (g, "N" ++ b))
              else none
  | _ => none

/-- functions whose accesses to fiber cells are scheduler traffic (C01/C02) -/
def schedulerFuncs : List String :=
  ["fiber_manager_yield", "fiber_scheduler_next", "fiber_manager_switch_to",
   "fiber_manager_do_maintenance", "fiber_scheduler_schedule", "fiber_scheduler_load_balance",
   "fiber_manager_schedule"]

def opOf (s : String) : Option Op :=
  if s = "join" then some .join else if s = "tryjoin" then some .tryjoin
  else if s = "detach" then some .detach else none

/-- the NULL-result variants as named in the harness notes -/
def opOfN (s : String) : Option Op :=
  if s = "joinn" then some .join else if s = "tryjoinn" then some .tryjoin else none

/-- targets are numbered from fiber id 16 -/
def tid (i : String) : Option Nat := i.toNat?.map (· + 16)

def ofRaw (r : RawEv) : Option (Option Ev) :=
  let a := r.fiber
  match r.kind, r.args with
  | "note", ["call", op, i] =>
    match opOfN op with
    | some o => do let g ← tid i; pure (some (.callN a o g))
    | none => do let o ← opOf op; let g ← tid i; pure (some (.call a o g))
  | "note", ["ret", "detach", i, rc] => do let g ← tid i; pure (some (.ret a .detach g (rc = "1") 0))
  | "note", ["ret", op, i, rc] => do let o ← opOfN op; let g ← tid i; pure (some (.retN a o g (rc = "1")))
  | "note", ["ret", op, i, rc, v] => do
      let o ← opOf op; let g ← tid i; let v ← v.toNat?; pure (some (.ret a o g (rc = "1") v))
  | "note", ["target", _, "returns", v] => v.toNat?.map (fun v => some (.fnRet a v))
  | "note", ["returns", v] => v.toNat?.map (fun v => some (.fnRet a v))
  | "note", _ => some none
  | "switch", [g] => g.toNat?.map (fun g => some (.touch a g))
  | "fcreate", _ => some none
  | "fdestroy", [g] => g.toNat?.map (fun g => some (.destroy a g))
  | "rqpush", _ => some none
  | "rqpop", _ => some none
  | "rqsteal", _ => some none
  | "relax", _ => some none
  | "fence", _ => some none
  | k, c :: vs =>
    match splitCell c with
    | none => none
    | some (g, fld) =>
      if r.func = "fiber_destroy" ∨ r.func = "fiber_context_destroy" then some none   -- part of the destruction itself
      else if fld = "state" ∧ schedulerFuncs.contains r.func then some (some (.touch a g))
      else if fld = "node" ∨ fld = "scratch" ∨ fld = "Nnext" ∨ fld = "Ndata" then some (some (.touch a g))
      else
      match k, fld, vs with
      | "ld", "detach", [v, _] => v.toNat?.map (fun v => some (.ldDet a g v))
      | "xchg", "detach", [o, n, _] => do let o ← o.toNat?; let n ← n.toNat?; pure (some (.xchgDet a g o n))
      | "st", "result", [v, _] => v.toNat?.map (fun v => some (.stRes a g v))
      | "ld", "result", [v, _] => v.toNat?.map (fun v => some (.ldRes a g v))
      | "xchg", "join_info", [o, "0", _] => (fiberOfPtr o).map (fun o => some (.xchgJi a g o))
      | "w", "join_info", [v] =>
        if r.func = "fiber_manager_do_maintenance" then (fiberOfPtr v).map (fun v => some (.wJi a g v)) else none
      | "w", "state", [v] => v.toNat?.map (fun v => some (.wState a g v))
      | _, _, _ => none
  | _, _ => none

/-! ### monitor on the decoded history (independent of `step`, so it also runs on histories
    the model rejects) -/

structure Mon where
  retval : Nat → Option Nat := fun _ => none
  succ : Nat → Nat := fun _ => 0
  detRet : Nat → Bool := fun _ => false
  detX : Nat → Bool := fun _ => false
  claimed : Nat → Bool := fun _ => false
  destroyed : Nat → Bool := fun _ => false
  finTook : Nat → Bool := fun _ => false
  retired : Nat → Bool := fun _ => false
  tDetach : Nat → Bool := fun _ => false
  tThird : Nat → Bool := fun _ => false
  tOver : Nat → Bool := fun _ => false
  /-- the windows of a target in the order they were opened (an anomaly is attributed to the
      window that was opened first: the later ones are usually its consequences) -/
  tOrder : Nat → List String := fun _ => []
  /-- calls in flight: (fiber, op, target, has exchanged detach_state) -/
  open_ : List (Nat × Op × Nat × Bool) := []
  /-- calls in flight that had not exchanged `detach_state` yet when they touched the already
      destroyed target: such a call has no claim on the fiber, the handle was invalid (client
      error, inherent to raw handles); whatever the call does afterwards is not held against
      the library -/
  invalid : List (Nat × Nat) := []
  /-- fibers whose function returned but that are not destroyed yet -/
  finishing : List Nat := []
  /-- violations on histories without a flagged window / with one -/
  plain : List String := []
  tainted : List String := []

def taintName (m : Mon) (g : Nat) : Option String :=
  match m.tOrder g with
  | w :: _ => some w
  | [] =>
    if m.tDetach g then some "detach" else if m.tThird g then some "third-party"
    else if m.tOver g then some "overwrite" else none

def Mon.opened (m : Mon) (g : Nat) (w : String) : Mon :=
  if (m.tOrder g).contains w then m else { m with tOrder := upd m.tOrder g (m.tOrder g ++ [w]) }

def Mon.flag (m : Mon) (g : Nat) (kind : String) (detail : String) : Mon :=
  match taintName m g with
  | none => { m with plain := m.plain ++ [s!"{kind} target F{g}: {detail}"] }
  | some t => { m with tainted := m.tainted ++ [s!"{kind}-after-{t} target F{g}: {detail}"] }

def opName : Op → String
  | .join => "join" | .tryjoin => "tryjoin" | .detach => "detach"

def evName : Ev → String
  | .call a op g => s!"call {opName op} F{g} by F{a}"
  | .ret a op g ok v => s!"ret {opName op} F{g} by F{a} ok={ok} value={v}"
  | .callN a op g => s!"call {opName op} F{g} (NULL result pointer) by F{a}"
  | .retN a op g ok => s!"ret {opName op} F{g} (NULL result pointer) by F{a} ok={ok}"
  | .fnRet f v => s!"function of F{f} returns {v}"
  | .ldDet a g v => s!"F{a} loads F{g}.detach_state = {v}"
  | .xchgDet a g o n => s!"F{a} exchanges F{g}.detach_state {o} -> {n}"
  | .stRes a g v => s!"F{a} stores F{g}.result := {v}"
  | .ldRes a g v => s!"F{a} loads F{g}.result = {v}"
  | .xchgJi a g o => s!"F{a} exchanges F{g}.join_info F{o} -> 0"
  | .wJi a g v => s!"F{a} stores F{g}.join_info := F{v}"
  | .wState a g v => s!"F{a} writes F{g}.state := {v}"
  | .destroy a g => s!"F{a} destroys F{g}"
  | .touch a g => s!"F{a} touches / switches to F{g}"

/-- a join / tryjoin / detach call returns; `v = none`: the call had a NULL result pointer, no
    value was observed (it still counts as a success for every other clause) -/
def monRet (m : Mon) (a : Nat) (op : Op) (g : Nat) (ok : Bool) (v : Option Nat) : Mon :=
  let inv := m.invalid.contains (a, g)
  let m := { m with open_ := m.open_.filter (fun c => !(c.1 = a ∧ c.2.2.1 = g)),
                    invalid := m.invalid.filter (· ≠ (a, g)) }
  let vs := match v with | some v => s!" value {v}" | none => " (NULL result pointer)"
  match op, ok with
  | .detach, true => { m with detRet := upd m.detRet g true, retired := upd m.retired g true }
  | .detach, false => { m with retired := upd m.retired g true }
  | _, false =>
    match v with
    | some v => if v ≠ 0 then m.flag g "failed-with-value" s!"{opName op} by F{a} failed but delivered {v}" else m
    | none => m
  | _, true =>
    let m := if inv then m.flag g "success-on-destroyed" s!"{opName op} by F{a} started after the destruction and returned SUCCESS" else m
    let m :=
      match m.retval g, v with
      | none, _ => m.flag g "early-success" s!"{opName op} by F{a} returned SUCCESS{vs} before the target's function returned"
      | some w, some v => if v ≠ w then m.flag g "wrong-value" s!"{opName op} by F{a} returned SUCCESS value {v}, the target returned {w}" else m
      | some _, none => m
    let m := if m.succ g != 0 then m.flag g "double-success" s!"{opName op} by F{a} is success number {m.succ g + 1}" else m
    let m := if m.detRet g then m.flag g "success-after-detach" s!"{opName op} by F{a} succeeded after a detach had returned" else m
    { m with succ := upd m.succ g (m.succ g + 1), retired := upd m.retired g true }

def monStep (isTarget : Nat → Bool) (m : Mon) (e : Ev) : Mon :=
  let (a, g) := e.who
  -- a call in flight that has not exchanged yet and touches a destroyed target: invalid handle
  let m := match e with
    | .ldDet a g _ | .xchgDet a g _ _ =>
      if m.destroyed g ∧ m.open_.any (fun c => c.1 = a ∧ c.2.2.1 = g ∧ c.2.2.2 = false) ∧ !m.invalid.contains (a, g)
      then { m with invalid := (a, g) :: m.invalid } else m
    | _ => m
  let m := match e with
    | .xchgDet a g _ _ =>
      { m with open_ := m.open_.map (fun c => if c.1 = a ∧ c.2.2.1 = g then (c.1, c.2.1, g, true) else c) }
    | _ => m
  -- the windows (flags) opened by this exchange; set before anything is reported for it
  let m := match e with
    | .xchgDet a g old new =>
      if m.invalid.contains (a, g) then m else
      let m := if new = DET then { m with detX := upd m.detX g true } else m
      let m := if new = DET ∧ old = WTJ then ({ m with tDetach := upd m.tDetach g true }).opened g "detach" else m
      let m := if new = WFJ ∧ old = WTJ then { m with finTook := upd m.finTook g true, claimed := upd m.claimed g true } else m
      let m := if new ≠ WFJ ∧ old = WFJ ∧ m.finTook g then ({ m with tThird := upd m.tThird g true }).opened g "third-party" else m
      let m := if new ≠ DET ∧ old = WFJ then { m with claimed := upd m.claimed g true } else m
      let m := if new ≠ DET ∧ old = DET then ({ m with tOver := upd m.tOver g true }).opened g "overwrite" else m
      m
    | .ldDet a g v =>
      if v = WFJ ∧ m.finTook g ∧ a ≠ g ∧ !m.invalid.contains (a, g) then ({ m with tThird := upd m.tThird g true }).opened g "third-party" else m
    | _ => m
  -- (e) any event by or on a destroyed target
  let m := match e with
    | .destroy _ _ => m
    | _ =>
      let m := if isTarget g ∧ m.destroyed g ∧ !m.invalid.contains (a, g) then m.flag g "use-after-destroy" (evName e) else m
      if a ≠ g ∧ isTarget a ∧ m.destroyed a then m.flag a "use-after-destroy" ("the destroyed fiber runs: " ++ evName e) else m
  match e with
  | .call a op g | .callN a op g =>
    let m := if m.retired g then m.flag g "contract" s!"harness issued {opName op} by F{a} on a retired target" else m
    { m with open_ := (a, op, g, false) :: m.open_ }
  | .ret a op g ok v => monRet m a op g ok (some v)
  | .retN a op g ok => monRet m a op g ok none
  | .fnRet f v => { m with retval := upd m.retval f (some v), finishing := f :: m.finishing }
  | .destroy a g =>
    let m := if a = g then m.flag g "destroy-by-self" s!"fiber_destroy ran on the fiber's own stack" else m
    let m := if m.destroyed g then m.flag g "double-destroy" "destroyed twice" else m
    let m := if isTarget g ∧ m.retval g = none then m.flag g "destroy-before-return" "destroyed before its function returned" else m
    let m := if isTarget g ∧ !(m.detX g || m.claimed g) then m.flag g "destroy-unjoined" "destroyed although neither joined nor detached" else m
    { m with destroyed := upd m.destroyed g true, finishing := m.finishing.filter (· ≠ g) }
  | _ => m

/-- (f) end of the log: nothing may be left parked / spinning -/
def monEnd (isTarget : Nat → Bool) (m : Mon) : Mon :=
  let m := m.open_.foldl (fun m c =>
    if m.invalid.contains (c.1, c.2.2.1) then m
    else m.flag c.2.2.1 "stranded" s!"{opName c.2.1} by F{c.1} never returned") m
  m.finishing.foldl (fun m f =>
    if isTarget f ∧ (m.detX f || m.claimed f || m.open_.any (fun c => c.2.2.1 = f ∧ c.2.2.2))
    then m.flag f "stranded" "the finished fiber was never destroyed" else m) m

def monitor (isTarget : Nat → Bool) (evs : List Ev) : Option String :=
  let m := monEnd isTarget (evs.foldl (monStep isTarget) {})
  -- a violation on a history without a flagged window is reported alone (it is new whatever
  -- else happened); otherwise ALL classified anomalies of the run are reported, so that the
  -- check can require every one of them to be a listed finding
  match m.plain, m.tainted with
  | p :: _, _ => some p
  | [], [] => none
  | [], ts => some (" && ".intercalate ts.eraseDups)

def drive (lines : List String) : IO UInt32 := do
  let nT := match initArgs lines with
    | [_, _, t, _] => t.toNat?.getD 0
    | _ => 0
  let isTarget := fun f => decide (16 ≤ f ∧ f < 16 + nT)
  -- the log starts at the `init` note (fiber creation happens before it)
  let body := (lines.dropWhile (fun l => !isInit l)).filter (fun l => !isInit l)
  let v := validateP (sys isTarget) ofRaw body
  let evs := body.filterMap (fun l => (parseLine l).bind (fun r => (ofRaw r).join))
  report "Join" v (monitor isTarget evs)

end LibfiberVerif.Join
