/-
  Model/Mpscr.lean — include/mpsc_relaxed_fifo.h (property C15, part `mpscr`).

  The relaxed MPSC queue is an array of `num_producers` SPSC queues plus a round-robin
  `counter` that only the consumer touches.  The model is literally that: `sub i` is the
  state of SPSC queue `i` and every access to it is delegated to `Mpsc.step Kind.spsc`
  (the very step function `Model/Spsc.lean` validates against spsc_fifo.h), so each
  sub-queue inherits the SPSC invariant and theorems.

      push(f, p, n):  spsc_fifo_push(&f->fifos[p % num_producers], n)
      trypop(f):      for (i = 0; i < num_producers; ++i) {
                        index = f->counter % num_producers;  ++f->counter;
                        out = spsc_fifo_trypop(&f->fifos[index]);  if (out) return out; }
                      return NULL;

  Client obligations made explicit (`step` rejects violations): one trypop at a time; a
  thread announces the producer number it is going to use (`producer p` note of the harness)
  and, per producer number, one push at a time (checked by the sub-queue's own step);
  payloads are distinct non-zero tokens across the whole queue; a node being pushed is in no
  sub-queue, used by no other push, and not inside the trypop that hands it out.

  Ghost: `seen` = the sub-queues the trypop in progress has examined and found `next = NULL`.
-/
import LibfiberVerif.Model.Spsc

namespace LibfiberVerif.Mpscr

open Mpsc (Kind)

/-- consumer loop state; `c0` = value of `counter` when trypop was called -/
inductive CPc
  | idle
  /-- about to start iteration `i` (or to return NULL when `i = num_producers`) -/
  | loop (i c0 : Nat)
  | gotC (i c0 c : Nat)
  /-- inside `spsc_fifo_trypop(&fifos[idx])` of iteration `i` -/
  | inSub (i c0 idx : Nat)
  deriving Repr, DecidableEq, Inhabited

inductive Ev
  | producer (t p : Nat)
  | callPop (t : Nat)
  | retPop (t v : Nat)
  | rdCounter (t c : Nat)
  | wrCounter (t c : Nat)
  /-- an access to (or push call/return on) a sub-queue; `qi` = index in the cell name for
      accesses to `fifos[qi].head` / `.tail` -/
  | sub (qi : Option Nat) (e : Mpsc.Ev)
  deriving Repr, DecidableEq, Inhabited

structure St where
  np : Nat
  counter : Nat
  sub : Nat → Mpsc.St
  /-- producer number announced by thread `t` -/
  tq : Nat → Nat
  cpc : CPc
  ct : Nat
  called : List Nat
  seen : List Nat

def init (np : Nat) : St :=
  { np := np, counter := 0, sub := fun i => Mpsc.init (i + 1), tq := fun _ => 0,
    cpc := .idle, ct := 0, called := [], seen := [] }

/-- thread and side of a sub-queue event (`none` = not a sub-queue access) -/
def side : Mpsc.Ev → Option (Nat × Bool)
  | .callPush t _ => some (t, true)
  | .wrDataClient t _ _ => some (t, true)
  | .wrNext t _ _ => some (t, true)
  | .ldTail t _ => some (t, true)
  | .stTail t _ => some (t, true)
  | .retPush t _ => some (t, true)
  | .rdHead t _ => some (t, false)
  | .rdNext t _ _ => some (t, false)
  | .wrHead t _ => some (t, false)
  | .rdDataPop t _ _ => some (t, false)
  | .wrDataPop t _ _ => some (t, false)
  | .rdDataClient t _ _ => some (t, false)
  | .xchgTail _ _ _ => none
  | .callPop _ => none
  | .retPop _ _ => none
  -- mpsc_relaxed_fifo.h has no peek
  | .callPeek _ => none
  | .rdDataPeek _ _ _ => none
  | .retPeek _ _ => none

/-- node `n` is owned by the client w.r.t. sub-queue state `q` -/
def freeIn (q : Mpsc.St) (n : Nat) : Bool :=
  decide (n ∉ q.q) && decide (q.holder n = none) && decide (q.cpc.node ≠ n)

def qiOk (qi : Option Nat) (idx : Nat) : Bool :=
  match qi with
  | none => true
  | some j => j = idx

/-- client obligations that concern the whole queue: payloads are fresh; the node handed to
    push is in no sub-queue, in no other push, and not inside the trypop returning it -/
def clientOk (s : St) : Mpsc.Ev → Bool
  | .callPush _ v => decide (v ∉ s.called)
  | .wrDataClient _ n _ => (List.range s.np).all (fun j => freeIn (s.sub j) n)
  | _ => true

def calledAfter (s : St) : Mpsc.Ev → List Nat
  | .callPush _ v => s.called ++ [v]
  | _ => s.called

def step (s : St) : Ev → Option St
  | .producer t p =>
    if p < s.np ∧ (s.sub (s.tq t)).pc t = .idle then some { s with tq := upd s.tq t p } else none
  | .callPop t =>
    if s.cpc = .idle ∧ (s.sub (s.tq t)).pc t = .idle then
      some { s with cpc := .loop 0 s.counter, ct := t, seen := [] }
    else none
  | .rdCounter t c =>
    match s.cpc with
    | .loop i c0 =>
      if t = s.ct ∧ i < s.np ∧ c = s.counter then some { s with cpc := .gotC i c0 c } else none
    | _ => none
  | .wrCounter t c' =>
    match s.cpc with
    | .gotC i c0 c =>
      if t = s.ct ∧ c' = c + 1 then
        let idx := c % s.np
        match Mpsc.step .spsc (s.sub idx) (.callPop t) with
        | some q' => some { s with counter := c', sub := upd s.sub idx q', cpc := .inSub i c0 idx }
        | none => none
      else none
    | _ => none
  | .retPop t v =>
    match s.cpc with
    | .loop i _ => if t = s.ct ∧ i = s.np ∧ v = 0 then some { s with cpc := .idle } else none
    | .inSub _ _ idx =>
      if t = s.ct ∧ v ≠ 0 then
        match Mpsc.step .spsc (s.sub idx) (.retPop t v) with
        | some q' => some { s with sub := upd s.sub idx q', cpc := .idle }
        | none => none
      else none
    | _ => none
  | .sub qi e =>
    match side e with
    | none => none
    | some (t, true) =>
      let idx := s.tq t
      if idx < s.np ∧ qiOk qi idx ∧ (s.cpc = .idle ∨ s.ct ≠ t) ∧ clientOk s e = true then
        match Mpsc.step .spsc (s.sub idx) e with
        | some q' => some { s with sub := upd s.sub idx q', called := calledAfter s e }
        | none => none
      else none
    | some (t, false) =>
      match s.cpc with
      | .inSub i c0 idx =>
        if t = s.ct ∧ qiOk qi idx then
          match Mpsc.step .spsc (s.sub idx) e with
          | some q' =>
            match e with
            | .rdNext _ _ 0 =>
              -- spsc_fifo_trypop returns NULL: the loop goes on with the next sub-queue
              match Mpsc.step .spsc q' (.retPop t 0) with
              | some q'' =>
                some { s with sub := upd s.sub idx q'', cpc := .loop (i + 1) c0,
                              seen := s.seen ++ [idx] }
              | none => none
            | _ => some { s with sub := upd s.sub idx q' }
          | none => none
        else none
      | _ => none

def sys (np : Nat) : Sys St Ev := { init := init np, step := step }

/-! ### log-line decoding -/

/-- `q3.head` ↦ (3, "head") -/
def queueCell (c : String) : Option (Nat × String) :=
  match c.splitOn "." with
  | [q, f] =>
    if q.startsWith "q" then (q.drop 1).toString.toNat?.map (fun i => (i, f)) else none
  | _ => none

def ofRaw (r : RawEv) : Option Ev :=
  let t := r.tid
  match r.kind, r.args with
  | "note", ["producer", p] => p.toNat?.map (Ev.producer t)
  | "note", ["call", "pop"] => some (Ev.callPop t)
  | "note", ["ret", "pop", v] => v.toNat?.map (Ev.retPop t)
  | "note", a => (Mpsc.noteEv t a).map (Ev.sub none)
  | "r", ["counter", c] => c.toNat?.map (Ev.rdCounter t)
  | "w", ["counter", c] => c.toNat?.map (Ev.wrCounter t)
  | _, c :: _ =>
    match queueCell c with
    | some (i, _) =>
      (Spsc.ofRawNamed s!"q{i}.head" s!"q{i}.tail" r).map (Ev.sub (some i))
    | none => (Spsc.ofRawNamed "" "" r).map (Ev.sub none)
  | _, _ => none

/-- `verifdrv Mpscr <log>`; `note init mpscr <num_producers>`; the harness names the initial
    stub of sub-queue `i` `n<i+1>`.  Monitor: per-producer FIFO only (pushes of different
    threads may be reordered by the round-robin), strict emptiness. -/
def drive (lines : List String) : IO UInt32 := do
  match initArgs lines with
  | ["mpscr", n] =>
    match n.toNat? with
    | some np =>
      let body := lines.filter (fun l => !isInit l)
      let v := validate (sys np) ofRaw body
      let mon := queueMonitor { disc := .fifo, capacity := 0, drained := true, perProducerFifo := true } body
      report "Mpscr" v mon
    | none => IO.println "VALIDATE DIVERGE bad init"; return 1
  | _ => IO.println "VALIDATE DIVERGE missing init"; return 1

end LibfiberVerif.Mpscr
